//! Encoding of pools / coins / fees in protocol lines (shared by the math streams).
use cosmwasm_std::{coin, Coin, Decimal, Uint128};
use mantra_dex_std::fee::{Fee, PoolFee};
use mantra_dex_std::pool_manager::{PoolInfo, PoolStatus, PoolType};

pub struct Toks<'a> {
    pub t: Vec<&'a str>,
    pub i: usize,
}
impl<'a> Toks<'a> {
    pub fn new(line: &'a str) -> Self {
        Toks { t: line.split_whitespace().collect(), i: 0 }
    }
    pub fn s(&mut self) -> &'a str {
        let x = self.t[self.i];
        self.i += 1;
        x
    }
    pub fn u128(&mut self) -> u128 {
        self.s().parse().unwrap()
    }
    pub fn u64(&mut self) -> u64 {
        self.s().parse().unwrap()
    }
    pub fn opt_u128(&mut self) -> Option<u128> {
        let x = self.s();
        if x == "-" { None } else { Some(x.parse().unwrap()) }
    }
    pub fn dec(&mut self) -> Decimal {
        Decimal::raw(self.u128())
    }
    pub fn opt_dec(&mut self) -> Option<Decimal> {
        self.opt_u128().map(Decimal::raw)
    }
    pub fn list_u128(&mut self) -> Vec<u128> {
        let x = self.s();
        if x == "-" { vec![] } else { x.split(',').map(|y| y.parse().unwrap()).collect() }
    }
    pub fn fees(&mut self) -> PoolFee {
        let protocol = self.dec();
        let swap = self.dec();
        let burn = self.dec();
        let extra = self.list_u128();
        PoolFee {
            protocol_fee: Fee { share: protocol },
            swap_fee: Fee { share: swap },
            burn_fee: Fee { share: burn },
            extra_fees: extra.into_iter().map(|e| Fee { share: Decimal::raw(e) }).collect(),
        }
    }
    /// `<cp|ss> <amp> <n> (<denom> <decimals> <amount>)*n <fees…>`
    pub fn pool(&mut self) -> PoolInfo {
        let ty = self.s();
        let amp = self.u64();
        let n = self.u64() as usize;
        let mut denoms = vec![];
        let mut decs = vec![];
        let mut assets = vec![];
        for _ in 0..n {
            let d = self.s().to_string();
            let dc = self.u64() as u8;
            let a = self.u128();
            assets.push(coin(a, d.clone()));
            denoms.push(d);
            decs.push(dc);
        }
        let fees = self.fees();
        PoolInfo {
            pool_identifier: "p.1".to_string(),
            asset_denoms: denoms,
            lp_denom: "factory/pm/p.1.LP".to_string(),
            asset_decimals: decs,
            assets,
            pool_type: if ty == "cp" { PoolType::ConstantProduct } else { PoolType::StableSwap { amp } },
            pool_fees: fees,
            status: PoolStatus::default(),
        }
    }
    pub fn coins(&mut self) -> Vec<Coin> {
        let n = self.u64() as usize;
        (0..n).map(|_| { let d = self.s().to_string(); let a = self.u128(); coin(a, d) }).collect()
    }
}

pub fn fees_str(f: &PoolFee) -> String {
    let ex = if f.extra_fees.is_empty() { "-".to_string() } else {
        f.extra_fees.iter().map(|e| e.share.atomics().to_string()).collect::<Vec<_>>().join(",")
    };
    format!("{} {} {} {}", f.protocol_fee.share.atomics(), f.swap_fee.share.atomics(), f.burn_fee.share.atomics(), ex)
}

pub fn pool_str(p: &PoolInfo) -> String {
    let (ty, amp) = match p.pool_type { PoolType::ConstantProduct => ("cp", 0), PoolType::StableSwap { amp } => ("ss", amp) };
    let mut s = format!("{} {} {}", ty, amp, p.assets.len());
    for (i, a) in p.assets.iter().enumerate() {
        s += &format!(" {} {} {}", a.denom, p.asset_decimals.get(i).copied().unwrap_or(255), a.amount);   // (255: a stored pool with fewer decimals entries than assets — C16 forbids it, the monitors report it; the harness must not fall over)
    }
    s + " " + &fees_str(&p.pool_fees)
}

pub fn coins_str(cs: &[Coin]) -> String {
    let mut s = format!("{}", cs.len());
    for c in cs { s += &format!(" {} {}", c.denom, c.amount); }
    s
}

pub fn opt_str<T: ToString>(o: &Option<T>) -> String {
    match o { Some(x) => x.to_string(), None => "-".to_string() }
}

pub fn u(x: Uint128) -> u128 { x.u128() }
