//! mdx-harness — runs the *real* contracts of /repo in-process and writes one line per operation:
//! `<op> <args…> => <canonical result>`.  The Lean driver replays the left-hand sides through the
//! model; bin/check diffs the two streams.
mod gen;
mod monitors;
mod proto;
mod rng;
mod world;
mod streams;

use std::io::Write;

pub struct Out {
    pub w: Box<dyn Write>,
    pub lines: u64,
    /// when set, lines are held in memory instead of being written (twin deployments)
    pub hold: Option<Vec<String>>,
}
impl Out {
    pub fn buffer() -> Out {
        Out { w: Box::new(std::io::sink()), lines: 0, hold: Some(vec![]) }
    }
    pub fn line(&mut self, lhs: &str, rhs: &str) {
        self.raw(&format!("{} => {}", lhs, rhs));
        self.lines += 1;
    }
    pub fn raw(&mut self, l: &str) {
        match self.hold.as_mut() {
            Some(h) => h.push(l.to_string()),
            None => writeln!(self.w, "{}", l).unwrap(),
        }
    }
    pub fn flush_into(self, o: &mut Out) {
        for l in self.hold.unwrap_or_default() { o.raw(&l); }
    }
}

thread_local! { static IN_GUARD: std::cell::Cell<u32> = const { std::cell::Cell::new(0) }; }

pub fn guarded<T>(f: impl FnOnce() -> Result<T, String>) -> Result<T, String> {
    IN_GUARD.with(|g| g.set(g.get() + 1));
    let r = std::panic::catch_unwind(std::panic::AssertUnwindSafe(f));
    IN_GUARD.with(|g| g.set(g.get() - 1));
    match r {
        Ok(r) => r,
        Err(_) => Err("panic".to_string()),
    }
}

fn main() {
    let default_hook = std::panic::take_hook();
    std::panic::set_hook(Box::new(move |info| {
        // panics of the code under test inside `guarded` are expected (they are rejections)
        if IN_GUARD.with(|g| g.get()) == 0 {
            default_hook(info);
        }
    }));
    let args: Vec<String> = std::env::args().collect();
    if args.len() < 2 {
        eprintln!("usage: mdx-harness <stream> [--seed N] [--cases N] [--out FILE] [--replay FILE]");
        std::process::exit(2);
    }
    let stream = args[1].clone();
    let mut seed = 1u64;
    let mut cases = 200u64;
    let mut out: Option<String> = None;
    let mut replay: Option<String> = None;
    let mut i = 2;
    while i < args.len() {
        match args[i].as_str() {
            "--seed" => { seed = args[i + 1].parse().unwrap(); i += 2; }
            "--cases" => { cases = args[i + 1].parse().unwrap(); i += 2; }
            "--out" => { out = Some(args[i + 1].clone()); i += 2; }
            "--replay" => { replay = Some(args[i + 1].clone()); i += 2; }
            x => { eprintln!("unknown arg {x}"); std::process::exit(2); }
        }
    }
    let w: Box<dyn Write> = match out {
        Some(p) => Box::new(std::io::BufWriter::new(std::fs::File::create(p).unwrap())),
        None => Box::new(std::io::BufWriter::new(std::io::stdout())),
    };
    let mut o = Out { w, lines: 0, hold: None };
    let ok = streams::run(&stream, seed, cases, replay.as_deref(), &mut o);
    o.w.flush().unwrap();
    if !ok {
        eprintln!("unknown stream {stream}");
        std::process::exit(2);
    }
}
