//! Seeded generators of pools, fees and amounts (one PRNG state; see rng.rs).
use cosmwasm_std::{coin, Decimal};
use mantra_dex_std::fee::{Fee, PoolFee};
use mantra_dex_std::pool_manager::{PoolInfo, PoolStatus, PoolType};

use crate::rng::Rng;

pub const DENOMS: [&str; 6] = ["uusdc", "ausdy", "uusdt", "udai", "uom", "uluna"];

pub fn gen_fee_share(r: &mut Rng) -> u128 {
    match r.below(7) {
        0 => 0,
        1 => 1,                                   // 1e-18
        2 => 3_000_000_000_000_000,               // 0.3 %
        3 => r.below(50_000_000_000_000_000) as u128, // < 5 %
        4 => 1_000_000_000_000_000,
        5 => r.below(1_000_000_000_000) as u128,
        _ => r.below(20_000_000_000_000_000) as u128,
    }
}

/// valid fee structure (each < 100 %, total ≤ 20 %) most of the time
pub fn gen_fees(r: &mut Rng) -> PoolFee {
    let n_extra = match r.below(6) { 0 => 1, 1 => 2, 2 => 3, _ => 0 };
    let mut f = PoolFee {
        protocol_fee: Fee { share: Decimal::raw(gen_fee_share(r)) },
        swap_fee: Fee { share: Decimal::raw(gen_fee_share(r)) },
        burn_fee: Fee { share: Decimal::raw(if r.chance(1, 2) { 0 } else { gen_fee_share(r) }) },
        extra_fees: (0..n_extra).map(|_| Fee { share: Decimal::raw(gen_fee_share(r)) }).collect(),
    };
    if r.chance(1, 10) {
        // zero fees everywhere
        f.protocol_fee.share = Decimal::zero();
        f.swap_fee.share = Decimal::zero();
        f.burn_fee.share = Decimal::zero();
        f.extra_fees.clear();
    }
    if r.chance(1, 25) {
        // at the 20 % cap exactly
        f = PoolFee {
            protocol_fee: Fee { share: Decimal::percent(5) },
            swap_fee: Fee { share: Decimal::percent(10) },
            burn_fee: Fee { share: Decimal::percent(3) },
            extra_fees: vec![Fee { share: Decimal::percent(2) }],
        };
    }
    f
}

pub fn gen_decimals(r: &mut Rng) -> u8 {
    match r.below(14) {
        0 => 0,
        1 | 2 | 3 => 6,
        4 => 8,
        5 => 12,
        6 | 7 | 8 => 18,
        9 => r.below(19) as u8,
        10 => 6,
        _ => 18,
    }
}

fn pow10(k: u32) -> u128 { 10u128.pow(k) }

/// amount of magnitude ~10^k with random lower digits
pub fn amount_mag(r: &mut Rng, k: u32) -> u128 {
    let k = k.min(37);
    let base = pow10(k);
    let m = 1 + r.below(9) as u128;
    let low = if k > 0 { r.u128() % base } else { 0 };
    match r.below(4) { 0 => base, 1 => m * base, _ => m * base + low }
}

pub struct PoolGen {
    pub stable: bool,
    pub n: usize,
}

pub fn gen_pool(r: &mut Rng, stable: bool) -> PoolInfo {
    let n = if stable { match r.below(5) { 0 | 1 | 2 => 2, 3 => 3, _ => 4 } } else { 2 };
    let mut denoms: Vec<String> = DENOMS.iter().map(|s| s.to_string()).collect();
    // random order (so pools are created with unsorted denoms too)
    for i in (1..denoms.len()).rev() { let j = r.below(i as u64 + 1) as usize; denoms.swap(i, j); }
    denoms.truncate(n);
    let decs: Vec<u8> = if stable && r.chance(1, 3) { let d = gen_decimals(r); vec![d; n] } else { (0..n).map(|_| gen_decimals(r)).collect() };
    let mut assets = vec![];
    if stable {
        // value magnitude in whole tokens 10^v, per-asset skew up to 1000:1 (rarely pathological)
        let v = r.below(13) as i32 - 2; // 10^-2 .. 10^10 whole tokens
        for i in 0..n {
            let skew = match r.below(6) { 0 => 0, 1 => 1, 2 => 2, 3 => 3, _ => 0 } as i32;
            let sign = if r.chance(1, 2) { 1 } else { -1 };
            let k = (v + sign * skew + decs[i] as i32).max(0) as u32;
            let a = if r.chance(1, 40) { 0 } else { amount_mag(r, k.min(30)) };
            assets.push(coin(a, denoms[i].clone()));
        }
    } else {
        for i in 0..n {
            let k = r.below(31) as u32;
            let a = if r.chance(1, 40) { 0 } else if r.chance(1, 30) { r.u128() } else { amount_mag(r, k) };
            assets.push(coin(a, denoms[i].clone()));
        }
    }
    // (pool creation accepts any non-zero u64 amplification: now and then far above Curve's customary 10^6)
    let amp = match r.below(9) { 0 => 1, 1 => 10, 2 => 85, 3 => 100, 4 => 1000, 5 => 1_000_000, 6 => r.range(1, 1_000_000),
        7 => [10_000_000u64, 1_000_000_000, 1_000_000_000_000][r.below(3) as usize] + r.below(1000), _ => r.range(1, 500) };
    PoolInfo {
        pool_identifier: "p.1".to_string(),
        asset_denoms: denoms,
        lp_denom: "factory/pm/p.1.LP".to_string(),
        asset_decimals: decs,
        assets,
        pool_type: if stable { PoolType::StableSwap { amp } } else { PoolType::ConstantProduct },
        pool_fees: gen_fees(r),
        status: PoolStatus::default(),
    }
}

/// offer from 1 unit to several times the reserve
pub fn gen_offer(r: &mut Rng, reserve: u128) -> u128 {
    match r.below(10) {
        0 => 1,
        1 => 2 + r.below(9) as u128,
        2 => reserve / 1_000_000 + 1,
        3 => reserve / 1000 + 1,
        4 => reserve / 100 + r.below(100) as u128,
        5 => reserve / 10 + 1,
        6 => reserve,
        7 => reserve.saturating_mul(1 + r.below(5) as u128),
        8 => 0,
        _ => if reserve > 0 { r.u128() % reserve + 1 } else { r.mag(60) },
    }
}

pub fn rand_mag(r: &mut Rng, maxk: u64) -> u128 {
    let k = r.below(maxk) as u32;
    amount_mag(r, k)
}

/// pools for histories: mostly 6 / 18 decimals
pub fn gen_pool_hist(r: &mut Rng, stable: bool) -> PoolInfo {
    let mut p = gen_pool(r, stable);
    // (rarely an asset with more than 18 decimals: creation accepts it, deposits work, quotes and swaps must refuse)
    if r.chance(1, 30) { let k = r.below(p.asset_decimals.len() as u64) as usize; p.asset_decimals[k] = 19 + r.below(6) as u8; return p; }
    if !r.chance(1, 6) {
        let choices: [u8; 6] = [6, 6, 18, 18, 8, 12];
        let same = r.chance(1, 2);
        let d0 = choices[r.below(6) as usize];
        for d in p.asset_decimals.iter_mut() { *d = if same { d0 } else { choices[r.below(6) as usize] }; }
    }
    p
}

/// modular inverse of `a` modulo `m` (both < 2^120), if coprime
pub fn inv_mod(a: u128, m: u128) -> Option<u128> {
    let (mut r0, mut r1) = (m as i128, (a % m) as i128);
    let (mut t0, mut t1) = (0i128, 1i128);
    while r1 != 0 {
        let q = r0 / r1;
        let r2 = r0 - q * r1; r0 = r1; r1 = r2;
        let t2 = t0 - q * t1; t0 = t1; t1 = t2;
    }
    if r0 != 1 { return None; }
    Some(if t0 < 0 { (t0 + m as i128) as u128 } else { t0 as u128 })
}

/// "18-digit sliver" inputs for a constant-product swap: reserves x, y and an offer dx with
/// x*y ≡ ±k (mod x+dx) for a tiny k and x+dx > 10^18, so that x*y/(x+dx) (resp. y*dx/(x+dx)) lies within
/// 10^-18 of an integer — where an 18-digit fixed-point intermediate rounds differently from the
/// exact quotient.
pub fn sliver_cp(r: &mut Rng) -> Option<(u128, u128, u128)> {
    for _ in 0..20 {
        let mag = 19 + r.below(10) as u32;                   // modulus 10^19 .. 10^28
        let m = 10u128.pow(mag) / 3 + r.u128() % 10u128.pow(mag);
        let dx = match r.below(3) { 0 => m / 1000 + r.u128() % 1000, 1 => m / 300 + 1, _ => 1 + r.u128() % (m / 2) };
        let x = m - dx;
        let Some(inv) = inv_mod(x, m) else { continue };
        let k = 1 + r.below(4) as u128;
        let k = if r.chance(1, 2) { k } else { m - k };
        // y = k * inv mod m, computed without overflow (k < 2^95, inv < 2^95 is not guaranteed: use 256-bit)
        let y = (cosmwasm_std::Uint256::from(k) * cosmwasm_std::Uint256::from(inv) % cosmwasm_std::Uint256::from(m)).to_string().parse::<u128>().ok()?;
        if y < 1000 { continue; }
        return Some((x, y, dx));
    }
    None
}
