//! One deterministic PRNG (splitmix64) drives every random choice, so a case replays from its seed.
#[derive(Clone)]
pub struct Rng(pub u64);

impl Rng {
    pub fn new(seed: u64) -> Self {
        Rng(seed ^ 0x9E37_79B9_7F4A_7C15)
    }
    pub fn next(&mut self) -> u64 {
        self.0 = self.0.wrapping_add(0x9E37_79B9_7F4A_7C15);
        let mut z = self.0;
        z = (z ^ (z >> 30)).wrapping_mul(0xBF58_476D_1CE4_E5B9);
        z = (z ^ (z >> 27)).wrapping_mul(0x94D0_49BB_1331_11EB);
        z ^ (z >> 31)
    }
    pub fn below(&mut self, n: u64) -> u64 {
        if n == 0 { 0 } else { self.next() % n }
    }
    pub fn range(&mut self, lo: u64, hi: u64) -> u64 {
        lo + self.below(hi - lo + 1)
    }
    pub fn chance(&mut self, num: u64, den: u64) -> bool {
        self.below(den) < num
    }
    pub fn pick<'a, T>(&mut self, xs: &'a [T]) -> &'a T {
        &xs[self.below(xs.len() as u64) as usize]
    }
    pub fn u128(&mut self) -> u128 {
        ((self.next() as u128) << 64) | self.next() as u128
    }
    /// value with a random bit length in [0, maxbits]: covers magnitudes evenly on a log scale
    pub fn mag(&mut self, maxbits: u32) -> u128 {
        let bits = self.below(maxbits as u64 + 1) as u32;
        if bits == 0 { 0 } else if bits >= 128 { self.u128() } else { self.u128() & ((1u128 << bits) - 1) | (1u128 << (bits - 1)) }
    }
    /// boundary-biased u64: small, near powers of two / ten, near MAX, or uniform
    pub fn edge64(&mut self) -> u64 {
        match self.below(8) {
            0 => self.below(4),
            1 => u64::MAX - self.below(4),
            2 => { let k = self.below(64) as u32; (1u64 << k).wrapping_add(self.below(3)).wrapping_sub(1) }
            3 => { let k = self.below(20) as u32; 10u64.pow(k).wrapping_add(self.below(3)).wrapping_sub(1) }
            4 => self.mag(64) as u64,
            _ => self.next() >> self.below(64),
        }
    }
    pub fn fork(&mut self) -> Rng {
        Rng::new(self.next())
    }
}
