//! `inst` stream: the `instantiate` entry points of the farm manager, the pool manager and the fee collector on mock
//! deps (the epoch manager's is in the `epoch` stream).  Names `owner u1 fc em pm fm` are valid addresses
//! (`MockApi::addr_make`), anything else is passed as written (and fails `addr_validate`).
//!   fm_inst <sender> <owner> <em> <fc> <pm> <feedenom> <feeamt> <maxfarms> <buffer> <minunlock> <maxunlock> <expiration> <penalty>
//!        => ok <owner> <em> <fc> <pm> <feeamt><feedenom> <maxfarms> <buffer> <minunlock> <maxunlock> <expiration> <penalty> | err
//!   pm_inst <sender> <fc> <fm> <feedenom> <feeamt>   => ok <owner> <fc> <fm> <feeamt><feedenom> | err
//!   fc_inst <sender>                                 => ok <owner> | err
use cosmwasm_std::testing::{message_info, mock_dependencies, mock_env};
use cosmwasm_std::{coin, from_json, Addr, Decimal};

use crate::proto::Toks;
use crate::rng::Rng;
use crate::{guarded, Out};

const VALID: [&str; 8] = ["owner", "u1", "u2", "fc", "em", "pm", "fm", "out"];

pub fn exec_line(line: &str) -> String {
    let mut t = Toks::new(line);
    let op = t.s().to_string();
    let mut deps = mock_dependencies();
    let api = deps.api;
    let real = |n: &str| -> String { if VALID.contains(&n) { api.addr_make(n).to_string() } else { n.to_string() } };
    let name = |a: &str| -> String { VALID.iter().find(|n| api.addr_make(n).as_str() == a).map(|n| n.to_string()).unwrap_or(a.to_string()) };
    let res: Result<String, String> = match op.as_str() {
        "fm_inst" => {
            let sender = real(t.s());
            let msg = mantra_dex_std::farm_manager::InstantiateMsg {
                owner: real(t.s()), epoch_manager_addr: real(t.s()), fee_collector_addr: real(t.s()), pool_manager_addr: real(t.s()),
                create_farm_fee: { let d = t.s().to_string(); coin(t.u128(), d) },
                max_concurrent_farms: t.u64() as u32, max_farm_epoch_buffer: t.u64() as u32,
                min_unlocking_duration: t.u64(), max_unlocking_duration: t.u64(), farm_expiration_time: t.u64(),
                emergency_unlock_penalty: Decimal::raw(t.u128()),
            };
            guarded(|| {
                farm_manager::contract::instantiate(deps.as_mut(), mock_env(), message_info(&Addr::unchecked(sender.clone()), &[]), msg).map_err(|e| e.to_string())?;
                let c: mantra_dex_std::farm_manager::Config = from_json(farm_manager::contract::query(deps.as_ref(), mock_env(), mantra_dex_std::farm_manager::QueryMsg::Config {}).map_err(|e| e.to_string())?).unwrap();
                let o: cw_ownable::Ownership<String> = from_json(farm_manager::contract::query(deps.as_ref(), mock_env(), mantra_dex_std::farm_manager::QueryMsg::Ownership {}).map_err(|e| e.to_string())?).unwrap();
                Ok(format!("ok {} {} {} {} {}{} {} {} {} {} {} {}", o.owner.map(|x| name(&x)).unwrap_or("-".into()), name(c.epoch_manager_addr.as_str()), name(c.fee_collector_addr.as_str()),
                    name(c.pool_manager_addr.as_str()), c.create_farm_fee.amount, c.create_farm_fee.denom, c.max_concurrent_farms, c.max_farm_epoch_buffer,
                    c.min_unlocking_duration, c.max_unlocking_duration, c.farm_expiration_time, c.emergency_unlock_penalty.atomics()))
            })
        }
        "pm_inst" => {
            let sender = real(t.s());
            let msg = mantra_dex_std::pool_manager::InstantiateMsg {
                fee_collector_addr: real(t.s()), farm_manager_addr: real(t.s()),
                pool_creation_fee: { let d = t.s().to_string(); coin(t.u128(), d) },
            };
            guarded(|| {
                pool_manager::contract::instantiate(deps.as_mut(), mock_env(), message_info(&Addr::unchecked(sender.clone()), &[]), msg).map_err(|e| e.to_string())?;
                let c: mantra_dex_std::pool_manager::Config = from_json(pool_manager::contract::query(deps.as_ref(), mock_env(), mantra_dex_std::pool_manager::QueryMsg::Config {}).map_err(|e| e.to_string())?).unwrap();
                let o: cw_ownable::Ownership<String> = from_json(pool_manager::contract::query(deps.as_ref(), mock_env(), mantra_dex_std::pool_manager::QueryMsg::Ownership {}).map_err(|e| e.to_string())?).unwrap();
                Ok(format!("ok {} {} {} {}{}", o.owner.map(|x| name(&x)).unwrap_or("-".into()), name(c.fee_collector_addr.as_str()), name(c.farm_manager_addr.as_str()),
                    c.pool_creation_fee.amount, c.pool_creation_fee.denom))
            })
        }
        "fc_inst" => {
            let sender = real(t.s());
            guarded(|| {
                fee_collector::contract::instantiate(deps.as_mut(), mock_env(), message_info(&Addr::unchecked(sender.clone()), &[]), mantra_dex_std::fee_collector::InstantiateMsg {}).map_err(|e| e.to_string())?;
                let o: cw_ownable::Ownership<String> = from_json(fee_collector::contract::query(deps.as_ref(), mock_env(), mantra_dex_std::fee_collector::QueryMsg::Ownership {}).map_err(|e| e.to_string())?).unwrap();
                Ok(format!("ok {}", o.owner.map(|x| name(&x)).unwrap_or("-".into())))
            })
        }
        _ => Err("bad-op".into()),
    };
    res.unwrap_or_else(|_| "err".to_string())
}

fn addr(r: &mut Rng) -> &'static str {
    match r.below(12) { 0 => "bad!", 1 => "", 2 => "x", _ => VALID[r.below(8) as usize] }
}

pub fn gen_line(r: &mut Rng) -> String {
    let a = |r: &mut Rng| -> String { let x = addr(r); if x.is_empty() { "@".to_string() } else { x.to_string() } };
    match r.below(6) {
        0 => format!("fc_inst {}", a(r)),
        1 | 2 => format!("pm_inst {} {} {} {} {}", a(r), a(r), a(r), ["uusd", "uom"][r.below(2) as usize], [0u128, 1000, u128::MAX][r.below(3) as usize]),
        _ => {
            let day = 86_400u64;
            let mn = match r.below(5) { 0 => 0, 1 => day - 1, 2 => day * 400, _ => day };
            let mx = match r.below(5) { 0 => 0, 1 => day - 1, 2 => 31_556_926, 3 => day, _ => 31_556_927 };
            let exp = match r.below(4) { 0 => 2_629_745, 1 => 2_629_746, 2 => 0, _ => 2_629_746 + r.below(1000) };
            let pen: u128 = match r.below(5) { 0 => 0, 1 => 1_000_000_000_000_000_000, 2 => 1_000_000_000_000_000_001, 3 => u128::MAX, _ => r.below(1_000_000_000_000_000_000) as u128 };
            format!("fm_inst {} {} {} {} {} {} {} {} {} {} {} {} {}", a(r), a(r), a(r), a(r), a(r), ["uom", "uusd"][r.below(2) as usize], [0u128, 1000][r.below(2) as usize],
                [0u64, 1, 2, 100, 101, u32::MAX as u64][r.below(6) as usize], [0u64, 14, u32::MAX as u64][r.below(3) as usize], mn, mx, exp, pen)
        }
    }
}

pub fn run(seed: u64, cases: u64, replay: Option<&str>, o: &mut Out) {
    if let Some(p) = replay {
        for l in super::replay_lines(p) { let res = exec_line(&l); o.line(&l, &res); }
        return;
    }
    let mut r = Rng::new(seed ^ 0x1457);
    for _ in 0..cases {
        let line = gen_line(&mut r);
        let res = exec_line(&line);
        o.line(&line, &res);
    }
}
