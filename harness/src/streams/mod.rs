pub mod epoch;
pub mod swapmath;
pub mod mintmath;
pub mod farmmath;
pub mod hist;
pub mod hist_gen;
pub mod inst;

use crate::Out;

pub fn run(stream: &str, seed: u64, cases: u64, replay: Option<&str>, o: &mut Out) -> bool {
    match stream {
        "epoch" => epoch::run(seed, cases, replay, o),
        "swapmath" => swapmath::run(seed, cases, replay, o),
        "mintmath" => mintmath::run(seed, cases, replay, o),
        "farmmath" => farmmath::run(seed, cases, replay, o),
        "inst" => inst::run(seed, cases, replay, o),
        "twin" => { if let Some(p) = replay { hist_gen::run("pm_hist", seed, cases, Some(p), o) } else { hist_gen::run_twin(seed, cases, o) } }
        "auth" => { if let Some(p) = replay { hist_gen::run("pm_hist", seed, cases, Some(p), o) } else { hist_gen::run_auth(o) } }
        "pm_hist" | "fm_hist" | "faults" => hist_gen::run(stream, seed, cases, replay, o),
        _ => return false,
    }
    true
}

/// lines of a replay/corpus file: the left-hand sides (anything after " => " is dropped)
pub fn replay_lines(path: &str) -> Vec<String> {
    std::fs::read_to_string(path)
        .unwrap_or_default()
        .lines()
        .map(|l| l.split(" => ").next().unwrap().trim().to_string())
        .filter(|l| !l.is_empty() && !l.starts_with('#'))
        .collect()
}
