//! `hist` streams: whole-system histories on cw-multi-test.  A case is
//!   begin <id>
//!   init <cfg…>
//!   (tx … | send … | advance … | fault k | snap | q… )*
//!   end
//! Every state-changing line is followed by a `snap` line whose right-hand side is the canonical
//! observable state; the Lean driver replays the same lines through the model.
//!
//! tx <sender> <nfunds> (<denom> <amt>)* <contract> <kind> <args…>     => ok | err
//!   pm create <cp|ss> <amp> <n> (<denom> <dec>)*n <prot> <swap> <burn> <extras|-> <id|->
//!   pm provide <pool> <liqslip|-> <swapslip|-> <receiver|-> <unlock|-> <lockid|->
//!   pm swap <pool> <ask> <belief|-> <maxslip|-> <receiver|->
//!   pm withdraw <pool>
//!   pm route <n> (<in> <out> <pool>)*n <minrecv|-> <receiver|-> <maxslip|->
//!   pm config <feecollector|-> <farmmanager|-> <feedenom|-> <feeamt|-> <togglepool|-> <swaps|-> <deposits|-> <withdrawals|->
//!   <c> own transfer <new> <expiryNs|-> | <c> own accept | <c> own renounce
//!   fm createfarm <lp> <start|-> <end|-> <assetdenom> <assetamt> <id|->
//!   fm expandfarm <lp> <start|-> <end|-> <assetdenom> <assetamt> <id|->
//!   fm closefarm <id>
//!   fm claim <until|->
//!   fm createpos <id|-> <unlocking> <receiver|->
//!   fm expandpos <id>
//!   fm closepos <id> <denom|-> <amount|->
//!   fm withdrawpos <id> <-|true|false>
//!   fm config <fc|-> <em|-> <pm|-> <feedenom|-> <feeamt|-> <maxfarms|-> <buffer|-> <minunlock|-> <maxunlock|-> <expiration|-> <penalty|->
//!   em config <duration|-> <genesis|->
//! send <from> <to> <n> (<denom> <amt>)*
//! advance <ns>
//! fault <k>            (the k-th bank call of the next tx fails)
use cosmwasm_std::{coin, Coin, Decimal, Uint128, Uint64};
use cw_multi_test::Executor;
use cw_ownable::{Action, Expiration, Ownership};
use mantra_dex_std::epoch_manager::EpochConfig;
use mantra_dex_std::farm_manager as fmm;
use mantra_dex_std::pool_manager as pmm;

use crate::proto::*;
use crate::world::*;
use crate::Out;

fn opt_s(t: &mut Toks) -> Option<String> {
    let x = t.s();
    if x == "-" { None } else { Some(x.to_string()) }
}
fn opt_bool(t: &mut Toks) -> Option<bool> {
    match t.s() { "-" => None, "true" => Some(true), _ => Some(false) }
}
fn opt_u64(t: &mut Toks) -> Option<u64> {
    t.opt_u128().map(|x| x as u64)
}

/// what a snapshot observed, kept for the monitors (before/after comparison)
#[derive(Clone, Default)]
pub struct Obs {
    pub pools: Vec<pmm::PoolInfoResponse>,
    /// (who, canonical denom) -> balance
    pub bal: std::collections::BTreeMap<(String, String), u128>,
    pub supply: std::collections::BTreeMap<String, u128>,
    pub positions: Vec<fmm::Position>,
    pub farms: Vec<fmm::Farm>,
    /// who -> (last claimed, lp -> snapshots)
    pub users: std::collections::BTreeMap<String, (Option<u64>, std::collections::BTreeMap<String, Vec<(u64, u128)>>)>,
    pub text: String,
    pub now_ns: u64,
    pub epoch: Option<u64>,
}

pub struct Hist {
    pub last_obs: Obs,
    /// wasm event attributes of the last accepted tx (key, value)
    pub last_attrs: Vec<(String, String)>,
    /// bank calls made by the last tx / send (fault injection bookkeeping)
    pub last_calls: u64,
    pub w: World,
    pub lps: Vec<String>,        // canonical LP denoms seen so far
    pub pos_ids: Vec<String>,    // position identifiers seen so far (full, with prefix)
    pub farm_ids: Vec<String>,
    pub pending_fault: Option<u64>,
}

impl Hist {
    pub fn new(cfg: WorldCfg) -> Hist {
        Hist { last_obs: Obs::default(), last_attrs: vec![], last_calls: 0, w: World::new(cfg), lps: vec![], pos_ids: vec![], farm_ids: vec![], pending_fault: None }
    }

    pub fn init_line(&self) -> String {
        let c = &self.w.cfg;
        format!(
            "init {} {} {} {} {} {} {} {} {} {} {} {} {}",
            coins_str(&c.tf_fees), c.pool_creation_fee.denom, c.pool_creation_fee.amount, c.farm_fee.denom, c.farm_fee.amount,
            c.max_concurrent_farms, c.max_farm_epoch_buffer, c.min_unlocking, c.max_unlocking, c.farm_expiration_time,
            c.emergency_penalty.atomics(), c.epoch_duration, GENESIS
        )
    }

    fn receiver(&self, r: Option<String>) -> Option<String> {
        r.map(|x| self.w.astr(&x))
    }

    fn own_action(&self, t: &mut Toks) -> Action {
        match t.s() {
            "transfer" => {
                let n = t.s().to_string();
                let e = opt_u64(t);
                Action::TransferOwnership { new_owner: self.w.astr(&n), expiry: e.map(|x| Expiration::AtTime(cosmwasm_std::Timestamp::from_nanos(x))) }
            }
            "accept" => Action::AcceptOwnership,
            _ => Action::RenounceOwnership,
        }
    }

    fn farm_params(&self, t: &mut Toks) -> fmm::FarmParams {
        let lp = self.w.rd(t.s());
        let start = opt_u64(t);
        let end = opt_u64(t);
        let ad = self.w.rd(t.s());
        let aa = t.u128();
        let id = opt_s(t);
        fmm::FarmParams { lp_denom: lp, start_epoch: start, preliminary_end_epoch: end, curve: None, farm_asset: coin(aa, ad), farm_identifier: id }
    }

    /// execute a `tx` line on the real contracts
    pub fn exec_tx(&mut self, line: &str) -> String {
        let mut t = Toks::new(line);
        t.s(); // tx
        let sender = t.s().to_string();
        let funds = self.w.real_coins(&t.coins());
        let contract = t.s().to_string();
        let kind = t.s().to_string();
        let fault = self.pending_fault.take();
        let sender_a = self.w.a(&sender);
        let caddr = self.w.a(&contract);
        self.w.arm(fault);
        self.last_attrs.clear();
        let mut captured: Vec<(String, String)> = vec![];
        let mut cap = |r: &cw_multi_test::AppResponse| {
            for e in r.events.iter() {
                if e.ty == "wasm" { for a in e.attributes.iter() { captured.push((a.key.clone(), a.value.clone())); } }
            }
        };
        let res: Result<(), String> = match (contract.as_str(), kind.as_str()) {
            (_, "own") => {
                let a = self.own_action(&mut t);
                let r = match contract.as_str() {
                    "pm" => self.w.app.execute_contract(sender_a, caddr, &pmm::ExecuteMsg::UpdateOwnership(a), &funds),
                    "fm" => self.w.app.execute_contract(sender_a, caddr, &fmm::ExecuteMsg::UpdateOwnership(a), &funds),
                    "em" => self.w.app.execute_contract(sender_a, caddr, &mantra_dex_std::epoch_manager::ExecuteMsg::UpdateOwnership(a), &funds),
                    _ => self.w.app.execute_contract(sender_a, caddr, &mantra_dex_std::fee_collector::ExecuteMsg::UpdateOwnership(a), &funds),
                };
                r.map(|_| ()).map_err(|e| format!("{:#}", e))
            }
            ("pm", _) => {
                let msg = match kind.as_str() {
                    "create" => {
                        let ty = t.s().to_string();
                        let amp = t.u64();
                        let n = t.u64() as usize;
                        let mut denoms = vec![];
                        let mut decs = vec![];
                        // a decimals token `x` means "no entry" (asset_decimals shorter than asset_denoms), `+<k>` an extra entry
                        for _ in 0..n {
                            denoms.push(self.w.rd(t.s()));
                            let dt = t.s().to_string();
                            if dt == "x" { continue; }
                            if let Some(extra) = dt.strip_prefix('+') { let v: u8 = extra.parse().unwrap_or(6); decs.push(v); decs.push(v); } else { decs.push(dt.parse().unwrap_or(0)); }
                        }
                        let fees = t.fees();
                        let id = opt_s(&mut t);
                        pmm::ExecuteMsg::CreatePool {
                            asset_denoms: denoms, asset_decimals: decs, pool_fees: fees,
                            pool_type: if ty == "cp" { pmm::PoolType::ConstantProduct } else { pmm::PoolType::StableSwap { amp } },
                            pool_identifier: id,
                        }
                    }
                    "provide" => {
                        let pool = t.s().to_string();
                        let ls = t.opt_dec(); let ss = t.opt_dec();
                        let r = opt_s(&mut t); let u = opt_u64(&mut t); let l = opt_s(&mut t);
                        pmm::ExecuteMsg::ProvideLiquidity { liquidity_max_slippage: ls, swap_max_slippage: ss, receiver: self.receiver(r), pool_identifier: pool, unlocking_duration: u, lock_position_identifier: l }
                    }
                    "swap" => {
                        let pool = t.s().to_string();
                        let ask = self.w.rd(t.s());
                        let b = t.opt_dec(); let ms = t.opt_dec(); let r = opt_s(&mut t);
                        pmm::ExecuteMsg::Swap { ask_asset_denom: ask, belief_price: b, max_slippage: ms, receiver: self.receiver(r), pool_identifier: pool }
                    }
                    "withdraw" => pmm::ExecuteMsg::WithdrawLiquidity { pool_identifier: t.s().to_string() },
                    "route" => {
                        let n = t.u64() as usize;
                        let mut ops = vec![];
                        for _ in 0..n {
                            let i = self.w.rd(t.s()); let o = self.w.rd(t.s()); let p = t.s().to_string();
                            ops.push(pmm::SwapOperation::MantraSwap { token_in_denom: i, token_out_denom: o, pool_identifier: p });
                        }
                        let mr = t.opt_u128().map(Uint128::new); let r = opt_s(&mut t); let ms = t.opt_dec();
                        pmm::ExecuteMsg::ExecuteSwapOperations { operations: ops, minimum_receive: mr, receiver: self.receiver(r), max_slippage: ms }
                    }
                    _ => {
                        let fc = opt_s(&mut t); let fm = opt_s(&mut t);
                        let fd = opt_s(&mut t); let fa = t.opt_u128();
                        let tp = opt_s(&mut t); let s = opt_bool(&mut t); let d = opt_bool(&mut t); let wd = opt_bool(&mut t);
                        pmm::ExecuteMsg::UpdateConfig {
                            fee_collector_addr: self.receiver(fc), farm_manager_addr: self.receiver(fm),
                            pool_creation_fee: match (fd, fa) { (Some(d_), Some(a)) => Some(coin(a, d_)), _ => None },
                            feature_toggle: tp.map(|p| pmm::FeatureToggle { pool_identifier: p, withdrawals_enabled: wd, deposits_enabled: d, swaps_enabled: s }),
                        }
                    }
                };
                self.w.app.execute_contract(sender_a, caddr, &msg, &funds).map(|r| cap(&r)).map_err(|e| format!("{:#}", e))
            }
            ("fm", _) => {
                let msg = match kind.as_str() {
                    "createfarm" => fmm::ExecuteMsg::ManageFarm { action: fmm::FarmAction::Create { params: self.farm_params(&mut t) } },
                    "expandfarm" => fmm::ExecuteMsg::ManageFarm { action: fmm::FarmAction::Expand { params: self.farm_params(&mut t) } },
                    "closefarm" => fmm::ExecuteMsg::ManageFarm { action: fmm::FarmAction::Close { farm_identifier: t.s().to_string() } },
                    "claim" => fmm::ExecuteMsg::Claim { until_epoch: opt_u64(&mut t) },
                    "createpos" => {
                        let id = opt_s(&mut t); let u = t.u64(); let r = opt_s(&mut t);
                        fmm::ExecuteMsg::ManagePosition { action: fmm::PositionAction::Create { identifier: id, unlocking_duration: u, receiver: self.receiver(r) } }
                    }
                    "expandpos" => fmm::ExecuteMsg::ManagePosition { action: fmm::PositionAction::Expand { identifier: t.s().to_string() } },
                    "closepos" => {
                        let id = t.s().to_string(); let d = opt_s(&mut t); let a = t.opt_u128();
                        fmm::ExecuteMsg::ManagePosition { action: fmm::PositionAction::Close { identifier: id, lp_asset: match (d, a) { (Some(d_), Some(a_)) => Some(coin(a_, self.w.rd(&d_))), _ => None } } }
                    }
                    "withdrawpos" => {
                        let id = t.s().to_string(); let e = opt_bool(&mut t);
                        fmm::ExecuteMsg::ManagePosition { action: fmm::PositionAction::Withdraw { identifier: id, emergency_unlock: e } }
                    }
                    _ => {
                        let fc = opt_s(&mut t); let em = opt_s(&mut t); let pm = opt_s(&mut t);
                        let fd = opt_s(&mut t); let fa = t.opt_u128();
                        let mf = opt_u64(&mut t); let bf = opt_u64(&mut t); let mi = opt_u64(&mut t); let ma = opt_u64(&mut t);
                        let ex = opt_u64(&mut t); let pen = t.opt_dec();
                        fmm::ExecuteMsg::UpdateConfig {
                            fee_collector_addr: self.receiver(fc), epoch_manager_addr: self.receiver(em), pool_manager_addr: self.receiver(pm),
                            create_farm_fee: match (fd, fa) { (Some(d_), Some(a)) => Some(coin(a, d_)), _ => None },
                            max_concurrent_farms: mf.map(|x| x as u32), max_farm_epoch_buffer: bf.map(|x| x as u32),
                            min_unlocking_duration: mi, max_unlocking_duration: ma, farm_expiration_time: ex, emergency_unlock_penalty: pen,
                        }
                    }
                };
                self.w.app.execute_contract(sender_a, caddr, &msg, &funds).map(|r| cap(&r)).map_err(|e| format!("{:#}", e))
            }
            ("em", _) => {
                let d = opt_u64(&mut t); let g = opt_u64(&mut t);
                let cfg = match (d, g) { (Some(d_), Some(g_)) => Some(EpochConfig { duration: Uint64::new(d_), genesis_epoch: Uint64::new(g_) }), _ => None };
                self.w.app.execute_contract(sender_a, caddr, &mantra_dex_std::epoch_manager::ExecuteMsg::UpdateConfig { epoch_config: cfg }, &funds)
                    .map(|_| ()).map_err(|e| format!("{:#}", e))
            }
            _ => Err("bad contract".into()),
        };
        self.last_calls = self.w.fault.borrow().calls;
        self.w.arm(None);
        self.last_attrs = captured;
        match res {
            Ok(()) => "ok".to_string(),
            Err(e) => {
                if std::env::var("MDX_ERRS").is_ok() {
                    let short: String = e.split(':').last().unwrap_or("").trim().chars().take(70).collect();
                    eprintln!("ERR {} {} | {}", contract, kind, short);
                    return format!("err #{}", short);
                }
                "err".to_string()
            }
        }
    }

    pub fn exec_line(&mut self, line: &str) -> String {
        let mut t = Toks::new(line);
        match t.s() {
            "tx" => {
                let l = line.to_string();
                match crate::guarded(|| Ok(self.exec_tx(&l))) { Ok(s) => s, Err(_) => { self.last_calls = self.w.fault.borrow().calls; self.w.arm(None); "err".to_string() } }
            }
            "send" => {
                let from = t.s().to_string(); let to = t.s().to_string();
                let cs = self.w.real_coins(&t.coins());
                let fault = self.pending_fault.take();
                self.w.arm(fault);
                let r = self.w.app.send_tokens(self.w.a(&from), self.w.a(&to), &cs);
                self.last_calls = self.w.fault.borrow().calls;
                self.w.arm(None);
                if r.is_ok() { "ok".into() } else { "err".into() }
            }
            // `mint <user> <coins>`: the chain hands a user new tokens (bank module, outside any contract): how an account
            // comes to hold amounts near the top of u128 — the contracts must cope with them or refuse
            "mint" => {
                let to = t.s().to_string();
                let named = t.coins();
                // (plain denoms to user accounts only — see the driver's `mint` case and Properties/MintInv.lean)
                if !crate::world::USERS.contains(&to.as_str()) || named.iter().any(|c| c.denom.starts_with("factory/pm/")) { return "err".into(); }
                let cs = self.w.real_coins(&named);
                let r = self.w.app.sudo(cw_multi_test::SudoMsg::Bank(cw_multi_test::BankSudo::Mint { to_address: self.w.a(&to).to_string(), amount: cs }));
                self.w.arm(None);
                if r.is_ok() { "ok".into() } else { "err".into() }
            }
            // `tfq off|on`: the token factory's QUERIES stop / resume answering (a query path dropped from the contract
            // whitelist); its messages keep working and charging.  While off, a pool cannot be created: the fee due is unknown.
            "tfq" => { let off = t.s() == "off"; self.w.tf_queries_off.set(off); "ok".into() }
            "advance" => { let ns = t.u64(); self.w.advance(ns); "ok".into() }
            "fault" => { self.pending_fault = Some(t.u64()); "ok".into() }
            // (a contract query that panics must not take the harness down: the snapshot then differs from the model's)
            "snap" => { match crate::guarded(|| Ok(self.snapshot())) { Ok(s) => s, Err(_) => "snapshot-query-panicked".to_string() } }
            "q" => { let l = line.to_string(); crate::guarded(|| Ok(self.query(&l))).unwrap_or_else(|_| "err".to_string()) }
            _ => "bad-op".into(),
        }
    }

    fn coin_list(&self, cs: &[Coin]) -> String {
        if cs.is_empty() { return "-".into(); }
        let mut v: Vec<(String, u128)> = cs.iter().map(|c| (self.w.cd(&c.denom), c.amount.u128())).collect();
        v.sort();
        v.iter().map(|(d, a)| format!("{}:{}", d, a)).collect::<Vec<_>>().join(",")
    }

    fn parse_ops(&self, t: &mut Toks) -> Vec<pmm::SwapOperation> {
        let n = t.u64() as usize;
        (0..n).map(|_| {
            let i = self.w.rd(t.s()); let o = self.w.rd(t.s()); let p = t.s().to_string();
            pmm::SwapOperation::MantraSwap { token_in_denom: i, token_out_denom: o, pool_identifier: p }
        }).collect()
    }

    /// `q <kind> <args…>`: the real query entry points (read-only)
    ///   q sim <pool> <offerdenom> <amount> <askdenom>            => ok ret slip swapfee protfee burnfee extrafees
    ///   q rev <pool> <askdenom> <amount> <offerdenom>            => ok offer slip swapfee protfee burnfee extrafees
    ///   q simops <amount> <n> (<in> <out> <pool>)*n              => ok ret slips swapfees protfees burnfees extrafees
    ///   q revops <amount> <n> (<in> <out> <pool>)*n              => ok offer slips …
    ///   q decimals <pool> <denom>                                => ok n
    ///   q pools <id|-> <startafter|-> <limit|->                  => ok id:totalshare,…
    ///   q farms <id|lp|asset|-> <value|-> <startafter|-> <limit|->
    ///   q positions <id|recv|-> <value|-> <open|-> <startafter|-> <limit|->
    ///   q lpweight <who> <lp> <epoch>                            => ok weight
    ///   q rewards <who> <until|->                                => ok coins
    pub fn query(&self, line: &str) -> String {
        let mut t = Toks::new(line);
        t.s();
        let kind = t.s().to_string();
        let pm = self.w.a("pm");
        let fm = self.w.a("fm");
        let q = self.w.app.wrap();
        match kind.as_str() {
            "sim" => {
                let pool = t.s().to_string(); let od = self.w.rd(t.s()); let amt = t.u128(); let ad = self.w.rd(t.s());
                let r: Result<pmm::SimulationResponse, _> = q.query_wasm_smart(pm, &pmm::QueryMsg::Simulation { offer_asset: coin(amt, od), ask_asset_denom: ad, pool_identifier: pool });
                match r { Ok(x) => format!("ok {} {} {} {} {} {}", x.return_amount, x.slippage_amount, x.swap_fee_amount, x.protocol_fee_amount, x.burn_fee_amount, x.extra_fees_amount), Err(_) => "err".into() }
            }
            "rev" => {
                let pool = t.s().to_string(); let ad = self.w.rd(t.s()); let amt = t.u128(); let od = self.w.rd(t.s());
                let r: Result<pmm::ReverseSimulationResponse, _> = q.query_wasm_smart(pm, &pmm::QueryMsg::ReverseSimulation { ask_asset: coin(amt, ad), offer_asset_denom: od, pool_identifier: pool });
                match r { Ok(x) => format!("ok {} {} {} {} {} {}", x.offer_amount, x.slippage_amount, x.swap_fee_amount, x.protocol_fee_amount, x.burn_fee_amount, x.extra_fees_amount), Err(_) => "err".into() }
            }
            "simops" => {
                let amt = t.u128(); let ops = self.parse_ops(&mut t);
                let r: Result<pmm::SimulateSwapOperationsResponse, _> = q.query_wasm_smart(pm, &pmm::QueryMsg::SimulateSwapOperations { offer_amount: Uint128::new(amt), operations: ops });
                match r { Ok(x) => format!("ok {} {} {} {} {} {}", x.return_amount, self.coin_list(&x.slippage_amounts), self.coin_list(&x.swap_fees), self.coin_list(&x.protocol_fees), self.coin_list(&x.burn_fees), self.coin_list(&x.extra_fees)), Err(_) => "err".into() }
            }
            "revops" => {
                let amt = t.u128(); let ops = self.parse_ops(&mut t);
                let r: Result<pmm::ReverseSimulateSwapOperationsResponse, _> = q.query_wasm_smart(pm, &pmm::QueryMsg::ReverseSimulateSwapOperations { ask_amount: Uint128::new(amt), operations: ops });
                match r { Ok(x) => format!("ok {} {} {} {} {} {}", x.offer_amount, self.coin_list(&x.slippage_amounts), self.coin_list(&x.swap_fees), self.coin_list(&x.protocol_fees), self.coin_list(&x.burn_fees), self.coin_list(&x.extra_fees)), Err(_) => "err".into() }
            }
            "decimals" => {
                let pool = t.s().to_string(); let d = self.w.rd(t.s());
                let r: Result<pmm::AssetDecimalsResponse, _> = q.query_wasm_smart(pm, &pmm::QueryMsg::AssetDecimals { pool_identifier: pool, denom: d });
                match r { Ok(x) => format!("ok {}", x.decimals), Err(_) => "err".into() }
            }
            "pools" => {
                let id = opt_s(&mut t); let sa = opt_s(&mut t); let lim = t.opt_u128().map(|x| x as u32);
                let r: Result<pmm::PoolsResponse, _> = q.query_wasm_smart(pm, &pmm::QueryMsg::Pools { pool_identifier: id, start_after: sa, limit: lim });
                match r { Ok(x) => if x.pools.is_empty() { "ok -".into() } else { format!("ok {}", x.pools.iter().map(|p| format!("{}:{}", p.pool_info.pool_identifier, p.total_share.amount)).collect::<Vec<_>>().join(",")) }, Err(_) => "err".into() }
            }
            "farms" => {
                let k = t.s().to_string(); let v = t.s().to_string(); let sa = opt_s(&mut t); let lim = t.opt_u128().map(|x| x as u32);
                let by = match k.as_str() { "id" => Some(fmm::FarmsBy::Identifier(v)), "lp" => Some(fmm::FarmsBy::LpDenom(self.w.rd(&v))), "asset" => Some(fmm::FarmsBy::FarmAsset(self.w.rd(&v))), _ => None };
                let r: Result<fmm::FarmsResponse, _> = q.query_wasm_smart(fm, &fmm::QueryMsg::Farms { filter_by: by, start_after: sa, limit: lim });
                match r { Ok(x) => if x.farms.is_empty() { "ok -".into() } else { format!("ok {}", x.farms.iter().map(|f| f.identifier.clone()).collect::<Vec<_>>().join(",")) }, Err(_) => "err".into() }
            }
            "positions" => {
                let k = t.s().to_string(); let v = t.s().to_string(); let o = opt_bool(&mut t); let sa = opt_s(&mut t); let lim = t.opt_u128().map(|x| x as u32);
                let by = match k.as_str() { "id" => Some(fmm::PositionsBy::Identifier(v)), "recv" => Some(fmm::PositionsBy::Receiver(self.w.astr(&v))), _ => None };
                let r: Result<fmm::PositionsResponse, _> = q.query_wasm_smart(fm, &fmm::QueryMsg::Positions { filter_by: by, open_state: o, start_after: sa, limit: lim });
                match r { Ok(x) => if x.positions.is_empty() { "ok -".into() } else { format!("ok {}", x.positions.iter().map(|p| p.identifier.clone()).collect::<Vec<_>>().join(",")) }, Err(_) => "err".into() }
            }
            "lpweight" => {
                let who = t.s().to_string(); let lp = self.w.rd(t.s()); let e = t.u64();
                let r: Result<fmm::LpWeightResponse, _> = q.query_wasm_smart(fm, &fmm::QueryMsg::LpWeight { address: self.w.astr(&who), denom: lp, epoch_id: e });
                match r { Ok(x) => format!("ok {}", x.lp_weight), Err(_) => "err".into() }
            }
            "rewards" => {
                let who = t.s().to_string(); let u = opt_u64(&mut t);
                let r: Result<fmm::RewardsResponse, _> = q.query_wasm_smart(fm, &fmm::QueryMsg::Rewards { address: self.w.astr(&who), until_epoch: u });
                match r { Ok(fmm::RewardsResponse::RewardsResponse { total_rewards, .. }) => format!("ok {}", self.coin_list(&total_rewards)), Ok(_) => "ok other".into(), Err(_) => "err".into() }
            }
            _ => "bad-op".into(),
        }
    }

    pub fn ownership(&self, c: &str) -> String {
        let a = self.w.a(c);
        let o: Result<Ownership<String>, _> = match c {
            "pm" => self.w.app.wrap().query_wasm_smart(a, &pmm::QueryMsg::Ownership {}),
            "fm" => self.w.app.wrap().query_wasm_smart(a, &fmm::QueryMsg::Ownership {}),
            "em" => self.w.app.wrap().query_wasm_smart(a, &mantra_dex_std::epoch_manager::QueryMsg::Ownership {}),
            _ => self.w.app.wrap().query_wasm_smart(a, &mantra_dex_std::fee_collector::QueryMsg::Ownership {}),
        };
        match o {
            Ok(o) => format!(
                "{}/{}/{}",
                o.owner.map(|x| self.w.n(&x)).unwrap_or("-".into()),
                o.pending_owner.map(|x| self.w.n(&x)).unwrap_or("-".into()),
                match o.pending_expiry { Some(Expiration::AtTime(t)) => t.nanos().to_string(), Some(_) => "other".into(), None => "-".into() }
            ),
            Err(_) => "err".into(),
        }
    }

    pub fn all_pools(&self) -> Vec<pmm::PoolInfoResponse> {
        let mut out = vec![];
        let mut start: Option<String> = None;
        loop {
            let r: Result<pmm::PoolsResponse, _> = self.w.app.wrap().query_wasm_smart(
                self.w.a("pm"), &pmm::QueryMsg::Pools { pool_identifier: None, start_after: start.clone(), limit: Some(100) });
            let Ok(r) = r else { break };
            if r.pools.is_empty() { break; }
            start = Some(r.pools.last().unwrap().pool_info.pool_identifier.clone());
            let n = r.pools.len();
            out.extend(r.pools);
            if n < 100 { break; }
        }
        out
    }

    pub fn all_positions(&self) -> Vec<fmm::Position> {
        // Positions{} without filter is capped at 10 per page
        let mut out = vec![];
        let mut start: Option<String> = None;
        loop {
            let r: Result<fmm::PositionsResponse, _> = self.w.app.wrap().query_wasm_smart(
                self.w.a("fm"), &fmm::QueryMsg::Positions { filter_by: None, open_state: None, start_after: start.clone(), limit: Some(10) });
            let Ok(r) = r else { break };
            if r.positions.is_empty() { break; }
            start = Some(r.positions.last().unwrap().identifier.clone());
            let n = r.positions.len();
            out.extend(r.positions);
            if n < 10 { break; }
        }
        out
    }

    pub fn all_farms(&self) -> Vec<fmm::Farm> {
        let mut out = vec![];
        let mut start: Option<String> = None;
        loop {
            let r: Result<fmm::FarmsResponse, _> = self.w.app.wrap().query_wasm_smart(
                self.w.a("fm"), &fmm::QueryMsg::Farms { filter_by: None, start_after: start.clone(), limit: Some(100) });
            let Ok(r) = r else { break };
            if r.farms.is_empty() { break; }
            start = Some(r.farms.last().unwrap().identifier.clone());
            let n = r.farms.len();
            out.extend(r.farms);
            if n < 100 { break; }
        }
        out
    }

    /// canonical observable state
    pub fn snapshot(&mut self) -> String {
        let mut s = String::new();
        let mut obs = Obs::default();
        // --- pools
        let pools = self.all_pools();
        obs.pools = pools.clone();
        s += "pools[";
        for p in pools.iter() {
            let pi = &p.pool_info;
            let lp = self.w.cd(&pi.lp_denom);
            if !self.lps.contains(&lp) { self.lps.push(lp.clone()); }
            let (ty, amp) = match pi.pool_type { pmm::PoolType::ConstantProduct => ("cp", 0), pmm::PoolType::StableSwap { amp } => ("ss", amp) };
            s += &format!(
                "{}|{}|{}|{}|{}|{}|{}|{}{}{}|{}|{};",
                pi.pool_identifier, ty, amp, pi.asset_denoms.join(","),
                pi.asset_decimals.iter().map(|d| d.to_string()).collect::<Vec<_>>().join(","),
                pi.assets.iter().map(|c| format!("{}:{}", c.denom, c.amount)).collect::<Vec<_>>().join(","),
                fees_str(&pi.pool_fees).replace(' ', "/"),
                pi.status.swaps_enabled as u8, pi.status.deposits_enabled as u8, pi.status.withdrawals_enabled as u8,
                lp, p.total_share.amount
            );
        }
        s += "] ";
        // --- bank
        let mut denoms: Vec<String> = BASE_DENOMS.iter().map(|d| d.to_string()).collect();
        denoms.extend(self.lps.iter().cloned());
        s += "bank[";
        for who in ["pm", "fm", "fc", "em", "u1", "u2", "u3", "u4", "owner", "out"] {
            for d in denoms.iter() {
                let b = self.w.balance(who, d);
                obs.bal.insert((who.to_string(), d.clone()), b);
                // users start with the same huge balance of every base denom: print the delta
                let is_user = USERS.contains(&who);
                let base = if is_user && BASE_DENOMS.contains(&d.as_str()) { u128::MAX / 1_000_000 } else { 0 };
                if b != base {
                    if b >= base { s += &format!("{}:{}=+{};", who, d, b - base); } else { s += &format!("{}:{}=-{};", who, d, base - b); }
                }
            }
        }
        s += "] supply[";
        for d in self.lps.iter() {
            let sp = self.w.supply(d);
            obs.supply.insert(d.clone(), sp);
            s += &format!("{}={};", d, sp);
        }
        s += "] ";
        // --- pool manager config / buffer / ownership
        let cfg: Result<pmm::Config, _> = self.w.app.wrap().query_wasm_smart(self.w.a("pm"), &pmm::QueryMsg::Config {});
        if let Ok(c) = cfg {
            s += &format!("pmcfg[{} {} {}{}] ", self.w.n(c.fee_collector_addr.as_str()), self.w.n(c.farm_manager_addr.as_str()), c.pool_creation_fee.amount, c.pool_creation_fee.denom);
        }
        let buf = self.w.app.wrap().query_wasm_raw(self.w.a("pm"), b"single_side_liquidity_provision_buffer".to_vec()).ok().flatten();
        s += &format!("buffer[{}] ", if buf.is_some() { "some" } else { "none" });
        s += &format!("own[pm={} fm={} em={} fc={}] ", self.ownership("pm"), self.ownership("fm"), self.ownership("em"), self.ownership("fc"));
        // --- epoch manager
        let ec: Result<mantra_dex_std::epoch_manager::ConfigResponse, _> = self.w.app.wrap().query_wasm_smart(self.w.a("em"), &mantra_dex_std::epoch_manager::QueryMsg::Config {});
        if let Ok(c) = ec { s += &format!("em[{} {}] ", c.epoch_config.duration, c.epoch_config.genesis_epoch); }
        // --- farm manager
        let fc: Result<fmm::Config, _> = self.w.app.wrap().query_wasm_smart(self.w.a("fm"), &fmm::QueryMsg::Config {});
        if let Ok(c) = fc {
            s += &format!("fmcfg[{} {} {} {}{} {} {} {} {} {} {}] ",
                self.w.n(c.fee_collector_addr.as_str()), self.w.n(c.epoch_manager_addr.as_str()), self.w.n(c.pool_manager_addr.as_str()),
                c.create_farm_fee.amount, c.create_farm_fee.denom, c.max_concurrent_farms, c.max_farm_epoch_buffer,
                c.min_unlocking_duration, c.max_unlocking_duration, c.farm_expiration_time, c.emergency_unlock_penalty.atomics());
        }
        s += "farms[";
        let farms = self.all_farms();
        obs.farms = farms.clone();
        for f in farms {
            if !self.farm_ids.contains(&f.identifier) { self.farm_ids.push(f.identifier.clone()); }
            s += &format!("{}|{}|{}|{}|{}|{}|{}|{}|{};", f.identifier, self.w.n(f.owner.as_str()), self.w.cd(&f.lp_denom), self.w.cd(&f.farm_asset.denom),
                f.farm_asset.amount, f.claimed_amount, f.emission_rate, f.start_epoch, f.preliminary_end_epoch);
        }
        s += "] pos[";
        let positions = self.all_positions();
        obs.positions = positions.clone();
        for p in positions {
            if !self.pos_ids.contains(&p.identifier) { self.pos_ids.push(p.identifier.clone()); }
            s += &format!("{}|{}|{}|{}|{}|{}|{};", p.identifier, self.w.cd(&p.lp_asset.denom), p.lp_asset.amount, p.unlocking_duration,
                p.open as u8, p.expiring_at.map(|x| x.to_string()).unwrap_or("-".into()), self.w.n(p.receiver.as_str()));
        }
        s += "] users[";
        // raw storage: claim cursor and weight history (not exposed by queries as a whole)
        {
            let storage = self.w.app.contract_storage(&self.w.a("fm"));
            for who in ["fm", "u1", "u2", "u3", "u4", "owner", "out", "pm"] {
                let a = self.w.a(who);
                let last = farm_manager::state::LAST_CLAIMED_EPOCH.may_load(&*storage, &a).ok().flatten();
                let mut hs = String::new();
                let mut hm = std::collections::BTreeMap::new();
                for lp in self.lps.iter() {
                    let real = self.w.rd(lp);
                    let h: Vec<(u64, Uint128)> = farm_manager::state::LP_WEIGHT_HISTORY
                        .prefix((&a, real.as_str()))
                        .range(&*storage, None, None, cosmwasm_std::Order::Ascending)
                        .filter_map(|x| x.ok())
                        .collect();
                    if !h.is_empty() {
                        hm.insert(lp.clone(), h.iter().map(|(e, w)| (*e, w.u128())).collect::<Vec<_>>());
                        hs += &format!("{}=({})", lp, h.iter().map(|(e, w)| format!("{}:{}", e, w)).collect::<Vec<_>>().join(","));
                    }
                }
                if last.is_some() || !hs.is_empty() {
                    s += &format!("{} last={} {};", who, last.map(|x| x.to_string()).unwrap_or("-".into()), hs);
                }
                obs.users.insert(who.to_string(), (last, hm));
            }
        }
        s += "] rewards[";
        for who in ["u1", "u2", "u3", "u4", "owner"] {
            let r: Result<fmm::RewardsResponse, _> = self.w.app.wrap().query_wasm_smart(
                self.w.a("fm"), &fmm::QueryMsg::Rewards { address: self.w.astr(who), until_epoch: None });
            match r {
                Ok(fmm::RewardsResponse::RewardsResponse { total_rewards, .. }) => {
                    if !total_rewards.is_empty() {
                        s += &format!("{}={};", who, total_rewards.iter().map(|c| format!("{}{}", c.amount, self.w.cd(&c.denom))).collect::<Vec<_>>().join(","));
                    }
                }
                Ok(_) => s += &format!("{}=other;", who),
                Err(_) => s += &format!("{}=err;", who),
            }
        }
        s += &format!("] time[{}]", self.w.now_ns());
        obs.text = s.clone();
        obs.now_ns = self.w.now_ns();
        let er: Result<mantra_dex_std::epoch_manager::EpochResponse, _> = self.w.app.wrap()
            .query_wasm_smart(self.w.a("em"), &mantra_dex_std::epoch_manager::QueryMsg::CurrentEpoch {});
        obs.epoch = er.ok().map(|e| e.epoch.id);
        self.last_obs = obs;
        s
    }
}

/// executes state-changing lines; after each one prints the snapshot and the monitor lines
pub struct Runner {
    pub h: Hist,
    pub ms: crate::monitors::MonState,
    /// every state-changing line executed so far (for replaying the same prefix on a twin)
    pub log: Vec<String>,
    /// fault enumeration bookkeeping: the armed position, the line being re-attempted, and the positions at which
    /// that line was rejected since the state last changed
    pub armed: Option<u64>,
    pub attempt_line: String,
    pub rejected_at: Vec<u64>,
}

impl Runner {
    pub fn new(cfg: WorldCfg) -> Runner {
        Runner { h: Hist::new(cfg), ms: Default::default(), log: vec![], armed: None, attempt_line: String::new(), rejected_at: vec![] }
    }
    pub fn first_snap(&mut self, o: &mut Out) {
        let s = self.h.exec_line("snap");
        o.line("snap", &s);
    }
    pub fn step(&mut self, line: &str, o: &mut Out) -> String {
        if line.starts_with("q ") {
            let res = self.h.exec_line(line);
            o.line(line, &res);
            return res;
        }
        self.log.push(line.to_string());
        let before = self.h.last_obs.clone();
        self.ms.fault_active = self.h.pending_fault.is_some() && !line.starts_with("fault");
        if line.starts_with("tx ") {
            let h = &self.h; let ms = &mut self.ms;
            let _ = crate::guarded(|| { crate::monitors::pre_tx_quotes(h, ms, line); Ok(()) });
        }
        let res = self.h.exec_line(line);
        o.line(line, &res);
        if !line.starts_with("fault") {
            let s = self.h.exec_line("snap");
            o.line("snap", &s);
            let mut mons = vec![];
            // the monitors issue queries to the real contracts; a contract query that PANICS (cw-multi-test does not
            // catch it) must not take the harness down: the monitor lines of this step computed so far are kept and
            // the event is reported as a line of its own, which the model side judges (it never panics in a query)
            let h = &self.h; let ms = &mut self.ms;
            let r = crate::guarded(|| { crate::monitors::tx_monitors(h, ms, &before, line, &res, &mut mons); Ok(()) });
            if r.is_err() { mons.push("mon_query_panicked tx".to_string()); }
            let r = crate::guarded(|| { crate::monitors::state_monitors(h, ms, &mut mons); Ok(()) });
            if r.is_err() { mons.push("mon_query_panicked state".to_string()); }
            for m in mons { o.line(&m, "ok"); }
            // ---- fault enumeration monitors (C20)
            let kind = crate::monitors::parse_tx(line).map(|t| t.kind).unwrap_or(if line.starts_with("send") { "send".into() } else { "other".into() });
            let armed = self.armed.take();
            let mut final_attempt = armed.is_none() && line.starts_with("tx ");
            if let Some(k) = armed {
                let hit = self.h.last_calls >= k;
                o.line(&format!("mon_fault_outcome {} {} {}", hit as u8, (res == "ok") as u8, kind), "ok");
                if self.attempt_line != line { self.attempt_line = line.to_string(); self.rejected_at.clear(); }
                if hit && res != "ok" { self.rejected_at.push(k); }
                if hit && res == "ok" { self.rejected_at.clear(); }
                // an attempt that did not reach the armed call ran fault-free: it is the real one
                if !hit { final_attempt = true; }
            }
            if final_attempt {
                if self.attempt_line == line && res == "ok" && (kind == "createfarm" || kind == "closefarm") {
                    // the refunds of the farms this transaction closes are its LAST bank calls; an attempt in which one
                    // of THEM was made to fail must not have been rejected (the failure of such a refund is tolerated)
                    let after = &self.h.last_obs;
                    let refunds = before.farms.iter().filter(|f| {
                        let gone = match after.farms.iter().find(|g| g.identifier == f.identifier) {
                            None => true,
                            Some(g) => g.owner != f.owner || g.start_epoch != f.start_epoch || g.claimed_amount < f.claimed_amount,
                        };
                        gone && f.farm_asset.amount > f.claimed_amount
                    }).count() as u64;
                    let calls = self.h.last_calls;
                    if refunds > 0 {
                        let blocked = self.rejected_at.iter().filter(|x| **x + refunds > calls && **x <= calls).count();
                        o.line(&format!("mon_refund_tolerated {} {} {} {}", kind, calls, refunds, blocked), "ok");
                    }
                }
                self.attempt_line.clear();
                self.rejected_at.clear();
            }
        } else {
            self.armed = line.split_whitespace().nth(1).and_then(|x| x.parse().ok());
        }
        res
    }
}

pub fn parse_init(l: &str) -> WorldCfg {
    let mut t = Toks::new(l);
    t.s();
    let tf = t.coins();
    let pcd = t.s().to_string(); let pca = t.u128();
    let ffd = t.s().to_string(); let ffa = t.u128();
    WorldCfg {
        tf_fees: tf, pool_creation_fee: coin(pca, pcd), farm_fee: coin(ffa, ffd),
        max_concurrent_farms: t.u64() as u32, max_farm_epoch_buffer: t.u64() as u32,
        min_unlocking: t.u64(), max_unlocking: t.u64(), farm_expiration_time: t.u64(),
        emergency_penalty: Decimal::raw(t.u128()), epoch_duration: t.u64(),
    }
}

/// run one case given its lines (replay / corpus): `snap` and `mon_*` lines of the file are
/// ignored — snapshots and monitors are recomputed from what the implementation does now
pub fn run_case_lines(lines: &[String], o: &mut Out) {
    let mut r: Option<Runner> = None;
    for l in lines {
        let op = l.split_whitespace().next().unwrap_or("");
        match op {
            "begin" => { o.raw(l); }
            "end" => { o.raw(l); r = None; }
            "init" => {
                let mut rr = Runner::new(parse_init(l));
                o.line(l, "ok");
                rr.first_snap(o);
                r = Some(rr);
            }
            "snap" => {}
            x if x.starts_with("mon_") => {}
            _ => { if let Some(rr) = r.as_mut() { rr.step(l, o); } }
        }
    }
}

#[allow(dead_code)]
fn _unused(_: Coin) {}
