//! `farmmath` stream: farm-manager weight curve and emergency penalty (through the verif-hooks).
//!   weight <amount> <duration>                                      => ok <weight> | err
//!   penalty <amount> <duration> <expiringAt|-> <base> <now>         => ok <penalty atomics> | err
use cosmwasm_std::{coin, Addr, Decimal};
use farm_manager::position::verif_api::{calculate_emergency_penalty, calculate_weight};
use mantra_dex_std::farm_manager::Position;

use crate::gen::*;
use crate::proto::*;
use crate::rng::Rng;
use crate::{guarded, Out};

const DAY: u64 = 86_400;
const YEAR: u64 = 31_556_926;

pub fn exec_line(line: &str) -> String {
    let mut t = Toks::new(line);
    let op = t.s();
    let res: Result<String, String> = match op {
        "weight" => {
            let a = t.u128(); let d = t.u64();
            guarded(|| calculate_weight(&coin(a, "lp"), d).map(|w| format!("ok {}", w)).map_err(|e| e.to_string()))
        }
        "penalty" => {
            let a = t.u128(); let d = t.u64(); let e = t.opt_u128().map(|x| x as u64);
            let base = t.dec(); let now = t.u64();
            let p = Position { identifier: "u-1".into(), lp_asset: coin(a, "lp"), unlocking_duration: d, open: e.is_none(), expiring_at: e, receiver: Addr::unchecked("user") };
            guarded(|| calculate_emergency_penalty(&p, base, now).map(|x| format!("ok {}", x.atomics())).map_err(|e| e.to_string()))
        }
        _ => Err("bad-op".into()),
    };
    match res { Ok(s) => s, Err(_) => "err".to_string() }
}

pub fn gen_duration(r: &mut Rng) -> u64 {
    match r.below(12) {
        0 => DAY, 1 => YEAR, 2 => if r.chance(1, 3) { DAY - 1 } else { DAY + 1 }, 3 => if r.chance(1, 3) { YEAR + 1 } else { YEAR - 1 }, 4 => 15_778_463, 5 => DAY + r.below(10),
        6 => YEAR - r.below(10), 7 => if r.chance(1, 6) { r.edge64() } else { r.range(DAY, YEAR) }, 8 => DAY * r.range(1, 365),
        _ => r.range(DAY, YEAR),
    }
}

pub fn gen_amount(r: &mut Rng) -> u128 {
    match r.below(20) {
        0 => if r.chance(1, 3) { 0 } else { 1 }, 1 => 1, 2 => 2 + r.below(20) as u128, 3 => if r.chance(1, 2) { u128::MAX - r.below(3) as u128 } else { r.u128() }, 4 => r.u128() >> 10,
        5 => 340_282_366_920_938_463_463 + r.below(3) as u128 - 1, // the Decimal(128) from_ratio boundary
        6 => rand_mag(r, 38),
        _ => rand_mag(r, 30),
    }
}

pub fn gen_line(r: &mut Rng) -> String {
    if r.chance(1, 2) {
        format!("weight {} {}", gen_amount(r), gen_duration(r))
    } else {
        let d = gen_duration(r);
        let now = 1_714_057_200 + r.below(1000 * DAY);
        let e: Option<u64> = match r.below(6) { 0 => None, 1 => Some(now), 2 => Some(now.saturating_add(d)), 3 => Some(now.saturating_sub(r.below(10))), 4 => Some(now + r.below(d.min(YEAR) + 1)), _ => Some(now + r.below(2 * YEAR)) };
        let base = match r.below(6) { 0 => 0u128, 1 => 1_000_000_000_000_000_000, 2 => 100_000_000_000_000_000, 3 => 20_000_000_000_000_000, 4 => 1, _ => r.below(1_000_000_000_000_000_001) as u128 };
        format!("penalty {} {} {} {} {}", gen_amount(r), d, opt_str(&e), base, now)
    }
}

pub fn run(seed: u64, cases: u64, replay: Option<&str>, o: &mut Out) {
    if let Some(p) = replay {
        let mut rr = Rng::new(seed ^ 0xFA12);
        for l in super::replay_lines(p) {
            if l.starts_with("mon_") { continue; }
            let res = exec_line(&l); o.line(&l, &res);
            emit_monitors(&l, &res, &mut rr, o);
        }
        return;
    }
    let mut r = Rng::new(seed ^ 0xFA12);
    for _ in 0..cases {
        let line = gen_line(&mut r);
        let res = exec_line(&line);
        o.line(&line, &res);
        emit_monitors(&line, &res, &mut r, o);
    }
}

fn ok_val(res: &str) -> Option<u128> {
    let t: Vec<&str> = res.split_whitespace().collect();
    if t[0] == "ok" && t.len() == 2 { t[1].parse().ok() } else { None }
}

/// monitor lines: the C09/C10 predicates evaluated by the Lean driver on the implementation's answers
fn emit_monitors(line: &str, res: &str, r: &mut Rng, o: &mut Out) {
    let t: Vec<&str> = line.split_whitespace().collect();
    match t[0] {
        "weight" => {
            let Some(w) = ok_val(res) else { return };
            let a: u128 = t[1].parse().unwrap();
            let d: u64 = t[2].parse().unwrap();
            o.line(&format!("mon_weight {} {}", a, w), "ok");
            // a second point that dominates the first
            let a2 = a.saturating_add(match r.below(3) { 0 => 0, 1 => 1, _ => rand_mag(r, 30) });
            let d2 = (d + match r.below(3) { 0 => 0, 1 => 1, _ => r.below(YEAR) }).min(YEAR);
            if let Some(w2) = ok_val(&exec_line(&format!("weight {} {}", a2, d2))) {
                o.line(&format!("mon_weight {} {}", a2, w2), "ok");
                o.line(&format!("mon_weight_pair {} {} {} {} {} {}", a, d, w, a2, d2, w2), "ok");
            }
            // split the amount in two pieces
            if a >= 2 {
                let x = 1 + r.u128() % (a - 1);
                let (wa, wb) = (ok_val(&exec_line(&format!("weight {} {}", x, d))), ok_val(&exec_line(&format!("weight {} {}", a - x, d))));
                if let (Some(wa), Some(wb)) = (wa, wb) {
                    o.line(&format!("mon_weight_add {} {} {}", wa, wb, w), "ok");
                }
            }
        }
        "penalty" => {
            let Some(rate) = ok_val(res) else { return };
            let Some(w) = ok_val(&exec_line(&format!("weight {} {}", t[1], t[2]))) else { return };
            o.line(&format!("mon_penalty {} {} {} {} {} {} {}", t[1], t[2], t[3], t[4], t[5], w, rate), "ok");
            if t[3] != "-" {
                let now: u64 = t[5].parse().unwrap();
                let now2 = now + match r.below(3) { 0 => 1, 1 => r.below(DAY), _ => r.below(YEAR) };
                if let Some(rate2) = ok_val(&exec_line(&format!("penalty {} {} {} {} {}", t[1], t[2], t[3], t[4], now2))) {
                    o.line(&format!("mon_penalty_time {} {} {} {}", now, rate, now2, rate2), "ok");
                }
            }
        }
        _ => {}
    }
}
#[allow(dead_code)]
fn _unused(_: Decimal) {}
