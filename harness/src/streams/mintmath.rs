//! `mintmath` stream: deposit numerics, called directly.
//!   computed <amp> <coins>                                   => ok <D> | err
//!   computedpi <pool> <coins>                                => ok <D> | ok none | err
//!   lpmint <pool> <supply> <newcoins>                        => ok <mint> | err     (old = pool assets)
//!   slipcheck <cp|ss> <amp> <tol|-> <deposits> <poolassets>  => ok <denoms of pool_assets after, comma> | err:slippage | err
//!   cpmint <dep0> <dep1> <res0> <res1> <supply>              => ok <shares> | err   (the xyk share formulas of provide_liquidity, re-stated by the harness from the contract source is NOT possible: see pm_hist; here only multiply_ratio/isqrt primitives)
use cosmwasm_std::{Decimal, Uint128};
use mantra_dex_std::pool_manager::PoolType;
use pool_manager::helpers;

use crate::gen::*;
use crate::proto::*;
use crate::rng::Rng;
use crate::{guarded, Out};

pub fn exec_line(line: &str) -> String {
    let mut t = Toks::new(line);
    let op = t.s();
    let res: Result<String, String> = match op {
        "computed" => {
            let amp = t.u64();
            let coins = t.coins();
            guarded(|| match helpers::compute_d(&amp, &coins) { Some(d) => Ok(format!("ok {}", d)), None => Ok("ok none".into()) })
        }
        "computedpi" => {
            let pool = t.pool();
            let coins = t.coins();
            let amp = match pool.pool_type { PoolType::StableSwap { amp } => amp, _ => 1 };
            guarded(|| match helpers::compute_d_with_pool_info(&amp, &coins, &pool) { Some(d) => Ok(format!("ok {}", d)), None => Ok("ok none".into()) })
        }
        "lpmint" => {
            let pool = t.pool();
            let supply = t.u128();
            let newc = t.coins();
            let amp = match pool.pool_type { PoolType::StableSwap { amp } => amp, _ => 1 };
            guarded(|| {
                let r = helpers::compute_lp_mint_amount_for_stableswap_deposit(&amp, &pool.assets, &newc, Uint128::new(supply), &pool)
                    .map_err(|e| e.to_string())?;
                match r { Some(m) => Ok(format!("ok {}", m)), None => Err("none".into()) }
            })
        }
        "slipcheck" => {
            let ty = t.s();
            let amp = t.u64();
            let tol = t.opt_dec();
            let deps = t.coins();
            let mut pa = t.coins();
            let pt = if ty == "cp" { PoolType::ConstantProduct } else { PoolType::StableSwap { amp } };
            guarded(|| {
                helpers::assert_slippage_tolerance(&tol, &deps, &mut pa, pt).map_err(|e| {
                    if matches!(e, pool_manager::ContractError::MaxSlippageAssertion) { "slippage".to_string() } else { e.to_string() }
                })?;
                Ok(format!("ok {}", pa.iter().map(|c| c.denom.clone()).collect::<Vec<_>>().join(",")))
            })
        }
        _ => Err("bad-op".into()),
    };
    match res {
        Ok(s) => s,
        Err(e) if e == "slippage" => "err:slippage".to_string(),
        Err(_) => "err".to_string(),
    }
}

/// a deposit onto `old`: balanced / skewed / partial
fn gen_new_assets(r: &mut Rng, pool: &mantra_dex_std::pool_manager::PoolInfo) -> Vec<cosmwasm_std::Coin> {
    let shape = r.below(7);
    let frac_num = 1 + r.below(2000) as u128; // per-mille-ish of reserves
    if shape == 6 {
        // a roughly balanced deposit after which the FIRST and the LAST reserve are exactly equal in the common precision while
        // the ones in between are not (and the reserves were not equal before): any "is the pool balanced" shortcut that looks
        // at two of n reserves takes the wrong branch here
        let n = pool.assets.len();
        let maxd = *pool.asset_decimals.iter().max().unwrap_or(&0) as u32;
        let scale = |i: usize| 10u128.pow((maxd - pool.asset_decimals[i] as u32).min(30));
        let mut out: Vec<cosmwasm_std::Coin> = pool.assets.iter().map(|c| { let a = c.amount.u128(); cosmwasm_std::coin(a.saturating_add(a / 1000 * frac_num / 10), c.denom.clone()) }).collect();
        let hi = out[0].amount.u128().saturating_mul(scale(0)).max(out[n - 1].amount.u128().saturating_mul(scale(n - 1)));
        let unit = scale(0).max(scale(n - 1));
        let target = (hi / unit + 1).saturating_mul(unit);
        out[0].amount = Uint128::new(target / scale(0));
        out[n - 1].amount = Uint128::new(target / scale(n - 1));
        return out;
    }
    pool.assets.iter().enumerate().map(|(i, c)| {
        let a = c.amount.u128();
        let add = match shape {
            0 => a / 1000 * frac_num / 10,                         // balanced
            1 => a.saturating_mul(frac_num) / 100_000,             // balanced small
            2 => if i == 0 { a / 10 + 1 } else { 0 },              // single-sided (partial set)
            3 => if r.chance(1, 2) { rand_mag(r, 24) } else { 0 }, // random partial
            4 => a / 100 * (99 + r.below(3) as u128) / 100 + r.below(2) as u128, // near the 1 % balance boundary
            _ => rand_mag(r, 26),
        };
        cosmwasm_std::coin(a.saturating_add(add), c.denom.clone())
    }).collect()
}

/// far outside the supported range: amplification up to u64::MAX (pool creation only requires amp != 0), balances
/// from one unit to 10^37 with any skew, mostly 4 assets — the code must refuse or still return a converged D
pub fn gen_pool_extreme(r: &mut Rng) -> mantra_dex_std::pool_manager::PoolInfo {
    let mut p = gen_pool(r, true);
    while p.assets.len() < 2 + r.below(3) as usize {
        let d = DENOMS.iter().find(|d| !p.asset_denoms.iter().any(|x| x == *d)).unwrap().to_string();
        p.asset_denoms.push(d.clone()); p.asset_decimals.push(p.asset_decimals[0]); p.assets.push(cosmwasm_std::coin(1, d));
    }
    let n = p.assets.len() as u64;
    let amp: u64 = match r.below(9) {
        0 => 1, 1 => 1_000_000, 2 => 90_000_000_000_000_000, 3 => u64::MAX / (n * 100), 4 => u64::MAX / (n * 100) + 1,
        5 => 100_000_000_000_000_000, 6 => u64::MAX, 7 => u64::MAX / n, _ => r.range(1, 1_000_000),
    };
    p.pool_type = PoolType::StableSwap { amp };
    let same = r.chance(1, 2);
    let d0 = [6u8, 18, 6, 12][r.below(4) as usize];
    for d in p.asset_decimals.iter_mut() { *d = if same { d0 } else { [6u8, 18, 8, 12][r.below(4) as usize] }; }
    let shape = r.below(4);
    for (i, a) in p.assets.iter_mut().enumerate() {
        let (k1, k2, k3, k4) = (26 + r.below(12) as u32, 20 + r.below(12) as u32, r.below(8) as u32, r.below(38) as u32);
        let v = match shape {
            0 => if i == 0 { amount_mag(r, k1) } else { 1 + r.below(1000) as u128 },   // one huge, dust elsewhere
            1 => amount_mag(r, k1),                                                  // all huge
            2 => if i % 2 == 0 { amount_mag(r, k2) } else { amount_mag(r, k3) },
            _ => amount_mag(r, k4),
        };
        a.amount = Uint128::new(v);
    }
    p
}

pub fn gen_line(r: &mut Rng) -> String {
    if r.chance(1, 8) {
        let p = gen_pool_extreme(r);
        let amp = match p.pool_type { PoolType::StableSwap { amp } => amp, _ => 1 };
        return match r.below(3) {
            0 => format!("computed {} {}", amp, coins_str(&p.assets)),
            1 => format!("computedpi {} {}", pool_str(&p), coins_str(&p.assets)),
            _ => {
                // first deposit of exactly these balances
                let mut q = p.clone();
                for a in q.assets.iter_mut() { a.amount = Uint128::zero(); }
                format!("lpmint {} 0 {}", pool_str(&q), coins_str(&p.assets))
            }
        };
    }
    match r.below(10) {
        0 | 1 => {
            let p = gen_pool(r, true);
            let amp = match p.pool_type { PoolType::StableSwap { amp } => amp, _ => 1 };
            format!("computed {} {}", amp, coins_str(&p.assets))
        }
        2 => {
            let p = gen_pool(r, true);
            let coins = gen_new_assets(r, &p);
            format!("computedpi {} {}", pool_str(&p), coins_str(&coins))
        }
        3 | 4 | 5 | 6 => {
            let mut p = gen_pool(r, true);
            let first = r.chance(1, 5);
            if first { for a in p.assets.iter_mut() { a.amount = Uint128::zero(); } }
            let mut newc = gen_new_assets(r, &p);
            // directed: a 3-4 asset pool whose first and last reserves differ by a hair, and an (almost) equal-amounts deposit —
            // inside the 1 % "balanced" shortcut — that makes exactly those two equal while the middle ones stay different
            if !first && p.assets.len() >= 3 && r.chance(1, 6) {
                let n = p.assets.len();
                let maxd = *p.asset_decimals.iter().max().unwrap() as u32;
                let sc: Vec<u128> = (0..n).map(|i| 10u128.pow((maxd - p.asset_decimals[i] as u32).min(30))).collect();
                let unit = sc[0].max(sc[n - 1]);
                let base = (p.assets[0].amount.u128().saturating_mul(sc[0]) / unit).max(1000) * unit;    // common-precision value of the first reserve
                let x = (base / unit / [20u128, 100, 1000][r.below(3) as usize]).max(400) * unit;          // the deposit, in the common precision
                let delta = (1 + r.below(3) as u128) * unit;                                              // the hair (<< 1 % of x)
                if base.checked_add(x).and_then(|v| v.checked_add(delta)).is_some() && base + x + delta < u128::MAX / 4 {
                    p.assets[0].amount = Uint128::new(base / sc[0]);
                    p.assets[n - 1].amount = Uint128::new((base + delta) / sc[n - 1]);
                    newc = (0..n).map(|i| {
                        let a = p.assets[i].amount.u128();
                        let add = if i == 0 { (x + delta) / sc[0] } else { x / sc[i] };
                        cosmwasm_std::coin(a.saturating_add(add), p.assets[i].denom.clone())
                    }).collect();
                }
            }
            if first { for (i, c) in newc.iter_mut().enumerate() { c.amount = Uint128::new(rand_mag(r, 12) * 10u128.pow(p.asset_decimals[i].min(18) as u32) / 1000 + r.below(3) as u128); } }
            let supply = if first { 0 } else {
                // roughly D in max precision
                let maxd = *p.asset_decimals.iter().max().unwrap() as u32;
                let s: u128 = p.assets.iter().enumerate().map(|(i, c)| c.amount.u128().saturating_mul(10u128.pow((maxd - p.asset_decimals[i] as u32).min(30)))).fold(0u128, |a, b| a.saturating_add(b));
                match r.below(4) { 0 => s, 1 => s / 2 + 1, 2 => rand_mag(r, 30), _ => s.saturating_add(r.below(1000) as u128) }
            };
            format!("lpmint {} {} {}", pool_str(&p), supply, coins_str(&newc))
        }
        _ => {
            let stable = r.chance(1, 2);
            let p = gen_pool(r, stable);
            let amp = match p.pool_type { PoolType::StableSwap { amp } => amp, _ => 0 };
            // deposits sorted by denom (aggregate_coins output)
            let mut deps: Vec<cosmwasm_std::Coin> = p.assets.iter().map(|c| {
                let a = c.amount.u128();
                let d = match r.below(4) { 0 => a / 100, 1 => a / 100 + a / 10000 * (r.below(200) as u128), 2 => r.below(3) as u128, _ => rand_mag(r, 24) };
                cosmwasm_std::coin(d, c.denom.clone())
            }).collect();
            deps.sort_by(|a, b| a.denom.cmp(&b.denom));
            if stable && r.chance(1, 3) { deps.pop(); }
            let tol: Option<Decimal> = match r.below(7) { 0 => None, 1 => Some(Decimal::one()), 2 => Some(Decimal::percent(1)), 3 => Some(Decimal::raw(1_000_000_000_000_000_001)), 4 => Some(Decimal::zero()), 5 => Some(Decimal::percent(50)), _ => Some(Decimal::raw(r.below(1_000_000_000_000_000_000) as u128)) };
            format!("slipcheck {} {} {} {} {}", if stable { "ss" } else { "cp" }, amp, opt_str(&tol.map(|d| d.atomics())), coins_str(&deps), coins_str(&p.assets))
        }
    }
}

/// C19: a D the code returned must be a (near-)fixpoint of its own iteration, whatever the inputs
fn monitors(line: &str, res: &str, o: &mut Out) {
    let Some(d) = res.strip_prefix("ok ") else { return };
    if d == "none" || d.parse::<cosmwasm_std::Uint512>().is_err() { return; }
    let mut t = Toks::new(line);
    match t.s() {
        "computed" => {
            let amp = t.u64();
            let coins = t.coins();
            let xs: Vec<String> = coins.iter().map(|c| c.amount.to_string()).collect();
            o.line(&format!("mon_d_conv {} {} {} {}", amp, xs.len(), xs.join(" "), d), "ok");
        }
        "lpmint" => {
            // C02 (stableswap): the exact invariant per LP token does not fall through the deposit this mint belongs to
            let pool = t.pool();
            let supply = t.u128();
            let coins = t.coins();
            if matches!(pool.pool_type, PoolType::ConstantProduct) || supply == 0 || coins.len() != pool.assets.len() { return; }
            let Ok(minted) = d.parse::<u128>() else { return };
            let after: Vec<String> = coins.iter().map(|c| c.amount.to_string()).collect();
            o.line(&format!("mon_ss_lp {} {} {} {} {}", crate::proto::pool_str(&pool), after.len(), after.join(" "), supply, supply.saturating_add(minted)), "ok");
        }
        "computedpi" => {
            let pool = t.pool();
            let coins = t.coins();
            let amp = match pool.pool_type { PoolType::StableSwap { amp } => amp, _ => 1 };
            let maxd = *pool.asset_decimals.iter().max().unwrap_or(&0) as u32;
            let mut xs = vec![];
            for c in coins.iter() {
                let Some(i) = pool.asset_denoms.iter().position(|x| *x == c.denom) else { return };
                let k = maxd - pool.asset_decimals[i] as u32;
                xs.push((cosmwasm_std::Uint512::from(c.amount) * cosmwasm_std::Uint512::from(10u128).pow(k)).to_string());
            }
            o.line(&format!("mon_d_conv {} {} {} {}", amp, xs.len(), xs.join(" "), d), "ok");
        }
        _ => {}
    }
}

pub fn run(seed: u64, cases: u64, replay: Option<&str>, o: &mut Out) {
    if let Some(p) = replay {
        let lines = super::replay_lines(p);
        let has_source = lines.iter().any(|l| !l.starts_with("mon_"));
        for l in lines {
            if l.starts_with("mon_d_conv ") && has_source { continue; }
            if l.starts_with("mon_d_conv ") {
                // a monitor line replays by recomputing D for its balances on the real code
                let mut t = Toks::new(&l);
                t.s();
                let amp = t.u64();
                let n = t.u64() as usize;
                let xs: Vec<Uint128> = (0..n).map(|_| Uint128::new(t.u128())).collect();
                let r = guarded(|| Ok(helpers::verif_api::calculate_d_core(&amp, &xs, Uint128::new(n as u128)).map(|d| d.to_string())));
                if let Ok(Some(d)) = r {
                    o.line(&format!("mon_d_conv {} {} {} {}", amp, n, xs.iter().map(|x| x.to_string()).collect::<Vec<_>>().join(" "), d), "ok");
                }
                continue;
            }
            if l.starts_with("mon_") { continue; }
            let res = exec_line(&l);
            o.line(&l, &res);
            monitors(&l, &res, o);
        }
        return;
    }
    let mut r = Rng::new(seed ^ 0x3141);
    for _ in 0..cases {
        let line = gen_line(&mut r);
        let res = exec_line(&line);
        o.line(&line, &res);
        monitors(&line, &res, o);
    }
}
