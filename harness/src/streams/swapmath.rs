//! `swapmath` stream: the pure swap numerics, called directly.
//!   swap <pool> <offerDenom> <offerAmt> <askDenom>        => ok ret slip swapfee protfee burnfee extra | err
//!   offeramt <offerPool> <askPool> <ask> <fees>           => ok offer slip swapfee protfee burnfee extra | err
//!   maxslip <belief|-> <max|-> <offer> <ret> <slip>       => ok | err:slippage | err
//!   fee <share> <amount>                                  => ok <fee> | err
//!   feevalid <fees>                                       => ok | err
//!   stabled <pool>                                        => ok <D atomics> | err
//! <pool> = <cp|ss> <amp> <n> (<denom> <decimals> <amount>)*n <prot> <swap> <burn> <extras|->
use cosmwasm_std::{coin, Decimal, Uint128, Uint256};
use mantra_dex_std::fee::Fee;
use mantra_dex_std::pool_manager::PoolType;
use pool_manager::helpers;
use pool_manager::swap::verif_api::assert_max_slippage;
use std::str::FromStr;

use crate::gen::*;
use crate::proto::*;
use crate::rng::Rng;
use crate::{guarded, Out};

pub fn exec_line(line: &str) -> String {
    let mut t = Toks::new(line);
    let op = t.s();
    let res: Result<String, String> = match op {
        "swap" => {
            let pool = t.pool();
            let od = t.s().to_string();
            let oa = t.u128();
            let ad = t.s().to_string();
            guarded(|| {
                let c = helpers::compute_swap(&pool, &coin(oa, od), &ad).map_err(|e| e.to_string())?;
                Ok(format!("ok {} {} {} {} {} {}", c.return_amount, c.slippage_amount, c.swap_fee_amount,
                    c.protocol_fee_amount, c.burn_fee_amount, c.extra_fees_amount))
            })
        }
        "offeramt" => {
            let op_ = t.u128(); let ap = t.u128(); let ask = t.u128(); let fees = t.fees();
            guarded(|| {
                let c = helpers::compute_offer_amount(Uint128::new(op_), Uint128::new(ap), Uint128::new(ask), fees)
                    .map_err(|e| e.to_string())?;
                Ok(format!("ok {} {} {} {} {} {}", c.offer_amount, c.slippage_amount, c.swap_fee_amount,
                    c.protocol_fee_amount, c.burn_fee_amount, c.extra_fees_amount))
            })
        }
        "maxslip" => {
            let belief = t.opt_dec(); let ms = t.opt_dec();
            let offer = t.u128(); let ret = t.u128(); let slip = t.u128();
            guarded(|| {
                assert_max_slippage(belief, ms, Uint128::new(offer), Uint128::new(ret), Uint128::new(slip))
                    .map_err(|e| e.to_string())?;
                Ok("ok".to_string())
            }).map_err(|e| if e.contains("Slippage limit exceeded") { "slippage".to_string() } else { e })
        }
        "fee" => {
            let share = t.dec();
            let amount = Uint256::from_str(t.s()).unwrap();
            guarded(|| {
                let f = Fee { share }.compute(amount).map_err(|e| e.to_string())?;
                Ok(format!("ok {}", f))
            })
        }
        "feevalid" => {
            let fees = t.fees();
            guarded(|| { fees.is_valid().map_err(|e| e.to_string())?; Ok("ok".to_string()) })
        }
        "stabled" => {
            let pool = t.pool();
            let amp = match pool.pool_type { PoolType::StableSwap { amp } => amp, _ => 1 };
            guarded(|| {
                let d = helpers::verif_api::calculate_stableswap_d(&pool, Uint256::from(pool.assets.len() as u128), &amp)
                    .map_err(|e| e.to_string())?;
                Ok(format!("ok {}", d.atomics()))
            })
        }
        _ => Err("bad-op".into()),
    };
    match res {
        Ok(s) => s,
        Err(e) if e == "slippage" => "err:slippage".to_string(),
        Err(_) => "err".to_string(),
    }
}

pub fn gen_line(r: &mut Rng) -> String {
    match r.below(20) {
        0 | 1 | 2 | 3 | 4 | 5 => {
            let mut p = gen_pool(r, false);
            let (oi, ai) = if r.chance(1, 2) { (0, 1) } else { (1, 0) };
            let mut offer = gen_offer(r, p.assets[oi].amount.u128());
            if r.chance(1, 5) {
                if let Some((x, y, dx)) = sliver_cp(r) {
                    p.assets[oi].amount = Uint128::new(x); p.assets[ai].amount = Uint128::new(y); offer = dx;
                }
            }
            format!("swap {} {} {} {}", pool_str(&p), p.assets[oi].denom, offer, p.assets[ai].denom)
        }
        6 | 7 | 8 | 9 | 10 | 11 | 12 => {
            let mut p = gen_pool(r, true);
            let n = p.assets.len();
            let oi = r.below(n as u64) as usize;
            let mut ai = r.below(n as u64) as usize;
            if ai == oi && !r.chance(1, 30) { ai = (oi + 1) % n; }
            let mut offer = gen_offer(r, p.assets[oi].amount.u128());
            // directed: an asset registered with MORE than 18 decimals (pool creation does not validate decimals): the quote
            // path cannot represent it and must refuse — never answer
            if ai != oi && r.chance(1, 16) {
                let big = 19 + r.below(6) as u8;
                let which = if r.chance(1, 2) { oi } else { ai };
                let whole = 1_000 + r.below(1_000_000) as u128;
                for k in 0..n {
                    if k == which || r.chance(1, 4) { p.asset_decimals[k] = big; } else { p.asset_decimals[k] = [6u8, 18, 12][r.below(3) as usize]; }
                    let dec = p.asset_decimals[k] as u32;
                    p.assets[k].amount = Uint128::new(whole.saturating_mul(10u128.checked_pow(dec).unwrap_or(u128::MAX / 1_000_000_000)).min(u128::MAX / 4));
                }
                offer = (p.assets[oi].amount.u128() / [10_000u128, 100, 10][r.below(3) as usize]).max(1);
            }
            // directed (finding F-18): every asset with 18 decimals and SMALL reserves (10^7 … 10^16 units): the Decimal256 D
            // solver has no guard digits there
            if ai != oi && r.chance(1, 12) {
                for k in 0..n { p.asset_decimals[k] = 18; }
                let mag = 7 + r.below(10) as u32;
                let base = 10u128.pow(mag) * (1 + r.below(9) as u128) + r.below(1_000_000) as u128;
                for k in 0..n { p.assets[k].amount = Uint128::new(base * (100 + r.below(900) as u128) / 100); }
                if let PoolType::StableSwap { .. } = p.pool_type { p.pool_type = PoolType::StableSwap { amp: [1u64, 1, 2, 10, 85][r.below(5) as usize] }; }
                offer = (p.assets[oi].amount.u128() * [1u128, 10, 1000, 100_000][r.below(4) as usize] / 1_000_000).max(1);
            }
            // directed: an off-peg pool (the ask asset plentiful, the offer asset scarce: 10:1 … 300:1 in whole tokens) whose
            // offer asset has MORE decimals than the ask asset, and an offer nominally around ONE smallest ask unit — worth
            // several ask units at the pool's marginal price (sub-unit trades must be priced by the invariant, not by the peg)
            if ai != oi && r.chance(1, 6) {
                let (od, ad) = [(18u8, 6u8), (18, 8), (12, 6), (8, 6), (18, 12)][r.below(5) as usize];
                p.asset_decimals[oi] = od; p.asset_decimals[ai] = ad;
                for k in 0..n { if k != oi && k != ai { p.asset_decimals[k] = ad; } }
                let whole = 100 + r.below(100_000) as u128;
                let skew = [10u128, 30, 100, 300][r.below(4) as usize];
                for k in 0..n {
                    let dec = p.asset_decimals[k] as u32;
                    let tokens = if k == oi { whole } else { whole * skew };
                    p.assets[k].amount = Uint128::new(tokens * 10u128.pow(dec));
                }
                if let PoolType::StableSwap { .. } = p.pool_type { p.pool_type = PoolType::StableSwap { amp: [1u64, 10, 85, 100, 1000][r.below(5) as usize] }; }
                let unit = 10u128.pow((od - ad) as u32);       // one ask unit, nominally, in offer units
                offer = match r.below(6) { 0 => unit - 1, 1 => unit / 2, 2 => unit / 4, 3 => unit, 4 => unit + 1, _ => unit * (1 + r.below(5) as u128) - 1 };
            }
            // directed: a pool of THREE or four assets in which an asset that is NOT traded has more decimals than both traded
            // ones (6 / 6 / 18) and is the scarce one, with a sub-unit tail in the coarser precision: the invariant must be
            // resolved at the pool's highest precision, not at the traded pair's
            if ai != oi && n >= 3 && r.chance(1, 5) {
                let hi = (0..n).find(|k| *k != oi && *k != ai).unwrap();
                let (lo, hd) = [(6u8, 18u8), (6, 12), (8, 18)][r.below(3) as usize];
                for k in 0..n { p.asset_decimals[k] = if k == hi { hd } else { lo }; }
                let whole = 100_000 + r.below(2_000_000) as u128;
                let ask_mult = [5u128, 10, 50][r.below(3) as usize];
                let scarce_div = [20u128, 50, 500, 5000][r.below(4) as usize];
                for k in 0..n {
                    let dec = p.asset_decimals[k] as u32;
                    let tokens = if k == ai { whole * ask_mult } else if k == hi { (whole / scarce_div).max(1) } else { whole };
                    p.assets[k].amount = Uint128::new(tokens * 10u128.pow(dec));
                }
                // a tail just below one unit of the coarser precision on the scarce asset
                let tail = 10u128.pow((hd - lo) as u32) - 1 - r.below(3) as u128;
                p.assets[hi].amount += Uint128::new(tail);
                if let PoolType::StableSwap { .. } = p.pool_type { p.pool_type = PoolType::StableSwap { amp: [10u64, 85, 100, 1000][r.below(4) as usize] }; }
                offer = [1_000u128, 1_000_000, 50_000_000][r.below(3) as usize] + r.below(1000) as u128;
            }
            format!("swap {} {} {} {}", pool_str(&p), p.assets[oi].denom, offer, p.assets[ai].denom)
        }
        13 | 14 => {
            let p = gen_pool(r, false);
            let ap = p.assets[1].amount.u128();
            let ask = match r.below(5) { 0 => 1, 1 => ap / 2, 2 => ap, 3 => ap.saturating_sub(1), _ => if ap > 0 { r.u128() % ap } else { 0 } };
            format!("offeramt {} {} {} {}", p.assets[0].amount, ap, ask, fees_str(&p.pool_fees))
        }
        15 | 16 => {
            let offer = rand_mag(r, 30);
            let ret = match r.below(4) { 0 => offer, 1 => offer / 2, 2 => offer - offer / 100, _ => rand_mag(r, 30) };
            let slip = match r.below(4) { 0 => 0, 1 => ret / 100, 2 => ret / 99 + r.below(3) as u128, _ => rand_mag(r, 30) };
            let belief: Option<Decimal> = match r.below(4) { 0 => Some(Decimal::one()), 1 => Some(Decimal::raw(rand_mag(r, 25))), 2 => Some(Decimal::zero()), _ => None };
            let ms: Option<Decimal> = match r.below(6) { 0 => None, 1 => Some(Decimal::percent(1)), 2 => Some(Decimal::percent(50)), 3 => Some(Decimal::percent(60)), 4 => Some(Decimal::zero()), _ => Some(Decimal::raw(r.below(1_000_000_000_000_000_000) as u128)) };
            format!("maxslip {} {} {} {} {}", opt_str(&belief.map(|d| d.atomics())), opt_str(&ms.map(|d| d.atomics())), offer, ret, slip)
        }
        17 => {
            let share = match r.below(4) { 0 => gen_fee_share(r), 1 => 999_999_999_999_999_999, 2 => 1_000_000_000_000_000_000, _ => r.u128() };
            let amount = match r.below(4) { 0 => Uint256::from(r.u128()), 1 => Uint256::MAX, 2 => Uint256::from(rand_mag(r, 30)), _ => Uint256::from(r.u128()) * Uint256::from(r.mag(100)) };
            format!("fee {} {}", share, amount)
        }
        18 => {
            let mut f = gen_fees(r);
            if r.chance(1, 3) { f.swap_fee.share = Decimal::raw(r.below(1_100_000_000_000_000_000) as u128); }
            if r.chance(1, 3) { f.protocol_fee.share = Decimal::percent(r.below(25)); }
            format!("feevalid {}", fees_str(&f))
        }
        _ => {
            let p = gen_pool(r, true);
            format!("stabled {}", pool_str(&p))
        }
    }
}

pub fn run(seed: u64, cases: u64, replay: Option<&str>, o: &mut Out) {
    if let Some(p) = replay {
        for l in super::replay_lines(p) {
            if l.starts_with("mon_") { continue; }
            let res = exec_line(&l);
            o.line(&l, &res);
            emit_monitors(&l, &res, o);
        }
        return;
    }
    let mut r = Rng::new(seed ^ 0x5157);
    for _ in 0..cases {
        let line = gen_line(&mut r);
        let res = exec_line(&line);
        o.line(&line, &res);
        emit_monitors(&line, &res, o);
    }
}

/// monitors on the implementation's answer: fee shares (C04), x*y (C03), exact-invariant accuracy
/// and monotonicity for stableswap (C19, C03)
fn emit_monitors(line: &str, res: &str, o: &mut Out) {
    if line.starts_with("offeramt ") && res.starts_with("ok ") {
        // C12: offering one unit more than the reverse quote yields at least the requested amount
        let quoted: u128 = res.split_whitespace().nth(1).unwrap().parse().unwrap();
        let mut t = Toks::new(line);
        t.s();
        let x = t.u128(); let y = t.u128(); let ask = t.u128(); let fees = t.fees();
        let Some(offer) = quoted.checked_add(1) else { return };
        let pool = mantra_dex_std::pool_manager::PoolInfo {
            pool_identifier: "o.rev".into(), asset_denoms: vec!["uom".into(), "uusd".into()], lp_denom: "lp".into(),
            asset_decimals: vec![6, 6], assets: vec![coin(x, "uom"), coin(y, "uusd")], pool_type: PoolType::ConstantProduct,
            pool_fees: fees.clone(), status: Default::default(),
        };
        let r = guarded(|| helpers::compute_swap(&pool, &coin(offer, "uom"), "uusd").map(|c| c.return_amount.u128()).map_err(|e| e.to_string()));
        if let Ok(ret) = r {
            let total: u128 = [fees.protocol_fee.share, fees.swap_fee.share, fees.burn_fee.share].iter().map(|d| d.atomics().u128()).sum::<u128>()
                + fees.extra_fees.iter().map(|f| f.share.atomics().u128()).sum::<u128>();
            o.line(&format!("mon_rev {} {} {} {} {} {}", x, y, ask, total, quoted, ret), "ok");
        }
        return;
    }
    if !line.starts_with("swap ") || !res.starts_with("ok ") { return; }
    let rt: Vec<u128> = res.split_whitespace().skip(1).map(|x| x.parse().unwrap()).collect();
    let (ret, _slip, sf, pf, bf, ef) = (rt[0], rt[1], rt[2], rt[3], rt[4], rt[5]);
    let mut t = Toks::new(line);
    t.s();
    let pool = t.pool();
    let od = t.s().to_string(); let offer = t.u128(); let ad = t.s().to_string();
    o.line(&format!("mon_swap_fees {} {} {} {} {} {}", fees_str(&pool.pool_fees), ret, sf, pf, bf, ef), "ok");
    let x = pool.assets.iter().find(|c| c.denom == od).unwrap().amount.u128();
    let y = pool.assets.iter().find(|c| c.denom == ad).unwrap().amount.u128();
    let Some(x2) = x.checked_add(offer) else { return };
    let out = ret + pf + bf;
    if out > y { o.line(&format!("mon_swap_reserves cp {} {} {} {} {} {} {} {}", x, y, offer, x2, 0, ret, pf, bf), "ok"); return; }
    let cp = matches!(pool.pool_type, PoolType::ConstantProduct);
    o.line(&format!("mon_swap_reserves {} {} {} {} {} {} {} {} {}", if cp { "cp" } else { "ss" }, x, y, offer, x2, y - out, ret, pf, bf), "ok");
    if !cp {
        let gross = ret + sf + pf + bf + ef;
        let pl = line.strip_prefix("swap ").unwrap();
        // the pool description is everything up to the offer denom token
        let pool_s = pool_str(&pool);
        let _ = pl;
        o.line(&format!("mon_ss_quote {} {} {} {} {}", pool_s, od, offer, ad, gross), "ok");
        o.line(&format!("mon_ss_swap {} {} {} {} {} {}", pool_s, od, offer, ad, gross, out), "ok");
    }
}
