//! Adaptive generators of whole-system histories (`pm_hist`, `fm_hist`): each operation is chosen
//! looking at the current real state (pools, LP balances, positions, farms), so most operations
//! are accepted; a minority is deliberately invalid.
use cosmwasm_std::{coin, Coin, Decimal};

use crate::gen::*;
use crate::proto::*;
use crate::rng::Rng;
use crate::world::*;
use crate::Out;

pub const SENDERS: [&str; 4] = ["u1", "u2", "u3", "u4"];

fn pick_user(r: &mut Rng) -> &'static str {
    match r.below(12) { 0 => "owner", 1 => "out", _ => SENDERS[r.below(4) as usize] }
}

fn opt_dec_str(r: &mut Rng, choices: &[Option<u128>]) -> String {
    let c = choices[r.below(choices.len() as u64) as usize];
    match c { Some(x) => x.to_string(), None => "-".into() }
}

fn funds_str(cs: &[Coin]) -> String { coins_str(cs) }

pub struct Gen<'a> {
    pub faults: bool,
    pub run: crate::streams::hist::Runner,
    pub r: &'a mut Rng,
    pub o: &'a mut Out,
    pub ops: u64,
}

impl<'a> Gen<'a> {
    pub fn emit(&mut self, line: String) -> String {
        self.ops += 1;
        if !self.faults || line.starts_with("advance") || line.starts_with("mint ") || line.starts_with("tfq ") {
            return self.run.step(&line, self.o);
        }
        // fault enumeration: the same operation is attempted with the 1st, 2nd, … bank call failing,
        // until an attempt runs without reaching the armed call (that attempt is the real one)
        let mut k = 1u64;
        loop {
            self.run.step(&format!("fault {}", k), self.o);
            let res = self.run.step(&line, self.o);
            let hit = self.run.h.last_calls >= k;
            if !hit || k >= 14 { return res; }
            k += 1;
        }
    }

    /// a read-only query line (never fault-enumerated, not counted as an operation)
    pub fn q(&mut self, line: String) -> String { self.run.step(&line, self.o) }

    /// paging / filter / lookup queries of both managers on the current state
    pub fn op_query_misc(&mut self) {
        let pools = self.pools();
        let farms = self.farms();
        let positions = self.positions();
        let lim = ["-", "1", "2", "3", "10", "100", "101", "0"][self.r.below(8) as usize];
        match self.r.below(10) {
            0 => {
                let sa = if pools.is_empty() || self.r.chance(1, 2) { "-".to_string() } else { pools[self.r.below(pools.len() as u64) as usize].pool_info.pool_identifier.clone() };
                self.q(format!("q pools - {} {}", sa, lim));
            }
            1 => {
                let id = if pools.is_empty() || self.r.chance(1, 5) { "o.nope".to_string() } else { pools[self.r.below(pools.len() as u64) as usize].pool_info.pool_identifier.clone() };
                self.q(format!("q pools {} - -", id));
            }
            2 => if let Some(p) = pools.first() {
                let d = if self.r.chance(1, 4) { "uluna".to_string() } else { self.run.h.w.cd(&p.pool_info.asset_denoms[self.r.below(p.pool_info.asset_denoms.len() as u64) as usize]) };
                self.q(format!("q decimals {} {}", p.pool_info.pool_identifier, d));
            },
            3 => {
                let sa = if farms.is_empty() || self.r.chance(1, 2) { "-".to_string() } else { farms[self.r.below(farms.len() as u64) as usize].identifier.clone() };
                self.q(format!("q farms - - {} {}", sa, lim));
            }
            4 => if !farms.is_empty() {
                let f = &farms[self.r.below(farms.len() as u64) as usize];
                let sa = if self.r.chance(1, 2) { "-".to_string() } else { farms[self.r.below(farms.len() as u64) as usize].identifier.clone() };
                match self.r.below(3) {
                    0 => { let id = if self.r.chance(1, 5) { "m-nope".to_string() } else { f.identifier.clone() }; self.q(format!("q farms id {} - -", id)); }
                    1 => { self.q(format!("q farms lp {} {} {}", self.run.h.w.cd(&f.lp_denom), sa, lim)); }
                    _ => { self.q(format!("q farms asset {} {} {}", self.run.h.w.cd(&f.farm_asset.denom), sa, lim)); }
                }
            },
            5 => {
                let sa = if positions.is_empty() || self.r.chance(1, 2) { "-".to_string() } else { positions[self.r.below(positions.len() as u64) as usize].identifier.clone() };
                self.q(format!("q positions - - - {} {}", sa, lim));
            }
            6 => if !positions.is_empty() {
                let p = &positions[self.r.below(positions.len() as u64) as usize];
                let o = ["-", "true", "false"][self.r.below(3) as usize];
                let sa = if self.r.chance(1, 2) { "-".to_string() } else { positions[self.r.below(positions.len() as u64) as usize].identifier.clone() };
                if self.r.chance(1, 3) { let id = if self.r.chance(1, 5) { "u-nope".to_string() } else { p.identifier.clone() }; self.q(format!("q positions id {} - - -", id)); }
                else { self.q(format!("q positions recv {} {} {} {}", self.run.h.w.n(p.receiver.as_str()), o, sa, lim)); }
            },
            7 => if let Some(lp) = self.some_lp() {
                let who = ["fm", "u1", "u2", "u3", "u4", "owner"][self.r.below(6) as usize];
                let e = self.cur_epoch() + 2 - self.r.below(4).min(self.cur_epoch() + 2);
                self.q(format!("q lpweight {} {} {}", who, lp, e));
            },
            _ => {
                let who = pick_user(self.r);
                let cur = self.cur_epoch();
                let u = match self.r.below(4) { 0 => "-".to_string(), 1 => cur.to_string(), 2 => cur.saturating_sub(1 + self.r.below(3)).to_string(), _ => (cur + 1).to_string() };
                self.q(format!("q rewards {} {}", who, u));
            }
        }
    }

    fn pools(&self) -> Vec<mantra_dex_std::pool_manager::PoolInfoResponse> { self.run.h.all_pools() }

    fn creation_funds(&mut self) -> Vec<Coin> {
        // pool creation fee + token factory fees, aggregated by denom
        let cfgq: mantra_dex_std::pool_manager::Config = self.run.h.w.app.wrap()
            .query_wasm_smart(self.run.h.w.a("pm"), &mantra_dex_std::pool_manager::QueryMsg::Config {}).unwrap();
        let mut v: Vec<Coin> = self.run.h.w.cfg.tf_fees.clone();
        let f = cfgq.pool_creation_fee;
        if let Some(x) = v.iter_mut().find(|c| c.denom == f.denom) { x.amount += f.amount; } else if !f.amount.is_zero() { v.push(f); }
        v.sort_by(|a, b| a.denom.cmp(&b.denom));
        v
    }

    pub fn op_create_pool(&mut self) {
        let stable = self.r.chance(1, 2);
        let mut p = gen_pool_hist(self.r, stable);
        // a repeated asset, adjacent or not (must be refused)
        if self.r.chance(1, 7) {
            let n = p.asset_denoms.len() as u64;
            let (i, j) = if n >= 3 && self.r.chance(2, 3) { (0usize, (2 + self.r.below(n - 2)) as usize) } else { (self.r.below(n) as usize, self.r.below(n) as usize) };
            if i != j { p.asset_denoms[j] = p.asset_denoms[i].clone(); }
        }
        let mut funds = self.creation_funds();
        // with a waived creation fee the exact funds are the factory fees alone: nothing / one unit less / one more are all wrong
        let zero_fee = self.run.h.w.app.wrap().query_wasm_smart::<mantra_dex_std::pool_manager::Config>(self.run.h.w.a("pm"), &mantra_dex_std::pool_manager::QueryMsg::Config {})
            .map(|c| c.pool_creation_fee.amount.is_zero()).unwrap_or(false);
        if zero_fee && self.r.chance(1, 3) {
            match self.r.below(3) { 0 => { funds.clear(); } 1 => { if let Some(c) = funds.first_mut() { c.amount = c.amount.saturating_sub(cosmwasm_std::Uint128::one()); } } _ => { if let Some(c) = funds.first_mut() { c.amount += cosmwasm_std::Uint128::one(); } } }
            funds.retain(|c| !c.amount.is_zero());
        }
        match self.r.below(30) {
            0 => { funds.pop(); }
            1 => { if let Some(c) = funds.first_mut() { c.amount += cosmwasm_std::Uint128::one(); } }
            2 => { if !funds.iter().any(|c| c.denom == "uluna") { funds.push(coin(5, "uluna")); funds.sort_by(|a, b| a.denom.cmp(&b.denom)); } }
            _ => {}
        }
        let id = match self.r.below(20) { 0 | 1 | 2 | 3 => "-".to_string(), 4 => "bad id!".replace(' ', "_"), _ => format!("{}{}", ["a", "b", "c", "x.y", "pool/1"][self.r.below(5) as usize], self.r.below(4)) };
        let (ty, amp) = match p.pool_type { mantra_dex_std::pool_manager::PoolType::ConstantProduct => ("cp", 0), mantra_dex_std::pool_manager::PoolType::StableSwap { amp } => ("ss", if self.r.chance(1, 30) { 0 } else { amp }) };
        // malformed shapes now and then (all to be refused): one asset, five assets, a constant-product pool with three,
        // a decimals list shorter / longer than the asset list
        let mut ty = ty;
        let mut dec_tok: Vec<String> = p.asset_decimals.iter().map(|d| d.to_string()).collect();
        if self.r.chance(1, 9) {
            match self.r.below(5) {
                0 => { p.asset_denoms.truncate(1); dec_tok.truncate(1); }
                1 => {
                    for d in BASE_DENOMS.iter() { if p.asset_denoms.len() < 5 && !p.asset_denoms.iter().any(|x| x == d) { p.asset_denoms.push(d.to_string()); dec_tok.push("6".into()); } }
                    ty = "ss";
                }
                2 => {
                    ty = "cp";
                    for d in BASE_DENOMS.iter() { if p.asset_denoms.len() < 3 && !p.asset_denoms.iter().any(|x| x == d) { p.asset_denoms.push(d.to_string()); dec_tok.push("6".into()); } }
                }
                3 => { let k = self.r.below(dec_tok.len() as u64) as usize; dec_tok[k] = "x".into(); }
                _ => { let k = self.r.below(dec_tok.len() as u64) as usize; dec_tok[k] = format!("+{}", dec_tok[k]); }
            }
        }
        let amp = if ty == "ss" && amp == 0 && !self.r.chance(1, 30) { 100 } else { amp };
        let mut s = format!("{} {} {}", ty, amp, p.asset_denoms.len());
        for (i, d) in p.asset_denoms.iter().enumerate() { s += &format!(" {} {}", d, dec_tok[i]); }
        let mut fees = p.pool_fees.clone();
        if self.r.chance(1, 25) { fees.swap_fee.share = Decimal::percent(25); }
        // fee limits at and just beyond the boundary, carried by the EXTRA fees: named fees at exactly 20 % plus a tiny
        // extra fee; small named fees plus two 10 % extra fees; a single extra fee of 100 % (all to be refused); and the
        // same shapes just inside the limit (accepted)
        if self.r.chance(1, 9) {
            let (pr, sw, bu, ex): (u64, u64, u64, Vec<u128>) = match self.r.below(6) {
                0 => (10, 7, 3, vec![1_000_000_000_000_000]),                                   // 20 % + 0.1 %
                1 => (1, 1, 1, vec![100_000_000_000_000_000, 100_000_000_000_000_000]),          // 3 % + 2 x 10 %
                2 => (1, 1, 0, vec![1_000_000_000_000_000_000]),                                 // an extra fee of 100 %
                3 => (10, 7, 2, vec![10_000_000_000_000_000]),                                   // exactly 20 % with the extra fee
                4 => (1, 1, 1, vec![100_000_000_000_000_000, 70_000_000_000_000_000]),           // exactly 20 %
                _ => (0, 0, 0, vec![200_000_000_000_000_000, 1]),                                // 20 % + one atomic
            };
            fees.protocol_fee.share = Decimal::percent(pr); fees.swap_fee.share = Decimal::percent(sw); fees.burn_fee.share = Decimal::percent(bu);
            fees.extra_fees = ex.into_iter().map(|x| mantra_dex_std::fee::Fee { share: Decimal::raw(x) }).collect();
        }
        let sender = pick_user(self.r);
        self.emit(format!("tx {} {} pm create {} {} {}", sender, funds_str(&funds), s, fees_str(&fees), id));
    }

    fn slip(&mut self) -> String {
        if self.r.chance(5, 6) {
            opt_dec_str(self.r, &[None, Some(500_000_000_000_000_000), Some(500_000_000_000_000_000), Some(1_000_000_000_000_000_000), Some(100_000_000_000_000_000)])
        } else {
            opt_dec_str(self.r, &[None, Some(10_000_000_000_000_000), Some(0), Some(1_000_000_000_000_000_001), Some(1_000_000_000_000_000)])
        }
    }
    /// deposit tolerance: none most of the time (stableswap pools reject any realistic one, F-11); on constant-product pools
    /// every valid value incl. the two ends of the range, exactly 0 and exactly 100 %
    fn liq_slip(&mut self, stable: bool) -> String {
        if stable { if self.r.chance(1, 8) { self.slip() } else { "-".into() } }
        else if self.r.chance(1, 2) { "-".into() }
        else if self.r.chance(1, 5) { ["1000000000000000000", "0", "999999999999999999", "1"][self.r.below(4) as usize].to_string() }
        else { self.slip() }
    }

    fn receiver(&mut self, sender: &str) -> String {
        match self.r.below(16) { 0 => SENDERS[self.r.below(4) as usize].to_string(), 1 => sender.to_string(), 2 => "bogus".into(), _ => "-".into() }
    }

    pub fn op_provide(&mut self) {
        let pools = self.pools();
        if pools.is_empty() { return self.op_create_pool(); }
        let p = &pools[self.r.below(pools.len() as u64) as usize];
        let pi = &p.pool_info;
        let empty = p.total_share.amount.is_zero();
        let sender = pick_user(self.r);
        let n = pi.assets.len();
        let mut funds: Vec<Coin> = vec![];
        // (single-asset deposits also into pools with three or four assets: to be refused, C14)
        let single = !empty && ((n == 2 && self.r.chance(1, 4)) || (n > 2 && self.r.chance(1, 8)));
        if empty {
            let stable_pool = !matches!(pi.pool_type, mantra_dex_std::pool_manager::PoolType::ConstantProduct);
            // stableswap pools are seeded roughly balanced in value (same whole-token amount ±10 %)
            let whole_common = 1 + self.r.below(1_000_000) as u128;
            for (i, a) in pi.assets.iter().enumerate() {
                let dec = pi.asset_decimals.get(i).copied().unwrap_or(6).min(18) as u32;
                let whole = if stable_pool && !self.r.chance(1, 12) { whole_common * (95 + self.r.below(11) as u128) / 100 + 1 } else { 1 + self.r.below(1_000_000) as u128 };
                let amt = match self.r.below(if stable_pool { 12 } else { 6 }) { 0 => 1 + self.r.below(2000) as u128, 1 => if stable_pool { whole * 10u128.pow(dec) } else { rand_mag(self.r, 28) }, _ => whole * 10u128.pow(dec) / [1u128, 1, 10, 1000][self.r.below(if stable_pool { 2 } else { 4 }) as usize] + self.r.below(10) as u128 };
                funds.push(coin(amt.max(1), a.denom.clone()));
            }
            // first constant-product deposit at a square-root boundary: a*b = k^2, k^2 - 1 or k^2 + k
            if !stable_pool && funds.len() == 2 && self.r.chance(1, 6) {
                let k = 1001 + rand_mag(self.r, 22);
                let (a, b) = match self.r.below(4) { 0 => (k, k), 1 => (k - 1, k + 1), 2 => (k, k + 1), _ => (1, k.saturating_mul(k).min(u128::MAX / 4)) };
                funds[0].amount = cosmwasm_std::Uint128::new(a); funds[1].amount = cosmwasm_std::Uint128::new(b);
            }
            if self.r.chance(1, 15) { funds.pop(); }
        } else if single {
            let i = self.r.below(n as u64) as usize;
            let a = pi.assets[i].amount.u128();
            funds.push(coin(gen_offer(self.r, a / 10).max(1), pi.assets[i].denom.clone()));
        } else {
            // proportional with an occasional skew / partial set
            let k = 1 + self.r.below(5000) as u128;
            for a in pi.assets.iter() {
                let base = a.amount.u128() / 10_000 * k / 10;
                let amt = match self.r.below(9) { 0 => base + base / 50, 1 => base / 2, 2 => rand_mag(self.r, 20), 3 => 1 + self.r.below(3) as u128, _ => base };
                if amt > 0 { funds.push(coin(amt, a.denom.clone())); }
            }
            if n > 2 && self.r.chance(1, 4) { funds.pop(); }
            if funds.is_empty() { funds.push(coin(1000, pi.assets[0].denom.clone())); }
            // a SUBSET of the assets of a 3–4 asset pool (or all of them) in EXACT proportion to their reserves (j x reserve,
            // or reserve / m where that is exact): the pool as a whole does not grow by that ratio unless every asset is there
            if n > 2 && self.r.chance(1, 5) {
                let keep = 2 + self.r.below((n - 1) as u64) as usize;            // 2 … n assets
                let skip = self.r.below(n as u64) as usize;
                let idx: Vec<usize> = (0..n).map(|i| (i + skip) % n).take(keep.min(n)).collect();
                let j = 1 + self.r.below(2) as u128;
                let m = [1u128, 2, 4, 5, 10][self.r.below(5) as usize];
                let exact = idx.iter().all(|i| pi.assets[*i].amount.u128() % m == 0 && pi.assets[*i].amount.u128() > 0 && pi.assets[*i].amount.u128() < u128::MAX / 4);
                if exact {
                    funds = idx.iter().map(|i| coin(pi.assets[*i].amount.u128() * j / m, pi.assets[*i].denom.clone())).filter(|c| !c.amount.is_zero()).collect();
                }
            }
        }
        // a deposit as large as the pool itself and skewed by a factor s, under a tolerance t around 1 - 1/s: whether it is
        // within t of the POOL ratio (as it was before the deposit) decides; the deposit moves the ratio a lot
        let mut forced_tol: Option<String> = None;
        if !empty && !single && n == 2 && matches!(pi.pool_type, mantra_dex_std::pool_manager::PoolType::ConstantProduct) && self.r.chance(1, 9) {
            let (r0, r1) = (pi.assets[0].amount.u128(), pi.assets[1].amount.u128());
            if r0 > 0 && r1 > 0 && r0 < u128::MAX / 16 && r1 < u128::MAX / 16 {
                let m = 1 + self.r.below(3) as u128;
                let (sn, sd) = [(2u128, 1u128), (3, 2), (3, 1), (5, 4)][self.r.below(4) as usize];
                let (a0, a1) = if self.r.chance(1, 2) { (r0 * m * sn / sd, r1 * m) } else { (r0 * m, r1 * m * sn / sd) };
                funds = vec![coin(a0.max(1), pi.assets[0].denom.clone()), coin(a1.max(1), pi.assets[1].denom.clone())];
                forced_tol = Some(["400000000000000000", "450000000000000000", "300000000000000000", "350000000000000000", "250000000000000000", "150000000000000000", "500000000000000000"][self.r.below(7) as usize].to_string());
            }
        }
        funds.sort_by(|a, b| a.denom.cmp(&b.denom));
        // lock options: none / new generated position / new explicit id / an EXISTING position id
        // (own or somebody else's; existing ids are passed with their prefix, as the farm manager stores them)
        let existing: Vec<String> = self.run.h.all_positions().iter().filter(|q| q.open).map(|q| q.identifier.clone()).collect();
        let (unlock, lockid) = match self.r.below(8) {
            0 => ((DAY * (1 + self.r.below(300))).to_string(), "-".to_string()),
            1 => ((DAY * (1 + self.r.below(300))).to_string(), format!("l{}", self.r.below(3))),
            2 | 3 if !existing.is_empty() => ((DAY * (1 + self.r.below(300))).to_string(), existing[self.r.below(existing.len() as u64) as usize].clone()),
            // an identifier WITHOUT an unlocking duration (nothing is locked then: the identifier must not reach any position)
            4 if !existing.is_empty() => ("-".to_string(), existing[self.r.below(existing.len() as u64) as usize].clone()),
            5 if self.r.chance(1, 3) => ("-".to_string(), format!("l{}", self.r.below(3))),
            _ => ("-".to_string(), "-".to_string()),
        };
        let stable = !matches!(pi.pool_type, mantra_dex_std::pool_manager::PoolType::ConstantProduct);
        let ls = match forced_tol { Some(t) => t, None => self.liq_slip(stable) };
        let ss = self.slip();
        let mut recv = self.receiver(sender);
        // naming an EXISTING position: every other time the receiver is that position's owner (the only receiver for
        // which the position-belongs-to-receiver test passes; it must still be refused unless the owner is the sender)
        if lockid.contains('-') && lockid != "-" && self.r.chance(1, 2) {
            if let Some(q) = self.run.h.all_positions().iter().find(|q| q.identifier == lockid) { recv = self.run.h.w.n(q.receiver.as_str()); }
        }
        // funds carry canonical denoms (LP denoms never here)
        let res = self.emit(format!("tx {} {} pm provide {} {} {} {} {} {}", sender, funds_str(&funds), pi.pool_identifier, ls, ss, recv, unlock, lockid));
        // C13, monotonicity in the tolerance: a deposit REFUSED under a tolerance t is attempted again under a smaller one —
        // if that is accepted, the larger tolerance rejected what the smaller accepts (`mon_tol_monotone`)
        if !res.starts_with("ok") && !stable && funds.len() == 2 && ls != "-" && self.r.chance(2, 3) {
            if let Ok(t) = ls.parse::<u128>() {
                if t > 0 && t <= 1_000_000_000_000_000_000 {
                    let smaller = match self.r.below(3) { 0 => 0u128, 1 => t / 2, _ => t - 1 };
                    self.emit(format!("tx {} {} pm provide {} {} {} {} {} {}", sender, funds_str(&funds), pi.pool_identifier, smaller, ss, recv, unlock, lockid));
                }
            }
        }
    }

    pub fn op_swap(&mut self) {
        let pools = self.pools();
        let live: Vec<_> = pools.iter().filter(|p| !p.total_share.amount.is_zero()).collect();
        if live.is_empty() { return self.op_provide(); }
        let p = live[self.r.below(live.len() as u64) as usize];
        let pi = &p.pool_info;
        let n = pi.assets.len();
        let oi = self.r.below(n as u64) as usize;
        let mut ai = self.r.below(n as u64) as usize;
        if ai == oi && !self.r.chance(1, 25) { ai = (oi + 1) % n; }
        let res = pi.assets[oi].amount.u128();
        let amt = match self.r.below(10) { 0 => gen_offer(self.r, res), 1 => res / 1000 + 1, 2 => res / 100 + 1, 3 => res / 20 + 1, 4 => res / 100_000 + 1, _ => res / 5000 + 1 + self.r.below(1000) as u128 };
        let sender = pick_user(self.r);
        let belief = if self.r.chance(4, 5) { "-".to_string() } else { opt_dec_str(self.r, &[Some(1_000_000_000_000_000_000), Some(2_000_000_000_000_000_000), Some(500_000_000_000_000_000), Some(0), Some(1_000_000)]) };
        let big = self.r.chance(1, 10);
        let amt = if big { res.saturating_mul(1 + self.r.below(3) as u128) / [1u128, 2, 1][self.r.below(3) as usize] + 1 } else { amt };
        let ms = if big { ["900000000000000000", "1000000000000000000", "600000000000000000", "500000000000000000"][self.r.below(4) as usize].to_string() }
            else if self.r.chance(2, 3) { "500000000000000000".to_string() } else { self.slip() };
        // zero tolerance is a valid, enforced value: a small trade (well inside the 1 % default) with max_slippage 0
        let (amt, ms) = if !big && self.r.chance(1, 12) { (res / [100_000u128, 5000, 300][self.r.below(3) as usize] + 1, "0".to_string()) } else { (amt, ms) };
        // dust swaps whose output rounds to zero: accepted only under a belief price above the offer (expected return 0)
        let (amt, belief) = if self.r.chance(1, 14) { (1 + self.r.below(3) as u128, ["1000000000000000000000000", "5000000000000000000", "1000000000000000000"][self.r.below(3) as usize].to_string()) } else { (amt, belief) };
        let recv = self.receiver(sender);
        let funds = if amt == 0 { vec![] } else { vec![coin(amt, pi.assets[oi].denom.clone())] };
        // the real query entry points an instant before the swap: Simulation, ReverseSimulation of a few asks, and (constant
        // product) the C12 clause "offering quote + 1 yields at least the requested amount" through the queries themselves
        if amt > 0 && oi != ai {
            let (od_c, ad_c) = (self.run.h.w.cd(&pi.assets[oi].denom), self.run.h.w.cd(&pi.assets[ai].denom));
            let pid = pi.pool_identifier.clone();
            let sim = self.q(format!("q sim {} {} {} {}", pid, od_c, amt, ad_c));
            let ask_res = pi.assets[ai].amount.u128();
            let asks = [sim.split_whitespace().nth(1).and_then(|x| x.parse::<u128>().ok()).unwrap_or(0), ask_res / 1000 + 1, ask_res / 3 + 1, 1, ask_res, ask_res.saturating_mul(2)];
            let ask = asks[self.r.below(asks.len() as u64) as usize];
            let rev = self.q(format!("q rev {} {} {} {}", pid, ad_c, ask, od_c));
            if matches!(pi.pool_type, mantra_dex_std::pool_manager::PoolType::ConstantProduct) && rev.starts_with("ok") && ask > 0 {
                let quoted: u128 = rev.split_whitespace().nth(1).and_then(|x| x.parse().ok()).unwrap_or(0);
                if let Some(offer1) = quoted.checked_add(1) {
                    let again = self.q(format!("q sim {} {} {} {}", pid, od_c, offer1, ad_c));
                    if let Some(ret) = again.strip_prefix("ok ").and_then(|x| x.split_whitespace().next()).and_then(|x| x.parse::<u128>().ok()) {
                        let f = &pi.pool_fees;
                        let total: u128 = [f.protocol_fee.share, f.swap_fee.share, f.burn_fee.share].iter().map(|d| d.atomics().u128()).sum::<u128>()
                            + f.extra_fees.iter().map(|x| x.share.atomics().u128()).sum::<u128>();
                        self.o.line(&format!("mon_rev {} {} {} {} {} {}", pi.assets[oi].amount, ask_res, ask, total, quoted, ret), "ok");
                    }
                }
            }
        }
        self.emit(format!("tx {} {} pm swap {} {} {} {} {}", sender, funds_str(&funds), pi.pool_identifier, pi.assets[ai].denom, belief, ms, recv));
    }

    pub fn op_withdraw(&mut self) {
        let pools = self.pools();
        let live: Vec<_> = pools.iter().filter(|p| !p.total_share.amount.is_zero()).collect();
        if live.is_empty() { return self.op_provide(); }
        let p = live[self.r.below(live.len() as u64) as usize];
        let lp = self.run.h.w.cd(&p.pool_info.lp_denom);
        // a holder
        let holders: Vec<&str> = ["u1", "u2", "u3", "u4", "owner", "out"].into_iter().filter(|u| self.run.h.w.balance(u, &lp) > 0).collect();
        let sender = if holders.is_empty() || self.r.chance(1, 25) { pick_user(self.r) } else { holders[self.r.below(holders.len() as u64) as usize] };
        let bal = self.run.h.w.balance(sender, &lp);
        let amt = match self.r.below(12) { 0 => bal, 1 => bal / 2, 2 => 1, 3 => bal / 1000 + 1, 4 => bal.saturating_add(1), 5 => bal / 1_000_000 + 1, _ => (bal / 3 + 1).min(bal) };
        let funds = if amt == 0 { vec![] } else { vec![coin(amt, lp)] };
        // now and then the message names ANOTHER pool than the one the LP token belongs to (refused: the token is not that
        // pool's) — preferably a sibling whose switches differ
        let mut pid = p.pool_info.pool_identifier.clone();
        if pools.len() > 1 && self.r.chance(1, 8) {
            let others: Vec<_> = pools.iter().filter(|q| q.pool_info.pool_identifier != pid).collect();
            let pick = others.iter().find(|q| q.pool_info.status.withdrawals_enabled != p.pool_info.status.withdrawals_enabled).copied()
                .unwrap_or(others[self.r.below(others.len() as u64) as usize]);
            pid = pick.pool_info.pool_identifier.clone();
        }
        self.emit(format!("tx {} {} pm withdraw {}", sender, funds_str(&funds), pid));
    }

    pub fn op_route(&mut self) {
        let pools = self.pools();
        let live: Vec<_> = pools.iter().filter(|p| !p.total_share.amount.is_zero()).collect();
        if live.is_empty() { return self.op_provide(); }
        let hops = 1 + self.r.below(4) as usize;
        let first = live[self.r.below(live.len() as u64) as usize];
        let mut cur = first.pool_info.assets[self.r.below(first.pool_info.assets.len() as u64) as usize].denom.clone();
        let start_denom = cur.clone();
        let mut ops: Vec<(String, String, String)> = vec![];
        let mut offer_res = 0u128;
        for k in 0..hops {
            let cands: Vec<_> = live.iter().filter(|p| p.pool_info.assets.iter().any(|a| a.denom == cur)).collect();
            if cands.is_empty() { break; }
            let p = cands[self.r.below(cands.len() as u64) as usize];
            let outs: Vec<_> = p.pool_info.assets.iter().filter(|a| a.denom != cur).collect();
            let out = outs[self.r.below(outs.len() as u64) as usize].denom.clone();
            if k == 0 { offer_res = p.pool_info.assets.iter().find(|a| a.denom == cur).unwrap().amount.u128(); }
            ops.push((cur.clone(), out.clone(), p.pool_info.pool_identifier.clone()));
            cur = out;
        }
        if ops.is_empty() { return self.op_swap(); }
        if self.r.chance(1, 20) && ops.len() > 1 { ops[1].0 = "uom".into(); } // non-consecutive
        // non-consecutive at ANY link (also the one into the third / fourth hop): (a) the hop is replaced by a well-formed hop of
        // some live pool whose input is not what the previous hop delivers (every hop looks fine alone); (b) the declared
        // input is a denom the hop's pool does not hold at all, while what the previous hop delivers is one of its assets
        if ops.len() > 1 && self.r.chance(1, 10) {
            let k = 1 + self.r.below(ops.len() as u64 - 1) as usize;
            if self.r.chance(1, 2) {
                let q = live[self.r.below(live.len() as u64) as usize];
                let na = q.pool_info.assets.len();
                let i = self.r.below(na as u64) as usize;
                let j = (i + 1 + self.r.below(na as u64 - 1) as usize) % na;
                ops[k] = (q.pool_info.assets[i].denom.clone(), q.pool_info.assets[j].denom.clone(), q.pool_info.pool_identifier.clone());
                if self.r.chance(1, 2) { ops.truncate(k + 1); }
            } else if let Some(pk) = live.iter().find(|p| p.pool_info.pool_identifier == ops[k].2) {
                let foreign: Vec<&str> = BASE_DENOMS.iter().copied().filter(|d| !pk.pool_info.assets.iter().any(|a| a.denom == *d)).collect();
                if !foreign.is_empty() { ops[k].0 = foreign[self.r.below(foreign.len() as u64) as usize].to_string(); }
            }
        }
        // a hop whose input and output denom coincide (the chain of denoms stays consecutive)
        if self.r.chance(1, 12) { let k = self.r.below(ops.len() as u64) as usize; let d = ops[k].0.clone(); ops[k].1 = d.clone(); for j in k + 1..ops.len() { if j == k + 1 { ops[j].0 = d.clone(); } } }
        let mut amt = offer_res / [100_000u128, 10_000, 1000, 200, 20][self.r.below(5) as usize] + 1;
        // boundary probing of the 50 % cap: a large trade under an explicit tolerance above the cap
        let big = self.r.chance(1, 5);
        if big { amt = offer_res.saturating_mul(1 + self.r.below(3) as u128) / [1u128, 2, 1][self.r.below(3) as usize] + 1; }
        let sender = pick_user(self.r);
        let mr_pick = self.r.below(10);
        let mut mr = match mr_pick { 0 => "1".to_string(), 1 => u128::MAX.to_string(), _ => "-".into() };
        let ms = if big { ["900000000000000000", "1000000000000000000", "600000000000000000"][self.r.below(3) as usize].to_string() }
            else if self.r.chance(2, 3) { "500000000000000000".to_string() } else { self.slip() };
        let recv = self.receiver(sender);
        let mut s = format!("{}", ops.len());
        for (i, o_, p) in ops.iter() { s += &format!(" {} {} {}", i, o_, p); }
        {
            // route simulations through the real queries (forward, and backward for an amount near the forward result)
            let mut sq = format!("{}", ops.len());
            for (i, o_, p) in ops.iter() { sq += &format!(" {} {} {}", self.run.h.w.cd(i), self.run.h.w.cd(o_), p); }
            let fwd = self.q(format!("q simops {} {}", amt, sq));
            let out_amt = fwd.split_whitespace().nth(1).and_then(|x| x.parse::<u128>().ok()).unwrap_or(1000);
            let back = match self.r.below(3) { 0 => out_amt, 1 => out_amt / 2 + 1, _ => 1 + self.r.below(1_000_000) as u128 };
            self.q(format!("q revops {} {}", back, sq));
            // a minimum to receive taken from the quote: exactly the quoted amount, a hair below, one unit above
            if fwd.starts_with("ok") { match mr_pick { 2 => mr = out_amt.to_string(), 3 => mr = (out_amt - out_amt / 1000).to_string(), 4 => mr = out_amt.saturating_add(1).to_string(), _ => {} } }
        }
        self.emit(format!("tx {} {} pm route {} {} {} {}", sender, funds_str(&[coin(amt, start_denom)]), s, mr, recv, ms));
    }

    /// directed scenario for C17: a multi-hop route with swaps disabled on the pool of ONE hop (first,
    /// middle or last); the owner may have moved on, then the current owner's attempt simply fails
    pub fn op_scenario_disabled_route(&mut self) {
        let pools = self.pools();
        let live: Vec<_> = pools.iter().filter(|p| !p.total_share.amount.is_zero()).collect();
        if live.len() < 2 { return self.op_provide(); }
        for _attempt in 0..6 {
            let first = live[self.r.below(live.len() as u64) as usize];
            let mut cur = first.pool_info.assets[self.r.below(first.pool_info.assets.len() as u64) as usize].denom.clone();
            let start_denom = cur.clone();
            let mut ops: Vec<(String, String, String)> = vec![];
            let mut offer_res = 0u128;
            let hops = 2 + self.r.below(2) as usize;
            for k in 0..hops {
                // prefer a pool not used yet
                let cands: Vec<_> = live.iter().filter(|p| p.pool_info.assets.iter().any(|a| a.denom == cur) && !ops.iter().any(|o| o.2 == p.pool_info.pool_identifier)).collect();
                if cands.is_empty() { break; }
                let p = cands[self.r.below(cands.len() as u64) as usize];
                let outs: Vec<_> = p.pool_info.assets.iter().filter(|a| a.denom != cur).collect();
                let out = outs[self.r.below(outs.len() as u64) as usize].denom.clone();
                if k == 0 { offer_res = p.pool_info.assets.iter().find(|a| a.denom == cur).unwrap().amount.u128(); }
                ops.push((cur.clone(), out.clone(), p.pool_info.pool_identifier.clone()));
                cur = out;
            }
            if ops.len() < 2 { continue; }
            let j = self.r.below(ops.len() as u64) as usize;
            let j = if self.r.chance(1, 2) { ops.len() - 1 } else { j };
            let pid = ops[j].2.clone();
            self.emit(format!("tx owner 0 pm config - - - - {} false - -", pid));
            let amt = offer_res / 10_000 + 1;
            let sender = pick_user(self.r);
            let mut s = format!("{}", ops.len());
            for (i, o_, p) in ops.iter() { s += &format!(" {} {} {}", i, o_, p); }
            self.emit(format!("tx {} {} pm route {} - - 500000000000000000", sender, funds_str(&[coin(amt, start_denom)]), s));
            if self.r.chance(2, 3) { self.emit(format!("tx owner 0 pm config - - - - {} true - -", pid)); }
            return;
        }
        self.op_route()
    }

    /// directed scenario for C04 / C12 / C01: a consecutive route of three or four hops (pools may repeat), then the same route
    /// with ONE link broken — every link in turn, also the one into the third and the fourth hop — in two ways: the hop is
    /// replaced by a hop that is fine on its own (both denoms are assets of its pool) but does not take what the previous hop
    /// delivers; or its declared input is a denom its pool does not hold at all.  All of them are to be refused, with the
    /// simulation refusing them too; the intact route is run at the end.
    pub fn op_scenario_broken_route_link(&mut self) {
        // three pools of its own in a chain uom - uusdc - uusdt - uluna (self-sufficient; pools and outputs pairwise distinct, so
        // that the simulation must be able to price whatever executes)
        let tag = self.r.below(1000);
        let cf = self.creation_funds();
        let chain = [("uom", "uusdc", "a"), ("uusdc", "uusdt", "b"), ("uusdt", "uluna", "c")];
        for (x, y, k) in chain.iter() {
            self.emit(format!("tx u1 {} pm create cp 0 2 {} 6 {} 6 1000000000000000 2000000000000000 0 - bl{}{}", funds_str(&cf), x, y, tag, k));
            let mut d = vec![coin(50_000_000, *x), coin(50_000_000, *y)]; d.sort_by(|a, b| a.denom.cmp(&b.denom));
            self.emit(format!("tx u2 {} pm provide o.bl{}{} - - - - -", funds_str(&d), tag, k));
        }
        let pools = self.pools();
        let live: Vec<_> = pools.iter().filter(|p| !p.total_share.amount.is_zero()).collect();
        if live.is_empty() { return self.op_provide(); }
        let start_denom = "uom".to_string();
        let ops: Vec<(String, String, String)> = chain.iter().map(|(x, y, k)| (x.to_string(), y.to_string(), format!("o.bl{}{}", tag, k))).collect();
        if !ops.iter().all(|o| live.iter().any(|p| p.pool_info.pool_identifier == o.2)) { return self.op_route(); }
        let offer_res = 50_000_000u128;
        if ops.len() < 3 { return self.op_route(); }
        let amt = offer_res / 10_000 + 1;
        let sender = pick_user(self.r);
        let line = |ops: &Vec<(String, String, String)>| { let mut s = format!("{}", ops.len()); for (i, o_, p) in ops.iter() { s += &format!(" {} {} {}", i, o_, p); } s };
        for k in 1..ops.len() {
            // (a) a hop that is fine alone, fed with something else
            let want = ops[k - 1].1.clone();
            let mut alt: Option<(String, String, String)> = None;
            for q in live.iter() {
                let a = &q.pool_info.assets;
                for i in 0..a.len() { for j in 0..a.len() { if i != j && a[i].denom != want && alt.is_none() && !a[i].amount.is_zero() { alt = Some((a[i].denom.clone(), a[j].denom.clone(), q.pool_info.pool_identifier.clone())); } } }
            }
            if let Some(h) = alt {
                let mut broken = ops.clone(); broken[k] = h;
                let mut sq = format!("{}", broken.len());
                for (i, o_, p) in broken.iter() { sq += &format!(" {} {} {}", self.run.h.w.cd(i), self.run.h.w.cd(o_), p); }
                self.q(format!("q simops {} {}", amt, sq));
                self.emit(format!("tx {} {} pm route {} - - 500000000000000000", sender, funds_str(&[coin(amt, start_denom.clone())]), line(&broken)));
            }
            // (b) a declared input the hop's pool does not hold
            if let Some(pk) = live.iter().find(|p| p.pool_info.pool_identifier == ops[k].2) {
                if let Some(f) = BASE_DENOMS.iter().copied().find(|d| !pk.pool_info.assets.iter().any(|a| a.denom == *d)) {
                    let mut broken = ops.clone(); broken[k].0 = f.to_string();
                    let mut sq = format!("{}", broken.len());
                    for (i, o_, p) in broken.iter() { sq += &format!(" {} {} {}", self.run.h.w.cd(i), self.run.h.w.cd(o_), p); }
                    self.q(format!("q simops {} {}", amt, sq));
                    self.emit(format!("tx {} {} pm route {} - - 500000000000000000", sender, funds_str(&[coin(amt, start_denom.clone())]), line(&broken)));
                }
            }
        }
        self.emit(format!("tx {} {} pm route {} - - 500000000000000000", sender, funds_str(&[coin(amt, start_denom)]), line(&ops)));
    }

    /// directed scenario for C13 / C12: a route that visits the SAME pool twice in the same direction (x→y in P, back through P or
    /// another pool, x→y in P again): the simulation prices every hop on the stored state, so it OVERSTATES what the route delivers;
    /// `minimum_receive` is set to the quote, a hair below it, and to what a first attempt really delivered — an executed route
    /// must have delivered at least the minimum
    pub fn op_scenario_revisit_min_receive(&mut self) {
        // two pools of its own on the same pair (self-sufficient): out through A, back through B, out through A again — the
        // second visit of A is priced by the simulation as if the first had not happened
        let tag = self.r.below(1000);
        let cf = self.creation_funds();
        self.emit(format!("tx u1 {} pm create cp 0 2 uom 6 uusdc 6 0 2000000000000000 0 - rv{}a", funds_str(&cf), tag));
        self.emit(format!("tx u1 {} pm create cp 0 2 uom 6 uusdc 6 0 2000000000000000 0 - rv{}b", funds_str(&cf), tag));
        let mut d1 = vec![coin(70_000_000, "uom"), coin(70_000_000, "uusdc")]; d1.sort_by(|a, b| a.denom.cmp(&b.denom));
        self.emit(format!("tx u2 {} pm provide o.rv{}a - - - - -", funds_str(&d1), tag));
        self.emit(format!("tx u2 {} pm provide o.rv{}b - - - - -", funds_str(&d1), tag));
        let pools = self.pools();
        let live: Vec<_> = pools.iter().filter(|p| !p.total_share.amount.is_zero() && p.pool_info.assets.len() == 2).collect();
        let Some(p) = live.iter().find(|p| p.pool_info.pool_identifier == format!("o.rv{}a", tag)) else { return self.op_route() };
        let Some(back) = live.iter().find(|p| p.pool_info.pool_identifier == format!("o.rv{}b", tag)) else { return self.op_route() };
        let (x, y) = (p.pool_info.assets[0].denom.clone(), p.pool_info.assets[1].denom.clone());
        let pid = p.pool_info.pool_identifier.clone();
        let bid = back.pool_info.pool_identifier.clone();
        let ops = format!("3 {} {} {} {} {} {} {} {} {}", x, y, pid, y, x, bid, x, y, pid);
        let amt = p.pool_info.assets[0].amount.u128() / [10u128, 20, 100][self.r.below(3) as usize] + 1;
        let sender = pick_user(self.r);
        let sq = format!("3 {} {} {} {} {} {} {} {} {}", self.run.h.w.cd(&x), self.run.h.w.cd(&y), pid, self.run.h.w.cd(&y), self.run.h.w.cd(&x), bid, self.run.h.w.cd(&x), self.run.h.w.cd(&y), pid);
        let fwd = self.q(format!("q simops {} {}", amt, sq));
        let Some(quote) = fwd.split_whitespace().nth(1).and_then(|v| v.parse::<u128>().ok()) else { return self.op_route() };
        for mr in [quote, quote - quote / 50, quote - quote / 5] {
            self.emit(format!("tx {} {} pm route {} {} - 500000000000000000", sender, funds_str(&[coin(amt, x.clone())]), ops, mr));
        }
        self.emit(format!("tx {} {} pm route {} - - 500000000000000000", sender, funds_str(&[coin(amt, x.clone())]), ops));
    }

    /// directed scenario for C17: two pools whose identifiers are related as strings (`o.sN` is a prefix / substring of `o.sNx`);
    /// swaps are switched off on ONE of them and routes through both are tried in both orders: the switch of a pool is that
    /// pool's alone, whatever its identifier looks like
    pub fn op_scenario_substring_pool_ids(&mut self) {
        let tag = self.r.below(1000);
        let cf = self.creation_funds();
        let own = self.run.h.ownership("pm");
        let owner = own.split('/').next().unwrap_or("owner").to_string();
        self.emit(format!("tx u1 {} pm create cp 0 2 uom 6 uusdc 6 0 1000000000000000 0 - s{}x", funds_str(&cf), tag));
        self.emit(format!("tx u1 {} pm create cp 0 2 uusdc 6 uusdt 6 0 1000000000000000 0 - s{}", funds_str(&cf), tag));
        let mut d1 = vec![coin(80_000_000, "uom"), coin(80_000_000, "uusdc")]; d1.sort_by(|a, b| a.denom.cmp(&b.denom));
        let mut d2 = vec![coin(80_000_000, "uusdc"), coin(80_000_000, "uusdt")]; d2.sort_by(|a, b| a.denom.cmp(&b.denom));
        self.emit(format!("tx u2 {} pm provide o.s{}x - - - - -", funds_str(&d1), tag));
        self.emit(format!("tx u2 {} pm provide o.s{} - - - - -", funds_str(&d2), tag));
        let (long, short) = (format!("o.s{}x", tag), format!("o.s{}", tag));
        let sender = pick_user(self.r);
        // (both choices in turn — a scenario seen a handful of times per run must not depend on a coin flip)
        for off in [short.clone(), long.clone()] {
        self.emit(format!("tx {} 0 pm config - - - - {} false - -", owner, off));
        // through the long-named pool first, then the short-named one — and the other way round
        self.emit(format!("tx {} {} pm route 2 uom uusdc {} uusdc uusdt {} - - 500000000000000000", sender, funds_str(&[coin(10_000, "uom")]), long, short));
        self.emit(format!("tx {} {} pm route 2 uusdt uusdc {} uusdc uom {} - - 500000000000000000", sender, funds_str(&[coin(10_000, "uusdt")]), short, long));
        self.emit(format!("tx {} {} pm route 3 uom uusdc {} uusdc uom {} uom uusdc {} - - 500000000000000000", sender, funds_str(&[coin(10_000, "uom")]), long, long, long));
        self.emit(format!("tx {} {} pm route 3 uusdt uusdc {} uusdc uusdt {} uusdt uusdc {} - - 500000000000000000", sender, funds_str(&[coin(10_000, "uusdt")]), short, short, short));
        self.emit(format!("tx {} 0 pm config - - - - {} true - -", owner, off));
        self.emit(format!("tx {} {} pm route 2 uom uusdc {} uusdc uusdt {} - - 500000000000000000", sender, funds_str(&[coin(10_000, "uom")]), long, short));
        }
    }

    /// directed scenario for C12 / C04: the pool manager's fee collector is an ordinary account that ALSO trades: it swaps
    /// directly (proceeds to itself and to a third account) and through the router on a pool with a protocol fee — the
    /// simulation an instant before and the execution agree whoever the sender is
    pub fn op_scenario_collector_swaps(&mut self) {
        // a pool of its own with a protocol, a swap and a burn fee
        let tag = self.r.below(1000);
        let cf = self.creation_funds();
        self.emit(format!("tx u1 {} pm create cp 0 2 uom 6 uusdc 6 2000000000000000 3000000000000000 1000000000000000 - cs{}", funds_str(&cf), tag));
        let mut d1 = vec![coin(90_000_000, "uom"), coin(45_000_000, "uusdc")]; d1.sort_by(|a, b| a.denom.cmp(&b.denom));
        self.emit(format!("tx u2 {} pm provide o.cs{} - - - - -", funds_str(&d1), tag));
        let pools = self.pools();
        let Some(p) = pools.iter().find(|p| p.pool_info.pool_identifier == format!("o.cs{}", tag) && !p.total_share.amount.is_zero()) else { return };
        let pi = p.pool_info.clone();
        let own = self.run.h.ownership("pm");
        let owner = own.split('/').next().unwrap_or("owner").to_string();
        let coll = ["u4", "u3"][self.r.below(2) as usize];
        self.emit(format!("tx {} 0 pm config {} - - - - - - -", owner, coll));
        let (x, y) = (pi.assets[0].denom.clone(), pi.assets[1].denom.clone());
        let amt = pi.assets[0].amount.u128() / 50 + 1_000;
        let other = if coll == "u4" { "u2" } else { "u1" };
        for recv in ["-", other, coll] {
            self.emit(format!("tx {} {} pm swap {} {} - 500000000000000000 {}", coll, funds_str(&[coin(amt, x.clone())]), pi.pool_identifier, y, recv));
        }
        self.emit(format!("tx {} {} pm route 1 {} {} {} - {} 500000000000000000", coll, funds_str(&[coin(amt, x.clone())]), x, y, pi.pool_identifier, other));
        // somebody else trades too, then the collector goes back to the fee-collector contract
        self.emit(format!("tx {} {} pm swap {} {} - 500000000000000000 -", other, funds_str(&[coin(amt, x.clone())]), pi.pool_identifier, y));
        if self.r.chance(2, 3) { self.emit(format!("tx {} 0 pm config fc - - - - - - -", owner)); }
    }

    /// directed scenario for C17: a switch stays off for a LONG time (31 … 400 days), also after having been off and on before:
    /// the operation is refused as long as the switch is off — there is no clock in the switches
    pub fn op_scenario_long_pause(&mut self) {
        let pools = self.pools();
        let Some(p) = pools.iter().find(|p| !p.total_share.amount.is_zero() && p.pool_info.assets.len() == 2) else { return self.op_provide() };
        let pi = p.pool_info.clone();
        let own = self.run.h.ownership("pm");
        let owner = own.split('/').next().unwrap_or("owner").to_string();
        let lp = self.run.h.w.cd(&pi.lp_denom);
        let holders = self.lp_holders(&lp);
        let Some(hd) = holders.first().copied() else { return self.op_provide() };
        for which in 0..3u64 {
        let sw = |on: bool| -> String { let v = if on { "true" } else { "false" }; match which { 0 => format!("{} - -", v), 1 => format!("- {} -", v), _ => format!("- - {}", v) } };
        let (x, y) = (pi.assets[0].denom.clone(), pi.assets[1].denom.clone());
        let try_op = |g: &mut Self| {
            match which {
                0 => { g.emit(format!("tx {} {} pm swap {} {} - 500000000000000000 -", hd, funds_str(&[coin(pi.assets[0].amount.u128() / 1000 + 1, x.clone())]), pi.pool_identifier, y)); }
                1 => { let mut f = vec![coin(pi.assets[0].amount.u128() / 100 + 1, x.clone()), coin(pi.assets[1].amount.u128() / 100 + 1, y.clone())]; f.sort_by(|a, b| a.denom.cmp(&b.denom));
                       g.emit(format!("tx {} {} pm provide {} 500000000000000000 - - - -", hd, funds_str(&f), pi.pool_identifier)); }
                _ => { let bal = g.run.h.w.balance(hd, &lp); if bal > 10 { g.emit(format!("tx {} 1 {} {} pm withdraw {}", hd, lp, bal / 10, pi.pool_identifier)); } }
            }
        };
        // off, refused; on again; a long time passes; off again: still refused
        self.emit(format!("tx {} 0 pm config - - - - {} {}", owner, pi.pool_identifier, sw(false)));
        try_op(self);
        if self.r.chance(2, 3) { self.emit(format!("tx {} 0 pm config - - - - {} {}", owner, pi.pool_identifier, sw(true))); }
        let days = 31 + self.r.below(370);
        self.emit(format!("advance {}", days * DAY * 1_000_000_000));
        self.emit(format!("tx {} 0 pm config - - - - {} {}", owner, pi.pool_identifier, sw(false)));
        try_op(self);
        self.emit(format!("advance {}", 31 * DAY * 1_000_000_000 + 1));
        try_op(self);
        self.emit(format!("tx {} 0 pm config - - - - {} {}", owner, pi.pool_identifier, sw(true)));
        try_op(self);
        }
    }

    /// directed scenario for C16 / C01: the token factory stops answering QUERIES (its messages keep working and charging).
    /// The denom-creation fee cannot be looked up, so pool creation must be REFUSED — with the pool fee alone attached, with
    /// the full fees attached, with nothing attached — and nothing may come out of the reserves of the existing pools; once the
    /// queries answer again, creation with the exact fees works
    pub fn op_scenario_tf_queries_off(&mut self) {
        let tag = self.r.below(1000);
        let cf = self.creation_funds();
        let cfgq: mantra_dex_std::pool_manager::Config = self.run.h.w.app.wrap()
            .query_wasm_smart(self.run.h.w.a("pm"), &mantra_dex_std::pool_manager::QueryMsg::Config {}).unwrap();
        let pool_fee_only: Vec<Coin> = if cfgq.pool_creation_fee.amount.is_zero() { vec![] } else { vec![cfgq.pool_creation_fee.clone()] };
        self.emit("tfq off".to_string());
        let sender = pick_user(self.r);
        for (k, f) in [pool_fee_only, cf.clone(), vec![]].iter().enumerate() {
            self.emit(format!("tx {} {} pm create cp 0 2 uom 6 uusdc 6 0 3000000000000000 0 - tq{}x{}", sender, funds_str(f), tag, k));
        }
        // everything else keeps working
        self.op_swap();
        self.emit("tfq on".to_string());
        self.emit(format!("tx {} {} pm create cp 0 2 uom 6 uusdc 6 0 3000000000000000 0 - tq{}", sender, funds_str(&cf), tag));
    }

    /// directed scenario for C17: swaps are switched off on pool A; then the owner pauses deposits on ANOTHER pool B and later
    /// sends the "everything on" message for B (restating swaps = true, which B never lost); a direct swap on A, a route of
    /// one hop through A and a longer route through A must all still be refused; re-enabling A restores them.
    pub fn op_scenario_restated_toggle(&mut self) {
        let pools = self.pools();
        let live: Vec<_> = pools.iter().filter(|p| !p.total_share.amount.is_zero()).collect();
        if live.len() < 2 { return self.op_provide(); }
        let own = self.run.h.ownership("pm");
        let owner = own.split('/').next().unwrap_or("owner").to_string();
        let a = live[self.r.below(live.len() as u64) as usize];
        let b = live.iter().find(|p| p.pool_info.pool_identifier != a.pool_info.pool_identifier).unwrap();
        let (aid, bid) = (a.pool_info.pool_identifier.clone(), b.pool_info.pool_identifier.clone());
        self.emit(format!("tx {} 0 pm config - - - - {} false - -", owner, aid));
        self.emit(format!("tx {} 0 pm config - - - - {} - false -", owner, bid));
        match self.r.below(3) {
            0 => { self.emit(format!("tx {} 0 pm config - - - - {} true true true", owner, bid)); }
            1 => { self.emit(format!("tx {} 0 pm config - - - - {} true - -", owner, bid)); self.emit(format!("tx {} 0 pm config - - - - {} true true -", owner, bid)); }
            _ => { self.emit(format!("tx {} 0 pm config - - - - {} false - -", owner, bid)); self.emit(format!("tx {} 0 pm config - - - - {} true true true", owner, bid)); self.emit(format!("tx {} 0 pm config - - - - {} true - -", owner, bid)); }
        }
        let x = a.pool_info.assets[0].denom.clone();
        let y = a.pool_info.assets[1].denom.clone();
        let amt = a.pool_info.assets[0].amount.u128() / 10_000 + 1;
        let sender = pick_user(self.r);
        self.emit(format!("tx {} {} pm swap {} {} - 500000000000000000 -", sender, funds_str(&[coin(amt, x.clone())]), aid, y));
        self.emit(format!("tx {} {} pm route 1 {} {} {} - - 500000000000000000", sender, funds_str(&[coin(amt, x.clone())]), x, y, aid));
        // a second hop through any live pool holding y (B or A itself)
        if let Some(q) = live.iter().find(|p| p.pool_info.pool_identifier != aid && p.pool_info.assets.iter().any(|c| c.denom == y)) {
            let z = q.pool_info.assets.iter().find(|c| c.denom != y).unwrap().denom.clone();
            self.emit(format!("tx {} {} pm route 2 {} {} {} {} {} {} - - 500000000000000000", sender, funds_str(&[coin(amt, x.clone())]), x, y, aid, y, z, q.pool_info.pool_identifier));
        }
        if let Some(q) = live.iter().find(|p| p.pool_info.pool_identifier != aid && p.pool_info.assets.iter().any(|c| c.denom == x)) {
            let z = q.pool_info.assets.iter().find(|c| c.denom != x).unwrap();
            let amt2 = z.amount.u128() / 10_000 + 1;
            self.emit(format!("tx {} {} pm route 2 {} {} {} {} {} {} - - 500000000000000000", sender, funds_str(&[coin(amt2, z.denom.clone())]), z.denom, x, q.pool_info.pool_identifier, x, y, aid));
        }
        self.emit(format!("tx {} 0 pm config - - - - {} true - -", owner, aid));
        self.emit(format!("tx {} {} pm route 1 {} {} {} - - 500000000000000000", sender, funds_str(&[coin(amt, x.clone())]), x, y, aid));
    }

    pub fn op_pm_config(&mut self) {
        let pools = self.pools();
        let sender = if self.r.chance(5, 6) { "owner" } else { pick_user(self.r) };
        let tb = |r: &mut Rng| match r.below(4) { 0 => "true", 1 => "false", _ => "-" }.to_string();
        let (tp, s, d, w) = if !pools.is_empty() && self.r.chance(3, 4) {
            let p = &pools[self.r.below(pools.len() as u64) as usize];
            (p.pool_info.pool_identifier.clone(), tb(self.r), tb(self.r), tb(self.r))
        } else if self.r.chance(1, 4) { ("o.nope".to_string(), "false".into(), "-".into(), "-".into()) } else { ("-".into(), "-".into(), "-".into(), "-".into()) };
        let (fd, fa) = match self.r.below(7) { 0 => ("uusd".to_string(), "500".to_string()), 1 => ("uom".to_string(), "250".to_string()), 2 => ("uusd".to_string(), "0".to_string()),
            3 => ("uom".to_string(), "0".to_string()), _ => ("-".into(), "-".into()) };
        let fc = match self.r.below(12) { 0 => "u4", 1 => "bogus", _ => "-" };
        let funds = if self.r.chance(1, 15) { vec![coin(1, "uom")] } else { vec![] };
        self.emit(format!("tx {} {} pm config {} - {} {} {} {} {} {}", sender, funds_str(&funds), fc, fd, fa, tp, s, d, w));
    }

    pub fn op_own(&mut self, contract: &str) {
        // half of the time a well-formed hand-over by whoever owns the contract now (so that later privileged
        // operations are exercised under a changed owner), otherwise arbitrary attempts
        let own = self.run.h.ownership(contract);
        let cur_owner = own.split('/').next().unwrap_or("-").to_string();
        if self.r.chance(1, 2) && USERS.contains(&cur_owner.as_str()) {
            let to = ["u1", "u2", "owner"][self.r.below(3) as usize];
            self.emit(format!("tx {} 0 {} own transfer {} -", cur_owner, contract, to));
            if self.r.chance(2, 3) { self.emit(format!("tx {} 0 {} own accept", to, contract)); }
            return;
        }
        let sender = match self.r.below(4) { 0 => "owner", 1 => "u1", 2 => "u2", _ => pick_user(self.r) };
        let now = self.run.h.w.now_ns();
        let act = match self.r.below(5) {
            0 | 1 => format!("transfer {} {}", ["u1", "u2", "owner", "bogus"][self.r.below(4) as usize], match self.r.below(3) { 0 => "-".to_string(), 1 => (now + DAY * 1_000_000_000).to_string(), _ => (now + 1).to_string() }),
            2 | 3 => "accept".to_string(),
            _ => if self.r.chance(1, 3) { "renounce".to_string() } else { "accept".to_string() },
        };
        let funds = if self.r.chance(1, 10) { vec![coin(1, "uom")] } else { vec![] };
        self.emit(format!("tx {} {} {} own {}", sender, funds_str(&funds), contract, act));
    }

    pub fn op_donate(&mut self) {
        let to = if self.r.chance(2, 3) { "pm" } else { "fm" };
        let d = BASE_DENOMS[self.r.below(6) as usize];
        let from = pick_user(self.r);
        let amt = 1 + self.r.below(1_000_000);
        self.emit(format!("send {} {} 1 {} {}", from, to, d, amt));
    }

    pub fn op_advance(&mut self) {
        let s = match self.r.below(6) { 0 => 1, 1 => DAY, 2 => DAY - 1, 3 => DAY * (1 + self.r.below(40)), 4 => self.r.below(3 * DAY), _ => DAY / 2 };
        let sub = if self.r.chance(1, 5) { self.r.below(1_000_000_000) } else { 0 };
        self.emit(format!("advance {}", s * 1_000_000_000 + sub));
    }

    // ------------------------------------------------------------------ farm manager ops

    fn lp_holders(&self, lp: &str) -> Vec<&'static str> {
        ["u1", "u2", "u3", "u4", "owner"].into_iter().filter(|u| self.run.h.w.balance(u, lp) > 0).collect()
    }

    fn some_lp(&mut self) -> Option<String> {
        if self.run.h.lps.is_empty() { None } else { Some(self.run.h.lps[self.r.below(self.run.h.lps.len() as u64) as usize].clone()) }
    }

    pub fn cur_epoch(&self) -> u64 {
        let r: Result<mantra_dex_std::epoch_manager::EpochResponse, _> = self.run.h.w.app.wrap()
            .query_wasm_smart(self.run.h.w.a("em"), &mantra_dex_std::epoch_manager::QueryMsg::CurrentEpoch {});
        r.map(|e| e.epoch.id).unwrap_or(0)
    }

    pub fn op_create_position(&mut self) {
        let Some(lp) = self.some_lp() else { return self.op_provide() };
        let holders = self.lp_holders(&lp);
        let sender = if holders.is_empty() || self.r.chance(1, 15) { pick_user(self.r) } else { holders[self.r.below(holders.len() as u64) as usize] };
        let bal = self.run.h.w.balance(sender, &lp);
        let amt = match self.r.below(6) { 0 => 1 + self.r.below(3) as u128, 1 => bal / 2, 2 => bal / 10 + 1, 3 => bal / 1000 + 1, _ => bal / 20 + 1 };
        let dur = match self.r.below(8) { 0 => DAY, 1 => 31_556_926, 2 => 15_778_463, 3 => DAY - 1, 4 => 31_556_927, _ => DAY * (1 + self.r.below(360)) + self.r.below(1000) };
        // malformed identifiers now and then: a forbidden character, 65 / 70 characters (prefix "u-" included the limit is 66 bytes)
        let id = match self.r.below(30) { 0..=6 => "-".to_string(), 7 => "bad$id".to_string(), 8 => "a/b".to_string(), 9 => "x".repeat(64), 10 => "x".repeat(65), 11 => "x".repeat(70),
            _ => format!("{}{}", sender, self.r.below(4)) };
        let recv = match self.r.below(10) { 0 => SENDERS[self.r.below(4) as usize].to_string(), 1 => sender.to_string(), _ => "-".into() };
        let funds = if amt == 0 { vec![] } else { vec![coin(amt, lp.clone())] };
        // now and then: the explicit identifier of an EXISTING open position (its raw form, as its owner typed it), the same LP
        // token and the same unlocking duration, sent by somebody else — the identifier is taken: refused, nothing changes
        if self.r.chance(1, 9) {
            let real = self.run.h.w.rd(&lp);
            let cands: Vec<_> = self.positions().into_iter().filter(|q| q.open && q.identifier.starts_with("u-") && q.lp_asset.denom == real).collect();
            if let Some(q) = cands.first() {
                let owner = self.run.h.w.n(q.receiver.as_str());
                let other = SENDERS.iter().copied().find(|u| *u != owner && self.run.h.w.balance(u, &lp) > 0).unwrap_or(sender);
                let a2 = (self.run.h.w.balance(other, &lp) / 10).max(1);
                self.emit(format!("tx {} {} fm createpos {} {} -", other, funds_str(&[coin(a2, lp.clone())]), &q.identifier[2..], q.unlocking_duration));
                return;
            }
        }
        self.emit(format!("tx {} {} fm createpos {} {} {}", sender, funds_str(&funds), id, dur, recv));
    }

    fn positions(&self) -> Vec<mantra_dex_std::farm_manager::Position> { self.run.h.all_positions() }

    /// the identifier a position operation names: usually the stored one; now and then a near miss of it — the raw
    /// identifier without its `u-` / `p-` prefix, the other prefix, a different case — which names NO position and
    /// must be refused (C08: a position is reached only through its own identifier)
    fn pos_ident(&mut self, stored: &str) -> String {
        if !self.r.chance(1, 7) { return stored.to_string(); }
        let raw = stored.splitn(2, '-').nth(1).unwrap_or(stored).to_string();
        match self.r.below(4) {
            0 | 1 => raw,
            2 => if stored.starts_with("u-") { format!("p-{}", raw) } else { format!("u-{}", raw) },
            _ => stored.to_uppercase(),
        }
    }

    pub fn op_expand_position(&mut self) {
        let ps: Vec<_> = self.positions().into_iter().filter(|p| p.open).collect();
        if ps.is_empty() { return self.op_create_position(); }
        let p = &ps[self.r.below(ps.len() as u64) as usize];
        let owner = self.run.h.w.n(p.receiver.as_str());
        let sender = if self.r.chance(1, 10) { pick_user(self.r).to_string() } else { owner };
        let lp = self.run.h.w.cd(&p.lp_asset.denom);
        let bal = self.run.h.w.balance(&sender, &lp);
        let amt = match self.r.below(4) { 0 => 1 + self.r.below(3) as u128, 1 => bal / 10 + 1, _ => bal / 100 + 1 };
        let ident = self.pos_ident(&p.identifier);
        self.emit(format!("tx {} {} fm expandpos {}", sender, funds_str(&[coin(amt, lp)]), ident));
    }

    pub fn op_close_position(&mut self) {
        let ps: Vec<_> = self.positions().into_iter().filter(|p| p.open).collect();
        if ps.is_empty() { return self.op_create_position(); }
        let p = &ps[self.r.below(ps.len() as u64) as usize];
        let owner = self.run.h.w.n(p.receiver.as_str());
        let sender = if self.r.chance(1, 12) { pick_user(self.r).to_string() } else { owner };
        let a = p.lp_asset.amount.u128();
        let (d, amt) = match self.r.below(5) { 0 => ("-".to_string(), "-".to_string()), 1 => (self.run.h.w.cd(&p.lp_asset.denom), a.to_string()), 2 => (self.run.h.w.cd(&p.lp_asset.denom), (a / 2).max(1).to_string()), 3 => (self.run.h.w.cd(&p.lp_asset.denom), (a + 1).to_string()), _ => (self.run.h.w.cd(&p.lp_asset.denom), (a / 3 + 1).to_string()) };
        // claim first most of the time (pending rewards block closing)
        if self.r.chance(3, 4) { self.emit(format!("tx {} 0 fm claim -", sender)); }
        let ident = self.pos_ident(&p.identifier);
        self.emit(format!("tx {} 0 fm closepos {} {} {}", sender, ident, d, amt));
    }

    pub fn op_withdraw_position(&mut self) {
        let ps = self.positions();
        if ps.is_empty() { return self.op_create_position(); }
        let closed: Vec<_> = ps.iter().filter(|p| !p.open).collect();
        let p = if !closed.is_empty() && self.r.chance(1, 2) { closed[self.r.below(closed.len() as u64) as usize] } else { &ps[self.r.below(ps.len() as u64) as usize] };
        let owner = self.run.h.w.n(p.receiver.as_str());
        let sender = if self.r.chance(1, 12) { pick_user(self.r).to_string() } else { owner };
        // sometimes move time to the unlock boundary first
        if let Some(e) = p.expiring_at {
            if self.r.chance(1, 3) {
                let now_s = self.run.h.w.now_ns() / 1_000_000_000;
                if e > now_s {
                    // the unlock instant to the second, and INSIDE the last second before it (block times carry nanoseconds:
                    // a fraction of a second before the instant is still before it)
                    let now_ns = self.run.h.w.now_ns();
                    let target_ns = match self.r.below(6) {
                        0 => (e - 1) * 1_000_000_000, 1 => e * 1_000_000_000, 2 => (e + 1) * 1_000_000_000,
                        3 => (e - 1) * 1_000_000_000 + 1, 4 => (e - 1) * 1_000_000_000 + 999_999_999,
                        _ => (e - 1) * 1_000_000_000 + 1 + self.r.below(999_999_998),
                    };
                    if target_ns > now_ns { self.emit(format!("advance {}", target_ns - now_ns)); }
                }
            }
        }
        let em = match self.r.below(6) { 0 | 1 | 2 | 3 => "true", 4 => "false", _ => "-" };
        let ident = self.pos_ident(&p.identifier);
        self.emit(format!("tx {} 0 fm withdrawpos {} {}", sender, ident, em));
    }

    pub fn op_claim(&mut self) {
        let ps: Vec<_> = self.positions().into_iter().filter(|p| p.open).collect();
        let sender = if ps.is_empty() || self.r.chance(1, 10) { pick_user(self.r).to_string() } else { self.run.h.w.n(ps[self.r.below(ps.len() as u64) as usize].receiver.as_str()) };
        let cur = self.cur_epoch();
        let until = match self.r.below(5) { 0 => cur.saturating_sub(self.r.below(4)).to_string(), 1 => (cur + 1).to_string(), 2 => cur.to_string(), _ => "-".to_string() };
        self.emit(format!("tx {} 0 fm claim {}", sender, until));
    }

    fn farm_fee_funds(&self, asset: &Coin) -> Vec<Coin> {
        let cfg: mantra_dex_std::farm_manager::Config = self.run.h.w.app.wrap()
            .query_wasm_smart(self.run.h.w.a("fm"), &mantra_dex_std::farm_manager::QueryMsg::Config {}).unwrap();
        let fee = cfg.create_farm_fee;
        let mut v = vec![asset.clone()];
        if fee.denom == asset.denom { v[0].amount += fee.amount; } else if !fee.amount.is_zero() { v.push(fee); }
        v.sort_by(|a, b| a.denom.cmp(&b.denom));
        v
    }

    pub fn op_create_farm(&mut self) {
        let Some(lp) = self.some_lp() else { return self.op_provide() };
        let cur = self.cur_epoch();
        let start = match self.r.below(8) { 0 | 1 | 2 => "-".to_string(), 3 => cur.to_string(), 4 | 5 => (cur + 1).to_string(), _ => (cur + 1 + self.r.below(3)).to_string() };
        let s_num = start.parse::<u64>().unwrap_or(cur + 1);
        let end = match self.r.below(4) { 0 => "-".to_string(), _ => (s_num + 1 + self.r.below(20)).to_string() };
        let ad = match self.r.below(8) { 0 => lp.clone(), 1 | 2 => "uom".to_string(), 3 => "uusd".to_string(), _ => BASE_DENOMS[self.r.below(6) as usize].to_string() };
        let aa = match self.r.below(5) { 0 => 999, 1 => 1000, _ => 1000 + self.r.below(10_000_000) as u128 };
        // budgets of 18-decimals reward tokens: an emission of 10^18 … 10^27 units per epoch makes any loss of relative
        // precision in the per-epoch share (an 18-digit intermediate, say) visible in whole units
        let aa = if self.r.chance(1, 7) { 10u128.pow(19 + self.r.below(9) as u32) * (1 + self.r.below(1000) as u128) + self.r.below(1000) as u128 } else { aa };
        // long farms with a small budget: the emission rate's rounding remainder exceeds one epoch's emission
        let (end, aa) = if self.r.chance(1, 6) {
            let d = 32 + self.r.below(40);
            ((s_num + d).to_string(), 1000 + self.r.below(d * d - 1000) as u128)
        } else { (end, aa) };
        // farms are often created by the same account (several active farms sharing an owner)
        let sender = if self.r.chance(1, 2) { "u1" } else { pick_user(self.r) };
        let have = self.run.h.w.balance(sender, &ad);
        let aa = if BASE_DENOMS.contains(&ad.as_str()) { aa } else { aa.min(have / 2) };
        let asset = coin(aa, ad.clone());
        let mut funds = self.farm_fee_funds(&asset);
        match self.r.below(16) {
            0 => { funds.pop(); }
            1 => { funds[0].amount += cosmwasm_std::Uint128::one(); }
            // amount mismatches on the reward-denom coin: only the fee, only the reward, one unit short, a fraction
            3 | 4 | 5 => {
                let feeq: mantra_dex_std::farm_manager::Config = self.run.h.w.app.wrap()
                    .query_wasm_smart(self.run.h.w.a("fm"), &mantra_dex_std::farm_manager::QueryMsg::Config {}).unwrap();
                let fee_amt = if feeq.create_farm_fee.denom == ad { feeq.create_farm_fee.amount.u128() } else { 0 };
                if let Some(c) = funds.iter_mut().find(|c| c.denom == ad) {
                    let v = match self.r.below(4) { 0 => fee_amt, 1 => aa, 2 => (aa + fee_amt).saturating_sub(1), _ => aa / 8 + 1 };
                    if v > 0 { c.amount = cosmwasm_std::Uint128::new(v); }
                }
            }
            2 => {
                // an unrelated extra coin (funds always carry distinct denoms, as on a real chain)
                let extra = ["uluna", "udai", "uusdt"].into_iter().find(|d| !funds.iter().any(|c| c.denom == *d)).unwrap();
                funds.push(coin(7, extra));
                funds.sort_by(|a, b| a.denom.cmp(&b.denom));
            }
            _ => {}
        }
        let id = match self.r.below(24) { 0..=7 => "-".to_string(), 8 => "bad$id".to_string(), 9 => "y".repeat(64), 10 => "y".repeat(65), _ => format!("f{}", self.r.below(6)) };
        // invalid epoch windows now and then: end = start, end before start, end in the past, start beyond the buffer
        let (start, end) = match self.r.below(24) {
            0 => (start.clone(), s_num.to_string()),
            1 => (start.clone(), s_num.saturating_sub(1).to_string()),
            2 => ("-".to_string(), cur.to_string()),
            3 => ((cur + 15 + self.r.below(3)).to_string(), (cur + 40).to_string()),
            4 => ((cur + 14).to_string(), (cur + 40).to_string()),
            _ => (start, end),
        };
        self.emit(format!("tx {} {} fm createfarm {} {} {} {} {} {}", sender, funds_str(&funds), lp, start, end, ad, aa, id));
    }

    fn farms(&self) -> Vec<mantra_dex_std::farm_manager::Farm> { self.run.h.all_farms() }

    pub fn op_expand_farm(&mut self) {
        let fs = self.farms();
        if fs.is_empty() { return self.op_create_farm(); }
        let f = &fs[self.r.below(fs.len() as u64) as usize];
        let owner = self.run.h.w.n(f.owner.as_str());
        let sender = if self.r.chance(1, 8) { pick_user(self.r).to_string() } else { owner };
        let rate = f.emission_rate.u128().max(1);
        let amt = match self.r.below(4) { 0 => rate * (1 + self.r.below(5) as u128) + 1, _ => rate * (1 + self.r.below(5) as u128) };
        let ad = self.run.h.w.cd(&f.farm_asset.denom);
        // what is attached: usually exactly the declared amount; now and then less / more of the same denom, another
        // denom, an extra coin, nothing (all to be refused: an expansion adds exactly what was paid in)
        let funds: Vec<Coin> = match self.r.below(14) {
            0 => vec![coin(rate.min(amt.saturating_sub(rate)).max(1), ad.clone())],        // one epoch attached, several declared
            1 => vec![coin(amt + rate, ad.clone())],
            2 => vec![coin(1, ad.clone())],
            3 => vec![coin(amt, if ad == "uom" { "uusd" } else { "uom" })],
            4 => { let mut v = vec![coin(amt, ad.clone()), coin(7, if ad == "uluna" { "uusd" } else { "uluna" })]; v.sort_by(|a, b| a.denom.cmp(&b.denom)); v }
            5 => vec![],
            _ => vec![coin(amt, ad.clone())],
        };
        self.emit(format!("tx {} {} fm expandfarm {} - - {} {} {}", sender, funds_str(&funds), self.run.h.w.cd(&f.lp_denom), ad, amt, f.identifier));
    }

    pub fn op_close_farm(&mut self) {
        let fs = self.farms();
        if fs.is_empty() { return self.op_create_farm(); }
        let f = &fs[self.r.below(fs.len() as u64) as usize];
        let owner = self.run.h.w.n(f.owner.as_str());
        let sender = match self.r.below(6) { 0 => "owner".to_string(), 1 => pick_user(self.r).to_string(), _ => owner };
        self.emit(format!("tx {} 0 fm closefarm {}", sender, f.identifier));
    }

    /// directed scenario for C09: several *active* farms on one LP token sharing an owner, then an
    /// emergency exit from a position on that token
    pub fn op_scenario_shared_owner_emergency(&mut self) {
        let Some(lp) = self.some_lp() else { return self.op_provide() };
        let cur = self.cur_epoch();
        let real = self.run.h.w.rd(&lp);
        let n_u1 = self.farms().iter().filter(|f| f.lp_denom == real && self.run.h.w.n(f.owner.as_str()) == "u1").count();
        for k in n_u1..2 {
            let aa = 2000 + self.r.below(1_000_000) as u128;
            let asset = coin(aa, "uusdc");
            let funds = self.farm_fee_funds(&asset);
            let (e, tag) = (cur + 10 + self.r.below(10), self.r.below(1000));
            // (every other time the owner's FIRST farm — in identifier order — has not started when the exit comes, the second
            //  one is running: the owner is an active farm owner all the same)
            let start = if k == 0 && self.r.chance(1, 2) { cur + 6 } else { cur + 1 };
            self.emit(format!("tx u1 {} fm createfarm {} {} {} uusdc {} sc{}{}", funds_str(&funds), lp, start, e, aa, k, tag));
        }
        // somebody locks LP of that token
        let holders = self.lp_holders(&lp);
        if let Some(u) = holders.first().copied() {
            let bal = self.run.h.w.balance(u, &lp);
            let amt = bal / 10 + 1;
            let dur = DAY * (1 + self.r.below(360));
            let tag = self.r.below(1000);
            self.emit(format!("tx {} 1 {} {} fm createpos sce{} {} -", u, lp, amt, tag, dur));
        }
        let adv = (1 + self.r.below(3)) * DAY * 1_000_000_000;
        self.emit(format!("advance {}", adv));
        let ps: Vec<_> = self.positions().into_iter().filter(|p| p.lp_asset.denom == real).collect();
        if let Some(p) = ps.first() {
            let owner = self.run.h.w.n(p.receiver.as_str());
            self.emit(format!("tx {} 0 fm withdrawpos {} true", owner, p.identifier));
        }
    }

    /// directed scenario for C06 / C10: a position built from small pieces with a fractional multiplier is
    /// closed in full while another user stays in the LP token; the other user then claims the following
    /// epochs (rounding drift between the user's and the total weight must never let them be overpaid)
    pub fn op_scenario_piecewise_close(&mut self) {
        // an LP token nobody has locked yet, so that the weights stay small and a one-unit drift is visible
        let ps = self.positions();
        let free: Vec<String> = self.run.h.lps.iter().filter(|l| { let real = self.run.h.w.rd(l); !ps.iter().any(|p| p.lp_asset.denom == real) }).cloned().collect();
        if free.is_empty() { return self.op_advance(); }
        let lp = free[self.r.below(free.len() as u64) as usize].clone();
        let holders = self.lp_holders(&lp);
        if holders.len() < 2 { return self.op_provide(); }
        let (ua, ub) = (holders[0], holders[1]);
        let tag = self.r.below(10_000);
        let cur = self.cur_epoch();
        // a farm paying on this LP token from the next epoch on
        let real = self.run.h.w.rd(&lp);
        if !self.farms().iter().any(|f| f.lp_denom == real) {
            let aa = 20_000 + self.r.below(100_000) as u128;
            let asset = coin(aa, "uusdc");
            let funds = self.farm_fee_funds(&asset);
            self.emit(format!("tx u1 {} fm createfarm {} {} {} uusdc {} pw{}", funds_str(&funds), lp, cur + 1, cur + 21, aa, tag));
        }
        let dur = DAY * (2 + self.r.below(300)) + self.r.below(DAY);
        let piece = 1 + self.r.below(3) as u128;
        self.emit(format!("tx {} 1 {} {} fm createpos pwa{} {} -", ua, lp, piece, tag, dur));
        for _ in 0..(1 + self.r.below(8)) { self.emit(format!("tx {} 1 {} {} fm expandpos u-pwa{}", ua, lp, piece, tag)); }
        let bal_b = self.run.h.w.balance(ub, &lp);
        let amt_b = (2 + self.r.below(20) as u128).min(bal_b.max(1));
        self.emit(format!("tx {} 1 {} {} fm createpos pwb{} {} -", ub, lp, amt_b, tag, DAY));
        self.emit(format!("advance {}", 2 * DAY * 1_000_000_000));
        self.emit(format!("tx {} 0 fm claim -", ua));
        self.emit(format!("tx {} 0 fm closepos u-pwa{} - -", ua, tag));
        let adv = (2 + self.r.below(3)) * DAY * 1_000_000_000;
        self.emit(format!("advance {}", adv));
        self.emit(format!("tx {} 0 fm claim -", ub));
    }

    /// directed scenario for C11: a long farm with a small budget (the remainder of budget / duration is at
    /// least one epoch's emission) is expanded by a few epochs' worth: the end moves by exactly amount / rate
    pub fn op_scenario_expand_long_farm(&mut self) {
        let Some(lp) = self.some_lp() else { return self.op_provide() };
        let cur = self.cur_epoch();
        let d = 34 + self.r.below(40) as u128;
        let rate = (1000 / d + 1) + self.r.below(3) as u128;          // rate * d >= 1000
        if rate >= d { return self.op_create_farm(); }
        let rem = rate + (self.r.below((d - rate) as u64) as u128);      // rate <= rem < d
        let aa = rate * d + rem;
        let tag = self.r.below(10_000);
        let asset = coin(aa, "uusdc");
        let funds = self.farm_fee_funds(&asset);
        self.emit(format!("tx u1 {} fm createfarm {} {} {} uusdc {} xl{}", funds_str(&funds), lp, cur + 1, cur + 1 + d as u64, aa, tag));
        let k = 1 + self.r.below(3) as u128;
        self.emit(format!("tx u1 1 uusdc {} fm expandfarm {} - - uusdc {} m-xl{}", rate * k, lp, rate * k, tag));
        if self.r.chance(1, 2) { self.emit(format!("tx u1 1 uusdc {} fm expandfarm {} - - uusdc {} m-xl{}", rate, lp, rate, tag)); }
    }

    /// directed scenario for C05 / C11: every funding shape of a farm whose reward denom is the fee denom
    /// (fee only, reward only, one unit short, exact) and of one with a different reward denom
    pub fn op_scenario_farm_funding(&mut self) {
        let Some(lp) = self.some_lp() else { return self.op_provide() };
        let cfg: mantra_dex_std::farm_manager::Config = self.run.h.w.app.wrap()
            .query_wasm_smart(self.run.h.w.a("fm"), &mantra_dex_std::farm_manager::QueryMsg::Config {}).unwrap();
        let fee = cfg.create_farm_fee.clone();
        let tag = self.r.below(10_000);
        let aa = 2000 + self.r.below(50_000) as u128;
        let fd = fee.denom.clone();
        let fa = fee.amount.u128();
        let variants: Vec<u128> = vec![fa, aa, (aa + fa).saturating_sub(1), aa + fa + 1, aa + fa];
        for (k, v) in variants.iter().enumerate() {
            if *v == 0 { continue; }
            let sender = ["u1", "u2", "u3"][self.r.below(3) as usize];
            self.emit(format!("tx {} 1 {} {} fm createfarm {} - - {} {} ff{}{}", sender, fd, v, lp, fd, aa, k, tag));
        }
        // different reward denom: the fee coin missing / the reward coin short
        let other = if fd == "uusdc" { "uusdt" } else { "uusdc" };
        let mut f1 = vec![coin(aa, other)]; if fa > 0 { f1.push(coin(fa, fd.clone())); } f1.sort_by(|a, b| a.denom.cmp(&b.denom));
        self.emit(format!("tx u1 1 {} {} fm createfarm {} - - {} {} fg0{}", other, aa, lp, other, aa, tag));
        self.emit(format!("tx u1 {} fm createfarm {} - - {} {} fg1{}", funds_str(&f1), lp, other, aa + 1, tag));
    }

    /// directed scenario for C05 / C11: two farms paying the same reward denom, a user claims from both,
    /// then one of them is closed: the refund must be the unclaimed remainder only (the other farm's budget
    /// and the locked LP stay covered)
    pub fn op_scenario_close_after_claim(&mut self) {
        let Some(lp) = self.some_lp() else { return self.op_provide() };
        let holders = self.lp_holders(&lp);
        let Some(u) = holders.first().copied() else { return self.op_provide() };
        let cfg: mantra_dex_std::farm_manager::Config = self.run.h.w.app.wrap()
            .query_wasm_smart(self.run.h.w.a("fm"), &mantra_dex_std::farm_manager::QueryMsg::Config {}).unwrap();
        if cfg.max_concurrent_farms < 2 { self.emit("tx owner 0 fm config - - - - - 3 - - - - -".to_string()); }
        let cur = self.cur_epoch();
        let tag = self.r.below(10_000);
        for (k, owner) in ["u1", "u2"].iter().enumerate() {
            let aa = 4000 + self.r.below(50_000) as u128;
            let asset = coin(aa, "uusdc");
            let funds = self.farm_fee_funds(&asset);
            self.emit(format!("tx {} {} fm createfarm {} {} {} uusdc {} cc{}{}", owner, funds_str(&funds), lp, cur + 1, cur + 9, aa, k, tag));
        }
        let bal = self.run.h.w.balance(u, &lp);
        self.emit(format!("tx {} 1 {} {} fm createpos ccp{} {} -", u, lp, bal / 7 + 1, tag, DAY));
        let adv = (2 + self.r.below(3)) * DAY * 1_000_000_000;
        self.emit(format!("advance {}", adv));
        self.emit(format!("tx {} 0 fm claim -", u));
        let closer = if self.r.chance(1, 4) { "owner" } else { "u1" };
        self.emit(format!("tx {} 0 fm closefarm m-cc0{}", closer, tag));
    }

    /// directed scenario for C20 / C11: two farms of one owner on one LP token paying different denoms
    /// expire, then somebody else's farm creation closes both automatically (under fault enumeration one
    /// refund at a time fails: the other must still arrive)
    pub fn op_scenario_double_autoclose(&mut self) {
        let Some(lp) = self.some_lp() else { return self.op_provide() };
        let cur = self.cur_epoch();
        let tag = self.r.below(10_000);
        let cfg: mantra_dex_std::farm_manager::Config = self.run.h.w.app.wrap()
            .query_wasm_smart(self.run.h.w.a("fm"), &mantra_dex_std::farm_manager::QueryMsg::Config {}).unwrap();
        if cfg.max_concurrent_farms < 2 { self.emit("tx owner 0 fm config - - - - - 3 - - - - -".to_string()); }
        for (k, d) in ["uusdc", "uusdt"].iter().enumerate() {
            let aa = 3000 + self.r.below(100_000) as u128;
            let asset = coin(aa, *d);
            let funds = self.farm_fee_funds(&asset);
            self.emit(format!("tx u1 {} fm createfarm {} {} {} {} {} da{}{}", funds_str(&funds), lp, cur + 1, cur + 3, d, aa, k, tag));
        }
        // well past the end of the farms' last epoch + expiration time
        let adv = (cfg.farm_expiration_time + 6 * DAY) * 1_000_000_000;
        self.emit(format!("advance {}", adv));
        let cur = self.cur_epoch();
        let aa = 2000 + self.r.below(100_000) as u128;
        let asset = coin(aa, "uusdc");
        let funds = self.farm_fee_funds(&asset);
        self.emit(format!("tx u2 {} fm createfarm {} {} {} uusdc {} db{}", funds_str(&funds), lp, cur + 1, cur + 5, aa, tag));
    }

    /// directed scenario for C06: one user with three open positions whose identifiers alternate between two LP tokens
    /// (u-ia… lp1, u-ib… lp2, u-ic… lp1), a farm on lp1, two epochs, two claims: every epoch must be paid once
    pub fn op_scenario_interleaved_positions(&mut self) {
        let lps: Vec<String> = self.run.h.lps.clone();
        // two LP tokens with holders; the user holds the first and, if need be, is sent some of the second
        let held: Vec<String> = lps.iter().filter(|l| !self.lp_holders(l).is_empty()).cloned().collect();
        if held.len() < 2 { return self.op_provide(); }
        let (lp1, lp2) = (held[0].clone(), held[1].clone());
        let u = self.lp_holders(&lp1)[0];
        if self.run.h.w.balance(u, &lp2) <= 10 {
            let h2 = self.lp_holders(&lp2)[0];
            let amt = self.run.h.w.balance(h2, &lp2) / 3 + 1;
            self.emit(format!("send {} {} 1 {} {}", h2, u, lp2, amt));
        }
        if self.run.h.w.balance(u, &lp1) <= 10 || self.run.h.w.balance(u, &lp2) <= 10 { return self.op_provide(); }
        let tag = self.r.below(10_000);
        let cur = self.cur_epoch();
        let real1 = self.run.h.w.rd(&lp1);
        if !self.farms().iter().any(|f| f.lp_denom == real1) {
            let aa = 10_000 + self.r.below(100_000) as u128;
            let asset = coin(aa, "uusdc");
            let funds = self.farm_fee_funds(&asset);
            self.emit(format!("tx u1 {} fm createfarm {} {} {} uusdc {} il{}", funds_str(&funds), lp1, cur + 1, cur + 11, aa, tag));
        }
        let (b1, b2) = (self.run.h.w.balance(u, &lp1), self.run.h.w.balance(u, &lp2));
        self.emit(format!("tx {} 1 {} {} fm createpos ia{} {} -", u, lp1, b1 / 9 + 1, tag, DAY));
        self.emit(format!("tx {} 1 {} {} fm createpos ib{} {} -", u, lp2, b2 / 9 + 1, tag, DAY));
        self.emit(format!("tx {} 1 {} {} fm createpos ic{} {} -", u, lp1, b1 / 11 + 1, tag, DAY * 2));
        self.emit(format!("advance {}", 2 * DAY * 1_000_000_000));
        self.emit(format!("tx {} 0 fm claim -", u));
        self.emit(format!("advance {}", DAY * 1_000_000_000));
        self.emit(format!("tx {} 0 fm claim -", u));
    }

    /// directed scenario for C06 / C07: two stakers of one LP token with a farm on it; after some epochs the FIRST claims
    /// everything up to the current epoch, then the SECOND claims with an explicit `until_epoch` in the past (still after its own
    /// cursor): the second claim is rightful — what others already took for later epochs must not make it fail — and pays exactly
    /// the ledger's amount for the epochs it covers; both claim the rest afterwards
    pub fn op_scenario_claim_until_past_epoch(&mut self) {
        let Some(lp) = self.some_lp() else { return self.op_provide() };
        let holders = self.lp_holders(&lp);
        let Some(a) = holders.first().copied() else { return self.op_provide() };
        let b = match holders.iter().copied().find(|h| *h != a) {
            Some(b) => b,
            None => {
                let b = ["u1", "u2", "u3"].into_iter().find(|x| *x != a).unwrap();
                let amt = self.run.h.w.balance(a, &lp) / 3 + 1;
                self.emit(format!("send {} {} 1 {} {}", a, b, lp, amt));
                b
            }
        };
        if self.run.h.w.balance(a, &lp) < 10 || self.run.h.w.balance(b, &lp) < 10 { return self.op_provide(); }
        let tag = self.r.below(10_000);
        let cur = self.cur_epoch();
        let cfg: mantra_dex_std::farm_manager::Config = self.run.h.w.app.wrap()
            .query_wasm_smart(self.run.h.w.a("fm"), &mantra_dex_std::farm_manager::QueryMsg::Config {}).unwrap();
        let real = self.run.h.w.rd(&lp);
        if (self.farms().iter().filter(|f| f.lp_denom == real).count() as u32) < cfg.max_concurrent_farms {
            let rate = 1000 + self.r.below(100_000) as u128;
            let asset = coin(rate * 10, "uusdc");
            let funds = self.farm_fee_funds(&asset);
            self.emit(format!("tx u1 {} fm createfarm {} {} {} uusdc {} cu{}", funds_str(&funds), lp, cur + 1, cur + 11, rate * 10, tag));
        }
        let (ba, bb) = (self.run.h.w.balance(a, &lp), self.run.h.w.balance(b, &lp));
        self.emit(format!("tx {} 1 {} {} fm createpos ca{} {} -", a, lp, (ba / 7 + 1).min(10u128.pow(20)), tag, DAY * 3));
        self.emit(format!("tx {} 1 {} {} fm createpos cb{} {} -", b, lp, (bb / 5 + 1).min(10u128.pow(20)), tag, DAY * 9));
        let days = 4 + self.r.below(3);
        self.emit(format!("advance {}", days * DAY * 1_000_000_000));
        let now = self.cur_epoch();
        self.emit(format!("tx {} 0 fm claim -", a));
        let past = now.saturating_sub(1 + self.r.below(2));
        self.emit(format!("tx {} 0 fm claim {}", b, past));
        self.emit(format!("tx {} 0 fm claim {}", b, past + 1));
        self.emit(format!("tx {} 0 fm claim -", b));
        self.emit(format!("advance {}", DAY * 1_000_000_000));
        self.emit(format!("tx {} 0 fm claim {}", a, now));
        self.emit(format!("tx {} 0 fm claim -", a));
    }

    /// directed scenario for C07 / C11: more farms on one LP token than any default page size (10): the limit is
    /// raised to 11..13, that many farms are created with identifiers whose byte order differs from creation
    /// order, a user locks LP, two epochs pass and the user claims (every active farm must pay its share)
    pub fn op_scenario_many_farms(&mut self) {
        let Some(lp) = self.some_lp() else { return self.op_provide() };
        let holders = self.lp_holders(&lp);
        let Some(u) = holders.first().copied() else { return self.op_provide() };
        let n = 11 + self.r.below(3);
        self.emit(format!("tx owner 0 fm config - - - - - {} - - - - -", n));
        let cur = self.cur_epoch();
        let tag = self.r.below(1000);
        for k in 0..n {
            let aa = 2000 + self.r.below(20_000) as u128;
            let d = ["uusdc", "uusdt", "udai"][(k % 3) as usize];
            let asset = coin(aa, d);
            let funds = self.farm_fee_funds(&asset);
            // the farms whose identifiers sort LAST (…_9, …_8) belong to owners who own nothing else
            let owner = if k == 9 { "u3" } else if k == 8 { "u4" } else { ["u1", "u2"][(k % 2) as usize] };
            // explicit ids mf<tag>_<k> (k = 0..12: "10" sorts before "2"), every fourth farm gets a generated id
            let id = if k % 4 == 3 { "-".to_string() } else { format!("mf{}_{}", tag, k) };
            self.emit(format!("tx {} {} fm createfarm {} {} {} {} {} {}", owner, funds_str(&funds), lp, cur + 1, cur + 4 + k % 3, d, aa, id));
        }
        // one farm more than the limit allows: must be refused
        {
            let asset = coin(3000, "uusdc");
            let funds = self.farm_fee_funds(&asset);
            self.emit(format!("tx u1 {} fm createfarm {} {} {} uusdc 3000 mfx{}", funds_str(&funds), lp, cur + 1, cur + 5, tag));
        }
        let bal = self.run.h.w.balance(u, &lp);
        self.emit(format!("tx {} 1 {} {} fm createpos mfp{} {} -", u, lp, bal / 9 + 1, tag, DAY));
        // a second position that leaves through the emergency exit while all these farms are active
        let bal2 = self.run.h.w.balance(u, &lp);
        let dur2 = DAY * (30 + self.r.below(300));
        self.emit(format!("tx {} 1 {} {} fm createpos mfq{} {} -", u, lp, bal2 / 7 + 1, tag, dur2));
        self.emit(format!("advance {}", 2 * DAY * 1_000_000_000));
        self.emit(format!("tx {} 0 fm claim -", u));
        self.emit(format!("tx {} 0 fm withdrawpos u-mfq{} true", u, tag));
        self.emit(format!("advance {}", DAY * 1_000_000_000));
        self.emit(format!("tx {} 0 fm claim -", u));
    }

    /// directed scenario for C02 (and C01): EVERY holder of a constant-product pool's LP token redeems everything, so
    /// that only the permanently locked minimum is left against non-zero reserves; then somebody deposits both assets
    /// again, at the pool ratio or skewed — the deposit must be priced like any later deposit (≤ its proportional
    /// share of the supply), never like a first deposit
    pub fn op_scenario_full_exit_redeposit(&mut self) {
        let pools = self.pools();
        let cps: Vec<_> = pools.iter().filter(|p| !p.total_share.amount.is_zero()
            && matches!(p.pool_info.pool_type, mantra_dex_std::pool_manager::PoolType::ConstantProduct)).collect();
        if cps.is_empty() { return self.op_provide(); }
        let p = cps[self.r.below(cps.len() as u64) as usize].clone();
        let pi = &p.pool_info;
        let lp = self.run.h.w.cd(&pi.lp_denom);
        // a few swaps first so that fees accrue to the remaining shares
        for _ in 0..self.r.below(3) {
            let oi = self.r.below(2) as usize;
            let res = pi.assets[oi].amount.u128();
            let amt = res / 20 + 1;
            self.emit(format!("tx u1 {} pm swap {} {} - 500000000000000000 -", funds_str(&[coin(amt, pi.assets[oi].denom.clone())]), pi.pool_identifier, pi.assets[1 - oi].denom));
        }
        for u in ["u1", "u2", "u3", "u4", "owner", "out"] {
            let bal = self.run.h.w.balance(u, &lp);
            if bal > 0 { self.emit(format!("tx {} {} pm withdraw {}", u, funds_str(&[coin(bal, lp.clone())]), pi.pool_identifier)); }
        }
        // reserves now (read again: dust may be left)
        let Some(q) = self.pools().into_iter().find(|x| x.pool_info.pool_identifier == pi.pool_identifier) else { return };
        let (x, y) = (q.pool_info.assets[0].amount.u128(), q.pool_info.assets[1].amount.u128());
        let k = 1 + self.r.below(1000) as u128;
        let (a, b) = match self.r.below(4) {
            0 => (x.max(1) * k, y.max(1) * k),                         // at the pool ratio
            1 => (1_000_000, 1_000_000),
            2 => (x.max(1) * k, y.max(1) * k * 2),                     // skewed
            _ => (1 + self.r.below(1_000_000_000) as u128, 1 + self.r.below(1_000_000_000) as u128),
        };
        let mut funds = vec![coin(a, q.pool_info.assets[0].denom.clone()), coin(b, q.pool_info.assets[1].denom.clone())];
        funds.sort_by(|a, b| a.denom.cmp(&b.denom));
        let sender = SENDERS[self.r.below(4) as usize];
        self.emit(format!("tx {} {} pm provide {} - - - - -", sender, funds_str(&funds), pi.pool_identifier));
        // … and the depositor leaves again: nobody may take out more than they brought
        let bal = self.run.h.w.balance(sender, &lp);
        if bal > 0 && self.r.chance(1, 2) { self.emit(format!("tx {} {} pm withdraw {}", sender, funds_str(&[coin(bal, lp)]), pi.pool_identifier)); }
    }

    /// directed scenario for C09: a farm whose whole budget has been claimed BEFORE its last epoch is over is no longer
    /// active; an emergency exit at that moment sends the whole penalty to the fee collector.  One staker, a budget
    /// that divides evenly over the epochs, claim in the last emitting epoch, then a second position's emergency exit
    pub fn op_scenario_exhausted_farm_emergency(&mut self) {
        // an LP token without positions and without farms (so that the single staker takes every epoch in full)
        let ps = self.positions();
        let fs = self.farms();
        let free: Vec<String> = self.run.h.lps.iter().filter(|l| { let real = self.run.h.w.rd(l);
            !ps.iter().any(|p| p.lp_asset.denom == real) && !fs.iter().any(|f| f.lp_denom == real) }).cloned().collect();
        if free.is_empty() { return self.op_advance(); }
        let lp = free[self.r.below(free.len() as u64) as usize].clone();
        let holders = self.lp_holders(&lp);
        if holders.is_empty() { return self.op_provide(); }
        let ua = holders[0];
        let ub = if holders.len() > 1 { holders[1] } else { holders[0] };
        let tag = self.r.below(10_000);
        let cur = self.cur_epoch();
        let epochs = 2 + self.r.below(3);
        let rate = 1000 + self.r.below(5000) as u128;
        let aa = rate * epochs as u128;
        let asset = coin(aa, "uusdc");
        let funds = self.farm_fee_funds(&asset);
        let owner = ["u3", "u4", "owner"][self.r.below(3) as usize];
        self.emit(format!("tx {} {} fm createfarm {} {} {} uusdc {} xh{}", owner, funds_str(&funds), lp, cur + 1, cur + 1 + epochs, aa, tag));
        let bal_a = self.run.h.w.balance(ua, &lp);
        let dur_a = DAY * (30 + self.r.below(300));
        self.emit(format!("tx {} 1 {} {} fm createpos xha{} {} -", ua, lp, (bal_a / 4).max(1), tag, dur_a));
        // a second position (same or another user), opened one epoch later so that the first one owns epoch cur+1 alone;
        // it is the one that leaves through the emergency exit
        self.emit(format!("advance {}", DAY * 1_000_000_000));
        let bal_b = self.run.h.w.balance(ub, &lp);
        let dur_b = DAY * (30 + self.r.below(300));
        self.emit(format!("tx {} 1 {} {} fm createpos xhb{} {} -", ub, lp, (bal_b / 8).max(1), tag, dur_b));
        // to the farm's last emitting epoch; both claim everything there (the budget is used up if nothing was lost
        // to rounding — the single-staker first epoch makes that likely, not certain)
        self.emit(format!("advance {}", (epochs - 1) * DAY * 1_000_000_000));
        self.emit(format!("tx {} 0 fm claim -", ua));
        if ub != ua { self.emit(format!("tx {} 0 fm claim -", ub)); }
        self.emit(format!("tx {} 0 fm withdrawpos u-xhb{} true", ub, tag));
        if self.r.chance(1, 2) { self.emit(format!("tx {} 0 fm withdrawpos u-xha{} true", ua, tag)); }
    }

    /// directed scenario for C06 / C07: a LONG farm with a SMALL budget (amount = rate·n + r with r ≥ rate): the emission stops at the
    /// end epoch although budget is left; a staker claims in the last epoch, after the end, and again later (nothing accrues)
    pub fn op_scenario_long_thin_farm(&mut self) {
        let Some(lp) = self.some_lp() else { return self.op_provide() };
        let real = self.run.h.w.rd(&lp);
        let cfg: mantra_dex_std::farm_manager::Config = self.run.h.w.app.wrap()
            .query_wasm_smart(self.run.h.w.a("fm"), &mantra_dex_std::farm_manager::QueryMsg::Config {}).unwrap();
        if self.farms().iter().filter(|f| f.lp_denom == real).count() as u32 >= cfg.max_concurrent_farms { return self.op_advance(); }
        let holders = self.lp_holders(&lp);
        let Some(u) = holders.first().copied() else { return self.op_provide() };
        let tag = self.r.below(10_000);
        let cur = self.cur_epoch();
        let n = 33 + self.r.below(30);                         // epochs
        let rate = 1000 / n as u128 + 1 + self.r.below(8) as u128;      // < n, and rate·n ≥ 1000
        let extra = rate * (1 + self.r.below(3) as u128) + self.r.below(rate as u64) as u128;   // r ≥ rate
        let aa = rate * n as u128 + extra;
        let funds = self.farm_fee_funds(&coin(aa, "uusdc"));
        self.emit(format!("tx u2 {} fm createfarm {} {} {} uusdc {} lt{}", funds_str(&funds), lp, cur + 1, cur + 1 + n, aa, tag));
        let bal = self.run.h.w.balance(u, &lp);
        self.emit(format!("tx {} 1 {} {} fm createpos lts{} {} -", u, lp, (bal / 5).max(1), tag, DAY * 2));
        self.emit(format!("advance {}", (n as u64) * DAY * 1_000_000_000));          // last emitting epoch
        self.emit(format!("tx {} 0 fm claim -", u));
        self.emit(format!("advance {}", 3 * DAY * 1_000_000_000));                   // past the end
        self.q(format!("q rewards {} -", u));
        self.emit(format!("tx {} 0 fm claim -", u));
        self.emit(format!("advance {}", 4 * DAY * 1_000_000_000));
        self.emit(format!("tx {} 0 fm claim -", u));
    }

    /// directed scenario for C09: a position is closed and emergency-withdrawn at block times WITH a sub-second part, at several
    /// distances from the unlock instant (the penalty is a function of whole seconds remaining and never grows with time)
    pub fn op_scenario_emergency_fractional_time(&mut self) {
        let Some(lp) = self.some_lp() else { return self.op_provide() };
        let holders = self.lp_holders(&lp);
        let Some(u) = holders.first().copied() else { return self.op_provide() };
        let tag = self.r.below(10_000);
        let bal = self.run.h.w.balance(u, &lp);
        if bal < 10 { return self.op_provide(); }
        let dur = DAY * (1 + self.r.below(20));
        for k in 0..2u64 {
            self.emit(format!("tx {} 1 {} {} fm createpos ef{}x{} {} -", u, lp, (bal / 10).max(1000.min(bal / 3)), tag, k, dur));
        }
        self.emit(format!("tx {} 0 fm claim -", u));
        let frac = 1 + self.r.below(999_999_998);
        self.emit(format!("advance {}", 3600 * 1_000_000_000 + frac));
        for k in 0..2u64 { self.emit(format!("tx {} 0 fm closepos u-ef{}x{} - -", u, tag, k)); }
        // first exit with a large sub-second part, second exit a little later at (almost) the next whole second
        let part = dur / 2 + self.r.below(dur / 3);
        let now = self.run.h.w.now_ns();
        let t1 = (now / 1_000_000_000 + part) * 1_000_000_000 + 900_000_000 + self.r.below(99_999_999);
        self.emit(format!("advance {}", t1 - now));
        self.emit(format!("tx {} 0 fm withdrawpos u-ef{}x0 true", u, tag));
        let now2 = self.run.h.w.now_ns();
        let t2 = (now2 / 1_000_000_000 + 1) * 1_000_000_000 + self.r.below(3);
        self.emit(format!("advance {}", t2 - now2));
        self.emit(format!("tx {} 0 fm withdrawpos u-ef{}x1 true", u, tag));
    }

    /// directed scenario for C08: the bounds on unlocking durations are changed (validly) AFTER a position was opened — the
    /// maximum lowered below its duration, or the minimum raised above it; the position is then closed and must unlock exactly its
    /// OWN recorded duration after the close: a plain withdrawal at the new bound is refused, at the own duration it pays in full
    pub fn op_scenario_bounds_changed_then_close(&mut self) {
        let Some(lp) = self.some_lp() else { return self.op_provide() };
        let holders = self.lp_holders(&lp);
        let Some(u) = holders.first().copied() else { return self.op_provide() };
        let bal = self.run.h.w.balance(u, &lp);
        if bal < 10 { return self.op_provide(); }
        let tag = self.r.below(10_000);
        let own = self.run.h.ownership("fm");
        let owner = own.split('/').next().unwrap_or("owner").to_string();
        let lower_max = self.r.chance(2, 3);
        let (dur, bound) = if lower_max { (DAY * (10 + self.r.below(300)), DAY * (1 + self.r.below(5))) } else { (DAY * (1 + self.r.below(3)), DAY * (5 + self.r.below(20))) };
        self.emit(format!("tx {} 1 {} {} fm createpos bc{} {} -", u, lp, (bal / 10).max(1000.min(bal / 3)), tag, dur));
        let mut f: Vec<String> = vec!["-".into(); 11];
        if lower_max { f[8] = bound.to_string(); } else { f[7] = bound.to_string(); f[8] = (DAY * 365).to_string(); }
        self.emit(format!("tx {} 0 fm config {}", owner, f.join(" ")));
        let adv0 = (1 + self.r.below(3 * DAY)) * 1_000_000_000;
        self.emit(format!("advance {}", adv0));
        let id = format!("u-bc{}", tag);
        if self.r.chance(1, 3) {
            // a partial close first (the part split off carries the same duration)
            self.emit(format!("tx {} 0 fm closepos {} {} {}", u, id, lp, ((bal / 10).max(1000.min(bal / 3)) / 3).max(1)));
        }
        self.emit(format!("tx {} 0 fm closepos {} - -", u, id));
        let first = dur.min(bound);
        let adv1 = first * 1_000_000_000 + self.r.below(2_000_000_000);
        self.emit(format!("advance {}", adv1));
        self.emit(format!("tx {} 0 fm withdrawpos {} false", u, id));
        if dur > first {
            self.emit(format!("advance {}", (dur - first) * 1_000_000_000));
            self.emit(format!("tx {} 0 fm withdrawpos {} false", u, id));
        }
    }

    /// directed scenario for C09: the farm manager's fee collector is an account that ALSO owns an active farm on the LP token
    /// (alone, or next to another owner); a locked position is then left by emergency exit: the whole penalty must still be
    /// paid out — the collector's half and every active owner's share, whoever they are
    pub fn op_scenario_collector_owns_farm(&mut self) {
        let Some(lp) = self.some_lp() else { return self.op_provide() };
        let cur = self.cur_epoch();
        let own = self.run.h.ownership("fm");
        let owner = own.split('/').next().unwrap_or("owner").to_string();
        let tag = self.r.below(1000);
        let cfg: mantra_dex_std::farm_manager::Config = self.run.h.w.app.wrap()
            .query_wasm_smart(self.run.h.w.a("fm"), &mantra_dex_std::farm_manager::QueryMsg::Config {}).unwrap();
        if cfg.max_concurrent_farms < 2 { self.emit(format!("tx {} 0 fm config - - - - - 3 - - - - -", owner)); }
        let coll = ["u1", "u3"][self.r.below(2) as usize];
        // (under fault enumeration always two owners: a failing transfer to ONE of them must abort the exit, not reroute shares)
        let creators: Vec<&str> = if !self.faults && self.r.chance(1, 2) { vec![coll] } else { vec![coll, if coll == "u1" { "u3" } else { "u1" }] };
        for (k, c) in creators.iter().enumerate() {
            let aa = 20_000 + self.r.below(1_000_000) as u128;
            let asset = coin(aa, "uusdc");
            let funds = self.farm_fee_funds(&asset);
            self.emit(format!("tx {} {} fm createfarm {} {} {} uusdc {} co{}x{}", c, funds_str(&funds), lp, cur + 1, cur + 12, aa, tag, k));
        }
        let mut f: Vec<String> = vec!["-".into(); 11];
        f[0] = coll.to_string();
        // (a configuration without penalty would make the exit free: give it one)
        if cfg.emergency_unlock_penalty.is_zero() { f[10] = ["100000000000000000", "20000000000000000", "500000000000000000"][self.r.below(3) as usize].into(); }
        self.emit(format!("tx {} 0 fm config {}", owner, f.join(" ")));
        let holders = self.lp_holders(&lp);
        let Some(u) = holders.iter().copied().find(|h| *h != coll) else { return };
        let bal = self.run.h.w.balance(u, &lp);
        if bal < 10 { return; }
        // an amount whose penalty halves and shares do not divide evenly, now and then
        // (an emergency exit of 3.4·10^20 units or more panics in `Decimal::from_ratio` — recorded in DESIGN §7, outside the property)
        let amt = ((bal / 10).max(1000.min(bal / 3)) | 1).min(100_000_000_000_000_000_000 + self.r.below(1000) as u128);
        let dur = DAY * (30 + self.r.below(300));
        self.emit(format!("tx {} 1 {} {} fm createpos cf{} {} -", u, lp, amt, tag, dur));
        // (a second position in the same LP token: the farm manager then holds more of it than the leaving position's amount)
        let left = self.run.h.w.balance(u, &lp);
        if left > 2 { self.emit(format!("tx {} 1 {} {} fm createpos cg{} {} -", u, lp, (left / 2).min(100_000_000_000_000_000_000), tag, dur)); }
        let adv3 = (1 + self.r.below(2)) * DAY * 1_000_000_000;
        self.emit(format!("advance {}", adv3));
        if self.r.chance(1, 2) { self.emit(format!("tx {} 0 fm closepos u-cf{} - -", u, tag)); self.emit(format!("advance {}", DAY * 1_000_000_000)); }
        self.emit(format!("tx {} 0 fm withdrawpos u-cf{} true", u, tag));
        // the collector goes back to the fee-collector contract
        let mut f: Vec<String> = vec!["-".into(); 11];
        f[0] = "fc".into();
        if self.r.chance(1, 2) { self.emit(format!("tx {} 0 fm config {}", owner, f.join(" "))); }
    }

    /// directed scenario for C10 / C08: a user's position is closed in full; a locked deposit through the pool manager then
    /// names that CLOSED position as the one to top up (also the closed part of a partial close): the lock must be refused just
    /// as a direct Expand is — otherwise the user would carry weight without an open position
    pub fn op_scenario_refill_closed_via_pm(&mut self) {
        // a pool of its own, so that the user has no other position in its LP token (self-sufficient)
        let tag = self.r.below(10_000);
        let cf = self.creation_funds();
        self.emit(format!("tx u1 {} pm create cp 0 2 uluna 6 uusdc 6 0 0 0 - rfp{}", funds_str(&cf), tag));
        let mut d0 = vec![coin(30_000_000, "uluna"), coin(30_000_000, "uusdc")]; d0.sort_by(|x, y| x.denom.cmp(&y.denom));
        self.emit(format!("tx u1 {} pm provide o.rfp{} - - - - -", funds_str(&d0), tag));
        let pools = self.pools();
        let Some(p) = pools.iter().find(|p| p.pool_info.pool_identifier == format!("o.rfp{}", tag) && !p.total_share.amount.is_zero()) else { return self.op_provide() };
        let pi = p.pool_info.clone();
        let u = ["u2", "u3", "u4"][self.r.below(3) as usize];
        let mut funds: Vec<Coin> = pi.assets.iter().map(|a| coin((a.amount.u128() / 1000).max(1000), a.denom.clone())).collect();
        funds.sort_by(|x, y| x.denom.cmp(&y.denom));
        let dur = DAY * (1 + self.r.below(30));
        // a locked deposit creating the position, under an identifier of the user's choosing
        self.emit(format!("tx {} {} pm provide {} - - - {} rf{}", u, funds_str(&funds), pi.pool_identifier, dur, tag));
        let id = format!("u-rf{}", tag);
        let partial = self.r.chance(1, 4);
        let lp = self.run.h.w.cd(&pi.lp_denom);
        if partial {
            let amt = self.positions().iter().find(|q| q.identifier == id).map(|q| q.lp_asset.amount.u128()).unwrap_or(0);
            if amt >= 2 { self.emit(format!("tx {} 0 fm closepos {} {} {}", u, id, lp, amt / 2)); }
        } else {
            self.emit(format!("tx {} 0 fm closepos {} - -", u, id));
        }
        let adv2 = (1 + self.r.below(2 * DAY)) * 1_000_000_000;
        self.emit(format!("advance {}", adv2));
        // every closed position of the user in that LP token is named once
        let real = self.run.h.w.rd(&lp);
        let closed: Vec<String> = self.positions().iter().filter(|q| !q.open && q.lp_asset.denom == real && self.run.h.w.n(q.receiver.as_str()) == u).map(|q| q.identifier.clone()).collect();
        for cid in closed.iter().take(2) {
            self.emit(format!("tx {} {} pm provide {} - - - {} {}", u, funds_str(&funds), pi.pool_identifier, dur, cid));
            // and directly
            let have = self.run.h.w.balance(u, &lp);
            if have > 0 { self.emit(format!("tx {} 1 {} {} fm expandpos {}", u, lp, (have / 2).max(1), cid)); }
        }
        self.emit(format!("advance {}", DAY * 1_000_000_000));
        self.emit(format!("tx {} 0 fm claim -", u));
    }

    /// directed scenario for C10: an LP token WITHOUT any farm (nothing to claim, so no claim ever compacts the weight history);
    /// a user locks, several epochs pass, the user closes the position in full — and must be left without any weight in that LP
    /// token, at every epoch; the user then locks again: the total must still cover the users' weights
    pub fn op_scenario_close_out_without_farm(&mut self) {
        let tag = self.r.below(1000);
        let cf = self.creation_funds();
        self.emit(format!("tx u1 {} pm create cp 0 2 uluna 6 uusdt 6 0 0 0 - nf{}", funds_str(&cf), tag));
        let mut d1 = vec![coin(40_000_000, "uluna"), coin(40_000_000, "uusdt")]; d1.sort_by(|x, y| x.denom.cmp(&y.denom));
        self.emit(format!("tx u2 {} pm provide o.nf{} - - - - -", funds_str(&d1), tag));
        self.emit(format!("tx u3 {} pm provide o.nf{} - - - - -", funds_str(&d1), tag));
        let lp = format!("factory/pm/o.nf{}.LP", tag);
        let (b2, b3) = (self.run.h.w.balance("u2", &lp), self.run.h.w.balance("u3", &lp));
        if b2 < 100 || b3 < 100 { return; }
        self.emit(format!("tx u2 1 {} {} fm createpos na{} {} -", lp, b2 / 4, tag, DAY * 2));
        self.emit(format!("tx u3 1 {} {} fm createpos nb{} {} -", lp, b3 / 3, tag, DAY * 4));
        let days = 2 + self.r.below(4);
        self.emit(format!("advance {}", days * DAY * 1_000_000_000));
        if self.r.chance(1, 2) { self.emit(format!("tx u2 1 {} {} fm expandpos u-na{}", lp, b2 / 8, tag)); self.emit(format!("advance {}", 2 * DAY * 1_000_000_000)); }
        self.emit(format!("tx u2 0 fm closepos u-na{} - -", tag));
        self.emit(format!("advance {}", DAY * 1_000_000_000));
        self.emit(format!("tx u2 1 {} {} fm createpos nc{} {} -", lp, b2 / 5, tag, DAY));
        self.emit(format!("advance {}", DAY * 1_000_000_000));
        self.emit("tx u2 0 fm claim -".to_string());
        self.emit("tx u3 0 fm claim -".to_string());
        // … and only NOW a farm appears on that LP token: the stakers who claimed while it was farm-less are paid their full
        // share of every epoch the farm runs (their weight history must have survived those empty claims)
        let cur = self.cur_epoch();
        let rate = 1000 + self.r.below(20_000) as u128;
        let asset = coin(rate * 6, "uusdc");
        let funds = self.farm_fee_funds(&asset);
        self.emit(format!("tx u1 {} fm createfarm {} {} {} uusdc {} nff{}", funds_str(&funds), lp, cur + 1, cur + 7, rate * 6, tag));
        self.emit(format!("advance {}", 2 * DAY * 1_000_000_000));
        self.emit("tx u3 0 fm claim -".to_string());
        self.emit("tx u2 0 fm claim -".to_string());
        self.emit(format!("advance {}", DAY * 1_000_000_000));
        self.emit("tx u3 0 fm claim -".to_string());
    }

    /// directed scenario for C06 / C07: a staker who has ALREADY claimed the current epoch gets a further position through a
    /// locked deposit (the pool manager creates it on the staker's behalf) and claims again in the same epoch and in the next:
    /// the second claim of the same epoch pays nothing, the next pays one epoch — the claim cursor survives the lock
    pub fn op_scenario_lock_after_claim(&mut self) {
        let tag = self.r.below(1000);
        let cf = self.creation_funds();
        self.emit(format!("tx u1 {} pm create cp 0 2 uom 6 uusdc 6 0 0 0 - lc{}", funds_str(&cf), tag));
        let mut d1 = vec![coin(60_000_000, "uom"), coin(60_000_000, "uusdc")]; d1.sort_by(|x, y| x.denom.cmp(&y.denom));
        self.emit(format!("tx u2 {} pm provide o.lc{} - - - - -", funds_str(&d1), tag));
        self.emit(format!("tx u3 {} pm provide o.lc{} - - - - -", funds_str(&d1), tag));
        let lp = format!("factory/pm/o.lc{}.LP", tag);
        let cur = self.cur_epoch();
        let rate = 1000 + self.r.below(50_000) as u128;
        let asset = coin(rate * 8, "uusdt");
        let funds = self.farm_fee_funds(&asset);
        self.emit(format!("tx u1 {} fm createfarm {} {} {} uusdt {} lcf{}", funds_str(&funds), lp, cur + 1, cur + 9, rate * 8, tag));
        let b2 = self.run.h.w.balance("u2", &lp);
        let b3 = self.run.h.w.balance("u3", &lp);
        if b2 < 10 || b3 < 10 { return; }
        self.emit(format!("tx u2 1 {} {} fm createpos la{} {} -", lp, b2 / 3, tag, DAY * 2));
        self.emit(format!("tx u3 1 {} {} fm createpos lb{} {} -", lp, b3 / 2, tag, DAY * 5));
        let adv = (2 + self.r.below(2)) * DAY * 1_000_000_000;
        self.emit(format!("advance {}", adv));
        self.emit("tx u2 0 fm claim -".to_string());
        // the locked deposit: a new position for u2, created by the pool manager
        let mut d2 = vec![coin(3_000_000, "uom"), coin(3_000_000, "uusdc")]; d2.sort_by(|x, y| x.denom.cmp(&y.denom));
        let lockid = if self.r.chance(1, 2) { "-".to_string() } else { format!("lx{}", tag) };
        self.emit(format!("tx u2 {} pm provide o.lc{} - - - {} {}", funds_str(&d2), tag, DAY * 3, lockid));
        self.emit("tx u2 0 fm claim -".to_string());
        self.emit(format!("advance {}", DAY * 1_000_000_000));
        self.emit("tx u2 0 fm claim -".to_string());
        self.emit("tx u3 0 fm claim -".to_string());
    }

    /// directed scenario for C10 / C08: one user is given MORE than ten open positions through locked deposits of the pool
    /// manager, across two LP tokens (the limit of open positions per receiver must hold on that path too); then positions are
    /// closed — a user with an open position in an LP token keeps a weight history for it
    pub fn op_scenario_many_positions_on_behalf(&mut self) {
        let tag = self.r.below(1000);
        // two funded constant-product pools of its own (self-sufficient)
        let cf = self.creation_funds();
        self.emit(format!("tx u1 {} pm create cp 0 2 uom 6 uusdc 6 0 0 0 - mp{}a", funds_str(&cf), tag));
        self.emit(format!("tx u1 {} pm create cp 0 2 uluna 6 uusdt 6 0 0 0 - mp{}b", funds_str(&cf), tag));
        let mut d1 = vec![coin(50_000_000, "uom"), coin(50_000_000, "uusdc")]; d1.sort_by(|x, y| x.denom.cmp(&y.denom));
        let mut d2 = vec![coin(50_000_000, "uluna"), coin(50_000_000, "uusdt")]; d2.sort_by(|x, y| x.denom.cmp(&y.denom));
        self.emit(format!("tx u2 {} pm provide o.mp{}a - - - - -", funds_str(&d1), tag));
        self.emit(format!("tx u2 {} pm provide o.mp{}b - - - - -", funds_str(&d2), tag));
        let pools = self.pools();
        let (Some(pa), Some(pb)) = (pools.iter().find(|p| p.pool_info.pool_identifier == format!("o.mp{}a", tag)).map(|p| p.pool_info.clone()),
            pools.iter().find(|p| p.pool_info.pool_identifier == format!("o.mp{}b", tag)).map(|p| p.pool_info.clone())) else { return };
        if pa.assets.iter().any(|a| a.amount.is_zero()) || pb.assets.iter().any(|a| a.amount.is_zero()) { return; }
        let user = ["u3", "u4", "u1"][self.r.below(3) as usize];
        let dep = |pi: &mantra_dex_std::pool_manager::PoolInfo| -> Vec<Coin> {
            let mut f: Vec<Coin> = pi.assets.iter().map(|a| coin(a.amount.u128() / 2000 + 1, a.denom.clone())).collect();
            f.sort_by(|x, y| x.denom.cmp(&y.denom)); f
        };
        for i in 0..10u64 {
            self.emit(format!("tx {} {} pm provide {} - - - {} a{}x{}", user, funds_str(&dep(&pa)), pa.pool_identifier, DAY * 2, tag, i));
        }
        for i in 0..2u64 {
            self.emit(format!("tx {} {} pm provide {} - - - {} b{}x{}", user, funds_str(&dep(&pb)), pb.pool_identifier, DAY * 2, tag, i));
        }
        self.emit(format!("tx {} 0 fm claim -", user));
        self.emit(format!("tx {} 0 fm closepos u-b{}x0 - -", user, tag));
        self.emit(format!("tx {} 0 fm closepos u-a{}x0 - -", user, tag));
        self.emit(format!("advance {}", DAY * 1_000_000_000));
        self.emit(format!("tx {} 0 fm closepos u-b{}x1 - -", user, tag));
    }

    /// directed scenario for C06 / C10: amounts near the top of u128.  The chain mints one account a huge balance; it funds a
    /// pool of its own, hands a third of the LP tokens to a second account, and both lock about 1.4·10^37 LP for the longest
    /// duration (weight 16x): the second lock would push the total weight beyond u128 — it must be REFUSED (a total capped at
    /// u128 would be smaller than the users' weights and every epoch would pay out more than it emits); a third, small lock
    /// and the claims of the following epochs must work as usual
    pub fn op_scenario_whale_weights(&mut self) {
        let tag = self.r.below(1000);
        let big: u128 = u128::MAX / 8;
        self.emit(format!("mint u4 {}", funds_str(&{ let mut v = vec![coin(big, "uom"), coin(big, "uusdc")]; v.sort_by(|a, b| a.denom.cmp(&b.denom)); v })));
        let cf = self.creation_funds();
        self.emit(format!("tx u4 {} pm create cp 0 2 uom 6 uusdc 6 0 0 0 - wh{}", funds_str(&cf), tag));
        let mut d = vec![coin(big, "uom"), coin(big, "uusdc")]; d.sort_by(|x, y| x.denom.cmp(&y.denom));
        self.emit(format!("tx u4 {} pm provide o.wh{} - - - - -", funds_str(&d), tag));
        let lp = format!("factory/pm/o.wh{}.LP", tag);
        let have = self.run.h.w.balance("u4", &lp);
        if have < 1_000_000 { return; }
        let third = have / 3;
        self.emit(format!("send u4 u1 1 {} {}", lp, third));
        let small = 1_000_000 + self.r.below(1_000_000);
        self.emit(format!("send u4 u3 1 {} {}", lp, small));
        let cfg: mantra_dex_std::farm_manager::Config = self.run.h.w.app.wrap()
            .query_wasm_smart(self.run.h.w.a("fm"), &mantra_dex_std::farm_manager::QueryMsg::Config {}).unwrap();
        let dur = cfg.max_unlocking_duration;
        // a farm on that LP token, paying from the next epoch on
        let cur = self.cur_epoch();
        let aa = 10_000 + self.r.below(1_000_000) as u128;
        let asset = coin(aa, "uusdt");
        let funds = self.farm_fee_funds(&asset);
        self.emit(format!("tx u2 {} fm createfarm {} {} {} uusdt {} whf{}", funds_str(&funds), lp, cur + 1, cur + 6, aa, tag));
        self.emit(format!("tx u4 1 {} {} fm createpos wa{} {} -", lp, third, tag, dur));
        self.emit(format!("tx u1 1 {} {} fm createpos wb{} {} -", lp, third, tag, dur));
        // (if that was refused: a lock that still fits)
        self.emit(format!("tx u1 1 {} {} fm createpos wc{} {} -", lp, third / 1000, tag, DAY));
        self.emit(format!("tx u3 1 {} {} fm createpos wd{} {} -", lp, 1_000_000, tag, dur));
        // topping the first position up beyond the limit
        self.emit(format!("tx u4 1 {} {} fm expandpos u-wa{}", lp, third / 2, tag));
        for _ in 0..3 {
            self.emit(format!("advance {}", DAY * 1_000_000_000));
            for u in ["u4", "u1", "u3"] { self.emit(format!("tx {} 0 fm claim -", u)); }
        }
        self.emit(format!("tx u4 0 fm closepos u-wa{} - -", tag));
        self.emit(format!("tx u1 0 fm claim -"));
    }

    /// directed scenario for C20: the epoch manager stops answering (its owner moves the genesis into the future); an expired or
    /// live farm is then closed by hand — under fault enumeration also with the refund transfer failing: the tolerated failure must
    /// still neither block the close nor touch anything else.  LAST scenario of a history (no epoch exists afterwards)
    pub fn op_scenario_close_farm_without_epochs(&mut self) {
        if self.farms().is_empty() { self.op_create_farm(); }
        let fs = self.farms();
        let Some(f) = fs.first().cloned() else { return };
        let own = self.run.h.ownership("em");
        let owner = own.split('/').next().unwrap_or("owner").to_string();
        let now_s = self.run.h.w.now_ns() / 1_000_000_000;
        self.emit(format!("tx {} 0 em config 86400 {}", owner, now_s + 40 * DAY));
        let fowner = self.run.h.w.n(f.owner.as_str());
        self.emit(format!("tx {} 0 fm closefarm {}", fowner, f.identifier));
    }

    /// directed scenario for C06 / C07: a user who already has a claim cursor (from another LP token) enters a SECOND LP
    /// token late — epochs after a farm on it started paying other stakers — and claims only a few epochs later: the
    /// epochs between the cursor and the entry must not be paid (the weight took effect the epoch after the entry)
    pub fn op_scenario_late_entry_second_lp(&mut self) {
        let lps: Vec<String> = self.run.h.lps.clone();
        let held: Vec<String> = lps.iter().filter(|l| !self.lp_holders(l).is_empty()).cloned().collect();
        if held.len() < 2 { return self.op_provide(); }
        // lp_x: the token entered late; lp_o: the token the cursor comes from
        let (lp_o, lp_x) = if self.r.chance(1, 2) { (held[0].clone(), held[1].clone()) } else { (held[1].clone(), held[0].clone()) };
        let hx = self.lp_holders(&lp_x);
        let carol = hx[0];
        // bob: somebody holding lp_o (is sent some lp_x if needed) and different from carol
        let Some(bob) = self.lp_holders(&lp_o).into_iter().find(|u| *u != carol) else { return self.op_provide() };
        if self.run.h.w.balance(bob, &lp_x) <= 10 {
            let amt = self.run.h.w.balance(carol, &lp_x) / 3 + 1;
            self.emit(format!("send {} {} 1 {} {}", carol, bob, lp_x, amt));
        }
        if self.run.h.w.balance(bob, &lp_x) <= 10 || self.run.h.w.balance(carol, &lp_x) <= 10 { return self.op_provide(); }
        let tag = self.r.below(10_000);
        let cur = self.cur_epoch();
        let aa = 10_000 * (1 + self.r.below(50) as u128);
        let asset = coin(aa, "uusdc");
        let funds = self.farm_fee_funds(&asset);
        self.emit(format!("tx u1 {} fm createfarm {} {} {} uusdc {} le{}", funds_str(&funds), lp_x, cur + 2, cur + 12, aa, tag));
        let (bc, bo) = (self.run.h.w.balance(carol, &lp_x), self.run.h.w.balance(bob, &lp_o));
        self.emit(format!("tx {} 1 {} {} fm createpos lec{} {} -", carol, lp_x, bc / 7 + 1, tag, DAY));
        self.emit(format!("tx {} 1 {} {} fm createpos leo{} {} -", bob, lp_o, bo / 7 + 1, tag, DAY));
        self.emit(format!("advance {}", DAY * 1_000_000_000));
        self.emit(format!("tx {} 0 fm claim -", bob));                     // bob's cursor: epoch cur + 1
        let gap1 = 2 + self.r.below(3);
        self.emit(format!("advance {}", gap1 * DAY * 1_000_000_000));
        let bx = self.run.h.w.balance(bob, &lp_x);
        self.emit(format!("tx {} 1 {} {} fm createpos lex{} {} -", bob, lp_x, bx / 3 + 1, tag, DAY));   // late entry
        let gap2 = 1 + self.r.below(3);
        self.emit(format!("advance {}", gap2 * DAY * 1_000_000_000));
        self.emit(format!("tx {} 0 fm claim -", bob));
        self.emit(format!("tx {} 0 fm claim -", carol));
        self.emit(format!("advance {}", 9 * DAY * 1_000_000_000));
        self.emit(format!("tx {} 0 fm claim -", carol));
        self.emit(format!("tx {} 0 fm claim -", bob));
    }

    /// directed scenario for C11 / C20: a farm with an explicit identifier and a reward that does NOT divide evenly over its
    /// epochs; the owner tries to expand it exactly in its end epoch and one epoch before ("only before it ends"); the farm
    /// then expires with an unclaimed remainder, and somebody creates a farm with the SAME identifier on the same LP token —
    /// the expired farm is closed and refunded by that creation (under fault enumeration: also with the refund failing),
    /// and the new farm must exist afterwards
    pub fn op_scenario_farm_end_and_recreate(&mut self) {
        let Some(lp) = self.some_lp() else { return self.op_provide() };
        let real = self.run.h.w.rd(&lp);
        let cfg: mantra_dex_std::farm_manager::Config = self.run.h.w.app.wrap()
            .query_wasm_smart(self.run.h.w.a("fm"), &mantra_dex_std::farm_manager::QueryMsg::Config {}).unwrap();
        if self.farms().iter().filter(|f| f.lp_denom == real).count() as u32 >= cfg.max_concurrent_farms { return self.op_advance(); }
        let tag = self.r.below(10_000);
        let cur = self.cur_epoch();
        let epochs = 3 + self.r.below(4);
        let rate = 200 + self.r.below(800) as u128;
        let dust = 1 + self.r.below((rate - 1).min(150) as u64) as u128;
        let aa = (rate * epochs as u128 + dust).max(1000);
        let ad = ["uusdc", "uom", "udai"][self.r.below(3) as usize];
        let asset = coin(aa, ad);
        let funds = self.farm_fee_funds(&asset);
        let owner = ["u2", "u3", "u1"][self.r.below(3) as usize];
        self.emit(format!("tx {} {} fm createfarm {} {} {} {} {} er{}", owner, funds_str(&funds), lp, cur + 1, cur + 1 + epochs, ad, aa, tag));
        let Some(f) = self.farms().into_iter().find(|f| f.identifier == format!("m-er{}", tag)) else { return };
        let r = f.emission_rate.u128().max(1);
        // one epoch before the end: an expansion is fine; in the end epoch: refused
        let to_before_end = f.preliminary_end_epoch.saturating_sub(1).saturating_sub(cur);
        if to_before_end > 0 { self.emit(format!("advance {}", to_before_end * DAY * 1_000_000_000)); }
        if self.r.chance(1, 2) {
            self.emit(format!("tx {} {} fm expandfarm {} - - {} {} {}", owner, funds_str(&[coin(r, ad)]), lp, ad, r, f.identifier));
        }
        let Some(f) = self.farms().into_iter().find(|f| f.identifier == format!("m-er{}", tag)) else { return };
        let cur2 = self.cur_epoch();
        if f.preliminary_end_epoch > cur2 { self.emit(format!("advance {}", (f.preliminary_end_epoch - cur2) * DAY * 1_000_000_000)); }
        self.emit(format!("tx {} {} fm expandfarm {} - - {} {} {}", owner, funds_str(&[coin(r * 2, ad)]), lp, ad, r * 2, f.identifier));
        // past the expiry, then the same identifier again on the same LP token, by somebody else
        let Some(f) = self.farms().into_iter().find(|f| f.identifier == format!("m-er{}", tag)) else { return };
        let cur3 = self.cur_epoch();
        let wait = (f.preliminary_end_epoch + 2).saturating_sub(cur3) * DAY + cfg.farm_expiration_time + DAY;
        self.emit(format!("advance {}", wait * 1_000_000_000));
        let cur4 = self.cur_epoch();
        let aa2 = 5000 + self.r.below(100_000) as u128;
        let ad2 = if self.r.chance(1, 2) { ad } else { "uusdt" };
        let funds2 = self.farm_fee_funds(&coin(aa2, ad2));
        let other = ["u4", "owner", "u1"].into_iter().find(|x| *x != owner).unwrap();
        self.emit(format!("tx {} {} fm createfarm {} {} {} {} {} er{}", other, funds_str(&funds2), lp, cur4 + 1, cur4 + 5, ad2, aa2, tag));
    }

    /// directed scenario for C16: the owner waives the pool creation fee IN THE DENOM THE TOKEN FACTORY CHARGES IN, while the
    /// pool manager holds reserves of that denom; then pools are created with nothing / one unit too little / one unit too
    /// much / exactly the factory fee attached — only the last is acceptable, and nothing may come out of the reserves
    pub fn op_scenario_waived_creation_fee(&mut self) {
        let Some(tf) = self.run.h.w.cfg.tf_fees.first().cloned() else { return self.op_create_pool() };
        let d = tf.denom.clone();
        let other = if d == "uusdc" { "uusdt" } else { "uusdc" };
        let tag = self.r.below(1000);
        // a funded pool holding the factory-fee denom
        let funds0 = self.creation_funds();
        self.emit(format!("tx u1 {} pm create cp 0 2 {} 6 {} 6 0 0 0 - wf{}", funds_str(&funds0), d, other, tag));
        let mut dep = vec![coin(5_000_000, d.clone()), coin(5_000_000, other)]; dep.sort_by(|a, b| a.denom.cmp(&b.denom));
        self.emit(format!("tx u2 {} pm provide o.wf{} - - - - -", funds_str(&dep), tag));
        // the current owner waives the fee — or sets a small one — in the factory's first fee denom
        let own = self.run.h.ownership("pm");
        let owner = own.split('/').next().unwrap_or("owner").to_string();
        let fee_amt = if self.r.chance(1, 2) { 0 } else { 250 };
        self.emit(format!("tx {} 0 pm config - - {} {} - - - -", owner, d, fee_amt));
        // the pool manager should also hold the factory's OTHER fee denoms (so that a fee taken from its balance would succeed)
        for c in self.run.h.w.cfg.tf_fees.clone().iter().skip(1) {
            self.emit(format!("send u3 pm 1 {} {}", c.denom, c.amount.u128() * 5));
        }
        let exact = self.creation_funds();
        let mut k = 0;
        for variant in 0..5u64 {
            let mut f = exact.clone();
            match variant {
                4 => f.retain(|c| c.denom == d),          // only the coins of the first fee denom: the later factory fees are missing
                0 => f.clear(),
                1 => { if let Some(c) = f.iter_mut().find(|c| c.denom == d) { c.amount = c.amount.saturating_sub(cosmwasm_std::Uint128::one()); } }
                2 => { if let Some(c) = f.iter_mut().find(|c| c.denom == d) { c.amount += cosmwasm_std::Uint128::one(); } }
                _ => {}
            }
            f.retain(|c| !c.amount.is_zero());
            k += 1;
            let sender = SENDERS[self.r.below(4) as usize];
            self.emit(format!("tx {} {} pm create cp 0 2 uluna 6 udai 6 0 0 0 - wv{}x{}", sender, funds_str(&f), tag, k));
        }
    }

    /// directed scenario for C17: withdrawals (or deposits) are switched off on ONE funded pool; a holder then tries to redeem that
    /// pool's LP token naming a SIBLING pool (whose switches are on), redeems the sibling's own LP, and tries the direct path
    pub fn op_scenario_disabled_withdraw_sibling(&mut self) {
        let pools = self.pools();
        let live: Vec<_> = pools.iter().filter(|p| !p.total_share.amount.is_zero()).collect();
        if live.len() < 2 { return self.op_provide(); }
        let a = live[self.r.below(live.len() as u64) as usize].clone();
        let Some(b) = live.iter().find(|q| q.pool_info.pool_identifier != a.pool_info.pool_identifier).map(|q| (*q).clone()) else { return };
        let lp_a = self.run.h.w.cd(&a.pool_info.lp_denom);
        let holders: Vec<&str> = ["u1", "u2", "u3", "u4", "owner", "out"].into_iter().filter(|u| self.run.h.w.balance(u, &lp_a) > 1).collect();
        let Some(holder) = holders.first().copied() else { return self.op_provide() };
        let own = self.run.h.ownership("pm");
        let owner = own.split('/').next().unwrap_or("owner").to_string();
        self.emit(format!("tx {} 0 pm config - - - - {} - - false", owner, a.pool_info.pool_identifier));
        let bal = self.run.h.w.balance(holder, &lp_a);
        let amt = bal / 3 + 1;
        self.emit(format!("tx {} {} pm withdraw {}", holder, funds_str(&[coin(amt, lp_a.clone())]), b.pool_info.pool_identifier));
        self.emit(format!("tx {} {} pm withdraw {}", holder, funds_str(&[coin(amt, lp_a.clone())]), a.pool_info.pool_identifier));
        if self.r.chance(1, 2) {
            self.emit(format!("tx {} 0 pm config - - - - {} - - true", owner, a.pool_info.pool_identifier));
            self.emit(format!("tx {} {} pm withdraw {}", holder, funds_str(&[coin(amt, lp_a)]), a.pool_info.pool_identifier));
        }
    }

    /// directed scenario for C12 / C04: two constant-product pools on the SAME pair at different prices, then a route that
    /// goes out through one and comes back through the other (each pool visited once): the amount received must be the
    /// SimulateSwapOperations answer, and nothing but the final output may reach the receiver
    pub fn op_scenario_twin_pools_cycle(&mut self) {
        let tag = self.r.below(1000);
        let pairs = [("uom", "uusdc"), ("uluna", "uusdt"), ("udai", "uom"), ("uusdc", "uusdt")];
        let (a, b) = pairs[self.r.below(4) as usize];
        let mut funds = self.creation_funds();
        funds.sort_by(|x, y| x.denom.cmp(&y.denom));
        let fees = ["1000000000000000 2000000000000000 0 -", "0 0 0 -", "3000000000000000 1000000000000000 1000000000000000 1000000000000000"];
        let (f1, f2) = (fees[self.r.below(3) as usize], fees[self.r.below(3) as usize]);
        self.emit(format!("tx u1 {} pm create cp 0 2 {} 6 {} 6 {} tw{}a", funds_str(&funds), a, b, f1, tag));
        self.emit(format!("tx u1 {} pm create cp 0 2 {} 6 {} 6 {} tw{}b", funds_str(&funds), a, b, f2, tag));
        let x = 1_000_000 * (1 + self.r.below(1000) as u128);
        let mut d1 = vec![coin(x, a), coin(x, b)]; d1.sort_by(|p, q| p.denom.cmp(&q.denom));
        let mut d2 = vec![coin(x, a), coin(x * (2 + self.r.below(3) as u128), b)]; d2.sort_by(|p, q| p.denom.cmp(&q.denom));
        self.emit(format!("tx u2 {} pm provide o.tw{}a - - - - -", funds_str(&d1), tag));
        self.emit(format!("tx u3 {} pm provide o.tw{}b - - - - -", funds_str(&d2), tag));
        let amt = x / [1000u128, 100, 20][self.r.below(3) as usize] + 1;
        let (first, second) = if self.r.chance(1, 2) { ("a", "b") } else { ("b", "a") };
        let sq = format!("2 {} {} o.tw{}{} {} {} o.tw{}{}", a, b, tag, first, b, a, tag, second);
        self.q(format!("q simops {} {}", amt, sq));
        let sender = SENDERS[self.r.below(4) as usize];
        self.emit(format!("tx {} {} pm route {} - - 500000000000000000", sender, funds_str(&[coin(amt, a)]), sq));
        // three hops ending in the start denom as well: out, back, out again (A->B, B->A, A->B)
        if self.r.chance(1, 2) {
            let sq3 = format!("3 {} {} o.tw{}{} {} {} o.tw{}{} {} {} o.tw{}{}", a, b, tag, first, b, a, tag, second, a, b, tag, first);
            self.q(format!("q simops {} {}", amt, sq3));
            self.emit(format!("tx {} {} pm route {} - - 500000000000000000", sender, funds_str(&[coin(amt, a)]), sq3));
        }
    }

    /// directed scenario for C11 / C09: move the clock to the instant a farm expires (end of its last
    /// epoch + expiration time), one second / one epoch around it, then run an operation that consults
    /// `is_farm_expired` (farm creation on the same LP token = automatic close; expand; emergency exit)
    pub fn op_scenario_farm_expiry_boundary(&mut self) {
        let fs = self.farms();
        if fs.is_empty() { return self.op_create_farm(); }
        let f = fs[self.r.below(fs.len() as u64) as usize].clone();
        let cfg: mantra_dex_std::farm_manager::Config = self.run.h.w.app.wrap()
            .query_wasm_smart(self.run.h.w.a("fm"), &mantra_dex_std::farm_manager::QueryMsg::Config {}).unwrap();
        let start_of = |this: &Self, id: u64| -> Option<u64> {
            let r: Result<mantra_dex_std::epoch_manager::EpochResponse, _> = this.run.h.w.app.wrap()
                .query_wasm_smart(this.run.h.w.a("em"), &mantra_dex_std::epoch_manager::QueryMsg::Epoch { id });
            r.ok().map(|e| e.epoch.start_time.nanos())
        };
        // candidates: (end or end+1) start + expiration, then -1s / exact / +1s
        let which = f.preliminary_end_epoch + self.r.below(2);
        let Some(base) = start_of(self, which) else { return };
        let target = base + cfg.farm_expiration_time * 1_000_000_000;
        let target = match self.r.below(3) { 0 => target.saturating_sub(1_000_000_000), 1 => target, _ => target + 1_000_000_000 };
        let now = self.run.h.w.now_ns();
        if target > now { self.emit(format!("advance {}", target - now)); }
        let lp = self.run.h.w.cd(&f.lp_denom);
        match self.r.below(4) {
            3 => {
                // somebody who is neither the farm's owner nor the contract owner tries to close it around its expiry
                let owner = self.run.h.w.n(f.owner.as_str());
                let stranger = ["u1", "u2", "u3", "u4", "out"].into_iter().find(|x| *x != owner).unwrap();
                self.emit(format!("tx {} 0 fm closefarm {}", stranger, f.identifier));
            }
            0 | 1 => {
                let cur = self.cur_epoch();
                let aa = 2000 + self.r.below(100_000) as u128;
                let asset = coin(aa, "uusdc");
                let funds = self.farm_fee_funds(&asset);
                let sender = pick_user(self.r);
                let tag = self.r.below(10_000);
                // the new farm: on the same LP token under a fresh identifier (the expired farm is swept), or — every other
                // time — under the expired farm's OWN explicit identifier, on the same or on ANOTHER LP token (where the
                // expired farm is not swept: the identifier is still taken and the creation must be refused)
                let (lp2, ident) = if self.r.chance(1, 2) && f.identifier.starts_with("m-") {
                    let others: Vec<String> = self.run.h.lps.iter().filter(|l| **l != lp).cloned().collect();
                    let lp2 = if !others.is_empty() && self.r.chance(2, 3) { others[self.r.below(others.len() as u64) as usize].clone() } else { lp.clone() };
                    (lp2, f.identifier[2..].to_string())
                } else { (lp.clone(), format!("x{}", tag)) };
                self.emit(format!("tx {} {} fm createfarm {} {} {} uusdc {} {}", sender, funds_str(&funds), lp2, cur + 1, cur + 5, aa, ident));
            }
            _ => {
                let owner = self.run.h.w.n(f.owner.as_str());
                let rate = f.emission_rate.u128().max(1);
                let ad = self.run.h.w.cd(&f.farm_asset.denom);
                self.emit(format!("tx {} {} fm expandfarm {} - - {} {} {}", owner, funds_str(&[coin(rate, ad.clone())]), lp, ad, rate, f.identifier));
            }
        }
    }

    pub fn op_fm_config(&mut self) {
        let sender = if self.r.chance(5, 6) { "owner" } else { pick_user(self.r) };
        let mut f: Vec<String> = vec!["-".into(); 11];
        // the three addresses of the configuration: fee collector (any account), epoch manager / pool manager (re-set to
        // themselves, or to something invalid — refused)
        if self.r.chance(1, 6) {
            match self.r.below(6) {
                0 | 1 => { f[0] = ["u4", "u3", "fc"][self.r.below(3) as usize].into(); }
                2 => { f[0] = "bogus".into(); }
                3 => { f[1] = "em".into(); }
                4 => { f[2] = "pm".into(); }
                _ => { f[1 + self.r.below(2) as usize] = "bogus".into(); }
            }
            self.emit(format!("tx {} 0 fm config {}", sender, f.join(" ")));
            return;
        }
        match self.r.below(8) {
            0 => { f[3] = "uom".into(); f[4] = "0".into(); }
            1 => { f[3] = "uusd".into(); f[4] = "500".into(); }
            2 => { f[3] = "uusd".into(); f[4] = "0".into(); }
            3 => { f[5] = (1 + self.r.below(4)).to_string(); }
            4 => { f[10] = ["0", "100000000000000000", "1000000000000000000", "1000000000000000001", "500000000000000000"][self.r.below(5) as usize].into(); }
            5 => match self.r.below(4) {
                0 => { f[7] = (DAY * 400).to_string(); }                                   // minimum above the maximum
                1 => { f[8] = (DAY - 1).to_string(); }                                     // maximum below the minimum
                2 => { f[7] = (DAY * 2).to_string(); f[8] = DAY.to_string(); }             // both, inverted
                _ => { f[7] = (DAY * (1 + self.r.below(3))).to_string(); }
            },
            // a VALID change of the bounds while positions exist: the maximum lowered (below the duration of positions opened
            // earlier), or the minimum raised above them — the positions keep their own recorded duration
            7 if self.r.chance(1, 2) => { if self.r.chance(2, 3) { f[8] = (DAY * (1 + self.r.below(60))).to_string(); } else { f[7] = (DAY * (2 + self.r.below(20))).to_string(); f[8] = (DAY * 365).to_string(); } }
            6 => { f[9] = (2_629_746 + self.r.below(10) - 5).to_string(); }
            _ => { f[6] = self.r.below(30).to_string(); }
        }
        self.emit(format!("tx {} 0 fm config {}", sender, f.join(" ")));
    }
}

pub fn gen_cfg(r: &mut Rng) -> WorldCfg {
    let mut c = WorldCfg::default();
    match r.below(5) {
        0 => { c.tf_fees = vec![coin(1000, "uusd")]; }                       // same denom as the pool creation fee
        1 => { c.tf_fees = vec![coin(1000, "uom"), coin(5, "uluna")]; }
        2 => { c.pool_creation_fee = coin(0, "uusd"); }
        // creation fee waived in the very denom the token factory charges in (exactly the factory fee is due then)
        3 if r.chance(1, 2) => { c.pool_creation_fee = coin(0, "uom"); }
        _ => {}
    }
    match r.below(5) {
        0 => { c.farm_fee = coin(0, "uom"); }
        1 => { c.farm_fee = coin(0, "uusd"); }
        2 => { c.farm_fee = coin(1000, "uusd"); }
        _ => {}
    }
    c.max_concurrent_farms = 1 + r.below(4) as u32;
    c.emergency_penalty = Decimal::percent([0, 2, 10, 50, 100][r.below(5) as usize]);
    c
}

/// pool-manager centred history
pub fn gen_pm_case(r: &mut Rng, id: u64, len: u64, faults: bool, o: &mut Out) {
    let cfg = gen_cfg(r);
    let mut run = crate::streams::hist::Runner::new(cfg);
    o.raw(&format!("begin {}", id));
    let il = run.h.init_line();
    o.line(&il, "ok");
    run.first_snap(o);
    let mut g = Gen { faults, run, r, o, ops: 0 };
    // a couple of pools first
    g.op_create_pool();
    g.op_create_pool();
    if id % 3 == 0 {
        // directed, in rotation whatever the seed: several funded pools, then a route with one hop switched off /
        // everybody leaves a constant-product pool and somebody deposits again
        for _ in 0..2 { g.op_create_pool(); }
        for _ in 0..6 { g.op_provide(); }
        match (id / 3) % 12 { 11 => g.op_scenario_tf_queries_off(), 10 => g.op_scenario_long_pause(), 9 => g.op_scenario_collector_swaps(), 8 => g.op_scenario_substring_pool_ids(), 7 => g.op_scenario_revisit_min_receive(), 0 => g.op_scenario_disabled_route(), 1 => g.op_scenario_full_exit_redeposit(), 2 => g.op_scenario_twin_pools_cycle(), 3 => g.op_scenario_waived_creation_fee(),
            4 => g.op_scenario_disabled_withdraw_sibling(), 5 => g.op_scenario_broken_route_link(), _ => g.op_scenario_restated_toggle() }
    }
    while g.ops < len {
        match g.r.below(40) {
            0 | 1 => g.op_create_pool(),
            2..=9 => g.op_provide(),
            10..=19 => g.op_swap(),
            20..=23 => g.op_withdraw(),
            24..=27 => g.op_route(),
            28 => match g.r.below(5) { 0 => g.op_scenario_disabled_route(), 1 => g.op_scenario_broken_route_link(), 2 => g.op_scenario_restated_toggle(), 3 => g.op_scenario_revisit_min_receive(), _ => g.op_route() },
            29 | 30 => g.op_pm_config(),
            31 => g.op_own("pm"),
            32 => g.op_donate(),
            33 => if g.r.chance(1, 3) { g.op_scenario_full_exit_redeposit() } else { g.op_advance() },
            34 => g.op_create_position(),
            35 => g.op_withdraw_position(),
            36 | 37 => { g.op_query_misc(); g.ops += 1; }
            _ => g.op_provide(),
        }
    }
    g.o.raw("end");
}

/// farm-manager centred history
pub fn gen_fm_case(r: &mut Rng, id: u64, len: u64, faults: bool, o: &mut Out) {
    // fault enumeration runs the fm cases at odd ids: every one of them starts with a scenario
    let scen: Option<u64> = if faults { Some(id / 2) } else if id % 2 == 0 { Some(id / 2) } else { None };
    let cfg = gen_cfg(r);
    let mut run = crate::streams::hist::Runner::new(cfg);
    o.raw(&format!("begin {}", id));
    let il = run.h.init_line();
    o.line(&il, "ok");
    run.first_snap(o);
    let mut g = Gen { faults, run, r, o, ops: 0 };
    // pools with liquidity held by several users
    g.op_create_pool();
    g.op_create_pool();
    for _ in 0..6 { g.op_provide(); }
    // every second case starts with one directed scenario, in rotation, whatever the seed
    if let Some(k) = scen {
        match k % 23 {
            22 => g.op_scenario_close_out_without_farm(),
            21 => g.op_scenario_lock_after_claim(),
            20 => g.op_scenario_claim_until_past_epoch(),
            19 => g.op_scenario_whale_weights(),
            18 => g.op_scenario_refill_closed_via_pm(),
            17 => g.op_scenario_collector_owns_farm(),
            16 => g.op_scenario_bounds_changed_then_close(),
            15 => g.op_scenario_many_positions_on_behalf(),
            14 => g.op_scenario_emergency_fractional_time(),
            13 => g.op_scenario_long_thin_farm(),
            12 => g.op_scenario_farm_end_and_recreate(),
            11 => g.op_scenario_late_entry_second_lp(),
            10 => g.op_scenario_exhausted_farm_emergency(),
            9 => g.op_scenario_interleaved_positions(),
            8 => g.op_scenario_many_farms(),
            7 => g.op_scenario_expand_long_farm(),
            0 => g.op_scenario_piecewise_close(),
            1 => g.op_scenario_shared_owner_emergency(),
            2 => g.op_scenario_double_autoclose(),
            3 => g.op_scenario_close_after_claim(),
            4 => g.op_scenario_farm_funding(),
            5 => { g.op_create_farm(); g.op_scenario_farm_expiry_boundary() }
            _ => { g.op_scenario_shared_owner_emergency(); g.op_scenario_farm_expiry_boundary() }
        }
    } else if g.r.chance(1, 4) { g.op_scenario_piecewise_close(); }
    while g.ops < len {
        match g.r.below(45) {
            0 => g.op_create_pool(),
            1 | 2 | 3 => g.op_provide(),
            4 | 5 => g.op_swap(),
            6..=11 => g.op_create_position(),
            12..=14 => g.op_expand_position(),
            15..=17 => g.op_close_position(),
            18..=20 => g.op_withdraw_position(),
            21..=26 => g.op_claim(),
            27..=30 => g.op_create_farm(),
            31 | 32 => g.op_expand_farm(),
            33 => g.op_close_farm(),
            34 => g.op_fm_config(),
            35 => g.op_own("fm"),
            36 => g.op_donate(),
            37 => g.op_scenario_shared_owner_emergency(),
            38 => g.op_scenario_farm_expiry_boundary(),
            39 => if g.r.chance(1, 3) { g.op_scenario_double_autoclose() } else { g.op_advance() },
            40 => if g.r.chance(1, 2) { g.op_scenario_piecewise_close() } else { g.op_advance() },
            41 => match g.r.below(4) { 0 | 1 => g.op_scenario_close_after_claim(), 2 => g.op_scenario_many_farms(), _ => g.op_advance() },
            42 | 43 => { g.op_query_misc(); g.ops += 1; }
            44 => match g.r.below(6) { 0 => g.op_scenario_interleaved_positions(), 1 => g.op_scenario_exhausted_farm_emergency(), 2 => g.op_scenario_late_entry_second_lp(),
                3 => g.op_scenario_farm_end_and_recreate(), _ => { g.op_query_misc(); g.ops += 1; } },
            _ => g.op_advance(),
        }
    }
    // the very last thing in some histories: the epoch manager stops answering and a farm is closed by hand (C20)
    if (faults && (id / 2) % 3 == 0) || (!faults && id % 8 == 5) { g.op_scenario_close_farm_without_epochs(); }
    g.o.raw("end");
}

pub fn run(kind: &str, seed: u64, cases: u64, replay: Option<&str>, o: &mut Out) {
    if let Some(p) = replay {
        let lines: Vec<String> = std::fs::read_to_string(p).unwrap_or_default().lines()
            .map(|l| l.split(" => ").next().unwrap().trim().to_string())
            .filter(|l| !l.is_empty() && !l.starts_with('#')).collect();
        crate::streams::hist::run_case_lines(&lines, o);
        return;
    }
    let mut r = Rng::new(seed ^ match kind { "pm_hist" => 0x9A11, "fm_hist" => 0xFA55, _ => 0xFA17 });
    for i in 0..cases {
        let mut cr = r.fork();
        let len = 15 + cr.below(30);
        match kind {
            "pm_hist" => gen_pm_case(&mut cr, i, len, false, o),
            "fm_hist" => gen_fm_case(&mut cr, i, len, false, o),
            // fault enumeration over both kinds of history
            _ => if i % 2 == 0 { gen_pm_case(&mut cr, i, len / 2, true, o) } else { gen_fm_case(&mut cr, i, len / 2 + 8, true, o) },
        }
    }
}

/// `auth` stream (C15): the complete matrix ownership state × contract × privileged variant ×
/// sender role × with/without funds, each on a fresh deployment.
pub fn run_auth(o: &mut Out) {
    // (`pending_withdrawn`: the owner proposed u1, then withdrew the proposal the only way cw-ownable offers — by proposing
    //  itself; `pending_replaced`: proposed u1, then u2 instead.  In both u1 is no longer the proposed account.)
    let scenarios = ["initial", "pending", "pending_expired", "transferred", "renounced", "pending_withdrawn", "pending_replaced"];
    let contracts = ["pm", "fm", "em", "fc"];
    let senders = ["owner", "u1", "u2", "pm", "fm", "out"];
    let mut id = 0u64;
    for sc in scenarios.iter() {
        for c in contracts.iter() {
            // (`config_empty`: UpdateConfig with every field absent — still a privileged, non-payable message)
            let variants: Vec<&str> = if *c == "fc" { vec!["transfer", "accept", "renounce"] } else { vec!["config", "config_empty", "transfer", "accept", "renounce"] };
            for v in variants.iter() {
                for sender in senders.iter() {
                    for with_funds in [false, true] {
                        let mut run = crate::streams::hist::Runner::new(WorldCfg::default());
                        o.raw(&format!("begin {}", id));
                        id += 1;
                        let il = run.h.init_line();
                        o.line(&il, "ok");
                        run.first_snap(o);
                        let now = run.h.w.now_ns();
                        // bring contract c into the scenario's ownership state
                        match *sc {
                            "pending" => { run.step(&format!("tx owner 0 {} own transfer u1 -", c), o); }
                            "pending_expired" => {
                                run.step(&format!("tx owner 0 {} own transfer u1 {}", c, now + 1000), o);
                                run.step("advance 2000", o);
                            }
                            "transferred" => {
                                run.step(&format!("tx owner 0 {} own transfer u1 -", c), o);
                                run.step(&format!("tx u1 0 {} own accept", c), o);
                            }
                            "renounced" => { run.step(&format!("tx owner 0 {} own renounce", c), o); }
                            "pending_withdrawn" => {
                                run.step(&format!("tx owner 0 {} own transfer u1 -", c), o);
                                run.step(&format!("tx owner 0 {} own transfer owner -", c), o);
                            }
                            "pending_replaced" => {
                                run.step(&format!("tx owner 0 {} own transfer u1 -", c), o);
                                run.step(&format!("tx owner 0 {} own transfer u2 -", c), o);
                            }
                            _ => {}
                        }
                        let funds = if with_funds { "1 uom 1" } else { "0" };
                        let body = match (*c, *v) {
                            ("pm", "config") => "config - - uusd 777 - - - -".to_string(),
                            ("fm", "config") => "config - - - - - - 7 - - - -".to_string(),
                            ("em", "config") => format!("config 172800 {}", now / 1_000_000_000 + 500_000),
                            ("pm", "config_empty") => "config - - - - - - - -".to_string(),
                            ("fm", "config_empty") => "config - - - - - - - - - - -".to_string(),
                            ("em", "config_empty") => "config - -".to_string(),
                            (_, "transfer") => "own transfer u2 -".to_string(),
                            (_, "accept") => "own accept".to_string(),
                            _ => "own renounce".to_string(),
                        };
                        let res = run.step(&format!("tx {} {} {} {}", sender, funds, c, body), o);
                        // roles after the scenario
                        let (owner, pending, expired): (Option<&str>, Option<&str>, bool) = match *sc {
                            "initial" => (Some("owner"), None, false),
                            "pending" => (Some("owner"), Some("u1"), false),
                            "pending_expired" => (Some("owner"), Some("u1"), true),
                            "transferred" => (Some("u1"), None, false),
                            "pending_withdrawn" => (Some("owner"), Some("owner"), false),
                            "pending_replaced" => (Some("owner"), Some("u2"), false),
                            _ => (None, None, false),
                        };
                        let v = if *v == "config_empty" { "config" } else { *v };
                        o.line(&format!("mon_auth {} {} {} {} {} {}", v, (res == "ok") as u8, (owner == Some(*sender)) as u8,
                            (pending == Some(*sender)) as u8, expired as u8, with_funds as u8), "ok");
                        o.raw("end");
                    }
                }
            }
        }
    }
    run_auth_fp(o, id);
}

/// second half of the `auth` stream (C15): farm- and position-level authority.  Fresh deployment with a
/// pool, a farm owned by u1 and a position owned by u2; every (variant, sender role) pair is tried once.
pub fn run_auth_fp(o: &mut Out, first_id: u64) {
    let senders = ["owner", "u1", "u2", "u3", "pm", "fm"];
    let variants = ["expandfarm", "closefarm", "createpos_for", "expandpos", "closepos", "closepart", "withdraw", "emergency"];
    let lp = "factory/pm/o.a1.LP";
    let mut id = first_id;
    for v in variants.iter() {
        for sender in senders.iter() {
            let mut run = crate::streams::hist::Runner::new(WorldCfg::default());
            o.raw(&format!("begin {}", id));
            id += 1;
            let il = run.h.init_line();
            o.line(&il, "ok");
            run.first_snap(o);
            run.step("tx u1 2 uom 1000 uusd 1000 pm create cp 0 2 uom 6 uusd 6 1000000000000000 2000000000000000 0 - a1", o);
            run.step("tx u2 2 uom 5000000 uusd 5000000 pm provide o.a1 - - - - -", o);
            run.step(&format!("tx u2 1 {} 100000 fm createpos p1 86400 -", lp), o);
            run.step(&format!("tx u1 2 uom 1000 uusdc 14000 fm createfarm {} - - uusdc 14000 f1", lp), o);
            let farms = run.h.all_farms();
            let positions = run.h.all_positions();
            if farms.len() != 1 || positions.len() != 1 { o.raw("end"); continue; }
            let fid = farms[0].identifier.clone();
            let pid = positions[0].identifier.clone();
            // the sender gets what the message needs
            if *sender != "u2" && matches!(*v, "createpos_for" | "expandpos") { run.step(&format!("send u2 {} 1 {} 1000", sender, lp), o); }
            if matches!(*sender, "pm" | "fm") && *v == "expandfarm" { run.step(&format!("send u2 {} 1 uusdc 14000", sender), o); }
            if *v == "withdraw" {
                run.step(&format!("tx u2 0 fm closepos {} - -", pid), o);
                run.step("advance 90000000000000", o);
            }
            let line = match *v {
                "expandfarm" => format!("tx {} 1 uusdc 14000 fm expandfarm {} - - uusdc 14000 {}", sender, lp, fid),
                "closefarm" => format!("tx {} 0 fm closefarm {}", sender, fid),
                "createpos_for" => format!("tx {} 1 {} 1000 fm createpos n1 86400 u2", sender, lp),
                "expandpos" => format!("tx {} 1 {} 1000 fm expandpos {}", sender, lp, pid),
                "closepos" => format!("tx {} 0 fm closepos {} - -", sender, pid),
                "closepart" => format!("tx {} 0 fm closepos {} {} 1000", sender, pid, lp),
                "withdraw" => format!("tx {} 0 fm withdrawpos {} -", sender, pid),
                _ => format!("tx {} 0 fm withdrawpos {} true", sender, pid),
            };
            let res = run.step(&line, o);
            o.line(&format!("mon_auth_fp {} {} {} {} {} {}", v, (res == "ok") as u8, (*sender == "owner") as u8, (*sender == "u1") as u8,
                (*sender == "u2") as u8, (*sender == "pm") as u8), "ok");
            o.raw("end");
        }
    }
}

// ------------------------------------------------------------------------------------------------
// twin deployments

fn masked_status(text: &str) -> String {
    // pools[...|fees|SDW|lp|total;...] : blank out the three status bits
    let mut out = String::new();
    for (i, part) in text.split('|').enumerate() {
        if i > 0 { out.push('|'); }
        if part.len() == 3 && part.chars().all(|c| c == '0' || c == '1') { out += "***"; } else { out += part; }
    }
    out
}

/// C14 / C17 twins.  Deployment A is driven by the pm generator; its lines are replayed on B.
pub fn run_twin(seed: u64, cases: u64, o: &mut Out) {
    let mut r0 = Rng::new(seed ^ 0x7717);
    for i in 0..cases {
        let mut r = r0.fork();
        let cfg = gen_cfg(&mut r);
        // ---------------- deployment A: prefix
        let mut run_a = crate::streams::hist::Runner::new(cfg.clone());
        o.raw(&format!("begin {}", 2 * i));
        let il = run_a.h.init_line();
        o.line(&il, "ok");
        run_a.first_snap(o);
        let mut log: Vec<String> = vec![];
        {
            let mut g = Gen { faults: false, run: run_a, r: &mut r, o, ops: 0 };
            // two-asset pools only, so that single-asset deposits apply
            for _ in 0..3 { g.op_create_pool(); }
            for _ in 0..5 { g.op_provide(); }
            for _ in 0..4 { g.op_swap(); }
            run_a = g.run;
        }
        // the lines executed on A so far: re-derive from the position ids is not possible, so the generator
        // above is re-run on B through a recorded log: Runner keeps it
        log.extend(run_a.log.iter().cloned());
        // ---------------- deployment B: same prefix
        let mut run_b = crate::streams::hist::Runner::new(cfg.clone());
        let mut ob = Out::buffer();
        let ilb = run_b.h.init_line();
        ob.line(&ilb, "ok");
        run_b.first_snap(&mut ob);
        for l in log.iter() { run_b.step(l, &mut ob); }
        // pick a funded two-asset pool
        let pools = run_a.h.all_pools();
        let cands: Vec<_> = pools.iter().filter(|p| p.pool_info.assets.len() == 2 && p.pool_info.assets.iter().all(|a| !a.amount.is_zero())).collect();
        let twin_kind = if i % 2 == 0 { "c14" } else { "c17" };
        if cands.is_empty() {
            o.raw("end");
            continue;
        }
        let p = cands[r.below(cands.len() as u64) as usize].pool_info.clone();
        let pid = p.pool_identifier.clone();
        let user = SENDERS[r.below(4) as usize];
        if twin_kind == "c14" {
            let oi = r.below(2) as usize;
            let (od, ad) = (p.assets[oi].denom.clone(), p.assets[1 - oi].denom.clone());
            let res = p.assets[oi].amount.u128();
            let a = (res / [10_000u128, 1000, 100, 20, 10, 5][r.below(6) as usize] + 1 + r.below(2) as u128).max(2);
            let ss = ["-", "-", "500000000000000000", "1000000000000000000", "30000000000000000"][r.below(5) as usize];
            // the deposit leg's own tolerance: absent, or tighter / looser than the pool's fees (the proceeds of the
            // swapped half are short of the pool ratio by the fees, so a tight tolerance refuses the second step)
            // (with NO swap tolerance the internal swap runs under the 1 % default, whatever the deposit tolerance is: a large
            // deposit under a loose deposit tolerance only must be refused exactly when the manual swap is)
            let ls = ["-", "-", "10000000000000000", "50000000000000000", "300000000000000000", "0", "2000000000000000", "500000000000000000", "300000000000000000"][r.below(9) as usize];
            let (unlock, lockid) = match r.below(3) { 0 => ((DAY * (1 + r.below(100))).to_string(), "-".to_string()), 1 => ((DAY * (1 + r.below(100))).to_string(), "tw".to_string()), _ => ("-".into(), "-".into()) };
            // the LP receiver named in both deployments: absent, the depositor itself, or a string that is not a valid address
            // (then the depositor is the receiver — in the single-asset path just as in the two-step path)
            let recv: String = match r.below(6) { 0 => "bogus".into(), 1 => user.to_string(), _ => "-".into() };
            let lp = run_a.h.w.cd(&p.lp_denom);
            // now and then swaps are paused on the pool in BOTH deployments: the depositor's own swap is refused, so must the
            // single-asset deposit be
            if r.chance(1, 7) {
                let line = format!("tx owner 0 pm config - - - - {} false - -", pid);
                run_a.step(&line, o);
                run_b.step(&line, &mut ob);
            }
            // A: single-asset deposit
            let res_a = run_a.step(&format!("tx {} 1 {} {} pm provide {} {} {} {} {} {}", user, od, a, pid, ls, ss, recv, unlock, lockid), o);
            o.raw("end");
            // B: swap half, then deposit half + proceeds
            o.raw(&format!("begin {}", 2 * i + 1));
            // flush B's prefix output into the main stream
            ob.flush_into(o);
            let half = a / 2;
            let ask_before = run_b.h.w.balance(user, &ad);
            let res_b1 = run_b.step(&format!("tx {} 1 {} {} pm swap {} {} - {} -", user, od, half, pid, ad, ss), o);
            // the swap's proceeds = what the swap RETURNED (when the depositor happens to be the configured fee collector its
            // balance also gains the protocol fee, which is not part of the proceeds)
            let proceeds = run_b.h.last_attrs.iter().find(|(k, _)| k == "return_amount").and_then(|(_, v)| v.parse::<u128>().ok())
                .unwrap_or_else(|| run_b.h.w.balance(user, &ad).saturating_sub(ask_before));
            let mut funds = vec![coin(half, od.clone()), coin(proceeds, ad.clone())];
            funds.sort_by(|x, y| x.denom.cmp(&y.denom));
            let res_b2 = if res_b1 == "ok" {
                run_b.step(&format!("tx {} {} pm provide {} {} {} {} {} {}", user, coins_str(&funds), pid, ls, ss, recv, unlock, lockid), o)
            } else { "skip".to_string() };
            let (oa, ob2) = (&run_a.h.last_obs, &run_b.h.last_obs);
            let pa = oa.pools.iter().find(|x| x.pool_info.pool_identifier == pid).unwrap();
            let pb = ob2.pools.iter().find(|x| x.pool_info.pool_identifier == pid).unwrap();
            let g = |ob_: &crate::streams::hist::Obs, who: &str, d: &str| *ob_.bal.get(&(who.to_string(), d.to_string())).unwrap_or(&0);
            let locked = |ob_: &crate::streams::hist::Obs| -> u128 { ob_.positions.iter().filter(|q| q.lp_asset.denom == p.lp_denom).map(|q| q.lp_asset.amount.u128()).sum() };
            // (`C14Conv.two_step_accepted_implies_single_accepted`: "refused where the two-step route is accepted" is judged only
            //  when the pool manager is not its own fee collector and the depositor is not the collector — both shown necessary)
            let coll: String = run_a.h.w.app.wrap().query_wasm_smart::<mantra_dex_std::pool_manager::Config>(run_a.h.w.a("pm"), &mantra_dex_std::pool_manager::QueryMsg::Config {})
                .map(|c| run_a.h.w.n(c.fee_collector_addr.as_str())).unwrap_or("fc".into());
            let judge_refusal = coll != "pm" && coll != user;
            o.line(&format!("mon_twin_c14 {} {} {} {} {} {} {} {} {} {} {} {} {} {} {} {} {} {}",
                (res_a == "ok") as u8, (res_b1 == "ok") as u8, (res_b2 == "ok" && (res_a == "ok" || judge_refusal)) as u8, a % 2,
                pa.pool_info.assets[0].amount, pb.pool_info.assets[0].amount, pa.pool_info.assets[1].amount, pb.pool_info.assets[1].amount,
                pa.total_share.amount, pb.total_share.amount,
                g(oa, user, &lp), g(ob2, user, &lp), locked(oa), locked(ob2),
                g(oa, "fc", &ad), g(ob2, "fc", &ad),
                g(oa, "pm", &od), g(ob2, "pm", &od)), "ok");
            o.raw("end");
        } else {
            // C17: B disables a feature of pool `pid`; both then run an operation that does not need it
            let feature = r.below(3);
            let (s, d, w) = match feature { 0 => ("false", "-", "-"), 1 => ("-", "false", "-"), _ => ("-", "-", "false") };
            // operation on the same pool that needs a *different* feature, or any operation on another pool
            let other: Vec<_> = pools.iter().filter(|q| q.pool_info.pool_identifier != pid && q.pool_info.assets.iter().all(|a| !a.amount.is_zero())).collect();
            let lp = run_a.h.w.cd(&p.lp_denom);
            let bal_lp = run_a.h.w.balance(user, &lp);
            let op_line = match (feature, r.below(3)) {
                (0, 0) | (2, 0) => { // deposit into pid (needs deposits only)
                    let mut f = vec![coin(p.assets[0].amount.u128() / 50 + 1, p.assets[0].denom.clone()), coin(p.assets[1].amount.u128() / 50 + 1, p.assets[1].denom.clone())];
                    f.sort_by(|x, y| x.denom.cmp(&y.denom));
                    // (every optional field of the message may be present: none of them makes a two-sided deposit need another switch)
                    let ls = ["-", "-", "500000000000000000"][r.below(3) as usize];
                    let ss = ["-", "500000000000000000", "10000000000000000"][r.below(3) as usize];
                    format!("tx {} {} pm provide {} {} {} - - -", user, coins_str(&f), pid, ls, ss)
                }
                (1, 0) | (2, 1) => { // swap on pid (needs swaps only)
                    format!("tx {} 1 {} {} pm swap {} {} - 500000000000000000 -", user, p.assets[0].denom, p.assets[0].amount.u128() / 1000 + 1, pid, p.assets[1].denom)
                }
                (0, 1) | (1, 1) if bal_lp > 0 => format!("tx {} 1 {} {} pm withdraw {}", user, lp, bal_lp / 3 + 1, pid),
                _ => {
                    if let Some(q) = other.first() {
                        let qi = &q.pool_info;
                        format!("tx {} 1 {} {} pm swap {} {} - 500000000000000000 -", user, qi.assets[0].denom, qi.assets[0].amount.u128() / 1000 + 1, qi.pool_identifier, qi.assets[1].denom)
                    } else {
                        "advance 1000000000".to_string()
                    }
                }
            };
            let res_a = run_a.step(&op_line, o);
            o.raw("end");
            o.raw(&format!("begin {}", 2 * i + 1));
            ob.flush_into(o);
            run_b.step(&format!("tx owner 0 pm config - - - - {} {} {} {}", pid, s, d, w), o);
            let res_b = run_b.step(&op_line, o);
            let same = masked_status(&run_a.h.last_obs.text) == masked_status(&run_b.h.last_obs.text);
            o.line(&format!("mon_twin_c17 {} {} {}", (res_a == "ok") as u8, (res_b == "ok") as u8, same as u8), "ok");
            // and the switched operation itself is rejected on B
            let blocked_line = match feature {
                0 => format!("tx {} 1 {} {} pm swap {} {} - 500000000000000000 -", user, p.assets[0].denom, p.assets[0].amount.u128() / 1000 + 1, pid, p.assets[1].denom),
                1 => { let mut f = vec![coin(p.assets[0].amount.u128() / 50 + 1, p.assets[0].denom.clone()), coin(p.assets[1].amount.u128() / 50 + 1, p.assets[1].denom.clone())]; f.sort_by(|x, y| x.denom.cmp(&y.denom)); format!("tx {} {} pm provide {} - - - - -", user, coins_str(&f), pid) }
                _ => format!("tx {} 1 {} {} pm withdraw {}", user, lp, (bal_lp / 3).max(1), pid),
            };
            run_b.step(&blocked_line, o);
            // re-enable: behaves as A again
            run_b.step(&format!("tx owner 0 pm config - - - - {} {} {} {}", pid, s.replace("false", "true"), d.replace("false", "true"), w.replace("false", "true")), o);
            o.raw("end");
        }
    }
}

