//! `epoch` stream: epoch-manager instantiate / update_config / CurrentEpoch / Epoch on mock deps.
//! Ops (all integers decimal; `-` = absent):
//!   em_inst <nowNs> <duration> <genesis>                       => ok | err
//!   em_upd  <t0Ns> <dur0> <gen0> <nowNs> <dur|-> <gen|->       => ok <dur> <gen> | err
//!   em_cur  <t0Ns> <dur> <gen> <nowNs>                         => ok <id> <startNs> | err
//!   em_epoch <t0Ns> <dur> <gen> <id>                           => ok <id> <startNs> | err
//! `t0Ns` is the block time at which the contract is instantiated with (dur, gen); cases whose
//! instantiate is rejected print `err` (the model must reject them too).
use cosmwasm_std::testing::{message_info, mock_dependencies, mock_env};
use cosmwasm_std::{from_json, Timestamp, Uint64};
use mantra_dex_std::epoch_manager::{
    ConfigResponse, EpochConfig, EpochResponse, ExecuteMsg, InstantiateMsg, QueryMsg,
};

use crate::rng::Rng;
use crate::{guarded, Out};

const DAY: u64 = 86_400;
const NANOS: u64 = 1_000_000_000;

type Deps = cosmwasm_std::OwnedDeps<
    cosmwasm_std::testing::MockStorage,
    cosmwasm_std::testing::MockApi,
    cosmwasm_std::testing::MockQuerier,
>;

fn inst(t0: u64, dur: u64, gen: u64) -> Result<Deps, String> {
    let mut deps = mock_dependencies();
    let owner = deps.api.addr_make("owner");
    let mut env = mock_env();
    env.block.time = Timestamp::from_nanos(t0);
    let info = message_info(&owner, &[]);
    let msg = InstantiateMsg {
        owner: owner.to_string(),
        epoch_config: EpochConfig { duration: Uint64::new(dur), genesis_epoch: Uint64::new(gen) },
    };
    guarded(|| {
        epoch_manager::contract::instantiate(deps.as_mut(), env, info, msg).map_err(|e| e.to_string())
    })?;
    Ok(deps)
}

fn opt(s: &str) -> Option<u64> {
    if s == "-" { None } else { Some(s.parse().unwrap()) }
}

pub fn exec_line(line: &str) -> String {
    let t: Vec<&str> = line.split_whitespace().collect();
    let n = |i: usize| -> u64 { t[i].parse().unwrap() };
    let res: Result<String, String> = match t[0] {
        "em_inst" => inst(n(1), n(2), n(3)).map(|_| "ok".to_string()),
        "em_upd" => inst(n(1), n(2), n(3)).and_then(|mut deps| {
            let owner = deps.api.addr_make("owner");
            let mut env = mock_env();
            env.block.time = Timestamp::from_nanos(n(4));
            let cfg = match (opt(t[5]), opt(t[6])) {
                (Some(d), Some(g)) => Some(EpochConfig { duration: Uint64::new(d), genesis_epoch: Uint64::new(g) }),
                _ => None,
            };
            let info = message_info(&owner, &[]);
            guarded(|| {
                epoch_manager::contract::execute(deps.as_mut(), env.clone(), info, ExecuteMsg::UpdateConfig { epoch_config: cfg })
                    .map_err(|e| e.to_string())
            })?;
            let c: ConfigResponse = from_json(
                epoch_manager::contract::query(deps.as_ref(), env, QueryMsg::Config {}).map_err(|e| e.to_string())?,
            )
            .unwrap();
            Ok(format!("ok {} {}", c.epoch_config.duration, c.epoch_config.genesis_epoch))
        }),
        "em_cur" => inst(n(1), n(2), n(3)).and_then(|deps| {
            let mut env = mock_env();
            env.block.time = Timestamp::from_nanos(n(4));
            let b = guarded(|| {
                epoch_manager::contract::query(deps.as_ref(), env, QueryMsg::CurrentEpoch {}).map_err(|e| e.to_string())
            })?;
            let r: EpochResponse = from_json(b).unwrap();
            Ok(format!("ok {} {}", r.epoch.id, r.epoch.start_time.nanos()))
        }),
        "em_epoch" => inst(n(1), n(2), n(3)).and_then(|deps| {
            let env = mock_env();
            let b = guarded(|| {
                epoch_manager::contract::query(deps.as_ref(), env, QueryMsg::Epoch { id: n(4) }).map_err(|e| e.to_string())
            })?;
            let r: EpochResponse = from_json(b).unwrap();
            Ok(format!("ok {} {}", r.epoch.id, r.epoch.start_time.nanos()))
        }),
        _ => Err("bad-op".into()),
    };
    match res {
        Ok(s) => s,
        Err(_) => "err".to_string(),
    }
}

fn gen_cfg(r: &mut Rng) -> (u64, u64, u64) {
    // (t0Ns, duration, genesis)
    let t0s = match r.below(6) {
        0 => 0,
        1 => r.below(10),
        2 => 1_714_057_200 + r.below(1000),
        3 => (u64::MAX / NANOS) - r.below(3),
        _ => r.edge64() % (u64::MAX / NANOS + 1),
    };
    let t0 = (t0s * NANOS).saturating_add(if r.chance(1, 3) { r.below(NANOS) } else { 0 });
    let dur = match r.below(8) {
        0 => DAY - 1,
        1 => DAY,
        2 => DAY + 1,
        3 => r.below(DAY),
        4 => r.edge64(),
        5 => DAY * r.range(1, 400),
        _ => r.range(DAY, 40 * DAY),
    };
    let gen = match r.below(8) {
        0 => t0s,
        1 => t0s.saturating_sub(1),
        2 => t0s.saturating_add(1),
        3 => r.edge64(),
        _ => t0s.saturating_add(r.below(100 * DAY)),
    };
    // three quarters of the configurations are valid (accepted by instantiate)
    if r.chance(3, 4) {
        let dur = if dur < DAY { DAY + dur } else { dur };
        let gen = if gen < t0s + 1 { (t0s + 1).saturating_add(gen % 1000) } else { gen };
        return (t0, dur, gen);
    }
    (t0, dur, gen)
}

pub fn run(seed: u64, cases: u64, replay: Option<&str>, o: &mut Out) {
    if let Some(p) = replay {
        let mut rr = Rng::new(seed);
        for l in super::replay_lines(p) {
            if l.starts_with("mon_") { continue; }
            let res = exec_line(&l);
            o.line(&l, &res);
            emit_monitors(&l, &res, &mut rr, o);
        }
        return;
    }
    let mut r = Rng::new(seed);
    for _ in 0..cases {
        let (t0, dur, gen) = gen_cfg(&mut r);
        let line = match r.below(10) {
            0 => format!("em_inst {t0} {dur} {gen}"),
            1 | 2 => {
                let now = t0.saturating_add(r.below(3 * DAY) * NANOS);
                let (nd, ng) = if r.chance(1, 5) { ("-".to_string(), "-".to_string()) } else {
                    let (_, d2, g2) = gen_cfg(&mut r);
                    let g2 = if r.chance(1, 2) { (now / NANOS).saturating_add(r.below(5)).saturating_sub(2) } else { g2 };
                    (d2.to_string(), g2.to_string())
                };
                format!("em_upd {t0} {dur} {gen} {now} {nd} {ng}")
            }
            3 | 4 => {
                let id = match r.below(5) {
                    0 => r.below(5),
                    1 => r.edge64(),
                    2 => (u64::MAX / dur.max(1)).saturating_add(r.below(3)).saturating_sub(1),
                    3 => ((u64::MAX / NANOS).saturating_sub(gen) / dur.max(1)).saturating_add(r.below(3)).saturating_sub(1),
                    _ => r.below(100_000),
                };
                format!("em_epoch {t0} {dur} {gen} {id}")
            }
            _ => {
                // block times around genesis and epoch boundaries, and near the u64 limit
                let gns = gen.saturating_mul(NANOS);
                let now = match r.below(8) {
                    0 => gns.saturating_sub(r.below(3)),
                    1 => gns.saturating_add(r.below(3)),
                    2 => {
                        let k = r.below(1000);
                        gns.saturating_add(k.saturating_mul(dur).saturating_mul(NANOS)).saturating_add(r.below(3)).saturating_sub(1)
                    }
                    3 => u64::MAX - r.below(3 * NANOS),
                    4 => r.edge64(),
                    _ => gns.saturating_add(r.below(5000 * DAY).saturating_mul(NANOS)).saturating_add(r.below(NANOS)),
                };
                format!("em_cur {t0} {dur} {gen} {now}")
            }
        };
        let res = exec_line(&line);
        o.line(&line, &res);
        emit_monitors(&line, &res, &mut r, o);
    }
}

fn obs(res: &str) -> String {
    let t: Vec<&str> = res.split_whitespace().collect();
    if t[0] == "ok" && t.len() >= 3 { format!("{} {}", t[1], t[2]) } else { "- -".to_string() }
}

/// monitor lines: the C18 predicate is evaluated by the Lean driver on what the implementation
/// answered (the right-hand side printed here is always `ok` = "the predicate must hold")
fn emit_monitors(line: &str, res: &str, r: &mut Rng, o: &mut Out) {
    let t: Vec<&str> = line.split_whitespace().collect();
    let n = |i: usize| -> u64 { t[i].parse().unwrap() };
    match t[0] {
        "em_inst" if res == "ok" => o.line(&format!("mon_em_cfg {} {} {}", t[2], t[3], t[1]), "ok"),
        "em_upd" if res.starts_with("ok") && t[5] != "-" => {
            let rt: Vec<&str> = res.split_whitespace().collect();
            o.line(&format!("mon_em_cfg {} {} {}", rt[1], rt[2], t[4]), "ok")
        }
        "em_cur" => {
            // only meaningful when the configuration itself was accepted
            if exec_line(&format!("em_inst {} {} {}", t[1], t[2], t[3])) != "ok" { return; }
            o.line(&format!("mon_em_cur {} {} {} {}", t[2], t[3], t[4], obs(res)), "ok");
            // a second observation later in time: same second+duration, or a random later time
            let dur = n(2);
            let t2 = if r.chance(1, 2) { n(4).saturating_add(dur.saturating_mul(NANOS)) } else { n(4).saturating_add(r.below(3 * DAY) * NANOS + r.below(NANOS)) };
            let res2 = exec_line(&format!("em_cur {} {} {} {}", t[1], t[2], t[3], t2));
            o.line(&format!("mon_em_cur {} {} {} {}", t[2], t[3], t2, obs(&res2)), "ok");
            o.line(&format!("mon_em_pair {} {} {} {} {} {}", t[2], t[3], t[4], obs(res), t2, obs(&res2)), "ok");
        }
        "em_epoch" => {
            if exec_line(&format!("em_inst {} {} {}", t[1], t[2], t[3])) != "ok" { return; }
            o.line(&format!("mon_em_epoch {} {} {} {}", t[2], t[3], t[4], obs(res)), "ok");
        }
        _ => {}
    }
}
