//! Monitor lines for the history streams.  The harness only *observes* (balances, reserves, supplies,
//! positions, farms, event attributes before/after a transaction) and prints the raw facts; the
//! property predicates themselves are Lean definitions (`Model/HistMon.lean`) evaluated by the
//! driver.  Right-hand side printed here is always `ok` (= "the predicate must hold").
use std::collections::BTreeMap;

use mantra_dex_std::pool_manager::{PoolInfo, PoolType};

use crate::proto::*;
use crate::streams::hist::{Hist, Obs};
use crate::world::*;

pub struct TxInfo {
    pub sender: String,
    pub funds: Vec<(String, u128)>,
    pub contract: String,
    pub kind: String,
    pub args: Vec<String>,
}

pub fn parse_tx(line: &str) -> Option<TxInfo> {
    let mut t = Toks::new(line);
    if t.s() != "tx" { return None; }
    let sender = t.s().to_string();
    let funds: Vec<(String, u128)> = t.coins().into_iter().map(|c| (c.denom, c.amount.u128())).collect();
    let contract = t.s().to_string();
    let kind = t.s().to_string();
    let args: Vec<String> = t.t[t.i..].iter().map(|x| x.to_string()).collect();
    Some(TxInfo { sender, funds, contract, kind, args })
}

fn pool<'a>(o: &'a Obs, id: &str) -> Option<&'a PoolInfo> {
    o.pools.iter().find(|p| p.pool_info.pool_identifier == id).map(|p| &p.pool_info)
}
fn supply_of(o: &Obs, id: &str) -> u128 {
    o.pools.iter().find(|p| p.pool_info.pool_identifier == id).map(|p| p.total_share.amount.u128()).unwrap_or(0)
}
fn bal(o: &Obs, who: &str, d: &str) -> u128 {
    *o.bal.get(&(who.to_string(), d.to_string())).unwrap_or(&0)
}
fn delta(b: &Obs, a: &Obs, who: &str, d: &str) -> i128 {
    bal(a, who, d) as i128 - bal(b, who, d) as i128
}
fn reserve(p: &PoolInfo, d: &str) -> u128 {
    p.assets.iter().find(|c| c.denom == d).map(|c| c.amount.u128()).unwrap_or(0)
}
fn attr(h: &Hist, k: &str) -> Option<u128> {
    h.last_attrs.iter().find(|(a, _)| a == k).and_then(|(_, v)| v.parse().ok())
}

/// static fields of a pool as one string
fn static_sig(w: &World, p: &PoolInfo) -> String {
    format!("{}|{:?}|{}|{:?}|{}|{}", p.asset_denoms.join(","), p.asset_decimals, fees_str(&p.pool_fees), p.pool_type, w.cd(&p.lp_denom), p.pool_identifier)
}

/// Independent per-epoch ledger of LP weights, kept from the *operations* and never compacted:
/// after every accepted position operation in epoch c the cumulative weight of the user and of the
/// contract is recorded as taking effect at c+1.  `entry` = first epoch of the user's current
/// stay in an LP token, `cursor` = last epoch the user claimed (dropped when they hold no open
/// position any more).
#[derive(Default)]
pub struct Ledger {
    pub hist: BTreeMap<(String, String), Vec<(u64, u128)>>,
    pub entry: BTreeMap<(String, String), u64>,
    pub cursor: BTreeMap<String, u64>,
}

impl Ledger {
    fn record(&mut self, who: &str, lp: &str, epoch: u64, w: u128) {
        let h = self.hist.entry((who.to_string(), lp.to_string())).or_default();
        if let Some(last) = h.last_mut() { if last.0 == epoch { last.1 = w; return; } }
        h.push((epoch, w));
    }
    fn hist_str(&self, who: &str, lp: &str) -> String {
        let e: Vec<(u64, u128)> = vec![];
        let h = self.hist.get(&(who.to_string(), lp.to_string())).unwrap_or(&e);
        let mut s = format!("{}", h.len());
        for (ep, w) in h.iter() { s += &format!(" {} {}", ep, w); }
        s
    }
}

#[derive(Default)]
pub struct MonState {
    pub ledger: Ledger,
    /// Rewards{} answer taken right before a claim: denom -> amount, or None when the query failed
    pub rewards_quote: Option<BTreeMap<String, u128>>,
    /// a bank fault is armed for the transaction being monitored (liveness-style monitors are skipped)
    pub fault_active: bool,
    /// static signature of every pool at the first snapshot that showed it
    pub statics: BTreeMap<String, String>,
    /// denoms for which the pool manager received an explicit donation (send, receiver=pm)
    pub tainted: bool,
    /// quote taken before a swap: (ret, prot, swap, burn, extra)
    pub quote: Option<(u128, u128, u128, u128, u128)>,
    /// SimulateSwapOperations answer taken before a route: (return amount, pools pairwise distinct)
    pub route_quote: Option<(Option<u128>, bool)>,
    /// the last REJECTED two-sided deposit that carried a liquidity tolerance: (line with the tolerance blanked, tolerance)
    pub rejected_tol_deposit: Option<(String, u128)>,
}

/// queries an instant before a transaction executes: what the monitors compare the execution with (taken by the
/// runner itself, so that a replay recomputes them)
/// start of epoch `id` in nanoseconds, computed from the epoch manager's configuration with checked arithmetic
/// (the `Epoch {id}` query itself PANICS inside `Timestamp::from_seconds` for ids far in the future, and a panic inside
/// a cw-multi-test query would take the harness down); `None` = not representable = unimaginably far in the future
fn epoch_start_ns(h: &Hist, id: u64) -> Option<u64> {
    let c: mantra_dex_std::epoch_manager::ConfigResponse = h.w.app.wrap()
        .query_wasm_smart(h.w.a("em"), &mantra_dex_std::epoch_manager::QueryMsg::Config {}).ok()?;
    let secs = id.checked_mul(c.epoch_config.duration.u64())?.checked_add(c.epoch_config.genesis_epoch.u64())?;
    secs.checked_mul(1_000_000_000)
}

/// the account the farm manager currently pays its fees to (configurable: not necessarily the fee-collector contract)
fn fm_collector(h: &Hist) -> String {
    h.w.app.wrap().query_wasm_smart::<mantra_dex_std::farm_manager::Config>(h.w.a("fm"), &mantra_dex_std::farm_manager::QueryMsg::Config {})
        .map(|c| h.w.n(c.fee_collector_addr.as_str())).unwrap_or("fc".into())
}

pub fn pre_tx_quotes(h: &Hist, ms: &mut MonState, line: &str) {
    ms.quote = None; ms.route_quote = None; ms.rewards_quote = None;
    let Some(tx) = parse_tx(line) else { return };
    match (tx.contract.as_str(), tx.kind.as_str()) {
        ("pm", "swap") if tx.funds.len() == 1 => {
            let r = h.query(&format!("q sim {} {} {} {}", tx.args[0], tx.funds[0].0, tx.funds[0].1, tx.args[1]));
            let v: Vec<u128> = r.split_whitespace().skip(1).filter_map(|x| x.parse().ok()).collect();
            if r.starts_with("ok") && v.len() == 6 { ms.quote = Some((v[0], v[3], v[2], v[4], v[5])); }
        }
        ("pm", "route") if tx.funds.len() == 1 => {
            let n: usize = tx.args[0].parse().unwrap_or(0);
            if tx.args.len() < 1 + 3 * n { return; }
            let ops = tx.args[..1 + 3 * n].join(" ");
            let r = h.query(&format!("q simops {} {}", tx.funds[0].1, ops));
            let mut pools: Vec<&String> = (0..n).map(|k| &tx.args[3 + 3 * k]).collect();
            pools.sort(); let before = pools.len(); pools.dedup();
            // (no denom is the output of two hops: otherwise the query's per-denom fee totals may overflow although the route
            //  executes — `C12Sys.route_tx_equals_simulation_partial` and its counterexample)
            let mut outs: Vec<&String> = (0..n).map(|k| &tx.args[2 + 3 * k]).collect();
            outs.sort(); let nouts = outs.len(); outs.dedup();
            let clean = pools.len() == before && outs.len() == nouts;
            if r.starts_with("ok") {
                if let Some(v) = r.split_whitespace().nth(1).and_then(|x| x.parse::<u128>().ok()) { ms.route_quote = Some((Some(v), pools.len() == before)); }
            } else { ms.route_quote = Some((None, clean)); }
        }
        ("fm", "claim") => {
            let r = h.query(&format!("q rewards {} {}", tx.sender, tx.args.first().map(|x| x.as_str()).unwrap_or("-")));
            if let Some(rest) = r.strip_prefix("ok ") {
                let mut m = BTreeMap::new();
                if rest != "-" { for kv in rest.split(',') { if let Some((d, a)) = kv.rsplit_once(':') { m.insert(d.to_string(), a.parse::<u128>().unwrap_or(0)); } } }
                ms.rewards_quote = Some(m);
            }
        }
        _ => {}
    }
}

/// state-only monitors, after every snapshot
pub fn state_monitors(h: &Hist, ms: &mut MonState, out: &mut Vec<String>) {
    let o = &h.last_obs;
    // C01: per base denom, pool manager balance vs. sum of reserves
    let mut s = String::new();
    let mut k = 0;
    for d in BASE_DENOMS.iter() {
        let sum: u128 = o.pools.iter().map(|p| reserve(&p.pool_info, d)).sum();
        let b = bal(o, "pm", d);
        if sum > 0 || b > 0 { s += &format!(" {} {} {}", d, b, sum); k += 1; }
    }
    out.push(format!("mon_pm_custody {}{}", k, s));
    // C01/C02: LP held by the pool manager, supply vs locked minimum
    let mut s = String::new();
    for p in o.pools.iter() {
        let pi = &p.pool_info;
        let lp = h.w.cd(&pi.lp_denom);
        let (ty, _) = match pi.pool_type { PoolType::ConstantProduct => ("cp", 0), PoolType::StableSwap { amp } => ("ss", amp) };
        let mind = pi.asset_decimals.iter().min().copied().unwrap_or(0);
        let maxd = pi.asset_decimals.iter().max().copied().unwrap_or(0);
        s += &format!(" {} {} {} {} {}", bal(o, "pm", &lp), ty, mind, maxd, p.total_share.amount);
    }
    out.push(format!("mon_pm_lp {} {}{}", if ms.tainted { 1 } else { 0 }, o.pools.len(), s));
    // C16: static fields immutable, assets aligned with asset_denoms
    for p in o.pools.iter() {
        let pi = &p.pool_info;
        let sig = static_sig(&h.w, pi);
        let first = ms.statics.entry(pi.pool_identifier.clone()).or_insert_with(|| sig.clone());
        let same = *first == sig;
        let aligned = pi.assets.iter().map(|c| c.denom.clone()).collect::<Vec<_>>() == pi.asset_denoms;
        out.push(format!("mon_static {} {} {}", pi.pool_identifier, same as u8, aligned as u8));
    }
    // C16: every stored pool is well-formed; identifiers and LP denoms are unique
    let mut uniq = String::new();
    for p in o.pools.iter() {
        let pi = &p.pool_info;
        let (ty, amp) = match pi.pool_type { PoolType::ConstantProduct => ("cp", 0), PoolType::StableSwap { amp } => ("ss", amp) };
        let mut fs: Vec<u128> = vec![pi.pool_fees.protocol_fee.share.atomics().u128(), pi.pool_fees.swap_fee.share.atomics().u128(), pi.pool_fees.burn_fee.share.atomics().u128()];
        fs.extend(pi.pool_fees.extra_fees.iter().map(|f| f.share.atomics().u128()));
        out.push(format!("mon_pool_wf {} {} {} {} {} {} {}", ty, amp, pi.asset_denoms.len(),
            pi.asset_denoms.iter().map(|d| h.w.cd(d)).collect::<Vec<_>>().join(" "), pi.asset_decimals.len(), fs.len(),
            fs.iter().map(|f| f.to_string()).collect::<Vec<_>>().join(" ")));
        uniq += &format!(" {} {}", pi.pool_identifier, h.w.cd(&pi.lp_denom));
    }
    out.push(format!("mon_pools_unique {}{}", o.pools.len(), uniq));
    let removed = ms.statics.keys().filter(|id| !o.pools.iter().any(|p| &p.pool_info.pool_identifier == *id)).count();
    out.push(format!("mon_pools_kept {}", removed));
    // C05: farm manager custody per denom
    let mut denoms: Vec<String> = BASE_DENOMS.iter().map(|d| d.to_string()).collect();
    denoms.extend(h.lps.iter().cloned());
    let mut s = String::new();
    let mut k = 0;
    for d in denoms.iter() {
        let real = h.w.rd(d);
        let pos: u128 = o.positions.iter().filter(|p| p.lp_asset.denom == real).map(|p| p.lp_asset.amount.u128()).sum();
        let farms: u128 = o.farms.iter().filter(|f| f.farm_asset.denom == real).map(|f| f.farm_asset.amount.u128().saturating_sub(f.claimed_amount.u128())).sum();
        let over = o.farms.iter().filter(|f| f.farm_asset.denom == real).any(|f| f.claimed_amount > f.farm_asset.amount);
        let b = bal(o, "fm", d);
        if pos > 0 || farms > 0 || b > 0 { s += &format!(" {} {} {} {} {}", d, b, pos, farms, over as u8); k += 1; }
    }
    out.push(format!("mon_fm_custody {}{}", k, s));
    // C10: total weight covers the users' weights (latest snapshots = weights in effect from then on)
    for lp in h.lps.iter() {
        let latest = |who: &str| -> u128 {
            o.users.get(who).and_then(|u| u.1.get(lp)).and_then(|h| h.last()).map(|x| x.1).unwrap_or(0)
        };
        let total = latest("fm");
        // (the sums are taken in 256 bits: the users' weights may together exceed u128 when the total was wrongly capped)
        let users: cosmwasm_std::Uint256 = ["u1", "u2", "u3", "u4", "owner", "out", "pm"].iter().map(|u| cosmwasm_std::Uint256::from(latest(u))).fold(cosmwasm_std::Uint256::zero(), |x, y| x + y);
        if total > 0 || !users.is_zero() { out.push(format!("mon_weights {} {} {}", lp, total, users)); }
        // … and for EVERY epoch: the weight in effect (value of the last snapshot at or before it) of the total covers
        // the users' weights in effect; checked at every epoch carrying a snapshot of anybody (the functions are
        // piecewise constant), reported for the worst epoch
        {
            let hist = |who: &str| -> Vec<(u64, u128)> { o.users.get(who).and_then(|u| u.1.get(lp)).cloned().unwrap_or_default() };
            let at = |hh: &Vec<(u64, u128)>, e: u64| -> u128 { hh.iter().filter(|x| x.0 <= e).last().map(|x| x.1).unwrap_or(0) };
            let names = ["u1", "u2", "u3", "u4", "owner", "out", "pm"];
            let th = hist("fm");
            let uhs: Vec<Vec<(u64, u128)>> = names.iter().map(|u| hist(u)).collect();
            let mut epochs: Vec<u64> = th.iter().map(|x| x.0).collect();
            for hh in uhs.iter() { epochs.extend(hh.iter().map(|x| x.0)); }
            epochs.sort(); epochs.dedup();
            let mut worst: Option<(u64, u128, cosmwasm_std::Uint256)> = None;
            for e in epochs {
                let t = at(&th, e);
                let us: cosmwasm_std::Uint256 = uhs.iter().map(|hh| cosmwasm_std::Uint256::from(at(hh, e))).fold(cosmwasm_std::Uint256::zero(), |x, y| x + y);
                // the first epoch where the users exceed the total, otherwise the last epoch
                let have_bad = matches!(worst, Some((_, wt, wu)) if wu > cosmwasm_std::Uint256::from(wt));
                if !have_bad { worst = Some((e, t, us)); }
            }
            if let Some((e, t, us)) = worst { out.push(format!("mon_weights_epoch {} {} {} {}", lp, e, t, us)); }
        }
        // a user without open positions in an LP token has no weight history and (if no open position at all) no cursor
        // (the pool manager included: it tops positions up on behalf of depositors and never owns one)
        for u in ["u1", "u2", "u3", "u4", "owner", "out", "pm"] {
            let real = h.w.rd(lp);
            let ua = h.w.astr(u);
            let has_open = o.positions.iter().any(|p| p.open && p.receiver.as_str() == ua && p.lp_asset.denom == real);
            let any_open = o.positions.iter().any(|p| p.open && p.receiver.as_str() == ua);
            let has_hist = o.users.get(u).map(|x| x.1.contains_key(lp)).unwrap_or(false);
            let has_cursor = o.users.get(u).map(|x| x.0.is_some()).unwrap_or(false);
            if has_hist || has_cursor { out.push(format!("mon_no_pos_no_weight {} {} {} {}", has_open as u8, any_open as u8, has_hist as u8, has_cursor as u8)); }
            // … and conversely: while a user has an open position in an LP token its weight history for that token exists (it is
            // cleared only when the last open position in the token goes)
            if has_open { out.push(format!("mon_pos_has_weight {}", has_hist as u8)); }
        }
    }
}

/// transition monitors for one executed line
pub fn tx_monitors(h: &Hist, ms: &mut MonState, b: &Obs, line: &str, res: &str, out: &mut Vec<String>) {
    let a = &h.last_obs;
    let ok = res == "ok";
    if line.starts_with("send ") {
        let t: Vec<&str> = line.split_whitespace().collect();
        // LP tokens donated to the pool manager: the "LP held = locked minimum" reading no longer applies
        if ok && t[2] == "pm" && t.len() > 4 && t[4].starts_with("factory/") { ms.tainted = true; }
        // excess accounting for a plain send
        for d in BASE_DENOMS.iter() {
            let sb: u128 = b.pools.iter().map(|p| reserve(&p.pool_info, d)).sum();
            let sa: u128 = a.pools.iter().map(|p| reserve(&p.pool_info, d)).sum();
            let donated = if ok && t[2] == "pm" && t[4] == *d { t[5].parse::<u128>().unwrap_or(0) } else { 0 };
            out.push(format!("mon_pm_excess {} {} {} {} {} {} {}", d, bal(b, "pm", d), sb, bal(a, "pm", d), sa, donated, 0));
        }
        return;
    }
    let Some(tx) = parse_tx(line) else { return };
    // a quote is only meaningful for the swap it was taken for
    let quote = ms.quote.take();
    // C20: a rejected message leaves no trace
    if !ok {
        out.push(format!("mon_unchanged {}", (a.text == b.text) as u8));
    }
    if tx.contract == "pm" {
        let recv_is_pm = tx.args.iter().any(|x| x == "pm") && matches!(tx.kind.as_str(), "swap" | "route" | "provide");
        if recv_is_pm && ok { ms.tainted = true; }
        // C01: exact excess accounting per base denom
        if !recv_is_pm {
            let single = tx.kind == "provide" && tx.funds.len() == 1;
            for d in BASE_DENOMS.iter() {
                let sb: u128 = b.pools.iter().map(|p| reserve(&p.pool_info, d)).sum();
                let sa: u128 = a.pools.iter().map(|p| reserve(&p.pool_info, d)).sum();
                let odd = if ok && single && tx.funds[0].0 == *d { tx.funds[0].1 % 2 } else { 0 };
                out.push(format!("mon_pm_excess {} {} {} {} {} {} {}", d, bal(b, "pm", d), sb, bal(a, "pm", d), sa, 0, odd));
            }
        }
        // C04: over a whole swap or route, the reserves of every denom change by exactly what enters or
        // leaves the contract (fees of intermediate hops included)
        if ok && !recv_is_pm && matches!(tx.kind.as_str(), "swap" | "route") {
            for d in BASE_DENOMS.iter() {
                let sb: u128 = b.pools.iter().map(|p| reserve(&p.pool_info, d)).sum();
                let sa: u128 = a.pools.iter().map(|p| reserve(&p.pool_info, d)).sum();
                if sa != sb || bal(a, "pm", d) != bal(b, "pm", d) {
                    out.push(format!("mon_swap_conserve {} {} {} {} {}", d, bal(b, "pm", d), sb, bal(a, "pm", d), sa));
                }
            }
        }
        // C17: the switched operation is stopped on every path
        let touched: Vec<(String, &str)> = match tx.kind.as_str() {
            "swap" => vec![(tx.args[0].clone(), "swap")],
            "withdraw" => vec![(tx.args[0].clone(), "withdraw")],
            "provide" => {
                let mut v = vec![(tx.args[0].clone(), "deposit")];
                if tx.funds.len() == 1 { v.push((tx.args[0].clone(), "swap")); }
                v
            }
            "route" => {
                let n: usize = tx.args[0].parse().unwrap_or(0);
                (0..n).map(|i| (tx.args[3 + 3 * i].clone(), "swap")).collect()
            }
            _ => vec![],
        };
        for (pid, what) in touched.iter() {
            if let Some(p) = pool(b, pid) {
                let enabled = match *what { "swap" => p.status.swaps_enabled, "withdraw" => p.status.withdrawals_enabled, _ => p.status.deposits_enabled };
                if !enabled { out.push(format!("mon_disabled {} {}", what, ok as u8)); }
            }
        }
        // C17 by EFFECT, whatever pool the message names: no LP of a pool is burned while its withdrawals are off, none minted
        // while its deposits are off, and with swaps off its reserves move only together with its LP supply
        if ok {
            for pb in b.pools.iter() {
                let id = &pb.pool_info.pool_identifier;
                if let Some(pa) = pool(a, id) {
                    let (sb, sa) = (supply_of(b, id), supply_of(a, id));
                    let st = &pb.pool_info.status;
                    if sa < sb && !st.withdrawals_enabled { out.push("mon_disabled withdraw 1".to_string()); }
                    if sa > sb && !st.deposits_enabled { out.push("mon_disabled deposit 1".to_string()); }
                    if sa == sb && pa.assets != pb.pool_info.assets && !st.swaps_enabled { out.push("mon_disabled swap 1".to_string()); }
                }
            }
        }
        // C17: a toggle sets exactly the switches it names on exactly the pool it names
        if ok && tx.kind == "config" {
            for pb in b.pools.iter() {
                let id = &pb.pool_info.pool_identifier;
                if let Some(pa) = pool(a, id) {
                    let named = tx.args[4] == *id;
                    let want = |req: &str, cur: bool| -> bool { if named { match req { "true" => true, "false" => false, _ => cur } } else { cur } };
                    let sb = &pb.pool_info.status;
                    let good = pa.status.swaps_enabled == want(&tx.args[5], sb.swaps_enabled)
                        && pa.status.deposits_enabled == want(&tx.args[6], sb.deposits_enabled)
                        && pa.status.withdrawals_enabled == want(&tx.args[7], sb.withdrawals_enabled);
                    out.push(format!("mon_toggle {}", good as u8));
                }
            }
        } else if ok {
            // no other message ever changes a switch
            for pb in b.pools.iter() {
                if let Some(pa) = pool(a, &pb.pool_info.pool_identifier) {
                    if pa.status != pb.pool_info.status { out.push("mon_toggle 0".to_string()); }
                }
            }
        }
        // C16: an accepted CreatePool was paid exactly the creation fee plus the token-factory fees, the creation fee went to
        // the fee collector, the token-factory fee was consumed, and the pool manager kept nothing
        if ok && tx.kind == "create" {
            if let Ok(cfg) = h.w.app.wrap().query_wasm_smart::<mantra_dex_std::pool_manager::Config>(h.w.a("pm"), &mantra_dex_std::pool_manager::QueryMsg::Config {}) {
                let fc = h.w.n(cfg.fee_collector_addr.as_str());
                let cfee = (h.w.cd(&cfg.pool_creation_fee.denom), cfg.pool_creation_fee.amount.u128());
                let mut s_ = String::new();
                let mut k = 0;
                for d in BASE_DENOMS.iter() {
                    let attached: u128 = tx.funds.iter().filter(|c| c.0 == *d).map(|c| c.1).sum();
                    let due_c = if cfee.0 == *d { cfee.1 } else { 0 };
                    let due_tf: u128 = h.w.cfg.tf_fees.iter().filter(|c| c.denom == *d).map(|c| c.amount.u128()).sum();
                    let (ds, dfc, dpm) = (delta(b, a, &tx.sender, d), delta(b, a, &fc, d), delta(b, a, "pm", d));
                    if attached > 0 || due_c > 0 || due_tf > 0 || ds != 0 || dfc != 0 || dpm != 0 {
                        s_ += &format!(" {} {} {} {} {} {} {}", d, attached, due_c, due_tf, ds, dfc, dpm); k += 1;
                    }
                }
                out.push(format!("mon_pool_create {} {} {}{}", (fc == tx.sender) as u8, (fc == "pm") as u8, k, s_));
            }
        }
        // LP supply changes only through deposits and withdrawals
        for p in a.pools.iter() {
            let id = &p.pool_info.pool_identifier;
            let sb = supply_of(b, id);
            let sa = p.total_share.amount.u128();
            if sb != sa {
                let kind = if tx.kind == "provide" && &tx.args[0] == id && sa > sb { 1 } else if tx.kind == "withdraw" && &tx.args[0] == id && sa < sb { 2 } else { 0 };
                out.push(format!("mon_supply_change {} {} {}", kind, sb, sa));
            }
        }
        // C02 (stableswap): exact D per LP token through deposits and withdrawals
        if ok && (tx.kind == "provide" || tx.kind == "withdraw") {
            if let (Some(pb), Some(pa)) = (pool(b, &tx.args[0]), pool(a, &tx.args[0])) {
                if !matches!(pb.pool_type, PoolType::ConstantProduct) && (tx.kind == "withdraw" || tx.funds.len() >= 2) {
                    let mut pb2 = pb.clone();
                    pb2.asset_denoms = pb2.asset_denoms.iter().map(|d| h.w.cd(d)).collect();
                    let after: Vec<String> = pa.assets.iter().map(|c| c.amount.to_string()).collect();
                    out.push(format!("mon_ss_lp {} {} {} {} {}", pool_str(&pb2), after.len(), after.join(" "), supply_of(b, &tx.args[0]), supply_of(a, &tx.args[0])));
                }
            }
        }
        if ok && tx.kind == "provide" && tx.funds.len() >= 2 {
            if let (Some(pb), Some(pa)) = (pool(b, &tx.args[0]), pool(a, &tx.args[0])) {
                let lp = h.w.cd(&pb.lp_denom);
                let sb = supply_of(b, &tx.args[0]);
                let sa = supply_of(a, &tx.args[0]);
                let locked = delta(b, a, "pm", &lp).max(0) as u128;
                // when the LP is locked for the depositor the freshly minted shares transit through the pool manager
                let minted = sa - sb;
                // (a deposit that names the pool manager itself as receiver of the LP tokens is not judged: the minted shares then
                // legitimately land on the pool manager's own balance — `MonSound.monCpDeposit_sound_counterexample`)
                if matches!(pb.pool_type, PoolType::ConstantProduct) && pb.assets.len() == 2 && tx.args.get(3).map(|r| r != "pm").unwrap_or(true) {
                    let d0 = &pb.assets[0].denom; let d1 = &pb.assets[1].denom;
                    let dx = tx.funds.iter().find(|f| &f.0 == d0).map(|f| f.1).unwrap_or(0);
                    let dy = tx.funds.iter().find(|f| &f.0 == d1).map(|f| f.1).unwrap_or(0);
                    out.push(format!("mon_cp_deposit {} {} {} {} {} {} {} {} {}", reserve(pb, d0), reserve(pb, d1), dx, dy, sb, minted, locked,
                        reserve(pa, d0), reserve(pa, d1)));
                }
                // every deposited coin is added to the reserves in full
                for f in tx.funds.iter() {
                    out.push(format!("mon_deposit_added {} {} {}", reserve(pb, &f.0), f.1, reserve(pa, &f.0)));
                }
            }
        }
        // C13: an accepted constant-product deposit with a liquidity tolerance respects it — for a single-asset deposit
        // the deposit leg is (swapped half, proceeds) into the pool as the internal swap left it
        if ok && tx.kind == "provide" && tx.args[1] != "-" {
            if let Some(pb) = pool(b, &tx.args[0]) {
                if matches!(pb.pool_type, PoolType::ConstantProduct) && pb.assets.len() == 2 && supply_of(b, &tx.args[0]) > 0 {
                    let d0 = pb.assets[0].denom.clone(); let d1 = pb.assets[1].denom.clone();
                    if tx.funds.len() >= 2 {
                        let dx = tx.funds.iter().find(|f| f.0 == d0).map(|f| f.1).unwrap_or(0);
                        let dy = tx.funds.iter().find(|f| f.0 == d1).map(|f| f.1).unwrap_or(0);
                        out.push(format!("mon_cp_deposit_tol {} {} {} {} {}", tx.args[1], reserve(pb, &d0), reserve(pb, &d1), dx, dy));
                    } else if tx.funds.len() == 1 {
                        let od = tx.funds[0].0.clone();
                        let half = tx.funds[0].1 / 2;
                        let (ret, pf, bf) = (attr(h, "return_amount").unwrap_or(0), attr(h, "protocol_fee_amount").unwrap_or(0), attr(h, "burn_fee_amount").unwrap_or(0));
                        let ad = if od == d0 { d1.clone() } else { d0.clone() };
                        let (xo, ya) = (reserve(pb, &od) + half, reserve(pb, &ad).saturating_sub(ret + pf + bf));
                        let (r0, r1, q0, q1) = if od == d0 { (xo, ya, half, ret) } else { (ya, xo, ret, half) };
                        out.push(format!("mon_cp_deposit_tol {} {} {} {} {}", tx.args[1], r0, r1, q0, q1));
                    }
                }
            }
        }
        if tx.kind == "withdraw" && tx.funds.len() == 1 {
            if let Some(pb) = pool(b, &tx.args[0]) {
                let lp = h.w.cd(&pb.lp_denom);
                let burned = tx.funds[0].1;
                let sb = supply_of(b, &tx.args[0]);
                if tx.funds[0].0 == lp && burned > 0 && bal(b, &tx.sender, &lp) >= burned {
                    if ok {
                        let pa = pool(a, &tx.args[0]).unwrap();
                        let mut s = format!("mon_withdraw {} {} {}", burned, sb, pb.assets.len());
                        for c in pb.assets.iter() {
                            let r = c.amount.u128();
                            let refund = r - reserve(pa, &c.denom);
                            let got = delta(b, a, &tx.sender, &c.denom).max(0) as u128;
                            s += &format!(" {} {} {}", r, refund, got);
                        }
                        out.push(s);
                    } else if pb.status.withdrawals_enabled && !ms.fault_active {
                        let mut s = format!("mon_withdraw_rejected {} {} {}", burned, sb, pb.assets.len());
                        for c in pb.assets.iter() { s += &format!(" {}", c.amount); }
                        out.push(s);
                    }
                }
            }
        }
        if ok && tx.kind == "swap" && tx.funds.len() == 1 {
            if let (Some(pb), Some(pa)) = (pool(b, &tx.args[0]), pool(a, &tx.args[0])) {
                let offer_d = &tx.funds[0].0; let offer = tx.funds[0].1;
                let ask_d = &tx.args[1];
                let recv = if tx.args[4] == "-" || !h.w.addr.contains_key(&tx.args[4]) { tx.sender.clone() } else { tx.args[4].clone() };
                let (ret, sf, pf, bf, ef) = (attr(h, "return_amount").unwrap_or(0), attr(h, "swap_fee_amount").unwrap_or(0),
                    attr(h, "protocol_fee_amount").unwrap_or(0), attr(h, "burn_fee_amount").unwrap_or(0), attr(h, "extra_fees_amount").unwrap_or(0));
                let ty = if matches!(pb.pool_type, PoolType::ConstantProduct) { "cp" } else { "ss" };
                let fcn: String = h.w.app.wrap().query_wasm_smart::<mantra_dex_std::pool_manager::Config>(h.w.a("pm"), &mantra_dex_std::pool_manager::QueryMsg::Config {})
                    .map(|c| h.w.n(c.fee_collector_addr.as_str())).unwrap_or("fc".into());
                // reserves
                out.push(format!("mon_swap_reserves {} {} {} {} {} {} {} {} {}", ty, reserve(pb, offer_d), reserve(pb, ask_d), offer,
                    reserve(pa, offer_d), reserve(pa, ask_d), ret, pf, bf));
                // fees are floor shares of the gross output
                out.push(format!("mon_swap_fees {} {} {} {} {} {}", fees_str(&pb.pool_fees), ret, sf, pf, bf, ef));
                // bank: sender, receiver, fee collector, supply, pool manager; nobody else
                if recv != "pm" && recv != fcn && tx.sender != fcn && !recv_is_pm {
                    let mut others = 0i128;
                    for who in ["u1", "u2", "u3", "u4", "owner", "out", "fm", "em", "fc"] {
                        if who != tx.sender && who != recv && who != fcn { others += delta(b, a, who, ask_d).abs() + delta(b, a, who, offer_d).abs(); }
                    }
                    let (s_off, s_ask) = (delta(b, a, &tx.sender, offer_d), delta(b, a, &tx.sender, ask_d));
                    let (r_off, r_ask) = if recv == tx.sender { (0, 0) } else { (delta(b, a, &recv, offer_d), delta(b, a, &recv, ask_d)) };
                    out.push(format!("mon_swap_bank {} {} {} {} {} {} {} {} {} {} {} {}", offer, ret, pf, bf,
                        -s_off, s_ask + r_ask, r_off, delta(b, a, &fcn, ask_d), delta(b, a, "pm", offer_d), -delta(b, a, "pm", ask_d), others,
                        (recv == tx.sender) as u8));
                }
                if ty == "ss" {
                    let gross = ret + sf + pf + bf + ef;
                    let mut pb2 = pb.clone();
                    pb2.asset_denoms = pb2.asset_denoms.iter().map(|d| h.w.cd(d)).collect();
                    out.push(format!("mon_ss_quote {} {} {} {} {}", pool_str(&pb2), offer_d, offer, ask_d, gross));
                    out.push(format!("mon_ss_swap {} {} {} {} {} {}", pool_str(&pb2), offer_d, offer, ask_d, gross, ret + pf + bf));
                }
                if let Some(q) = quote {
                    out.push(format!("mon_quote {} {} {} {} {} {} {} {} {} {}", q.0, q.1, q.2, q.3, q.4, ret, pf, sf, bf, ef));
                }
            }
        }
    }
    // ---- ledger: weights recorded from the operations (C06 / C07)
    if ok {
        let latest = |o: &Obs, who: &str, lp: &str| -> u128 {
            o.users.get(who).and_then(|u| u.1.get(lp)).and_then(|h| h.last()).map(|x| x.1).unwrap_or(0)
        };
        let is_pos_op = (tx.contract == "fm" && matches!(tx.kind.as_str(), "createpos" | "expandpos" | "closepos" | "withdrawpos"))
            || (tx.contract == "pm" && tx.kind == "provide");
        if is_pos_op {
            if let Some(c) = b.epoch {
                for lp in h.lps.iter() {
                    let real = h.w.rd(lp);
                    // contract total
                    if latest(a, "fm", lp) != latest(b, "fm", lp) || a.users.get("fm").map(|u| u.1.get(lp).map(|x| x.len())) != b.users.get("fm").map(|u| u.1.get(lp).map(|x| x.len())) {
                        ms.ledger.record("fm", lp, c + 1, latest(a, "fm", lp));
                    }
                    for u in ["u1", "u2", "u3", "u4", "owner", "out"] {
                        let ua = h.w.astr(u);
                        let open_b = b.positions.iter().any(|p| p.open && p.receiver.as_str() == ua && p.lp_asset.denom == real);
                        let open_a = a.positions.iter().any(|p| p.open && p.receiver.as_str() == ua && p.lp_asset.denom == real);
                        let changed = a.positions.iter().filter(|p| p.receiver.as_str() == ua && p.lp_asset.denom == real).map(|p| (p.identifier.clone(), p.open, p.lp_asset.amount)).collect::<Vec<_>>()
                            != b.positions.iter().filter(|p| p.receiver.as_str() == ua && p.lp_asset.denom == real).map(|p| (p.identifier.clone(), p.open, p.lp_asset.amount)).collect::<Vec<_>>();
                        if !changed { continue; }
                        if open_a {
                            if !open_b { ms.ledger.entry.insert((u.to_string(), lp.clone()), c + 1); ms.ledger.hist.remove(&(u.to_string(), lp.clone())); }
                            ms.ledger.record(u, lp, c + 1, latest(a, u, lp));
                        } else if open_b {
                            // full exit from this LP token: the user's weight is gone from c+1 on
                            ms.ledger.hist.remove(&(u.to_string(), lp.clone()));
                            ms.ledger.entry.remove(&(u.to_string(), lp.clone()));
                        }
                        if !a.positions.iter().any(|p| p.open && p.receiver.as_str() == ua) { ms.ledger.cursor.remove(u); }
                    }
                }
            }
        }
    }
    // C10 / C07: when the recorded amount of an OPEN position grows (a top-up: by its owner, or by the pool manager on the
    // owner's behalf) the weight is credited to the position's OWNER: the owner's latest weight in that LP token grows, and
    // nobody else's (the pool manager's included) changes
    if ok {
        for p in b.positions.iter().filter(|p| p.open) {
            if let Some(q) = a.positions.iter().find(|q| q.identifier == p.identifier) {
                if q.open && q.lp_asset.amount > p.lp_asset.amount {
                    let lp = h.w.cd(&p.lp_asset.denom);
                    let owner = h.w.n(p.receiver.as_str());
                    let latest = |o: &Obs, who: &str| -> u128 { o.users.get(who).and_then(|u| u.1.get(&lp)).and_then(|hh| hh.last()).map(|x| x.1).unwrap_or(0) };
                    let grew = latest(a, &owner) > latest(b, &owner);
                    let others = ["u1", "u2", "u3", "u4", "owner", "out", "pm"].iter().filter(|u| **u != owner && latest(a, u) != latest(b, u)).count();
                    out.push(format!("mon_topup_weight {} {}", grew as u8, others));
                    // C08 / C05: … and the recorded amount grows only by LP tokens of the position's OWN denom that the farm manager
                    // received in this very transaction
                    out.push(format!("mon_topup_backed {} {}", q.lp_asset.amount.u128() - p.lp_asset.amount.u128(), delta(b, a, "fm", &lp)));
                }
            }
        }
    }
    // C08: the recorded amount of a position changes (or the position disappears) only through an
    // operation of its owner — directly on the farm manager, or through a deposit the owner makes on the
    // pool manager
    if ok {
        for p in b.positions.iter() {
            let after = a.positions.iter().find(|q| q.identifier == p.identifier);
            let changed = match after { Some(q) => q.lp_asset.amount != p.lp_asset.amount || q.open != p.open || q.receiver != p.receiver, None => true };
            if changed {
                out.push(format!("mon_pos_changed {}", (h.w.n(p.receiver.as_str()) == tx.sender || tx.sender == "pm") as u8));
                // C14: a single-asset deposit never touches a position of someone other than the sender
                if tx.contract == "pm" && tx.kind == "provide" && tx.funds.len() == 1 {
                    out.push(format!("mon_single_lock {}", (h.w.n(p.receiver.as_str()) == tx.sender) as u8));
                }
            }
        }
        for q in a.positions.iter() {
            if !b.positions.iter().any(|p| p.identifier == q.identifier) {
                // new position: created by its owner, or by the pool manager for the depositor (= tx sender)
                out.push(format!("mon_pos_created {} {}", (h.w.n(q.receiver.as_str()) == tx.sender || tx.sender == "pm") as u8, (tx.contract == "pm") as u8));
                if tx.contract == "pm" && tx.kind == "provide" && tx.funds.len() == 1 {
                    out.push(format!("mon_single_lock {}", (h.w.n(q.receiver.as_str()) == tx.sender) as u8));
                }
            }
        }
    }
    // C14: an ACCEPTED single-asset deposit went into a pool with exactly two assets that already held liquidity
    if ok && tx.contract == "pm" && tx.kind == "provide" && tx.funds.len() == 1 {
        if let Some(pb) = pool(b, &tx.args[0]) {
            out.push(format!("mon_single_shape {} {}", pb.assets.len(), pb.assets.iter().all(|c| c.amount.is_zero()) as u8));
        }
    }
    // C03: every stableswap pool a route went through: the exact invariant computed from its reported reserves did not decrease
    if ok && tx.contract == "pm" && tx.kind == "route" {
        let n: usize = tx.args[0].parse().unwrap_or(0);
        let all: Vec<String> = (0..n).filter_map(|k| tx.args.get(3 + 3 * k).cloned()).collect();
        // pools the route went through exactly once (for a pool visited twice only the net change is observable)
        let ids: Vec<String> = all.iter().filter(|x| all.iter().filter(|y| y == x).count() == 1).cloned().collect();
        for id in ids.iter() {
            if let (Some(pb), Some(pa)) = (pool(b, id), pool(a, id)) {
                if !matches!(pb.pool_type, PoolType::ConstantProduct) {
                    let mut pb2 = pb.clone();
                    pb2.asset_denoms = pb2.asset_denoms.iter().map(|d| h.w.cd(d)).collect();
                    let after: Vec<String> = pa.assets.iter().map(|c| c.amount.to_string()).collect();
                    out.push(format!("mon_ss_pool_d {} {} {}", pool_str(&pb2), after.len(), after.join(" ")));
                }
            }
        }
    }
    // C03, hop by hop: every hop of an executed route reports the reserves of its pool right after it (`pool_identifier`,
    // `pool_reserves` attributes, in order).  For a constant-product pool the product of the reported reserves after a hop is
    // at least the product after the previous visit of the same pool in this route (or before the transaction, for the first
    // visit) — also when a pool is visited twice, where the before/after snapshots only show the net effect
    if ok && tx.contract == "pm" && tx.kind == "route" {
        let ids: Vec<&String> = h.last_attrs.iter().filter(|(k, _)| k == "pool_identifier").map(|(_, v)| v).collect();
        let res: Vec<&String> = h.last_attrs.iter().filter(|(k, _)| k == "pool_reserves").map(|(_, v)| v).collect();
        let amounts = |r: &str| -> Vec<u128> { r.split(',').map(|c| c.chars().take_while(|ch| ch.is_ascii_digit()).collect::<String>().parse::<u128>().unwrap_or(0)).collect() };
        if ids.len() == res.len() {
            let mut last: std::collections::BTreeMap<String, Vec<u128>> = std::collections::BTreeMap::new();
            let swaps: Vec<&String> = h.last_attrs.iter().filter(|(k, _)| k == "swap").map(|(_, v)| v).collect();
            for (hop_no, (id, r)) in ids.iter().zip(res.iter()).enumerate() {
                let now = amounts(r);
                let prev = match last.get(*id) { Some(v) => Some(v.clone()), None => pool(b, id).map(|p| p.assets.iter().map(|c| c.amount.u128()).collect()) };
                if let (Some(prev), Some(pb)) = (prev, pool(b, id)) {
                    if matches!(pb.pool_type, PoolType::ConstantProduct) && prev.len() == 2 && now.len() == 2 {
                        out.push(format!("mon_hop_k {} {} {} {}", prev[0], prev[1], now[0], now[1]));
                        // C13, hop by hop: EVERY hop of an executed route stays within the tolerance the route carried (1 % when
                        // omitted) — measured, like a direct swap, against the reserves its pool reported just before the hop.
                        // The hop's `swap` attribute gives what went in and what came out.
                        if let Some(sw) = swaps.get(hop_no) {
                            let part = |key: &str| -> Option<(u128, String)> {
                                let v = sw.split(", ").find_map(|kv| kv.strip_prefix(key))?;
                                let digits: String = v.chars().take_while(|ch| ch.is_ascii_digit()).collect();
                                Some((digits.parse().ok()?, v[digits.len()..].to_string()))
                            };
                            if let (Some((inn, ind)), Some((outa, _))) = (part("in="), part("out=")) {
                                let xi = if pb.assets[0].denom == ind { Some(0) } else if pb.assets[1].denom == ind { Some(1) } else { None };
                                let n: usize = tx.args[0].parse().unwrap_or(0);
                                let tol = tx.args.get(3 + 3 * n).cloned().unwrap_or("-".into());
                                if let Some(xi) = xi { out.push(format!("mon_cp_slippage {} {} {} {} {} 0", tol, prev[xi], prev[1 - xi], inn, outa)); }
                            }
                        }
                    }
                }
                last.insert((*id).clone(), now);
            }
        }
    }
    // C13: an executed route delivered at least the `minimum_receive` it carried
    if ok && tx.contract == "pm" && tx.kind == "route" {
        let n: usize = tx.args[0].parse().unwrap_or(0);
        if let Some(mr) = tx.args.get(1 + 3 * n).and_then(|x| x.parse::<u128>().ok()) {
            out.push(format!("mon_min_receive {} {}", mr, attr(h, "return_amount").unwrap_or(0)));
        }
    }
    // C12: SimulateSwapOperations an instant before = the final amount of the executed route (pools pairwise distinct)
    if tx.contract == "pm" && tx.kind == "route" {
        if let Some((quoted, distinct)) = ms.route_quote.take() {
            if ok {
                match quoted {
                    Some(q) => out.push(format!("mon_route_quote {} {} {}", q, attr(h, "return_amount").unwrap_or(0), distinct as u8)),
                    // the route executed although the simulation an instant before refused to price it
                    None => out.push(format!("mon_route_unquoted {}", distinct as u8)),
                }
            }
        }
    }
    // C13: an executed constant-product swap (direct, or the first hop of a route) stays within the tolerance
    if ok && tx.contract == "pm" && (tx.kind == "swap" || tx.kind == "route") && tx.funds.len() == 1 {
        let (pid, ask_d, tol) = if tx.kind == "swap" { (tx.args[0].clone(), tx.args[1].clone(), tx.args[3].clone()) }
            else { let n: usize = tx.args[0].parse().unwrap_or(0); (tx.args[3].clone(), tx.args[2].clone(), tx.args[1 + 3 * n + 2].clone()) };
        let belief = if tx.kind == "swap" { tx.args[2].clone() } else { "-".to_string() };
        if let (Some(pb), Some(pa)) = (pool(b, &pid), pool(a, &pid)) {
            let single_visit = tx.kind == "swap" || { let n: usize = tx.args[0].parse().unwrap_or(0); (0..n).filter(|i| tx.args[3 + 3 * i] == pid).count() == 1 };
            if matches!(pb.pool_type, PoolType::ConstantProduct) && single_visit && belief == "-" {
                let offer_d = &tx.funds[0].0;
                let (x, y) = (reserve(pb, offer_d), reserve(pb, &ask_d));
                // what left the ask reserve = net + protocol + burn; swap/extra fees stay. net is recovered from the
                // reserve delta and the fee shares only approximately, so use the attributes for direct swaps and the
                // reserve delta (an upper bound on net) for route hops
                let out_total = y.saturating_sub(reserve(pa, &ask_d));
                let net = if tx.kind == "swap" { attr(h, "return_amount").unwrap_or(0) } else { out_total };
                out.push(format!("mon_cp_slippage {} {} {} {} {} {}", tol, x, y, tx.funds[0].1, net, (tx.kind == "swap") as u8));
            }
            // any pool type, direct swap WITH a belief price: the return is at least offer / belief_price x (1 - tolerance)
            if tx.kind == "swap" && belief != "-" {
                out.push(format!("mon_belief {} {} {} {}", belief, tol, tx.funds[0].1, attr(h, "return_amount").unwrap_or(0)));
            }
            // stableswap, direct swap without a belief price: the spread is the shortfall of the gross output against the offer,
            // both at the pool's highest precision, expressed in ask units; spread / (return + spread) within the tolerance
            if !matches!(pb.pool_type, PoolType::ConstantProduct) && tx.kind == "swap" && belief == "-" {
                let offer_d = &tx.funds[0].0;
                let dec_of = |d: &str| -> Option<u8> { pb.asset_denoms.iter().position(|x| h.w.cd(x) == d).and_then(|i| pb.asset_decimals.get(i).copied()) };
                if let (Some(od), Some(ad), Some(mx)) = (dec_of(offer_d), dec_of(&ask_d), pb.asset_decimals.iter().max().copied()) {
                    let net = attr(h, "return_amount").unwrap_or(0);
                    let gross = net + attr(h, "swap_fee_amount").unwrap_or(0) + attr(h, "protocol_fee_amount").unwrap_or(0)
                        + attr(h, "burn_fee_amount").unwrap_or(0) + attr(h, "extra_fees_amount").unwrap_or(0);
                    out.push(format!("mon_ss_slippage {} {} {} {} {} {} {}", tol, od, ad, mx, tx.funds[0].1, gross, net));
                }
            }
        }
    }
    // C13, monotonicity: a deposit accepted under a tolerance t' right after the SAME deposit (sender, funds, pool, options,
    // state — a rejected message changes nothing) was refused under a larger tolerance t
    if tx.contract == "pm" && tx.kind == "provide" && tx.funds.len() >= 2 {
        let blank = { let mut t: Vec<&str> = line.split_whitespace().collect(); let i = 3 + 2 * tx.funds.len() + 3; if i < t.len() { t[i] = "?"; } t.join(" ") };
        let tol: Option<u128> = tx.args.get(1).and_then(|x| x.parse().ok());
        if ok {
            if let (Some((prev, t_big)), Some(t_small)) = (ms.rejected_tol_deposit.as_ref(), tol) {
                if *prev == blank && t_small < *t_big && *t_big <= 1_000_000_000_000_000_000 && !ms.fault_active {
                    out.push(format!("mon_tol_monotone {} {}", t_big, t_small));
                }
            }
            ms.rejected_tol_deposit = None;
        } else if let Some(t) = tol { if !ms.fault_active { ms.rejected_tol_deposit = Some((blank, t)); } }
    } else if !line.starts_with("q ") { ms.rejected_tol_deposit = None; }
    if tx.contract == "fm" {
        if tx.kind == "claim" && tx.funds.is_empty() {
            let ua = h.w.astr(&tx.sender);
            let lps: Vec<String> = h.lps.iter().filter(|lp| { let real = h.w.rd(lp); b.positions.iter().any(|p| p.open && p.receiver.as_str() == ua && p.lp_asset.denom == real) }).cloned().collect();
            if let (Some(cur), false) = (b.epoch, lps.is_empty()) {
                let until: u64 = if tx.args[0] == "-" { cur } else { tx.args[0].parse().unwrap_or(cur) };
                let cursor = ms.ledger.cursor.get(&tx.sender).copied();
                let valid = until <= cur && cursor.map(|l| until >= l).unwrap_or(true);
                if ok {
                    let mut s = format!("mon_claim {} {} {}", until, cursor.map(|x| x.to_string()).unwrap_or("-".into()), lps.len());
                    let mut denoms: Vec<String> = vec![];
                    for lp in lps.iter() {
                        let real = h.w.rd(lp);
                        let entry = ms.ledger.entry.get(&(tx.sender.clone(), lp.clone())).copied().unwrap_or(0);
                        s += &format!(" {} {} {}", entry, ms.ledger.hist_str(&tx.sender, lp), ms.ledger.hist_str("fm", lp));
                        // every other user's recorded weights for this LP token (independent of the contract's total)
                        let others: Vec<String> = ms.ledger.hist.keys().filter(|(u, l)| l == lp && u != "fm" && *u != tx.sender).map(|(u, _)| u.clone()).collect();
                        s += &format!(" {}", others.len());
                        for u in others.iter() { s += &format!(" {}", ms.ledger.hist_str(u, lp)); }
                        let farms: Vec<_> = b.farms.iter().filter(|f| f.lp_denom == real).collect();
                        s += &format!(" {}", farms.len());
                        for f in farms {
                            let after = a.farms.iter().find(|g| g.identifier == f.identifier);
                            let cd = after.map(|g| g.claimed_amount.u128() - f.claimed_amount.u128()).unwrap_or(0);
                            let d = h.w.cd(&f.farm_asset.denom);
                            if !denoms.contains(&d) { denoms.push(d.clone()); }
                            s += &format!(" {} {} {} {} {}", f.emission_rate, f.start_epoch, f.preliminary_end_epoch, d, cd);
                        }
                    }
                    s += &format!(" {}", denoms.len());
                    for d in denoms.iter() {
                        // what the claimant received; the farm manager's own balance moves by the same amount
                        s += &format!(" {} {} {}", d, delta(b, a, &tx.sender, d), -delta(b, a, "fm", d));
                    }
                    match &ms.rewards_quote {
                        Some(q) => { s += &format!(" 1 {}", q.len()); for (d, v) in q.iter() { s += &format!(" {} {}", d, v); } }
                        None => { s += " 0 0"; }
                    }
                    out.push(s);
                    ms.ledger.cursor.insert(tx.sender.clone(), until);
                } else if valid && !ms.fault_active {
                    out.push(format!("mon_claim_rejected {} {}", until, cursor.map(|x| x.to_string()).unwrap_or("-".into())));
                }
            }
            ms.rewards_quote = None;
        }
        // C08: a close (full or partial) splits / marks a position without creating or losing LP: the sum of the recorded amounts
        // of the owner's positions in that LP token is the same before and after, and nothing moves on the bank
        if ok && tx.contract == "fm" && tx.kind == "closepos" {
            if let Some(p) = b.positions.iter().find(|p| p.identifier == tx.args[0]) {
                let sum = |o: &Obs| -> u128 { o.positions.iter().filter(|q| q.receiver == p.receiver && q.lp_asset.denom == p.lp_asset.denom).map(|q| q.lp_asset.amount.u128()).sum() };
                let lp = h.w.cd(&p.lp_asset.denom);
                out.push(format!("mon_close_conserves {} {} {}", sum(b), sum(a), delta(b, a, "fm", &lp)));
                // C08: whatever became closed by this operation (the position itself, or the part split off) unlocks exactly
                // its own recorded unlocking duration after the block time of the close — whatever the configuration says now
                {
                    let now_s = b.now_ns / 1_000_000_000;
                    for q in a.positions.iter().filter(|q| !q.open && q.receiver == p.receiver) {
                        let was_open_or_new = b.positions.iter().find(|r| r.identifier == q.identifier).map(|r| r.open).unwrap_or(true);
                        if was_open_or_new {
                            out.push(format!("mon_close_expiry {} {} {}", q.expiring_at.map(|e| e.to_string()).unwrap_or("-".into()), now_s, p.unlocking_duration));
                        }
                    }
                }
            }
        }
        // C08: a position operation reaches a position only through its stored identifier: an accepted expand / close /
        // withdraw names a position of the before-state
        if tx.contract == "fm" && matches!(tx.kind.as_str(), "expandpos" | "closepos" | "withdrawpos") && !tx.args.is_empty() {
            let known = b.positions.iter().any(|p| p.identifier == tx.args[0]);
            out.push(format!("mon_pos_ident {} {}", known as u8, ok as u8));
        }
        if tx.kind == "withdrawpos" {
            if let Some(p) = b.positions.iter().find(|p| p.identifier == tx.args[0]) {
                let lp = h.w.cd(&p.lp_asset.denom);
                let owner = h.w.n(p.receiver.as_str());
                let now_s = b.now_ns / 1_000_000_000;
                let emergency = tx.args[1] == "true";
                let expired = p.expiring_at.map(|e| e <= now_s).unwrap_or(false);
                // C10: leaving with a position that was still OPEN (only an emergency exit can) takes its weight away: the owner's
                // and the total's latest weight in that LP token both become strictly smaller — whatever the penalty is
                if ok && p.open && !p.lp_asset.amount.is_zero() {
                    let latest = |o: &Obs, who: &str| -> u128 { o.users.get(who).and_then(|u| u.1.get(&lp)).and_then(|hh| hh.last()).map(|x| x.1).unwrap_or(0) };
                    out.push(format!("mon_exit_weight {} {} {} {}", latest(b, &owner), latest(a, &owner), latest(b, "fm"), latest(a, "fm")));
                }
                out.push(format!("mon_withdrawpos_accept {} {} {} {} {}", ok as u8, (owner == tx.sender) as u8, emergency as u8,
                    p.expiring_at.map(|e| e.to_string()).unwrap_or("-".into()), now_s));
                // the roles of the accounts: position owner, the farm manager's configured fee collector, everybody else; when the
                // collector IS the position owner the two payments cannot be told apart on the balances and the split is not judged
                let coll = fm_collector(h);
                if ok && coll != owner {
                    let owners: i128 = ["u1", "u2", "u3", "u4", "owner", "out"].iter().filter(|u| **u != owner && **u != coll).map(|u| delta(b, a, u, &lp)).sum();
                    let gone = !a.positions.iter().any(|q| q.identifier == tx.args[0]);
                    out.push(format!("mon_withdrawpos {} {} {} {} {} {} {}", p.lp_asset.amount, delta(b, a, &owner, &lp), delta(b, a, &coll, &lp), owners,
                        -delta(b, a, "fm", &lp), (emergency && !expired) as u8, gone as u8));
                    // C09: WHO shares the penalty — exactly the distinct owners of the farms on this LP token that are
                    // active now (started, not expired), recomputed here from the farms of the before-state
                    if emergency && !expired {
                        if let (Some(cur), Some(cfg)) = (b.epoch, h.w.app.wrap().query_wasm_smart::<mantra_dex_std::farm_manager::Config>(h.w.a("fm"), &mantra_dex_std::farm_manager::QueryMsg::Config {}).ok()) {
                            let mut expected: Vec<String> = vec![];
                            for f in b.farms.iter().filter(|f| f.lp_denom == p.lp_asset.denom && f.start_epoch <= cur) {
                                let r = f.preliminary_end_epoch.checked_add(1).and_then(|id| epoch_start_ns(h, id));
                                let exp = f.farm_asset.amount == f.claimed_amount
                                    || match r { Some(st) => st.saturating_add(cfg.farm_expiration_time.saturating_mul(1_000_000_000)) < b.now_ns, None => false };
                                let o = h.w.n(f.owner.as_str());
                                if !exp && !expected.contains(&o) { expected.push(o); }
                            }
                            // (the collector's own account is judged as collector, not as a farm owner)
                            let others: Vec<&str> = ["u1", "u2", "u3", "u4", "owner", "out"].into_iter().filter(|u| *u != owner && *u != coll).collect();
                            let exp_others: Vec<&&str> = others.iter().filter(|u| expected.contains(&u.to_string())).collect();
                            let paid_exp = exp_others.iter().filter(|u| delta(b, a, u, &lp) > 0).count();
                            let paid_unexp = others.iter().filter(|u| !expected.contains(&u.to_string()) && delta(b, a, u, &lp) != 0).count();
                            let amounts: Vec<i128> = exp_others.iter().map(|u| delta(b, a, u, &lp)).collect();
                            let equal = amounts.windows(2).all(|w| w[0] == w[1]);
                            out.push(format!("mon_emergency_owners {} {} {} {}", exp_others.len(), paid_exp, paid_unexp, equal as u8));
                            // C09: the penalty is split IN FULL: what stays behind in the farm manager out of the position's amount is
                            // only the rounding dust of the division among the n distinct active farm owners (< n units) —
                            // whoever those owners are (the fee collector and the position owner may be among them)
                            out.push(format!("mon_penalty_total {} {} {}", p.lp_asset.amount, -delta(b, a, "fm", &lp), expected.len()));
                            // C09: the AMOUNT withheld = floor(amount x min(cap, base x remaining/duration x weight/amount)) — judged
                            // by the model's formula on the position as it was, when the owner is not also paid as a farm owner
                            if !expected.contains(&owner) {
                                out.push(format!("mon_penalty_amount {} {} {} {} {} {}", p.lp_asset.amount, p.unlocking_duration,
                                    p.expiring_at.map(|e| e.to_string()).unwrap_or("-".into()), now_s, cfg.emergency_unlock_penalty.atomics(), delta(b, a, &owner, &lp)));
                            }
                        }
                    }
                }
            }
        }
        // a farm of the before-state that is gone, or whose identifier now names a different farm (an expired
        // farm closed by this very create_farm, whose id may be reused), involves refunds to third parties
        // C11: a farm is closed automatically (by somebody's create_farm) only once it has expired: nothing left to
        // claim, or the end of its last epoch + expiration time is in the past
        if ok && tx.kind == "createfarm" {
            let cfgq = h.w.app.wrap().query_wasm_smart::<mantra_dex_std::farm_manager::Config>(h.w.a("fm"), &mantra_dex_std::farm_manager::QueryMsg::Config {}).ok();
            for f in b.farms.iter() {
                let gone = match a.farms.iter().find(|g| g.identifier == f.identifier) {
                    None => true,
                    Some(g) => g.owner != f.owner || g.start_epoch != f.start_epoch || g.lp_denom != f.lp_denom || g.claimed_amount < f.claimed_amount,
                };
                if gone {
                    let r = f.preliminary_end_epoch.checked_add(1).and_then(|id| epoch_start_ns(h, id));
                    if let Some(c) = cfgq.as_ref() {
                        let remaining = f.farm_asset.amount.u128().saturating_sub(f.claimed_amount.u128());
                        // an end that is not representable is "never": reported as the largest instant
                        out.push(format!("mon_farm_autoclose {} {} {} {}", remaining, r.unwrap_or(u64::MAX), c.farm_expiration_time, b.now_ns));
                    }
                }
            }
        }
        // C11 / C20: an accepted CreateFarm leaves the farm it describes on record (its owner, LP token, reward) — also when it
        // closed an expired farm on the way and that farm's refund failed (the tolerated failure affects no other farm)
        if ok && tx.kind == "createfarm" {
            let lp = h.w.rd(&tx.args[0]);
            let ad = h.w.rd(&tx.args[3]);
            let aa: u128 = tx.args[4].parse().unwrap_or(0);
            let sender_a = h.w.astr(&tx.sender);
            let found = a.farms.iter().any(|f| f.lp_denom == lp && f.farm_asset.denom == ad && f.farm_asset.amount.u128() == aa && f.owner.as_str() == sender_a
                && f.claimed_amount.is_zero()
                && !b.farms.iter().any(|g| g.identifier == f.identifier && g.owner == f.owner && g.lp_denom == f.lp_denom && g.start_epoch == f.start_epoch && g.farm_asset == f.farm_asset && g.claimed_amount == f.claimed_amount && g.preliminary_end_epoch == f.preliminary_end_epoch));
            out.push(format!("mon_farm_recorded {} {}", found as u8, ms.fault_active as u8));
        }
        // C11: after an accepted CreateFarm the LP token has at most the configured number of farms
        if ok && tx.kind == "createfarm" {
            if let Some(c) = h.w.app.wrap().query_wasm_smart::<mantra_dex_std::farm_manager::Config>(h.w.a("fm"), &mantra_dex_std::farm_manager::QueryMsg::Config {}).ok() {
                let lp = h.w.rd(&tx.args[0]);
                let n = a.farms.iter().filter(|f| f.lp_denom == lp).count();
                out.push(format!("mon_farm_limit {} {}", n, c.max_concurrent_farms));
            }
        }
        // C11: an expansion is accepted only before the farm ends
        if ok && tx.kind == "expandfarm" {
            if let (Some(f), Some(cur)) = (b.farms.iter().find(|f| f.identifier == tx.args[5]), b.epoch) {
                out.push(format!("mon_farm_expand_time {} {}", cur, f.preliminary_end_epoch));
            }
        }
        // C11: an expansion adds exactly the attached amount and extends the end by amount / emission rate epochs
        if ok && tx.kind == "expandfarm" {
            if let (Some(f), Some(g)) = (b.farms.iter().find(|f| f.identifier == tx.args[5]), a.farms.iter().find(|f| f.identifier == tx.args[5])) {
                // what was really paid in (the coins of the transaction in the farm's reward denom), not what the message declares
                let fd = h.w.cd(&f.farm_asset.denom);
                let attached: u128 = tx.funds.iter().filter(|c| c.0 == fd).map(|c| c.1).sum();
                out.push(format!("mon_farm_expand {} {} {} {} {} {} {}", f.emission_rate, attached, f.preliminary_end_epoch, g.preliminary_end_epoch,
                    f.farm_asset.amount, g.farm_asset.amount, (f.emission_rate == g.emission_rate && f.start_epoch == g.start_epoch && f.owner == g.owner) as u8));
            }
        }
        // C11 / C20: farms closed by this transaction (explicitly, or automatically by a farm creation): every
        // owner receives the unclaimed remainders; with one injected bank failure at most one refund is lost
        if ok && matches!(tx.kind.as_str(), "closefarm" | "createfarm") {
            let mut groups: BTreeMap<(String, String), u128> = BTreeMap::new();
            for f in b.farms.iter() {
                let gone = match a.farms.iter().find(|g| g.identifier == f.identifier) {
                    None => true,
                    Some(g) => g.owner != f.owner || g.start_epoch != f.start_epoch || g.lp_denom != f.lp_denom || g.claimed_amount < f.claimed_amount,
                };
                let owner = h.w.n(f.owner.as_str());
                if gone {
                    *groups.entry((owner, h.w.cd(&f.farm_asset.denom))).or_default() += f.farm_asset.amount.u128().saturating_sub(f.claimed_amount.u128());
                }
            }
            if !groups.is_empty() {
                // what the sender itself pays in this transaction (a farm creation: reward + fee), per denom: a refund to the
                // sender shows in its balance net of that
                let fee = h.w.app.wrap().query_wasm_smart::<mantra_dex_std::farm_manager::Config>(h.w.a("fm"), &mantra_dex_std::farm_manager::QueryMsg::Config {}).map(|c| c.create_farm_fee).ok();
                let due = |d: &str| -> i128 {
                    if tx.kind != "createfarm" { return 0; }
                    let mut x = 0i128;
                    if tx.args[3] == d { x += tx.args[4].parse::<u128>().unwrap_or(0) as i128; }
                    if let Some(f) = fee.as_ref() { if h.w.cd(&f.denom) == d { x += f.amount.u128() as i128; } }
                    x
                };
                let missing = groups.iter().filter(|((o, d), exp)| {
                    let paid = if *o == tx.sender { due(d) } else { 0 };
                    delta(b, a, o, d) + paid < **exp as i128
                }).count();
                out.push(format!("mon_close_refunds {} {} {}", groups.len(), missing, ms.fault_active as u8));
            }
        }
        // C15: whoever closes a farm is its owner or the contract owner (whatever the farm's state: live, ended, expired)
        if tx.kind == "closefarm" && !ms.fault_active {
            if let Some(f) = b.farms.iter().find(|f| f.identifier == tx.args[0]) {
                let is_farm_owner = h.w.n(f.owner.as_str()) == tx.sender;
                let is_owner = b.text.contains(&format!("fm={}/", tx.sender));
                out.push(format!("mon_auth_fp closefarm {} {} {} 0 0", ok as u8, is_owner as u8, is_farm_owner as u8));
            }
        }
        // C11: explicit close refunds exactly the unclaimed remainder to the farm's owner and to nobody else
        if ok && tx.kind == "closefarm" && !ms.fault_active {
            if let Some(f) = b.farms.iter().find(|f| f.identifier == tx.args[0]) {
                let d = h.w.cd(&f.farm_asset.denom);
                let owner = h.w.n(f.owner.as_str());
                let remaining = f.farm_asset.amount.u128().saturating_sub(f.claimed_amount.u128());
                let others: i128 = USERS.iter().filter(|u| **u != owner).map(|u| delta(b, a, u, &d).abs()).sum::<i128>() + if USERS.contains(&fm_collector(h).as_str()) { 0 } else { delta(b, a, "fc", &d).abs() };
                out.push(format!("mon_farm_close {} {} {} {}", remaining, delta(b, a, &owner, &d), -delta(b, a, "fm", &d), others));
            }
        }
        let farm_closed = b.farms.iter().any(|f| match a.farms.iter().find(|g| g.identifier == f.identifier) {
            None => true,
            Some(g) => g.owner != f.owner || g.start_epoch != f.start_epoch || g.farm_asset.denom != f.farm_asset.denom || g.claimed_amount < f.claimed_amount,
        });
        // (when the configured fee collector is the creator itself, fee and payment cancel on its balance: not judged)
        // (… and when the farm manager is its own fee collector it keeps reward + fee on one balance: `MonSoundF.monFarmCreate_fires_collector_is_fm`)
        if ok && tx.kind == "createfarm" && !farm_closed && fm_collector(h) != tx.sender && fm_collector(h) != "fm" {
            // what the creator paid, what the fee collector and the farm manager received
            let fee = h.w.app.wrap().query_wasm_smart::<mantra_dex_std::farm_manager::Config>(h.w.a("fm"), &mantra_dex_std::farm_manager::QueryMsg::Config {}).map(|c| c.create_farm_fee).ok();
            if let Some(fee) = fee {
                let ad = &tx.args[3]; let aa: u128 = tx.args[4].parse().unwrap_or(0);
                let mut extra = 0i128; // anything taken from the creator beyond reward + fee
                let mut denoms: Vec<String> = BASE_DENOMS.iter().map(|d| d.to_string()).collect();
                denoms.extend(h.lps.iter().cloned());
                for d in denoms.iter() {
                    let paid = -delta(b, a, &tx.sender, d);
                    let mut due = 0i128;
                    if d == ad { due += aa as i128; }
                    if *d == fee.denom { due += fee.amount.u128() as i128; }
                    extra += (paid - due).abs();
                }
                let newfarm = a.farms.iter().find(|f| !b.farms.iter().any(|g| g.identifier == f.identifier));
                out.push(format!("mon_farm_create {} {} {} {} {}", aa, fee.amount, delta(b, a, &fm_collector(h), &h.w.cd(&fee.denom)), extra,
                    newfarm.map(|f| f.farm_asset.amount.u128()).unwrap_or(0)));
            }
        }
    }
}
