//! The real system on cw-multi-test: four contracts of /repo, `StargateMock` token factory, and a
//! fault-injecting wrapper around the bank module (`FaultyBank`: the k-th bank call of a
//! transaction fails).  Addresses are canonicalised to short names (`u1`, `pm`, …) in all output.
use std::cell::RefCell;
use std::collections::BTreeMap;
use std::rc::Rc;

use anyhow::{bail, Result as AnyResult};
use cosmwasm_std::testing::MockStorage;
use cosmwasm_std::{
    coin, Addr, Api, BankMsg, BankQuery, Binary, BlockInfo, Coin, CustomMsg, CustomQuery, Decimal, Empty,
    Querier, Storage, Timestamp, Uint128, Uint64,
};
use cw_multi_test::{
    App, AppBuilder, AppResponse, Bank, BankKeeper, BankSudo, Contract, ContractWrapper, CosmosRouter,
    DistributionKeeper, Executor, FailingModule, GovFailingModule, IbcFailingModule, MockApiBech32, Module,
    StakeKeeper, WasmKeeper,
};
use mantra_common_testing::multi_test::stargate_mock::StargateMock;
use mantra_dex_std::epoch_manager::EpochConfig;
use serde::de::DeserializeOwned;

pub const GENESIS: u64 = 1_714_057_200;
pub const DAY: u64 = 86_400;

#[derive(Default)]
pub struct FaultState {
    pub calls: u64,
    pub fail_at: Option<u64>,
    /// what the k-th call was (for coverage accounting)
    pub log: Vec<String>,
}

pub struct FaultyBank {
    inner: BankKeeper,
    pub state: Rc<RefCell<FaultState>>,
}

impl FaultyBank {
    fn tick(&self, what: String) -> AnyResult<()> {
        let mut s = self.state.borrow_mut();
        s.calls += 1;
        s.log.push(what);
        if s.fail_at == Some(s.calls) {
            bail!("injected bank fault at call {}", s.calls)
        }
        Ok(())
    }
}

impl Bank for FaultyBank {}

impl Module for FaultyBank {
    type ExecT = BankMsg;
    type QueryT = BankQuery;
    type SudoT = BankSudo;

    fn execute<ExecC, QueryC>(
        &self,
        api: &dyn Api,
        storage: &mut dyn Storage,
        router: &dyn CosmosRouter<ExecC = ExecC, QueryC = QueryC>,
        block: &BlockInfo,
        sender: Addr,
        msg: BankMsg,
    ) -> AnyResult<AppResponse>
    where
        ExecC: CustomMsg + DeserializeOwned + 'static,
        QueryC: CustomQuery + DeserializeOwned + 'static,
    {
        let what = match &msg {
            BankMsg::Send { .. } => "send",
            BankMsg::Burn { .. } => "burn",
            _ => "other",
        };
        self.tick(what.to_string())?;
        self.inner.execute(api, storage, router, block, sender, msg)
    }

    fn query(
        &self,
        api: &dyn Api,
        storage: &dyn Storage,
        querier: &dyn Querier,
        block: &BlockInfo,
        request: BankQuery,
    ) -> AnyResult<Binary> {
        self.inner.query(api, storage, querier, block, request)
    }

    fn sudo<ExecC, QueryC>(
        &self,
        api: &dyn Api,
        storage: &mut dyn Storage,
        router: &dyn CosmosRouter<ExecC = ExecC, QueryC = QueryC>,
        block: &BlockInfo,
        msg: BankSudo,
    ) -> AnyResult<AppResponse>
    where
        ExecC: CustomMsg + DeserializeOwned + 'static,
        QueryC: CustomQuery + DeserializeOwned + 'static,
    {
        self.tick("mint".to_string())?;
        self.inner.sudo(api, storage, router, block, msg)
    }
}

pub type DexApp = App<
    FaultyBank,
    MockApiBech32,
    MockStorage,
    FailingModule<Empty, Empty, Empty>,
    WasmKeeper<Empty, Empty>,
    StakeKeeper,
    DistributionKeeper,
    IbcFailingModule,
    GovFailingModule,
    FlakyStargate,
>;

/// The token-factory mock behind a switch: while `queries_off` is set, every stargate / gRPC QUERY fails (a query path that
/// is not — or no longer — whitelisted for contracts), messages keep working and keep charging their fees.
pub struct FlakyStargate {
    pub inner: StargateMock,
    pub queries_off: Rc<std::cell::Cell<bool>>,
}

impl cw_multi_test::Stargate for FlakyStargate {
    fn execute_stargate<ExecC, QueryC>(&self, api: &dyn Api, storage: &mut dyn Storage, router: &dyn CosmosRouter<ExecC = ExecC, QueryC = QueryC>,
        block: &BlockInfo, sender: Addr, type_url: String, value: cosmwasm_std::Binary) -> AnyResult<AppResponse>
    where ExecC: CustomMsg + DeserializeOwned + 'static, QueryC: CustomQuery + DeserializeOwned + 'static {
        self.inner.execute_stargate(api, storage, router, block, sender, type_url, value)
    }
    fn execute_any<ExecC, QueryC>(&self, api: &dyn Api, storage: &mut dyn Storage, router: &dyn CosmosRouter<ExecC = ExecC, QueryC = QueryC>,
        block: &BlockInfo, sender: Addr, msg: cosmwasm_std::AnyMsg) -> AnyResult<AppResponse>
    where ExecC: CustomMsg + DeserializeOwned + 'static, QueryC: CustomQuery + DeserializeOwned + 'static {
        self.inner.execute_any(api, storage, router, block, sender, msg)
    }
    fn query_stargate(&self, api: &dyn Api, storage: &dyn Storage, querier: &dyn cosmwasm_std::Querier, block: &BlockInfo, path: String, data: cosmwasm_std::Binary) -> AnyResult<cosmwasm_std::Binary> {
        if self.queries_off.get() { anyhow::bail!("'{path}' path is not allowed from the contract"); }
        self.inner.query_stargate(api, storage, querier, block, path, data)
    }
    fn query_grpc(&self, api: &dyn Api, storage: &dyn Storage, querier: &dyn cosmwasm_std::Querier, block: &BlockInfo, request: cosmwasm_std::GrpcQuery) -> AnyResult<cosmwasm_std::Binary> {
        if self.queries_off.get() { anyhow::bail!("'{}' path is not allowed from the contract", request.path); }
        self.inner.query_grpc(api, storage, querier, block, request)
    }
}

fn pm_contract() -> Box<dyn Contract<Empty>> {
    Box::new(
        ContractWrapper::new_with_empty(
            pool_manager::contract::execute,
            pool_manager::contract::instantiate,
            pool_manager::contract::query,
        )
        .with_reply(pool_manager::contract::reply),
    )
}
fn fm_contract() -> Box<dyn Contract<Empty>> {
    Box::new(
        ContractWrapper::new(
            farm_manager::contract::execute,
            farm_manager::contract::instantiate,
            farm_manager::contract::query,
        )
        .with_reply(farm_manager::contract::reply),
    )
}
fn em_contract() -> Box<dyn Contract<Empty>> {
    Box::new(ContractWrapper::new(
        epoch_manager::contract::execute,
        epoch_manager::contract::instantiate,
        epoch_manager::contract::query,
    ))
}
fn fc_contract() -> Box<dyn Contract<Empty>> {
    Box::new(ContractWrapper::new(
        fee_collector::contract::execute,
        fee_collector::contract::instantiate,
        fee_collector::contract::query,
    ))
}

/// configuration of a deployment (printed on the `init` line, parsed by the Lean driver)
#[derive(Clone, Debug)]
pub struct WorldCfg {
    pub tf_fees: Vec<Coin>,
    pub pool_creation_fee: Coin,
    pub farm_fee: Coin,
    pub max_concurrent_farms: u32,
    pub max_farm_epoch_buffer: u32,
    pub min_unlocking: u64,
    pub max_unlocking: u64,
    pub farm_expiration_time: u64,
    pub emergency_penalty: Decimal,
    pub epoch_duration: u64,
}

impl Default for WorldCfg {
    fn default() -> Self {
        WorldCfg {
            tf_fees: vec![coin(1000, "uom")],
            pool_creation_fee: coin(1000, "uusd"),
            farm_fee: coin(1000, "uom"),
            max_concurrent_farms: 2,
            max_farm_epoch_buffer: 14,
            min_unlocking: DAY,
            max_unlocking: 31_556_926,
            farm_expiration_time: 2_629_746,
            emergency_penalty: Decimal::percent(10),
            epoch_duration: DAY,
        }
    }
}

pub const USERS: [&str; 6] = ["owner", "u1", "u2", "u3", "u4", "out"];
pub const BASE_DENOMS: [&str; 7] = ["uusdc", "ausdy", "uusdt", "udai", "uom", "uluna", "uusd"];

pub struct World {
    pub app: DexApp,
    pub fault: Rc<RefCell<FaultState>>,
    /// switch of `FlakyStargate`
    pub tf_queries_off: Rc<std::cell::Cell<bool>>,
    pub cfg: WorldCfg,
    /// short name -> real address
    pub addr: BTreeMap<String, Addr>,
    /// real address string -> short name
    pub name: BTreeMap<String, String>,
}

impl World {
    pub fn new(cfg: WorldCfg) -> World {
        let api = MockApiBech32::new("mantra");
        let mut addr = BTreeMap::new();
        for u in USERS.iter() {
            addr.insert(u.to_string(), api.addr_make(u));
        }
        let fault = Rc::new(RefCell::new(FaultState::default()));
        let tf_queries_off = Rc::new(std::cell::Cell::new(false));
        let bank = FaultyBank { inner: BankKeeper::new(), state: fault.clone() };
        let initial: Vec<Coin> = BASE_DENOMS.iter().map(|d| coin(u128::MAX / 1_000_000, *d)).collect();
        let users: Vec<Addr> = USERS.iter().map(|u| addr[*u].clone()).collect();
        let mut app: DexApp = AppBuilder::new()
            .with_api(api)
            .with_wasm(WasmKeeper::default())
            .with_bank(bank)
            .with_stargate(FlakyStargate { inner: StargateMock::new(cfg.tf_fees.clone()), queries_off: tf_queries_off.clone() })
            .build(|router, _api, storage| {
                for u in users.iter() {
                    router.bank.inner.init_balance(storage, u, initial.clone()).unwrap();
                }
            });
        let mut b = app.block_info();
        b.time = Timestamp::from_seconds(GENESIS);
        app.set_block(b);
        let owner = addr["owner"].clone();
        // epoch manager
        let em_id = app.store_code(em_contract());
        let em = app
            .instantiate_contract(
                em_id,
                owner.clone(),
                &mantra_dex_std::epoch_manager::InstantiateMsg {
                    owner: owner.to_string(),
                    epoch_config: EpochConfig { duration: Uint64::new(cfg.epoch_duration), genesis_epoch: Uint64::new(GENESIS) },
                },
                &[],
                "em",
                None,
            )
            .unwrap();
        let fc_id = app.store_code(fc_contract());
        let fc = app
            .instantiate_contract(fc_id, owner.clone(), &mantra_dex_std::fee_collector::InstantiateMsg {}, &[], "fc", None)
            .unwrap();
        let fm_id = app.store_code(fm_contract());
        let fm = app
            .instantiate_contract(
                fm_id,
                owner.clone(),
                &mantra_dex_std::farm_manager::InstantiateMsg {
                    owner: owner.to_string(),
                    epoch_manager_addr: em.to_string(),
                    fee_collector_addr: fc.to_string(),
                    pool_manager_addr: "".to_string(),
                    create_farm_fee: cfg.farm_fee.clone(),
                    max_concurrent_farms: cfg.max_concurrent_farms,
                    max_farm_epoch_buffer: cfg.max_farm_epoch_buffer,
                    min_unlocking_duration: cfg.min_unlocking,
                    max_unlocking_duration: cfg.max_unlocking,
                    farm_expiration_time: cfg.farm_expiration_time,
                    emergency_unlock_penalty: cfg.emergency_penalty,
                },
                &[],
                "fm",
                None,
            )
            .unwrap();
        let pm_id = app.store_code(pm_contract());
        let pm = app
            .instantiate_contract(
                pm_id,
                owner.clone(),
                &mantra_dex_std::pool_manager::InstantiateMsg {
                    fee_collector_addr: fc.to_string(),
                    farm_manager_addr: fm.to_string(),
                    pool_creation_fee: cfg.pool_creation_fee.clone(),
                },
                &[],
                "pm",
                None,
            )
            .unwrap();
        // point the farm manager at the pool manager
        app.execute_contract(
            owner.clone(),
            fm.clone(),
            &mantra_dex_std::farm_manager::ExecuteMsg::UpdateConfig {
                fee_collector_addr: None,
                epoch_manager_addr: None,
                pool_manager_addr: Some(pm.to_string()),
                create_farm_fee: None,
                max_concurrent_farms: None,
                max_farm_epoch_buffer: None,
                min_unlocking_duration: None,
                max_unlocking_duration: None,
                farm_expiration_time: None,
                emergency_unlock_penalty: None,
            },
            &[],
        )
        .unwrap();
        addr.insert("pm".into(), pm);
        addr.insert("fm".into(), fm);
        addr.insert("em".into(), em);
        addr.insert("fc".into(), fc);
        let name = addr.iter().map(|(k, v)| (v.to_string(), k.clone())).collect();
        fault.borrow_mut().calls = 0;
        fault.borrow_mut().log.clear();
        World { app, fault, tf_queries_off, cfg, addr, name }
    }

    pub fn a(&self, name: &str) -> Addr {
        match self.addr.get(name) {
            Some(a) => a.clone(),
            None => Addr::unchecked(name), // deliberately invalid / unknown address
        }
    }
    /// real address string (or an invalid string passed through)
    pub fn astr(&self, name: &str) -> String {
        self.a(name).to_string()
    }
    /// canonical short name of a real address (or the string itself)
    pub fn n(&self, real: &str) -> String {
        self.name.get(real).cloned().unwrap_or_else(|| real.to_string())
    }
    /// canonical denom: the pool manager's address inside LP denoms becomes `pm`
    pub fn cd(&self, denom: &str) -> String {
        denom.replace(self.addr["pm"].as_str(), "pm")
    }
    /// real denom from canonical
    pub fn rd(&self, denom: &str) -> String {
        if let Some(rest) = denom.strip_prefix("factory/pm/") {
            format!("factory/{}/{}", self.addr["pm"], rest)
        } else {
            denom.to_string()
        }
    }
    pub fn now_ns(&self) -> u64 {
        self.app.block_info().time.nanos()
    }
    pub fn advance(&mut self, ns: u64) {
        let mut b = self.app.block_info();
        b.time = Timestamp::from_nanos(b.time.nanos() + ns);
        b.height += 1;
        self.app.set_block(b);
    }
    pub fn balance(&self, who: &str, denom: &str) -> u128 {
        self.app.wrap().query_balance(self.a(who), self.rd(denom)).map(|c| c.amount.u128()).unwrap_or(0)
    }
    pub fn supply(&self, denom: &str) -> u128 {
        self.app.wrap().query_supply(self.rd(denom)).map(|c| c.amount.u128()).unwrap_or(0)
    }
    /// arm the fault injector for the next transaction
    pub fn arm(&self, fail_at: Option<u64>) {
        let mut s = self.fault.borrow_mut();
        s.calls = 0;
        s.fail_at = fail_at;
        s.log.clear();
    }
    pub fn real_coins(&self, cs: &[Coin]) -> Vec<Coin> {
        cs.iter().map(|c| Coin { denom: self.rd(&c.denom), amount: c.amount }).collect()
    }
}

pub fn u128s(x: Uint128) -> String {
    x.u128().to_string()
}
