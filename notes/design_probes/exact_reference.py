import subprocess, re, sys, random
from fractions import Fraction
P='/root/scratch/target/release/probe'
def run(amp,fee,oi,ai,offer,assets):
    out=subprocess.run([P,str(amp),str(fee),str(oi),str(ai),str(offer)]+[f"{a}:{d}" for a,d in assets],capture_output=True,text=True).stdout.strip()
    m=re.search(r'return_amount: Uint128\((\d+)\), slippage_amount: Uint128\((\d+)\), swap_fee_amount: Uint128\((\d+)\)',out)
    if not m: return None,out
    return tuple(int(x) for x in m.groups()),out
# exact invariant with Ann = A*n:  Ann*S + D = Ann*D + D^(n+1)/(n^n prod)
def G(D,xs,A):
    n=len(xs); Ann=A*n; S=sum(xs); Pr=1
    for x in xs: Pr*=x
    return Fraction(D**(n+1),n**n*Pr)+(Ann-1)*D-Ann*S
def exactD(xs,A):
    # xs Fractions; returns Fraction approx by bisection to 1e-40 rel
    lo,hi=Fraction(0),sum(xs)
    for _ in range(400):
        mid=(lo+hi)/2
        if G(mid,xs,A)<0: lo=mid
        else: hi=mid
    return lo
def exact_y(xs,j,D,A):
    # solve for x_j given others and D : G=0 in y
    n=len(xs); Ann=A*n
    others=[x for i,x in enumerate(xs) if i!=j]
    S_=sum(others); Pr=1
    for x in others: Pr*=x
    # Ann*(S_+y)+D = Ann*D + D^(n+1)/(n^n Pr y)  => Ann y^2 + (Ann S_ + D - Ann D) y - D^(n+1)/(n^n Pr)=0
    c=Fraction(D**(n+1))/(n**n*Pr)
    b=Ann*S_+D-Ann*D
    # positive root via bisection
    lo,hi=Fraction(0),D*10+1
    f=lambda y: Ann*y*y+b*y-c
    while f(hi)<0: hi*=2
    for _ in range(500):
        mid=(lo+hi)/2
        if f(mid)<0: lo=mid
        else: hi=mid
    return lo
def check(amp,oi,ai,offer,assets,fee=0):
    r,out=run(amp,fee,oi,ai,offer,assets)
    maxd=max(d for _,d in assets)
    xs=[Fraction(a*10**(maxd-d)) for a,d in assets]
    D0=exactD(xs,amp)
    xs2=list(xs); xs2[oi]+=offer*10**(maxd-assets[oi][1])
    y=exact_y(xs2,ai,D0,amp)
    exact_ret=(xs[ai]-y)/10**(maxd-assets[ai][1])
    if r is None: return None,float(exact_ret),out
    gross=r[0]+r[2]
    # D after
    xs3=list(xs2); xs3[ai]-=gross*10**(maxd-assets[ai][1])
    D1=exactD(xs3,amp)
    return gross,float(exact_ret),float(gross-exact_ret),float(D1-D0)
if __name__=='__main__':
    print(check(100,0,1,10**6,[(10**12,6),(10**12,6)]))
    print(check(100,0,1,10**6,[(10**12,6),(10**24,18)]))
    print(check(100,1,0,10**18,[(10**12,6),(10**24,18)]))
    print(check(100,0,1,1,[(10**12,6),(10**24,18)]))
    print(check(100,1,0,10**11,[(10**12,6),(10**24,18)]))
    print(check(100,1,0,10**12+5,[(10**12,6),(10**24,18)]))
    print(check(85,0,1,12345678,[(3*10**11,6),(10**12,6),(7*10**11,6)]))
    print(check(1,0,1,10**21,[(10**24,18),(10**24,18)]))
    print(check(1000,0,1,10**21,[(10**27,18),(10**27,18)]))
