from ref import *
E=10**18
for A in [1,10,100]:
  for skew in [1.001,1.01,1.03,1.05,1.1,1.2,1.5,2,5]:
    a=1000*E; b=int(1000*skew)*E if skew>=1.2 else int(1000*E*skew)
    print(A,skew,check(A,0,1,10*E,[(a,18),(b,18)]))
