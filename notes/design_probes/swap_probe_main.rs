use cosmwasm_std::{coin, Decimal, Uint128};
use mantra_dex_std::fee::{Fee, PoolFee};
use mantra_dex_std::pool_manager::{PoolInfo, PoolStatus, PoolType};
use pool_manager::helpers::compute_swap;

fn pool(assets: Vec<(u128, &str, u8)>, amp: u64, fee_bps: u64) -> PoolInfo {
    PoolInfo {
        assets: assets.iter().map(|(a, d, _)| coin(*a, *d)).collect(),
        asset_decimals: assets.iter().map(|x| x.2).collect(),
        asset_denoms: assets.iter().map(|x| x.1.to_string()).collect(),
        pool_type: if amp == 0 { PoolType::ConstantProduct } else { PoolType::StableSwap { amp } },
        pool_identifier: "p".into(),
        lp_denom: "factory/x/p.LP".into(),
        pool_fees: PoolFee {
            swap_fee: Fee { share: Decimal::bps(fee_bps) },
            protocol_fee: Fee { share: Decimal::zero() },
            burn_fee: Fee { share: Decimal::zero() },
            extra_fees: vec![],
        },
        status: PoolStatus::default(),
    }
}

fn main() {
    let args: Vec<String> = std::env::args().collect();
    // usage: probe amp fee offer_idx ask_idx offer_amt  a0:d0 a1:d1 ...
    let amp: u64 = args[1].parse().unwrap();
    let fee: u64 = args[2].parse().unwrap();
    let oi: usize = args[3].parse().unwrap();
    let ai: usize = args[4].parse().unwrap();
    let offer: u128 = args[5].parse().unwrap();
    let names = ["a", "b", "c", "d"];
    let assets: Vec<(u128, &str, u8)> = args[6..]
        .iter()
        .enumerate()
        .map(|(i, s)| {
            let mut it = s.split(':');
            (it.next().unwrap().parse().unwrap(), names[i], it.next().unwrap().parse().unwrap())
        })
        .collect();
    let p = pool(assets, amp, fee);
    let r = compute_swap(&p, &coin(offer, names[oi]), names[ai]);
    println!("{:?}", r);
    let _ = Uint128::zero();
}
