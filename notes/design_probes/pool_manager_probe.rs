use cosmwasm_std::{coin, Decimal, Uint128};
use mantra_common_testing::multi_test::stargate_mock::StargateMock;
use mantra_dex_std::fee::{Fee, PoolFee};
use mantra_dex_std::pool_manager::PoolType;

use crate::tests::suite::TestingSuite;

fn fees(bps: u64) -> PoolFee {
    PoolFee {
        protocol_fee: Fee { share: Decimal::zero() },
        swap_fee: Fee { share: Decimal::bps(bps) },
        burn_fee: Fee { share: Decimal::zero() },
        extra_fees: vec![],
    }
}
const BIG: u128 = 1_000_000_000_000_000_000_000_000_000u128; // 1e27

fn suite() -> TestingSuite {
    let mut s = TestingSuite::default_with_balances(
        vec![coin(BIG, "uusdc"), coin(BIG, "ausdy"), coin(BIG, "uom"), coin(BIG, "aeth"), coin(BIG, "uusd")],
        StargateMock::new(vec![coin(1000, "uom")]),
    );
    s.instantiate_default();
    s
}

fn show(s: &TestingSuite, id: &str, tag: &str) {
    s.query_pools(Some(id.to_string()), None, None, |r| {
        let p = &r.unwrap().pools[0];
        println!("{tag}: denoms={:?} decimals={:?} assets={:?} supply={}", p.pool_info.asset_denoms, p.pool_info.asset_decimals,
            p.pool_info.assets.iter().map(|c| c.to_string()).collect::<Vec<_>>(), p.total_share.amount);
    });
}

// F-08 reorder
#[test]
fn probe_f08_reorder() {
    let mut s = suite();
    let c = s.creator();
    s.create_pool(&c, vec!["uusdc".into(), "ausdy".into()], vec![6, 18], fees(0), PoolType::StableSwap { amp: 100 },
        Some("x".into()), vec![coin(1000, "uusd"), coin(1000, "uom")], |r| { r.unwrap(); });
    let id = "o.x".to_string();
    s.provide_liquidity(&c, id.clone(), None, None, None, None, None,
        vec![coin(1_000_000_000_000, "uusdc"), coin(1_000_000_000_000_000_000_000_000, "ausdy")], |r| { r.unwrap(); });
    show(&s, &id, "after first deposit");
    s.query_simulation(id.clone(), coin(1_000_000, "uusdc"), "ausdy".into(), |r| println!("sim before: {:?}", r.map(|x| x.return_amount)));
    // dust deposit with tolerance 1
    for (a, b) in [(1u128, 1u128), (1, 1_000_000), (1, 1_000_000_000_000), (0, 1_000_000)] {
        let mut f = vec![coin(b, "ausdy")];
        if a > 0 { f.push(coin(a, "uusdc")); } else { f.push(coin(1, "uusdc")); f[0] = coin(b, "ausdy"); }
        s.provide_liquidity(&c, id.clone(), None, None, Some(Decimal::one()), None, None, f,
            |r| { println!("dust deposit ({a},{b}) tol=1: {:?}", r.map(|_| ()).map_err(|e| e.root_cause().to_string())); });
        show(&s, &id, "  ->");
    }
    show(&s, &id, "after dust deposit");
    s.query_simulation(id.clone(), coin(1_000_000, "uusdc"), "ausdy".into(), |r| println!("sim after: {:?}", r.map(|x| x.return_amount).map_err(|e| e.to_string())));
    s.query_simulation(id.clone(), coin(1_000_000_000_000_000_000, "ausdy"), "uusdc".into(), |r| println!("sim after rev: {:?}", r.map(|x| x.return_amount).map_err(|e| e.to_string())));
}

// F-02 withdraw rounding
#[test]
fn probe_f02_withdraw() {
    let mut s = suite();
    let c = s.creator();
    s.create_pool(&c, vec!["aeth".into(), "ausdy".into()], vec![18, 18], fees(0), PoolType::ConstantProduct,
        Some("y".into()), vec![coin(1000, "uusd"), coin(1000, "uom")], |r| { r.unwrap(); });
    let id = "o.y".to_string();
    let e21 = 1_000_000_000_000_000_000_000u128;
    s.provide_liquidity(&c, id.clone(), None, None, None, None, None, vec![coin(e21, "aeth"), coin(5 * e21, "ausdy")], |r| { r.unwrap(); });
    show(&s, &id, "cp pool");
    let lp = s.get_lp_denom(id.clone());
    // dust LP worth >= 1 unit
    s.withdraw_liquidity(&c, id.clone(), vec![coin(999, lp.clone())], |r| { println!("withdraw 999 LP: {:?}", r.map(|_| ()).map_err(|e| e.root_cause().to_string())); });
    // third of supply-ish
    let amt = 745_355_992_499_929_898_000u128; // arbitrary
    s.withdraw_liquidity(&c, id.clone(), vec![coin(amt, lp.clone())], |r| {
        let r = r.unwrap();
        for e in r.events { for a in e.attributes { if a.key == "pool_reserves" || a.key=="withdrawn_shares" { println!("{}={}", a.key, a.value); } } }
    });
    show(&s, &id, "after withdraw");
    let _ = Uint128::zero();
}
