use cosmwasm_std::{coin, Decimal, Uint128};
use mantra_dex_std::fee::{Fee, PoolFee};
use mantra_dex_std::pool_manager::{PoolInfo, PoolStatus, PoolType};
use pool_manager::helpers::{compute_offer_amount, compute_swap};
fn main() {
    let a: Vec<String> = std::env::args().collect();
    let x: u128 = a[1].parse().unwrap();
    let y: u128 = a[2].parse().unwrap();
    let ask: u128 = a[3].parse().unwrap();
    let fs: Vec<u64> = a[4].split(',').map(|s| s.parse().unwrap()).collect(); // in 1e-6 units: swap,protocol,burn
    let fee = |v: u64| Fee { share: Decimal::from_ratio(v, 1_000_000u64) };
    let pf = PoolFee { swap_fee: fee(fs[0]), protocol_fee: fee(fs[1]), burn_fee: fee(fs[2]), extra_fees: vec![] };
    let p = PoolInfo {
        assets: vec![coin(x, "a"), coin(y, "b")], asset_decimals: vec![6, 6],
        asset_denoms: vec!["a".into(), "b".into()], pool_type: PoolType::ConstantProduct,
        pool_identifier: "p".into(), lp_denom: "l".into(), pool_fees: pf.clone(), status: PoolStatus::default(),
    };
    let q = compute_offer_amount(Uint128::new(x), Uint128::new(y), Uint128::new(ask), pf).unwrap();
    let o = q.offer_amount.u128();
    for d in [0u128, 1, 2, 10, 1000, 1000000] {
        let r = compute_swap(&p, &coin(o + d, "a"), "b").unwrap();
        println!("offer={}+{} return={} short={}", o, d, r.return_amount, ask as i128 - r.return_amount.u128() as i128);
    }
}
