use cosmwasm_std::{coin, Coin, Decimal, Uint128};
use mantra_dex_std::farm_manager::{FarmAction, FarmParams, PositionAction, RewardsResponse};

use crate::common::suite::TestingSuite;
use crate::common::MOCK_CONTRACT_ADDR_1;

fn lp(n: &str) -> String {
    format!("factory/{MOCK_CONTRACT_ADDR_1}/{n}.LP")
}
fn suite() -> TestingSuite {
    let mut s = TestingSuite::default_with_balances(vec![
        coin(1_000_000_000, "uom"),
        coin(1_000_000_000, "uusdy"),
        coin(1_000_000_000, "uosmo"),
        coin(1_000_000_000, lp("a")),
        coin(1_000_000_000, lp("b")),
    ]);
    s.instantiate_default();
    s
}
fn farm(s: &mut TestingSuite, who: &cosmwasm_std::Addr, lpd: &str, start: u64, end: u64, amt: u128) {
    s.manage_farm(
        who,
        FarmAction::Create {
            params: FarmParams {
                lp_denom: lpd.to_string(),
                start_epoch: Some(start),
                preliminary_end_epoch: Some(end),
                curve: None,
                farm_asset: Coin { denom: "uusdy".into(), amount: Uint128::new(amt) },
                farm_identifier: None,
            },
        },
        vec![coin(amt, "uusdy"), coin(1_000, "uom")],
        |r| { r.unwrap(); },
    );
}
fn open(s: &mut TestingSuite, who: &cosmwasm_std::Addr, id: &str, lpd: &str, amt: u128, dur: u64) {
    s.manage_position(
        who,
        PositionAction::Create { identifier: Some(id.into()), unlocking_duration: dur, receiver: None },
        vec![coin(amt, lpd)],
        |r| { r.unwrap(); },
    );
}
fn bal(s: &mut TestingSuite, who: &cosmwasm_std::Addr, d: &str) -> u128 {
    let out = std::cell::Cell::new(0u128);
    s.query_balance(d.to_string(), who, |b| out.set(b.u128()));
    out.get()
}
fn weight(s: &mut TestingSuite, who: &cosmwasm_std::Addr, d: &str, e: u64) -> Option<u128> {
    let out = std::cell::Cell::new(None);
    s.query_lp_weight(who, d, e, |r| out.set(r.ok().map(|x| x.lp_weight.u128())));
    out.get()
}

// F-07: piecewise fills then full close push the total below the sum of users
#[test]
fn probe_f07_total_below_sum() {
    let mut s = suite();
    let a = s.senders[0].clone();
    let b = s.senders[1].clone();
    let fm = s.farm_manager_addr.clone();
    let l = lp("a");
    // duration with fractional multiplier: ~1.5x? use 3 months => 2.12x
    let dur = 7_889_238u64;
    open(&mut s, &b, "b1", &l, 1000, 86_400);
    open(&mut s, &a, "a1", &l, 1, dur);
    for _ in 0..9 {
        s.manage_position(&a, PositionAction::Expand { identifier: "u-a1".into() }, vec![coin(1, l.clone())], |r| { r.unwrap(); });
    }
    println!("epoch1 total={:?} a={:?} b={:?}", weight(&mut s, &fm, &l, 1), weight(&mut s, &a, &l, 1), weight(&mut s, &b, &l, 1));
    s.add_one_epoch();
    s.manage_position(&a, PositionAction::Close { identifier: "u-a1".into(), lp_asset: None }, vec![], |r| { r.unwrap(); });
    println!("epoch2 total={:?} a={:?} b(e1)={:?}", weight(&mut s, &fm, &l, 2), weight(&mut s, &a, &l, 2), weight(&mut s, &b, &l, 1));
}

// F-05: zero fee in a different denom
#[test]
fn probe_f05_zero_fee() {
    let mut s = suite();
    let a = s.senders[0].clone();
    let fm = s.farm_manager_addr.clone();
    s.update_config(&a, None, None, None, Some(coin(0, "uom")), None, None, None, None, None, None, vec![], |r| { r.unwrap(); });
    let l = lp("a");
    let p = FarmParams { lp_denom: l.clone(), start_epoch: None, preliminary_end_epoch: None, curve: None,
        farm_asset: coin(8000, "uusdy"), farm_identifier: None };
    s.manage_farm(&a, FarmAction::Create { params: p.clone() }, vec![coin(8000, "uusdy")], |r| { println!("exact reward only: {:?}", r.map(|_| ()).map_err(|e| e.root_cause().to_string())); });
    let before = bal(&mut s, &fm, "uosmo");
    s.manage_farm(&a, FarmAction::Create { params: p }, vec![coin(8000, "uusdy"), coin(777, "uosmo")], |r| { println!("reward + stray: {:?}", r.map(|_| ()).map_err(|e| e.root_cause().to_string())); });
    println!("fm stray uosmo kept: {}", bal(&mut s, &fm, "uosmo") - before);
}

// F-06: earliest contract snapshot later than start_from is skipped
#[test]
fn probe_f06_skipped_epoch() {
    for claim_before in [false, true] {
        let mut s = suite();
        let a = s.senders[0].clone();
        let la = lp("a");
        let lb = lp("b");
        farm(&mut s, &a.clone(), &la, 1, 21, 20_000);
        farm(&mut s, &a.clone(), &lb, 1, 21, 20_000);
        let u = s.senders[1].clone();
        open(&mut s, &u, "x1", &la, 1000, 86_400); // epoch 0 -> weight from 1
        s.add_one_epoch(); s.add_one_epoch(); // epoch 2
        s.claim(&u, vec![], None, |r| { r.unwrap(); }); // last claimed = 2
        s.add_one_epoch(); s.add_one_epoch(); // epoch 4
        if claim_before { s.claim(&u, vec![], None, |r| { r.unwrap(); }); }
        open(&mut s, &u, "x2", &lb, 1000, 86_400); // first ever for lb; weight from 5
        s.add_one_epoch(); s.add_one_epoch(); // epoch 6
        let before = bal(&mut s, &u, "uusdy");
        s.query_rewards(&u, None, |r| { if let Ok(RewardsResponse::RewardsResponse { rewards_per_lp_denom, .. }) = r { println!("claim_before={claim_before} per-lp {:?}", rewards_per_lp_denom); } });
        s.claim(&u, vec![], None, |r| { r.unwrap(); });
        println!("claim_before={claim_before} paid at epoch 6: {}", bal(&mut s, &u, "uusdy") - before);
    }
}

// F-04: open then claim with earlier until
#[test]
fn probe_f04_until() {
    let mut s = suite();
    let a = s.senders[0].clone();
    let l = lp("a");
    farm(&mut s, &a.clone(), &l, 1, 21, 20_000);
    let u = s.senders[1].clone();
    let v = s.senders[2].clone();
    open(&mut s, &v, "v1", &l, 1000, 86_400);
    open(&mut s, &u, "u1", &l, 1, 86_400);
    s.add_one_epoch(); s.add_one_epoch();
    s.claim(&u, vec![], None, |r| { r.unwrap(); }); // cursor 2
    for _ in 0..8 { s.add_one_epoch(); } // epoch 10
    s.manage_position(&u, PositionAction::Expand { identifier: "u-u1".into() }, vec![coin(999_999, l.clone())], |r| { println!("expand {:?}", r.map(|_| ()).map_err(|e| e.root_cause().to_string())); });
    let _ = Decimal::one();
    let before = bal(&mut s, &u, "uusdy");
    s.claim(&u, vec![], Some(2), |r| { println!("claim until 2: {:?}", r.map(|_| ()).map_err(|e| e.root_cause().to_string())); });
    s.claim(&u, vec![], None, |r| { println!("claim now: {:?}", r.map(|_| ()).map_err(|e| e.root_cause().to_string())); });
    println!("u paid {}", bal(&mut s, &u, "uusdy") - before);
    s.claim(&v, vec![], None, |r| { println!("v claim: {:?}", r.map(|_| ()).map_err(|e| e.root_cause().to_string())); });
}
