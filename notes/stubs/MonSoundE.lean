/-
  Soundness of the monitors added with the eighth round of seeded changes (see MonSound / MonSoundB / MonSoundC / MonSoundD for
  the idea): fed with the quantities of an accepted MODEL transaction, the monitor raises no alarm — for all inputs.  Plus one
  theorem the broken-route-link scenario relies on: a route with a non-consecutive link ANYWHERE is refused.

  * `monCloseExpiry` (C08): whatever an accepted ClosePosition closes (the position itself, or the part split off) carries
    `expiringAt = block time (s) + the position's own unlocking duration` — independent of the configuration;
  * `monPenaltyTotal` (C09): after an accepted emergency exit of a not-yet-unlocked position the farm manager has paid out the
    position's amount up to the dust of the division among the distinct active farm owners (fewer than `max n 1` units) —
    WHOEVER those owners are: the fee collector and the position owner may be among them (no distinctness hypotheses);
  * `monSingleShape` (C14): an accepted single-asset ProvideLiquidity went into a pool with exactly two assets, none empty;
  * `monRouteUnquoted` (C12): an accepted route over pairwise distinct pools, no denom produced by two hops, IS priced by the
    simulation query on the pre-state (so the monitor's "executed although the simulation refused" cannot fire);
  * `route_broken_link_refused` (C04 / C12): a route in which some hop's declared input differs from the previous hop's output
    is refused, wherever the broken link is.

  If a statement is false as given: counterexample (kernel-evaluated), original kept in a comment, `_partial` with the weakest
  repair, prominent note — as in the guide.
-/
import MantraDex.Model.System
import MantraDex.Model.HistMon
import MantraDex.Properties.C08Tx
import MantraDex.Properties.C09Sys
import MantraDex.Properties.C12Sys
import MantraDex.Properties.C14
import MantraDex.Properties.C14Lock

set_option linter.unusedSimpArgs false
set_option linter.unusedVariables false

namespace MantraDex.MonSoundE
open MantraDex

/-- `mon_close_expiry` (C08): every position that is closed after an accepted ClosePosition of `p` and was not closed before
    (the position itself after a full close, the new part after a partial close) unlocks `p.unlocking` seconds after the block
    time.  `hinv`: the farm-manager invariant of every reachable state (`C05Sys.fm_inv_reachable`). -/
theorem monCloseExpiry_sound (w w' : World) (u : Addr) (id : String) (lp : Option Coin) (funds : List Coin)
    (p q : Position) (hinv : C05Sys.FmInv w)
    (hp : w.fm.getPosition id = some p)
    (h : runTx w (.exec u FM (.fm (.closePosition id lp)) funds) = .ok w')
    (hq : q ∈ w'.fm.positions) (hclosed : q.open_ = false)
    (hnew : ∀ r ∈ w.fm.positions, r.id = q.id → r.open_ = true) :
    monCloseExpiry q.expiringAt (w.nowNs / NANOS) p.unlocking = none := by
  sorry

/-- `mon_penalty_total` (C09): what left the farm manager in the LP token after an accepted emergency exit, against the amount
    and the number of distinct owners of the active farms -/
theorem monPenaltyTotal_sound (w w' : World) (u : Addr) (p : Position)
    (hp : w.fm.getPosition p.id = some p)
    (hnot : (⟨p.amount, p.unlocking, p.expiringAt⟩ : PosView).isExpired w.fmEnv.nowS = false)
    (active : List Farm) (hact : C09Sys.activeFarms w.fm w.fmEnv p.lpDenom = .ok active)
    (hfm : u ≠ FM ∧ w.fm.config.feeCollector ≠ FM ∧ FM ∉ uniqueOwners active)
    (h : runTx w (.exec u FM (.fm (.withdrawPosition p.id (some true))) []) = .ok w') :
    monPenaltyTotal p.amount ((w.bank.bal FM p.lpDenom : Int) - w'.bank.bal FM p.lpDenom) (uniqueOwners active).length = none := by
  sorry

/-- `mon_single_shape` (C14): an accepted ProvideLiquidity with exactly one coin attached -/
theorem monSingleShape_sound (w w' : World) (u : Addr) (c : Coin) (ls ss : Option Nat) (recv : Option Addr) (pid : String)
    (ul : Option Nat) (l : Option String) (pool : PoolInfo)
    (hu : isContract u = false)
    (hp : w.pm.getPool pid = .ok pool)
    (h : runTx w (.exec u PM (.pm (.provideLiquidity ls ss recv pid ul l)) [c]) = .ok w') :
    monSingleShape pool.assets.length (pool.assets.all (·.amount == 0)) = none := by
  sorry

/-- `mon_route_unquoted` (C12): an accepted route that is `clean` is priced by the simulation on the pre-state — stated as: the
    monitor fed with `clean = true` can only be reached when the query failed, which cannot happen -/
theorem monRouteUnquoted_sound (w w' : World) (u : Addr) (ops : List SwapOp) (mr : Option Nat) (recv : Option Addr)
    (ms : Option Nat) (funds : List Coin) (hd : C12.distinctPools ops) (hout : (ops.map (·.tokenOut)).Nodup)
    (h : runTx w (.exec u PM (.pm (.execSwapOps ops mr recv ms)) funds) = .ok w') :
    ∃ amount r, funds.map (·.amount) = [amount] ∧ simulateSwapOpsFull w.pm amount ops = .ok r := by
  sorry

/-- a route whose link into hop `k + 1` is broken (the declared input of hop `k + 1` is not what hop `k` delivers) is refused,
    whatever else the transaction carries -/
theorem route_broken_link_refused (w : World) (u : Addr) (ops : List SwapOp) (mr : Option Nat) (recv : Option Addr)
    (ms : Option Nat) (funds : List Coin) (k : Nat) (a b : SwapOp)
    (ha : ops[k]? = some a) (hb : ops[k + 1]? = some b) (hbroken : b.tokenIn ≠ a.tokenOut) :
    ∀ fault, ∃ e, runTx w (.exec u PM (.pm (.execSwapOps ops mr recv ms)) funds) fault = .error e := by
  sorry

end MantraDex.MonSoundE
