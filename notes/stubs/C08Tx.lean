/-
  C08 / C05 through the runtime: the complete effect of position and claim transactions.

    * `create_position_tx_effect`: an accepted direct `CreatePosition` moves exactly the attached LP coin from the sender to
      the farm manager and records one new open position of exactly that amount for the sender (or, when the sender names
      a receiver, for that receiver = the sender); every other position is untouched; no other balance moves;
    * `expand_position_tx_effect`: exactly the attached amount is added to the named position (which belongs to the sender);
    * `close_position_tx_effect`: closing moves NO tokens; a full close keeps the amount and fixes the unlock instant; a
      partial close splits the position into an open remainder and a closed part whose amounts add up to the original —
      no LP is created or lost; every other position is untouched;
    * `claim_tx_effect`: an accepted `Claim` pays the sender, per denom, exactly the sum of its ledger entries
      (`C06Sys.claimEntries`), out of the farm manager's balance; positions are untouched; no other balance moves.
-/
import MantraDex.Model.System
import MantraDex.Proofs.NumLemmas
import MantraDex.Proofs.BankLemmas
import MantraDex.Properties.C08
import MantraDex.Properties.C05Sys
import MantraDex.Properties.C06Sys

set_option linter.unusedSimpArgs false
set_option linter.unusedVariables false

namespace MantraDex.C08Tx
open MantraDex

def at_ (c : Prop) [Decidable c] (x : Int) : Int := if c then x else 0
def amt (c : Coin) (d : Denom) : Int := if c.denom = d then (c.amount : Int) else 0

theorem create_position_tx_effect (w w' : World) (u : Addr) (id : Option String) (unl : Nat) (recv : Option Addr)
    (funds : List Coin) (k : Option Nat) (hu : isContract u = false) (hinv : C05Sys.FmInv w)
    (hpm : w.fm.config.poolManager = PM)
    (h : runTx w (.exec u FM (.fm (.createPosition id unl recv)) funds) k = .ok w') :
    ∃ c p, funds = [c] ∧ c.amount ≠ 0 ∧ p ∈ w'.fm.positions ∧ (∀ q ∈ w.fm.positions, q.id ≠ p.id) ∧
      p.receiver = u ∧ p.amount = c.amount ∧ p.lpDenom = c.denom ∧ p.open_ = true ∧ p.unlocking = unl ∧
      p.expiringAt = none ∧
      (∀ q ∈ w.fm.positions, q ∈ w'.fm.positions) ∧
      (∀ q ∈ w'.fm.positions, q = p ∨ q ∈ w.fm.positions) ∧
      w'.pm = w.pm ∧ w'.fm.farms = w.fm.farms ∧
      ∀ a d, (w'.bank.bal a d : Int) = (w.bank.bal a d : Int) - at_ (a = u) (amt c d) + at_ (a = FM) (amt c d) := by
  sorry

theorem expand_position_tx_effect (w w' : World) (u : Addr) (id : String) (funds : List Coin) (k : Option Nat)
    (p : Position) (hu : isContract u = false) (hinv : C05Sys.FmInv w) (hpm : w.fm.config.poolManager = PM)
    (hp : w.fm.getPosition id = some p)
    (h : runTx w (.exec u FM (.fm (.expandPosition id)) funds) k = .ok w') :
    ∃ c p', funds = [c] ∧ c.denom = p.lpDenom ∧ p.receiver = u ∧ p.open_ = true ∧
      w'.fm.getPosition id = some p' ∧ p' = { p with amount := p.amount + c.amount } ∧
      (∀ q ∈ w.fm.positions, q.id ≠ id → q ∈ w'.fm.positions) ∧
      (∀ q ∈ w'.fm.positions, q.id ≠ id → q ∈ w.fm.positions) ∧
      w'.pm = w.pm ∧ w'.fm.farms = w.fm.farms ∧
      ∀ a d, (w'.bank.bal a d : Int) = (w.bank.bal a d : Int) - at_ (a = u) (amt c d) + at_ (a = FM) (amt c d) := by
  sorry

theorem close_position_tx_effect (w w' : World) (u : Addr) (id : String) (lp : Option Coin) (funds : List Coin)
    (k : Option Nat) (p : Position) (hu : isContract u = false) (hinv : C05Sys.FmInv w)
    (hp : w.fm.getPosition id = some p)
    (h : runTx w (.exec u FM (.fm (.closePosition id lp)) funds) k = .ok w') :
    funds = [] ∧ p.receiver = u ∧ p.open_ = true ∧
    (∀ a d, w'.bank.bal a d = w.bank.bal a d) ∧ w'.pm = w.pm ∧ w'.fm.farms = w.fm.farms ∧
    (∀ q ∈ w.fm.positions, q.id ≠ id → q ∈ w'.fm.positions) ∧
    ((∃ p', w'.fm.getPosition id = some p' ∧ p'.open_ = false ∧ p'.amount = p.amount ∧ p'.receiver = u ∧
        p'.lpDenom = p.lpDenom ∧ p'.expiringAt = some ((w.nowNs + p.unlocking * NANOS) / NANOS) ∧
        (∀ q ∈ w'.fm.positions, q.id ≠ id → q ∈ w.fm.positions)) ∨
     (∃ rem part, w'.fm.getPosition id = some rem ∧ part ∈ w'.fm.positions ∧ (∀ q ∈ w.fm.positions, q.id ≠ part.id) ∧
        rem.open_ = true ∧ part.open_ = false ∧ rem.amount + part.amount = p.amount ∧ part.amount ≠ 0 ∧ rem.amount ≠ 0 ∧
        rem.receiver = u ∧ part.receiver = u ∧ rem.lpDenom = p.lpDenom ∧ part.lpDenom = p.lpDenom ∧
        part.expiringAt = some ((w.nowNs + p.unlocking * NANOS) / NANOS) ∧
        (∀ q ∈ w'.fm.positions, q.id ≠ id → q = part ∨ q ∈ w.fm.positions))) := by
  sorry

theorem claim_tx_effect (w w' : World) (u : Addr) (un : Option Nat) (funds : List Coin) (k : Option Nat)
    (hu : isContract u = false) (hinv : C05Sys.FmInv w)
    (h : runTx w (.exec u FM (.fm (.claim un)) funds) k = .ok w') :
    funds = [] ∧ w'.fm.positions = w.fm.positions ∧ w'.pm = w.pm ∧
    ∀ a d, (w'.bank.bal a d : Int) = (w.bank.bal a d : Int)
      + at_ (a = u) ((C06Sys.sumRewards ((C06Sys.claimEntries w.fm w.fmEnv u un).filter (·.denom == d)) : Nat) : Int)
      - at_ (a = FM) ((C06Sys.sumRewards ((C06Sys.claimEntries w.fm w.fmEnv u un).filter (·.denom == d)) : Nat) : Int) := by
  sorry

end MantraDex.C08Tx
