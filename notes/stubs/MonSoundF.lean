/-
  Soundness of six more implementation-side monitors with respect to the model (see MonSound … MonSoundE for the idea): fed with
  the quantities of an accepted MODEL transaction / of a state satisfying the reachable invariants, the monitor raises no alarm.

  * `monFmCustody` (C05): in every state satisfying `C05Sys.FmInv` (every reachable state, `C05Sys.fm_inv_reachable`) the farm
    manager's balance covers recorded positions + unclaimed farm budgets, for any list of denoms;
  * `monWeightsCover` (C10): in every state satisfying `C10Sys.Covers` (reachable: `C10Sys.weights_covered_reachable`) the
    total weight in effect at any epoch covers the sum of any duplicate-free set of users' weights in effect;
  * `monFarmExpand` (C11): an accepted ExpandFarm — budget grows by what was attached, the end by attached / rate, nothing else
    about the farm changes;
  * `monFarmCreate` (C11): an accepted CreateFarm that closes no expired farm on the way — the fee collector gets exactly the fee,
    nothing else is taken from the creator, the recorded budget is the declared reward.  The harness skips this monitor when the
    fee collector is the creator; take `w.fm.config.feeCollector ≠ u` (and whatever else is really needed: say so);
  * `monFarmClose` (C11): an accepted CloseFarm without an injected fault — the owner gets exactly funded − claimed, the farm
    manager loses exactly that, nobody else's balance of that denom moves (`others` = sum over any list of further accounts of
    |Δ|; state it with `Int.natAbs` or as "every such Δ is 0"); when the closer IS the farm owner the same amount;
  * `monQuote` (C12): the five numbers of the Simulation query on the pre-state = the five numbers the accepted swap reports
    (return, spread, swap / protocol / burn fee — take them from `performSwap`'s result on the pre-state, as MonSoundB does).

  If a statement is false as given: counterexample (kernel-evaluated), original kept in a comment, `_partial` with the weakest
  repair, prominent note — as in the guide.  Where I left the exact shape of a hypothesis open (marked TODO) choose the weakest
  that works and justify it in the doc comment.
-/
import MantraDex.Model.System
import MantraDex.Model.HistMon
import MantraDex.Model.Queries
import MantraDex.Properties.C05Sys
import MantraDex.Properties.C10Sys
import MantraDex.Properties.C11Sys
import MantraDex.Properties.C12Sys

set_option linter.unusedSimpArgs false
set_option linter.unusedVariables false

namespace MantraDex.MonSoundF
open MantraDex

/-- `mon_fm_custody` (C05) -/
theorem monFmCustody_sound (w : World) (h : C05Sys.FmInv w) (ds : List Denom) :
    monFmCustody (ds.map fun d => (w.bank.bal FM d, C05.posSum w.fm.positions d, C05.farmSum w.fm.farms d, false)) = none := by
  sorry

/-- `mon_weights` / `mon_weights_epoch` (C10) -/
theorem monWeightsCover_sound (w : World) (h : C10Sys.Covers w) (lp : Denom) (us : List Addr) (hnd : us.Nodup)
    (hfm : FM ∉ us) (e : Nat) :
    monWeightsCover (Spec.weightAt (w.fm.hist FM lp) e)
      ((us.map fun u => Spec.weightAt (w.fm.hist u lp) e).foldl (· + ·) 0) = none := by
  sorry

/-- `mon_farm_expand` (C11): `f` the farm before, `f'` the farm stored under the same identifier after -/
theorem monFarmExpand_sound (w w' : World) (u : Addr) (p : FarmParams) (fid : String) (f f' : Farm) (funds : List Coin)
    (k : Option Nat) (hid : p.farmId = some fid) (hf : w.fm.getFarm fid = .ok f) (hf' : w'.fm.getFarm fid = .ok f')
    (h : runTx w (.exec u FM (.fm (.expandFarm p)) funds) k = .ok w') :
    monFarmExpand f.emissionRate (C01.coinsOf funds f.assetDenom) f.endEpoch f'.endEpoch f.assetAmount f'.assetAmount
      (f'.owner == f.owner && f'.claimed == f.claimed && f'.startEpoch == f.startEpoch && f'.lpDenom == f.lpDenom &&
       f'.assetDenom == f.assetDenom && f'.emissionRate == f.emissionRate) = none := by
  sorry

/-- `mon_farm_create` (C11): `f` the farm the accepted CreateFarm recorded (the one that was not there before).
    TODO(hypotheses): as in `C11Sys.create_farm_tx_effect_partial` no farm of the LP token is expired; the creator is neither the
    fee collector nor the farm manager. -/
theorem monFarmCreate_sound (w w' : World) (u : Addr) (p : FarmParams) (funds : List Coin) (f : Farm)
    (hnoexp : ∀ g ∈ w.fm.farmsByLp p.lpDenom w.fm.config.maxConcurrentFarms,
      isFarmExpiredOrFalse w.fm w.fmEnv g = .ok false)
    (hroles : w.fm.config.feeCollector ≠ u ∧ u ≠ FM ∧ w.fm.config.feeCollector ≠ FM)
    (hf : f ∈ w'.fm.farms) (hnew : ∀ g ∈ w.fm.farms, g.id ≠ f.id)
    (h : runTx w (.exec u FM (.fm (.createFarm p)) funds) = .ok w') (ds : List Denom) (hds : ds.Nodup) :
    monFarmCreate p.asset.amount w.fm.config.createFarmFee.amount
      ((w'.bank.bal w.fm.config.feeCollector w.fm.config.createFarmFee.denom : Int)
        - w.bank.bal w.fm.config.feeCollector w.fm.config.createFarmFee.denom)
      -- anything taken from the creator beyond reward + fee, summed over any duplicate-free list of denoms
      ((ds.map fun d => Int.natAbs (((w.bank.bal u d : Int) - w'.bank.bal u d)
          - ((if d = p.asset.denom then (p.asset.amount : Int) else 0)
             + (if d = w.fm.config.createFarmFee.denom then (w.fm.config.createFarmFee.amount : Int) else 0)))).foldl
        (fun (acc : Int) (n : Nat) => acc + (n : Int)) (0 : Int))
      f.assetAmount = none := by
  sorry

/-- `mon_farm_close` (C11), no injected fault: `others` any accounts other than the farm's owner and the farm manager -/
theorem monFarmClose_sound (w w' : World) (u : Addr) (f : Farm) (others : List Addr)
    (hf : w.fm.getFarm f.id = .ok f) (hinv : C05Sys.FmInv w)
    (howner : f.owner ≠ FM) (hothers : ∀ a ∈ others, a ≠ f.owner ∧ a ≠ FM)
    (h : runTx w (.exec u FM (.fm (.closeFarm f.id)) []) none = .ok w') :
    monFarmClose (f.assetAmount - f.claimed)
      ((w'.bank.bal f.owner f.assetDenom : Int) - w.bank.bal f.owner f.assetDenom)
      ((w.bank.bal FM f.assetDenom : Int) - w'.bank.bal FM f.assetDenom)
      ((others.map fun a => Int.natAbs ((w'.bank.bal a f.assetDenom : Int) - w.bank.bal a f.assetDenom)).foldl
        (fun (acc : Int) (n : Nat) => acc + (n : Int)) (0 : Int)) = none := by
  sorry

/-- `mon_quote` (C12): Simulation on the pre-state vs. what the accepted direct swap computed -/
theorem monQuote_sound (w w' : World) (u : Addr) (offer : Coin) (ask : Denom) (b ms : Option Nat)
    (recv : Option Addr) (pid : String) (s1 : PmState) (r : SwapResult) (c : SwapComputation)
    (hq : querySimulation w.pm offer ask pid = .ok c)
    (hps : performSwap w.pm offer ask pid b ms = .ok (s1, r))
    (h : runTx w (.exec u PM (.pm (.swap ask b ms recv pid)) [offer]) = .ok w') :
    monQuote [c.ret, c.slippage, c.swapFee, c.protocolFee, c.burnFee]
      [r.ret.amount, r.slippage, r.swapFee.amount, r.protocolFee.amount, r.burnFee.amount] = none := by
  sorry

end MantraDex.MonSoundF
