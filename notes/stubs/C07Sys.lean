/-
  C06 (last clause) and C07, end to end over whole histories, on top of the reward ledger of `C06Sys`:

    * a farm's `claimed_amount` is exactly the sum of the ledger entries paid by it since it was created
      (`claimed_eq_ledger`), hence at most emission rate × elapsed farm epochs and at most its budget;
    * a claim never fails for lack of farm funds: no claim by anybody can make another user's rightful
      claim fail (`claim_never_exhausted`);
    * what a user is owed for an epoch that has begun does not depend on what anybody else does afterwards
      (other users' deposits, closes, claims in any split, farm expansions, time): while the paying farm
      exists, every non-zero entry of the user's pending claim survives any transaction signed by
      somebody else (`owed_frozen`) — so the total a user receives over a span of epochs is the same
      however their own claims and everybody else's operations are scheduled.
-/
import MantraDex.Model.System
import MantraDex.Spec.Ledger
import MantraDex.Proofs.NumLemmas
import MantraDex.Properties.C06Sys
import MantraDex.Properties.C11Sys
import MantraDex.Properties.C15Sys

set_option linter.unusedSimpArgs false
set_option linter.unusedVariables false

namespace MantraDex.C07Sys
open MantraDex C06Sys

def run (w0 : World) (txs : List (Tx × Option Nat)) : World := txs.foldl (fun w t => step w t.1 t.2) w0

/-- what `u` would be paid by a claim right now (all epochs up to the current one) -/
def owed (w : World) (u : Addr) : List Entry := claimEntries w.fm w.fmEnv u none

/-- the per-LP farm limit stays within the query cap along the history (known finding F-12 otherwise) -/
def MaxOk (w0 : World) (txs : List (Tx × Option Nat)) : Prop :=
  ∀ n, (run w0 (txs.take n)).fm.config.maxConcurrentFarms ≤ C.MAX_FARMS_LIMIT

/-- a farm's claimed amount is the sum of the ledger entries it paid since its creation (entries of an
    earlier farm that carried the same identifier all lie before its first epoch) -/
theorem claimed_eq_ledger (w0 : World) (h0 : Fresh w0) (txs : List (Tx × Option Nat))
    (hext : ∀ t ∈ txs, C05Sys.External t.1) (hst : Stable w0 txs)
    (f : Farm) (hf : f ∈ (run w0 txs).fm.farms) :
    f.claimed = sumRewards ((ledger w0 txs).filter fun x => x.farm == f.id && decide (f.startEpoch ≤ x.epoch)) := by
  sorry

/-- cumulative payouts of a farm never exceed emission rate × its epochs that have begun, nor its budget -/
theorem claimed_le_emitted (w0 : World) (h0 : Fresh w0) (txs : List (Tx × Option Nat))
    (hext : ∀ t ∈ txs, C05Sys.External t.1) (hst : Stable w0 txs)
    (f : Farm) (hf : f ∈ (run w0 txs).fm.farms) (cur : Nat)
    (hcur : fmCurrentEpoch (run w0 txs).fm (run w0 txs).fmEnv = .ok cur) :
    f.claimed ≤ f.emissionRate * (min (cur + 1) f.endEpoch - f.startEpoch) ∧
    f.emissionRate * (f.endEpoch - f.startEpoch) ≤ f.assetAmount := by
  sorry

/-- no claim is ever refused for lack of farm funds, whatever was claimed by others before -/
theorem claim_never_exhausted (w0 : World) (h0 : Fresh w0) (txs : List (Tx × Option Nat))
    (hext : ∀ t ∈ txs, C05Sys.External t.1) (hst : Stable w0 txs) (hmax : MaxOk w0 txs)
    (u : Addr) (hu : isContract u = false) (un : Option Nat) :
    fmClaim (run w0 txs).fm (run w0 txs).fmEnv u [] un ≠ .error .exhausted := by
  sorry

/-- what a user is owed for epochs that have begun is not changed by any transaction signed by somebody
    else, while the paying farm exists -/
theorem owed_frozen (w0 : World) (h0 : Fresh w0) (txs : List (Tx × Option Nat)) (t : Tx × Option Nat)
    (hext : ∀ t' ∈ txs ++ [t], C05Sys.External t'.1) (hst : Stable w0 (txs ++ [t])) (hmax : MaxOk w0 (txs ++ [t]))
    (u : Addr) (hu : isContract u = false) (hsig : C15Sys.signer t.1 ≠ some u)
    (x : Entry) (hx : x ∈ owed (run w0 txs) u) (hnz : x.reward ≠ 0)
    (hfarm : ∃ f ∈ (run w0 txs).fm.farms, ∃ f' ∈ (run w0 (txs ++ [t])).fm.farms,
      f.id = x.farm ∧ f'.id = x.farm ∧ f'.startEpoch = f.startEpoch ∧ f'.emissionRate = f.emissionRate ∧
      f'.lpDenom = f.lpDenom) :
    ∃ x' ∈ owed (run w0 (txs ++ [t])) u,
      x'.lp = x.lp ∧ x'.farm = x.farm ∧ x'.epoch = x.epoch ∧ x'.uw = x.uw ∧ x'.total = x.total ∧
      x'.reward = x.reward := by
  sorry

end MantraDex.C07Sys
