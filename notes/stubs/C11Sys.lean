/-
  C11 through the runtime: the complete bank effect of farm transactions.  Creating a farm (when no
  expired farm has to be closed on the way) costs the creator exactly reward + fee, the farm manager keeps
  exactly the reward, the fee collector receives exactly the fee; expanding moves exactly the attached
  amount into the farm; closing refunds exactly the unclaimed remainder to the farm's owner and to nobody
  else — or, if that transfer fails (injected fault), moves nothing and still closes the farm.  And the
  per-LP farm limit holds in every reachable state.
-/
import MantraDex.Model.System
import MantraDex.Proofs.NumLemmas
import MantraDex.Proofs.BankLemmas
import MantraDex.Properties.C11
import MantraDex.Properties.C05Sys

set_option linter.unusedSimpArgs false
set_option linter.unusedVariables false

namespace MantraDex.C11Sys
open MantraDex

def at_ (c : Prop) [Decidable c] (x : Int) : Int := if c then x else 0
def amt (c : Coin) (d : Denom) : Int := if c.denom = d then (c.amount : Int) else 0

/-- closing a farm: only its owner or the contract owner; the farm disappears, nothing else in the farm
    manager changes; the owner is refunded exactly funded − claimed, or (refund transfer failed) nothing moves -/
theorem close_farm_tx_effect (w w' : World) (u : Addr) (f : Farm) (k : Option Nat)
    (hu : isContract u = false) (hf : w.fm.getFarm f.id = .ok f) (hinv : C05Sys.FmInv w)
    (h : runTx w (.exec u FM (.fm (.closeFarm f.id)) []) k = .ok w') :
    (u = f.owner ∨ w.fm.owner.owner = some u) ∧
    w'.fm.farms = w.fm.farms.filter (·.id != f.id) ∧ w'.fm.positions = w.fm.positions ∧ w'.pm = w.pm ∧
    ((∀ a d, (w'.bank.bal a d : Int) = (w.bank.bal a d : Int)
        + at_ (d = f.assetDenom ∧ a = f.owner) ((f.assetAmount - f.claimed : Nat) : Int)
        - at_ (d = f.assetDenom ∧ a = FM) ((f.assetAmount - f.claimed : Nat) : Int)) ∨
     (k ≠ none ∧ ∀ a d, w'.bank.bal a d = w.bank.bal a d)) := by
  sorry

/-- expanding a farm: only its owner, exactly the attached amount moves from the owner to the farm manager
    and is added to the farm's budget; the end moves by amount / rate -/
theorem expand_farm_tx_effect (w w' : World) (u : Addr) (p : FarmParams) (fid : String) (f : Farm) (funds : List Coin)
    (k : Option Nat) (hu : isContract u = false) (hid : p.farmId = some fid) (hf : w.fm.getFarm fid = .ok f)
    (h : runTx w (.exec u FM (.fm (.expandFarm p)) funds) k = .ok w') :
    u = f.owner ∧ funds = [p.asset] ∧ p.asset.denom = f.assetDenom ∧
    (∃ f', w'.fm.getFarm fid = .ok f' ∧ f'.assetAmount = f.assetAmount + p.asset.amount ∧
      f'.endEpoch = f.endEpoch + p.asset.amount / f.emissionRate ∧ f'.claimed = f.claimed ∧ f'.owner = f.owner) ∧
    ∀ a d, (w'.bank.bal a d : Int) = (w.bank.bal a d : Int)
      - at_ (a = u) (amt p.asset d) + at_ (a = FM) (amt p.asset d) := by
  sorry

/-- creating a farm when no farm of the LP token is expired (nothing is closed on the way): the creator
    pays exactly reward + fee, the farm manager keeps exactly the reward, the fee collector gets exactly the fee -/
theorem create_farm_tx_effect_partial (w w' : World) (u : Addr) (p : FarmParams) (funds : List Coin)
    (hu : isContract u = false) (hfunds : (funds.map (·.denom)).Nodup)
    (hnoexp : ∀ g ∈ w.fm.farmsByLp p.lpDenom w.fm.config.maxConcurrentFarms,
      isFarmExpiredOrFalse w.fm w.fmEnv g = .ok false)
    (hfc : w.fm.config.feeCollector ≠ FM)
    (h : runTx w (.exec u FM (.fm (.createFarm p)) funds) = .ok w') :
    (∃ f, f ∈ w'.fm.farms ∧ (∀ g ∈ w.fm.farms, g.id ≠ f.id) ∧ f.owner = u ∧ f.lpDenom = p.lpDenom ∧
      f.assetDenom = p.asset.denom ∧ f.assetAmount = p.asset.amount ∧ f.claimed = 0 ∧
      ∀ g ∈ w.fm.farms, g ∈ w'.fm.farms) ∧
    ∀ a d, (w'.bank.bal a d : Int) = (w.bank.bal a d : Int)
      - at_ (a = u) (amt p.asset d + amt w.fm.config.createFarmFee d)
      + at_ (a = FM) (amt p.asset d)
      + at_ (a = w.fm.config.feeCollector) (amt w.fm.config.createFarmFee d) := by
  sorry

/-- an LP token never has more farms than the configured maximum (for maxima up to the query cap
    MAX_FARMS_LIMIT = 100, see known finding F-12): invariant of every transaction -/
def FarmLimit (w : World) : Prop :=
  ∀ lp, (w.fm.farms.filter (·.lpDenom == lp)).length ≤ w.fm.config.maxConcurrentFarms

theorem farm_limit_step (w : World) (tx : Tx) (k : Option Nat) (hext : C05Sys.External tx)
    (hmax : (step w tx k).fm.config.maxConcurrentFarms ≤ C.MAX_FARMS_LIMIT)
    (h : FarmLimit w) : FarmLimit (step w tx k) := by
  sorry

theorem farm_limit_reachable (w0 : World) (h0 : FarmLimit w0) (txs : List (Tx × Option Nat))
    (hext : ∀ t ∈ txs, C05Sys.External t.1)
    (hmax : ∀ n, ((txs.take n).foldl (fun w t => step w t.1 t.2) w0).fm.config.maxConcurrentFarms ≤ C.MAX_FARMS_LIMIT) :
    FarmLimit (txs.foldl (fun w t => step w t.1 t.2) w0) := by
  sorry

end MantraDex.C11Sys
