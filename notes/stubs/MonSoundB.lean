/-
  Soundness of further implementation-side monitors with respect to the model (see MonSound.lean for the idea): the swap
  monitors of C03 / C04 and the withdrawal monitor of C08 / C09, fed with the quantities of an accepted MODEL transaction,
  raise no alarm — for all inputs.
-/
import MantraDex.Model.System
import MantraDex.Model.HistMon
import MantraDex.Properties.C03
import MantraDex.Properties.C04
import MantraDex.Properties.C04Sys
import MantraDex.Properties.C09Sys

set_option linter.unusedSimpArgs false
set_option linter.unusedVariables false

namespace MantraDex.MonSoundB
open MantraDex

/-- `mon_swap_reserves` (C03 / C04) for a direct swap on a two-asset pool: offer reserve before / ask reserve before, the offer,
    both reserves after, and the return / protocol fee / burn fee the swap reports -/
theorem monSwapReserves_sound (w w' : World) (u : Addr) (offer : Coin) (ask : Denom) (b ms : Option Nat)
    (recv : Option Addr) (pid : String) (pool pool' : PoolInfo) (x y x' y' : Nat) (s1 : PmState) (r : SwapResult)
    (hu : isContract u = false)
    (hp : w.pm.getPool pid = .ok pool) (hp' : w'.pm.getPool pid = .ok pool')
    (hne : offer.denom ≠ ask)
    (hassets : pool.assets = [⟨offer.denom, x⟩, ⟨ask, y⟩] ∨ pool.assets = [⟨ask, y⟩, ⟨offer.denom, x⟩])
    (hassets' : pool'.assets = [⟨offer.denom, x'⟩, ⟨ask, y'⟩] ∨ pool'.assets = [⟨ask, y'⟩, ⟨offer.denom, x'⟩])
    (hps : performSwap w.pm offer ask pid b ms = .ok (s1, r))
    (h : runTx w (.exec u PM (.pm (.swap ask b ms recv pid)) [offer]) = .ok w') :
    monSwapReserves (pool.ptype == .cp) x y offer.amount x' y' r.ret.amount r.protocolFee.amount r.burnFee.amount = none := by
  sorry

/-- `mon_swap_bank` (C04): bank deltas of a direct swap when sender, receiver, fee collector and pool manager are four
    different accounts: what the sender paid, what the receiver got (ask denom / offer denom), what the fee collector got, what
    the pool manager gained in the offer denom and lost in the ask denom, and the sum of everybody else's changes (zero) -/
theorem monSwapBank_sound (w w' : World) (u rcv : Addr) (offer : Coin) (ask : Denom) (b ms : Option Nat)
    (pid : String) (s1 : PmState) (r : SwapResult) (other : Addr)
    (hu : isContract u = false)
    (hne : offer.denom ≠ ask)
    (hrecv : addrOrDefault w.pmEnv (some rcv) u = rcv)
    (hdistinct : u ≠ rcv ∧ u ≠ w.pm.config.feeCollector ∧ rcv ≠ w.pm.config.feeCollector ∧ rcv ≠ PM ∧
      w.pm.config.feeCollector ≠ PM ∧ u ≠ PM)
    (hother : other ≠ u ∧ other ≠ rcv ∧ other ≠ w.pm.config.feeCollector ∧ other ≠ PM)
    (hps : performSwap w.pm offer ask pid b ms = .ok (s1, r))
    (hdenoms : r.ret.denom = ask ∧ r.protocolFee.denom = ask ∧ r.burnFee.denom = ask)
    (h : runTx w (.exec u PM (.pm (.swap ask b ms (some rcv) pid)) [offer]) = .ok w') :
    monSwapBank offer.amount r.ret.amount r.protocolFee.amount r.burnFee.amount
      ((w.bank.bal u offer.denom : Int) - w'.bank.bal u offer.denom)
      ((w'.bank.bal rcv ask : Int) - w.bank.bal rcv ask)
      ((w'.bank.bal rcv offer.denom : Int) - w.bank.bal rcv offer.denom)
      ((w'.bank.bal w.pm.config.feeCollector ask : Int) - w.bank.bal w.pm.config.feeCollector ask)
      ((w'.bank.bal PM offer.denom : Int) - w.bank.bal PM offer.denom)
      ((w.bank.bal PM ask : Int) - w'.bank.bal PM ask)
      (((w'.bank.bal other ask : Int) - w.bank.bal other ask) + ((w'.bank.bal other offer.denom : Int) - w.bank.bal other offer.denom))
      = none := by
  sorry

/-- `mon_withdrawpos` (C08 / C09) for an accepted EMERGENCY withdrawal of a not yet unlocked position when the owner, the fee
    collector and the farm owners are different accounts: what the owner got, what the fee collector got, what the active farm
    owners got together, what left the farm manager -/
theorem monWithdrawPos_emergency_sound (w w' : World) (u : Addr) (p : Position)
    (hp : w.fm.getPosition p.id = some p)
    (hnot : (⟨p.amount, p.unlocking, p.expiringAt⟩ : PosView).isExpired w.fmEnv.nowS = false)
    (active : List Farm) (hact : C09Sys.activeFarms w.fm w.fmEnv p.lpDenom = .ok active)
    (hroles : u ≠ w.fm.config.feeCollector ∧ u ≠ FM ∧ w.fm.config.feeCollector ≠ FM ∧
      u ∉ uniqueOwners active ∧ w.fm.config.feeCollector ∉ uniqueOwners active ∧ FM ∉ uniqueOwners active)
    (hnd : (uniqueOwners active).Nodup)
    (h : runTx w (.exec u FM (.fm (.withdrawPosition p.id (some true))) []) = .ok w') :
    monWithdrawPos p.amount
      ((w'.bank.bal u p.lpDenom : Int) - w.bank.bal u p.lpDenom)
      ((w'.bank.bal w.fm.config.feeCollector p.lpDenom : Int) - w.bank.bal w.fm.config.feeCollector p.lpDenom)
      (((uniqueOwners active).map fun a => (w'.bank.bal a p.lpDenom : Int) - w.bank.bal a p.lpDenom).foldl (· + ·) 0)
      ((w.bank.bal FM p.lpDenom : Int) - w'.bank.bal FM p.lpDenom)
      true (w'.fm.getPosition p.id).isNone = none := by
  sorry

end MantraDex.MonSoundB
