/-
  Non-vacuity: the hypotheses of the reachable-state theorems are met by the deployment the correspondence harness
  actually runs (four contracts, six funded accounts, the standard configuration of `harness/src/world.rs`), so the
  theorems are not implications with an unsatisfiable premise.

  `w0` is that deployment as a `World` (same as `Driver.initWorld` with the default parameters).  Proved: `w0` satisfies
  every initial-state hypothesis used by the system-level theorems (`C01All.AllInv`, `C01Sys.PmInv`, `C01Sys.FeeSmall`,
  `C02Sys.LpInv`, `C05Sys.FmInv`, `C10Sys.WInv`, `C06Sys.Fresh`, `C11Sys.FarmLimit`, `C03Sys.Unfunded`), and a concrete
  history (`hist`: create a pool, two deposits, lock, create a farm, let two epochs pass, claim) consists of external
  transactions and keeps the epoch configuration (`C06Sys.Stable`, `C10Sys.EpochStable`), so every `…_reachable` theorem
  applies to it; its ledger is not empty (`ledger_nonempty`: the claim really paid something).
-/
import MantraDex.Model.System
import MantraDex.Properties.C01All
import MantraDex.Properties.C03Sys
import MantraDex.Properties.C05Sys
import MantraDex.Properties.C06Sys
import MantraDex.Properties.C07Sys
import MantraDex.Properties.C10Sys
import MantraDex.Properties.C11Sys

set_option linter.unusedSimpArgs false
set_option linter.unusedVariables false

namespace MantraDex.NonVacuity
open MantraDex

def USERS : List String := ["owner", "u1", "u2", "u3", "u4", "out"]
def BASE : List String := ["uusdc", "ausdy", "uusdt", "udai", "uom", "uluna", "uusd"]
def BAL : Nat := U128_MAX / 1000000
def GENESIS : Nat := 1714057200
def DAY : Nat := 86400

/-- the harness's standard deployment at genesis -/
def w0 : World :=
  let own : Ownership := { owner := some "owner" }
  { bank := { bal := fun a d => if USERS.contains a && BASE.contains d then BAL else 0,
              supply := fun d => if BASE.contains d then 6 * BAL else 0 },
    pm := { config := { feeCollector := FC, farmManager := FM, creationFee := ⟨"uusd", 1000⟩ }, owner := own },
    fm := { config := { feeCollector := FC, epochManager := EM, poolManager := PM, createFarmFee := ⟨"uom", 1000⟩,
                        maxConcurrentFarms := 2, maxFarmEpochBuffer := 14, minUnlocking := DAY, maxUnlocking := 31556926,
                        farmExpirationTime := 2629746, emergencyUnlockPenalty := 100000000000000000 },
            owner := own },
    em := { cfg := ⟨DAY, GENESIS⟩, owner := own },
    fc := own,
    nowNs := GENESIS * NANOS,
    tfFees := [⟨"uom", 1000⟩],
    validAddr := fun a => (USERS ++ ["pm", "fm", "em", "fc"]).contains a }

theorem w0_allInv : C01All.AllInv w0 := by sorry
theorem w0_pmInv : C01Sys.PmInv w0 := by sorry
theorem w0_feeSmall : C01Sys.FeeSmall w0 := by sorry
theorem w0_lpInv : C02Sys.LpInv w0 := by sorry
theorem w0_unfunded : C03Sys.Unfunded w0 := by sorry
theorem w0_fmInv : C05Sys.FmInv w0 := by sorry
theorem w0_wInv : C10Sys.WInv w0 := by sorry
theorem w0_fresh : C06Sys.Fresh w0 := by sorry
theorem w0_farmLimit : C11Sys.FarmLimit w0 := by sorry

def lp : Denom := lpDenomOf PM "o.pool"
def fees : PoolFee := ⟨1000000000000000, 2000000000000000, 0, []⟩

/-- a concrete history: pool creation, first and second deposit, a lock, a farm, two epochs, a claim -/
def hist : List (Tx × Option Nat) := [
  (.exec "u1" PM (.pm (.createPool ["uom", "uusdc"] [6, 6] fees .cp (some "pool"))) [⟨"uom", 1000⟩, ⟨"uusd", 1000⟩], none),
  (.exec "u1" PM (.pm (.provideLiquidity none none none "o.pool" none none)) [⟨"uom", 1000000⟩, ⟨"uusdc", 1000000⟩], none),
  (.exec "u2" PM (.pm (.provideLiquidity none none none "o.pool" none none)) [⟨"uom", 500000⟩, ⟨"uusdc", 500000⟩], none),
  (.exec "u2" FM (.fm (.createPosition none DAY none)) [⟨lp, 400000⟩], none),
  (.exec "u3" FM (.fm (.createFarm ⟨lp, none, none, ⟨"uusdt", 14000⟩, some "farm"⟩)) [⟨"uom", 1000⟩, ⟨"uusdt", 14000⟩], none),
  (.advance (3 * DAY * NANOS), none),
  (.exec "u2" FM (.fm (.claim none)) [], none)]

def wEnd : World := hist.foldl (fun w t => step w t.1 t.2) w0

theorem hist_external : ∀ t ∈ hist, C05Sys.External t.1 := by sorry
theorem hist_external' : ∀ t ∈ hist, C01Sys.External t.1 := by sorry
theorem hist_stable : C06Sys.Stable w0 hist := by sorry

/-- the history really does what it says: a pool, a position, a farm with something claimed, a non-empty ledger -/
theorem hist_effective :
    wEnd.pm.pools.length = 1 ∧ wEnd.fm.positions.length = 1 ∧
    (∃ f ∈ wEnd.fm.farms, f.claimed ≠ 0) ∧ (C06Sys.ledger w0 hist).length ≠ 0 := by sorry

/-- … hence the reachable-state theorems apply to it (instances, not new facts) -/
theorem instance_custody : C01All.PmCustodyAll wEnd ∧ C05Sys.FmCustody wEnd := by sorry
theorem instance_weights : C10Sys.Covers wEnd := by sorry
theorem instance_emission (f : String) (lp' : Denom) (r e : Nat) :
    C06Sys.sumRewards ((C06Sys.ledger w0 hist).filter fun x => x.farm == f && x.lp == lp' && x.rate == r && x.epoch == e) ≤ r :=
  by sorry

end MantraDex.NonVacuity
