/-
  C02 + C03, lifted through the runtime for constant-product pools: across EVERY transaction of any
  kind by any account (swaps, routes through the same pool several times, deposits of every shape incl.
  single-asset and locked ones, withdrawals, anything else), with nested calls, replies, rollbacks and
  injected faults, the value of one LP token of every constant-product pool, x·y / supply², never
  decreases; and while the supply is unchanged (no deposit/withdrawal) x·y itself never decreases.
  Hence no sequence of transactions whatsoever extracts value from liquidity providers.
-/
import MantraDex.Model.System
import MantraDex.Proofs.NumLemmas
import MantraDex.Properties.C02Sys

set_option linter.unusedSimpArgs false
set_option linter.unusedVariables false

namespace MantraDex.C03Sys
open MantraDex

/-- product of the two reserves of a (two-asset) pool -/
def kOf (p : PoolInfo) : Nat := (p.assets.map (·.amount)).foldl (· * ·) 1

/-- value per LP token did not decrease from (p, S) to (p', S'):  k/S² ≤ k'/S'², cross-multiplied -/
def ValueLe (p : PoolInfo) (S : Nat) (p' : PoolInfo) (S' : Nat) : Prop := kOf p * S' ^ 2 ≤ kOf p' * S ^ 2

/-- additional invariant: an LP token that does not exist yet belongs to an empty pool -/
def Unfunded (w : World) : Prop :=
  ∀ p ∈ w.pm.pools, p.ptype = .cp → w.bank.supply p.lpDenom = 0 → ∀ a ∈ p.assets, a.amount = 0

/-- every constant-product pool: value per LP token never decreases through a transaction -/
theorem cp_value_per_lp_step (w : World) (tx : Tx) (k : Option Nat) (hext : C01Sys.External tx)
    (hplain : C02Sys.LpPlain (step w tx k)) (h : C02Sys.LpInv w) (hc : C01Sys.PmInv w) (hu : Unfunded w)
    (hfee : C01Sys.FeeSmall w) :
    (∀ p ∈ w.pm.pools, p.ptype = .cp → ∃ p' ∈ (step w tx k).pm.pools, p'.id = p.id ∧
      ValueLe p (w.bank.supply p.lpDenom) p' ((step w tx k).bank.supply p.lpDenom) ∧
      ((step w tx k).bank.supply p.lpDenom = w.bank.supply p.lpDenom → kOf p ≤ kOf p')) ∧
    Unfunded (step w tx k) := by
  sorry

/-- … and hence through every history -/
theorem cp_value_per_lp_reachable (w0 : World) (h0 : C02Sys.LpInv w0) (hc0 : C01Sys.PmInv w0) (hu0 : Unfunded w0)
    (txs : List (Tx × Option Nat)) (hext : ∀ t ∈ txs, C01Sys.External t.1)
    (hplain : ∀ n, C02Sys.LpPlain ((txs.take n).foldl (fun w t => step w t.1 t.2) w0))
    (hfee : ∀ n, C01Sys.FeeSmall ((txs.take n).foldl (fun w t => step w t.1 t.2) w0)) :
    ∀ p ∈ w0.pm.pools, p.ptype = .cp → ∃ p' ∈ (txs.foldl (fun w t => step w t.1 t.2) w0).pm.pools, p'.id = p.id ∧
      ValueLe p (w0.bank.supply p.lpDenom) p' ((txs.foldl (fun w t => step w t.1 t.2) w0).bank.supply p.lpDenom) := by
  sorry

end MantraDex.C03Sys
