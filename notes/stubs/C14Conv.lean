/-
  C14, the converse of `C14Eq.single_asset_equals_two_step_partial`: if the TWO-STEP route is accepted — the depositor swaps
  ⌊c/2⌋ of the asset for the pool's other asset and then deposits that half together with the proceeds, with the same
  tolerances and the same receiver — then the SINGLE-ASSET deposit of `c` with those options is accepted too (and then, by
  `C14Eq`, ends in the same world up to the odd unit).

  Why it matters: the `twin` stream's monitor (`mon_twin_c14`) now reports "single-asset deposit refused where the two-step route
  is accepted" as a violation of C14 ("has exactly the effect of …").  This theorem is the soundness of that clause: on a tree
  that agrees with the model it cannot fire.

  Hypotheses: those of `C14Eq` (`hu`, `hbuf`, `hvu`, `hsup`) plus what makes the single-asset path applicable at all — the pool
  has exactly the two assets involved (on larger pools the single-asset deposit is refused by design, C14) — and the depositor
  owning the whole of `c` (B only ever needs half of it).  If something further is needed (e.g. the pool manager not being its own
  fee collector, the receiver being valid or absent, `c.amount / 2 ≠ 0`), add it as a NAMED hypothesis, say why, and show it
  necessary with an evaluated counterexample (`NonVac.runTxK` / `NonVac2` twins evaluate `runTx` in the kernel; `C14Eq` ends with
  concrete worlds `cxWorld`, `cxA`, `cxB`).  If the statement is false even then, follow the guide (counterexample, `_partial`).
-/
import MantraDex.Model.System
import MantraDex.Properties.C14
import MantraDex.Properties.C14Eq

set_option linter.unusedSimpArgs false
set_option linter.unusedVariables false

namespace MantraDex.C14Conv
open MantraDex

theorem two_step_accepted_implies_single_accepted (w w1 wB : World) (u : Addr) (c : Coin) (ls ss : Option Nat)
    (recv : Option Addr) (pid : String) (askDenom : Denom) (ret : Nat) (pool : PoolInfo)
    (hu : isContract u = false)
    (hbuf : w.pm.buffer = none) (hvu : w.validAddr u = true)
    (hsup : c.amount ≤ w.bank.supply c.denom)
    (hown : c.amount ≤ w.bank.bal u c.denom)
    (hp : w.pm.getPool pid = .ok pool) (hlen : pool.assets.length = 2)
    (hne : askDenom ≠ c.denom)
    (hB1 : runTx w (.exec u PM (.pm (.swap askDenom none ss none pid)) [⟨c.denom, c.amount / 2⟩]) = .ok w1)
    (hret : w1.bank.bal u askDenom = w.bank.bal u askDenom + ret)
    (hB2 : runTx w1 (.exec u PM (.pm (.provideLiquidity ls ss recv pid none none))
        [⟨c.denom, c.amount / 2⟩, ⟨askDenom, ret⟩]) = .ok wB) :
    ∃ wA, runTx w (.exec u PM (.pm (.provideLiquidity ls ss recv pid none none)) [c]) = .ok wA := by
  sorry

end MantraDex.C14Conv
