/-
  The monitors ARE the theorems: soundness of implementation-side monitors with respect to the model.

  `bin/check` evaluates decidable predicates (Model/HistMon.lean) on what the IMPLEMENTATION did — balance deltas, reserves,
  supplies read from the real contracts after every step.  Here the same predicates are proved to hold of what the MODEL does,
  for all inputs: whenever the implementation behaves as the model (the correspondence), a monitor cannot raise an alarm —
  an alarm therefore always means the code left the proved behaviour.  (Stated for the monitors with the richest arithmetic;
  the arguments the harness passes are spelled out in terms of the pre- and post-state of an accepted model transaction.)
-/
import MantraDex.Model.System
import MantraDex.Model.HistMon
import MantraDex.Properties.C01Exact
import MantraDex.Properties.C16Tx
import MantraDex.Properties.C02

set_option linter.unusedSimpArgs false
set_option linter.unusedVariables false

namespace MantraDex.MonSound
open MantraDex

/-- `mon_pm_excess` (C01): for a non-factory denom the harness passes the pool manager's balance and the summed reserves before
    and after the transaction, the donated coins and the odd unit; on an accepted model transaction the verdict is "no alarm" -/
theorem monPmExcess_sound (w w' : World) (tx : Tx) (k : Option Nat) (hext : C01Sys.External tx)
    (hfee : C01Sys.FeeSmall w) (hinv : C01All.AllInv w) (hself : C01Exact.NoSelfPay w) (hrecv : C01Exact.NoSelfReceiver tx)
    (hr : runTx w tx k = .ok w') (d : Denom) (hd : isFactoryToken d = false) :
    monPmExcess (w.bank.bal PM d) (C01.reserves w.pm d) (w'.bank.bal PM d) (C01.reserves w'.pm d)
      (C01Exact.donated tx d) (C01Exact.oddUnit tx d) = none := by
  sorry

/-- `mon_withdraw` (C02): for an accepted WithdrawLiquidity the harness passes, per pool asset, (reserve before, reserve decrease,
    what the sender received) together with the LP amount burned and the LP supply before -/
theorem monWithdraw_sound (w w' : World) (u : Addr) (pid : String) (funds : List Coin) (pool pool' : PoolInfo) (amount : Nat)
    (hcov : LpSys.Covers w.bank) (hu : u ≠ PM) (hp : w.pm.getPool pid = .ok pool) (hp' : w'.pm.getPool pid = .ok pool')
    (hfunds : funds = [⟨pool.lpDenom, amount⟩])
    (hnolp : ∀ a ∈ pool.assets, a.denom ≠ pool.lpDenom)
    (hnd : (pool.assets.map (·.denom)).Nodup)
    (h : runTx w (.exec u PM (.pm (.withdrawLiquidity pid)) funds) = .ok w') :
    monWithdraw amount (w.bank.supply pool.lpDenom)
      (pool.assets.map fun a =>
        (a.amount, a.amount - C01.coinsOf pool'.assets a.denom, w'.bank.bal u a.denom - w.bank.bal u a.denom)) = none := by
  sorry

/-- `mon_cp_deposit` (C02), later deposit into a funded two-asset constant-product pool: the harness passes the reserves before,
    the deposited amounts, the LP supply before, the LP minted (supply increase), the pool manager's LP balance increase and the
    reserves after -/
theorem monCpDeposit_sound (w w' : World) (u : Addr) (ls ss : Option Nat) (rc : Option Addr) (pid : String)
    (pool pool' : PoolInfo) (n0 n1 : Denom) (x y dx dy x' y' : Nat)
    (hcov : LpSys.Covers w.bank) (hp : w.pm.getPool pid = .ok pool) (hp' : w'.pm.getPool pid = .ok pool')
    (hcp : pool.ptype = .cp) (hassets : pool.assets = [⟨n0, x⟩, ⟨n1, y⟩]) (hassets' : pool'.assets = [⟨n0, x'⟩, ⟨n1, y'⟩])
    (hne : n0 ≠ n1) (hfunded : w.bank.supply pool.lpDenom ≠ 0) (hx : x ≠ 0) (hy : y ≠ 0)
    (hlp0 : pool.lpDenom ≠ n0) (hlp1 : pool.lpDenom ≠ n1)
    (h : runTx w (.exec u PM (.pm (.provideLiquidity ls ss rc pid none none)) [⟨n0, dx⟩, ⟨n1, dy⟩]) = .ok w') :
    monCpDeposit x y dx dy (w.bank.supply pool.lpDenom)
      (w'.bank.supply pool.lpDenom - w.bank.supply pool.lpDenom)
      (w'.bank.bal PM pool.lpDenom - w.bank.bal PM pool.lpDenom) x' y' = none := by
  sorry

end MantraDex.MonSound
