/-
  C02 / C01 (LP clause), lifted through the runtime: LP supply moves only in deposit and withdrawal
  transactions; once a pool has been funded, the pool manager holds its permanently locked minimum
  liquidity for ever, so the LP supply of a funded pool never falls below it; the pool manager's own
  LP balance moves only by the locked minimum of a first deposit and by donations.

  Stated for deployments in which no pool lists an LP token of the pool manager as one of its assets
  and the token-factory fee is not charged in an LP token (`LpPlain`); with an LP token as a pool asset
  a swap's burn fee destroys LP of the other pool, which the property's first sentence does not allow
  for either (recorded in DESIGN.md).
-/
import MantraDex.Model.System
import MantraDex.Proofs.NumLemmas
import MantraDex.Properties.C01Sys
import MantraDex.Properties.C16Sys

set_option linter.unusedSimpArgs false
set_option linter.unusedVariables false

namespace MantraDex.C02Sys
open MantraDex

/-- the minimum liquidity locked by the first deposit into `p` (as `provide_liquidity` computes it) -/
def minLiqOf (p : PoolInfo) : Option Nat :=
  match p.ptype with
  | .cp => some C.MINIMUM_LIQUIDITY_AMOUNT
  | .stable _ =>
    match listMin p.decimals, listMax p.decimals with
    | some mn, some mx => (match minLiquidityStable mn mx with | .ok m => some m | .error _ => none)
    | _, _ => none

/-- no pool of `w` trades an LP token of a pool of `w`, and the denom-creation fee is not paid in one -/
def LpPlain (w : World) : Prop :=
  ∀ p ∈ w.pm.pools, (∀ q ∈ w.pm.pools, p.lpDenom ∉ q.denoms) ∧ p.lpDenom ∉ w.tfFees.map (·.denom)

def sumOver (as : List Addr) (f : Addr → Nat) : Nat := (as.map f).foldl (· + ·) 0

/-- the invariant carried along (the proving agent may add fields; the first two stay) -/
structure LpInv (w : World) : Prop where
  /-- a pool's LP token either does not exist yet, or the pool manager holds the locked minimum -/
  locked : ∀ p ∈ w.pm.pools, w.bank.supply p.lpDenom = 0 ∨
    ∃ m, minLiqOf p = some m ∧ 0 < m ∧ m ≤ w.bank.bal PM p.lpDenom
  /-- bank: the supply of a denom covers the balances of any set of distinct accounts -/
  supplyCovers : ∀ d (as : List Addr), as.Nodup → sumOver as (fun a => w.bank.bal a d) ≤ w.bank.supply d
  ids : (w.pm.pools.map (·.id)).Nodup
  lpDerived : ∀ p ∈ w.pm.pools, p.lpDenom = lpDenomOf PM p.id
  noBuffer : w.pm.buffer = none

/-- one transaction (committed or rejected, any injected fault) preserves the invariant -/
theorem lp_inv_step (w : World) (tx : Tx) (k : Option Nat) (hext : C01Sys.External tx)
    (hplain : LpPlain (step w tx k)) (h : LpInv w) : LpInv (step w tx k) := by
  sorry

theorem lp_inv_init (w : World) (hp : w.pm.pools = []) (hb : w.pm.buffer = none)
    (hs : ∀ d (as : List Addr), as.Nodup → sumOver as (fun a => w.bank.bal a d) ≤ w.bank.supply d) :
    LpInv w := by
  sorry

/-- the LP supply of a funded pool never falls below the minimum liquidity locked at the first deposit -/
theorem lp_supply_ge_min_reachable (w0 : World) (h0 : LpInv w0) (txs : List (Tx × Option Nat))
    (hext : ∀ t ∈ txs, C01Sys.External t.1)
    (hplain : ∀ n, LpPlain ((txs.take n).foldl (fun w t => step w t.1 t.2) w0)) :
    ∀ p ∈ (txs.foldl (fun w t => step w t.1 t.2) w0).pm.pools,
      (txs.foldl (fun w t => step w t.1 t.2) w0).bank.supply p.lpDenom = 0 ∨
      ∃ m, minLiqOf p = some m ∧ 0 < m ∧ m ≤ (txs.foldl (fun w t => step w t.1 t.2) w0).bank.supply p.lpDenom := by
  sorry

/-- LP tokens are created only by deposit transactions and destroyed only by withdrawal transactions:
    if a transaction changes the supply of a pool's LP token, it is a `ProvideLiquidity` (supply grows)
    or a `WithdrawLiquidity` (supply shrinks) sent to the pool manager -/
theorem lp_supply_moves_only_by_deposit_or_withdrawal (w : World) (tx : Tx) (k : Option Nat)
    (hext : C01Sys.External tx) (hplain : LpPlain (step w tx k)) (h : LpInv w)
    (p : PoolInfo) (hp : p ∈ w.pm.pools) :
    ((step w tx k).bank.supply p.lpDenom > w.bank.supply p.lpDenom →
      ∃ sender ls ss rc pid u l funds, tx = .exec sender PM (.pm (.provideLiquidity ls ss rc pid u l)) funds) ∧
    ((step w tx k).bank.supply p.lpDenom < w.bank.supply p.lpDenom →
      ∃ sender funds, tx = .exec sender PM (.pm (.withdrawLiquidity p.id)) funds) := by
  sorry

/-- the only LP tokens the pool manager holds are the locked minimum (plus donations): a contract
    call changes its balance of a pool's LP token only by minting the locked minimum at the first deposit -/
theorem pm_lp_balance_step (w : World) (sender c : Addr) (msg : ContractMsg) (funds : List Coin) (k : Option Nat)
    (hext : C01Sys.External (.exec sender c msg funds))
    (hplain : LpPlain (step w (.exec sender c msg funds) k)) (h : LpInv w)
    (p : PoolInfo) (hp : p ∈ w.pm.pools) :
    (step w (.exec sender c msg funds) k).bank.bal PM p.lpDenom = w.bank.bal PM p.lpDenom ∨
    (w.bank.supply p.lpDenom = 0 ∧ ∃ m, minLiqOf p = some m ∧
      (step w (.exec sender c msg funds) k).bank.bal PM p.lpDenom = w.bank.bal PM p.lpDenom + m) := by
  sorry

end MantraDex.C02Sys
