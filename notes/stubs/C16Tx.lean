/-
  C16 / C02 through the runtime: the complete bank effect of the pool-manager's liquidity-side transactions.

    * `create_pool_tx_effect`: an accepted `CreatePool` costs the creator exactly the pool creation fee plus the
      token-factory fee(s); the creation fee arrives at the fee collector, the token-factory fee is destroyed
      (burned by the chain), the pool manager keeps nothing, nobody else's balance moves; the new pool has the
      requested assets / decimals / type / fees, a fresh identifier, zero reserves, everything enabled;
    * `withdraw_liquidity_tx_effect`: an accepted `WithdrawLiquidity` burns exactly the attached LP amount (supply
      falls by it), pays the sender floor(reserve × burned / supply) of every asset and reduces the reserves by
      exactly that; nothing else moves;
    * `provide_liquidity_tx_effect`: an accepted multi-asset, unlocked `ProvideLiquidity` takes exactly the attached
      coins into the reserves and mints exactly the computed shares to the receiver (plus, on the first deposit,
      the locked minimum to the pool manager itself); nothing else moves.
-/
import MantraDex.Model.System
import MantraDex.Proofs.NumLemmas
import MantraDex.Proofs.BankLemmas
import MantraDex.Properties.C02
import MantraDex.Properties.C16
import MantraDex.Properties.C04Sys

set_option linter.unusedSimpArgs false
set_option linter.unusedVariables false

namespace MantraDex.C16Tx
open MantraDex

def at_ (c : Prop) [Decidable c] (x : Int) : Int := if c then x else 0
def coinsIn (cs : List Coin) (d : Denom) : Int := ((C01.coinsOf cs d : Nat) : Int)

theorem create_pool_tx_effect (w w' : World) (u : Addr) (denoms : List Denom) (decimals : List Nat)
    (fees : PoolFee) (pt : PoolType) (id : Option String) (funds : List Coin)
    (hu : isContract u = false) (hfunds : (funds.map (·.denom)).Nodup)
    (h : runTx w (.exec u PM (.pm (.createPool denoms decimals fees pt id)) funds) = .ok w') :
    (∃ p, p ∈ w'.pm.pools ∧ (∀ q ∈ w.pm.pools, q.id ≠ p.id) ∧ p.denoms = denoms ∧ p.decimals = decimals ∧
      p.ptype = pt ∧ p.fees = fees ∧ p.lpDenom = lpDenomOf PM p.id ∧ p.assets = denoms.map (fun d => ⟨d, 0⟩) ∧
      p.status.swaps = true ∧ p.status.deposits = true ∧ p.status.withdrawals = true ∧
      ∀ q ∈ w.pm.pools, q ∈ w'.pm.pools) ∧
    w'.pm.config = w.pm.config ∧ w'.fm = w.fm ∧
    (∀ d, (w'.bank.supply d : Int) = (w.bank.supply d : Int) - coinsIn w.tfFees d) ∧
    ∀ a d, (w'.bank.bal a d : Int) = (w.bank.bal a d : Int)
        - at_ (a = u) (coinsIn funds d) + at_ (a = PM) (coinsIn funds d)
        - at_ (a = PM) (coinsIn [w.pm.config.creationFee] d + coinsIn w.tfFees d)
        + at_ (a = w.pm.config.feeCollector) (coinsIn [w.pm.config.creationFee] d) ∧
      -- exact funds: what was attached is the creation fee plus the token-factory fees, so the pool manager keeps nothing
      coinsIn funds d = coinsIn [w.pm.config.creationFee] d + coinsIn w.tfFees d := by
  sorry

theorem withdraw_liquidity_tx_effect (w w' : World) (u : Addr) (pid : String) (funds : List Coin) (pool : PoolInfo)
    (hu : isContract u = false) (hp : w.pm.getPool pid = .ok pool)
    (hids : (w.pm.pools.map (·.id)).Nodup)
    (h : runTx w (.exec u PM (.pm (.withdrawLiquidity pid)) funds) = .ok w') :
    ∃ amount refunds pool', funds = [⟨pool.lpDenom, amount⟩] ∧ amount ≠ 0 ∧ w.bank.supply pool.lpDenom ≠ 0 ∧
      refunds = (pool.assets.map fun a =>
        (⟨a.denom, a.amount * amount / w.bank.supply pool.lpDenom⟩ : Coin)).filter (·.amount > 0) ∧
      w'.pm.getPool pid = .ok pool' ∧ pool'.denoms = pool.denoms ∧ pool'.lpDenom = pool.lpDenom ∧
      (∀ d, C01.coinsOf pool'.assets d + C01.coinsOf refunds d = C01.coinsOf pool.assets d) ∧
      w'.fm = w.fm ∧
      (∀ d, (w'.bank.supply d : Int) = (w.bank.supply d : Int) - at_ (d = pool.lpDenom) (amount : Int)) ∧
      ∀ a d, (w'.bank.bal a d : Int) = (w.bank.bal a d : Int)
          - at_ (a = u ∧ d = pool.lpDenom) (amount : Int)
          + at_ (a = u) (coinsIn refunds d) - at_ (a = PM) (coinsIn refunds d) := by
  sorry

theorem provide_liquidity_tx_effect (w w' : World) (u : Addr) (ls ss : Option Nat) (rc : Option Addr) (pid : String)
    (funds : List Coin) (pool : PoolInfo)
    (hu : isContract u = false) (hfunds : (funds.map (·.denom)).Nodup) (h2 : 2 ≤ funds.length)
    (hp : w.pm.getPool pid = .ok pool) (hids : (w.pm.pools.map (·.id)).Nodup)
    (h : runTx w (.exec u PM (.pm (.provideLiquidity ls ss rc pid none none)) funds) = .ok w') :
    ∃ shares locked pool', w'.pm.getPool pid = .ok pool' ∧ pool'.denoms = pool.denoms ∧ pool'.lpDenom = pool.lpDenom ∧
      (∀ d, C01.coinsOf pool'.assets d = C01.coinsOf pool.assets d + C01.coinsOf funds d) ∧
      (w.bank.supply pool.lpDenom ≠ 0 → locked = 0) ∧ shares ≠ 0 ∧
      w'.fm = w.fm ∧
      (∀ d, (w'.bank.supply d : Int) = (w.bank.supply d : Int) + at_ (d = pool.lpDenom) ((shares + locked : Nat) : Int)) ∧
      ∀ a d, (w'.bank.bal a d : Int) = (w.bank.bal a d : Int)
          - at_ (a = u) (coinsIn funds d) + at_ (a = PM) (coinsIn funds d)
          + at_ (a = addrOrDefault w.pmEnv rc u ∧ d = pool.lpDenom) (shares : Int)
          + at_ (a = PM ∧ d = pool.lpDenom) (locked : Int) := by
  sorry

end MantraDex.C16Tx
