/-
  C13, deposit clause at the level of whole transactions: "a constant-product deposit with a slippage
  tolerance is accepted only if the deposit ratio is within that tolerance of the pool ratio … within the
  valid range a larger tolerance never rejects what a smaller one accepts, and a deposit in exact pool
  proportion is accepted under any valid tolerance".

  `C13.lean` proves these for the function `assertSlippageTolerance`.  Here they are stated for an accepted /
  rejected `ProvideLiquidity` TRANSACTION (two coins attached, funded constant-product pool, no lock), with the
  ratios taken from the pool as it was BEFORE the transaction — which is what distinguishes the code from a
  variant that checks against the reserves after the deposit was added.
-/
import MantraDex.Model.System
import MantraDex.Properties.C13
import MantraDex.Properties.C16Tx

set_option linter.unusedSimpArgs false
set_option linter.unusedVariables false

namespace MantraDex.C13Tx
open MantraDex

/-- the tolerance predicate of the code for a two-asset constant-product pool with reserves `(p0, p1)` and a
    deposit `(d0, d1)` (both listed in the order of the denoms `n0 < n1`), 18-digit floors as in the code -/
def withinTolerance (tol d0 d1 p0 p1 : Nat) : Prop :=
  d0 * ONE18 / d1 * (ONE18 - tol) / ONE18 ≤ p0 * ONE18 / p1 ∧
  d1 * ONE18 / d0 * (ONE18 - tol) / ONE18 ≤ p1 * ONE18 / p0

/-- **accepted ⇒ within tolerance of the PRE-deposit pool ratio** -/
theorem provide_tx_within_tolerance (w w' : World) (u : Addr) (tol : Nat) (ss : Option Nat) (rc : Option Addr)
    (pid : String) (pool : PoolInfo) (n0 n1 : Denom) (d0 d1 p0 p1 : Nat) (k : Option Nat)
    (hp : w.pm.getPool pid = .ok pool) (hcp : pool.ptype = .cp)
    (hassets : pool.assets = [⟨n0, p0⟩, ⟨n1, p1⟩]) (hlt : n0 < n1)
    (hfunded : w.bank.supply pool.lpDenom ≠ 0) (hp0 : p0 ≠ 0) (hp1 : p1 ≠ 0)
    (h : runTx w (.exec u PM (.pm (.provideLiquidity (some tol) ss rc pid none none)) [⟨n0, d0⟩, ⟨n1, d1⟩]) k = .ok w') :
    tol ≤ ONE18 ∧ withinTolerance tol d0 d1 p0 p1 := by
  sorry

/-- **monotone in the tolerance, for the whole transaction**: accepted under `t1`, then accepted under any larger
    valid `t2`, with the very same resulting world -/
theorem provide_tx_tolerance_monotone (w w' : World) (u : Addr) (t1 t2 : Nat) (ss : Option Nat) (rc : Option Addr)
    (pid : String) (funds : List Coin) (unl : Option Nat) (lock : Option String) (k : Option Nat)
    (hle : t1 ≤ t2) (ht : t2 ≤ ONE18) (h2 : 2 ≤ funds.length)
    (pool : PoolInfo) (hp : w.pm.getPool pid = .ok pool) (hcp : pool.ptype = .cp)
    (h : runTx w (.exec u PM (.pm (.provideLiquidity (some t1) ss rc pid unl lock)) funds) k = .ok w') :
    runTx w (.exec u PM (.pm (.provideLiquidity (some t2) ss rc pid unl lock)) funds) k = .ok w' := by
  sorry

/-- a tolerance above 100 % is refused as a whole (nothing changes) -/
theorem provide_tx_tolerance_above_one_refused (w : World) (u : Addr) (tol : Nat) (ss : Option Nat) (rc : Option Addr)
    (pid : String) (funds : List Coin) (unl : Option Nat) (lock : Option String) (k : Option Nat)
    (pool : PoolInfo) (hp : w.pm.getPool pid = .ok pool) (hcp : pool.ptype = .cp)
    (hfunded : w.bank.supply pool.lpDenom ≠ 0) (h2 : 2 ≤ funds.length)
    (htol : ONE18 < tol) :
    ∃ e, runTx w (.exec u PM (.pm (.provideLiquidity (some tol) ss rc pid unl lock)) funds) k = .error e := by
  sorry

end MantraDex.C13Tx
