/-
  C14, the locked variants, through the runtime: a single-asset deposit that LOCKS the minted LP in the farm manager
  (`unlocking_duration = Some u`, with or without an explicit position identifier, into a new or into the sender's own
  existing position) has exactly the effect of the depositor swapping half of it and then making the corresponding
  two-asset LOCKED deposit: same pools, same LP supply, same farm-manager state (positions, weights, counters), same
  balances of everybody — except the odd unit of an odd deposit, which stays in the pool manager's balance.
  Together with `C14Eq.single_asset_equals_two_step_partial` (unlocked) this covers every shape of single-asset deposit.
-/
import MantraDex.Model.System
import MantraDex.Proofs.NumLemmas
import MantraDex.Proofs.BankLemmas
import MantraDex.Proofs.TwoStepLemmas
import MantraDex.Properties.C14Eq

set_option linter.unusedSimpArgs false
set_option linter.unusedVariables false

namespace MantraDex.C14Lock
open MantraDex

/-- A: one single-asset LOCKED deposit `c` by the account `u`.
    B: `u` swaps ⌊c/2⌋ (same swap tolerance, proceeds to `u`), then deposits that half together with the proceeds with
    the same lock options.  If A is accepted, B is accepted step by step and ends in the same world, up to the odd unit. -/
theorem single_asset_locked_equals_two_step_partial (w wA : World) (u : Addr) (c : Coin) (ls ss : Option Nat)
    (recv : Option Addr) (pid : String) (unl : Nat) (lockId : Option String)
    (hu : isContract u = false)
    (hbuf : w.pm.buffer = none) (hvu : w.validAddr u = true)
    (hsup : c.amount ≤ w.bank.supply c.denom)
    (hA : runTx w (.exec u PM (.pm (.provideLiquidity ls ss recv pid (some unl) lockId)) [c]) = .ok wA) :
    ∃ (askDenom : Denom) (ret : Nat) (w1 wB : World),
      askDenom ≠ c.denom ∧
      runTx w (.exec u PM (.pm (.swap askDenom none ss none pid)) [⟨c.denom, c.amount / 2⟩]) = .ok w1 ∧
      runTx w1 (.exec u PM (.pm (.provideLiquidity ls ss recv pid (some unl) lockId))
        [⟨c.denom, c.amount / 2⟩, ⟨askDenom, ret⟩]) = .ok wB ∧
      wA.pm = wB.pm ∧ wA.fm.positions = wB.fm.positions ∧ wA.fm.posCounter = wB.fm.posCounter ∧
      wA.fm.farms = wB.fm.farms ∧ wA.fm.hist = wB.fm.hist ∧ wA.fm.lastClaimed = wB.fm.lastClaimed ∧
      wA.fm.config = wB.fm.config ∧ wA.em.cfg = wB.em.cfg ∧
      wA.bank.supply = wB.bank.supply ∧
      (∀ a d, ¬(d = c.denom ∧ (a = PM ∨ a = u)) → wA.bank.bal a d = wB.bank.bal a d) ∧
      wA.bank.bal PM c.denom = wB.bank.bal PM c.denom + c.amount % 2 ∧
      wA.bank.bal u c.denom + c.amount % 2 = wB.bank.bal u c.denom := by
  sorry

/-- a single-asset locked deposit locks the LP for the sender only: every position it creates or changes belongs
    to the sender -/
theorem single_asset_locks_for_sender (w wA : World) (u : Addr) (c : Coin) (ls ss : Option Nat)
    (recv : Option Addr) (pid : String) (unl : Nat) (lockId : Option String)
    (hu : isContract u = false) (hbuf : w.pm.buffer = none) (hvu : w.validAddr u = true)
    (hpm : w.fm.config.poolManager = PM) (hnd : (w.fm.positions.map (·.id)).Nodup)
    (hA : runTx w (.exec u PM (.pm (.provideLiquidity ls ss recv pid (some unl) lockId)) [c]) = .ok wA) :
    ∀ p ∈ wA.fm.positions, p ∉ w.fm.positions → p.receiver = u := by
  sorry

end MantraDex.C14Lock
