/-
  C12, C13 and C04 (routes) through the runtime AND through the query entry points of `Model/Queries.lean`:

    * an accepted `Swap` transaction delivers to the receiver exactly what the `Simulation` query answered
      an instant before, with exactly the quoted fees, and it satisfies the price protection the caller asked
      for (`swap_tx_equals_simulation`, `swap_tx_within_slippage`);
    * an accepted `ExecuteSwapOperations` transaction has the exact bank effect of its chain of hops (the
      offer in, only the final output to the receiver, each hop's protocol fee to the fee collector, each burn
      fee destroyed, nothing else moves — `route_tx_effect`), delivers at least `minimum_receive`
      (`route_tx_min_receive`), and, when the route visits each pool at most once, delivers exactly the
      `SimulateSwapOperations` answer (`route_tx_equals_simulation`);
    * the query functions themselves: `SimulateSwapOperations` is the chained `Simulation`
      (`simops_amount_eq_chain`); on a constant-product pool without fees, offering the `ReverseSimulation`
      quote plus one yields at least the requested amount through the `Simulation` query
      (`reverse_query_plus_one_suffices_partial`; with fees: known finding F-09).
-/
import MantraDex.Model.System
import MantraDex.Model.Queries
import MantraDex.Proofs.NumLemmas
import MantraDex.Proofs.BankLemmas
import MantraDex.Properties.C04Sys
import MantraDex.Properties.C12
import MantraDex.Properties.C13

set_option linter.unusedSimpArgs false
set_option linter.unusedVariables false

namespace MantraDex.C12Sys
open MantraDex

def amt (c : Coin) (d : Denom) : Int := if c.denom = d then (c.amount : Int) else 0
def at_ (a b : Addr) (x : Int) : Int := if a = b then x else 0

/-- bank effect on (account `a`, denom `d`) of one fee message of a route, sent by the pool manager -/
def feeMsgEffect (fc : Addr) (a : Addr) (d : Denom) : Msg → Int
  | .bankSend to cs => at_ a to ((C01.coinsOf cs d : Nat) : Int) - at_ a PM ((C01.coinsOf cs d : Nat) : Int)
  | .bankBurn cs => - at_ a PM ((C01.coinsOf cs d : Nat) : Int)
  | _ => 0

def sumInt (xs : List Int) : Int := xs.foldl (· + ·) 0

/-- the `Simulation` query answers exactly what an immediately following accepted `Swap` delivers and charges -/
theorem swap_tx_equals_simulation (w w' : World) (u : Addr) (offer : Coin) (ask : Denom) (b ms : Option Nat)
    (recv : Option Addr) (pid : String) (hu : isContract u = false)
    (h : runTx w (.exec u PM (.pm (.swap ask b ms recv pid)) [offer]) = .ok w') :
    ∃ c, querySimulation w.pm offer ask pid = .ok c ∧
      ∀ a d, (w'.bank.bal a d : Int) = (w.bank.bal a d : Int)
          - at_ a u (amt offer d) + at_ a PM (amt offer d)
          - at_ a PM (amt ⟨ask, c.ret + c.protocolFee + c.burnFee⟩ d)
          + at_ a (addrOrDefault w.pmEnv recv u) (amt ⟨ask, c.ret⟩ d)
          + at_ a w.pm.config.feeCollector (amt ⟨ask, c.protocolFee⟩ d) := by
  sorry

/-- an accepted `Swap` passed the caller's price protection on the pre-trade pool: without a belief price,
    slippage / (return + slippage) ≤ min(max_slippage or 1 %, 50 %) -/
theorem swap_tx_within_slippage (w w' : World) (u : Addr) (offer : Coin) (ask : Denom) (ms : Option Nat)
    (recv : Option Addr) (pid : String) (k : Option Nat)
    (h : runTx w (.exec u PM (.pm (.swap ask none ms recv pid)) [offer]) k = .ok w') :
    ∃ c, querySimulation w.pm offer ask pid = .ok c ∧ c.ret + c.slippage ≠ 0 ∧
      c.slippage * ONE18 / (c.ret + c.slippage) ≤ C13.effTol ms := by
  sorry

/-- exact bank effect of an accepted route -/
theorem route_tx_effect (w w' : World) (u : Addr) (ops : List SwapOp) (mr : Option Nat) (recv : Option Addr)
    (ms : Option Nat) (funds : List Coin) (hu : isContract u = false)
    (h : runTx w (.exec u PM (.pm (.execSwapOps ops mr recv ms)) funds) = .ok w') :
    ∃ first last amount s1 out feeMsgs,
      ops.head? = some first ∧ ops.getLast? = some last ∧ funds = [⟨first.tokenIn, amount⟩] ∧
      routeHops w.pm ms ops ⟨first.tokenIn, amount⟩ [] = .ok (s1, out, feeMsgs) ∧
      w'.pm = s1 ∧ w'.fm = w.fm ∧
      (∀ m ∈ feeMsgs, (∃ cs, m = Msg.bankBurn cs) ∨ (∃ cs, m = Msg.bankSend w.pm.config.feeCollector cs)) ∧
      ∀ a d, (w'.bank.bal a d : Int) = (w.bank.bal a d : Int)
          - at_ a u (amt ⟨first.tokenIn, amount⟩ d) + at_ a PM (amt ⟨first.tokenIn, amount⟩ d)
          + at_ a (addrOrDefault w.pmEnv recv u) (amt ⟨last.tokenOut, out.amount⟩ d)
          - at_ a PM (amt ⟨last.tokenOut, out.amount⟩ d)
          + sumInt (feeMsgs.map (feeMsgEffect w.pm.config.feeCollector a d)) := by
  sorry

/-- a routed swap delivers at least `minimum_receive` or fails as a whole: the final output of the executed chain
    (the amount `route_tx_effect` credits to the receiver) is at least the requested minimum -/
theorem route_tx_min_receive (w w' : World) (u : Addr) (ops : List SwapOp) (m : Nat) (recv : Option Addr)
    (ms : Option Nat) (funds : List Coin) (k : Option Nat)
    (h : runTx w (.exec u PM (.pm (.execSwapOps ops (some m) recv ms)) funds) k = .ok w') :
    ∃ first amount s1 out feeMsgs, ops.head? = some first ∧ funds = [⟨first.tokenIn, amount⟩] ∧
      routeHops w.pm ms ops ⟨first.tokenIn, amount⟩ [] = .ok (s1, out, feeMsgs) ∧ w'.pm = s1 ∧ m ≤ out.amount := by
  sorry

/-- `SimulateSwapOperations`' return amount is the chained `Simulation` of `C12.simChain` -/
theorem simops_amount_eq_chain (s : PmState) (amount : Nat) (ops : List SwapOp) (r : RouteSim)
    (h : simulateSwapOpsFull s amount ops = .ok r) : C12.simChain s ops amount = .ok r.amount := by
  sorry

/-- an accepted route over pairwise distinct pools delivers exactly the `SimulateSwapOperations` answer -/
theorem route_tx_equals_simulation (w w' : World) (u : Addr) (ops : List SwapOp) (mr : Option Nat) (recv : Option Addr)
    (ms : Option Nat) (funds : List Coin) (hu : isContract u = false) (hd : C12.distinctPools ops)
    (h : runTx w (.exec u PM (.pm (.execSwapOps ops mr recv ms)) funds) = .ok w') :
    ∃ first amount s1 out feeMsgs r,
      ops.head? = some first ∧ funds = [⟨first.tokenIn, amount⟩] ∧
      routeHops w.pm ms ops ⟨first.tokenIn, amount⟩ [] = .ok (s1, out, feeMsgs) ∧
      simulateSwapOpsFull w.pm amount ops = .ok r ∧ r.amount = out.amount := by
  sorry

/-- constant product, no fees: offering the `ReverseSimulation` quote plus one unit yields at least the requested
    amount through the `Simulation` query (with fees the statement is false for large requests: F-09) -/
theorem reverse_query_plus_one_suffices_partial (s : PmState) (p : PoolInfo) (pid : String) (ask : Coin)
    (offerDenom : Denom) (q : OfferAmountComputation) (c : SwapComputation)
    (hp : s.getPool pid = .ok p) (hcp : p.ptype = .cp) (hfee : p.fees = ⟨0, 0, 0, []⟩)
    (hq : queryReverseSimulation s ask offerDenom pid = .ok q)
    (hs : querySimulation s ⟨offerDenom, q.offer + 1⟩ ask.denom pid = .ok c) :
    ask.amount ≤ c.ret := by
  sorry

end MantraDex.C12Sys
