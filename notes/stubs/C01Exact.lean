/-
  C01, second sentence: "Any excess over the reported reserves comes only from tokens sent to the contract
  outside pool operations or from the single indivisible unit left by an odd-amount single-asset deposit".

  `C01Sys` / `C01All` prove  reserves ≤ balance  in every reachable state.  Here the EXACT accounting of one
  transaction: for a token that is not a token-factory denom, the pool manager's excess
        excess w d = balance(PM, d) − Σ_pools reserve(d)
  changes, across an accepted transaction of ANY kind by an account, by exactly
    * the coins of a plain bank transfer to the pool manager (a donation),
    * one unit of the deposited denom when the transaction is a single-asset deposit of an odd amount,
    * and nothing else —
  provided nobody has pointed a payment at the pool manager itself: the transaction does not name the pool
  manager as receiver, the two fee collectors are not the pool manager, no farm belongs to it and no
  position names it as receiver (each of these is a "token sent to the contract outside pool operations" in
  the sense of the property; the proving agent shows by evaluated examples which of them are necessary and
  may sharpen / drop the others).
-/
import MantraDex.Model.System
import MantraDex.Properties.C01All

set_option linter.unusedSimpArgs false
set_option linter.unusedVariables false

namespace MantraDex.C01Exact
open MantraDex

/-- the pool manager's balance of `d` beyond the reserves its pools report -/
def excess (w : World) (d : Denom) : Nat := w.bank.bal PM d - C01.reserves w.pm d

/-- coins a transaction donates to the pool manager by a plain bank transfer -/
def donated : Tx → Denom → Nat
  | .send _ to coins, d => if to = PM then C01.coinsOf coins d else 0
  | _, _ => 0

/-- the indivisible unit an odd single-asset deposit leaves behind (pool manager, one coin attached) -/
def oddUnit : Tx → Denom → Nat
  | .exec _ c (.pm (.provideLiquidity ..)) [coin], d =>
      if c = PM ∧ coin.denom = d then coin.amount % 2 else 0
  | _, _ => 0

/-- the transaction does not name the pool manager as the receiver of anything -/
def NoSelfReceiver : Tx → Prop
  | .exec _ _ (.pm (.provideLiquidity _ _ recv ..)) _ => recv ≠ some PM
  | .exec _ _ (.pm (.swap _ _ _ recv _)) _ => recv ≠ some PM
  | .exec _ _ (.pm (.execSwapOps _ _ recv _)) _ => recv ≠ some PM
  | .exec _ _ (.fm (.createPosition _ _ recv)) _ => recv ≠ some PM
  | _ => True

/-- nobody has pointed a payment stream at the pool manager -/
structure NoSelfPay (w : World) : Prop where
  pmCollector : w.pm.config.feeCollector ≠ PM
  fmCollector : w.fm.config.feeCollector ≠ PM
  farmOwners : ∀ f ∈ w.fm.farms, f.owner ≠ PM
  positions : ∀ p ∈ w.fm.positions, p.receiver ≠ PM

/-- **exact excess accounting of one accepted transaction** -/
theorem excess_tx_exact (w w' : World) (tx : Tx) (k : Option Nat) (hext : C01Sys.External tx)
    (hfee : C01Sys.FeeSmall w) (hinv : C01All.AllInv w) (hself : NoSelfPay w) (hrecv : NoSelfReceiver tx)
    (hr : runTx w tx k = .ok w') (d : Denom) (hd : isFactoryToken d = false) :
    excess w' d = excess w d + donated tx d + oddUnit tx d := by
  sorry

/-- … a rejected transaction changes nothing (`step`), so along every history the excess is the initial
    excess plus the donations and odd units of the ACCEPTED transactions -/
theorem excess_history_exact (w0 : World) (h0 : C01All.AllInv w0) (txs : List (Tx × Option Nat))
    (hext : ∀ t ∈ txs, C01Sys.External t.1)
    (hfee : ∀ n, C01Sys.FeeSmall ((txs.take n).foldl (fun w t => step w t.1 t.2) w0))
    (hself : ∀ n, NoSelfPay ((txs.take n).foldl (fun w t => step w t.1 t.2) w0))
    (hrecv : ∀ t ∈ txs, NoSelfReceiver t.1) (d : Denom) (hd : isFactoryToken d = false) :
    excess (txs.foldl (fun w t => step w t.1 t.2) w0) d =
      excess w0 d + C01.sumNat ((List.range txs.length).map fun n =>
        match txs[n]? with
        | some t =>
          (match runTx ((txs.take n).foldl (fun w t => step w t.1 t.2) w0) t.1 t.2 with
           | .ok _ => donated t.1 d + oddUnit t.1 d
           | .error _ => 0)
        | none => 0) := by
  sorry

end MantraDex.C01Exact
