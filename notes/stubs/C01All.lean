/-
  C01 at full strength, for EVERY token — including LP tokens of the pool manager and pools that list another pool's
  LP token as one of their assets (which `C01Sys` excludes by restricting itself to non-factory denoms, and `C02Sys`
  by `LpPlain`): in every state reachable by account-signed transactions, for every denom `d`,

      (sum over all pools of the reserve recorded for d)  +  (the locked minimum liquidity, if d is the LP token
      of a funded pool)   ≤   the pool manager's bank balance of d.

  So reserves are fully backed for every token, and the only LP tokens the pool manager holds beyond reserves,
  donations and the odd units of single-asset deposits are the permanently locked minimum of each funded pool.
-/
import MantraDex.Model.System
import MantraDex.Proofs.NumLemmas
import MantraDex.Properties.C01Sys
import MantraDex.Properties.C02Sys

set_option linter.unusedSimpArgs false
set_option linter.unusedVariables false

namespace MantraDex.C01All
open MantraDex

/-- minimum liquidity locked in the pool manager for denom `d`: that of the funded pool whose LP token `d` is -/
def lockedMin (w : World) (d : Denom) : Nat :=
  C01.sumNat (w.pm.pools.map fun p =>
    if p.lpDenom == d && w.bank.supply d != 0 then (C02Sys.minLiqOf p).getD 0 else 0)

/-- every token: recorded reserves plus the locked minimum are covered by the real balance -/
def PmCustodyAll (w : World) : Prop := ∀ d, C01.reserves w.pm d + lockedMin w d ≤ w.bank.bal PM d

/-- the invariant carried along (the proving agent chooses the auxiliary fields; `custody` stays) -/
structure AllInv (w : World) : Prop where
  custody : PmCustodyAll w
  wf : C01.WF w.pm
  noBuffer : w.pm.buffer = none
  tfNodup : (w.tfFees.map (·.denom)).Nodup
  tfSmall : ∀ f ∈ w.tfFees, f.amount ≤ U128_MAX / 2
  lpDerived : ∀ p ∈ w.pm.pools, p.lpDenom = lpDenomOf PM p.id
  supplyCovers : ∀ d (as : List Addr), as.Nodup →
    C02Sys.sumOver as (fun a => w.bank.bal a d) ≤ w.bank.supply d
  fresh : ∀ id, (∀ p ∈ w.pm.pools, p.id ≠ id) → w.bank.supply (lpDenomOf PM id) = 0

/-- one transaction of ANY kind (committed or rejected, any injected fault) preserves the invariant -/
theorem all_inv_step (w : World) (tx : Tx) (k : Option Nat) (hext : C01Sys.External tx)
    (hfee : C01Sys.FeeSmall w) (h : AllInv w) : AllInv (step w tx k) := by
  sorry

/-- custody of every token in every reachable state -/
theorem pm_custody_all_reachable (w0 : World) (h0 : AllInv w0) (txs : List (Tx × Option Nat))
    (hext : ∀ t ∈ txs, C01Sys.External t.1)
    (hfee : ∀ n, C01Sys.FeeSmall ((txs.take n).foldl (fun w t => step w t.1 t.2) w0)) :
    PmCustodyAll (txs.foldl (fun w t => step w t.1 t.2) w0) := by
  sorry

/-- a fresh deployment satisfies the invariant -/
theorem all_inv_init (w : World) (hp : w.pm.pools = []) (hb : w.pm.buffer = none)
    (htf : (w.tfFees.map (·.denom)).Nodup) (hsm : ∀ f ∈ w.tfFees, f.amount ≤ U128_MAX / 2)
    (hs : ∀ d (as : List Addr), as.Nodup → C02Sys.sumOver as (fun a => w.bank.bal a d) ≤ w.bank.supply d)
    (hfresh : ∀ id, w.bank.supply (lpDenomOf PM id) = 0) : AllInv w := by
  sorry

end MantraDex.C01All
