/-
  C15 (+ the authority clauses of C08, C11 and C14), lifted through the runtime: whatever a transaction
  contains — nested calls, replies, rollbacks, injected faults — the privileged state of each of the four
  contracts (configuration, ownership, per-pool switches) changes only when the transaction IS a
  privileged message sent directly to that contract, without funds, by its current owner (or, for
  `accept`, the pending owner); a position changes or disappears only in transactions signed by its owner
  and every new position belongs to the signer (the pool manager is a delegate only for the signer's own
  deposit); a farm grows only in its owner's `ExpandFarm`, and disappears only in a `CloseFarm` by its
  owner or the contract owner, or when somebody creates a farm after it expired.
-/
import MantraDex.Model.System
import MantraDex.Proofs.NumLemmas
import MantraDex.Properties.C15
import MantraDex.Properties.C08
import MantraDex.Properties.C05Sys
import MantraDex.Properties.C01Sys

set_option linter.unusedSimpArgs false
set_option linter.unusedVariables false

namespace MantraDex.C15Sys
open MantraDex

/-- the account that signed a transaction -/
def signer : Tx → Option Addr
  | .exec s _ _ _ => some s
  | .send f _ _ => some f
  | .advance _ => none

/-- who may send an ownership action, given the ownership state -/
def mayOwn (o : Ownership) (sender : Addr) : OwnAction → Prop
  | .transfer _ _ => o.owner = some sender
  | .renounce => o.owner = some sender
  | .accept => o.pending = some sender

/-- the pool manager's privileged state is untouched -/
def PmPrivSame (w w' : World) : Prop :=
  w'.pm.config = w.pm.config ∧ w'.pm.owner = w.pm.owner ∧
  ∀ p ∈ w.pm.pools, ∃ p' ∈ w'.pm.pools, p'.id = p.id ∧ p'.status = p.status

theorem pm_privileged_frame (w : World) (tx : Tx) (k : Option Nat) (hext : C01Sys.External tx)
    (hids : (w.pm.pools.map (·.id)).Nodup) :
    PmPrivSame w (step w tx k) ∨
    ∃ sender m, tx = .exec sender PM (.pm m) [] ∧
      ((∃ fc fm cf t, m = .updateConfig fc fm cf t ∧ w.pm.owner.owner = some sender) ∨
       (∃ a, m = .updateOwnership a ∧ mayOwn w.pm.owner sender a)) := by
  sorry

theorem fm_privileged_frame (w : World) (tx : Tx) (k : Option Nat) (hext : C01Sys.External tx) :
    ((step w tx k).fm.config = w.fm.config ∧ (step w tx k).fm.owner = w.fm.owner) ∨
    ∃ sender m, tx = .exec sender FM (.fm m) [] ∧
      ((∃ u, m = .updateConfig u ∧ w.fm.owner.owner = some sender) ∨
       (∃ a, m = .updateOwnership a ∧ mayOwn w.fm.owner sender a)) := by
  sorry

theorem em_privileged_frame (w : World) (tx : Tx) (k : Option Nat) (hext : C01Sys.External tx) :
    (step w tx k).em = w.em ∨
    ∃ sender m, tx = .exec sender EM (.em m) [] ∧
      ((∃ c, m = .updateConfig c ∧ w.em.owner.owner = some sender) ∨
       (∃ a, m = .updateOwnership a ∧ mayOwn w.em.owner sender a)) := by
  sorry

theorem fc_privileged_frame (w : World) (tx : Tx) (k : Option Nat) (hext : C01Sys.External tx) :
    (step w tx k).fc = w.fc ∨
    ∃ sender a, tx = .exec sender FC (.fc (.updateOwnership a)) [] ∧ mayOwn w.fc sender a := by
  sorry

/-- a position is exactly as it was after any transaction not signed by its owner -/
theorem positions_change_only_by_owner_tx (w : World) (tx : Tx) (k : Option Nat) (hext : C01Sys.External tx)
    (hinv : C05Sys.FmInv w) (hb : w.pm.buffer = none)
    (hpm : w.fm.config.poolManager = PM)
    (p : Position) (hp : p ∈ w.fm.positions) (hs : signer tx ≠ some p.receiver) :
    p ∈ (step w tx k).fm.positions := by
  sorry

/-- every position that a transaction creates belongs to the account that signed it -/
theorem new_positions_belong_to_signer (w : World) (tx : Tx) (k : Option Nat) (hext : C01Sys.External tx)
    (hinv : C05Sys.FmInv w) (hb : w.pm.buffer = none)
    (hpm : w.fm.config.poolManager = PM)
    (p' : Position) (hp' : p' ∈ (step w tx k).fm.positions)
    (hnew : ∀ p ∈ w.fm.positions, p.id ≠ p'.id) :
    signer tx = some p'.receiver := by
  sorry

/-- same farm up to the amount already claimed -/
def FarmSameBudget (f f' : Farm) : Prop :=
  f'.id = f.id ∧ f'.owner = f.owner ∧ f'.lpDenom = f.lpDenom ∧ f'.assetDenom = f.assetDenom ∧
  f'.emissionRate = f.emissionRate ∧ f'.startEpoch = f.startEpoch ∧
  f'.assetAmount = f.assetAmount ∧ f'.endEpoch = f.endEpoch ∧ f.claimed ≤ f'.claimed

/-- a farm keeps its owner, parameters and budget (only `claimed` grows) unless the transaction is its
    owner's `ExpandFarm`, a `CloseFarm` by its owner or the contract owner, or a `CreateFarm` (by anyone)
    issued after the farm expired -/
theorem farms_change_only_by_authorised_tx (w : World) (tx : Tx) (k : Option Nat) (hext : C01Sys.External tx)
    (hinv : C05Sys.FmInv w) (f : Farm) (hf : f ∈ w.fm.farms) :
    (∃ f' ∈ (step w tx k).fm.farms, FarmSameBudget f f') ∨
    (∃ p funds, tx = .exec f.owner FM (.fm (.expandFarm p)) funds ∧ p.farmId = some f.id) ∨
    (∃ sender, tx = .exec sender FM (.fm (.closeFarm f.id)) [] ∧
      (sender = f.owner ∨ w.fm.owner.owner = some sender)) ∨
    (∃ sender p funds, tx = .exec sender FM (.fm (.createFarm p)) funds ∧ p.lpDenom = f.lpDenom ∧
      isFarmExpiredOrFalse w.fm w.fmEnv f = .ok true) := by
  sorry

end MantraDex.C15Sys
