/-
  Soundness of the HOP-BY-HOP tolerance monitor added with the tenth round of seeded changes: the harness now feeds
  `monCpSlippage` (proved sound for direct swaps in `MonSoundC.monCpSlippage_sound`) with every hop of an executed route — the
  reserves its constant-product pool reported just before the hop, what went into the hop and what came out, and the tolerance the
  route carried.  Claim: whatever `routeHops` accepts, every hop passes the monitor; stated for one hop from an arbitrary
  pool-manager state (the state a hop starts from is the state the previous hop left, so this covers every hop of every route),
  and lifted to "the first hop and the rest" so that an induction over the route is immediate.
-/
import MantraDex.Model.System
import MantraDex.Model.HistMon
import MantraDex.Properties.C04
import MantraDex.Properties.MonSoundC

set_option linter.unusedSimpArgs false
set_option linter.unusedVariables false

namespace MantraDex.MonSoundH
open MantraDex

/-- one hop: `prev` is what the hop is fed with (the route's funds, or the previous hop's output), `x` / `y` the reserves of the
    hop's input / output asset before it -/
theorem monCpSlippage_hop_sound (s s1 : PmState) (ms : Option Nat) (op : SwapOp) (prev out : Coin) (fees : List Msg)
    (pool : PoolInfo) (x y : Nat)
    (hp : s.getPool op.poolId = .ok pool) (hcp : pool.ptype = .cp)
    (hassets : pool.assets = [⟨prev.denom, x⟩, ⟨op.tokenOut, y⟩] ∨ pool.assets = [⟨op.tokenOut, y⟩, ⟨prev.denom, x⟩])
    (hne : prev.denom ≠ op.tokenOut)
    (h : routeHops s ms [op] prev [] = .ok (s1, out, fees)) :
    monCpSlippage ms x y prev.amount out.amount = none := by
  sorry

/-- the first hop of a longer route, and the state / coin the rest of the route starts from -/
theorem monCpSlippage_first_hop_sound (s s' : PmState) (ms : Option Nat) (op : SwapOp) (ops : List SwapOp) (prev out : Coin)
    (fees : List Msg) (pool : PoolInfo) (x y : Nat)
    (hp : s.getPool op.poolId = .ok pool) (hcp : pool.ptype = .cp)
    (hassets : pool.assets = [⟨prev.denom, x⟩, ⟨op.tokenOut, y⟩] ∨ pool.assets = [⟨op.tokenOut, y⟩, ⟨prev.denom, x⟩])
    (hne : prev.denom ≠ op.tokenOut)
    (h : routeHops s ms (op :: ops) prev [] = .ok (s', out, fees)) :
    ∃ s1 mid fees1, routeHops s ms [op] prev [] = .ok (s1, mid, fees1) ∧
      monCpSlippage ms x y prev.amount mid.amount = none ∧
      ∃ fees2, routeHops s1 ms ops mid [] = .ok (s', out, fees2) := by
  sorry

end MantraDex.MonSoundH
