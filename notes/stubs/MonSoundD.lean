/-
  Soundness of the CLAIM monitor (`monClaim`, C06 / C07 / C05) with respect to the model: fed with what an accepted MODEL
  claim did — read off the states before and after by the explicit observation functions below, which mirror what the Rust
  harness reads off the real contracts (`harness/src/monitors.rs`, the `mon_claim` line) — the monitor raises no alarm.

  The monitor recomputes every farm's payment from the LEDGER (`Spec.spanReward`: per epoch ⌊rate · user weight in effect /
  total weight in effect⌋ over the epochs from the one after the cursor — or the user's entry epoch — up to `until`), so this
  theorem says: the model's `claim` pays, per farm, exactly the ledger's amount, moves `claimed` by exactly that, and the bank
  moves exactly the per-denom sums.  Building blocks exist: `C06Sys.claim_pays_entries`, `LedSys.claim_run`,
  `LedSys.lpRewards_coins`, `C07.terms_sum_eq_spanReward`-style lemmas in `Properties/C07.lean` (look them up),
  `C07.address_scan_eq_weightAt`, `C07.contract_scan_eq_weightAt`.

  You may need hypotheses that are fields of the reachable invariants (`WSys.FInv w.fm w.fmEnv`, unique farm identifiers
  `(w.fm.farms.map (·.id)).Nodup`, the per-LP farm limit so that no farm is cut off by the paging limit, sortedness of the weight
  histories, the claimant not being the farm manager / an account).  Add them as NAMED hypotheses, each one either a field of an
  invariant proved for every reachable state elsewhere in `Properties/` (say which theorem) or shown necessary by a
  kernel-evaluated counterexample.  The observation functions must stay as they are (they are what the harness does); if one of
  them cannot be right, say so in the hand-back notes rather than changing it silently.
-/
import MantraDex.Model.System
import MantraDex.Model.HistMon
import MantraDex.Properties.C06Sys
import MantraDex.Properties.C07
import MantraDex.Properties.C07Sys

set_option linter.unusedSimpArgs false
set_option linter.unusedVariables false

namespace MantraDex.MonSoundD
open MantraDex

/-- what the harness lists for one farm: rate, start, preliminary end, reward denom, observed increase of `claimed` -/
def obsFarm (s' : FmState) (f : Farm) : Nat × Nat × Nat × String × Nat :=
  (f.emissionRate, f.startEpoch, f.endEpoch, f.assetDenom,
    ((s'.farms.find? (·.id == f.id)).map (fun g => g.claimed - f.claimed)).getD 0)

/-- one LP token's slice: the user's entry epoch (first epoch of the user's recorded weight history; 0 if none), the user's
    and the contract's change points, no other users (`others := []` makes the third clause compare with the user's own
    share of his own weight, i.e. with the full emission — the weakest form), the LP token's farms -/
def obsLp (s s' : FmState) (fmAddr u : Addr) (lp : Denom) : ClaimLp :=
  { entry := ((s.hist u lp).head?.map (·.1)).getD 0,
    uh := s.hist u lp, th := s.hist fmAddr lp, others := [],
    farms := (s.farms.filter (·.lpDenom == lp)).map (obsFarm s') }

/-- per reward denom: what the claimant received, what left the farm manager -/
def obsPaid (w w' : World) (u : Addr) (ds : List Denom) : List (String × Int × Int) :=
  ds.map fun d => (d, (w'.bank.bal u d : Int) - w.bank.bal u d, (w.bank.bal FM d : Int) - w'.bank.bal FM d)

/-- `mon_claim` for an accepted top-level claim by `u` with `until` resolved to `untilE`: the LP tokens of the user's open
    positions, the reward denoms of their farms. -/
theorem monClaim_sound (w w' : World) (u : Addr) (un : Option Nat) (cur untilE : Nat)
    (hu : isContract u = false)
    (hcur : fmCurrentEpoch w.fm w.fmEnv = .ok cur) (hun : untilEpochOrCurrent un cur = .ok untilE)
    (h : runTx w (.exec u FM (.fm (.claim un)) []) = .ok w') :
    let lps := uniqueDenoms (w.fm.positionsBy u true)
    let ds := ((w.fm.farms.filter fun f => lps.contains f.lpDenom).map (·.assetDenom)).eraseDups
    monClaim untilE (w.fm.lastClaimed u) (lps.map (obsLp w.fm w'.fm FM u)) (obsPaid w w' u ds) none = none := by
  sorry

end MantraDex.MonSoundD
