/-
  C10, the equality clause: "… (and EQUAL to it while no position has been partially closed or topped up in
  pieces)".

  `C10Sys` proves total ≥ Σ users for every reachable state.  Here: along histories in which every position is
  opened once with its whole amount and closed (or emergency-withdrawn) as a whole — no `Expand`, no partial
  `Close`, no locked deposit of the pool manager into an EXISTING position — the recorded weights are exact:
  the latest total weight of an LP token is the sum of `calculate_weight(amount, unlocking_duration)` over the
  open positions in that token, every user's latest weight is the same sum over the user's own open
  positions, and therefore the total EQUALS the sum of the users' weights.

  (With top-ups in pieces the weight curve's super-additivity makes the close remove more than the pieces
  added; the clamp `min(weight, user_weight)` then leaves a drift in the total — which is why the property
  only claims ≥ in general.)
-/
import MantraDex.Model.System
import MantraDex.Properties.C10Sys

set_option linter.unusedSimpArgs false
set_option linter.unusedVariables false

namespace MantraDex.C10Eq
open MantraDex

/-- the weight the code records for a position when it is opened with its whole amount -/
def posWeight (p : Position) : Nat :=
  match calculateWeight p.amount p.unlocking with
  | .ok w => w
  | .error _ => 0

def sumPos (ps : List Position) : Nat := (ps.map posWeight).foldl (· + ·) 0

/-- open positions in an LP token (of one receiver / of everybody) -/
def openIn (w : World) (lp : Denom) : List Position :=
  w.fm.positions.filter fun p => p.open_ && p.lpDenom == lp
def openOf (w : World) (u : Addr) (lp : Denom) : List Position :=
  w.fm.positions.filter fun p => p.open_ && p.lpDenom == lp && p.receiver == u

/-- the recorded latest weights are exactly the open positions' weights -/
structure Exact (w : World) : Prop where
  total : ∀ lp, latestWeight (w.fm.hist FM lp) = sumPos (openIn w lp)
  user : ∀ u lp, u ≠ FM → latestWeight (w.fm.hist u lp) = sumPos (openOf w u lp)

/-- transactions that keep positions whole: no top-up, closes name the whole amount (or none),
    locked deposits through the pool manager never name an existing position (the proving agent may
    refine this predicate — e.g. quantify over the state — as long as it still admits creating positions
    directly and through the pool manager, full closes, emergency and normal withdrawals, claims, farms,
    swaps, deposits, withdrawals, configuration and time) -/
def Whole (w : World) : Tx → Prop
  | .exec _ _ (.fm (.expandPosition _)) _ => False
  | .exec _ _ (.fm (.closePosition id lp)) _ =>
      lp = none ∨ ∃ p, w.fm.getPosition id = some p ∧ lp = some ⟨p.lpDenom, p.amount⟩
  | .exec _ _ (.pm (.provideLiquidity _ _ _ _ unlocking lockId)) _ =>
      unlocking = none ∨ lockId = none ∨
        ∃ i, lockId = some i ∧ w.fm.getPosition (C.EXPLICIT_POSITION_ID_PREFIX ++ i) = none ∧ w.fm.getPosition i = none
  | _ => True

/-- one whole-position transaction preserves exactness (together with the invariant of `C10Sys`) -/
theorem exact_step (w : World) (tx : Tx) (k : Option Nat) (hext : C05Sys.External tx)
    (hstable : C10Sys.EpochStable w (step w tx k))
    (hpm : w.fm.config.poolManager = PM)
    (hinv : C10Sys.WInv w) (hwhole : Whole w tx)
    (h : Exact w) : Exact (step w tx k) := by
  sorry

/-- a fresh deployment is exact -/
theorem exact_init (w : World) (hp : w.fm.positions = []) (hh : w.fm.hist = fun _ _ => []) : Exact w := by
  sorry

/-- **equality clause of C10**: in an exact state the total equals the sum of the users' latest weights over
    any duplicate-free list of users that contains every receiver of an open position in the LP token -/
theorem total_eq_sum_of_users (w : World) (h : Exact w) (hinv : C10Sys.WInv w) (lp : Denom) (us : List Addr)
    (hnd : us.Nodup) (hfm : FM ∉ us)
    (hall : ∀ p ∈ openIn w lp, p.receiver ∈ us) :
    latestWeight (w.fm.hist FM lp) = C10Sys.sumOver us (fun u => latestWeight (w.fm.hist u lp)) := by
  sorry

/-- every state reachable by whole-position histories from a fresh deployment is exact -/
theorem exact_reachable (w0 : World) (h0 : C10Sys.WInv w0) (he0 : Exact w0) (txs : List (Tx × Option Nat))
    (hext : ∀ t ∈ txs, C05Sys.External t.1)
    (hstable : ∀ n, C10Sys.EpochStable w0 ((txs.take n).foldl (fun w t => step w t.1 t.2) w0) ∧
      ((txs.take n).foldl (fun w t => step w t.1 t.2) w0).fm.config.poolManager = PM)
    (hwhole : ∀ n (t : Tx × Option Nat), txs[n]? = some t →
      Whole ((txs.take n).foldl (fun w t => step w t.1 t.2) w0) t.1) :
    Exact (txs.foldl (fun w t => step w t.1 t.2) w0) := by
  sorry

/-! non-vacuity and necessity: with a top-up in pieces exactness fails (the drift of `C10H`) — a concrete
    evaluated history -/
-- (the proving agent: give a small closed example, e.g. create 1 unit, expand by 1 unit four times with a
--  fractional multiplier, close in full: total stays above zero with no open position)

end MantraDex.C10Eq
