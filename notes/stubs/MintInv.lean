/-
  The history streams contain, besides transactions, the line `mint <user> <coins>`: the chain's bank module hands a user
  account new tokens (`BankSudo::Mint`; this is how an account comes to hold amounts near the top of u128).  It is not a
  transaction of the model (`Tx` has no such constructor): the driver applies `Bank.mint` to the world between two
  transactions (`Driver/HistStream.lean`, case "mint").  The theorems about histories quantify over every start world that
  satisfies the reachable invariants — so what has to be shown is that such a mint PRESERVES those invariants: then every
  theorem of the form "Inv w → … for every history from w" applies to the world after the mint.

  `mintWorld` below is exactly what the driver does (the call counter and fault plan of the bank are left as they were).

  Prove preservation for EVERY world-level invariant structure that theorems of `Properties/` start from and that mentions the
  bank.  The list below is my reading of the code base; if you find another invariant structure over `World` that mentions
  `w.bank` and is used as the hypothesis of a `…_reachable` / `…_step` theorem, add the corresponding theorem.
  Hypotheses allowed: the receiver is an ordinary account (`isContract to = false`, hence ≠ PM, FM, …); the minted denoms are
  not factory tokens (`isFactoryToken c.denom = false` — the harness mints base denoms only; an LP-token-like denom would break
  `AllInv.fresh`: show that with a counterexample); the coins are non-zero where `Bank.mint` needs it.
-/
import MantraDex.Model.System
import MantraDex.Properties.C01All
import MantraDex.Properties.C01Sys
import MantraDex.Properties.C02Sys
import MantraDex.Properties.C05Sys
import MantraDex.Properties.C10Sys
import MantraDex.Properties.C06Sys

set_option linter.unusedSimpArgs false
set_option linter.unusedVariables false

namespace MantraDex.MintInv
open MantraDex

/-- what the driver does for an accepted `mint` line -/
def mintWorld (w : World) (to : Addr) (cs : List Coin) : Option World :=
  match ({ w.bank with calls := 0, failAt := none } : Bank).mint to cs with
  | .ok bank => some { w with bank := { bank with calls := w.bank.calls, failAt := w.bank.failAt } }
  | .error _ => none

/-- nothing but the bank changes, and there only `to`'s balance and the supply of the minted denoms, by the minted amounts -/
theorem mintWorld_effect (w w' : World) (to : Addr) (cs : List Coin) (h : mintWorld w to cs = some w') :
    w'.pm = w.pm ∧ w'.fm = w.fm ∧ w'.em = w.em ∧ w'.fc = w.fc ∧ w'.nowNs = w.nowNs ∧ w'.tfFees = w.tfFees ∧
    (∀ a d, w'.bank.bal a d = w.bank.bal a d + (if a = to then C01.coinsOf cs d else 0)) ∧
    (∀ d, w'.bank.supply d = w.bank.supply d + C01.coinsOf cs d) := by
  sorry

theorem mint_allInv (w w' : World) (to : Addr) (cs : List Coin) (hto : isContract to = false)
    (hd : ∀ c ∈ cs, isFactoryToken c.denom = false)
    (h : mintWorld w to cs = some w') (hinv : C01All.AllInv w) : C01All.AllInv w' := by
  sorry

theorem mint_pmInv (w w' : World) (to : Addr) (cs : List Coin) (hto : isContract to = false)
    (hd : ∀ c ∈ cs, isFactoryToken c.denom = false)
    (h : mintWorld w to cs = some w') (hinv : C01Sys.PmInv w) : C01Sys.PmInv w' := by
  sorry

theorem mint_lpInv (w w' : World) (to : Addr) (cs : List Coin) (hto : isContract to = false)
    (hd : ∀ c ∈ cs, isFactoryToken c.denom = false)
    (h : mintWorld w to cs = some w') (hinv : C02Sys.LpInv w) : C02Sys.LpInv w' := by
  sorry

theorem mint_fmInv (w w' : World) (to : Addr) (cs : List Coin) (hto : isContract to = false)
    (hd : ∀ c ∈ cs, isFactoryToken c.denom = false)
    (h : mintWorld w to cs = some w') (hinv : C05Sys.FmInv w) : C05Sys.FmInv w' := by
  sorry

theorem mint_wInv (w w' : World) (to : Addr) (cs : List Coin) (hto : isContract to = false)
    (h : mintWorld w to cs = some w') (hinv : C10Sys.WInv w) : C10Sys.WInv w' := by
  sorry

theorem mint_wcore (w w' : World) (to : Addr) (cs : List Coin) (hto : isContract to = false)
    (h : mintWorld w to cs = some w') (hinv : WSys.WCore w) : WSys.WCore w' := by
  sorry

theorem mint_jInv {D : Prop} (L : List C06Sys.Entry) (w w' : World) (to : Addr) (cs : List Coin) (hto : isContract to = false)
    (h : mintWorld w to cs = some w') (hinv : C06Sys.JInv D L w) : C06Sys.JInv D L w' := by
  sorry

/-- a mint of an LP-token-like denom is NOT harmless: `AllInv.fresh` (the LP token of a pool that does not exist yet has supply 0)
    fails afterwards — state and prove a concrete instance -/
theorem mint_factory_denom_breaks_fresh :
    ∃ (w w' : World) (to : Addr) (cs : List Coin), isContract to = false ∧ C01All.AllInv w ∧ mintWorld w to cs = some w' ∧
      ¬ C01All.AllInv w' := by
  sorry

end MantraDex.MintInv
