/-
  C20 / C11 / C13 at the level of whole transactions:

    * `create_farm_autoclose_tx_effect`: an accepted `CreateFarm` that closes expired farms of the LP token on the way
      (no injected fault): every closed farm's owner is refunded exactly its unclaimed remainder, the new farm is
      funded exactly, the fee goes to the collector, nothing else moves; the expired farms are gone, the others kept;
    * `create_farm_refund_failure_tolerated`: the same transaction in which ONE of those refunds is made to fail
      (fault position = that refund's bank call) is STILL accepted, and its result differs from the fault-free run only
      by that one missing refund (the tokens stay in the farm manager) — the failure "neither blocks the close nor
      affects any other farm, position or balance";
    * `close_farm_refund_failure_tolerated`: the same for a manual `CloseFarm`;
    * `swap_tx_belief_price`: an accepted `Swap` with a belief price returned at least
      floor(offer / belief_price) × (1 − min(max_slippage or 1 %, 50 %)).
-/
import MantraDex.Model.System
import MantraDex.Proofs.NumLemmas
import MantraDex.Proofs.BankLemmas
import MantraDex.Properties.C11Sys
import MantraDex.Properties.C12Sys
import MantraDex.Properties.C13
import MantraDex.Properties.C20

set_option linter.unusedSimpArgs false
set_option linter.unusedVariables false

namespace MantraDex.C20Tx
open MantraDex

def at_ (c : Prop) [Decidable c] (x : Int) : Int := if c then x else 0
def amt (c : Coin) (d : Denom) : Int := if c.denom = d then (c.amount : Int) else 0
def sumInt (xs : List Int) : Int := xs.foldl (· + ·) 0

/-- the farms of the LP token that `create_farm` closes: those it reads (`farmsByLp`) and finds expired -/
def expiredOf (w : World) (lp : Denom) : List Farm :=
  (w.fm.farmsByLp lp w.fm.config.maxConcurrentFarms).filter fun f =>
    match isFarmExpiredOrFalse w.fm w.fmEnv f with | .ok b => b | .error _ => false

/-- the refund of a closed farm, as a balance change of account `a` in denom `d` -/
def refundEffect (a : Addr) (d : Denom) (f : Farm) : Int :=
  at_ (d = f.assetDenom ∧ a = f.owner) ((f.assetAmount - f.claimed : Nat) : Int)
  - at_ (d = f.assetDenom ∧ a = FM) ((f.assetAmount - f.claimed : Nat) : Int)

theorem create_farm_autoclose_tx_effect (w w' : World) (u : Addr) (p : FarmParams) (funds : List Coin)
    (hinv : C05Sys.FmInv w)
    (h : runTx w (.exec u FM (.fm (.createFarm p)) funds) = .ok w') :
    (∃ f, f ∈ w'.fm.farms ∧ f.owner = u ∧ f.lpDenom = p.lpDenom ∧ f.assetDenom = p.asset.denom ∧
      f.assetAmount = p.asset.amount ∧ f.claimed = 0 ∧
      (∀ g ∈ w.fm.farms, g ∉ expiredOf w p.lpDenom → g.id ≠ f.id → g ∈ w'.fm.farms) ∧
      (∀ g ∈ w'.fm.farms, g = f ∨ (g ∈ w.fm.farms ∧ g ∉ expiredOf w p.lpDenom))) ∧
    w'.fm.positions = w.fm.positions ∧ w'.pm = w.pm ∧
    ∀ a d, (w'.bank.bal a d : Int) = (w.bank.bal a d : Int)
      - at_ (a = u) (amt p.asset d + amt w.fm.config.createFarmFee d)
      + at_ (a = FM) (amt p.asset d)
      + at_ (a = w.fm.config.feeCollector) (amt w.fm.config.createFarmFee d)
      + sumInt ((expiredOf w p.lpDenom).map (refundEffect a d)) := by
  sorry

/-- bank calls of a `CreateFarm` transaction that come BEFORE the refunds of the farms it closes: the funds transfer and
    the fee messages (refund of an overpaid fee, fee to the collector) -/
def callsBeforeRefunds (w : World) (u : Addr) (p : FarmParams) (funds : List Coin) : Nat :=
  (if funds.isEmpty then 0 else 1) +
  (if w.fm.config.createFarmFee.amount ≠ 0 then
    (match processFarmCreationFee w.fm.config u funds p.asset with | .ok l => l.length | .error _ => 0)
   else 0)

/-- an injected failure at one of the refunds of the auto-closed farms: the creation is STILL accepted (liveness) -/
theorem create_farm_refund_failure_accepted (w w0' : World) (u : Addr) (p : FarmParams) (funds : List Coin) (k : Nat)
    (hinv : C05Sys.FmInv w)
    (h0 : runTx w (.exec u FM (.fm (.createFarm p)) funds) = .ok w0')
    (hk : callsBeforeRefunds w u p funds < k) :
    ∃ wk', runTx w (.exec u FM (.fm (.createFarm p)) funds) (some k) = .ok wk' := by
  sorry

/-- … and its result differs from the fault-free one by at most that one refund, whose tokens stay in the farm manager:
    no other farm, position or balance is affected -/
theorem create_farm_refund_failure_tolerated (w w0' wk' : World) (u : Addr) (p : FarmParams) (funds : List Coin)
    (k : Nat) (hinv : C05Sys.FmInv w)
    (h0 : runTx w (.exec u FM (.fm (.createFarm p)) funds) = .ok w0')
    (hk : runTx w (.exec u FM (.fm (.createFarm p)) funds) (some k) = .ok wk') :
    wk'.fm.farms = w0'.fm.farms ∧ wk'.fm.positions = w0'.fm.positions ∧ wk'.pm = w0'.pm ∧
    ((∀ a d, wk'.bank.bal a d = w0'.bank.bal a d) ∨
     ∃ g' ∈ expiredOf w p.lpDenom,
      ∀ a d, (wk'.bank.bal a d : Int) = (w0'.bank.bal a d : Int) - refundEffect a d g') := by
  sorry

/-- any injected failure of a manual close's refund: the farm is closed all the same -/
theorem close_farm_refund_failure_tolerated (w : World) (u : Addr) (f : Farm) (k : Nat)
    (hinv : C05Sys.FmInv w) (hf : f ∈ w.fm.farms) (hauth : u = f.owner ∨ w.fm.owner.owner = some u) :
    ∃ wk', runTx w (.exec u FM (.fm (.closeFarm f.id)) []) (some k) = .ok wk' ∧
      (∀ g ∈ wk'.fm.farms, g.id ≠ f.id) ∧ wk'.fm.positions = w.fm.positions ∧ wk'.pm = w.pm := by
  sorry

/-- an accepted swap under a belief price returned at least the expected amount less the tolerance -/
theorem swap_tx_belief_price (w w' : World) (u : Addr) (offer : Coin) (ask : Denom) (bp : Nat) (ms : Option Nat)
    (recv : Option Addr) (pid : String) (k : Option Nat)
    (h : runTx w (.exec u PM (.pm (.swap ask (some bp) ms recv pid)) [offer]) k = .ok w') :
    ∃ c, querySimulation w.pm offer ask pid = .ok c ∧ bp ≠ 0 ∧
      (let expected := offer.amount * ONE18 * (ONE18 * ONE18 / bp) / ONE18 / ONE18
       expected ≤ c.ret ∨ (expected - c.ret) * ONE18 / expected ≤ C13.effTol ms) := by
  sorry

end MantraDex.C20Tx
