/-
  C17, non-interference at the level of WHOLE TRANSACTIONS and histories.

  `C17NI` shows that two pool-manager states differing only in pool switches answer every single
  MESSAGE identically, except that the less enabled one may refuse with `disabled`.  Here the statement is
  lifted through the runtime (`execMsg` / `execSubs`: nested calls between the pool manager and the farm
  manager, replies, rollback scopes, injected bank faults): two WORLDS that differ only in pool switches,
  the second at least as enabled as the first, run every transaction the first one accepts to related
  worlds again — same balances, same farm manager, same reserves, same LP supplies, same everything except
  the switches.  This is the clause "while the other operations on that pool and all operations on other
  pools behave exactly as before" of C17 for whole transactions, which the `twin` stream only samples
  (`mon_twin_c17`).
-/
import MantraDex.Model.System
import MantraDex.Properties.C17NI

set_option linter.unusedSimpArgs false
set_option linter.unusedVariables false

namespace MantraDex.C17Tx
open MantraDex

/-- same world up to the pool switches of the pool manager; `w2` at least as enabled as `w1` -/
def WorldRel (w1 w2 : World) : Prop :=
  w2.bank = w1.bank ∧ w2.fm = w1.fm ∧ w2.em = w1.em ∧ w2.fc = w1.fc ∧ w2.nowNs = w1.nowNs ∧
  w2.tfFees = w1.tfFees ∧ w2.validAddr = w1.validAddr ∧ C17NI.StateRel w1.pm w2.pm

theorem worldRel_refl (w : World) : WorldRel w w := by
  sorry

/-- **whole transactions**: whatever the less enabled world accepts, the more enabled world accepts too,
    with or without an injected bank fault, and the resulting worlds are again equal up to switches -/
theorem tx_more_enabled_simulates {w1 w2 w1' : World} {tx : Tx} {k : Option Nat}
    (hrel : WorldRel w1 w2) (h : runTx w1 tx k = .ok w1') :
    ∃ w2', runTx w2 tx k = .ok w2' ∧ WorldRel w1' w2' := by
  sorry

/-- conversely: what the more enabled world accepts, the less enabled one either accepts with the same
    result (up to switches) or rejects as a whole — and then nothing changes there (`step`) -/
theorem tx_less_enabled_same_or_rejected {w1 w2 w2' : World} {tx : Tx} {k : Option Nat}
    (hrel : WorldRel w1 w2) (h : runTx w2 tx k = .ok w2') :
    (∃ w1', runTx w1 tx k = .ok w1' ∧ WorldRel w1' w2') ∨ (∃ e, runTx w1 tx k = .error e) := by
  sorry

/-- when the less enabled world rejects a transaction that the more enabled one accepts, the reason is a
    switch: the error is `disabled` -/
theorem tx_rejected_only_by_switch {w1 w2 w2' : World} {tx : Tx} {k : Option Nat} {e : Err}
    (hrel : WorldRel w1 w2) (h2 : runTx w2 tx k = .ok w2') (h1 : runTx w1 tx k = .error e) :
    e = .disabled := by
  sorry

/-- **histories**: along any history in which the less enabled world accepts every transaction, the two
    worlds stay equal up to switches -/
theorem history_simulates (w1 w2 : World) (txs : List (Tx × Option Nat)) (hrel : WorldRel w1 w2)
    (hacc : ∀ (pre : List (Tx × Option Nat)) (t : Tx × Option Nat) (post : List (Tx × Option Nat)),
      txs = pre ++ t :: post →
      ∃ w', runTx (pre.foldl (fun w t => step w t.1 t.2) w1) t.1 t.2 = .ok w') :
    WorldRel (txs.foldl (fun w t => step w t.1 t.2) w1) (txs.foldl (fun w t => step w t.1 t.2) w2) := by
  sorry

end MantraDex.C17Tx
