/-
  C06, end to end over whole histories: a ledger of every reward payment made by every accepted `Claim`
  transaction is derived from the history (one entry per (user, farm, epoch) with the reward paid), and in
  every history of account-signed transactions starting from a fresh deployment

    * for every farm (identifier, LP token, emission rate) and every epoch, the rewards paid to ALL users
      for that epoch add up to at most the epoch's emission  (`epoch_paid_le_emission`);
    * no (user, farm, epoch) is ever paid twice  (`no_epoch_paid_twice`);
    * every entry is ⌊rate · user weight in effect / total weight in effect⌋ with the weights in effect at
      that epoch at claim time, for an epoch inside the farm's life that has already begun (`entry_shape`);
    * the coins an accepted claim sends are exactly the sum of its ledger entries (`claim_pays_entries`).

  The epoch configuration must stay the same along the history (as in `C10Sys`).
-/
import MantraDex.Model.System
import MantraDex.Spec.Ledger
import MantraDex.Proofs.NumLemmas
import MantraDex.Properties.C06
import MantraDex.Properties.C07
import MantraDex.Properties.C07Split
import MantraDex.Properties.C10Sys

set_option linter.unusedSimpArgs false
set_option linter.unusedVariables false

namespace MantraDex.C06Sys
open MantraDex

/-- one payment: `user` received `reward` units of `denom` from farm `farm` (on LP token `lp`, emitting
    `rate` per epoch) for epoch `epoch`; `uw` / `total` are the user's and the total weight in effect at
    that epoch when the claim was made -/
structure Entry where
  user : Addr
  lp : Denom
  farm : String
  denom : Denom
  rate : Nat
  epoch : Nat
  uw : Nat
  total : Nat
  reward : Nat
  deriving Repr, DecidableEq, Inhabited

def farmField (s : FmState) (id : String) (f : Farm → α) (dflt : α) : α :=
  ((s.farms.find? (·.id == id)).map f).getD dflt

/-- the entries of one LP token of a claim: the per-epoch terms `calculate_rewards` computes -/
def lpEntries (s : FmState) (env : FmEnv) (lp : Denom) (u : Addr) (untilE : Nat) : List Entry :=
  match calculateRewards s env lp u untilE with
  | .ok rc => rc.terms.map fun t =>
      { user := u, lp := lp, farm := t.1, denom := farmField s t.1 (·.assetDenom) "",
        rate := farmField s t.1 (·.emissionRate) 0, epoch := t.2.1,
        uw := Spec.weightAt (s.hist u lp) t.2.1, total := Spec.weightAt (s.hist env.self lp) t.2.1,
        reward := t.2.2 }
  | .error _ => []

/-- the entries of a claim by `sender` in state `s` (all LP tokens of the sender's open positions) -/
def claimEntries (s : FmState) (env : FmEnv) (sender : Addr) (untilE : Option Nat) : List Entry :=
  match fmCurrentEpoch s env with
  | .error _ => []
  | .ok cur =>
    match untilEpochOrCurrent untilE cur with
    | .error _ => []
    | .ok u => (uniqueDenoms (s.positionsBy sender true)).flatMap fun lp => lpEntries s env lp sender u

/-- entries produced by one transaction: those of an ACCEPTED top-level `Claim` -/
def ledgerStep (w : World) (tx : Tx) (k : Option Nat) : List Entry :=
  match tx with
  | .exec sender c (.fm (.claim u)) _ =>
    match runTx w tx k with
    | .ok _ => if c = FM then claimEntries w.fm w.fmEnv sender u else []
    | .error _ => []
  | _ => []

/-- the ledger of a history -/
def ledger (w : World) : List (Tx × Option Nat) → List Entry
  | [] => []
  | t :: ts => ledgerStep w t.1 t.2 ++ ledger (step w t.1 t.2) ts

def sumRewards (es : List Entry) : Nat := (es.map (·.reward)).foldl (· + ·) 0

/-- a fresh deployment: no positions, no farms, no weight history, no claim cursor, no pending buffer -/
structure Fresh (w : World) : Prop where
  positions : w.fm.positions = []
  farms : w.fm.farms = []
  hist : w.fm.hist = fun _ _ => []
  cursor : w.fm.lastClaimed = fun _ => none
  buffer : w.pm.buffer = none

/-- the history keeps the epoch configuration and the farm manager's pool-manager pointer (as in C10Sys) -/
def Stable (w0 : World) (txs : List (Tx × Option Nat)) : Prop :=
  ∀ n, C10Sys.EpochStable w0 ((txs.take n).foldl (fun w t => step w t.1 t.2) w0) ∧
       ((txs.take n).foldl (fun w t => step w t.1 t.2) w0).fm.config.poolManager = PM

/-- the coins an accepted claim sends are exactly its ledger entries, per denom -/
theorem claim_pays_entries {s s' : FmState} {env : FmEnv} {sender : Addr} {u : Option Nat} {r : Response}
    (hnd : (s.farms.map (·.id)).Nodup)
    (h : fmClaim s env sender [] u = .ok (s', r)) (d : Denom) :
    C05.outflow r.msgs d = sumRewards ((claimEntries s env sender u).filter (·.denom == d)) := by
  sorry

/-- every ledger entry of a history: paid by a farm on that LP token for an epoch inside its life that had
    already begun, and equal to the floor of the exact share with the weights recorded in the entry -/
theorem entry_shape (w0 : World) (h0 : Fresh w0) (txs : List (Tx × Option Nat))
    (hext : ∀ t ∈ txs, C05Sys.External t.1) (hst : Stable w0 txs) :
    ∀ x ∈ ledger w0 txs, x.total ≠ 0 ∧ x.uw ≤ x.total ∧ x.reward = x.rate * x.uw / x.total ∧ x.user ≠ FM := by
  sorry

/-- no (user, LP token, farm, epoch) is paid twice -/
theorem no_epoch_paid_twice (w0 : World) (h0 : Fresh w0) (txs : List (Tx × Option Nat))
    (hext : ∀ t ∈ txs, C05Sys.External t.1) (hst : Stable w0 txs)
    (u : Addr) (lp : Denom) (f : String) (e : Nat) :
    ((ledger w0 txs).filter fun x => x.user == u && x.lp == lp && x.farm == f && x.epoch == e).length ≤ 1 := by
  sorry

/-- for every farm (identifier, LP token, emission rate) and every epoch, the rewards paid to all users for
    that epoch add up to at most the epoch's emission -/
theorem epoch_paid_le_emission (w0 : World) (h0 : Fresh w0) (txs : List (Tx × Option Nat))
    (hext : ∀ t ∈ txs, C05Sys.External t.1) (hst : Stable w0 txs)
    (f : String) (lp : Denom) (r e : Nat) :
    sumRewards ((ledger w0 txs).filter fun x => x.farm == f && x.lp == lp && x.rate == r && x.epoch == e) ≤ r := by
  sorry

end MantraDex.C06Sys
