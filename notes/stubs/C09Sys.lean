/-
  C09 through the runtime: the complete bank effect of an accepted emergency withdrawal.  The owner
  receives the position's LP minus the penalty; every distinct owner of a currently active farm on that
  LP token receives the same share; the fee collector receives the rest of the penalty (all of it when
  there is no active farm); the farm manager pays out at most the recorded amount; the position is
  deleted; nobody else's balance moves.  Stated additively over `Int` so that one formula covers every
  aliasing of the parties (the owner may also be a farm owner or the fee collector).
-/
import MantraDex.Model.System
import MantraDex.Proofs.NumLemmas
import MantraDex.Proofs.BankLemmas
import MantraDex.Properties.C09
import MantraDex.Properties.C05Sys

set_option linter.unusedSimpArgs false
set_option linter.unusedVariables false

namespace MantraDex.C09Sys
open MantraDex

def at_ (c : Prop) [Decidable c] (x : Int) : Int := if c then x else 0

/-- the farms that count as "currently active" for the penalty split, as `withdraw_position` selects them -/
def activeFarms (s : FmState) (env : FmEnv) (lp : Denom) : R (List Farm) := do
  let cur ← fmCurrentEpoch s env
  (s.farmsByLp lp C.MAX_FARMS_LIMIT).filterM fun f => do
    if f.startEpoch ≤ cur then do
      let ex ← isFarmExpiredOrFalse s env f
      pure (!ex)
    else pure false

theorem emergency_withdraw_tx_effect (w w' : World) (u : Addr) (p : Position)
    (hu : isContract u = false) (hp : w.fm.getPosition p.id = some p)
    (hnot : (⟨p.amount, p.unlocking, p.expiringAt⟩ : PosView).isExpired w.fmEnv.nowS = false)
    (hfc : w.fm.config.feeCollector ≠ FM) (hinv : C05Sys.FmInv w)
    (h : runTx w (.exec u FM (.fm (.withdrawPosition p.id (some true))) []) = .ok w') :
    u = p.receiver ∧
    ∃ rate active sp,
      calculateEmergencyPenalty ⟨p.amount, p.unlocking, p.expiringAt⟩ w.fm.config.emergencyUnlockPenalty
        w.fmEnv.nowS = .ok rate ∧
      activeFarms w.fm w.fmEnv p.lpDenom = .ok active ∧
      penaltySplit p.amount rate (uniqueOwners active).length = .ok sp ∧
      w'.fm.getPosition p.id = none ∧ w'.pm = w.pm ∧ w'.fm.farms = w.fm.farms ∧
      (p.amount - sp.total) + sp.nFarmOwners * sp.perFarmOwner + sp.feeCollector ≤ p.amount ∧
      ∀ a d, (w'.bank.bal a d : Int) = (w.bank.bal a d : Int)
        + at_ (d = p.lpDenom ∧ a = u) ((p.amount - sp.total : Nat) : Int)
        + at_ (d = p.lpDenom ∧ a ∈ uniqueOwners active ∧ sp.nFarmOwners ≠ 0) (sp.perFarmOwner : Int)
        + at_ (d = p.lpDenom ∧ a = w.fm.config.feeCollector) (sp.feeCollector : Int)
        - at_ (d = p.lpDenom ∧ a = FM)
            (((p.amount - sp.total) + sp.nFarmOwners * sp.perFarmOwner + sp.feeCollector : Nat) : Int) := by
  sorry

end MantraDex.C09Sys
