/-
  Liveness clauses (C02, C05 / C11): in every state satisfying the proved reachable-state invariants,

    * while withdrawals are enabled, a holder can ALWAYS redeem any LP amount worth at least one unit of some asset:
      the `WithdrawLiquidity` transaction is accepted (`withdraw_liquidity_live`);
    * a farm's owner (or the contract owner) can ALWAYS close it and is refunded the unclaimed remainder: the
      `CloseFarm` transaction is accepted (`close_farm_live`);
    * a position's owner can ALWAYS leave through the emergency exit as long as the position is small enough for
      the penalty arithmetic (`emergency_withdraw_live_partial`: amount · 10^18 must fit 128 bits — recorded in
      DESIGN.md as a limitation outside the properties).
-/
import MantraDex.Model.System
import MantraDex.Proofs.NumLemmas
import MantraDex.Proofs.BankLemmas
import MantraDex.Properties.C01Sys
import MantraDex.Properties.C02Sys
import MantraDex.Properties.C05Sys
import MantraDex.Properties.C09Sys
import MantraDex.Properties.C11Sys

set_option linter.unusedSimpArgs false
set_option linter.unusedVariables false

namespace MantraDex.C02Live
open MantraDex

/-- a holder of `amount` LP of a pool with withdrawals enabled, worth at least one unit of some asset, can redeem it -/
theorem withdraw_liquidity_live (w : World) (p : PoolInfo) (u : Addr) (amount : Nat)
    (hc : C01Sys.PmInv w) (hl : C02Sys.LpInv w) (hp : p ∈ w.pm.pools)
    (hplainAssets : ∀ a ∈ p.assets, isFactoryToken a.denom = false)
    (hen : p.status.withdrawals = true)
    (hu : isContract u = false) (hpos : amount ≠ 0) (hbal : amount ≤ w.bank.bal u p.lpDenom)
    (hworth : ∃ a ∈ p.assets, w.bank.supply p.lpDenom ≤ a.amount * amount) :
    ∃ w', runTx w (.exec u PM (.pm (.withdrawLiquidity p.id)) [⟨p.lpDenom, amount⟩]) = .ok w' := by
  sorry

/-- the farm's owner, or the contract owner, can always close a farm -/
theorem close_farm_live (w : World) (f : Farm) (u : Addr) (hinv : C05Sys.FmInv w) (hf : f ∈ w.fm.farms)
    (hu : isContract u = false) (hauth : u = f.owner ∨ w.fm.owner.owner = some u) :
    ∃ w', runTx w (.exec u FM (.fm (.closeFarm f.id)) []) = .ok w' ∧
      (∀ g ∈ w'.fm.farms, g.id ≠ f.id) := by
  sorry

/-- the owner of a position can always leave through the emergency exit (position small enough for the 128-bit
    penalty arithmetic, epoch defined) -/
theorem emergency_withdraw_live_partial (w : World) (p : Position) (hinv : C05Sys.FmInv w)
    (hp : p ∈ w.fm.positions) (hu : isContract p.receiver = false)
    (hsmall : p.amount * ONE18 ≤ U128_MAX) (hamt : p.amount ≠ 0)
    (hdur : C.SECONDS_IN_DAY ≤ p.unlocking ∧ p.unlocking ≤ C.SECONDS_IN_YEAR)
    (hpen : w.fm.config.emergencyUnlockPenalty ≤ ONE18)
    (hepoch : ∃ cur, fmCurrentEpoch w.fm w.fmEnv = .ok cur)
    (hnow : w.nowNs ≤ U64_MAX) :
    ∃ w', runTx w (.exec p.receiver FM (.fm (.withdrawPosition p.id (some true))) []) = .ok w' ∧
      w'.fm.getPosition p.id = none := by
  sorry

end MantraDex.C02Live
