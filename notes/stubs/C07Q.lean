/-
  C07, last clause: "the Rewards query always equals what an immediate Claim pays" — for ANY number of
  LP tokens (C07.query_eq_claim_single_lp covers users whose open positions are all in one LP token).

  `fmClaim` walks the user's LP tokens one after the other and, between two of them, writes the farms'
  `claimed` amounts and compacts the user's weight history of the LP token just handled; `queryRewards`
  walks the same LP tokens on the unchanged state.  The two agree because what is written for one LP
  token is never read for another.
-/
import MantraDex.Model.FarmManager
import MantraDex.Properties.C07

set_option linter.unusedSimpArgs false
set_option linter.unusedVariables false

namespace MantraDex.C07Q
open MantraDex

/-- the Rewards query and an accepted Claim on the same state: the query answers, and the claim sends
    exactly the query's coins to the claimer (nothing when there is nothing) -/
theorem query_eq_claim {s s' : FmState} {env : FmEnv} {sender : Addr} {u : Option Nat}
    {r : Response}
    (hv : env.validAddr sender = true)
    (h : fmClaim s env sender [] u = .ok (s', r)) :
    ∃ coins, queryRewards s env sender u = .ok coins ∧
      r.msgs.map (·.msg) = (if coins.isEmpty then [] else [Msg.bankSend sender coins]) := by
  sorry

/-- … and conversely the query never promises what a claim would not pay: if the query answers with a
    non-empty list while the user has open positions, a claim on the same state is either accepted (and
    pays exactly that, by `query_eq_claim`) or refused as a whole -/
theorem query_nonempty_claim_pays_or_refuses {s : FmState} {env : FmEnv} {sender : Addr} {u : Option Nat}
    {coins : List Coin}
    (hq : queryRewards s env sender u = .ok coins) :
    (∃ s' r, fmClaim s env sender [] u = .ok (s', r) ∧
      r.msgs.map (·.msg) = (if coins.isEmpty then [] else [Msg.bankSend sender coins])) ∨
    (∃ e, fmClaim s env sender [] u = .error e) := by
  sorry

end MantraDex.C07Q
