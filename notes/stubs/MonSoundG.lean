/-
  Soundness of the monitors added with the ninth round of seeded changes (see MonSound … MonSoundF for the idea): fed with the
  quantities of an accepted MODEL transaction the monitor raises no alarm.

  `latest h` = the weight of the last change point of a history (what the harness calls the latest weight).

  * `monTopupBacked` / `monTopupWeight` (C08, C05, C10, C07): an accepted direct ExpandPosition — the recorded amount grows by
    exactly the coin, the farm manager receives exactly that coin, the owner's latest weight in that LP token grows and nobody
    else's latest weight in it changes (the farm manager's own entry is the TOTAL and is not among "the others");
  * `monExitWeight` (C10): an accepted emergency exit with a position that was still OPEN: the owner's and the total's latest
    weight do not grow, and each becomes strictly smaller unless it was already zero;
  * `monMinReceive` (C13): an accepted route carrying `minimum_receive = some m` delivered at least `m`;
  * `monHopK` (C03): for a two-hop route through the SAME constant-product pool (x → y, then y → x; the case where the before /
    after snapshots of the pool only show the net effect), the product of the reserves after the first hop is at least the
    product before, and after the second hop at least that after the first.  State it on `routeHops`: with `s1` / `s2` the
    pool-manager states after one and two hops.

  If a statement is false as given: counterexample (kernel-evaluated), original kept in a comment, `_partial` with the weakest
  repair, prominent note — as in the guide.  Hypotheses I expect to be needed (fields of invariants of reachable states — say
  which theorem provides them): `C05Sys.FmInv w` (unique position identifiers), `w.fm.config.poolManager = PM`, sorted weight
  histories (`C10Sys.WInv.sorted`), an epoch clock that answers.
-/
import MantraDex.Model.System
import MantraDex.Model.HistMon
import MantraDex.Properties.C03
import MantraDex.Properties.C03Sys
import MantraDex.Properties.C08Tx
import MantraDex.Properties.C10Sys
import MantraDex.Properties.C12Sys

set_option linter.unusedSimpArgs false
set_option linter.unusedVariables false

namespace MantraDex.MonSoundG
open MantraDex

/-- the weight of the last change point -/
def latest (h : List (Nat × Nat)) : Nat := (h.getLast?.map (·.2)).getD 0

/-- `mon_topup_backed` (C08 / C05) for a direct ExpandPosition -/
theorem monTopupBacked_sound (w w' : World) (u : Addr) (id : String) (funds : List Coin) (k : Option Nat) (p p' : Position)
    (hu : isContract u = false) (hpm : w.fm.config.poolManager = PM)
    (hp : w.fm.getPosition id = some p) (hp' : w'.fm.getPosition id = some p')
    (h : runTx w (.exec u FM (.fm (.expandPosition id)) funds) k = .ok w') :
    monTopupBacked (p'.amount - p.amount) ((w'.bank.bal FM p.lpDenom : Int) - w.bank.bal FM p.lpDenom) = none := by
  sorry

/-- `mon_topup_weight` (C10 / C07) for a direct ExpandPosition: `others` any accounts other than the owner and the farm manager -/
theorem monTopupWeight_sound (w w' : World) (u : Addr) (id : String) (funds : List Coin) (k : Option Nat) (p : Position)
    (others : List Addr)
    (hu : isContract u = false) (hpm : w.fm.config.poolManager = PM) (hinv : C10Sys.WInv w)
    (hp : w.fm.getPosition id = some p) (hothers : ∀ a ∈ others, a ≠ p.receiver ∧ a ≠ FM)
    (h : runTx w (.exec u FM (.fm (.expandPosition id)) funds) k = .ok w') :
    monTopupWeight (decide (latest (w.fm.hist p.receiver p.lpDenom) < latest (w'.fm.hist p.receiver p.lpDenom)))
      ((others.filter fun a => latest (w'.fm.hist a p.lpDenom) != latest (w.fm.hist a p.lpDenom)).length) = none := by
  sorry

/-- `mon_exit_weight` (C10): emergency exit with an OPEN position -/
theorem monExitWeight_sound (w w' : World) (u : Addr) (p : Position) (k : Option Nat)
    (hinv : C10Sys.WInv w) (hfm : C05Sys.FmInv w)
    (hp : w.fm.getPosition p.id = some p) (hopen : p.open_ = true) (hamt : p.amount ≠ 0)
    (h : runTx w (.exec u FM (.fm (.withdrawPosition p.id (some true))) []) k = .ok w') :
    monExitWeight (latest (w.fm.hist p.receiver p.lpDenom)) (latest (w'.fm.hist p.receiver p.lpDenom))
      (latest (w.fm.hist FM p.lpDenom)) (latest (w'.fm.hist FM p.lpDenom)) = none := by
  sorry

/-- `mon_min_receive` (C13) -/
theorem monMinReceive_sound (w w' : World) (u : Addr) (ops : List SwapOp) (m : Nat) (recv : Option Addr)
    (ms : Option Nat) (funds : List Coin) (k : Option Nat) (first : SwapOp) (amount : Nat) (s1 : PmState) (out : Coin)
    (feeMsgs : List Msg)
    (hhead : ops.head? = some first) (hf : funds = [⟨first.tokenIn, amount⟩])
    (hroute : routeHops w.pm ms ops ⟨first.tokenIn, amount⟩ [] = .ok (s1, out, feeMsgs))
    (h : runTx w (.exec u PM (.pm (.execSwapOps ops (some m) recv ms)) funds) k = .ok w') :
    monMinReceive m out.amount = none := by
  sorry

/-- `mon_hop_k` (C03): a route x → y → x through one constant-product pool `pid` with two assets; reserves of (x, y) before,
    after the first hop (`s1`), after the second (`s2`) -/
theorem monHopK_sound (s s1 s2 : PmState) (ms : Option Nat) (pid : String) (x y : Denom) (amount : Nat)
    (pool pool1 pool2 : PoolInfo) (o1 o2 : Coin) (f1 f2 : List Msg) (rx ry rx1 ry1 rx2 ry2 : Nat)
    (hne : x ≠ y)
    (hp : s.getPool pid = .ok pool) (hcp : pool.ptype = .cp) (ha : pool.assets = [⟨x, rx⟩, ⟨y, ry⟩])
    (h1 : routeHops s ms [⟨x, y, pid⟩] ⟨x, amount⟩ [] = .ok (s1, o1, f1))
    (hp1 : s1.getPool pid = .ok pool1) (ha1 : pool1.assets = [⟨x, rx1⟩, ⟨y, ry1⟩])
    (h2 : routeHops s1 ms [⟨y, x, pid⟩] o1 [] = .ok (s2, o2, f2))
    (hp2 : s2.getPool pid = .ok pool2) (ha2 : pool2.assets = [⟨x, rx2⟩, ⟨y, ry2⟩]) :
    monHopK rx ry rx1 ry1 = none ∧ monHopK rx1 ry1 rx2 ry2 = none := by
  sorry

end MantraDex.MonSoundG
