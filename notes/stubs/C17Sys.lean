/-
  C17 at the level of whole transactions (runtime: nested calls, replies, rollbacks, injected faults):

    * swaps disabled on a pool: whatever anybody sends — direct swaps, routes of any shape passing through it,
      single-asset deposits (which swap internally), anything nested — the pool's reserves change only through a
      multi-asset deposit into it or a withdrawal from it (`swaps_disabled_reserves_frozen`);
    * deposits disabled: the supply of its LP token never grows (`deposits_disabled_no_mint`);
    * withdrawals disabled: the supply of its LP token never shrinks (`withdrawals_disabled_no_burn`);
    * a configuration transaction that toggles pool `t` leaves every other pool exactly as it was
      (`toggle_tx_only_named_pool`); a pool created by a transaction starts with everything enabled
      (`created_pool_enabled`);
    * (strengthening of C02Sys) a transaction that increases the supply of a pool's LP token is a
      `ProvideLiquidity` naming THAT pool (`lp_supply_increase_names_pool`).
-/
import MantraDex.Model.System
import MantraDex.Proofs.NumLemmas
import MantraDex.Properties.C17
import MantraDex.Properties.C02Sys
import MantraDex.Properties.C16Sys

set_option linter.unusedSimpArgs false
set_option linter.unusedVariables false

namespace MantraDex.C17Sys
open MantraDex

theorem lp_supply_increase_names_pool (w : World) (tx : Tx) (k : Option Nat)
    (hext : C01Sys.External tx) (hplain : C02Sys.LpPlain (step w tx k)) (h : C02Sys.LpInv w)
    (p : PoolInfo) (hp : p ∈ w.pm.pools)
    (hup : (step w tx k).bank.supply p.lpDenom > w.bank.supply p.lpDenom) :
    ∃ sender ls ss rc u l funds, tx = .exec sender PM (.pm (.provideLiquidity ls ss rc p.id u l)) funds := by
  sorry

theorem swaps_disabled_reserves_frozen (w : World) (tx : Tx) (k : Option Nat)
    (hext : C01Sys.External tx) (h : C02Sys.LpInv w)
    (p : PoolInfo) (hp : p ∈ w.pm.pools) (hoff : p.status.swaps = false) :
    (∃ p' ∈ (step w tx k).pm.pools, p'.id = p.id ∧ p'.assets = p.assets) ∨
    (∃ sender ls ss rc u l funds,
      tx = .exec sender PM (.pm (.provideLiquidity ls ss rc p.id u l)) funds ∧ 2 ≤ funds.length) ∨
    (∃ sender funds, tx = .exec sender PM (.pm (.withdrawLiquidity p.id)) funds) := by
  sorry

theorem deposits_disabled_no_mint (w : World) (tx : Tx) (k : Option Nat)
    (hext : C01Sys.External tx) (hplain : C02Sys.LpPlain (step w tx k)) (h : C02Sys.LpInv w)
    (p : PoolInfo) (hp : p ∈ w.pm.pools) (hoff : p.status.deposits = false) :
    (step w tx k).bank.supply p.lpDenom ≤ w.bank.supply p.lpDenom := by
  sorry

theorem withdrawals_disabled_no_burn (w : World) (tx : Tx) (k : Option Nat)
    (hext : C01Sys.External tx) (hplain : C02Sys.LpPlain (step w tx k)) (h : C02Sys.LpInv w)
    (p : PoolInfo) (hp : p ∈ w.pm.pools) (hoff : p.status.withdrawals = false) :
    w.bank.supply p.lpDenom ≤ (step w tx k).bank.supply p.lpDenom := by
  sorry

theorem toggle_tx_only_named_pool (w : World) (sender : Addr) (fc fm : Option Addr) (cf : Option Coin)
    (t : FeatureToggle) (funds : List Coin) (k : Option Nat)
    (hids : (w.pm.pools.map (·.id)).Nodup)
    (q : PoolInfo) (hq : q ∈ w.pm.pools) (hne : q.id ≠ t.poolId) :
    q ∈ (step w (.exec sender PM (.pm (.updateConfig fc fm cf (some t))) funds) k).pm.pools := by
  sorry

theorem created_pool_enabled (w : World) (tx : Tx) (k : Option Nat) (hext : C01Sys.External tx)
    (hids : (w.pm.pools.map (·.id)).Nodup)
    (p' : PoolInfo) (hp' : p' ∈ (step w tx k).pm.pools) (hnew : ∀ p ∈ w.pm.pools, p.id ≠ p'.id) :
    p'.status.swaps = true ∧ p'.status.deposits = true ∧ p'.status.withdrawals = true ∧
    ∀ a ∈ p'.assets, a.amount = 0 := by
  sorry

end MantraDex.C17Sys
