/-
  C10, lifted through the runtime: in every state reachable by account-signed transactions (nested
  calls from the pool manager, replies, rollbacks, injected faults), for every LP token and EVERY
  epoch, the total weight the farm manager uses as the denominator of reward shares (the weight in
  effect of its own history entry) is at least the sum of the weights in effect of any set of distinct
  users; and a user without open positions in an LP token has no weight history in it.

  The epoch configuration must stay the same along the history (the owner of the epoch manager can
  re-base epochs; after that, epoch ids restart and the histories of both kinds are no longer
  comparable — recorded in DESIGN.md as an owner-level caveat), and block time must stay in the u64
  nanosecond range, as on a real chain.
-/
import MantraDex.Model.System
import MantraDex.Spec.Ledger
import MantraDex.Proofs.NumLemmas
import MantraDex.Properties.C10H
import MantraDex.Properties.C05Sys

set_option linter.unusedSimpArgs false
set_option linter.unusedVariables false

namespace MantraDex.C10Sys
open MantraDex

def sumOver (us : List Addr) (f : Addr → Nat) : Nat := (us.map f).foldl (· + ·) 0

/-- for every epoch, the total's weight in effect covers the users' weights in effect -/
def Covers (w : World) : Prop :=
  ∀ (lp : Denom) (us : List Addr), us.Nodup → FM ∉ us → ∀ e,
    sumOver us (fun u => Spec.weightAt (w.fm.hist u lp) e) ≤ Spec.weightAt (w.fm.hist FM lp) e

/-- a user without open positions in an LP token has no weight in it -/
def NoPositionNoWeight (w : World) : Prop :=
  ∀ (u : Addr) (lp : Denom), u ≠ FM →
    (∀ p ∈ w.fm.positions, p.receiver = u → p.lpDenom = lp → p.open_ = false) → w.fm.hist u lp = []

/-- what must not change between two states for epoch ids to stay comparable -/
def EpochStable (w w' : World) : Prop :=
  w'.em.cfg = w.em.cfg ∧ w'.fm.config.epochManager = w.fm.config.epochManager ∧ w'.nowNs ≤ U64_MAX

/-- the invariant carried along (the proving agent may add fields; `covers` and `noWeight` stay) -/
structure WInv (w : World) : Prop where
  covers : Covers w
  noWeight : NoPositionNoWeight w
  /-- snapshots ascending in every history -/
  sorted : ∀ a lp, C10H.Sorted (w.fm.hist a lp)
  /-- a snapshot exists only if the current epoch is defined, and lies at most one epoch ahead -/
  bounded : ∀ a lp, ∀ x ∈ w.fm.hist a lp, ∃ cur, fmCurrentEpoch w.fm w.fmEnv = .ok cur ∧ x.1 ≤ cur + 1
  /-- nobody's positions are recorded under the farm manager's own address -/
  noSelf : ∀ p ∈ w.fm.positions, p.receiver ≠ FM
  /-- at most MAX_POSITIONS_LIMIT open positions per receiver, so `positionsBy` sees them all -/
  openLimit : ∀ u, (w.fm.positions.filter fun p => p.receiver == u && p.open_ == true).length ≤ C.MAX_POSITIONS_LIMIT
  /-- a pending single-asset deposit never names the farm manager as the receiver of a lock -/
  bufferOk : ∀ b, w.pm.buffer = some b → b.receiver ≠ FM
  posNodup : (w.fm.positions.map (·.id)).Nodup

/-- one transaction (committed or rejected, any injected fault) preserves the invariant -/
theorem winv_step (w : World) (tx : Tx) (k : Option Nat) (hext : C05Sys.External tx)
    (hstable : EpochStable w (step w tx k)) (hnow : w.nowNs ≤ U64_MAX)
    (hfm : w.pm.config.farmManager = FM) (hpm : w.fm.config.poolManager = PM)
    (hcfg : (step w tx k).pm.config.farmManager = FM ∧ (step w tx k).fm.config.poolManager = PM)
    (h : WInv w) : WInv (step w tx k) := by
  sorry

/-- the invariant holds in a freshly instantiated deployment -/
theorem winv_init (w : World) (hp : w.fm.positions = []) (hh : w.fm.hist = fun _ _ => [])
    (hb : w.pm.buffer = none) : WInv w := by
  sorry

/-- every reachable state: for every LP token and every epoch the total weight covers the sum of the
    users' weights in effect, and users without open positions have no weight -/
theorem weights_covered_reachable (w0 : World) (h0 : WInv w0) (txs : List (Tx × Option Nat))
    (hext : ∀ t ∈ txs, C05Sys.External t.1)
    (hnow0 : w0.nowNs ≤ U64_MAX) (hfm0 : w0.pm.config.farmManager = FM) (hpm0 : w0.fm.config.poolManager = PM)
    (hstable : ∀ n, EpochStable w0 ((txs.take n).foldl (fun w t => step w t.1 t.2) w0) ∧
      ((txs.take n).foldl (fun w t => step w t.1 t.2) w0).pm.config.farmManager = FM ∧
      ((txs.take n).foldl (fun w t => step w t.1 t.2) w0).fm.config.poolManager = PM) :
    Covers (txs.foldl (fun w t => step w t.1 t.2) w0) ∧
    NoPositionNoWeight (txs.foldl (fun w t => step w t.1 t.2) w0) := by
  sorry

end MantraDex.C10Sys
