/-
  mdxdrv — the model driver.  Reads operation lines on stdin (`op args…`, anything after ` => ` is
  ignored), runs the Lean model, prints `op args… => <model result>`.  Imports only `Model/*` and
  `Driver/*` (no Mathlib, no proofs), so it links as a native executable.
-/
import MantraDex.Driver.EpochStream
import MantraDex.Driver.PoolStream
import MantraDex.Driver.FarmStream
import MantraDex.Driver.HistStream
import MantraDex.Driver.MonStream
import MantraDex.Driver.InstStream

open MantraDex MantraDex.Driver

/-- stateless streams -/
def dispatchPure (op : String) (args : List String) : Option String :=
  match epochOp op args with
  | some r => some r
  | none =>
  match swapmathOp op args with
  | some r => some r
  | none =>
  match mintmathOp op args with
  | some r => some r
  | none =>
  match farmmathOp op args with
  | some r => some r
  | none =>
  match instOp op args with
  | some r => some r
  | none => monOp op args

def dispatch (st : HistState) (op : String) (args : List String) : HistState × String :=
  match dispatchPure op args with
  | some r => (st, r)
  | none =>
    match histOp st op args with
    | some (st', r) => (st', r)
    | none => (st, "bad-op")

def lhsOf (line : String) : String :=
  match line.splitOn " => " with
  | l :: _ => l.trimAscii.toString
  | [] => ""

partial def loop (h : IO.FS.Stream) (out : IO.FS.Stream) (st : HistState) : IO Unit := do
  let line ← h.getLine
  if line.isEmpty then return ()
  let lhs := lhsOf line
  if lhs.isEmpty || lhs.startsWith "#" then
    loop h out st
  else if lhs.startsWith "begin" || lhs == "end" then
    out.putStrLn lhs
    loop h out {}
  else
    match lhs.splitOn " " with
    | op :: args =>
      let (st', r) := dispatch st op (args.filter (· ≠ ""))
      out.putStrLn (lhs ++ " => " ++ r)
      loop h out st'
    | [] => loop h out st

def main : IO Unit := do
  let stdin ← IO.getStdin
  let stdout ← IO.getStdout
  loop stdin stdout {}
