/-
  mdxdrv — the model driver.  Reads operation lines on stdin (`op args…`, anything after ` => ` is
  ignored), runs the Lean model, prints `op args… => <model result>`.  Imports only `Model/*` and
  `Driver/*` (no Mathlib, no proofs), so it links as a native executable.
-/
import MantraDex.Driver.EpochStream
import MantraDex.Driver.PoolStream

open MantraDex MantraDex.Driver

def dispatch (op : String) (args : List String) : String :=
  match epochOp op args with
  | some r => r
  | none =>
  match swapmathOp op args with
  | some r => r
  | none =>
  match mintmathOp op args with
  | some r => r
  | none => "bad-op"

def lhsOf (line : String) : String :=
  match line.splitOn " => " with
  | l :: _ => l.trimAscii.toString
  | [] => ""

partial def loop (h : IO.FS.Stream) (out : IO.FS.Stream) : IO Unit := do
  let line ← h.getLine
  if line.isEmpty then return ()
  let lhs := lhsOf line
  if lhs.isEmpty || lhs.startsWith "#" then
    loop h out
  else
    match lhs.splitOn " " with
    | op :: args =>
      out.putStrLn (lhs ++ " => " ++ dispatch op (args.filter (· ≠ "")))
      loop h out
    | [] => loop h out

def main : IO Unit := do
  let stdin ← IO.getStdin
  let stdout ← IO.getStdout
  loop stdin stdout
