/-
  Exact reference for the Curve-style invariant used by the stableswap pools.

  For normalised balances `xs` (all in the pool's highest precision), n = |xs|, Ann = amp·n, the
  invariant D is the unique non-negative root of the integer polynomial

      G(D) = D^(n+1) + ((Ann − 1)·D − Ann·ΣX) · n^n · ΠX

  (this is the fixed point of the iteration in `calculate_stableswap_d` / `calculate_d_core`).
  `G` is strictly increasing in D on the naturals (Ann ≥ 1, ΠX > 0), so ⌊D⌋ is characterised by the
  decidable certificate `G(d) ≤ 0 < G(d+1)`; `dFloor` finds it by bisection and the certificate is
  checked on the result.  Scaling all balances by K scales D by K, which gives D to any precision.
  The same for the output side: given D, the new balance y of the ask asset is the unique positive
  root of a concave quadratic `H(y)`.
-/
import MantraDex.Model.Num

namespace MantraDex.Spec

def listSum (xs : List Nat) : Nat := xs.foldl (· + ·) 0
def listProd (xs : List Nat) : Nat := xs.foldl (· * ·) 1

/-- the invariant polynomial (integer valued) -/
def G (ann : Nat) (xs : List Nat) (d : Nat) : Int :=
  let n := xs.length
  (d : Int) ^ (n + 1) + (((ann : Int) - 1) * d - (ann : Int) * (listSum xs : Nat)) * ((n : Int) ^ n * (listProd xs : Nat))

/-- certificate that `d = ⌊D⌋` -/
def dCert (ann : Nat) (xs : List Nat) (d : Nat) : Bool :=
  decide (G ann xs d ≤ 0) && decide (0 < G ann xs (d + 1))

/-- bisection for the largest `d` in `[lo, hi)` with `G d ≤ 0` -/
def bisect (f : Nat → Bool) : Nat → Nat → Nat → Nat
  | 0, lo, _ => lo
  | fuel + 1, lo, hi =>
    if hi ≤ lo + 1 then lo else
    let mid := (lo + hi) / 2
    if f mid then bisect f fuel mid hi else bisect f fuel lo mid

/-- ⌊D⌋ for the balances `xs` (0 when a balance is zero: the pool is unusable then) -/
def dFloor (ann : Nat) (xs : List Nat) : Nat :=
  if listProd xs = 0 then 0 else
  -- D ≤ ΣX·(something small): G(n·max) > 0 is not guaranteed for tiny amp, so bracket by doubling
  let s := listSum xs
  let f := fun d => decide (G ann xs d ≤ 0)
  let hi := (List.range 600).foldl (fun h _ => if f h then 2 * h + 1 else h) (s + 1)
  bisect f 2000 0 hi

/-- ⌊D·K⌋ -/
def dFloorScaled (ann : Nat) (xs : List Nat) (k : Nat) : Nat := dFloor ann (xs.map (· * k))

/-- with the balances `others` fixed and the invariant value `d`, the polynomial in the remaining
    balance `y` whose positive root is the exact new balance (same sign convention as `G`) -/
def H (ann : Nat) (others : List Nat) (d : Nat) (y : Nat) : Int := G ann (y :: others) d

/-- largest `y` with `H y ≥ 0`, i.e. ⌊y_exact⌋ (H is positive before its positive root, negative after) -/
def yFloor (ann : Nat) (others : List Nat) (d : Nat) : Nat :=
  if listProd others = 0 then 0 else
  let f := fun y => decide (0 ≤ H ann others d y)
  let hi := (List.range 600).foldl (fun h _ => if f h then 2 * h + 1 else h) (d + 1)
  bisect f 2000 0 hi

def yCert (ann : Nat) (others : List Nat) (d y : Nat) : Bool :=
  decide (0 ≤ H ann others d y) && decide (H ann others d (y + 1) < 0)

end MantraDex.Spec
