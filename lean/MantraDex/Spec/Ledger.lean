/-
  Specification of farm rewards: a plain per-epoch ledger.

  For an LP token, `uh` / `th` are the *never compacted* change points (epoch, cumulative weight)
  of a user and of the whole contract, built from the operations: a fill or close executed in epoch
  c takes effect at c+1.  The weight in effect at epoch e is the value of the latest change point at
  or before e (0 if none).  A farm with emission rate r active on [start, end) owes the user
  ⌊r · W_u(e) / W_tot(e)⌋ for each epoch e (nothing when the total is 0).
-/
import MantraDex.Model.Num

namespace MantraDex.Spec

/-- weight in effect at epoch `e` -/
def weightAt (h : List (Nat × Nat)) (e : Nat) : Nat :=
  ((h.filter (·.1 ≤ e)).getLast?.map (·.2)).getD 0

structure LFarm where
  rate : Nat
  start : Nat
  end_ : Nat        -- first epoch without emission
  deriving Repr, DecidableEq, Inhabited

/-- reward owed for one epoch -/
def epochShare (f : LFarm) (uh th : List (Nat × Nat)) (e : Nat) : Nat :=
  if f.start ≤ e ∧ e < f.end_ then
    let t := weightAt th e
    if t = 0 then 0 else f.rate * weightAt uh e / t
  else 0

/-- reward owed for the epochs `first … until` (inclusive) -/
def spanReward (f : LFarm) (uh th : List (Nat × Nat)) (first until_ : Nat) : Nat :=
  ((List.range (until_ + 1 - first)).map fun i => epochShare f uh th (first + i)).foldl (· + ·) 0

/-- first epoch a claim covers: the one after the cursor, or the first epoch of the user's stay -/
def firstEpoch (cursor : Option Nat) (entry : Nat) : Nat :=
  match cursor with
  | some l => l + 1
  | none => entry

end MantraDex.Spec
