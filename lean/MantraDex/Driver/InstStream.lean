/-
  Driver side of the `inst` stream (formats: harness/src/streams/inst.rs).
-/
import MantraDex.Model.Instantiate
import MantraDex.Driver.HistStream

namespace MantraDex.Driver
open MantraDex

def INST_VALID : List String := ["owner", "u1", "u2", "fc", "em", "pm", "fm", "out"]
def instValid (a : Addr) : Bool := INST_VALID.contains a

def mkFmInst (owner em fc pm fd : String) (fa mf buf mn mx ex pen : Nat) : FmInstantiateMsg :=
  { owner := owner, epochManager := em, feeCollector := fc, poolManager := pm,
    createFarmFee := ⟨fd, fa⟩, maxConcurrentFarms := mf, maxFarmEpochBuffer := buf, minUnlocking := mn,
    maxUnlocking := mx, farmExpirationTime := ex, emergencyUnlockPenalty := pen }

def showFmCfg (s : FmState) : String :=
  let c := s.config
  s!"{s.owner.owner.getD "-"} {c.epochManager} {c.feeCollector} {c.poolManager} {c.createFarmFee.amount}{c.createFarmFee.denom} {c.maxConcurrentFarms} {c.maxFarmEpochBuffer} {c.minUnlocking} {c.maxUnlocking} {c.farmExpirationTime} {c.emergencyUnlockPenalty}"

def instOp (op : String) (args : List String) : Option String :=
  match op with
  | "fm_inst" => do
    let (_sender, ts) ← pTok args
    let (owner, ts) ← pTok ts
    let (em, ts) ← pTok ts
    let (fc, ts) ← pTok ts
    let (pm, ts) ← pTok ts
    let (fd, ts) ← pTok ts
    let (fa, ts) ← pNat ts
    let (xs, _) ← pRepeat pNat 6 ts
    match xs with
    | [mf, buf, mn, mx, ex, pen] =>
      some (showR ((fmInstantiate instValid (mkFmInst owner em fc pm fd fa mf buf mn mx ex pen)).map showFmCfg))
    | _ => none
  | "pm_inst" => do
    let (sender, ts) ← pTok args
    let (fc, ts) ← pTok ts
    let (fm, ts) ← pTok ts
    let (fd, ts) ← pTok ts
    let (fa, _) ← pNat ts
    some (showR ((pmInstantiate instValid sender fc fm ⟨fd, fa⟩).map fun s =>
      s!"{s.owner.owner.getD "-"} {s.config.feeCollector} {s.config.farmManager} {s.config.creationFee.amount}{s.config.creationFee.denom}"))
  | "fc_inst" => do
    let (sender, _) ← pTok args
    some (showR ((fcInstantiate instValid sender).map fun o => o.owner.getD "-"))
  | _ => none

end MantraDex.Driver
