/-
  Line protocol helpers shared by all stream handlers of the driver.
  A line is `op arg1 arg2 …` (space separated, decimal integers, `-` = absent).
-/
import MantraDex.Model.Num

namespace MantraDex.Driver

def natArg (s : String) : Option Nat := s.toNat?

def optNatArg (s : String) : Option (Option Nat) :=
  if s == "-" then some none else s.toNat?.map some

/-- parse all tokens as naturals; `none` if any is malformed -/
def natArgs (ts : List String) : Option (List Nat) := ts.mapM natArg

def showR (r : R String) : String :=
  match r with
  | .ok s => if s.isEmpty then "ok" else "ok " ++ s
  | .error _ => "err"

/-- like `showR` but prints the error class (streams whose property is about the class) -/
def showRC (r : R String) : String :=
  match r with
  | .ok s => if s.isEmpty then "ok" else "ok " ++ s
  | .error e => "err:" ++ toString e

def joinNats (xs : List Nat) : String := " ".intercalate (xs.map toString)

end MantraDex.Driver

namespace MantraDex.Driver
open MantraDex

/-- token cursor: a parser is a function from the remaining tokens to (value, rest) -/
abbrev P (α : Type) := List String → Option (α × List String)

def pTok : P String
  | [] => none
  | t :: ts => some (t, ts)

def pNat : P Nat := fun ts => do
  let (t, ts) ← pTok ts
  let n ← t.toNat?
  pure (n, ts)

def pOptNat : P (Option Nat) := fun ts => do
  let (t, ts) ← pTok ts
  if t == "-" then pure (none, ts) else do
    let n ← t.toNat?
    pure (some n, ts)

def pNatList : P (List Nat) := fun ts => do
  let (t, ts) ← pTok ts
  if t == "-" then pure ([], ts) else do
    let xs ← (t.splitOn ",").mapM (·.toNat?)
    pure (xs, ts)

def pRepeat (p : P α) : Nat → P (List α)
  | 0, ts => some ([], ts)
  | n + 1, ts => do
    let (x, ts) ← p ts
    let (xs, ts) ← pRepeat p n ts
    pure (x :: xs, ts)

end MantraDex.Driver
