/-
  Line protocol helpers shared by all stream handlers of the driver.
  A line is `op arg1 arg2 …` (space separated, decimal integers, `-` = absent).
-/
import MantraDex.Model.Num

namespace MantraDex.Driver

def natArg (s : String) : Option Nat := s.toNat?

def optNatArg (s : String) : Option (Option Nat) :=
  if s == "-" then some none else s.toNat?.map some

/-- parse all tokens as naturals; `none` if any is malformed -/
def natArgs (ts : List String) : Option (List Nat) := ts.mapM natArg

def showR (r : R String) : String :=
  match r with
  | .ok s => if s.isEmpty then "ok" else "ok " ++ s
  | .error _ => "err"

/-- like `showR` but prints the error class (streams whose property is about the class) -/
def showRC (r : R String) : String :=
  match r with
  | .ok s => if s.isEmpty then "ok" else "ok " ++ s
  | .error e => "err:" ++ toString e

def joinNats (xs : List Nat) : String := " ".intercalate (xs.map toString)

end MantraDex.Driver
