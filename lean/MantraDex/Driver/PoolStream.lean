import MantraDex.Model.Pool
import MantraDex.Driver.Proto

namespace MantraDex.Driver
open MantraDex

def pFees : P PoolFee := fun ts => do
  let (pr, ts) ← pNat ts
  let (sw, ts) ← pNat ts
  let (bu, ts) ← pNat ts
  let (ex, ts) ← pNatList ts
  pure (⟨pr, sw, bu, ex⟩, ts)

def pAsset : P (String × Nat × Nat) := fun ts => do
  let (d, ts) ← pTok ts
  let (dc, ts) ← pNat ts
  let (a, ts) ← pNat ts
  pure ((d, dc, a), ts)

/-- `<cp|ss> <amp> <n> (<denom> <decimals> <amount>)*n <fees…>` -/
def pPool : P PoolInfo := fun ts => do
  let (ty, ts) ← pTok ts
  let (amp, ts) ← pNat ts
  let (n, ts) ← pNat ts
  let (as, ts) ← pRepeat pAsset n ts
  let (fees, ts) ← pFees ts
  let p : PoolInfo := {
    id := "p.1", denoms := as.map (·.1), lpDenom := "factory/pm/p.1.LP",
    decimals := as.map (·.2.1), assets := as.map (fun a => ⟨a.1, a.2.2⟩),
    ptype := if ty == "cp" then .cp else .stable amp, fees := fees, status := {} }
  pure (p, ts)

def pCoin : P Coin := fun ts => do
  let (d, ts) ← pTok ts
  let (a, ts) ← pNat ts
  pure (⟨d, a⟩, ts)

def pCoins : P (List Coin) := fun ts => do
  let (n, ts) ← pNat ts
  pRepeat pCoin n ts

def showSwap (r : R SwapComputation) : String :=
  showR (r.map fun c => joinNats [c.ret, c.slippage, c.swapFee, c.protocolFee, c.burnFee, c.extraFees])

/-- handlers of the `swapmath` stream (formats: harness/src/streams/swapmath.rs) -/
def swapmathOp (op : String) (args : List String) : Option String :=
  match op with
  | "swap" => do
    let (p, ts) ← pPool args
    let (od, ts) ← pTok ts
    let (oa, ts) ← pNat ts
    let (ad, _) ← pTok ts
    some (showSwap (computeSwap p ⟨od, oa⟩ ad))
  | "offeramt" => do
    let (op_, ts) ← pNat args
    let (ap, ts) ← pNat ts
    let (ask, ts) ← pNat ts
    let (f, _) ← pFees ts
    some (showR ((computeOfferAmount op_ ap ask f).map fun c =>
      joinNats [c.offer, c.slippage, c.swapFee, c.protocolFee, c.burnFee, c.extraFees]))
  | "maxslip" => do
    let (b, ts) ← pOptNat args
    let (ms, ts) ← pOptNat ts
    let (offer, ts) ← pNat ts
    let (ret, ts) ← pNat ts
    let (slip, _) ← pNat ts
    some (match assertMaxSlippage b ms offer ret slip with
      | .ok _ => "ok"
      | .error .slippage => "err:slippage"
      | .error _ => "err")
  | "fee" => do
    let (sh, ts) ← pNat args
    let (a, _) ← pNat ts
    some (showR ((feeCompute sh a).map toString))
  | "feevalid" => do
    let (f, _) ← pFees args
    some (if poolFeeValid f then "ok" else "err")
  | "stabled" => do
    let (p, _) ← pPool args
    let amp := match p.ptype with | .stable a => a | .cp => 1
    some (showR ((calculateStableswapD p p.assets.length amp).map toString))
  | _ => none

/-- handlers of the `mintmath` stream (formats: harness/src/streams/mintmath.rs) -/
def mintmathOp (op : String) (args : List String) : Option String :=
  match op with
  | "computed" => do
    let (amp, ts) ← pNat args
    let (cs, _) ← pCoins ts
    some (showR ((computeD amp cs).map toString))
  | "computedpi" => do
    let (p, ts) ← pPool args
    let (cs, _) ← pCoins ts
    let amp := match p.ptype with | .stable a => a | .cp => 1
    some (showR ((computeDWithPoolInfo amp cs p).map fun o => match o with | some d => toString d | none => "none"))
  | "lpmint" => do
    let (p, ts) ← pPool args
    let (supply, ts) ← pNat ts
    let (cs, _) ← pCoins ts
    let amp := match p.ptype with | .stable a => a | .cp => 1
    some (showR ((computeLpMintStable amp p.assets cs supply p).map toString))
  | "slipcheck" => do
    let (ty, ts) ← pTok args
    let (amp, ts) ← pNat ts
    let (tol, ts) ← pOptNat ts
    let (deps, ts) ← pCoins ts
    let (pa, _) ← pCoins ts
    let pt : PoolType := if ty == "cp" then .cp else .stable amp
    some (match assertSlippageTolerance tol deps pa pt with
      | .ok cs => "ok " ++ ",".intercalate (cs.map (·.denom))
      | .error .slippage => "err:slippage"
      | .error _ => "err")
  | _ => none

end MantraDex.Driver
