import MantraDex.Model.HistMon
import MantraDex.Model.SsMon
import MantraDex.Model.FarmMath
import MantraDex.Driver.PoolStream

namespace MantraDex.Driver
open MantraDex

def verdict (v : Verdict) : String :=
  match v with
  | none => "ok"
  | some t => "viol " ++ t

def pInt : P Int := fun ts => do
  let (t, ts) ← pTok ts
  let i ← t.toInt?
  pure (i, ts)

def pBit : P Bool := fun ts => do
  let (n, ts) ← pNat ts
  pure (n != 0, ts)

/-- monitor lines of the history streams (formats: harness/src/monitors.rs) -/
def monOp (op : String) (args : List String) : Option String :=
  match op with
  | "mon_pm_custody" => do
    let (k, ts) ← pNat args
    let (xs, _) ← pRepeat (fun ts => do
      let (_, ts) ← pTok ts
      let (b, ts) ← pNat ts
      let (s, ts) ← pNat ts
      pure ((b, s), ts)) k ts
    some (verdict (monPmCustody xs))
  | "mon_pm_lp" => do
    let (tainted, ts) ← pBit args
    let (k, ts) ← pNat ts
    let (xs, _) ← pRepeat (fun ts => do
      let (b, ts) ← pNat ts
      let (ty, ts) ← pTok ts
      let (mn, ts) ← pNat ts
      let (mx, ts) ← pNat ts
      let (s, ts) ← pNat ts
      pure ((b, ty == "cp", mn, mx, s), ts)) k ts
    some (verdict (monPmLp tainted xs))
  | "mon_pm_excess" => do
    let (_, ts) ← pTok args
    let (xs, _) ← pRepeat pNat 6 ts
    match xs with
    | [bb, sb, ba, sa, don, odd] => some (verdict (monPmExcess bb sb ba sa don odd))
    | _ => none
  | "mon_unchanged" => do
    let (b, _) ← pBit args
    some (if b then "ok" else "viol C20-trace")
  | "mon_disabled" => do
    let (what, ts) ← pTok args
    let (acc, _) ← pBit ts
    some (if acc then s!"viol C17-{what}-disabled" else "ok")
  | "mon_supply_change" => do
    let (k, _) ← pNat args
    some (if k == 0 then "viol C02-lp-supply" else "ok")
  | "mon_cp_deposit" => do
    let (xs, _) ← pRepeat pNat 9 args
    match xs with
    | [x, y, dx, dy, s, m, l, x', y'] => some (verdict (monCpDeposit x y dx dy s m l x' y'))
    | _ => none
  | "mon_deposit_added" => do
    let (xs, _) ← pRepeat pNat 3 args
    match xs with
    | [b, d, a] => some (if a == b + d then "ok" else "viol C02-deposit-added")
    | _ => none
  | "mon_withdraw" => do
    let (burned, ts) ← pNat args
    let (supply, ts) ← pNat ts
    let (n, ts) ← pNat ts
    let (xs, _) ← pRepeat (fun ts => do
      let (r, ts) ← pNat ts
      let (f, ts) ← pNat ts
      let (g, ts) ← pNat ts
      pure ((r, f, g), ts)) n ts
    some (verdict (monWithdraw burned supply xs))
  | "mon_withdraw_rejected" => do
    let (burned, ts) ← pNat args
    let (supply, ts) ← pNat ts
    let (n, ts) ← pNat ts
    let (rs, _) ← pRepeat pNat n ts
    some (verdict (monWithdrawRejected burned supply rs))
  | "mon_swap_reserves" => do
    let (ty, ts) ← pTok args
    let (xs, _) ← pRepeat pNat 8 ts
    match xs with
    | [x, y, o, x', y', ret, pf, bf] => some (verdict (monSwapReserves (ty == "cp") x y o x' y' ret pf bf))
    | _ => none
  | "mon_swap_fees" => do
    let (f, ts) ← pFees args
    let (xs, _) ← pRepeat pNat 5 ts
    match xs with
    | [ret, sf, pf, bf, ef] => some (verdict (monSwapFees f ret sf pf bf ef))
    | _ => none
  | "mon_swap_bank" => do
    let (ns, ts) ← pRepeat pNat 4 args
    let (is, _) ← pRepeat pInt 7 ts
    match ns, is with
    | [o, ret, pf, bf], [a, b, c, d, e, f, g] => some (verdict (monSwapBank o ret pf bf a b c d e f g))
    | _, _ => none
  | "mon_quote" => do
    let (xs, _) ← pRepeat pNat 10 args
    match xs with
    | [a, b, c, d, e, a', b', c', d', e'] =>
      some (verdict (monQuote [a, b, c, d, e] [a', b', c', d', e']))
    | _ => none
  | "mon_static" => do
    let (_, ts) ← pTok args
    let (same, ts) ← pBit ts
    let (aligned, _) ← pBit ts
    some (if !same then "viol C16-static" else if !aligned then "viol C16-aligned" else "ok")
  | "mon_pool_wf" => do
    let (ty, ts) ← pTok args
    let (amp, ts) ← pNat ts
    let (n, ts) ← pNat ts
    let (denoms, ts) ← pRepeat pTok n ts
    let (ndec, ts) ← pNat ts
    let (nf, ts) ← pNat ts
    let (fees, _) ← pRepeat pNat nf ts
    some (verdict (monPoolWf (ty == "cp") amp denoms ndec fees))
  | "mon_pools_unique" => do
    let (n, ts) ← pNat args
    let (xs, _) ← pRepeat pTok (2 * n) ts
    let ids := (List.range n).filterMap fun i => xs[2 * i]?
    let lps := (List.range n).filterMap fun i => xs[2 * i + 1]?
    some (if hasDup ids then "viol C16-duplicate-id" else if hasDup lps then "viol C16-duplicate-lp" else "ok")
  | "mon_pools_kept" => do
    let (n, _) ← pNat args
    some (if n == 0 then "ok" else "viol C16-removed")
  | "mon_fm_custody" => do
    let (k, ts) ← pNat args
    let (xs, _) ← pRepeat (fun ts => do
      let (_, ts) ← pTok ts
      let (b, ts) ← pNat ts
      let (p, ts) ← pNat ts
      let (f, ts) ← pNat ts
      let (o, ts) ← pBit ts
      pure ((b, p, f, o), ts)) k ts
    some (verdict (monFmCustody xs))
  | "mon_weights" => do
    let (_, ts) ← pTok args
    let (t, ts) ← pNat ts
    let (u, _) ← pNat ts
    some (verdict (monWeightsCover t u))
  | "mon_weights_epoch" => do
    -- C10 for every epoch: <lp> <epoch> <total weight in effect> <sum of the users' weights in effect>
    let (_, ts) ← pTok args
    let (_e, ts) ← pNat ts
    let (t, ts) ← pNat ts
    let (u, _) ← pNat ts
    some (verdict (monWeightsCover t u))
  | "mon_no_pos_no_weight" => do
    let (xs, _) ← pRepeat pBit 4 args
    match xs with
    | [openLp, anyOpen, hist, cursor] =>
      some (if (!hist || openLp) && (!cursor || anyOpen) then "ok" else "viol C10-no-position-no-weight")
    | _ => none
  | "mon_withdrawpos_accept" => do
    let (ok, ts) ← pBit args
    let (own, ts) ← pBit ts
    let (em, ts) ← pBit ts
    let (e, ts) ← pOptNat ts
    let (now, _) ← pNat ts
    some (verdict (monWithdrawPosAccept ok own em e now))
  | "mon_withdrawpos" => do
    let (amt, ts) ← pNat args
    let (is, ts) ← pRepeat pInt 4 ts
    let (em, ts) ← pBit ts
    let (gone, _) ← pBit ts
    match is with
    | [a, b, c, d] => some (verdict (monWithdrawPos amt a b c d em gone))
    | _ => none
  | "mon_emergency_owners" => do
    -- C09: <distinct owners of active farms (other than the position owner)> <of those, paid> <others paid> <all paid the same>
    let (nexp, ts) ← pNat args
    let (paid, ts) ← pNat ts
    let (unexp, ts) ← pNat ts
    let (equal, _) ← pBit ts
    some (if unexp == 0 && (paid == 0 || paid == nexp) && equal then "ok" else "viol C09-split-recipients")
  | "mon_farm_limit" => do
    -- C11: <farms on one LP token after an accepted CreateFarm> <configured maximum>
    let (n, ts) ← pNat args
    let (mx, _) ← pNat ts
    some (if n ≤ mx then "ok" else if mx > C.MAX_FARMS_LIMIT then "viol C11-max-farms-over-100" else "viol C11-farm-limit")
  | "mon_farm_create" => do
    let (aa, ts) ← pNat args
    let (fee, ts) ← pNat ts
    let (fc, ts) ← pInt ts
    let (extra, ts) ← pInt ts
    let (fa, _) ← pNat ts
    some (verdict (monFarmCreate aa fee fc extra fa))
  | "mon_claim" => do
    let (until_, ts) ← pNat args
    let (cursor, ts) ← pOptNat ts
    let (nlp, ts) ← pNat ts
    let pHist : P (List (Nat × Nat)) := fun ts => do
      let (n, ts) ← pNat ts
      pRepeat (fun ts => do
        let (e, ts) ← pNat ts
        let (w, ts) ← pNat ts
        pure ((e, w), ts)) n ts
    let (lps, ts) ← pRepeat (fun ts => do
      let (entry, ts) ← pNat ts
      let (uh, ts) ← pHist ts
      let (th, ts) ← pHist ts
      let (no, ts) ← pNat ts
      let (others, ts) ← pRepeat pHist no ts
      let (nf, ts) ← pNat ts
      let (fs, ts) ← pRepeat (fun ts => do
        let (r, ts) ← pNat ts
        let (s, ts) ← pNat ts
        let (e, ts) ← pNat ts
        let (d, ts) ← pTok ts
        let (cd, ts) ← pNat ts
        pure ((r, s, e, d, cd), ts)) nf ts
      pure (({ entry := entry, uh := uh, th := th, others := others, farms := fs } : ClaimLp), ts)) nlp ts
    let (nd, ts) ← pNat ts
    let (paid, ts) ← pRepeat (fun ts => do
      let (d, ts) ← pTok ts
      let (g, ts) ← pInt ts
      let (o, ts) ← pInt ts
      pure ((d, g, o), ts)) nd ts
    let (hasQ, ts) ← pBit ts
    let (nq, ts) ← pNat ts
    let (q, _) ← pRepeat (fun ts => do
      let (d, ts) ← pTok ts
      let (v, ts) ← pNat ts
      pure ((d, v), ts)) nq ts
    some (verdict (monClaim until_ cursor lps paid (if hasQ then some q else none)))
  | "mon_claim_rejected" => some "viol C06-claim-blocked"
  | "mon_d_conv" => do
    -- <amp> <n> <balances as passed to calculate_d_core…> <D returned>
    let (amp, ts) ← pNat args
    let (n, ts) ← pNat ts
    let (xs, ts) ← pRepeat pNat n ts
    let (d, _) ← pNat ts
    some (verdict (monDepositD amp xs d))
  | "mon_ss_pool_d" => do
    -- <pool before> <n> <amounts after…>
    let (p, ts) ← pPool args
    let (n, ts) ← pNat ts
    let (after, _) ← pRepeat pNat n ts
    let amp := match p.ptype with | .stable a => a | .cp => 1
    some (verdict (monSsPoolD amp p.decimals (p.assets.map (·.amount)) after))
  | "mon_ss_lp" => do
    -- <pool before> <n> <amounts after…> <supply before> <supply after>
    let (p, ts) ← pPool args
    let (n, ts) ← pNat ts
    let (after, ts) ← pRepeat pNat n ts
    let (sb, ts) ← pNat ts
    let (sa, _) ← pNat ts
    let amp := match p.ptype with | .stable a => a | .cp => 1
    some (verdict (monSsLpF (some p.fees) amp p.decimals (p.assets.map (·.amount)) after sb sa))
  | "mon_farm_expand" => do
    let (xs, ts) ← pRepeat pNat 6 args
    let (same, _) ← pBit ts
    match xs with
    | [rate, attached, endB, endA, amtB, amtA] =>
      some (verdict (monFarmExpand rate attached endB endA amtB amtA same))
    | _ => none
  | "mon_close_refunds" => do
    let (_n, ts) ← pNat args
    let (missing, ts) ← pNat ts
    let (fault, _) ← pBit ts
    some (if !fault && missing != 0 then "viol C11-close-refund"
      else if fault && missing > 1 then "viol C20-refund-failure-spreads" else "ok")
  | "mon_farm_close" => do
    let (remaining, ts) ← pNat args
    let (ownerGot, ts) ← pInt ts
    let (fmOut, ts) ← pInt ts
    let (others, _) ← pInt ts
    some (verdict (monFarmClose remaining ownerGot fmOut others))
  | "mon_farm_autoclose" => do
    let (xs, _) ← pRepeat pNat 4 args
    match xs with
    | [remaining, startNs, expS, nowNs] =>
      some (if remaining == 0 || startNs + expS * 1000000000 < nowNs then "ok" else "viol C11-closed-before-expiry")
    | _ => none
  | "mon_close_expiry" => do
    -- C08: <expiring_at of a position this close closed> <block time of the close, s> <unlocking duration recorded for it>
    let (e, ts) ← pOptNat args
    let (now, ts) ← pNat ts
    let (d, _) ← pNat ts
    some (verdict (monCloseExpiry e now d))
  | "mon_close_conserves" => do
    let (sb, ts) ← pNat args
    let (sa, ts) ← pNat ts
    let (dfm, _) ← pInt ts
    some (if sb == sa && dfm == 0 then "ok" else "viol C08-close-conserves,C05-custody")
  | "mon_penalty_amount" => do
    -- <amount> <unlocking duration> <expiring at|-> <now s> <base penalty atomics> <Δ owner>
    let (amt, ts) ← pNat args
    let (dur, ts) ← pNat ts
    let (exp, ts) ← pOptNat ts
    let (now, ts) ← pNat ts
    let (base, ts) ← pNat ts
    let (got, _) ← pInt ts
    let pv : PosView := { amount := amt, unlockingDuration := dur, expiringAt := exp }
    some (match calculateEmergencyPenalty pv base now with
      | .ok rate =>
        match penaltySplit amt rate 0 with
        | .ok sp => if got == (sp.ownerPayout : Int) then "ok" else "viol C09-penalty-amount"
        | .error _ => "viol C09-penalty-amount"
      | .error _ => "viol C09-penalty-amount")
  | "mon_penalty_total" => do
    -- C09: <position amount> <what left the farm manager in the LP token> <distinct owners of the active farms>
    let (amt, ts) ← pNat args
    let (out, ts) ← pInt ts
    let (n, _) ← pNat ts
    some (verdict (monPenaltyTotal amt out n))
  | "mon_pos_has_weight" => do
    let (h, _) ← pBit args
    some (if h then "ok" else "viol C10-position-without-weight")
  | "mon_belief" => do
    -- <belief price atomics> <tolerance|-> <offer> <net return>: the code's own check, evaluated by the model on what was paid
    let (bp, ts) ← pNat args
    let (tol, ts) ← pOptNat ts
    let (offer, ts) ← pNat ts
    let (net, _) ← pNat ts
    some (match assertMaxSlippage (some bp) tol offer net 0 with
      | .ok _ => "ok"
      | .error _ => "viol C13-belief-price")
  | "mon_ss_slippage" => do
    -- <tolerance|-> <offer decimals> <ask decimals> <max decimals> <offer> <gross> <net return>
    let (tol, ts) ← pOptNat args
    let (od, ts) ← pNat ts
    let (ad, ts) ← pNat ts
    let (mx, ts) ← pNat ts
    let (offer, ts) ← pNat ts
    let (gross, ts) ← pNat ts
    let (net, _) ← pNat ts
    let slip0 := offer * 10 ^ (mx - od) - gross * 10 ^ (mx - ad)
    let slippage := slip0 / 10 ^ (mx - ad)
    let eff := min (tol.getD C.DEFAULT_SLIPPAGE) C.MAX_ALLOWED_SLIPPAGE
    some (if net + slippage == 0 then "viol C13-slippage-exceeded"
      else if slippage * ONE18 / (net + slippage) ≤ eff then "ok" else "viol C13-slippage-exceeded")
  | "mon_tol_monotone" => do
    -- only emitted when the same deposit was refused under the larger and accepted under the smaller tolerance
    some "viol C13-tolerance-not-monotone"
  | "mon_farm_expand_time" => do
    let (cur, ts) ← pNat args
    let (endE, _) ← pNat ts
    some (if cur < endE then "ok" else "viol C11-expand-after-end")
  | "mon_farm_recorded" => do
    let (found, ts) ← pBit args
    let (fault, _) ← pBit ts
    some (if found then "ok"
      else if fault then "viol C11-farm-not-recorded,C20-refund-failure-spreads" else "viol C11-farm-not-recorded")
  | "mon_pool_create" => do
    -- <fee collector is the sender> <fee collector is the pool manager> <k> (<denom> <attached> <creation fee due> <factory fee due>
    --   <Δ sender> <Δ fee collector> <Δ pool manager>)*k
    let (senderIsFc, ts) ← pBit args
    let (fcIsPm, ts) ← pBit ts
    let (k, ts) ← pNat ts
    let (rows, _) ← pRepeat (fun ts => do
      let (_, ts) ← pTok ts
      let (att, ts) ← pNat ts
      let (dc, ts) ← pNat ts
      let (dtf, ts) ← pNat ts
      let (ds, ts) ← pInt ts
      let (dfc, ts) ← pInt ts
      let (dpm, ts) ← pInt ts
      pure ((att, dc, dtf, ds, dfc, dpm), ts)) k ts
    let bad := rows.filterMap fun (att, dc, dtf, ds, dfc, dpm) =>
      if att != dc + dtf then some "C16-create-exact-funds"
      else if fcIsPm then (if dpm == (dc : Int) && ds == -(att : Int) then none else some "C16-create-fee-routing")
      else if dpm != 0 then some "C16-create-kept,C01-excess"
      else if senderIsFc then (if ds == -(att : Int) + (dc : Int) then none else some "C16-create-fee-routing")
      else if ds == -(att : Int) && dfc == (dc : Int) then none else some "C16-create-fee-routing"
    some (match bad with | [] => "ok" | t :: _ => "viol " ++ t)
  | "mon_pos_ident" => do
    let (known, ts) ← pBit args
    let (ok, _) ← pBit ts
    some (if ok && !known then "viol C08-unknown-identifier" else "ok")
  | "mon_toggle" => do
    let (good, _) ← pBit args
    some (if good then "ok" else "viol C17-toggle-effect")
  | "mon_pos_changed" => do
    let (own, _) ← pBit args
    some (if own then "ok" else "viol C08-foreign-change")
  | "mon_auth_fp" => do
    -- C15, farm / position level: who may do what
    let (v, ts) ← pTok args
    let (ok, ts) ← pBit ts
    let (isOwner, ts) ← pBit ts
    let (isFarmOwner, ts) ← pBit ts
    let (isPosOwner, ts) ← pBit ts
    let (isPm, _) ← pBit ts
    let allowed := match v with
      | "expandfarm" => isFarmOwner
      | "closefarm" => isFarmOwner || isOwner
      | "createpos_for" => isPosOwner || isPm
      | "expandpos" => isPosOwner || isPm
      | _ => isPosOwner
    some (if ok && !allowed then "viol C15-unauthorised-accepted"
      else if !ok && allowed then "viol C15-authorised-rejected" else "ok")
  | "mon_swap_conserve" => do
    let (_d, ts) ← pTok args
    let (xs, _) ← pRepeat pNat 4 ts
    match xs with
    | [balB, resB, balA, resA] =>
      some (if (balA : Int) - balB == (resA : Int) - resB then "ok" else "viol C04-reserves-vs-outflow")
    | _ => none
  | "mon_cp_deposit_tol" => do
    -- C13: <tolerance> <reserve0> <reserve1> <deposit0> <deposit1> of an ACCEPTED constant-product deposit: the code's own
    -- acceptance predicate (`assertSlippageTolerance`, characterised by C13.cp_deposit_accept_iff) must hold
    let (tol, ts) ← pOptNat args
    let (xs, _) ← pRepeat pNat 4 ts
    match xs with
    | [x, y, dx, dy] =>
      some (match assertSlippageTolerance tol [⟨"a", dx⟩, ⟨"b", dy⟩] [⟨"a", x⟩, ⟨"b", y⟩] .cp with
        | .ok _ => "ok"
        | .error _ => "viol C13-deposit-tolerance")
    | _ => none
  | "mon_route_quote" => do
    -- C12: <SimulateSwapOperations return amount> <executed route's return amount> <pools pairwise distinct>
    let (q, ts) ← pNat args
    let (x, ts) ← pNat ts
    let (distinct, _) ← pBit ts
    some (if !distinct || q == x then "ok" else "viol C12-route-quote")
  | "mon_topup_weight" => do
    -- C10 / C07: <the owner's latest weight grew> <number of OTHER accounts whose latest weight changed> after a top-up
    let (grew, ts) ← pBit args
    let (others, _) ← pNat ts
    some (verdict (monTopupWeight grew others))
  | "mon_exit_weight" => do
    -- C10: <owner's latest weight before> <after> <total before> <after> of an accepted exit with a position that was open
    let (xs, _) ← pRepeat pNat 4 args
    match xs with
    | [ub, ua, tb, ta] => some (verdict (monExitWeight ub ua tb ta))
    | _ => none
  | "mon_topup_backed" => do
    -- C08 / C05: <growth of a position's recorded amount> <growth of the farm manager's balance in that position's LP token>
    let (d, ts) ← pNat args
    let (got, _) ← pInt ts
    some (verdict (monTopupBacked d got))
  | "mon_min_receive" => do
    -- C13: <minimum_receive of an EXECUTED route> <what it delivered>
    let (mr, ts) ← pNat args
    let (got, _) ← pNat ts
    some (verdict (monMinReceive mr got))
  | "mon_hop_k" => do
    let (xs, _) ← pRepeat pNat 4 args
    match xs with
    | [x, y, x', y'] => some (verdict (monHopK x y x' y'))
    | _ => none
  | "mon_route_unquoted" => do
    -- C12: an EXECUTED route that SimulateSwapOperations refused to price an instant before; <pools pairwise distinct and no
    -- denom produced by two hops> (otherwise the query may legitimately overflow: C12Sys.route_tx_equals_simulation_partial)
    let (clean, _) ← pBit args
    some (verdict (monRouteUnquoted clean))
  | "mon_rev" => do
    -- C12 reverse quote: `ret` is what the implementation pays for quote + 1
    let (xs, _) ← pRepeat pNat 6 args
    match xs with
    | [_x, _y, ask, fees, _quoted, ret] => some (verdict (monRev ask fees ret))
    | _ => none
  | "mon_single_lock" => do
    let (own, _) ← pBit args
    some (if own then "ok" else "viol C14-locks-for-other")
  | "mon_pos_created" => do
    let (own, ts) ← pBit args
    let (_viaPm, _) ← pBit ts
    some (if own then "ok" else "viol C08-created-for-other")
  | "mon_single_shape" => do
    -- C14: <assets of the pool> <pool was empty> of an ACCEPTED single-asset deposit
    let (n, ts) ← pNat args
    let (empty, _) ← pBit ts
    some (verdict (monSingleShape n empty))
  | "mon_cp_slippage" => do
    let (tol, ts) ← pOptNat args
    let (xs, _) ← pRepeat pNat 5 ts
    match xs with
    | [x, y, offer, net, _direct] => some (verdict (monCpSlippage tol x y offer net))
    | _ => none
  | "mon_twin_c14" => do
    -- single-asset deposit (A) vs swap-half-then-deposit (B): same reserves, LP supply, LP to the
    -- receiver / locked, fees to the collector; the odd unit stays in the pool manager in A
    let (okA, ts) ← pBit args
    let (okB1, ts) ← pBit ts
    let (okB2, ts) ← pBit ts
    let (odd, ts) ← pNat ts
    let (xs, _) ← pRepeat pNat 14 ts
    match xs with
    | [r0a, r0b, r1a, r1b, sa, sb, ua, ub, la, lb, fa, fb, pa, pb] =>
      -- ("exactly the effect of swapping half and depositing": also when the two-step route goes through, the single-asset
      --  deposit with the same options must not be refused)
      some (if !okA then (if okB1 && okB2 then "viol C14-refused-where-two-step-accepted" else "ok")
        else if !(okB1 && okB2) then "viol C14-two-step-rejected"
        else if r0a == r0b && r1a == r1b && sa == sb && ua == ub && la == lb && fa == fb && pa == pb + odd then "ok"
        else "viol C14-differs-from-two-step")
    | _ => none
  | "mon_twin_c17" => do
    -- a deployment with one switch off (B) and one without (A): an operation that does not need the
    -- switched feature has the same outcome and the same resulting state (statuses masked)
    let (okA, ts) ← pBit args
    let (okB, ts) ← pBit ts
    let (same, _) ← pBit ts
    some (if okA == okB && same then "ok" else "viol C17-interference")
  | "mon_auth" => do
    -- <variant> <accepted> <isOwner> <isPending> <pendingExpired> <withFunds>
    let (v, ts) ← pTok args
    let (xs, _) ← pRepeat pBit 5 ts
    match xs with
    | [acc, isOwner, isPending, expired, funds] =>
      let allowed := !funds && (if v == "accept" then isPending && !expired else isOwner)
      some (if acc == allowed then "ok" else if acc then "viol C15-unauthorised-accepted" else "viol C15-authorised-rejected")
    | _ => none
  | "mon_refund_tolerated" => do
    -- C20: <kind> <bank calls of the fault-free run> <refund calls among them (the last ones)> <attempts rejected
    -- although the injected failure hit one of those refunds>
    let (_, ts) ← pTok args
    let (_calls, ts) ← pNat ts
    let (_refunds, ts) ← pNat ts
    let (blocked, _) ← pNat ts
    some (if blocked == 0 then "ok" else "viol C20-refund-failure-blocks")
  | "mon_fault_outcome" => do
    -- an injected internal failure that is reached must abort the transaction, except the refund of
    -- a farm being closed (manual close, or automatic close when a farm is created)
    let (hit, ts) ← pBit args
    let (ok, ts) ← pBit ts
    let (kind, _) ← pTok ts
    some (if hit && ok && !(kind == "closefarm" || kind == "createfarm") then "viol C20-fault-swallowed" else "ok")
  | "mon_ss_quote" => do
    -- <pool> <offerDenom> <offer> <askDenom> <gross>
    let (p, ts) ← pPool args
    let (od, ts) ← pTok ts
    let (offer, ts) ← pNat ts
    let (ad, ts) ← pTok ts
    let (gross, _) ← pNat ts
    let amp := match p.ptype with | .stable a => a | .cp => 1
    let oi ← findIdx (fun c : Coin => c.denom == od) p.assets
    let ai ← findIdx (fun c : Coin => c.denom == ad) p.assets
    some (verdict (monSsQuote amp p.decimals (p.assets.map (·.amount)) oi ai offer gross))
  | "mon_ss_swap" => do
    -- <pool before> <offerDenom> <offer> <askDenom> <gross> <out = ret+prot+burn>
    let (p, ts) ← pPool args
    let (od, ts) ← pTok ts
    let (offer, ts) ← pNat ts
    let (ad, ts) ← pTok ts
    let (gross, ts) ← pNat ts
    let (out, _) ← pNat ts
    let amp := match p.ptype with | .stable a => a | .cp => 1
    let oi ← findIdx (fun c : Coin => c.denom == od) p.assets
    let ai ← findIdx (fun c : Coin => c.denom == ad) p.assets
    some (verdict (monSsSwap amp p.decimals (p.assets.map (·.amount)) oi ai offer gross out))
  | _ => none

end MantraDex.Driver
