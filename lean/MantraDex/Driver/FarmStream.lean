import MantraDex.Model.FarmMath
import MantraDex.Model.FarmMon
import MantraDex.Driver.Proto

namespace MantraDex.Driver
open MantraDex

/-- handlers of the `farmmath` stream (formats: harness/src/streams/farmmath.rs) -/
def farmmathOp (op : String) (args : List String) : Option String :=
  match op with
  | "weight" => do
    let (a, ts) ← pNat args
    let (d, _) ← pNat ts
    some (showR ((calculateWeight a d).map toString))
  | "penalty" => do
    let (a, ts) ← pNat args
    let (d, ts) ← pNat ts
    let (e, ts) ← pOptNat ts
    let (base, ts) ← pNat ts
    let (now, _) ← pNat ts
    some (showR ((calculateEmergencyPenalty ⟨a, d, e⟩ base now).map toString))
  | "mon_weight" => do
    let (a, ts) ← pNat args
    let (w, _) ← pNat ts
    some (if monWeight a w then "ok" else "viol C10-weight-bounds")
  | "mon_weight_pair" => do
    let (xs, _) ← pRepeat pNat 6 args
    match xs with
    | [a, d, w, a', d', w'] => some (if monWeightPair a d w a' d' w' then "ok" else "viol C10-weight-monotone")
    | _ => none
  | "mon_weight_add" => do
    let (xs, _) ← pRepeat pNat 3 args
    match xs with
    | [wa, wb, wab] => some (if monWeightAdd wa wb wab then "ok" else "viol C10-weight-superadditive")
    | _ => none
  | "mon_penalty" => do
    let (a, ts) ← pNat args
    let (d, ts) ← pNat ts
    let (e, ts) ← pOptNat ts
    let (base, ts) ← pNat ts
    let (now, ts) ← pNat ts
    let (w, ts) ← pNat ts
    let (rate, _) ← pNat ts
    some (if monPenaltyRate ⟨a, d, e⟩ base now w rate then "ok" else "viol C09-penalty-rate")
  | "mon_penalty_time" => do
    let (xs, _) ← pRepeat pNat 4 args
    match xs with
    | [now, rate, now', rate'] => some (if monPenaltyTime now rate now' rate' then "ok" else "viol C09-penalty-antitone")
    | _ => none
  | _ => none

end MantraDex.Driver
