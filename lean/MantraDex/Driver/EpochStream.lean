import MantraDex.Model.Epoch
import MantraDex.Model.EpochMon
import MantraDex.Driver.Proto

namespace MantraDex.Driver

/-- handlers of the `epoch` stream (see harness/src/streams/epoch.rs for the op formats) -/
def epochOp (op : String) (args : List String) : Option String :=
  match op, args with
  | "em_inst", [t0, d, g] => do
    let t0 ← natArg t0; let d ← natArg d; let g ← natArg g
    some (showR ((emInstantiate t0 ⟨d, g⟩).map fun _ => ""))
  | "em_upd", [t0, d, g, now, nd, ng] => do
    let t0 ← natArg t0; let d ← natArg d; let g ← natArg g; let now ← natArg now
    let nd ← optNatArg nd; let ng ← optNatArg ng
    let new : Option EpochConfig := match nd, ng with
      | some a, some b => some ⟨a, b⟩
      | _, _ => none
    some (showR (do
      let c ← emInstantiate t0 ⟨d, g⟩
      let c' ← emUpdateConfig now c new
      pure s!"{c'.duration} {c'.genesis}"))
  | "em_cur", [t0, d, g, now] => do
    let t0 ← natArg t0; let d ← natArg d; let g ← natArg g; let now ← natArg now
    some (showR (do
      let c ← emInstantiate t0 ⟨d, g⟩
      let (id, s) ← currentEpoch c now
      pure s!"{id} {s}"))
  | "em_epoch", [t0, d, g, id] => do
    let t0 ← natArg t0; let d ← natArg d; let g ← natArg g; let id ← natArg id
    some (showR (do
      let c ← emInstantiate t0 ⟨d, g⟩
      let (i, s) ← queryEpoch c id
      pure s!"{i} {s}"))
  -- monitors: property predicate on the implementation's observation (`-` = the query failed)
  | "mon_em_cur", [d, g, now, oid, os] => do
    let d ← natArg d; let g ← natArg g; let now ← natArg now
    let oid ← optNatArg oid; let os ← optNatArg os
    let obs := match oid, os with | some a, some b => some (a, b) | _, _ => none
    some (if monEpochCur ⟨d, g⟩ now obs then "ok" else "viol C18-current-epoch")
  | "mon_em_pair", [d, g, t, oid, os, t', oid', os'] => do
    let d ← natArg d; let g ← natArg g; let t ← natArg t; let t' ← natArg t'
    let oid ← optNatArg oid; let os ← optNatArg os; let oid' ← optNatArg oid'; let os' ← optNatArg os'
    let o := match oid, os with | some a, some b => some (a, b) | _, _ => none
    let o' := match oid', os' with | some a, some b => some (a, b) | _, _ => none
    some (if monEpochPair ⟨d, g⟩ t t' o o' then "ok" else "viol C18-monotone")
  | "mon_em_epoch", [d, g, id, oid, os] => do
    let d ← natArg d; let g ← natArg g; let id ← natArg id
    let oid ← optNatArg oid; let os ← optNatArg os
    let obs := match oid, os with | some a, some b => some (a, b) | _, _ => none
    some (if monEpochQuery ⟨d, g⟩ id obs then "ok" else "viol C18-epoch-start")
  | "mon_em_cfg", [d, g, t0] => do
    -- an accepted configuration (instantiate/update at block time t0): duration ≥ 1 day, genesis not in the past
    let d ← natArg d; let g ← natArg g; let t0 ← natArg t0
    some (if d ≥ C.DAY_IN_SECONDS && g ≥ t0 / NANOS then "ok" else "viol C18-config-accepted")
  | _, _ => none

end MantraDex.Driver
