/-
  Driver side of the `pm_hist` / `fm_hist` streams: parses `init`, `tx`, `send`, `advance`, `fault`
  and `snap` lines (formats: harness/src/streams/hist.rs), runs `Model/System.lean`, prints the same
  canonical snapshot the harness prints for the real contracts.
-/
import MantraDex.Model.System
import MantraDex.Model.Queries
import MantraDex.Driver.PoolStream

namespace MantraDex.Driver
open MantraDex

structure HistState where
  w : Option World := none
  lps : List String := []
  failNext : Option Nat := none
  /-- the token factory's queries do not answer (`tfq off`): the denom-creation fee cannot be looked up, so `CreatePool` —
      the only message that needs it — is refused; everything else is unaffected.  An environment fault outside the model's
      `World` (like `mint`): applied by the driver. -/
  tfqOff : Bool := false

def USERS : List String := ["owner", "u1", "u2", "u3", "u4", "out"]
def BASE_DENOMS : List String := ["uusdc", "ausdy", "uusdt", "udai", "uom", "uluna", "uusd"]
def INITIAL_BALANCE : Nat := U128_MAX / 1000000
def KNOWN_ADDRS : List String := USERS ++ ["pm", "fm", "em", "fc"]

def pOptTok : P (Option String) := fun ts => do
  let (t, ts) ← pTok ts
  pure (if t == "-" then none else some t, ts)

def pOptBool : P (Option Bool) := fun ts => do
  let (t, ts) ← pTok ts
  pure (if t == "-" then none else some (t == "true"), ts)

def initWorld : P World := fun ts => do
  let (tf, ts) ← pCoins ts
  let (pcd, ts) ← pTok ts
  let (pca, ts) ← pNat ts
  let (ffd, ts) ← pTok ts
  let (ffa, ts) ← pNat ts
  let (mcf, ts) ← pNat ts
  let (buf, ts) ← pNat ts
  let (minU, ts) ← pNat ts
  let (maxU, ts) ← pNat ts
  let (fet, ts) ← pNat ts
  let (pen, ts) ← pNat ts
  let (dur, ts) ← pNat ts
  let (gen, ts) ← pNat ts
  let own : Ownership := { owner := some "owner" }
  let bal : Addr → Denom → Nat := fun a d =>
    if USERS.contains a && BASE_DENOMS.contains d then INITIAL_BALANCE else 0
  let w : World := {
    bank := { bal := bal, supply := fun d => if BASE_DENOMS.contains d then 6 * INITIAL_BALANCE else 0 },
    pm := { config := { feeCollector := FC, farmManager := FM, creationFee := ⟨pcd, pca⟩ }, owner := own },
    fm := { config := {
        feeCollector := FC, epochManager := EM, poolManager := PM, createFarmFee := ⟨ffd, ffa⟩,
        maxConcurrentFarms := mcf, maxFarmEpochBuffer := buf, minUnlocking := minU, maxUnlocking := maxU,
        farmExpirationTime := fet, emergencyUnlockPenalty := pen }, owner := own },
    em := { cfg := ⟨dur, gen⟩, owner := own },
    fc := own,
    nowNs := gen * NANOS,
    tfFees := tf,
    validAddr := fun a => KNOWN_ADDRS.contains a }
  pure (w, ts)

def pOwnAction : P OwnAction := fun ts => do
  let (k, ts) ← pTok ts
  match k with
  | "transfer" => do
    let (n, ts) ← pTok ts
    let (e, ts) ← pOptNat ts
    pure (.transfer n e, ts)
  | "accept" => pure (.accept, ts)
  | _ => pure (.renounce, ts)

def pFarmParams : P FarmParams := fun ts => do
  let (lp, ts) ← pTok ts
  let (s, ts) ← pOptNat ts
  let (e, ts) ← pOptNat ts
  let (ad, ts) ← pTok ts
  let (aa, ts) ← pNat ts
  let (id, ts) ← pOptTok ts
  pure ({ lpDenom := lp, startEpoch := s, endEpoch := e, asset := ⟨ad, aa⟩, farmId := id }, ts)

def pOptCoin : P (Option Coin) := fun ts => do
  let (d, ts) ← pOptTok ts
  let (a, ts) ← pOptNat ts
  pure (match d, a with | some d, some a => some ⟨d, a⟩ | _, _ => none, ts)

def pSwapOp : P SwapOp := fun ts => do
  let (i, ts) ← pTok ts
  let (o, ts) ← pTok ts
  let (p, ts) ← pTok ts
  pure (⟨i, o, p⟩, ts)

/-- `<contract> <kind> <args…>` → the contract address and message -/
def pContractMsg : P (Addr × ContractMsg) := fun ts => do
  let (c, ts) ← pTok ts
  let (kind, ts) ← pTok ts
  if kind == "own" then do
    let (a, ts) ← pOwnAction ts
    let m : ContractMsg := match c with
      | "pm" => .pm (.updateOwnership a)
      | "fm" => .fm (.updateOwnership a)
      | "em" => .em (.updateOwnership a)
      | _ => .fc (.updateOwnership a)
    pure ((c, m), ts)
  else match c, kind with
  | "pm", "create" => do
    let (ty, ts) ← pTok ts
    let (amp, ts) ← pNat ts
    let (n, ts) ← pNat ts
    -- a decimals token `x` means "no entry" (the decimals list is shorter than the denoms), `+<k>` two entries
    let (dd, ts) ← pRepeat (fun ts => do
      let (d, ts) ← pTok ts
      let (kt, ts) ← pTok ts
      let ks : List Nat ← if kt == "x" then pure [] else
        if kt.startsWith "+" then (do let v ← (kt.drop 1).toNat?; pure [v, v]) else (do let v ← kt.toNat?; pure [v])
      pure ((d, ks), ts)) n ts
    let (fees, ts) ← pFees ts
    let (id, ts) ← pOptTok ts
    pure ((c, .pm (.createPool (dd.map (·.1)) (dd.flatMap (·.2)) fees (if ty == "cp" then .cp else .stable amp) id)), ts)
  | "pm", "provide" => do
    let (pool, ts) ← pTok ts
    let (ls, ts) ← pOptNat ts
    let (ss, ts) ← pOptNat ts
    let (r, ts) ← pOptTok ts
    let (u, ts) ← pOptNat ts
    let (l, ts) ← pOptTok ts
    pure ((c, .pm (.provideLiquidity ls ss r pool u l)), ts)
  | "pm", "swap" => do
    let (pool, ts) ← pTok ts
    let (ask, ts) ← pTok ts
    let (b, ts) ← pOptNat ts
    let (ms, ts) ← pOptNat ts
    let (r, ts) ← pOptTok ts
    pure ((c, .pm (.swap ask b ms r pool)), ts)
  | "pm", "withdraw" => do
    let (pool, ts) ← pTok ts
    pure ((c, .pm (.withdrawLiquidity pool)), ts)
  | "pm", "route" => do
    let (n, ts) ← pNat ts
    let (ops, ts) ← pRepeat pSwapOp n ts
    let (mr, ts) ← pOptNat ts
    let (r, ts) ← pOptTok ts
    let (ms, ts) ← pOptNat ts
    pure ((c, .pm (.execSwapOps ops mr r ms)), ts)
  | "pm", "config" => do
    let (fc, ts) ← pOptTok ts
    let (fm, ts) ← pOptTok ts
    let (fee, ts) ← pOptCoin ts
    let (tp, ts) ← pOptTok ts
    let (s, ts) ← pOptBool ts
    let (d, ts) ← pOptBool ts
    let (wd, ts) ← pOptBool ts
    pure ((c, .pm (.updateConfig fc fm fee (tp.map fun p => ⟨p, s, d, wd⟩))), ts)
  | "fm", "createfarm" => do
    let (p, ts) ← pFarmParams ts
    pure ((c, .fm (.createFarm p)), ts)
  | "fm", "expandfarm" => do
    let (p, ts) ← pFarmParams ts
    pure ((c, .fm (.expandFarm p)), ts)
  | "fm", "closefarm" => do
    let (id, ts) ← pTok ts
    pure ((c, .fm (.closeFarm id)), ts)
  | "fm", "claim" => do
    let (u, ts) ← pOptNat ts
    pure ((c, .fm (.claim u)), ts)
  | "fm", "createpos" => do
    let (id, ts) ← pOptTok ts
    let (u, ts) ← pNat ts
    let (r, ts) ← pOptTok ts
    pure ((c, .fm (.createPosition id u r)), ts)
  | "fm", "expandpos" => do
    let (id, ts) ← pTok ts
    pure ((c, .fm (.expandPosition id)), ts)
  | "fm", "closepos" => do
    let (id, ts) ← pTok ts
    let (lp, ts) ← pOptCoin ts
    pure ((c, .fm (.closePosition id lp)), ts)
  | "fm", "withdrawpos" => do
    let (id, ts) ← pTok ts
    let (e, ts) ← pOptBool ts
    pure ((c, .fm (.withdrawPosition id e)), ts)
  | "fm", "config" => do
    let (fc, ts) ← pOptTok ts
    let (em, ts) ← pOptTok ts
    let (pm, ts) ← pOptTok ts
    let (fee, ts) ← pOptCoin ts
    let (mf, ts) ← pOptNat ts
    let (bf, ts) ← pOptNat ts
    let (mi, ts) ← pOptNat ts
    let (ma, ts) ← pOptNat ts
    let (ex, ts) ← pOptNat ts
    let (pen, ts) ← pOptNat ts
    pure ((c, .fm (.updateConfig {
      feeCollector := fc, epochManager := em, poolManager := pm, createFarmFee := fee,
      maxConcurrentFarms := mf, maxFarmEpochBuffer := bf, minUnlocking := mi, maxUnlocking := ma,
      farmExpirationTime := ex, emergencyUnlockPenalty := pen })), ts)
  | "em", "config" => do
    let (d, ts) ← pOptNat ts
    let (g, ts) ← pOptNat ts
    pure ((c, .em (.updateConfig (match d, g with | some d, some g => some ⟨d, g⟩ | _, _ => none))), ts)
  | _, _ => none

def showOwnership (o : Ownership) : String :=
  s!"{o.owner.getD "-"}/{o.pending.getD "-"}/{match o.pendingExpiry with | some e => toString e | none => "-"}"

def showFees (f : PoolFee) : String :=
  let ex := if f.extra.isEmpty then "-" else ",".intercalate (f.extra.map toString)
  s!"{f.protocol}/{f.swap}/{f.burn}/{ex}"

def b2s (b : Bool) : String := if b then "1" else "0"

/-- the canonical snapshot (must print exactly what `Hist::snapshot` prints) -/
def snapshot (w : World) (lps0 : List String) : String × List String :=
  let pools := w.pm.pools
  let lps := pools.foldl (fun acc p => if acc.contains p.lpDenom then acc else acc ++ [p.lpDenom]) lps0
  let poolsS := String.join (pools.map fun p =>
    let (ty, amp) := match p.ptype with | .cp => ("cp", 0) | .stable a => ("ss", a)
    s!"{p.id}|{ty}|{amp}|{",".intercalate p.denoms}|{",".intercalate (p.decimals.map toString)}|" ++
    ",".intercalate (p.assets.map fun c => s!"{c.denom}:{c.amount}") ++
    s!"|{showFees p.fees}|{b2s p.status.swaps}{b2s p.status.deposits}{b2s p.status.withdrawals}|{p.lpDenom}|{w.bank.supply p.lpDenom};")
  let denoms := BASE_DENOMS ++ lps
  let bankS := String.join (["pm", "fm", "fc", "em", "u1", "u2", "u3", "u4", "owner", "out"].map fun who =>
    String.join (denoms.map fun d =>
      let b := w.bank.bal who d
      let base := if USERS.contains who && BASE_DENOMS.contains d then INITIAL_BALANCE else 0
      if b == base then "" else if b ≥ base then s!"{who}:{d}=+{b - base};" else s!"{who}:{d}=-{base - b};"))
  let supplyS := String.join (lps.map fun d => s!"{d}={w.bank.supply d};")
  let c := w.pm.config
  let fcfg := w.fm.config
  let farmsS := String.join (w.fm.farms.map fun f =>
    s!"{f.id}|{f.owner}|{f.lpDenom}|{f.assetDenom}|{f.assetAmount}|{f.claimed}|{f.emissionRate}|{f.startEpoch}|{f.endEpoch};")
  let posS := String.join (w.fm.positions.map fun p =>
    s!"{p.id}|{p.lpDenom}|{p.amount}|{p.unlocking}|{b2s p.open_}|{match p.expiringAt with | some e => toString e | none => "-"}|{p.receiver};")
  let usersS := String.join (["fm", "u1", "u2", "u3", "u4", "owner", "out", "pm"].map fun who =>
    let last := w.fm.lastClaimed who
    let hs := String.join (lps.map fun lp =>
      let h := w.fm.hist who lp
      if h.isEmpty then "" else s!"{lp}=({",".intercalate (h.map fun x => s!"{x.1}:{x.2}")})")
    if last.isSome || !hs.isEmpty then
      s!"{who} last={match last with | some l => toString l | none => "-"} {hs};" else "")
  let rewardsS := String.join (["u1", "u2", "u3", "u4", "owner"].map fun who =>
    match queryRewards w.fm w.fmEnv who none with
    | .ok cs => if cs.isEmpty then "" else s!"{who}={",".intercalate (cs.map fun c => s!"{c.amount}{c.denom}")};"
    | .error _ => s!"{who}=err;")
  (s!"pools[{poolsS}] bank[{bankS}] supply[{supplyS}] pmcfg[{c.feeCollector} {c.farmManager} {c.creationFee.amount}{c.creationFee.denom}] " ++
   s!"buffer[{if w.pm.buffer.isSome then "some" else "none"}] " ++
   s!"own[pm={showOwnership w.pm.owner} fm={showOwnership w.fm.owner} em={showOwnership w.em.owner} fc={showOwnership w.fc}] " ++
   s!"em[{w.em.cfg.duration} {w.em.cfg.genesis}] " ++
   s!"fmcfg[{fcfg.feeCollector} {fcfg.epochManager} {fcfg.poolManager} {fcfg.createFarmFee.amount}{fcfg.createFarmFee.denom} {fcfg.maxConcurrentFarms} {fcfg.maxFarmEpochBuffer} {fcfg.minUnlocking} {fcfg.maxUnlocking} {fcfg.farmExpirationTime} {fcfg.emergencyUnlockPenalty}] " ++
   s!"farms[{farmsS}] pos[{posS}] users[{usersS}] rewards[{rewardsS}] time[{w.nowNs}]", lps)

def showCoinList (cs : List Coin) : String :=
  if cs.isEmpty then "-" else ",".intercalate ((sortCoins cs).map fun c => s!"{c.denom}:{c.amount}")

def showRouteSim (r : R RouteSim) : String :=
  showR (r.map fun x => s!"{x.amount} {showCoinList x.slippage} {showCoinList x.swapFees} {showCoinList x.protocolFees} {showCoinList x.burnFees} {showCoinList x.extraFees}")

def pOps : P (List SwapOp) := fun ts => do
  let (n, ts) ← pNat ts
  pRepeat pSwapOp n ts

/-- `q <kind> <args…>`: read-only queries (formats: harness/src/streams/hist.rs `query`) -/
def queryOp (w : World) (args : List String) : Option String := do
  let (kind, ts) ← pTok args
  match kind with
  | "sim" => do
    let (pool, ts) ← pTok ts
    let (od, ts) ← pTok ts
    let (amt, ts) ← pNat ts
    let (ad, _) ← pTok ts
    some (showR ((querySimulation w.pm ⟨od, amt⟩ ad pool).map fun c =>
      joinNats [c.ret, c.slippage, c.swapFee, c.protocolFee, c.burnFee, c.extraFees]))
  | "rev" => do
    let (pool, ts) ← pTok ts
    let (ad, ts) ← pTok ts
    let (amt, ts) ← pNat ts
    let (od, _) ← pTok ts
    some (showR ((queryReverseSimulation w.pm ⟨ad, amt⟩ od pool).map fun c =>
      joinNats [c.offer, c.slippage, c.swapFee, c.protocolFee, c.burnFee, c.extraFees]))
  | "simops" => do
    let (amt, ts) ← pNat ts
    let (ops, _) ← pOps ts
    some (showRouteSim (simulateSwapOpsFull w.pm amt ops))
  | "revops" => do
    let (amt, ts) ← pNat ts
    let (ops, _) ← pOps ts
    some (showRouteSim (reverseSimulateSwapOps w.pm amt ops))
  | "decimals" => do
    let (pool, ts) ← pTok ts
    let (d, _) ← pTok ts
    some (showR ((queryAssetDecimals w.pm pool d).map toString))
  | "pools" => do
    let (id, ts) ← pOptTok ts
    let (sa, ts) ← pOptTok ts
    let (lim, _) ← pOptNat ts
    some (showR ((queryPools w.pm id sa lim).map fun ps =>
      if ps.isEmpty then "-" else ",".intercalate (ps.map fun p => s!"{p.id}:{w.bank.supply p.lpDenom}")))
  | "farms" => do
    let (k, ts) ← pTok ts
    let (v, ts) ← pTok ts
    let (sa, ts) ← pOptTok ts
    let (lim, _) ← pOptNat ts
    let by_ : Option FarmsBy := match k with
      | "id" => some (.identifier v) | "lp" => some (.lpDenom v) | "asset" => some (.farmAsset v) | _ => none
    some (showR ((queryFarms w.fm by_ sa lim).map fun fs =>
      if fs.isEmpty then "-" else ",".intercalate (fs.map (·.id))))
  | "positions" => do
    let (k, ts) ← pTok ts
    let (v, ts) ← pTok ts
    let (o, ts) ← pOptBool ts
    let (sa, ts) ← pOptTok ts
    let (lim, _) ← pOptNat ts
    let by_ : Option PositionsBy := match k with
      | "id" => some (.identifier v) | "recv" => some (.receiver v) | _ => none
    some (showR ((queryPositions w.fm by_ o sa lim).map fun ps =>
      if ps.isEmpty then "-" else ",".intercalate (ps.map (·.id))))
  | "lpweight" => do
    let (a, ts) ← pTok ts
    let (d, ts) ← pTok ts
    let (e, _) ← pNat ts
    some (showR ((queryLpWeight w.fm w.fmEnv a d e).map toString))
  | "rewards" => do
    let (a, ts) ← pTok ts
    let (u, _) ← pOptNat ts
    some (showR ((queryRewards w.fm w.fmEnv a u).map showCoinList))
  | _ => none

/-- one line of a history stream -/
def histOp (st : HistState) (op : String) (args : List String) : Option (HistState × String) :=
  match op with
  | "init" => do
    let (w, _) ← initWorld args
    some ({ w := some w, lps := [], failNext := none }, "ok")
  | "fault" => do
    let (k, _) ← pNat args
    some ({ st with failNext := some k }, "ok")
  | "advance" => do
    let w ← st.w
    let (ns, _) ← pNat args
    some ({ st with w := some (step w (.advance ns)) }, "ok")
  | "mint" => do
    -- the chain hands `to` new tokens (bank module, no contract involved): balance and supply grow together.  This is a change
    -- of the WORLD between transactions, not a transaction: it is applied here, outside `step` (the theorems quantify over every
    -- world satisfying the invariants, which a mint to a user account preserves)
    let w ← st.w
    let (to, ts) ← pTok args
    let (cs, _) ← pCoins ts
    -- only plain denoms: a mint of something shaped like a pool's LP token would break the "LP token of a pool not yet created
    -- has no supply" invariant (`MintInv.mint_nonfactory_breaks_allInv`); `MintL.notLp_of_noPrefix` is the soundness of this guard
    if !(USERS.contains to) || cs.any (fun c => "factory/pm/".toList.isPrefixOf c.denom.toList) then some (st, "err") else
    match ({ w.bank with calls := 0, failAt := none } : Bank).mint to cs with
    | .ok bank => some ({ st with w := some { w with bank := { bank with calls := w.bank.calls, failAt := w.bank.failAt } } }, "ok")
    | .error _ => some (st, "err")
  | "send" => do
    let w ← st.w
    let (frm, ts) ← pTok args
    let (to, ts) ← pTok ts
    let (cs, _) ← pCoins ts
    match runTx w (.send frm to cs) st.failNext with
    | .ok w' => some ({ st with w := some w', failNext := none }, "ok")
    | .error _ => some ({ st with failNext := none }, "err")
  | "tx" => do
    let w ← st.w
    let (sender, ts) ← pTok args
    let (funds, ts) ← pCoins ts
    let ((c, m), _) ← pContractMsg ts
    let needsTfQuery := match m with | .pm (.createPool ..) => true | _ => false
    if st.tfqOff && needsTfQuery then some ({ st with failNext := none }, "err") else
    match runTx w (.exec sender c m funds) st.failNext with
    | .ok w' => some ({ st with w := some w', failNext := none }, "ok")
    | .error _ => some ({ st with failNext := none }, "err")
  | "tfq" => do
    let (v, _) ← pTok args
    some ({ st with tfqOff := v == "off" }, "ok")
  | "snap" => do
    let w ← st.w
    let (s, lps) := snapshot w st.lps
    some ({ st with lps := lps }, s)
  | "q" => do
    let w ← st.w
    let r ← queryOp w args
    some (st, r)
  | _ => none

end MantraDex.Driver
