/-
  Inversion lemmas for the remaining pool-manager handlers (`createPool`, `withdrawLiquidity`,
  `pmUpdateConfig`, `execSwapOps`), shared by the C01 and C14 property files.
-/
import MantraDex.Model.System
import MantraDex.Proofs.NumLemmas
import MantraDex.Proofs.ProvideLemmas
import MantraDex.Properties.C04
set_option linter.unusedSimpArgs false
namespace MantraDex

theorem createPool_ok {s s' : PmState} {env : PmEnv} {funds : List Coin} {denoms : List Denom}
    {decimals : List Nat} {fees : PoolFee} {pt : PoolType} {id : Option String} {r : Response}
    (h : createPool s env funds denoms decimals fees pt id = .ok (s', r)) :
    ∃ counter pool lpSymbol totalFees,
      validateFeesArePaid s.config.creationFee env.tfFees funds = .ok totalFees ∧
      validateNoAdditionalFunds funds totalFees = .ok () ∧
      pool.assets = denoms.map (fun d => ⟨d, 0⟩) ∧ s.pools.any (·.id == pool.id) = false ∧
      s' = ({ s with counter := counter }).savePool pool ∧
      r.msgs = ((if s.config.creationFee.amount ≠ 0 then
          [Msg.bankSend s.config.feeCollector [s.config.creationFee]] else []) ++
          [Msg.tfCreateDenom lpSymbol]).map (fun m => ({ msg := m } : SubMsg)) := by
  unfold createPool at h
  cases pt with
  | cp =>
    simp only [↓ok_bind, ↓ite_err_bind_ok, ↓bind_ok, ↓err_bind_ok, ↓pure_bind', pure_ok, Prod.mk.injEq] at h
    obtain ⟨-, -, -, tf, htf, ⟨⟩, hna, -, -, -, -, hex, -, rfl, rfl⟩ := h
    exact ⟨_, _, _, tf, htf, hna, rfl, by simpa using hex, rfl, rfl⟩
  | stable amp =>
    simp only [↓ok_bind, ↓ite_err_bind_ok, ↓bind_ok, ↓err_bind_ok, ↓pure_bind', pure_ok, Prod.mk.injEq] at h
    obtain ⟨-, -, -, tf, htf, ⟨⟩, hna, -, -, -, -, hex, -, rfl, rfl⟩ := h
    exact ⟨_, _, _, tf, htf, hna, rfl, by simpa using hex, rfl, rfl⟩

def withdrawStep (as : List Coin) (r : Coin) : R (List Coin) := do
  let i ← match findIdx (fun c : Coin => c.denom == r.denom) as with
    | some i => pure i | none => .error .mismatch
  let c ← getD? as i
  let a ← ckSub c.amount r.amount
  pure (setAmount as i a)

theorem mustPay_ok {funds : List Coin} {d : Denom} {a : Nat} (h : mustPay funds d = .ok a) :
    funds = [⟨d, a⟩] := by
  unfold mustPay at h
  obtain ⟨c, hc, h⟩ := bind_ok.mp h
  have := C04.oneCoin_ok hc
  split at h
  · cases h
  · rename_i hd
    simp only [pure_ok] at h
    subst h
    have : c.denom = d := by simpa using hd
    subst this
    assumption

theorem withdraw_ok {s s' : PmState} {env : PmEnv} {sender : Addr} {funds : List Coin}
    {pid : String} {r : Response}
    (h : withdrawLiquidity s env sender funds pid = .ok (s', r)) :
    ∃ pool amount refunds assets', s.getPool pid = .ok pool ∧ funds = [⟨pool.lpDenom, amount⟩] ∧
      refunds.foldlM withdrawStep pool.assets = .ok assets' ∧
      s' = s.savePool { pool with assets := assets' } ∧
      r.msgs = [Msg.bankSend sender refunds, Msg.tfBurn ⟨pool.lpDenom, amount⟩].map
        (fun m => ({ msg := m } : SubMsg)) := by
  unfold withdrawLiquidity at h
  simp only [↓ok_bind, ↓ite_err_bind_ok, ↓bind_ok, ↓err_bind_ok, ↓pure_bind', pure_ok, Prod.mk.injEq] at h
  obtain ⟨pool, hp, -, amt, hpay, -, _, -, -, rf, -, as', has, rfl, rfl⟩ := h
  exact ⟨pool, amt, _, as', hp, mustPay_ok hpay, has, rfl, rfl⟩

theorem ite_err_ok' {α β : Type} {c : Prop} [Decidable c] {e : Err} {k : α → R β} {b : R β} {y : β} :
    ((if c then b else ((Except.error e : R α) >>= k)) = .ok y) = (c ∧ b = .ok y) := by
  split <;> simp_all [bind, Except.bind]

theorem pmUpdateConfig_ok {s s' : PmState} {env : PmEnv} {sender : Addr} {fc fm : Option Addr}
    {cf : Option Coin} {t : Option FeatureToggle} {r : Response}
    (h : pmUpdateConfig s env sender fc fm cf t = .ok (s', r)) :
    ∃ s1, (s1 = s ∨ ∃ pid p st, s.getPool pid = .ok p ∧ s1 = s.savePool { p with status := st }) ∧
      s'.pools = s1.pools ∧ s'.buffer = s1.buffer ∧ r.msgs = [] := by
  unfold pmUpdateConfig at h
  obtain ⟨_, -, h⟩ := bind_ok.mp h
  cases t with
  | none =>
    refine ⟨s, Or.inl rfl, ?_⟩
    cases fc <;> cases fm <;>
      simp only [↓ok_bind, ↓ite_err_bind_ok, ↓ite_err_ok', ↓bind_ok, ↓err_bind_ok, ↓pure_bind', pure_ok, Prod.mk.injEq,
        exists_eq_left, exists_and_left] at h
    all_goals simp_all
  | some t =>
    cases fc <;> cases fm <;>
      simp only [↓ok_bind, ↓ite_err_bind_ok, ↓ite_err_ok', ↓bind_ok, ↓err_bind_ok, ↓pure_bind', pure_ok, Prod.mk.injEq,
        exists_eq_left, exists_and_left] at h
    all_goals
      first
        | obtain ⟨p, hp, rfl, rfl⟩ := h
        | obtain ⟨-, p, hp, rfl, rfl⟩ := h
        | obtain ⟨-, -, p, hp, rfl, rfl⟩ := h
    all_goals exact ⟨_, Or.inr ⟨_, p, _, hp, rfl⟩, rfl, rfl, rfl⟩

theorem pmExecute_config_ok {s s' : PmState} {env : PmEnv} {sender : Addr} {funds : List Coin}
    {m : PmMsg} {r : Response}
    (hm : (∃ fc fm fee t, m = .updateConfig fc fm fee t) ∨ (∃ a, m = .updateOwnership a))
    (h : pmExecute s env sender funds m = .ok (s', r)) :
    funds = [] ∧ r.msgs = [] ∧ s'.buffer = s.buffer ∧
    (s'.pools = s.pools ∨ ∃ pid p st, s.getPool pid = .ok p ∧ s'.pools = (s.savePool { p with status := st }).pools) := by
  have hnp : ∀ {f : List Coin} {u : Unit}, nonpayable f = .ok u → f = [] := by
    intro f u h
    unfold nonpayable at h
    split at h
    · simpa using ‹f.isEmpty = true›
    · cases h
  rcases hm with ⟨fc, fm, fee, t, rfl⟩ | ⟨a, rfl⟩
  · unfold pmExecute at h
    simp only [] at h
    obtain ⟨_, hn, h⟩ := bind_ok.mp h
    obtain ⟨s1, hs1, hpl, hbf, hr⟩ := pmUpdateConfig_ok h
    refine ⟨hnp hn, hr, ?_, ?_⟩
    · rcases hs1 with rfl | ⟨_, _, _, _, rfl⟩
      · exact hbf
      · rw [hbf]; exact savePool_buffer _ _
    · rcases hs1 with rfl | ⟨pid, p, st, hp, rfl⟩
      · exact Or.inl hpl
      · exact Or.inr ⟨pid, p, st, hp, hpl⟩
  · unfold pmExecute at h
    simp only [] at h
    obtain ⟨_, hn, h⟩ := bind_ok.mp h
    obtain ⟨o, -, h⟩ := bind_ok.mp h
    simp only [pure_ok, Prod.mk.injEq] at h
    obtain ⟨rfl, rfl⟩ := h
    exact ⟨hnp hn, rfl, rfl, Or.inl rfl⟩

theorem execSwapOps_ok {s s' : PmState} {env : PmEnv} {sender : Addr} {funds : List Coin}
    {ops : List SwapOp} {mr : Option Nat} {recv : Option Addr} {ms : Option Nat} {r : Response}
    (h : execSwapOps s env sender funds ops mr recv ms = .ok (s', r)) :
    ∃ first last amount out feeMsgs, ops.head? = some first ∧ ops.getLast? = some last ∧
      funds = [⟨first.tokenIn, amount⟩] ∧
      routeHops s ms ops ⟨first.tokenIn, amount⟩ [] = .ok (s', out, feeMsgs) ∧
      r.msgs = ((if out.amount ≠ 0 then
          [Msg.bankSend (addrOrDefault env recv sender) [⟨last.tokenOut, out.amount⟩]] else []) ++
        feeMsgs).map (fun m => ({ msg := m } : SubMsg)) := by
  unfold execSwapOps at h
  cases hl : ops.getLast? with
  | none => rw [hl] at h; simp only [↓err_bind_ok] at h
  | some last =>
    cases hf : ops.head? with
    | none => rw [hl, hf] at h; simp only [↓err_bind_ok, ↓pure_bind'] at h
    | some first =>
      rw [hl, hf] at h
      simp only [↓pure_bind'] at h
      obtain ⟨amt, hpay, h⟩ := bind_ok.mp h
      obtain ⟨_, -, h⟩ := bind_ok.mp h
      try simp only [] at h
      obtain ⟨⟨s1, out, fm⟩, hroute, h⟩ := bind_ok.mp h
      try simp only [] at h
      cases mr with
      | none =>
        simp only [↓pure_bind', pure_ok, Prod.mk.injEq] at h
        obtain ⟨rfl, rfl⟩ := h
        exact ⟨first, last, amt, out, fm, rfl, rfl, mustPay_ok hpay, hroute, rfl⟩
      | some m =>
        simp only [↓ite_err_bind_ok, ↓pure_bind', pure_ok, Prod.mk.injEq] at h
        obtain ⟨-, rfl, rfl⟩ := h
        exact ⟨first, last, amt, out, fm, rfl, rfl, mustPay_ok hpay, hroute, rfl⟩

theorem performSwap_buffer {s s' : PmState} {offer : Coin} {ask : Denom} {pid : String}
    {b ms : Option Nat} {r : SwapResult} (h : performSwap s offer ask pid b ms = .ok (s', r)) :
    s'.buffer = s.buffer := by
  obtain ⟨_, _, _, _, _, _, _, _, _, _, _, _, _, _, _, hs, _⟩ := C04.performSwap_ok h
  rw [hs, savePool_buffer]

theorem routeHops_buffer {s s' : PmState} {ms : Option Nat} {ops : List SwapOp}
    {prev out : Coin} {fees fees' : List Msg}
    (h : routeHops s ms ops prev fees = .ok (s', out, fees')) : s'.buffer = s.buffer := by
  induction ops generalizing s prev fees with
  | nil =>
    rw [routeHops] at h
    simp only [Except.ok.injEq, Prod.mk.injEq] at h
    obtain ⟨rfl, -, -⟩ := h
    rfl
  | cons op ops ih =>
    obtain ⟨s1, r, hps, h⟩ := C04.routeHops_cons h
    rw [ih h, performSwap_buffer hps]
end MantraDex
