/-
  C10Sys, part 5: `claim`, the farm / configuration handlers (they do not touch histories or positions)
  and the assembled law for `fmExecute`.
-/
import MantraDex.Proofs.WSysFmX

set_option linter.unusedSimpArgs false
set_option linter.unusedVariables false

namespace MantraDex.WSys
open MantraDex

/-- what the farm / claim bookkeeping leaves alone -/
structure Frame (s s' : FmState) : Prop where
  hist : s'.hist = s.hist
  positions : s'.positions = s.positions
  config : s'.config = s.config
  posCounter : s'.posCounter = s.posCounter

theorem Frame.refl (s : FmState) : Frame s s := ⟨rfl, rfl, rfl, rfl⟩
theorem Frame.trans {a b c : FmState} (h1 : Frame a b) (h2 : Frame b c) : Frame a c :=
  ⟨h2.hist.trans h1.hist, h2.positions.trans h1.positions, h2.config.trans h1.config,
    h2.posCounter.trans h1.posCounter⟩

theorem frame_saveFarm (s : FmState) (f : Farm) : Frame s (s.saveFarm f) := by
  unfold FmState.saveFarm; split <;> exact ⟨rfl, rfl, rfl, rfl⟩

theorem frame_closeFarms (s : FmState) (fs : List Farm) : Frame s (closeFarms s fs).1 := by
  rw [FH.closeFarms_eq]
  suffices ∀ st : FmState × List SubMsg, Frame st.1 (fs.foldl FH.closeStep st).1 from this (s, [])
  induction fs with
  | nil => intro st; exact Frame.refl _
  | cons f fs ih =>
    intro st
    rw [List.foldl_cons]
    refine Frame.trans ?_ (ih _)
    unfold FH.closeStep; split <;> exact ⟨rfl, rfl, rfl, rfl⟩

theorem frame_cfIdState (s1 : FmState) (p : FarmParams) : Frame s1 (FH.cfIdState s1 p).2 := by
  unfold FH.cfIdState; split <;> exact ⟨rfl, rfl, rfl, rfl⟩

theorem Frame.finv {s s' : FmState} {env : FmEnv} (hf : Frame s s') (h : FInv s env) : FInv s' env :=
  finv_of_eq hf.hist hf.positions (by rw [hf.config]) h

theorem Frame.poswf {s s' : FmState} (hf : Frame s s') (h : FmSys.PosWF s) : FmSys.PosWF s' :=
  FmSys.poswf_congr hf.positions hf.posCounter h

/-! ### `claim` -/

theorem claimStep_inv {env : FmEnv} {sender : Addr} {untilE cur : Nat} {st st' : FmState × List Coin}
    {lp : Denom} (hi : FInv st.1 env) (hs : sender ≠ env.self) (hcur : fmCurrentEpoch st.1 env = .ok cur)
    (hep : untilE ≤ cur) (h : Farm.claimStep env sender untilE st lp = .ok st') :
    FInv st'.1 env ∧ st'.1.config = st.1.config ∧ st'.1.positions = st.1.positions ∧
      st'.1.posCounter = st.1.posCounter := by
  unfold Farm.claimStep at h
  simp only [bind_ok, pure_ok] at h
  obtain ⟨rc, hrc, s1, h1, s2, h2, rfl⟩ := h
  have hf1 : Frame st.1 s1 := by
    refine foldlM_inv (fun (x : FmState) => Frame st.1 x) _ ?_ _ _ _ (Frame.refl _) h1
    intro b m b' hb hm
    simp only [bind_ok, error_bind, ite_error_ok, pure_ok, ckAdd_ok] at hm
    obtain ⟨f, _, c, _, _, rfl⟩ := hm
    exact hb.trans (frame_saveFarm _ _)
  have hst := syncHistory_sameStore h2
  have hcur1 : fmCurrentEpoch s1 env = .ok cur := by
    rw [fmCurrentEpoch_congr (s := st.1) (s' := s1) env (by rw [hf1.config])]; exact hcur
  refine ⟨sync_inv (hf1.finv hi) hs hcur1 hep h2, ?_, ?_, ?_⟩
  · show s2.config = st.1.config
    rw [hst.2.2.2, hf1.config]
  · show s2.positions = st.1.positions
    rw [hst.1, hf1.positions]
  · show s2.posCounter = st.1.posCounter
    rw [hst.2.2.1, hf1.posCounter]

theorem fmClaim_inv {s s' : FmState} {env : FmEnv} {sender : Addr} {funds : List Coin}
    {u : Option Nat} {r : Response} (hi : FInv s env) (hs : sender ≠ env.self)
    (h : fmClaim s env sender funds u = .ok (s', r)) :
    FInv s' env ∧ s'.config = s.config ∧ s'.positions = s.positions ∧ s'.posCounter = s.posCounter := by
  obtain ⟨cur, untilE, sF, total, msgs, _, hop, hcur, hun, hfold, rfl, _, _⟩ := Farm.fmClaim_ok h
  obtain ⟨hle, _⟩ := Farm.untilEpochOrCurrent_ok hun
  have key := foldlM_inv
    (fun (st : FmState × List Coin) => FInv st.1 env ∧ st.1.config = s.config ∧
      st.1.positions = s.positions ∧ st.1.posCounter = s.posCounter) _
    (fun st lp st' hst hstep => by
      obtain ⟨h1, h2, h3, h4⟩ := hst
      have hc : fmCurrentEpoch st.1 env = .ok cur := by
        rw [fmCurrentEpoch_congr (s := s) (s' := st.1) env (by rw [h2])]; exact hcur
      obtain ⟨k1, k2, k3, k4⟩ := claimStep_inv h1 hs hc hle hstep
      exact ⟨k1, k2.trans h2, k3.trans h3, k4.trans h4⟩) _ _ _ ⟨hi, rfl, rfl, rfl⟩ hfold
  obtain ⟨k1, k2, k3, k4⟩ := key
  exact ⟨finv_of_eq (s := sF) rfl rfl rfl k1, k2, k3, k4⟩

/-! ### farms -/

theorem createFarm_frame {s s' : FmState} {env : FmEnv} {sender : Addr} {funds : List Coin}
    {p : FarmParams} {r : Response} (h : createFarm s env sender funds p = .ok (s', r)) : Frame s s' := by
  obtain ⟨cur, flags, feeMsgs, start, end_, rate, _, _, _, _, _, _, _, _, _, rfl, _⟩ := FH.createFarm_inv h
  exact ((frame_closeFarms s _).trans (frame_cfIdState _ p)).trans (frame_saveFarm _ _)

/-- the computation, when it succeeds, returns a state framed by `s` -/
def Keeps (s : FmState) (x : R (FmState × Response)) : Prop := ∀ s' r, x = .ok (s', r) → Frame s s'

theorem keeps_bind {α : Type} {s : FmState} {x : R α} {f : α → R (FmState × Response)}
    (hf : ∀ a, x = .ok a → Keeps s (f a)) : Keeps s (x >>= f) := by
  intro s' r h
  rw [bind_ok] at h
  obtain ⟨a, ha, h⟩ := h
  exact hf a ha s' r h

theorem keeps_error {s : FmState} {e : Err} : Keeps s (Except.error e) := by
  intro s' r h; simp at h

theorem keeps_pure {s s1 : FmState} {r1 : Response} (h : Frame s s1) : Keeps s (pure (s1, r1)) := by
  intro s' r h'
  simp only [pure_ok, Prod.mk.injEq] at h'
  rw [h'.1]; exact h

theorem expandFarm_keeps {s : FmState} {env : FmEnv} {sender : Addr} {funds : List Coin}
    {p : FarmParams} : Keeps s (expandFarm s env sender funds p) := by
  unfold expandFarm
  simp only [pure_bind', error_bind]
  repeat' first | exact keeps_error | exact keeps_pure (frame_saveFarm _ _) | refine keeps_bind fun _ _ => ?_ | split

theorem closeFarm_keeps {s : FmState} {sender : Addr} {funds : List Coin}
    {id : String} : Keeps s (closeFarm s sender funds id) := by
  unfold closeFarm
  simp only [pure_bind', error_bind]
  repeat' first | exact keeps_error | exact keeps_pure (frame_closeFarms _ _) | refine keeps_bind fun _ _ => ?_ | split

/-! ### configuration -/

theorem fmUpdateConfig_frame' {s s' : FmState} {env : FmEnv} {sender : Addr} {u : FmConfigUpdate}
    {r : Response} (h : fmUpdateConfig s env sender u = .ok (s', r)) :
    s'.hist = s.hist ∧ s'.positions = s.positions ∧ s'.posCounter = s.posCounter ∧ r.msgs = [] := by
  unfold fmUpdateConfig at h
  simp only [bind_ok, pure_ok] at h
  obtain ⟨_, _, fc, _, em, _, pm, _, h⟩ := h
  iterate 10 (all_goals (try (split at h <;> try simp only [pure_bind, error_bind, reduceCtorEq] at h)))
  all_goals simp only [pure_ok, Prod.mk.injEq] at h
  all_goals obtain ⟨rfl, rfl⟩ := h
  all_goals exact ⟨rfl, rfl, rfl, rfl⟩

/-! ### all handlers -/

/-- the side condition on a call of the farm manager: not by itself, and the pool manager never names
    the farm manager as the receiver of a lock -/
def FmCallOk (self : Addr) (s : FmState) (sender : Addr) : FmMsg → Prop
  | .createPosition _ _ (some rc) => sender = s.config.poolManager → rc ≠ self
  | _ => True

theorem fmExecute_inv {s s' : FmState} {env : FmEnv} {sender : Addr} {funds : List Coin} {m : FmMsg}
    {r : Response} (hi : FInv s env) (hwf : FmSys.PosWF s) (hs : sender ≠ env.self)
    (hok : FmCallOk env.self s sender m)
    (hem : (∃ u, m = .updateConfig u) → s'.config.epochManager = s.config.epochManager)
    (h : fmExecute s env sender funds m = .ok (s', r)) :
    FInv s' env ∧ FmSys.PosWF s' ∧ ((∀ u, m ≠ .updateConfig u) → s'.config = s.config) := by
  cases m with
  | createFarm p =>
    have hf := createFarm_frame h
    exact ⟨hf.finv hi, hf.poswf hwf, fun _ => hf.config⟩
  | expandFarm p =>
    have hf := expandFarm_keeps _ _ h
    exact ⟨hf.finv hi, hf.poswf hwf, fun _ => hf.config⟩
  | closeFarm id =>
    have hf := closeFarm_keeps _ _ h
    exact ⟨hf.finv hi, hf.poswf hwf, fun _ => hf.config⟩
  | claim u =>
    obtain ⟨k1, k2, k3, k4⟩ := fmClaim_inv hi hs h
    exact ⟨k1, FmSys.poswf_congr k3 k4 hwf, fun _ => k2⟩
  | createPosition id u rc =>
    obtain ⟨k1, k2⟩ := createPosition_inv hi hs (by
      intro rc' hrc hpm
      subst hrc
      exact hok hpm) h
    exact ⟨k1, (FmSys.createPosition_wf hwf h).1, fun _ => k2⟩
  | expandPosition id =>
    obtain ⟨k1, k2⟩ := expandPosition_inv hi h
    exact ⟨k1, (FmSys.expandPosition_wf hwf h).1, fun _ => k2⟩
  | closePosition id lp =>
    obtain ⟨k1, k2⟩ := closePosition_inv hi hwf hs h
    exact ⟨k1, (FmSys.closePosition_wf hwf h).1, fun _ => k2⟩
  | withdrawPosition id e =>
    obtain ⟨k1, k2⟩ := withdrawPosition_inv hi hs h
    exact ⟨k1, (FmSys.withdrawPosition_wf hwf h).1, fun _ => k2⟩
  | updateConfig u =>
    unfold fmExecute at h
    simp only [bind_ok] at h
    obtain ⟨_, _, h⟩ := h
    obtain ⟨h1, h2, h3, _⟩ := fmUpdateConfig_frame' h
    exact ⟨finv_of_eq h1 h2 (hem ⟨u, rfl⟩) hi, FmSys.poswf_congr h2 h3 hwf, fun hne => absurd rfl (hne u)⟩
  | updateOwnership a =>
    unfold fmExecute at h
    simp only [bind_ok, pure_ok, Prod.mk.injEq] at h
    obtain ⟨_, _, o, _, rfl, _⟩ := h
    exact ⟨finv_of_eq (s := s) rfl rfl rfl hi, FmSys.poswf_congr (s := s) rfl rfl hwf, fun _ => rfl⟩

end MantraDex.WSys
