/-
  The per-LP farm limit as an invariant of the runtime (C11Sys `farm_limit_step`): every farm-manager
  handler keeps the farm identifiers distinct, never lowers the configured maximum, and keeps the
  number of farms per LP token within it; lifted through `execMsg` / `execSubs` with a generic
  "relation on the farm manager's state established by every `fmExecute`" lemma.
-/
import MantraDex.Model.System
import MantraDex.Proofs.NumLemmas
import MantraDex.Proofs.FarmHandlerLemmas
import MantraDex.Proofs.FmLemmas
import MantraDex.Proofs.SysLemmas
import MantraDex.Proofs.SysLemmasPools
import MantraDex.Proofs.FmSysLemmas
import MantraDex.Properties.C11

set_option linter.unusedSimpArgs false
set_option linter.unusedVariables false

namespace MantraDex.FarmTx
open MantraDex

/-! ### lifting a relation on the farm manager's state through the runtime -/

/-- a reflexive, transitive relation on farm-manager states that every `fmExecute` establishes -/
structure FmRel (G : FmState → FmState → Prop) : Prop where
  refl : ∀ s, G s s
  trans : ∀ {a b c}, G a b → G b c → G a c
  exec : ∀ {s s' : FmState} {env : FmEnv} {sender : Addr} {funds : List Coin} {m : FmMsg} {r : Response},
    fmExecute s env sender funds m = .ok (s', r) → G s s'

theorem fundsMove_fm {w w1 : World} {sender c : Addr} {funds : List Coin}
    (h : (if funds.isEmpty then pure w else do
        let b ← w.bank.send sender c funds
        pure { w with bank := b }) = (.ok w1 : R World)) : w1.fm = w.fm := by
  split at h
  · simp only [pure_ok] at h; subst h; rfl
  · obtain ⟨b, hb, h⟩ := bind_ok.mp h
    simp only [pure_ok] at h; subst h; rfl

theorem callExecute_rel {G : FmState → FmState → Prop} (hG : FmRel G) {w w2 : World} {c sender : Addr}
    {funds : List Coin} {msg : ContractMsg} {resp : Response}
    (h : callExecute w c sender funds msg = .ok (w2, resp)) : G w.fm w2.fm := by
  obtain ⟨_, hc⟩ := Sys.callExecute_inv h
  rcases hc with ⟨hfm, _⟩ | ⟨_, fm, _, hx⟩
  · rw [hfm]; exact hG.refl _
  · exact hG.exec hx

/-- every execution, of any message by any sender, relates the farm manager's states -/
theorem run_rel {G : FmState → FmState → Prop} (hG : FmRel G) (fuel : Nat) :
    (∀ w sender m w', execMsg fuel w sender m = .ok w' → G w.fm w'.fm) ∧
    (∀ w c subs w', execSubs fuel w c subs = .ok w' → G w.fm w'.fm) := by
  induction fuel with
  | zero =>
    constructor
    · intro w sender m w' h; rw [execMsg] at h; cases h
    · intro w c subs w' h; rw [execSubs] at h; cases h
  | succ n ih =>
    obtain ⟨ihM, ihS⟩ := ih
    constructor
    · intro w sender m w' h
      cases m with
      | bankSend to coins =>
        rw [execMsg] at h
        obtain ⟨b, hb, h⟩ := bind_ok.mp h
        simp only [pure_ok] at h; subst h
        exact hG.refl _
      | bankBurn coins =>
        rw [execMsg] at h
        obtain ⟨b, hb, h⟩ := bind_ok.mp h
        simp only [pure_ok] at h; subst h
        exact hG.refl _
      | tfCreateDenom sd =>
        rw [execMsg] at h
        obtain ⟨b, hb, h⟩ := bind_ok.mp h
        simp only [pure_ok] at h; subst h
        exact hG.refl _
      | tfMint coin to =>
        rw [execMsg] at h
        obtain ⟨b, hb, h⟩ := bind_ok.mp h
        simp only [pure_ok] at h; subst h
        exact hG.refl _
      | tfBurn coin =>
        rw [execMsg] at h
        obtain ⟨b, hb, h⟩ := bind_ok.mp h
        simp only [pure_ok] at h; subst h
        exact hG.refl _
      | wasmExec c msg funds =>
        obtain ⟨w1, w2, resp, hw1, hce, h⟩ := SysPools.wasm_inv h
        have g1 : G w.fm w1.fm := by rw [fundsMove_fm hw1]; exact hG.refl _
        exact hG.trans (hG.trans g1 (callExecute_rel hG hce)) (ihS _ _ _ _ h)
    · intro w c subs w' h
      cases subs with
      | nil => rw [execSubs] at h; cases h; exact hG.refl _
      | cons sm rest =>
        rw [execSubs] at h
        split at h
        · rename_i w1 hw1
          have g1 := ihM _ _ _ _ hw1
          split at h
          · obtain ⟨⟨w2, resp⟩, hcr, h⟩ := bind_ok.mp h
            obtain ⟨w3, h3, h⟩ := bind_ok.mp h
            have g2 : G w1.fm w2.fm := by rw [(Sys.callReply_inv hcr).2.1]; exact hG.refl _
            exact hG.trans (hG.trans (hG.trans g1 g2) (ihS _ _ _ _ h3)) (ihS _ _ _ _ h)
          · exact hG.trans g1 (ihS _ _ _ _ h)
        · rename_i e he
          split at h
          · obtain ⟨⟨w2, resp⟩, hcr, h⟩ := bind_ok.mp h
            obtain ⟨w3, h3, h⟩ := bind_ok.mp h
            have g2 : G w.fm w2.fm := by rw [(Sys.callReply_inv hcr).2.1]; exact hG.refl _
            exact hG.trans (hG.trans g2 (ihS _ _ _ _ h3)) (ihS _ _ _ _ h)
          · cases h

/-- one transaction (committed or rejected, with or without an injected fault) -/
theorem step_rel {G : FmState → FmState → Prop} (hG : FmRel G) (w : World) (tx : Tx) (k : Option Nat) :
    G w.fm (step w tx k).fm := by
  unfold step
  cases hr : runTx w tx k with
  | error e => exact hG.refl _
  | ok w' =>
    show G w.fm w'.fm
    cases tx with
    | exec sender c msg funds =>
      simp only [runTx] at hr
      have := (run_rel hG FUEL).1 _ _ _ _ hr
      exact this
    | send frm to coins =>
      simp only [runTx] at hr
      have := (run_rel hG FUEL).1 _ _ _ _ hr
      exact this
    | advance ns =>
      simp only [runTx] at hr
      cases hr
      exact hG.refl _

/-- every history -/
theorem hist_rel {G : FmState → FmState → Prop} (hG : FmRel G) (txs : List (Tx × Option Nat)) (w0 : World) :
    G w0.fm (txs.foldl (fun w t => step w t.1 t.2) w0).fm := by
  induction txs generalizing w0 with
  | nil => exact hG.refl _
  | cons t rest ih =>
    rw [List.foldl_cons]
    exact hG.trans (step_rel hG w0 t.1 t.2) (ih _)

/-! ### counting farms per LP token -/

/-- number of farms of an LP token -/
def cnt (l : List Farm) (lp : Denom) : Nat := (l.filter (·.lpDenom == lp)).length

theorem cnt_eq_of_map {l l' : List Farm} (h : l'.map (·.lpDenom) = l.map (·.lpDenom)) (lp : Denom) :
    cnt l' lp = cnt l lp := by
  have key : ∀ l : List Farm, cnt l lp = ((l.map (·.lpDenom)).filter (· == lp)).length := by
    intro l
    unfold cnt
    rw [List.filter_map, List.length_map]
    rfl
  rw [key, key, h]

theorem cnt_sublist {l l' : List Farm} (h : l'.Sublist l) (lp : Denom) : cnt l' lp ≤ cnt l lp :=
  (h.filter _).length_le

theorem cnt_perm {l l' : List Farm} (h : l'.Perm l) (lp : Denom) : cnt l' lp = cnt l lp :=
  (h.filter _).length_eq

/-- distinct farm identifiers, and at most the configured number of farms per LP token -/
def FL (s : FmState) : Prop := ∀ lp, cnt s.farms lp ≤ s.config.maxConcurrentFarms

/-- what every farm-manager handler establishes (given distinct farm identifiers) -/
def LimRel (s s' : FmState) : Prop :=
  (s.farms.map (·.id)).Nodup →
    (s'.farms.map (·.id)).Nodup ∧ s.config.maxConcurrentFarms ≤ s'.config.maxConcurrentFarms ∧
    (s'.config.maxConcurrentFarms ≤ C.MAX_FARMS_LIMIT → FL s → FL s')

theorem limRel_refl (s : FmState) : LimRel s s := fun hn => ⟨hn, Nat.le_refl _, fun _ h => h⟩

theorem limRel_trans {a b c : FmState} (h1 : LimRel a b) (h2 : LimRel b c) : LimRel a c := by
  intro hn
  obtain ⟨n1, m1, f1⟩ := h1 hn
  obtain ⟨n2, m2, f2⟩ := h2 n1
  exact ⟨n2, Nat.le_trans m1 m2, fun hm hf => f2 hm (f1 (Nat.le_trans m2 hm) hf)⟩

/-- same farms, same configuration -/
theorem limRel_same {s s' : FmState} (hf : s'.farms = s.farms) (hc : s'.config = s.config) : LimRel s s' := by
  intro hn
  refine ⟨by rw [hf]; exact hn, by rw [hc]; exact Nat.le_refl _, fun _ h lp => ?_⟩
  rw [hf, hc]; exact h lp

/-- same identifiers and LP tokens, same configuration -/
theorem limRel_maps {s s' : FmState} (hi : s'.farms.map (·.id) = s.farms.map (·.id))
    (hl : s'.farms.map (·.lpDenom) = s.farms.map (·.lpDenom)) (hc : s'.config = s.config) : LimRel s s' := by
  intro hn
  refine ⟨by rw [hi]; exact hn, by rw [hc]; exact Nat.le_refl _, fun _ h lp => ?_⟩
  rw [cnt_eq_of_map hl, hc]; exact h lp

/-! ### the handlers -/

theorem saveFarm_config (s : FmState) (f : Farm) : (s.saveFarm f).config = s.config := by
  unfold FmState.saveFarm; split <;> rfl

theorem createPosition_frame {s s' : FmState} {env : FmEnv} {sender : Addr} {funds : List Coin}
    {id : Option String} {u : Nat} {recv : Option Addr} {r : Response}
    (h : createPosition s env sender funds id u recv = .ok (s', r)) :
    s'.farms = s.farms ∧ s'.config = s.config := by
  unfold createPosition at h
  cases recv <;> cases id <;>
    simp only [bind_ok, error_bind, pure_bind', ite_error_ok, pure_ok, Prod.mk.injEq] at h
  · obtain ⟨lp, hlp, _, _, _, _, hnone, _, s3, h3, rfl, rfl⟩ := h
    have hs := updateWeights_sameStore h3
    exact ⟨by rw [hs.2.1, savePosition_farms], by rw [hs.2.2.2, savePosition_config]⟩
  · obtain ⟨lp, hlp, _, _, _, _, hnone, _, s3, h3, rfl, rfl⟩ := h
    have hs := updateWeights_sameStore h3
    exact ⟨by rw [hs.2.1, savePosition_farms], by rw [hs.2.2.2, savePosition_config]⟩
  · obtain ⟨lp, hlp, _, _, _, _, _, _, hnone, _, s3, h3, rfl, rfl⟩ := h
    have hs := updateWeights_sameStore h3
    exact ⟨by rw [hs.2.1, savePosition_farms], by rw [hs.2.2.2, savePosition_config]⟩
  · obtain ⟨lp, hlp, _, _, _, _, _, _, hnone, _, s3, h3, rfl, rfl⟩ := h
    have hs := updateWeights_sameStore h3
    exact ⟨by rw [hs.2.1, savePosition_farms], by rw [hs.2.2.2, savePosition_config]⟩

theorem expandPosition_frame {s s' : FmState} {env : FmEnv} {sender : Addr} {funds : List Coin}
    {id2 : String} {r : Response}
    (h : expandPosition s env sender funds id2 = .ok (s', r)) :
    s'.farms = s.farms ∧ s'.config = s.config := by
  unfold expandPosition at h
  cases hg : s.getPosition id2 with
  | none => rw [hg] at h; simp [error_bind] at h
  | some p2 =>
    rw [hg] at h
    simp only [bind_ok, error_bind, pure_bind', ite_error_ok, ckAdd_ok, pure_ok, Prod.mk.injEq] at h
    obtain ⟨c, hc, _, hden, hopen, hauth, a, ⟨_, rfl⟩, s2, h2, rfl, rfl⟩ := h
    have hs := updateWeights_sameStore h2
    exact ⟨by rw [hs.2.1, savePosition_farms], by rw [hs.2.2.2, savePosition_config]⟩

theorem closePosition_frame {s s' : FmState} {env : FmEnv} {sender : Addr} {funds : List Coin}
    {id2 : String} {lp : Option Coin} {r : Response}
    (h : closePosition s env sender funds id2 lp = .ok (s', r)) :
    s'.farms = s.farms ∧ s'.config = s.config := by
  unfold closePosition at h
  cases hg : s.getPosition id2 with
  | none =>
    rw [hg] at h
    simp only [bind_ok, error_bind] at h
    obtain ⟨_, _, _, _, h⟩ := h
    split at h <;> simp at h
  | some p2 =>
    rw [hg] at h
    simp only [bind_ok, error_bind, pure_bind', ite_error_ok, fit_ok] at h
    obtain ⟨_, _, _, _, _, hauth, _, a, ⟨_, rfl⟩, b, ⟨_, rfl⟩, _, h⟩ := h
    have full : ∀ {s0 : FmState} {q : Position} {R : Response} {amt : Nat},
        s0.farms = s.farms → s0.config = s.config →
        (updateWeights s0 env sender p2.lpDenom amt p2.unlocking false >>= fun s2 =>
          reconcileUserState (s2.savePosition q) env sender p2.lpDenom >>= fun s4 =>
          pure (s4, R)) = Except.ok (s', r) →
        s'.farms = s.farms ∧ s'.config = s.config := by
      intro s0 q R amt hf0 hc0 h
      simp only [bind_ok, pure_ok, Prod.mk.injEq] at h
      obtain ⟨s2, h2, s4, h4, rfl, rfl⟩ := h
      have hs2 := updateWeights_sameStore h2
      have hs4 := reconcileUserState_sameStore h4
      exact ⟨by rw [hs4.2.1, savePosition_farms, hs2.2.1, hf0],
        by rw [hs4.2.2.2, savePosition_config, hs2.2.2.2, hc0]⟩
    cases lp with
    | none => exact full rfl rfl h
    | some c =>
      simp only [ite_error_ok] at h
      obtain ⟨_, h⟩ := h
      split at h
      · exact full rfl rfl h
      · simp only [ite_ok_error, ite_error_ok, bind_ok, pure_ok, Prod.mk.injEq] at h
        obtain ⟨_, _, s2, h2, s4, h4, rfl, rfl⟩ := h
        have hs2 := updateWeights_sameStore h2
        have hs4 := reconcileUserState_sameStore h4
        exact ⟨by rw [hs4.2.1, savePosition_farms, hs2.2.1, savePosition_farms],
          by rw [hs4.2.2.2, savePosition_config, hs2.2.2.2, savePosition_config]⟩

theorem withdrawPosition_frame {s s' : FmState} {env : FmEnv} {sender : Addr} {funds : List Coin}
    {id2 : String} {em : Option Bool} {r : Response}
    (h : withdrawPosition s env sender funds id2 em = .ok (s', r)) :
    s'.farms = s.farms ∧ s'.config = s.config := by
  unfold withdrawPosition at h
  cases hg : s.getPosition id2 with
  | none => rw [hg] at h; simp [error_bind, bind_ok] at h
  | some p2 =>
    rw [hg] at h
    simp only [bind_ok, error_bind, pure_bind', ite_error_ok] at h
    obtain ⟨_, _, hauth, h⟩ := h
    have tail : ∀ (s1 s3 : FmState), SameStore s s1 → SameStore (s1.removePosition id2) s3 →
        s3.farms = s.farms ∧ s3.config = s.config := by
      intro s1 s3 hs1 hs3
      have hrf : (s1.removePosition id2).farms = s.farms := hs1.2.1
      have hrc : (s1.removePosition id2).config = s.config := hs1.2.2.2
      exact ⟨by rw [hs3.2.1, hrf], by rw [hs3.2.2.2, hrc]⟩
    split at h
    · simp only [bind_ok] at h
      obtain ⟨rate, _, cur, _, active, _, sp, _, h⟩ := h
      split at h
      · simp only [bind_ok, pure_ok, Prod.mk.injEq] at h
        obtain ⟨s1, h1, x, h3, rfl, rfl⟩ := h
        exact tail s1 _ (updateWeights_sameStore h1) (reconcileUserState_sameStore h3)
      · simp only [bind_ok, pure_ok, Prod.mk.injEq] at h
        obtain ⟨rfl, rfl⟩ := h
        exact tail s _ (SameStore.refl s) (SameStore.refl _)
    · simp only [ite_error_ok] at h
      obtain ⟨_, _, h⟩ := h
      split at h
      · simp only [bind_ok, pure_ok, Prod.mk.injEq] at h
        obtain ⟨x, h3, rfl, rfl⟩ := h
        exact tail s _ (SameStore.refl s) (reconcileUserState_sameStore h3)
      · simp only [bind_ok, pure_ok, Prod.mk.injEq] at h
        obtain ⟨rfl, rfl⟩ := h
        exact tail s _ (SameStore.refl s) (SameStore.refl _)

/-! #### claim: only `claimed` changes -/

/-- identifiers, LP tokens and configuration agree -/
def SameKeys (s s' : FmState) : Prop :=
  s'.farms.map (·.id) = s.farms.map (·.id) ∧ s'.farms.map (·.lpDenom) = s.farms.map (·.lpDenom) ∧
    s'.config = s.config

theorem sameKeys_trans {a b c : FmState} (h1 : SameKeys a b) (h2 : SameKeys b c) : SameKeys a c :=
  ⟨h2.1.trans h1.1, h2.2.1.trans h1.2.1, h2.2.2.trans h1.2.2⟩

theorem claimModStep_keys {s1 s2 : FmState} {m : String × Nat} (hn : (s1.farms.map (·.id)).Nodup)
    (h : FH.claimModStep s1 m = .ok s2) : SameKeys s1 s2 := by
  unfold FH.claimModStep at h
  simp only [FH.error_bind, FH.ite_err_ok, bind_ok, pure_ok, ckAdd_ok] at h
  obtain ⟨f, hf, c, ⟨_, rfl⟩, hle, rfl⟩ := h
  obtain ⟨hmem, _⟩ := FH.getFarm_ok hf
  refine ⟨FH.saveFarm_replace_map (fun x : Farm => x.id) hmem rfl (fun q _ hq => hq.symm), ?_,
    saveFarm_config _ _⟩
  refine FH.saveFarm_replace_map (fun x : Farm => x.lpDenom) hmem rfl ?_
  intro q hq hqid
  have := FH.nodup_key_inj Farm.id _ hn q hq f hmem hqid
  subst this
  rfl

theorem claimStep_keys {env : FmEnv} {sender : Addr} {u : Nat} {st st' : FmState × List Coin}
    {lp : Denom} (hn : (st.1.farms.map (·.id)).Nodup)
    (h : FH.claimStep env sender u st lp = .ok st') : SameKeys st.1 st'.1 := by
  unfold FH.claimStep at h
  simp only [bind_ok, pure_ok] at h
  obtain ⟨rc, hrc, s1, hfold, s2, hsync, rfl⟩ := h
  have h1 : SameKeys st.1 s1 :=
    foldlM_inv (fun (x : FmState) => SameKeys st.1 x) _
      (fun b m b' hb hm => sameKeys_trans hb (claimModStep_keys (by rw [hb.1]; exact hn) hm)) _ _ _
      ⟨rfl, rfl, rfl⟩ hfold
  have hs := syncHistory_sameStore hsync
  exact ⟨by show s2.farms.map _ = _; rw [hs.2.1]; exact h1.1,
    by show s2.farms.map _ = _; rw [hs.2.1]; exact h1.2.1,
    by show s2.config = _; rw [hs.2.2.2]; exact h1.2.2⟩

theorem fmClaim_keys {s s' : FmState} {env : FmEnv} {sender : Addr} {funds : List Coin}
    {u : Option Nat} {r : Response} (hn : (s.farms.map (·.id)).Nodup)
    (h : fmClaim s env sender funds u = .ok (s', r)) : SameKeys s s' := by
  rw [FH.fmClaim_eq] at h
  simp only [FH.error_bind, FH.ite_err_ok, bind_ok, pure_ok] at h
  obtain ⟨_, hnp, _, cur, _, untilE, _, ⟨s1, total⟩, hfold, h⟩ := h
  have hk : SameKeys s s1 :=
    foldlM_inv (fun (x : FmState × List Coin) => SameKeys s x.1) _
      (fun b m b' hb hm => sameKeys_trans hb (claimStep_keys (by rw [hb.1]; exact hn) hm)) _ _ _
      ⟨rfl, rfl, rfl⟩ hfold
  simp only at h
  split at h
  · simp only [bind_ok, pure_ok, Prod.mk.injEq] at h
    obtain ⟨msgs, rfl, rfl, rfl⟩ := h
    exact hk
  · simp only [bind_ok, pure_ok, Prod.mk.injEq] at h
    obtain ⟨agg, _, msgs, rfl, rfl, rfl⟩ := h
    exact hk

/-! #### farms -/

theorem createFarm_limRel {s s' : FmState} {env : FmEnv} {sender : Addr} {funds : List Coin}
    {p : FarmParams} {r : Response} (h : createFarm s env sender funds p = .ok (s', r)) : LimRel s s' := by
  intro hu
  have hmaxlem := @C11.farms_per_lp_le_max_partial s s' env sender funds p r
  obtain ⟨cur, flags, feeMsgs, start, end_, rate, hcur, hflags, _, _, hfm, hassert, _, _, hany,
    rfl, rfl⟩ := FH.createFarm_inv h
  obtain ⟨_, hfarms, _, hcfg, _⟩ := FH.closeFarms_spec s (FH.cfExpired s p flags)
  have hsubl : (closeFarms s (FH.cfExpired s p flags)).1.farms.Sublist s.farms := by
    rw [hfarms]; exact List.filter_sublist
  have hc : (FmState.saveFarm (FH.cfIdState (closeFarms s (FH.cfExpired s p flags)).1 p).2
      { id := (FH.cfIdState (closeFarms s (FH.cfExpired s p flags)).1 p).1, owner := sender,
        lpDenom := p.lpDenom, assetDenom := p.asset.denom, assetAmount := p.asset.amount,
        claimed := 0, emissionRate := rate, startEpoch := start, endEpoch := end_ }).config = s.config := by
    rw [saveFarm_config, FH.cfIdState_config, hcfg]
  refine ⟨?_, by rw [hc]; exact Nat.le_refl _, ?_⟩
  · rw [((FH.saveFarm_perm_new hany).map _).nodup_iff]
    simp only [List.map_cons, List.nodup_cons]
    refine ⟨?_, by rw [FH.cfIdState_farms]; exact (hsubl.map _).nodup hu⟩
    intro hm
    obtain ⟨g, hg, hgid⟩ := List.mem_map.1 hm
    have := List.any_eq_false.1 hany g hg
    simp [hgid] at this
  · intro hmax hfl lp
    rw [hc] at hmax ⊢
    by_cases hlp : lp = p.lpDenom
    · subst hlp
      exact hmaxlem hmax (hfl p.lpDenom) h
    · rw [cnt_perm (FH.saveFarm_perm_new hany) lp, FH.cfIdState_farms]
      unfold cnt
      rw [List.filter_cons]
      have : (p.lpDenom == lp) = false := by simpa using fun e => hlp e.symm
      simp only [this, Bool.false_eq_true, if_false]
      exact Nat.le_trans (cnt_sublist hsubl lp) (hfl lp)

theorem expandFarm_limRel {s s' : FmState} {env : FmEnv} {sender : Addr} {funds : List Coin}
    {p : FarmParams} {r : Response} (h : expandFarm s env sender funds p = .ok (s', r)) : LimRel s s' := by
  intro hu
  revert hu
  show LimRel s s'
  unfold expandFarm at h
  cases hid : p.farmId with
  | none => simp [hid, bind, Except.bind] at h
  | some fid =>
    simp only [hid, FH.error_bind, FH.ite_err_ok, bind_ok, pure_ok, fit_ok, ckAdd_ok, Prod.mk.injEq] at h
    obtain ⟨fid', hfid', f, hf, _, cur, hcur, hlt, ex, _, _, _, reward, hone, hrw, hden, hrate, hmod, total,
      ⟨_, rfl⟩, extra, ⟨_, rfl⟩, newEnd, ⟨_, rfl⟩, rfl, rfl⟩ := h
    cases hfid'
    obtain ⟨hmem, _⟩ := FH.getFarm_ok hf
    intro hu
    refine limRel_maps ?_ ?_ (saveFarm_config _ _) hu
    · exact FH.saveFarm_replace_map (fun x : Farm => x.id) hmem rfl (fun q _ hq => hq.symm)
    · refine FH.saveFarm_replace_map (fun x : Farm => x.lpDenom) hmem rfl ?_
      intro q hq hqid
      have := FH.nodup_key_inj Farm.id _ hu q hq f hmem hqid
      subst this
      rfl

theorem closeFarm_limRel {s s' : FmState} {sender : Addr} {funds : List Coin} {id : String}
    {r : Response} (h : closeFarm s sender funds id = .ok (s', r)) : LimRel s s' := by
  unfold closeFarm at h
  simp only [FH.error_bind, FH.ite_err_ok, bind_ok, pure_ok, Prod.mk.injEq] at h
  obtain ⟨_, hnp, f, hf, _, rfl, rfl⟩ := h
  obtain ⟨_, hfarms, _, hcfg, _⟩ := FH.closeFarms_spec s [f]
  have hsubl : (closeFarms s [f]).1.farms.Sublist s.farms := by
    rw [hfarms]; exact List.filter_sublist
  intro hu
  refine ⟨(hsubl.map _).nodup hu, by rw [hcfg]; exact Nat.le_refl _, fun _ hfl lp => ?_⟩
  rw [hcfg]
  exact Nat.le_trans (cnt_sublist hsubl lp) (hfl lp)

/-- every farm-manager message -/
theorem fmExecute_limRel {s s' : FmState} {env : FmEnv} {sender : Addr} {funds : List Coin} {m : FmMsg}
    {r : Response} (h : fmExecute s env sender funds m = .ok (s', r)) : LimRel s s' := by
  cases m with
  | createFarm p => exact createFarm_limRel h
  | expandFarm p => exact expandFarm_limRel h
  | closeFarm id => exact closeFarm_limRel h
  | claim u =>
    intro hn
    obtain ⟨h1, h2, h3⟩ := fmClaim_keys hn h
    exact limRel_maps h1 h2 h3 hn
  | createPosition id u rc =>
    obtain ⟨h1, h2⟩ := createPosition_frame h
    exact limRel_same h1 h2
  | expandPosition id =>
    obtain ⟨h1, h2⟩ := expandPosition_frame h
    exact limRel_same h1 h2
  | closePosition id lp =>
    obtain ⟨h1, h2⟩ := closePosition_frame h
    exact limRel_same h1 h2
  | withdrawPosition id e =>
    obtain ⟨h1, h2⟩ := withdrawPosition_frame h
    exact limRel_same h1 h2
  | updateConfig u =>
    unfold fmExecute at h
    simp only [bind_ok] at h
    obtain ⟨_, _, h⟩ := h
    obtain ⟨_, hf, _⟩ := C05.fmUpdateConfig_frame h
    have hm := C11.max_farms_never_decreases h
    intro hn
    refine ⟨by rw [hf]; exact hn, hm, fun _ hfl lp => ?_⟩
    rw [hf]
    exact Nat.le_trans (hfl lp) hm
  | updateOwnership a =>
    unfold fmExecute at h
    simp only [bind_ok, pure_ok, Prod.mk.injEq] at h
    obtain ⟨_, _, o, _, rfl, _⟩ := h
    exact limRel_same rfl rfl

theorem limRel_fmRel : FmRel LimRel := ⟨limRel_refl, limRel_trans, fmExecute_limRel⟩

/-- one transaction keeps the farm identifiers distinct and the farm limit (while the maximum stays
    within the query cap) -/
theorem limit_step (w : World) (tx : Tx) (k : Option Nat) : LimRel w.fm (step w tx k).fm :=
  step_rel limRel_fmRel w tx k

/-- every history -/
theorem limit_hist (w0 : World) (txs : List (Tx × Option Nat)) :
    LimRel w0.fm (txs.foldl (fun w t => step w t.1 t.2) w0).fm :=
  hist_rel limRel_fmRel txs w0

/-- why distinct identifiers are needed: `saveFarm` overwrites EVERY stored farm carrying the identifier, so
    with a duplicated identifier an update of one farm turns the other into a copy of it, and the copy
    counts for the first farm's LP token -/
theorem saveFarm_duplicate_ids_break_count :
    let a : Farm := { id := "f", owner := "u", lpDenom := "a", assetDenom := "r", assetAmount := 10,
                      claimed := 0, emissionRate := 1, startEpoch := 1, endEpoch := 11 }
    let b : Farm := { a with lpDenom := "b" }
    let s : FmState := { config := ⟨"fc", "em", "pm", ⟨"x", 0⟩, 1, 1, 1, 2, 1, 0⟩, farms := [a, b],
                         owner := { owner := none } }
    cnt s.farms "a" = 1 ∧ cnt s.farms "b" = 1 ∧
      cnt (s.saveFarm { a with assetAmount := 20 }).farms "a" = 2 := by
  decide

end MantraDex.FarmTx
