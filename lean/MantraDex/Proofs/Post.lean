/-
  A small goal-directed "weakest precondition" toolkit for the `R = Except Err` monad, used to walk
  through the `do` blocks of the handler models without inlining their join points.

  `Post Q x` : if `x` succeeds with `y` then `Q y`.
  The `do` elaborator compiles `if c then .error e` (no else) and `let x ← match …` into
  `have __do_jp := fun r => rest; …`; `pjp` cuts at such a join point (proves the continuation once,
  then treats the join point as an opaque function known to satisfy the post-condition), `post_jp_unit`
  handles the frequent special shape `if c then (.error e >>= jp) else jp ()` keeping `¬ c`.
-/
import MantraDex.Model.Num
import MantraDex.Proofs.NumLemmas

set_option linter.tactic.unusedName false

namespace MantraDex

/-- `x` succeeds only with results satisfying `Q` (a structure, so that `apply` never unfolds it) -/
structure Post {α : Type} (Q : α → Prop) (x : R α) : Prop where
  out : ∀ y, x = .ok y → Q y

theorem post_bind {α β : Type} {Q : β → Prop} {x : R α} {f : α → R β}
    (h : ∀ a, x = .ok a → Post Q (f a)) : Post Q (x >>= f) := by
  refine ⟨fun y hy => ?_⟩
  obtain ⟨a, ha, hf⟩ := bind_ok.1 hy
  exact (h a ha).out y hf

theorem post_error {α : Type} {Q : α → Prop} {e : Err} : Post Q (Except.error e) :=
  ⟨fun y hy => by cases hy⟩

theorem post_err_bind {α β : Type} {Q : β → Prop} {e : Err} {f : α → R β} :
    Post Q (Except.error e >>= f) :=
  ⟨fun y hy => by cases hy⟩

theorem post_pure {α : Type} {Q : α → Prop} {a : α} (h : Q a) : Post Q (pure a) := by
  refine ⟨fun y hy => ?_⟩
  cases pure_ok.1 hy
  exact h

theorem post_ok {α : Type} {Q : α → Prop} {a : α} (h : Q a) : Post Q (Except.ok a) := post_pure h

theorem post_ite {α : Type} {Q : α → Prop} {c : Prop} [Decidable c] {a b : R α}
    (ha : c → Post Q a) (hb : ¬ c → Post Q b) : Post Q (if c then a else b) := by
  split
  · exact ha ‹_›
  · exact hb ‹_›

/-- `if c then .error e` without `else`, followed by the rest of the block -/
theorem post_jp_unit {α : Type} {Q : α → Prop} {c : Prop} [Decidable c] {e : Err} {f : Unit → R α}
    (h : ¬ c → Post Q (f ())) : Post Q (if c then (Except.error e >>= f) else f ()) := by
  split
  · exact post_err_bind
  · exact h ‹_›

/-- a function all of whose results satisfy the post-condition (a proven join point) -/
class PostFn {α β : Type} (Q : β → Prop) (f : α → R β) : Prop where
  post : ∀ a, Post Q (f a)

theorem post_cut {α β : Type} {Q : β → Prop} {f : α → R β} {x : R β}
    (h1 : ∀ a, Post Q (f a)) (h2 : [PostFn Q f] → Post Q x) : Post Q x :=
  @h2 ⟨h1⟩

theorem post_app {α β : Type} {Q : β → Prop} {f : α → R β} [h : PostFn Q f] {a : α} :
    Post Q (f a) := h.post a

/-- closes the goal `Q a` left by `post_pure` / `post_ok`; extended by the property files -/
syntax "pclose" : tactic
macro_rules | `(tactic| pclose) => `(tactic| fail "pclose: no rule applies")

/-- cut at the outermost join point of the goal -/
macro "pjp" : tactic => `(tactic|
   (extract_lets -underBinder +onlyGivenNames jp; refine post_cut (f := jp) ?_ ?_;
    (intro _; unfold jp; clear jp; try dsimp -zeta only); rotate_left;
    (intro _; clear_value jp)))

/-- one structural step through a `do` block -/
macro "pstep" : tactic => `(tactic| first
  | (apply post_jp_unit; intro _; try dsimp -zeta only)
  | pjp
  | (extract_lets -underBinder +onlyGivenNames _x)
  | apply post_app
  | apply post_error
  | apply post_err_bind
  | (apply post_pure; pclose)
  | (apply post_ok; pclose)
  | (apply post_bind; intro _ _)
  | (apply post_ite <;> intro _)
  | split)

end MantraDex
