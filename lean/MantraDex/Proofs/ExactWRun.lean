/-
  C10Eq, part 3: lifting through the runtime.

  * `Lift2` / `lift_run2`: like `WSys.Lift`, with a second predicate `J` on worlds that only the pool manager's
    `reply` needs, that every handler preserves, and that the pool manager establishes whenever it emits a
    sub-message it wants a reply for.  (The pool manager's single-asset deposit buffer may hold stale data
    at the start of a transaction; it is overwritten before the only reply that reads it.)
  * the instance for C10Eq: `EInv` = the invariant of `C10Sys` + exactness + "the lock identifier of this
    transaction names no existing position"; messages carry the lock identifier `L` of the transaction.
-/
import MantraDex.Proofs.ExactWFm
import MantraDex.Proofs.ExactWPm
import MantraDex.Proofs.WSysStep

set_option linter.unusedSimpArgs false
set_option linter.unusedVariables false

namespace MantraDex.ExactW
open MantraDex MantraDex.WSys

/-! ### the generic lift with a reply-time predicate -/

structure Lift2 (I J : World → Prop) (Ok : Addr → Msg → Prop) : Prop where
  bankI : ∀ (w : World) (b : Bank), I w → I { w with bank := b }
  bankJ : ∀ (w : World) (b : Bank), J w → J { w with bank := b }
  exec : ∀ {w w2 : World} {c sender : Addr} {funds : List Coin} {msg : ContractMsg} {resp : Response},
    I w → Ok sender (.wasmExec c msg funds) → callExecute w c sender funds msg = .ok (w2, resp) →
    I w2 ∧ (∀ sm ∈ resp.msgs, Ok c sm.msg) ∧ (J w → J w2) ∧
      (c = PM → (∃ sm ∈ resp.msgs, sm.replyOn ≠ .never) → J w2)
  reply : ∀ {w w2 : World} {c : Addr} {id : Nat} {resp : Response},
    I w → (c = PM → J w) → callReply w c id = .ok (w2, resp) →
    I w2 ∧ (∀ sm ∈ resp.msgs, Ok c sm.msg) ∧ (c = PM → J w2) ∧ (J w → J w2)

theorem onSuccess_ne_never {r : ReplyOn} (h : r.onSuccess = true) : r ≠ .never := by
  cases r <;> simp_all [ReplyOn.onSuccess]

theorem onError_ne_never {r : ReplyOn} (h : r.onError = true) : r ≠ .never := by
  cases r <;> simp_all [ReplyOn.onError]

theorem fundsMove_inv2 {I J : World → Prop} {Ok : Addr → Msg → Prop} (L : Lift2 I J Ok) {w w1 : World}
    {sender c : Addr} {funds : List Coin} (hI : I w)
    (h : (if funds.isEmpty then pure w else do
        let b ← w.bank.send sender c funds
        pure { w with bank := b }) = (.ok w1 : R World)) : I w1 ∧ (J w → J w1) := by
  split at h
  · simp only [pure_ok] at h; subst h; exact ⟨hI, id⟩
  · obtain ⟨b, hb, h⟩ := bind_ok.mp h
    simp only [pure_ok] at h; subst h
    exact ⟨L.bankI w b hI, L.bankJ w b⟩

theorem lift_run2 {I J : World → Prop} {Ok : Addr → Msg → Prop} (L : Lift2 I J Ok) (fuel : Nat) :
    (∀ w sender m w', execMsg fuel w sender m = .ok w' → I w → Ok sender m → I w' ∧ (J w → J w')) ∧
    (∀ w c subs w', execSubs fuel w c subs = .ok w' → I w → (∀ sm ∈ subs, Ok c sm.msg) →
      ((c = PM → J w) ∨ ∀ sm ∈ subs, sm.replyOn = .never) → I w' ∧ (J w → J w')) := by
  induction fuel with
  | zero =>
    constructor
    · intro w sender m w' h; rw [execMsg] at h; cases h
    · intro w c subs w' h; rw [execSubs] at h; cases h
  | succ n ih =>
    obtain ⟨ihM, ihS⟩ := ih
    constructor
    · intro w sender m w' h hI hok
      cases m with
      | bankSend to coins =>
        rw [execMsg] at h
        obtain ⟨b, hb, h⟩ := bind_ok.mp h
        simp only [pure_ok] at h; subst h
        exact ⟨L.bankI w b hI, L.bankJ w b⟩
      | bankBurn coins =>
        rw [execMsg] at h
        obtain ⟨b, hb, h⟩ := bind_ok.mp h
        simp only [pure_ok] at h; subst h
        exact ⟨L.bankI w b hI, L.bankJ w b⟩
      | tfCreateDenom sd =>
        rw [execMsg] at h
        obtain ⟨b, hb, h⟩ := bind_ok.mp h
        simp only [pure_ok] at h; subst h
        exact ⟨L.bankI w b hI, L.bankJ w b⟩
      | tfMint coin to =>
        rw [execMsg] at h
        obtain ⟨b, hb, h⟩ := bind_ok.mp h
        simp only [pure_ok] at h; subst h
        exact ⟨L.bankI w b hI, L.bankJ w b⟩
      | tfBurn coin =>
        rw [execMsg] at h
        obtain ⟨b, hb, h⟩ := bind_ok.mp h
        simp only [pure_ok] at h; subst h
        exact ⟨L.bankI w b hI, L.bankJ w b⟩
      | wasmExec c msg funds =>
        obtain ⟨w1, w2, resp, hw1, hce, h⟩ := SysPools.wasm_inv h
        obtain ⟨h1, j1⟩ := fundsMove_inv2 L hI hw1
        obtain ⟨h2, hmsgs, j2, jr⟩ := L.exec h1 hok hce
        have hJ : (c = PM → J w2) ∨ ∀ sm ∈ resp.msgs, sm.replyOn = .never := by
          by_cases hall : ∀ sm ∈ resp.msgs, sm.replyOn = .never
          · exact Or.inr hall
          · refine Or.inl (fun hc => jr hc ?_)
            apply Classical.byContradiction
            intro hne
            apply hall
            intro sm hsm
            apply Classical.byContradiction
            intro h'
            exact hne ⟨sm, hsm, h'⟩
        obtain ⟨h3, j3⟩ := ihS _ _ _ _ h h2 hmsgs hJ
        exact ⟨h3, fun hj => j3 (j2 (j1 hj))⟩
    · intro w c subs w' h hI hok hJ
      cases subs with
      | nil => rw [execSubs] at h; cases h; exact ⟨hI, id⟩
      | cons sm rest =>
        have hsm := hok sm (List.mem_cons_self ..)
        have hrest : ∀ sm' ∈ rest, Ok c sm'.msg := fun sm' h' => hok sm' (List.mem_cons_of_mem _ h')
        have hJw : sm.replyOn ≠ .never → c = PM → J w := by
          intro hne
          rcases hJ with hJ | hJ
          · exact hJ
          · exact absurd (hJ sm (List.mem_cons_self ..)) hne
        have hJrest : ∀ w1 : World, (J w → J w1) →
            ((c = PM → J w1) ∨ ∀ sm' ∈ rest, sm'.replyOn = .never) := by
          intro w1 hj
          rcases hJ with hJ | hJ
          · exact Or.inl (fun hc => hj (hJ hc))
          · exact Or.inr (fun sm' h' => hJ sm' (List.mem_cons_of_mem _ h'))
        rw [execSubs] at h
        split at h
        · rename_i w1 hw1
          obtain ⟨g1, j1⟩ := ihM _ _ _ _ hw1 hI hsm
          split at h
          · rename_i hon
            obtain ⟨⟨w2, resp⟩, hcr, h⟩ := bind_ok.mp h
            obtain ⟨w3, h3, h⟩ := bind_ok.mp h
            have hjw := hJw (onSuccess_ne_never hon)
            obtain ⟨g2, hm2, jp2, j2⟩ := L.reply g1 (fun hc => j1 (hjw hc)) hcr
            obtain ⟨g3, j3⟩ := ihS _ _ _ _ h3 g2 hm2 (Or.inl jp2)
            obtain ⟨g4, j4⟩ := ihS _ _ _ _ h g3 hrest (Or.inl (fun hc => j3 (jp2 hc)))
            exact ⟨g4, fun hj => j4 (j3 (j2 (j1 hj)))⟩
          · obtain ⟨g4, j4⟩ := ihS _ _ _ _ h g1 hrest (hJrest w1 j1)
            exact ⟨g4, fun hj => j4 (j1 hj)⟩
        · rename_i e he
          split at h
          · rename_i hon
            obtain ⟨⟨w2, resp⟩, hcr, h⟩ := bind_ok.mp h
            obtain ⟨w3, h3, h⟩ := bind_ok.mp h
            have hjw := hJw (onError_ne_never hon)
            obtain ⟨g2, hm2, jp2, j2⟩ := L.reply (L.bankI w _ hI) (fun hc => L.bankJ w _ (hjw hc)) hcr
            obtain ⟨g3, j3⟩ := ihS _ _ _ _ h3 g2 hm2 (Or.inl jp2)
            obtain ⟨g4, j4⟩ := ihS _ _ _ _ h g3 hrest (Or.inl (fun hc => j3 (jp2 hc)))
            exact ⟨g4, fun hj => j4 (j3 (j2 (L.bankJ w _ hj)))⟩
          · cases h

/-! ### the shape of `callExecute` / `callReply` -/

theorem callExecute_pm {w w2 : World} {c sender : Addr} {funds : List Coin} {m : PmMsg} {resp : Response}
    (h : callExecute w c sender funds (.pm m) = .ok (w2, resp)) :
    c = PM ∧ ∃ s, pmExecute w.pm w.pmEnv sender funds m = .ok (s, resp) ∧ w2 = { w with pm := s } := by
  simp only [callExecute] at h
  split at h
  · cases h
  · rename_i hc
    have hc : c = PM := by simpa using hc
    obtain ⟨⟨s, r⟩, hr, h⟩ := bind_ok.mp h
    simp only [pure_ok, Prod.mk.injEq] at h
    obtain ⟨rfl, rfl⟩ := h
    exact ⟨hc, s, hr, rfl⟩

theorem callExecute_fm {w w2 : World} {c sender : Addr} {funds : List Coin} {m : FmMsg} {resp : Response}
    (h : callExecute w c sender funds (.fm m) = .ok (w2, resp)) :
    c = FM ∧ ∃ s, fmExecute w.fm w.fmEnv sender funds m = .ok (s, resp) ∧ w2 = { w with fm := s } := by
  simp only [callExecute] at h
  split at h
  · cases h
  · rename_i hc
    have hc : c = FM := by simpa using hc
    obtain ⟨⟨s, r⟩, hr, h⟩ := bind_ok.mp h
    simp only [pure_ok, Prod.mk.injEq] at h
    obtain ⟨rfl, rfl⟩ := h
    exact ⟨hc, s, hr, rfl⟩

theorem callExecute_em {w w2 : World} {c sender : Addr} {funds : List Coin} {m : EmMsg} {resp : Response}
    (h : callExecute w c sender funds (.em m) = .ok (w2, resp)) :
    w2.fm = w.fm ∧ w2.pm = w.pm ∧ resp.msgs = [] := by
  simp only [callExecute] at h
  split at h
  · cases h
  · obtain ⟨s, hr, h⟩ := bind_ok.mp h
    simp only [pure_ok, Prod.mk.injEq] at h
    obtain ⟨rfl, rfl⟩ := h
    exact ⟨rfl, rfl, rfl⟩

theorem callExecute_fc {w w2 : World} {c sender : Addr} {funds : List Coin} {m : FcMsg} {resp : Response}
    (h : callExecute w c sender funds (.fc m) = .ok (w2, resp)) :
    w2.fm = w.fm ∧ w2.pm = w.pm ∧ resp.msgs = [] := by
  cases m with
  | updateOwnership a =>
    simp only [callExecute] at h
    split at h
    · cases h
    · obtain ⟨_, _, h⟩ := bind_ok.mp h
      obtain ⟨o, _, h⟩ := bind_ok.mp h
      simp only [pure_ok, Prod.mk.injEq] at h
      obtain ⟨rfl, rfl⟩ := h
      exact ⟨rfl, rfl, rfl⟩

/-- a reply never changes the farm manager's state; the pool manager's reply is `pmReply` -/
theorem callReply_cases {w w2 : World} {c : Addr} {id : Nat} {resp : Response}
    (h : callReply w c id = .ok (w2, resp)) :
    w2.fm = w.fm ∧
    ((c = PM ∧ ∃ s, pmReply w.pm w.pmEnv id = .ok (s, resp) ∧ w2 = { w with pm := s }) ∨
     (c ≠ PM ∧ w2.pm = w.pm ∧ resp.msgs = [])) := by
  unfold callReply at h
  split at h
  · rename_i hc
    have hc : c = PM := by simpa using hc
    obtain ⟨⟨s, r⟩, hr, h⟩ := bind_ok.mp h
    simp only [pure_ok, Prod.mk.injEq] at h
    obtain ⟨rfl, rfl⟩ := h
    exact ⟨rfl, Or.inl ⟨hc, s, hr, rfl⟩⟩
  · rename_i hc
    have hc : c ≠ PM := by simpa using hc
    split at h
    · obtain ⟨⟨s, r⟩, hr, h⟩ := bind_ok.mp h
      simp only [pure_ok, Prod.mk.injEq] at h
      obtain ⟨rfl, rfl⟩ := h
      unfold fmReply at hr
      split at hr
      · cases hr
        exact ⟨rfl, Or.inr ⟨hc, rfl, rfl⟩⟩
      · cases hr
    · cases h

/-! ### the lock identifier of the transaction names no position -/

def LockFree (L : Option String) (s : FmState) : Prop := ∀ i, L = some i → s.getPosition i = none

theorem explicit_ne (i : String) : C.EXPLICIT_POSITION_ID_PREFIX ++ i ≠ i := by
  intro h
  have := congrArg String.length h
  rw [String.length_append] at this
  have h2 : C.EXPLICIT_POSITION_ID_PREFIX.length = 2 := by decide
  omega

/-- creating the position `u-i` leaves the identifier `i` unused -/
theorem createPosition_lock {s s' : FmState} {env : FmEnv} {sender : Addr} {funds : List Coin}
    {i : String} {u : Nat} {recv : Option Addr} {r : Response}
    (h : createPosition s env sender funds (some i) u recv = .ok (s', r)) {j : String}
    (hj : s.getPosition j = none) (hne : j ≠ C.EXPLICIT_POSITION_ID_PREFIX ++ i) :
    s'.getPosition j = none := by
  unfold createPosition at h
  cases recv <;>
    simp only [bind_ok, error_bind, pure_bind', ite_error_ok, pure_ok, Prod.mk.injEq] at h
  · obtain ⟨lp, hlp, _, _, _, _, hnone, hlim, s3, h3, rfl, rfl⟩ := h
    rw [getPosition_congr (updateWeights_sameStore h3).1, getPosition_save_other _ _ hne]
    exact hj
  · obtain ⟨lp, hlp, _, _, _, hauth, _, _, hnone, hlim, s3, h3, rfl, rfl⟩ := h
    rw [getPosition_congr (updateWeights_sameStore h3).1, getPosition_save_other _ _ hne]
    exact hj

/-! ### the instance for C10Eq -/

structure EInv (env0 : FmEnv) (L : Option String) (w : World) : Prop where
  sinv : SInv env0 w
  exact : ExactF w.fm FM
  lock : LockFree L w.fm

/-- a message `m` sent by `sender` is admissible in a whole-position transaction with lock identifier `L` -/
def OkL (L : Option String) (sender : Addr) (m : Msg) : Prop := MsgOk sender m ∧ Extra L m

theorem extra_send {L : Option String} {m : Msg} (h : SysPm.IsSend m) : Extra L m := by
  obtain ⟨to, cs, rfl⟩ := h; trivial

theorem einv_lift (env0 : FmEnv) (L : Option String) :
    Lift2 (EInv env0 L) (fun w => BufL L w.pm) (OkL L) := by
  refine ⟨?_, ?_, ?_, ?_⟩
  · intro w b h
    exact ⟨(sinv_lift env0).bank w b h.sinv, h.exact, h.lock⟩
  · intro w b h
    exact h
  · intro w w2 c sender funds msg resp hI hok hce
    obtain ⟨hmo, hex⟩ := hok
    obtain ⟨hs2, hmsg2⟩ := (sinv_lift env0).exec hI.sinv hmo hce
    have hself := hI.sinv.self_eq
    cases msg with
    | pm m =>
      obtain ⟨rfl, s, hr, rfl⟩ := callExecute_pm hce
      have hfree : ∀ i, L = some i → w.pmEnv.fmPosition i = none := by
        intro i hi
        show (if w.pm.config.farmManager == FM then (w.fm.getPosition i).map fun p => (p.id, p.receiver)
          else none) = none
        rw [hI.lock i hi]
        split <;> rfl
      rcases pmExecute_extra hex hfree hr with ⟨hb, hsub⟩ | ⟨hb, hsub⟩
      · refine ⟨⟨hs2, hI.exact, hI.lock⟩, fun sm hsm => ⟨hmsg2 sm hsm, (hsub sm hsm).1⟩, ?_, ?_⟩
        · intro hj b hb'
          exact hj b (by rw [← hb]; exact hb')
        · intro _ hsome
          obtain ⟨sm, hsm, hne⟩ := hsome
          exact absurd (hsub sm hsm).2 hne
      · exact ⟨⟨hs2, hI.exact, hI.lock⟩, fun sm hsm => ⟨hmsg2 sm hsm, hsub sm hsm⟩, fun _ => hb,
          fun _ _ => hb⟩
    | fm m =>
      obtain ⟨rfl, s, hr, rfl⟩ := callExecute_fm hce
      have hsends : ∀ sm ∈ resp.msgs, OkL L FM sm.msg := fun sm hsm =>
        ⟨hmsg2 sm hsm, extra_send (SysPm.fmExecute_sends hr sm hsm)⟩
      rw [hI.sinv.env] at hr
      cases m with
      | createPosition id u rc =>
        have hid : id = L := hex
        have hsn : sender ≠ env0.self := by rw [hself]; exact hmo.1
        have hcp : createPosition w.fm env0 sender funds id u rc = .ok (s, resp) := hr
        have hx2 : ExactF s FM := by
          rw [← hself]
          refine createPosition_exact hI.sinv.finv (by rw [hself]; exact hI.exact) hsn ?_ hcp
          intro rc' hrc hp
          subst hrc
          rw [hself]
          exact hmo.2 (by rw [hp, hI.sinv.pmAddr])
        refine ⟨⟨hs2, hx2, ?_⟩, hsends, fun hj => hj, fun hc => absurd hc.symm PM_ne_FM⟩
        intro i hi
        subst hid
        subst hi
        exact createPosition_lock hcp (hI.lock i rfl) (fun e => explicit_ne i e.symm)
      | createFarm p => exact False.elim hex
      | expandFarm p => exact False.elim hex
      | closeFarm id => exact False.elim hex
      | claim u => exact False.elim hex
      | expandPosition id => exact False.elim hex
      | closePosition id lp => exact False.elim hex
      | withdrawPosition id e => exact False.elim hex
      | updateConfig u => exact False.elim hex
      | updateOwnership a => exact False.elim hex
    | em m =>
      obtain ⟨e1, e2, e3⟩ := callExecute_em hce
      refine ⟨⟨hs2, by rw [e1]; exact hI.exact, by rw [e1]; exact hI.lock⟩, ?_, ?_, ?_⟩
      · rw [e3]; intro sm hsm; cases hsm
      · intro hj; show BufL L w2.pm; rw [e2]; exact hj
      · rw [e3]; intro _ hsome; obtain ⟨sm, hsm, _⟩ := hsome; cases hsm
    | fc m =>
      obtain ⟨e1, e2, e3⟩ := callExecute_fc hce
      refine ⟨⟨hs2, by rw [e1]; exact hI.exact, by rw [e1]; exact hI.lock⟩, ?_, ?_, ?_⟩
      · rw [e3]; intro sm hsm; cases hsm
      · intro hj; show BufL L w2.pm; rw [e2]; exact hj
      · rw [e3]; intro _ hsome; obtain ⟨sm, hsm, _⟩ := hsome; cases hsm
  · intro w w2 c id resp hI hJ hcr
    obtain ⟨hs2, hmsg2⟩ := (sinv_lift env0).reply hI.sinv hcr
    obtain ⟨e1, hc⟩ := callReply_cases hcr
    have hI2 : EInv env0 L w2 := ⟨hs2, by rw [e1]; exact hI.exact, by rw [e1]; exact hI.lock⟩
    rcases hc with ⟨hc, s, hr, rfl⟩ | ⟨hc, e2, e3⟩
    · obtain ⟨hb, hsub⟩ := pmReply_extra (hJ hc) hr
      have hnone : BufL L ({ w with pm := s } : World).pm := by
        intro b hb'
        rw [hb] at hb'
        cases hb'
      exact ⟨hI2, fun sm hsm => ⟨hmsg2 sm hsm, (hsub sm hsm).1⟩, fun _ => hnone, fun _ => hnone⟩
    · refine ⟨hI2, ?_, fun h => absurd h hc, ?_⟩
      · rw [e3]; intro sm hsm; cases hsm
      · intro hj; show BufL L w2.pm; rw [e2]; exact hj

/-- any admissible message executed from a state satisfying the invariant leads to one satisfying it -/
theorem einv_exec {env0 : FmEnv} {L : Option String} {w w' : World} {sender : Addr} {m : Msg} {fuel : Nat}
    (hI : EInv env0 L w) (hok : OkL L sender m) (h : execMsg fuel w sender m = .ok w') : EInv env0 L w' :=
  ((lift_run2 (einv_lift env0 L) fuel).1 _ _ _ _ h hI hok).1

/-! ### one transaction -/

/-- transactions that keep positions whole, read on the farm manager's state before the transaction -/
def WholeTx (s : FmState) : Tx → Prop
  | .exec _ _ (.fm m) _ => WholeFm s m
  | .exec _ _ (.pm (.provideLiquidity _ _ _ _ unlocking lockId)) _ =>
      unlocking = none ∨ lockId = none ∨ ∃ i, lockId = some i ∧ s.getPosition i = none
  | _ => True

/-- the lock identifier a top-level message brings into its transaction -/
def lockOf : ContractMsg → Option String
  | .pm (.provideLiquidity _ _ _ _ u l) => if u.isSome = true then l else none
  | _ => none

theorem fundsMove_bank {w w1 : World} {sender c : Addr} {funds : List Coin}
    (h : (if funds.isEmpty then pure w else do
        let b ← w.bank.send sender c funds
        pure { w with bank := b }) = (.ok w1 : R World)) : ∃ b, w1 = { w with bank := b } := by
  split at h
  · simp only [pure_ok] at h; subst h; exact ⟨_, rfl⟩
  · obtain ⟨b, hb, h⟩ := bind_ok.mp h
    simp only [pure_ok] at h; subst h; exact ⟨b, rfl⟩

/-- a successful top-level call of the farm manager (other than a configuration update) -/
theorem exact_top_fm {env0 : FmEnv} {w w' : World} {sender c : Addr} {m : FmMsg} {funds : List Coin} {n : Nat}
    (hs : isContract sender = false) (hI : EInv env0 none w) (hnc : ∀ u, m ≠ .updateConfig u)
    (hwh : WholeFm w.fm m)
    (hx : execMsg (n + 1) w sender (.wasmExec c (.fm m) funds) = .ok w') : EInv env0 none w' := by
  obtain ⟨hsf, hsp⟩ := ext_ne hs
  have hmo : MsgOk sender (.wasmExec c (.fm m) funds) :=
    msgOk_external hs (fun u e => hnc u (by cases e; rfl)) (fun m' e => by cases e)
  obtain ⟨w1, w2, resp, hw1, hce, hsubs⟩ := SysPools.wasm_inv hx
  obtain ⟨b, rfl⟩ := fundsMove_bank hw1
  have hI1 : EInv env0 none ({ w with bank := b } : World) := (einv_lift env0 none).bankI w b hI
  obtain ⟨hs2, hmsg2⟩ := (sinv_lift env0).exec hI1.sinv hmo hce
  obtain ⟨rfl, s, hr, rfl⟩ := callExecute_fm hce
  have hself := hI.sinv.self_eq
  have hsends : ∀ sm ∈ resp.msgs, OkL none FM sm.msg := fun sm hsm =>
    ⟨hmsg2 sm hsm, extra_send (SysPm.fmExecute_sends hr sm hsm)⟩
  have henv : ({ w with bank := b } : World).fmEnv = env0 := hI1.sinv.env
  rw [henv] at hr
  have hr' : fmExecute w.fm env0 sender funds m = .ok (s, resp) := hr
  have hcall : FmCallOk env0.self w.fm sender m := by
    cases m with
    | createPosition id u rc =>
      cases rc with
      | none => trivial
      | some rc =>
        intro hp
        exact absurd (hp.trans hI.sinv.pmAddr) hsp
    | _ => trivial
  have hx2 : ExactF s FM := by
    rw [← hself]
    exact fmExecute_exact hI.sinv.finv (by rw [hself]; exact hI.exact) (by rw [hself]; exact hsf) hcall hwh hr'
  have hI2 : EInv env0 none ({ ({ w with bank := b } : World) with fm := s } : World) :=
    ⟨hs2, hx2, fun i hi => by cases hi⟩
  exact ((lift_run2 (einv_lift env0 none) n).2 _ _ _ _ hsubs hI2 hsends
    (Or.inl (fun hc => absurd hc.symm PM_ne_FM))).1

/-- a successful top-level contract call by an account -/
theorem exact_exec {w w' : World} {sender c : Addr} {msg : ContractMsg} {funds : List Coin} {k : Option Nat}
    (hs : isContract sender = false) (h : WCore w) (hx : ExactF w.fm FM) (hpm : w.fm.config.poolManager = PM)
    (hwh : WholeTx w.fm (.exec sender c msg funds))
    (hrun : execMsg FUEL { w with bank := { w.bank with calls := 0, failAt := k } } sender
      (.wasmExec c msg funds) = .ok w') : ExactF w'.fm FM := by
  have hS : SInv w.fmEnv { w with bank := { w.bank with calls := 0, failAt := k } } :=
    ⟨rfl, hpm, h.finv, h.wf, h.buf⟩
  cases msg with
  | em m =>
    rw [FUEL_succ] at hrun
    obtain ⟨_, e⟩ := top_em hrun
    rw [e]; exact hx
  | fm m =>
    by_cases h1 : ∃ u, m = .updateConfig u
    · obtain ⟨u, rfl⟩ := h1
      rw [FUEL_succ] at hrun
      obtain ⟨ho, _⟩ := top_fm_config hrun
      exact exactF_of_eq (s := w.fm) ho.hist ho.positions hx
    · rw [FUEL_succ] at hrun
      exact (exact_top_fm hs ⟨hS, hx, fun i hi => by cases hi⟩ (fun u e => h1 ⟨u, e⟩) hwh hrun).exact
  | pm m =>
    have hok : OkL (lockOf (.pm m)) sender (.wasmExec c (.pm m) funds) := by
      refine ⟨msgOk_external hs (fun u e => by cases e) (fun m' e => by cases e), ?_⟩
      cases m with
      | provideLiquidity a b rc d u l =>
        intro hu
        show l = if u.isSome = true then l else none
        rw [if_pos hu]
      | _ => trivial
    have hlock : LockFree (lockOf (.pm m)) w.fm := by
      intro i hi
      cases m with
      | provideLiquidity a b rc d u l =>
        have hi' : (if u.isSome = true then l else none) = some i := hi
        cases u with
        | none => simp at hi'
        | some uu =>
          simp only [Option.isSome_some, if_true] at hi'
          subst hi'
          rcases hwh with e | e | ⟨i', e, hg⟩
          · cases e
          · cases e
          · cases e; exact hg
      | _ => cases hi
    exact (einv_exec ⟨hS, hx, hlock⟩ hok hrun).exact
  | fc m =>
    have hok : OkL none sender (.wasmExec c (.fc m) funds) :=
      ⟨msgOk_external hs (fun u e => by cases e) (fun m' e => by cases e), trivial⟩
    exact (einv_exec ⟨hS, hx, fun i hi => by cases hi⟩ hok hrun).exact

/-- one transaction -/
theorem exact_step_core (w : World) (tx : Tx) (k : Option Nat) (hext : C05Sys.External tx)
    (hpm : w.fm.config.poolManager = PM) (h : WCore w) (hx : ExactF w.fm FM) (hwh : WholeTx w.fm tx) :
    ExactF (step w tx k).fm FM := by
  unfold step
  cases hr : runTx w tx k with
  | error e => exact hx
  | ok w' =>
    simp only
    cases tx with
    | exec sender c msg funds => exact exact_exec hext.1 h hx hpm hwh hr
    | send frm to coins =>
      simp only [runTx] at hr
      have hI : EInv w.fmEnv none { w with bank := { w.bank with calls := 0, failAt := k } } :=
        ⟨⟨rfl, hpm, h.finv, h.wf, h.buf⟩, hx, fun i hi => by cases hi⟩
      exact (einv_exec hI (m := .bankSend to coins) ⟨trivial, trivial⟩ hr).exact
    | advance ns =>
      simp only [runTx, Except.ok.injEq] at hr
      subst hr
      exact hx

end MantraDex.ExactW
