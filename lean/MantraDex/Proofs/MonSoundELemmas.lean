/-
  Helper lemmas for Properties/MonSoundE.lean (soundness of the round-8 monitors with respect to the model).
-/
import MantraDex.Model.System
import MantraDex.Model.HistMon
import MantraDex.Properties.C08Tx
import MantraDex.Properties.C09Sys
import MantraDex.Properties.C12Sys
import MantraDex.Properties.C14
import MantraDex.Proofs.PosTxClose
import MantraDex.Proofs.PoolTxLemmas
import MantraDex.Proofs.QSysTx
import MantraDex.Proofs.QSysRoute

set_option linter.unusedSimpArgs false
set_option linter.unusedVariables false

namespace MantraDex.MonSoundEL
open MantraDex

/-- a monitor raises no alarm when every clause holds -/
theorem firstFail_none (xs : List (Bool × String)) (h : ∀ x ∈ xs, x.1 = true) : firstFail xs = none := by
  unfold firstFail
  have : xs.filter (fun x => !x.1) = [] := by
    rw [List.filter_eq_nil_iff]
    intro x hx
    simp [h x hx]
  simp [this]

/-! ### ClosePosition: whatever is in the store afterwards was there before, is open, or unlocks at the computed instant -/

/-- saving a position adds at most that position -/
theorem mem_save {s : FmState} {q p : Position} (h : p ∈ (s.savePosition q).positions) : p = q ∨ p ∈ s.positions := by
  by_cases hany : s.positions.any (·.id == q.id) = true
  · rcases (PosTx.mem_save_existing hany).1 h with h | h
    · exact Or.inl h
    · exact Or.inr h.1
  · have hnew : s.positions.any (·.id == q.id) = false := by simpa using hany
    exact (PosTx.mem_save_new hnew).1 h

/-- every position stored after an accepted ClosePosition of `p` was stored before, or is open, or is closed with
    `expiringAt = ⌊(block time + p.unlocking seconds) / 10^9⌋` — no invariant of the pre-state is needed -/
theorem close_position_members {w w' : World} {u : Addr} {id : String} {lp : Option Coin} {funds : List Coin}
    {k : Option Nat} {p : Position} (hp : w.fm.getPosition id = some p)
    (h : runTx w (.exec u FM (.fm (.closePosition id lp)) funds) k = .ok w') :
    ∀ q ∈ w'.fm.positions, q ∈ w.fm.positions ∨ q.open_ = true ∨
      q.expiringAt = some ((w.nowNs + p.unlocking * NANOS) / NANOS) := by
  obtain ⟨b, s, r, hb, hx, rfl⟩ := PosTx.fm_nomsg_run h (by
    intro s r hx
    simp only [fmExecute] at hx
    exact (PosTx.closePosition_inv hp hx).2.2.2.1)
  simp only [fmExecute] at hx
  obtain ⟨_, _, hopen, _, hout⟩ := PosTx.closePosition_inv hp hx
  have hnow : w.fmEnv.nowNs = w.nowNs := rfl
  rw [hnow] at hout
  intro q hq
  have hq : q ∈ s.positions := hq
  rcases hout with ⟨s2, hs2, hs⟩ | ⟨c, s2, rfl, _, _, h12, h34⟩
  · rw [hs.1] at hq
    rcases mem_save hq with rfl | hq
    · exact Or.inr (Or.inr rfl)
    · rw [hs2.1] at hq
      exact Or.inl hq
  · rw [h34.1] at hq
    rcases mem_save hq with rfl | hq
    · exact Or.inr (Or.inl hopen)
    · rw [h12.1] at hq
      rcases mem_save hq with rfl | hq
      · exact Or.inr (Or.inr rfl)
      · exact Or.inl hq

theorem expiry_seconds (now d : Nat) : (now + d * NANOS) / NANOS = now / NANOS + d :=
  Nat.add_mul_div_right now d (by decide)

/-! ### ProvideLiquidity with one coin: the handler accepted on the pre-state -/

theorem single_tx_handler {w w' : World} {u : Addr} {c : Coin} {ls ss : Option Nat} {recv : Option Addr} {pid : String}
    {ul : Option Nat} {l : Option String} {k : Option Nat}
    (h : runTx w (.exec u PM (.pm (.provideLiquidity ls ss recv pid ul l)) [c]) k = .ok w') :
    ∃ env s r, provideLiquidity w.pm env u [c] ls ss recv pid ul l = .ok (s, r) := by
  unfold runTx at h
  simp only at h
  have h64 : FUEL = 63 + 1 := rfl
  rw [h64] at h
  obtain ⟨b, s, r, _, hx, _⟩ := PoolTx.execMsg_pm_any h
  exact ⟨_, s, r, hx⟩

/-! ### routes -/

/-- `assert_operations` accepted: hop `k + 1` takes what hop `k` delivers, in `getElem?` form -/
theorem assertOperations_link {ops : List SwapOp} (h : assertOperations ops = .ok ()) {k : Nat} {a b : SwapOp}
    (ha : ops[k]? = some a) (hb : ops[k + 1]? = some b) : b.tokenIn = a.tokenOut := by
  obtain ⟨hk1, rfl⟩ := List.getElem?_eq_some_iff.1 hb
  obtain ⟨hk, rfl⟩ := List.getElem?_eq_some_iff.1 ha
  exact (QSys.assertOperations_chain h k hk1).symm

end MantraDex.MonSoundEL
