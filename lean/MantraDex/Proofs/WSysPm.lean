/-
  C10Sys, part 6: the side condition on messages (`MsgOk`) that keeps the farm manager's address out of
  the receivers of positions, and the pool manager's part of it: every message the pool manager emits
  satisfies the condition, and a pending single-asset deposit that will lock LP never names the farm
  manager as receiver.
-/
import MantraDex.Model.System
import MantraDex.Proofs.NumLemmas
import MantraDex.Proofs.ProvideLemmas
import MantraDex.Proofs.HandlerLemmas

set_option linter.unusedSimpArgs false
set_option linter.unusedVariables false

namespace MantraDex.WSys
open MantraDex

/-! ### the side condition -/

/-- farm-manager messages: no configuration change inside the runtime lift (handled at top level), and
    the pool manager never locks for the farm manager's own address -/
def FmMsgOk (sender : Addr) : FmMsg → Prop
  | .updateConfig _ => False
  | .createPosition _ _ (some rc) => sender = PM → rc ≠ FM
  | _ => True

/-- pool-manager messages: the self-call of a single-asset deposit that locks names a receiver ≠ FM -/
def PmMsgOk (sender : Addr) : PmMsg → Prop
  | .provideLiquidity _ _ (some rc) _ u _ => sender = PM → u.isSome = true → rc ≠ FM
  | _ => True

def EmMsgOk : EmMsg → Prop
  | .updateConfig _ => False
  | _ => True

def CmOk (sender : Addr) : ContractMsg → Prop
  | .fm m => FmMsgOk sender m
  | .pm m => PmMsgOk sender m
  | .em m => EmMsgOk m
  | .fc _ => True

/-- a message `m` sent by `sender` is admissible -/
def MsgOk (sender : Addr) : Msg → Prop
  | .wasmExec _ cm _ => sender ≠ FM ∧ CmOk sender cm
  | _ => True

/-- not a contract call -/
def NoWasm : Msg → Prop
  | .wasmExec .. => False
  | _ => True

theorem NoWasm.ok {sender : Addr} {m : Msg} (h : NoWasm m) : MsgOk sender m := by
  cases m <;> first | trivial | exact absurd h id

theorem PM_ne_FM : PM ≠ FM := by decide

theorem msgOk_map {c : Addr} {ms : List Msg} (h : ∀ m ∈ ms, MsgOk c m) :
    ∀ sm ∈ ms.map (fun m => ({ msg := m } : SubMsg)), MsgOk c sm.msg := by
  intro sm hsm
  obtain ⟨m, hm, rfl⟩ := List.mem_map.1 hsm
  exact h m hm

theorem msgOk_append {c : Addr} {xs ys : List Msg} (hx : ∀ m ∈ xs, MsgOk c m) (hy : ∀ m ∈ ys, MsgOk c m) :
    ∀ m ∈ xs ++ ys, MsgOk c m := by
  intro m h
  rcases List.mem_append.1 h with h | h
  · exact hx m h
  · exact hy m h

theorem msgOk_opt {c : Addr} {p : Prop} [Decidable p] {m : Msg} (hm : NoWasm m := by trivial) :
    ∀ m' ∈ (if p then [m] else []), MsgOk c m' := by
  intro m' h
  split at h
  · simp only [List.mem_singleton] at h; subst h; exact hm.ok
  · cases h

theorem msgOk_single {c : Addr} {m : Msg} (hm : MsgOk c m) : ∀ m' ∈ [m], MsgOk c m' := by
  intro m' h
  simp only [List.mem_singleton] at h; subst h; exact hm

/-! ### the pending single-asset deposit -/

/-- a buffered deposit that will lock LP does not name the farm manager as the receiver -/
def BufOk (s : PmState) : Prop :=
  ∀ b, s.buffer = some b → b.unlocking.isSome = true → b.receiver ≠ FM

theorem bufOk_of_eq {s s' : PmState} (h : s'.buffer = s.buffer) (hb : BufOk s) : BufOk s' := by
  intro b hb'; rw [h] at hb'; exact hb b hb'

/-! ### multi-asset deposit: the shape of the lock message -/

theorem plTail_msgs {s s' : PmState} {env : PmEnv} {sender : Addr} {pool : PoolInfo} {deposits : List Coin}
    {ls : Option Nat} {recv : Addr} {u : Option Nat} {l : Option String} {shares : Nat}
    {msgs0 : List Msg} {r : Response}
    (h : plTail s env sender pool deposits ls recv u l shares msgs0 = .ok (s', r)) :
    s'.buffer = s.buffer ∧
    ∃ msgs1, r.msgs = (msgs0 ++ msgs1).map (fun m => ({ msg := m } : SubMsg)) ∧
      (∀ m ∈ msgs1, IsMint m ∨
        (∃ pid fs, m = .wasmExec s.config.farmManager (.fm (.expandPosition pid)) fs) ∨
        (∃ id uu fs, m = .wasmExec s.config.farmManager (.fm (.createPosition id uu (some recv))) fs ∧
          (recv == sender || sender == env.self) = true ∧ u.isSome = true)) := by
  unfold plTail at h
  simp only [] at h
  obtain ⟨pa', hpa, h⟩ := bind_ok.mp h
  clear hpa
  cases u with
  | none =>
    simp only [↓ite_err_bind_ok, ↓pure_bind'] at h
    obtain ⟨hv, h⟩ := h
    obtain ⟨as', has, h⟩ := bind_ok.mp h
    simp only [pure_ok, Prod.mk.injEq] at h
    obtain ⟨rfl, rfl⟩ := h
    refine ⟨savePool_buffer _ _, _, rfl, ?_⟩
    intro m hm
    simp only [List.mem_singleton] at hm
    exact Or.inl ⟨_, _, hm⟩
  | some uu =>
    simp only [↓ite_err_bind_ok] at h
    obtain ⟨hauth, h⟩ := h
    have hauth' : (recv == sender || sender == env.self) = true := by
      revert hauth; cases (recv == sender || sender == env.self) <;> simp
    have hfin : ∀ lockMsg,
        ((∃ pid fs, lockMsg = Msg.wasmExec s.config.farmManager (.fm (.expandPosition pid)) fs) ∨
         (∃ id uu fs, lockMsg = Msg.wasmExec s.config.farmManager (.fm (.createPosition id uu (some recv))) fs ∧
          (recv == sender || sender == env.self) = true ∧ (some uu : Option Nat).isSome = true)) →
        ∀ m ∈ [Msg.tfMint ⟨pool.lpDenom, shares⟩ env.self, lockMsg], IsMint m ∨
        (∃ pid fs, m = .wasmExec s.config.farmManager (.fm (.expandPosition pid)) fs) ∨
        (∃ id uu fs, m = .wasmExec s.config.farmManager (.fm (.createPosition id uu (some recv))) fs ∧
          (recv == sender || sender == env.self) = true ∧ (some uu : Option Nat).isSome = true) := by
      intro lockMsg hl m hm
      simp only [List.mem_cons, List.mem_singleton, List.not_mem_nil, or_false] at hm
      rcases hm with rfl | rfl
      · exact Or.inl ⟨_, _, rfl⟩
      · exact Or.inr hl
    cases l with
    | none =>
      simp only [↓pure_bind'] at h
      obtain ⟨as', has, h⟩ := bind_ok.mp h
      simp only [pure_ok, Prod.mk.injEq] at h
      obtain ⟨rfl, rfl⟩ := h
      exact ⟨savePool_buffer _ _, _, rfl, hfin _ (Or.inr ⟨_, _, _, rfl, hauth', rfl⟩)⟩
    | some lid =>
      simp only [] at h
      cases hfm : env.fmPosition lid with
      | none =>
        rw [hfm] at h
        simp only [↓pure_bind'] at h
        obtain ⟨as', has, h⟩ := bind_ok.mp h
        simp only [pure_ok, Prod.mk.injEq] at h
        obtain ⟨rfl, rfl⟩ := h
        exact ⟨savePool_buffer _ _, _, rfl, hfin _ (Or.inr ⟨_, _, _, rfl, hauth', rfl⟩)⟩
      | some pos =>
        obtain ⟨pid', pr⟩ := pos
        rw [hfm] at h
        simp only [↓ite_err_bind_ok, ↓pure_bind'] at h
        obtain ⟨hown, h⟩ := h
        obtain ⟨as', has, h⟩ := bind_ok.mp h
        simp only [pure_ok, Prod.mk.injEq] at h
        obtain ⟨rfl, rfl⟩ := h
        exact ⟨savePool_buffer _ _, _, rfl, hfin _ (Or.inl ⟨_, _, rfl⟩)⟩

theorem mint_ok {c : Addr} {m : Msg} (h : IsMint m) : MsgOk c m := by
  obtain ⟨x, a, rfl⟩ := h; trivial

/-- the receiver a deposit resolves to is not the farm manager when it matters -/
theorem recv_ne_FM {env : PmEnv} {sender : Addr} {rc : Option Addr} (hs : sender ≠ FM)
    (hrc : ∀ r, rc = some r → r ≠ FM) : addrOrDefault env rc sender ≠ FM := by
  unfold addrOrDefault
  cases rc with
  | none => exact hs
  | some r =>
    simp only
    split
    · exact hrc r rfl
    · exact hs

/-! ### the pool manager's `execute` and `reply` -/

theorem pmExecute_ok {s s' : PmState} {env : PmEnv} {sender : Addr} {funds : List Coin} {m : PmMsg}
    {r : Response} (henv : env.self = PM) (hs : sender ≠ FM) (hm : PmMsgOk sender m) (hb : BufOk s)
    (h : pmExecute s env sender funds m = .ok (s', r)) :
    BufOk s' ∧ ∀ sm ∈ r.msgs, MsgOk PM sm.msg := by
  cases m with
  | createPool denoms decimals fees pt id =>
    simp only [pmExecute] at h
    obtain ⟨counter, pool, lpSym, totalFees, -, -, -, -, rfl, hmsgs⟩ := createPool_ok h
    refine ⟨bufOk_of_eq (savePool_buffer _ _) hb, ?_⟩
    rw [hmsgs]
    exact msgOk_map (msgOk_append (msgOk_opt) (msgOk_single (NoWasm.ok (by trivial))))
  | provideLiquidity ls ss rc pid u l =>
    simp only [pmExecute] at h
    obtain ⟨deps, hagg, hne⟩ := pl_agg h
    by_cases hlen : deps.length = 1
    · -- single-asset deposit: the buffer is written, the inner swap is a self-call
      obtain ⟨c, rfl⟩ : ∃ c, deps = [c] := by
        match deps, hlen with
        | [c], _ => exact ⟨c, rfl⟩
      obtain ⟨pool, ask, sim, -, hguard, -, -, -, rfl, hmsgs⟩ := pl_single hagg h
      refine ⟨?_, ?_⟩
      · intro b hb' hu
        simp only [Option.some.injEq] at hb'
        subst hb'
        simp only at hu ⊢
        rw [hu] at hguard
        have : addrOrDefault env rc sender = sender := by simpa using hguard
        rw [this]; exact hs
      · rw [hmsgs]
        intro sm hsm
        simp only [List.mem_singleton] at hsm
        subst hsm
        exact ⟨PM_ne_FM, trivial⟩
    · obtain ⟨pool, sh, m0, hp, hm0, ht⟩ := pl_multi hagg hlen h
      obtain ⟨hbuf, msgs1, hmsgs, hshape⟩ := plTail_msgs ht
      refine ⟨bufOk_of_eq hbuf hb, ?_⟩
      rw [hmsgs]
      apply msgOk_map
      apply msgOk_append (fun m hm => mint_ok (hm0 m hm))
      intro m hm1
      rcases hshape m hm1 with hmint | ⟨pid', fs, rfl⟩ | ⟨id', uu, fs, rfl, hauth, hu⟩
      · exact mint_ok hmint
      · exact ⟨PM_ne_FM, trivial⟩
      · refine ⟨PM_ne_FM, fun _ => ?_⟩
        simp only [Bool.or_eq_true, beq_iff_eq] at hauth
        rcases hauth with e | e
        · rw [e]; exact hs
        · -- the self-call of a single-asset deposit
          have hsp : sender = PM := by rw [e, henv]
          apply recv_ne_FM hs
          intro r' hr'
          subst hr'
          exact hm hsp hu
  | swap ask b ms rc pid =>
    simp only [pmExecute] at h
    obtain ⟨offer, sr, -, hps, hmsgs⟩ := C04.swapHandler_messages h
    refine ⟨bufOk_of_eq (performSwap_buffer hps) hb, ?_⟩
    rw [hmsgs]
    exact msgOk_map (msgOk_append (msgOk_append (msgOk_opt) (msgOk_opt)) (msgOk_opt))
  | withdrawLiquidity pid =>
    simp only [pmExecute] at h
    obtain ⟨pool, amount, refunds, assets', -, -, -, rfl, hmsgs⟩ := withdraw_ok h
    refine ⟨bufOk_of_eq (savePool_buffer _ _) hb, ?_⟩
    rw [hmsgs]
    apply msgOk_map
    intro m hm
    simp only [List.mem_cons, List.mem_singleton, List.not_mem_nil, or_false] at hm
    rcases hm with rfl | rfl <;> trivial
  | execSwapOps ops mr rc ms =>
    simp only [pmExecute] at h
    obtain ⟨first, last, amount, out, fm, -, -, -, hroute, hmsgs⟩ := execSwapOps_ok h
    refine ⟨bufOk_of_eq (routeHops_buffer hroute) hb, ?_⟩
    rw [hmsgs]
    apply msgOk_map
    apply msgOk_append (msgOk_opt)
    intro m hm
    have := (C04.routeHops_fee_msgs (by intro m hm; cases hm) trivial hroute).2 m hm
    rcases this with ⟨cs, rfl⟩ | ⟨cs, rfl⟩ <;> trivial
  | updateConfig fc fm cf t =>
    obtain ⟨-, hr, hbf, -⟩ := pmExecute_config_ok (Or.inl ⟨_, _, _, _, rfl⟩) h
    exact ⟨bufOk_of_eq hbf hb, by rw [hr]; intro sm hsm; cases hsm⟩
  | updateOwnership a =>
    obtain ⟨-, hr, hbf, -⟩ := pmExecute_config_ok (Or.inr ⟨_, rfl⟩) h
    exact ⟨bufOk_of_eq hbf hb, by rw [hr]; intro sm hsm; cases hsm⟩

theorem pmReply_ok {s s' : PmState} {env : PmEnv} {id : Nat} {r : Response} (henv : env.self = PM)
    (hb : BufOk s) (h : pmReply s env id = .ok (s', r)) :
    BufOk s' ∧ ∀ sm ∈ r.msgs, MsgOk PM sm.msg := by
  unfold pmReply at h
  split at h
  next hid =>
    split at h
    next => cases h
    next b hbuf =>
      split at h
      · cases h
      · split at h
        · cases h
        · cases h
          refine ⟨?_, ?_⟩
          · intro b' hb'; cases hb'
          · intro sm hsm
            simp only [Response.ofMsgs, List.map_cons, List.map_nil, List.mem_singleton] at hsm
            subst hsm
            exact ⟨PM_ne_FM, fun _ hu => hb b hbuf hu⟩
  next => cases h

end MantraDex.WSys
