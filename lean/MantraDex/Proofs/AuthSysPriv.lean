/-
  Privileged state of the four contracts through the runtime (`Properties/C15Sys.lean`):
  * `frame_or_direct`: for a condition `Q` on contract messages that every *emitted* call satisfies, a
    transaction either relates the worlds by `G`, or it IS a top-level message violating `Q` whose handler
    succeeded;
  * the pool manager's relation (configuration, ownership, per-pool switches) for non-privileged messages;
  * the farm manager's relation (configuration, ownership) for non-privileged messages.
-/
import MantraDex.Proofs.AuthSysShapes
import MantraDex.Proofs.SysLemmasSingle
import MantraDex.Proofs.FmSysLemmas
import MantraDex.Properties.C15

set_option linter.unusedSimpArgs false
set_option linter.unusedVariables false

namespace MantraDex.AuthSys
open MantraDex SysPm

/-- `Ok` for a state-independent condition on contract messages -/
abbrev OkQ (Q : ContractMsg → Prop) : World → Addr → Msg → Prop :=
  fun _ _ m => ∀ c msg funds, m = .wasmExec c msg funds → Q msg

theorem frame_or_direct {Inv : World → Prop} {G : World → World → Prop} {Q : ContractMsg → Prop}
    (hQ : ∀ c msg funds, Emitted (.wasmExec c msg funds) → Q msg)
    (L : Lift Inv G (OkQ Q)) (time : ∀ (w : World) (n : Nat), G w { w with nowNs := n })
    (w : World) (tx : Tx) (k : Option Nat) (hinv : Inv w) :
    G w (step w tx k) ∨
    ∃ sender c msg funds b w2 resp, tx = .exec sender c msg funds ∧ ¬ Q msg ∧
      callExecute { w with bank := b } c sender funds msg = .ok (w2, resp) ∧
      (Inv w2 → G w2 (step w tx k)) ∧ (resp.msgs = [] → step w tx k = w2) := by
  by_cases hq : ∀ sender c msg funds, tx = .exec sender c msg funds → Q msg
  · left
    apply step_lift L time w tx k hinv
    intro sender c msg funds he c' msg' funds' he'
    cases he'
    exact hq _ _ _ _ he
  · have : ∃ sender c msg funds, tx = .exec sender c msg funds ∧ ¬ Q msg := by
      apply Classical.byContradiction
      intro hn
      apply hq
      intro sender c msg funds he
      apply Classical.byContradiction
      intro hnq
      exact hn ⟨sender, c, msg, funds, he, hnq⟩
    obtain ⟨sender, c, msg, funds, rfl, hnq⟩ := this
    unfold step
    cases hr : runTx w (.exec sender c msg funds) k with
    | error e => exact Or.inl (L.refl _)
    | ok w' =>
      right
      simp only [runTx] at hr
      rw [show FUEL = 63 + 1 from rfl] at hr
      obtain ⟨w1, w2, resp, hw1, hce, hsubs⟩ := SysPools.wasm_inv hr
      have hb : ∃ b, w1 = { w with bank := b } := by
        split at hw1
        · simp only [pure_ok] at hw1; subst hw1; exact ⟨_, rfl⟩
        · obtain ⟨b, hb, hw1⟩ := bind_ok.mp hw1
          simp only [pure_ok] at hw1; subst hw1; exact ⟨_, rfl⟩
      obtain ⟨b, rfl⟩ := hb
      refine ⟨sender, c, msg, funds, b, w2, resp, rfl, hnq, hce, ?_, ?_⟩
      · intro hi2
        refine ((run_lift L 63).2 _ _ _ _ hsubs hi2 ?_).2
        intro sm hsm c' msg' funds' he
        have := callExecute_emitted hce sm hsm
        rw [he] at this
        exact hQ _ _ _ this
      · intro hnil
        rw [hnil] at hsubs
        exact subs_nil hsubs

/-! ### cw-ownable -/

/-- who may send an ownership action (same as `C15Sys.mayOwn`) -/
def MayOwn (o : Ownership) (sender : Addr) : OwnAction → Prop
  | .transfer _ _ => o.owner = some sender
  | .renounce => o.owner = some sender
  | .accept => o.pending = some sender

theorem update_mayOwn {o o' : Ownership} {v : Addr → Bool} {now : Nat} {sender : Addr} {a : OwnAction}
    (h : o.update v now sender a = .ok o') : MayOwn o sender a := by
  cases a with
  | transfer n e => exact C15.transfer_and_renounce_require_owner h (by intro e; cases e)
  | renounce => exact C15.transfer_and_renounce_require_owner h (by intro e; cases e)
  | accept =>
    simp only [Ownership.update] at h
    split at h
    · cases h
    · next p hp =>
      split at h
      · cases h
      · next hps =>
        have hps : p = sender := by simpa using hps
        subst hps
        exact hp

/-! ### pool manager -/

/-- privileged pool-manager messages -/
def PmPriv : PmMsg → Prop
  | .updateConfig .. => True
  | .updateOwnership _ => True
  | _ => False

theorem pmPriv_iff {m : PmMsg} :
    PmPriv m ↔ (∃ fc fm fee t, m = .updateConfig fc fm fee t) ∨ (∃ a, m = .updateOwnership a) := by
  cases m <;> simp [PmPriv]

def StatusKept (s s' : PmState) : Prop :=
  ∀ p ∈ s.pools, ∃ p' ∈ s'.pools, p'.id = p.id ∧ p'.status = p.status

def IdsNodup (s : PmState) : Prop := (s.pools.map (·.id)).Nodup

/-- identifiers stay distinct and every pool keeps its switches -/
def SK (s s' : PmState) : Prop := IdsNodup s → IdsNodup s' ∧ StatusKept s s'

theorem SK.refl (s : PmState) : SK s s := fun h => ⟨h, fun p hp => ⟨p, hp, rfl, rfl⟩⟩

theorem SK.trans {a b c : PmState} (h1 : SK a b) (h2 : SK b c) : SK a c := by
  intro ha
  obtain ⟨hb, k1⟩ := h1 ha
  obtain ⟨hc, k2⟩ := h2 hb
  refine ⟨hc, fun p hp => ?_⟩
  obtain ⟨p1, hp1, e1, e2⟩ := k1 p hp
  obtain ⟨p2, hp2, f1, f2⟩ := k2 p1 hp1
  exact ⟨p2, hp2, f1.trans e1, f2.trans e2⟩

theorem SK.of_pools {s s' : PmState} (h : s'.pools = s.pools) : SK s s' := by
  intro hn
  refine ⟨by unfold IdsNodup; rw [h]; exact hn, fun p hp => ⟨p, by rw [h]; exact hp, rfl, rfl⟩⟩

theorem sk_savePool {s : PmState} {pid : String} {p p' : PoolInfo} (hp : s.getPool pid = .ok p)
    (hid : p'.id = p.id) (hst : p'.status = p.status) : SK s (s.savePool p') := by
  intro hn
  have hpools := savePool_pools_of_getPool hp hid.symm
  obtain ⟨hmem, _⟩ := getPool_ok hp
  refine ⟨by unfold IdsNodup; rw [hpools, map_replace_ids]; exact hn, ?_⟩
  intro q hq
  rw [hpools]
  by_cases hqi : (q.id == p'.id) = true
  · have hqp : q = p := by
      apply FH.nodup_key_inj (fun x : PoolInfo => x.id) s.pools hn q hq p hmem
      show q.id = p.id
      rw [← hid]; simpa using hqi
    subst hqp
    refine ⟨p', ?_, hid, hst⟩
    apply List.mem_map.2
    exact ⟨q, hq, by simp [hqi]⟩
  · refine ⟨q, ?_, rfl, rfl⟩
    apply List.mem_map.2
    exact ⟨q, hq, by simp [hqi]⟩

theorem performSwap_sk {s s' : PmState} {offer : Coin} {ask : Denom} {pid : String}
    {b ms : Option Nat} {r : SwapResult} (h : performSwap s offer ask pid b ms = .ok (s', r)) :
    SK s s' := by
  obtain ⟨pool, c, oi, ai, x, y, hp, -, -, -, -, -, -, -, hrp, hs', -⟩ := C04.performSwap_ok h
  rw [hs']
  exact sk_savePool hp (by rw [hrp]) (by rw [hrp])

theorem routeHops_sk {s s' : PmState} {ms : Option Nat} {ops : List SwapOp}
    {prev out : Coin} {fees fees' : List Msg}
    (h : routeHops s ms ops prev fees = .ok (s', out, fees')) : SK s s' := by
  induction ops generalizing s prev fees with
  | nil =>
    rw [routeHops] at h
    simp only [Except.ok.injEq, Prod.mk.injEq] at h
    obtain ⟨rfl, -, -⟩ := h
    exact SK.refl _
  | cons op ops ih =>
    obtain ⟨s1, r, hps, h⟩ := C04.routeHops_cons h
    exact (performSwap_sk hps).trans (ih h)

/-- non-privileged pool-manager messages keep identifiers distinct and never touch a switch -/
theorem pmExecute_sk {s s' : PmState} {env : PmEnv} {sender : Addr} {funds : List Coin} {m : PmMsg}
    {r : Response} (h : pmExecute s env sender funds m = .ok (s', r)) (hm : ¬ PmPriv m) : SK s s' := by
  cases m with
  | createPool denoms decimals fees pt id =>
    simp only [pmExecute] at h
    obtain ⟨p, hfresh, hpools, -, -, -⟩ := createPool_pools h
    intro hn
    refine ⟨by unfold IdsNodup; rw [hpools]; exact insertPoolSorted_nodup hfresh hn, ?_⟩
    intro q hq
    exact ⟨q, by rw [hpools]; exact mem_insertPoolSorted.2 (Or.inr hq), rfl, rfl⟩
  | provideLiquidity ls ss rc pid u l =>
    simp only [pmExecute] at h
    obtain ⟨deps, hagg, hne⟩ := pl_agg h
    by_cases hlen : deps.length = 1
    · obtain ⟨c, rfl⟩ : ∃ c, deps = [c] := by
        match deps, hlen with
        | [c], _ => exact ⟨c, rfl⟩
      obtain ⟨pool', ask, sim, -, -, -, -, -, hs, -⟩ := pl_single hagg h
      exact SK.of_pools (by rw [hs])
    · obtain ⟨pool, sh, m0, hp, -, ht⟩ := pl_multi hagg hlen h
      obtain ⟨as', m1, -, hs, -⟩ := plTail_ok ht
      rw [hs]
      exact sk_savePool hp rfl rfl
  | swap ask b ms rc pid =>
    simp only [pmExecute] at h
    obtain ⟨offer, sr, -, hps, -⟩ := C04.swapHandler_messages h
    exact performSwap_sk hps
  | withdrawLiquidity pid =>
    simp only [pmExecute] at h
    obtain ⟨pool, amount, refunds, assets', hp, -, -, hs, -⟩ := withdraw_ok h
    rw [hs]
    exact sk_savePool hp rfl rfl
  | execSwapOps ops mr rc ms =>
    simp only [pmExecute] at h
    obtain ⟨first, last, amount, out, fm, -, -, -, hroute, -⟩ := execSwapOps_ok h
    exact routeHops_sk hroute
  | updateConfig fc fm cf t => exact absurd trivial hm
  | updateOwnership a => exact absurd trivial hm

/-- the pool manager's privileged state is untouched (same as `C15Sys.PmPrivSame`) -/
def PmSame (w w' : World) : Prop :=
  w'.pm.config = w.pm.config ∧ w'.pm.owner = w.pm.owner ∧ StatusKept w.pm w'.pm

def PmG (w w' : World) : Prop :=
  w'.pm.config = w.pm.config ∧ w'.pm.owner = w.pm.owner ∧ SK w.pm w'.pm

theorem PmG.of_pm {w w' : World} (h : w'.pm = w.pm) : PmG w w' := by
  refine ⟨by rw [h], by rw [h], ?_⟩
  rw [h]; exact SK.refl _

/-- condition on contract messages: not a privileged pool-manager message -/
def QPm : ContractMsg → Prop
  | .pm m => ¬ PmPriv m
  | _ => True

theorem qpm_emitted : ∀ c msg funds, Emitted (.wasmExec c msg funds) → QPm msg := by
  intro c msg funds h
  cases msg with
  | pm m => cases m <;> first | exact h.elim | exact fun hp => hp
  | fm m => trivial
  | em m => trivial
  | fc m => trivial

theorem pm_lift : Lift (fun _ => True) PmG (OkQ QPm) := by
  apply lift_simple qpm_emitted
  · exact fun w => PmG.of_pm rfl
  · intro a b c h1 h2
    exact ⟨h2.1.trans h1.1, h2.2.1.trans h1.2.1, h1.2.2.trans h2.2.2⟩
  · exact fun w b _ => ⟨trivial, PmG.of_pm rfl⟩
  · intro w w2 c sender funds msg resp _ hq hce
    refine ⟨trivial, ?_⟩
    rcases callExecute_cases hce with ⟨m, s, rfl, -, hx, rfl⟩ | ⟨m, s, -, -, -, rfl⟩ | ⟨m, s, -, -, -, rfl, -⟩ |
        ⟨a, o, -, -, -, -, rfl, -⟩
    · have hnp : ¬ PmPriv m := hq
      obtain ⟨h1, h2⟩ := C15.pm_config_changes_only_by_privileged hx
        ⟨fun h => hnp (pmPriv_iff.2 (Or.inl h)), fun h => hnp (pmPriv_iff.2 (Or.inr h))⟩
      exact ⟨h1, h2, pmExecute_sk hx hnp⟩
    · exact PmG.of_pm rfl
    · exact PmG.of_pm rfl
    · exact PmG.of_pm rfl
  · intro w w2 c id resp _ hcr
    refine ⟨trivial, ?_⟩
    rcases callReply_cases hcr with ⟨-, s, hx, rfl⟩ | ⟨-, rfl, -⟩
    · obtain ⟨b, -, hs, -⟩ := pmReply_shape hx
      subst hs
      exact ⟨rfl, rfl, SK.of_pools rfl⟩
    · exact PmG.of_pm rfl

/-- the pool manager's frame: untouched, or the transaction is a privileged message sent directly to the
    pool manager, without funds, and its handler accepted it -/
theorem pm_frame (w : World) (tx : Tx) (k : Option Nat) (hids : (w.pm.pools.map (·.id)).Nodup) :
    PmSame w (step w tx k) ∨
    ∃ sender m env r, tx = .exec sender PM (.pm m) [] ∧ PmPriv m ∧
      pmExecute w.pm env sender [] m = .ok r := by
  rcases frame_or_direct qpm_emitted pm_lift (fun w n => PmG.of_pm rfl) w tx k trivial with
    h | ⟨sender, c, msg, funds, b, w2, resp, rfl, hnq, hce, -, -⟩
  · exact Or.inl ⟨h.1, h.2.1, (h.2.2 hids).2⟩
  · right
    rcases callExecute_cases hce with ⟨m, s, rfl, rfl, hx, -⟩ | ⟨m, s, rfl, -⟩ | ⟨m, s, rfl, -⟩ |
        ⟨a, o, rfl, -⟩
    · have hp : PmPriv m := Classical.not_not.1 hnq
      have hf : funds = [] := (pmExecute_config_ok (pmPriv_iff.1 hp) hx).1
      subst hf
      exact ⟨sender, m, _, _, rfl, hp, hx⟩
    · exact absurd trivial hnq
    · exact absurd trivial hnq
    · exact absurd trivial hnq

/-! ### farm manager -/

def FmPriv : FmMsg → Prop
  | .updateConfig _ => True
  | .updateOwnership _ => True
  | _ => False

theorem fmPriv_iff {m : FmMsg} :
    FmPriv m ↔ (∃ u, m = .updateConfig u) ∨ (∃ a, m = .updateOwnership a) := by
  cases m <;> simp [FmPriv]

/-- configuration and ownership are untouched -/
def CO (s s' : FmState) : Prop := s'.config = s.config ∧ s'.owner = s.owner

theorem CO.refl (s : FmState) : CO s s := ⟨rfl, rfl⟩
theorem CO.trans {a b c : FmState} (h1 : CO a b) (h2 : CO b c) : CO a c :=
  ⟨h2.1.trans h1.1, h2.2.trans h1.2⟩

theorem savePosition_co (s : FmState) (p : Position) : CO s (s.savePosition p) := by
  unfold FmState.savePosition; split <;> exact ⟨rfl, rfl⟩

theorem saveFarm_co (s : FmState) (f : Farm) : CO s (s.saveFarm f) := by
  unfold FmState.saveFarm; split <;> exact ⟨rfl, rfl⟩

theorem updateWeights_co {s s' : FmState} {env : FmEnv} {recv : Addr} {lp : Denom}
    {amount unlocking : Nat} {fill : Bool}
    (h : updateWeights s env recv lp amount unlocking fill = .ok s') : CO s s' := by
  unfold updateWeights at h
  cases fill
  · simp only [bind_ok, fit_ok, pure_ok, Bool.false_eq_true, if_false] at h
    obtain ⟨cur, _, w, _, e, _, cw', _, uw', _, rfl⟩ := h
    exact ⟨rfl, rfl⟩
  · simp only [bind_ok, fit_ok, pure_ok, if_true, ckAdd_ok] at h
    obtain ⟨cur, _, w, _, e, _, cw', _, uw', _, rfl⟩ := h
    exact ⟨rfl, rfl⟩

theorem syncHistory_co {s s' : FmState} {a : Addr} {lp : Denom} {e : Nat} {save : Bool}
    (h : syncHistory s a lp e save = .ok s') : CO s s' := by
  unfold syncHistory at h
  simp only at h
  split at h
  · simp [error_bind] at h
  · split at h
    · simp only [pure_ok] at h; subst h; exact ⟨rfl, rfl⟩
    · split at h
      · simp only [pure_ok] at h; subst h; exact CO.refl _
      · simp only [pure_ok] at h; subst h; exact ⟨rfl, rfl⟩

theorem reconcileUserState_co {s s' : FmState} {env : FmEnv} {recv : Addr} {lp : Denom}
    (h : reconcileUserState s env recv lp = .ok s') : CO s s' := by
  unfold reconcileUserState at h
  simp only at h
  generalize hs1 : (if (s.positionsBy recv true).isEmpty = true then
      ({ s with lastClaimed := fun a => if a = recv then none else s.lastClaimed a } : FmState) else s)
      = s1 at h
  have h1 : CO s s1 := by subst hs1; split <;> exact ⟨rfl, rfl⟩
  split at h
  · simp only [bind_ok] at h
    obtain ⟨cur, _, h⟩ := h
    exact h1.trans (syncHistory_co h)
  · simp only [pure_ok] at h
    subst h; exact h1

theorem closeFarms_co (s : FmState) (fs : List Farm) : CO s (closeFarms s fs).1 := by
  rw [FH.closeFarms_eq]
  suffices ∀ st : FmState × List SubMsg, CO st.1 (fs.foldl FH.closeStep st).1 from this (s, [])
  induction fs with
  | nil => intro st; exact CO.refl _
  | cons f fs ih =>
    intro st
    rw [List.foldl_cons]
    refine CO.trans ?_ (ih _)
    unfold FH.closeStep; split <;> exact ⟨rfl, rfl⟩

theorem cfIdState_co (s1 : FmState) (p : FarmParams) : CO s1 (FH.cfIdState s1 p).2 := by
  unfold FH.cfIdState; split <;> exact ⟨rfl, rfl⟩

theorem createFarm_co {s s' : FmState} {env : FmEnv} {sender : Addr} {funds : List Coin}
    {p : FarmParams} {r : Response} (h : createFarm s env sender funds p = .ok (s', r)) : CO s s' := by
  obtain ⟨cur, flags, feeMsgs, start, end_, rate, -, -, -, -, -, -, -, -, -, rfl, -⟩ := FH.createFarm_inv h
  exact ((closeFarms_co _ _).trans (cfIdState_co _ _)).trans (saveFarm_co _ _)

theorem expandFarm_co {s s' : FmState} {env : FmEnv} {sender : Addr} {funds : List Coin}
    {p : FarmParams} {r : Response} (h : expandFarm s env sender funds p = .ok (s', r)) : CO s s' := by
  unfold expandFarm at h
  cases hid : p.farmId with
  | none => simp [hid, bind, Except.bind] at h
  | some fid =>
    simp only [hid, FH.error_bind, FH.ite_err_ok, bind_ok, pure_ok, fit_ok, ckAdd_ok, Prod.mk.injEq] at h
    obtain ⟨fid', hfid', f, hf, _, cur, hcur, hlt, ex, _, _, _, reward, hone, hrw, hden, hrate, hmod, total,
      ⟨_, rfl⟩, extra, ⟨_, rfl⟩, newEnd, ⟨_, rfl⟩, rfl, rfl⟩ := h
    exact saveFarm_co _ _

theorem closeFarm_co {s s' : FmState} {sender : Addr} {funds : List Coin} {id : String}
    {r : Response} (h : closeFarm s sender funds id = .ok (s', r)) : CO s s' := by
  unfold closeFarm at h
  simp only [FH.error_bind, FH.ite_err_ok, bind_ok, pure_ok, Prod.mk.injEq] at h
  obtain ⟨_, hnp, f, hf, _, rfl, rfl⟩ := h
  exact closeFarms_co _ _

theorem claimModStep_co {s1 s2 : FmState} {m : String × Nat} (h : FH.claimModStep s1 m = .ok s2) :
    CO s1 s2 := by
  unfold FH.claimModStep at h
  simp only [FH.error_bind, FH.ite_err_ok, bind_ok, pure_ok, ckAdd_ok] at h
  obtain ⟨f, hf, c, ⟨_, rfl⟩, hle, rfl⟩ := h
  exact saveFarm_co _ _

theorem claimStep_co {env : FmEnv} {sender : Addr} {u : Nat} {st st' : FmState × List Coin}
    {lp : Denom} (h : FH.claimStep env sender u st lp = .ok st') : CO st.1 st'.1 := by
  unfold FH.claimStep at h
  simp only [bind_ok, pure_ok] at h
  obtain ⟨rc, hrc, s1, hfold, s2, hsync, rfl⟩ := h
  have h1 : CO st.1 s1 :=
    foldlM_inv (fun (x : FmState) => CO st.1 x) _
      (fun b m b' hb hm => hb.trans (claimModStep_co hm)) _ _ _ (CO.refl _) hfold
  exact h1.trans (syncHistory_co hsync)

theorem fmClaim_co {s s' : FmState} {env : FmEnv} {sender : Addr} {funds : List Coin}
    {u : Option Nat} {r : Response} (h : fmClaim s env sender funds u = .ok (s', r)) : CO s s' := by
  rw [FH.fmClaim_eq] at h
  simp only [FH.error_bind, FH.ite_err_ok, bind_ok, pure_ok] at h
  obtain ⟨_, hnp, _, cur, _, untilE, _, ⟨s1, total⟩, hfold, h⟩ := h
  have hco : CO s s1 :=
    foldlM_inv (fun (x : FmState × List Coin) => CO s x.1) _
      (fun b m b' hb hm => hb.trans (claimStep_co hm)) _ _ _ (CO.refl _) hfold
  split at h
  · simp only [bind_ok, pure_ok, Prod.mk.injEq] at h
    obtain ⟨msgs, rfl, rfl, rfl⟩ := h
    exact hco.trans ⟨rfl, rfl⟩
  · simp only [bind_ok, pure_ok, Prod.mk.injEq] at h
    obtain ⟨agg, _, msgs, rfl, rfl, rfl⟩ := h
    exact hco.trans ⟨rfl, rfl⟩

theorem createPosition_co {s s' : FmState} {env : FmEnv} {sender : Addr} {funds : List Coin}
    {id : Option String} {u : Nat} {recv : Option Addr} {r : Response}
    (h : createPosition s env sender funds id u recv = .ok (s', r)) : CO s s' := by
  unfold createPosition at h
  cases recv <;> cases id <;>
    simp only [bind_ok, error_bind, pure_bind', ite_error_ok, pure_ok, Prod.mk.injEq] at h
  · obtain ⟨lp, hlp, _, _, _, _, hnone, _, s3, h3, rfl, rfl⟩ := h
    exact (CO.trans (CO.trans (show CO s { s with posCounter := s.posCounter + 1 } from ⟨rfl, rfl⟩) (savePosition_co _ _)) (updateWeights_co h3))
  · obtain ⟨lp, hlp, _, _, _, _, hnone, _, s3, h3, rfl, rfl⟩ := h
    exact (CO.trans (savePosition_co _ _) (updateWeights_co h3))
  · obtain ⟨lp, hlp, _, _, _, _, _, _, hnone, _, s3, h3, rfl, rfl⟩ := h
    exact (CO.trans (CO.trans (show CO s { s with posCounter := s.posCounter + 1 } from ⟨rfl, rfl⟩) (savePosition_co _ _)) (updateWeights_co h3))
  · obtain ⟨lp, hlp, _, _, _, _, _, _, hnone, _, s3, h3, rfl, rfl⟩ := h
    exact (CO.trans (savePosition_co _ _) (updateWeights_co h3))

theorem expandPosition_co {s s' : FmState} {env : FmEnv} {sender : Addr} {funds : List Coin}
    {id2 : String} {r : Response}
    (h : expandPosition s env sender funds id2 = .ok (s', r)) : CO s s' := by
  unfold expandPosition at h
  cases hg : s.getPosition id2 with
  | none => rw [hg] at h; simp [error_bind] at h
  | some p2 =>
    rw [hg] at h
    simp only [bind_ok, error_bind, pure_bind', ite_error_ok, ckAdd_ok, pure_ok, Prod.mk.injEq] at h
    obtain ⟨c, hc, _, hden, hopen, hauth, a, ⟨_, rfl⟩, s2, h2, rfl, rfl⟩ := h
    exact CO.trans (savePosition_co _ _) (updateWeights_co h2)

theorem closePosition_co {s s' : FmState} {env : FmEnv} {sender : Addr} {funds : List Coin}
    {id2 : String} {lp : Option Coin} {r : Response}
    (h : closePosition s env sender funds id2 lp = .ok (s', r)) : CO s s' := by
  unfold closePosition at h
  cases hg : s.getPosition id2 with
  | none =>
    rw [hg] at h
    simp only [bind_ok, error_bind] at h
    obtain ⟨_, _, _, _, h⟩ := h
    split at h <;> simp at h
  | some p2 =>
    rw [hg] at h
    simp only [bind_ok, error_bind, pure_bind', ite_error_ok, fit_ok] at h
    obtain ⟨_, _, _, _, _, hauth, _, a, ⟨_, rfl⟩, b, ⟨_, rfl⟩, _, h⟩ := h
    have full : ∀ {q : Position} {R : Response},
        (updateWeights s env sender p2.lpDenom p2.amount p2.unlocking false >>= fun s2 =>
          reconcileUserState (s2.savePosition q) env sender p2.lpDenom >>= fun s4 =>
          pure (s4, R)) = Except.ok (s', r) → CO s s' := by
      intro q R h
      simp only [bind_ok, pure_ok, Prod.mk.injEq] at h
      obtain ⟨s2, h2, s4, h4, rfl, rfl⟩ := h
      exact ((updateWeights_co h2).trans (savePosition_co _ _)).trans (reconcileUserState_co h4)
    cases lp with
    | none => exact full h
    | some c =>
      simp only [ite_error_ok] at h
      obtain ⟨_, h⟩ := h
      split at h
      · exact full h
      · simp only [ite_ok_error, ite_error_ok, bind_ok, pure_ok, Prod.mk.injEq] at h
        obtain ⟨_, _, s2, h2, s4, h4, rfl, rfl⟩ := h
        exact (((CO.trans (show CO s { s with posCounter := s.posCounter + 1 } from ⟨rfl, rfl⟩) (savePosition_co _ _)).trans (updateWeights_co h2)).trans (savePosition_co _ _)).trans
          (reconcileUserState_co h4)

theorem withdrawPosition_co {s s' : FmState} {env : FmEnv} {sender : Addr} {funds : List Coin}
    {id2 : String} {em : Option Bool} {r : Response}
    (h : withdrawPosition s env sender funds id2 em = .ok (s', r)) : CO s s' := by
  unfold withdrawPosition at h
  cases hg : s.getPosition id2 with
  | none => rw [hg] at h; simp [error_bind, bind_ok] at h
  | some p2 =>
    rw [hg] at h
    simp only [bind_ok, error_bind, pure_bind', ite_error_ok] at h
    obtain ⟨_, _, hauth, h⟩ := h
    have tail : ∀ (s1 s3 : FmState), CO s s1 → CO (s1.removePosition id2) s3 → CO s s3 := by
      intro s1 s3 h1 h3
      exact (h1.trans ⟨rfl, rfl⟩).trans h3
    split at h
    · simp only [bind_ok] at h
      obtain ⟨rate, _, cur, _, active, _, sp, _, h⟩ := h
      split at h
      · simp only [bind_ok, pure_ok, Prod.mk.injEq] at h
        obtain ⟨s1, h1, x, h3, rfl, rfl⟩ := h
        exact tail s1 _ (updateWeights_co h1) (reconcileUserState_co h3)
      · simp only [bind_ok, pure_ok, Prod.mk.injEq] at h
        obtain ⟨rfl, rfl⟩ := h
        exact tail s _ (CO.refl s) (CO.refl _)
    · simp only [ite_error_ok] at h
      obtain ⟨_, _, h⟩ := h
      split at h
      · simp only [bind_ok, pure_ok, Prod.mk.injEq] at h
        obtain ⟨x, h3, rfl, rfl⟩ := h
        exact tail s _ (CO.refl s) (reconcileUserState_co h3)
      · simp only [bind_ok, pure_ok, Prod.mk.injEq] at h
        obtain ⟨rfl, rfl⟩ := h
        exact tail s _ (CO.refl s) (CO.refl _)

/-- non-privileged farm-manager messages never change configuration or ownership -/
theorem fmExecute_co {s s' : FmState} {env : FmEnv} {sender : Addr} {funds : List Coin} {m : FmMsg}
    {r : Response} (h : fmExecute s env sender funds m = .ok (s', r)) (hm : ¬ FmPriv m) : CO s s' := by
  cases m with
  | createFarm p => exact createFarm_co h
  | expandFarm p => exact expandFarm_co h
  | closeFarm id => exact closeFarm_co h
  | claim u => exact fmClaim_co h
  | createPosition id u rc => exact createPosition_co h
  | expandPosition id => exact expandPosition_co h
  | closePosition id lp => exact closePosition_co h
  | withdrawPosition id e => exact withdrawPosition_co h
  | updateConfig u => exact absurd trivial hm
  | updateOwnership a => exact absurd trivial hm

def FmG (w w' : World) : Prop := CO w.fm w'.fm

def QFm : ContractMsg → Prop
  | .fm m => ¬ FmPriv m
  | _ => True

theorem qfm_emitted : ∀ c msg funds, Emitted (.wasmExec c msg funds) → QFm msg := by
  intro c msg funds h
  cases msg with
  | pm m => trivial
  | fm m => cases m <;> first | exact h.elim | exact fun hp => hp
  | em m => trivial
  | fc m => trivial

theorem fm_lift : Lift (fun _ => True) FmG (OkQ QFm) := by
  apply lift_simple qfm_emitted
  · exact fun w => CO.refl _
  · exact fun h1 h2 => CO.trans h1 h2
  · exact fun w b _ => ⟨trivial, CO.refl _⟩
  · intro w w2 c sender funds msg resp _ hq hce
    refine ⟨trivial, ?_⟩
    rcases callExecute_cases hce with ⟨m, s, -, -, -, rfl⟩ | ⟨m, s, rfl, -, hx, rfl⟩ | ⟨m, s, -, -, -, rfl, -⟩ |
        ⟨a, o, -, -, -, -, rfl, -⟩
    · exact CO.refl _
    · exact fmExecute_co hx hq
    · exact CO.refl _
    · exact CO.refl _
  · intro w w2 c id resp _ hcr
    refine ⟨trivial, ?_⟩
    rcases callReply_cases hcr with ⟨-, s, hx, rfl⟩ | ⟨-, rfl, -⟩
    · exact CO.refl _
    · exact CO.refl _

theorem fm_frame (w : World) (tx : Tx) (k : Option Nat) :
    CO w.fm (step w tx k).fm ∨
    ∃ sender m env r, tx = .exec sender FM (.fm m) [] ∧ FmPriv m ∧
      fmExecute w.fm env sender [] m = .ok r := by
  rcases frame_or_direct qfm_emitted fm_lift (fun w n => CO.refl _) w tx k trivial with
    h | ⟨sender, c, msg, funds, b, w2, resp, rfl, hnq, hce, -, -⟩
  · exact Or.inl h
  · right
    rcases callExecute_cases hce with ⟨m, s, rfl, -⟩ | ⟨m, s, rfl, rfl, hx, -⟩ | ⟨m, s, rfl, -⟩ |
        ⟨a, o, rfl, -⟩
    · exact absurd trivial hnq
    · have hp : FmPriv m := Classical.not_not.1 hnq
      have hf : funds = [] := (C05.config_conserves (fmPriv_iff.1 hp) hx).2.2.2
      subst hf
      exact ⟨sender, m, _, _, rfl, hp, hx⟩
    · exact absurd trivial hnq
    · exact absurd trivial hnq

/-! ### epoch manager, fee collector -/

def QEm : ContractMsg → Prop
  | .em _ => False
  | _ => True

theorem qem_emitted : ∀ c msg funds, Emitted (.wasmExec c msg funds) → QEm msg := by
  intro c msg funds h
  cases msg with
  | pm m => trivial
  | fm m => trivial
  | em m => exact h.elim
  | fc m => trivial

theorem em_lift : Lift (fun _ => True) (fun w w' => w'.em = w.em) (OkQ QEm) := by
  apply lift_simple qem_emitted
  · exact fun w => rfl
  · exact fun h1 h2 => h2.trans h1
  · exact fun w b _ => ⟨trivial, rfl⟩
  · intro w w2 c sender funds msg resp _ hq hce
    refine ⟨trivial, ?_⟩
    rcases callExecute_cases hce with ⟨m, s, -, -, -, rfl⟩ | ⟨m, s, -, -, -, rfl⟩ | ⟨m, s, rfl, -⟩ |
        ⟨a, o, -, -, -, -, rfl, -⟩
    · rfl
    · rfl
    · exact hq.elim
    · rfl
  · intro w w2 c id resp _ hcr
    refine ⟨trivial, ?_⟩
    rcases callReply_cases hcr with ⟨-, s, hx, rfl⟩ | ⟨-, rfl, -⟩
    · rfl
    · rfl

theorem em_frame (w : World) (tx : Tx) (k : Option Nat) :
    (step w tx k).em = w.em ∨
    ∃ sender m s', tx = .exec sender EM (.em m) [] ∧
      emExecute w.em w.validAddr w.nowNs sender [] m = .ok s' := by
  rcases frame_or_direct qem_emitted em_lift (fun w n => rfl) w tx k trivial with
    h | ⟨sender, c, msg, funds, b, w2, resp, rfl, hnq, hce, -, -⟩
  · exact Or.inl h
  · right
    rcases callExecute_cases hce with ⟨m, s, rfl, -⟩ | ⟨m, s, rfl, -⟩ | ⟨m, s, rfl, rfl, hx, -⟩ |
        ⟨a, o, rfl, -⟩
    · exact absurd trivial hnq
    · exact absurd trivial hnq
    · have hf : funds = [] := by
        unfold emExecute at hx
        obtain ⟨_, hnp, -⟩ := bind_ok.mp hx
        exact nonpayable_ok.mp hnp
      subst hf
      exact ⟨sender, m, s, rfl, hx⟩
    · exact absurd trivial hnq

def QFc : ContractMsg → Prop
  | .fc _ => False
  | _ => True

theorem qfc_emitted : ∀ c msg funds, Emitted (.wasmExec c msg funds) → QFc msg := by
  intro c msg funds h
  cases msg with
  | pm m => trivial
  | fm m => trivial
  | em m => trivial
  | fc m => exact h.elim

theorem fc_lift : Lift (fun _ => True) (fun w w' => w'.fc = w.fc) (OkQ QFc) := by
  apply lift_simple qfc_emitted
  · exact fun w => rfl
  · exact fun h1 h2 => h2.trans h1
  · exact fun w b _ => ⟨trivial, rfl⟩
  · intro w w2 c sender funds msg resp _ hq hce
    refine ⟨trivial, ?_⟩
    rcases callExecute_cases hce with ⟨m, s, -, -, -, rfl⟩ | ⟨m, s, -, -, -, rfl⟩ | ⟨m, s, -, -, -, rfl, -⟩ |
        ⟨a, o, rfl, -⟩
    · rfl
    · rfl
    · rfl
    · exact hq.elim
  · intro w w2 c id resp _ hcr
    refine ⟨trivial, ?_⟩
    rcases callReply_cases hcr with ⟨-, s, hx, rfl⟩ | ⟨-, rfl, -⟩
    · rfl
    · rfl

theorem fc_frame (w : World) (tx : Tx) (k : Option Nat) :
    (step w tx k).fc = w.fc ∨
    ∃ sender a o, tx = .exec sender FC (.fc (.updateOwnership a)) [] ∧
      w.fc.update w.validAddr w.nowNs sender a = .ok o := by
  rcases frame_or_direct qfc_emitted fc_lift (fun w n => rfl) w tx k trivial with
    h | ⟨sender, c, msg, funds, b, w2, resp, rfl, hnq, hce, -, -⟩
  · exact Or.inl h
  · right
    rcases callExecute_cases hce with ⟨m, s, rfl, -⟩ | ⟨m, s, rfl, -⟩ | ⟨m, s, rfl, -⟩ |
        ⟨a, o, rfl, rfl, rfl, hx, -⟩
    · exact absurd trivial hnq
    · exact absurd trivial hnq
    · exact absurd trivial hnq
    · exact ⟨sender, a, o, rfl, hx⟩

end MantraDex.AuthSys
