/-
  Positions through the runtime (`Properties/C15Sys.lean`): in a transaction signed by `s`, every position
  message that reaches the farm manager is sent by `s` itself, or by the pool manager on behalf of `s`
  (a deposit with a lock: the receiver of the LP is `s`, an existing position that is expanded belongs to
  `s`).  So every position identifier keeps its position, or belonged to `s` before and belongs to `s`
  after.

  The single-asset deposit needs the buffer's receiver to be the signer when a lock is requested; it is
  carried as an invariant.  The second leg (a self-call of the pool manager) passes the buffered receiver
  through `addr_validate`-or-default, whose default is the *sender* = the pool manager itself: the signer's
  address has to be valid (`valid`), otherwise the LP would be locked for the pool manager.
-/
import MantraDex.Proofs.AuthSysPriv
import MantraDex.Properties.C08

set_option linter.unusedSimpArgs false
set_option linter.unusedVariables false

namespace MantraDex.AuthSys
open MantraDex SysPm FmSys

/-! ### farm-manager handlers -/

/-- every identifier keeps its position, or the position belonged to `s` before and belongs to `s` after
    (created, changed or deleted) -/
def PosRel (s : Addr) (st st' : FmState) : Prop :=
  ∀ id, st'.getPosition id = st.getPosition id ∨
    ((∀ p, st.getPosition id = some p → p.receiver = s) ∧
     (∀ p', st'.getPosition id = some p' → p'.receiver = s))

theorem PosRel.refl (s : Addr) (st : FmState) : PosRel s st st := fun _ => Or.inl rfl

theorem PosRel.trans {s : Addr} {a b c : FmState} (h1 : PosRel s a b) (h2 : PosRel s b c) :
    PosRel s a c := by
  intro id
  rcases h1 id with e1 | ⟨b1, a1⟩ <;> rcases h2 id with e2 | ⟨b2, a2⟩
  · exact Or.inl (e2.trans e1)
  · exact Or.inr ⟨fun p hp => b2 p (e1 ▸ hp), a2⟩
  · exact Or.inr ⟨b1, fun p hp => a1 p (e2 ▸ hp)⟩
  · exact Or.inr ⟨b1, a2⟩

theorem PosRel.of_positions {s : Addr} {st st' : FmState} (h : st'.positions = st.positions) :
    PosRel s st st' := fun id => Or.inl (getPosition_congr h id)

/-- after a close, the closed identifier and the generated one hold positions of the sender -/
theorem closePosition_after {s s' : FmState} {env : FmEnv} {sender : Addr} {funds : List Coin}
    {id2 : String} {lp : Option Coin} {r : Response}
    (hfresh : s.getPosition (C08.nextAutoId s) = none)
    (h : closePosition s env sender funds id2 lp = .ok (s', r)) :
    ∀ id p', s'.getPosition id = some p' → (id = id2 ∨ id = C08.nextAutoId s) → p'.receiver = sender := by
  unfold closePosition at h
  cases hg : s.getPosition id2 with
  | none =>
    rw [hg] at h
    simp only [bind_ok, error_bind] at h
    obtain ⟨_, _, _, _, h⟩ := h
    split at h <;> simp at h
  | some p2 =>
    have hid := C08.getPosition_id hg
    rw [hg] at h
    simp only [bind_ok, error_bind, pure_bind', ite_error_ok, fit_ok] at h
    obtain ⟨_, _, _, _, _, hauth, _, a, ⟨_, rfl⟩, b, ⟨_, rfl⟩, _, h⟩ := h
    have hrecv : p2.receiver = sender := by simpa using hauth
    have hne2 : id2 ≠ C08.nextAutoId s := by
      intro e; rw [e, hfresh] at hg; cases hg
    intro id p' hp' hcase
    have full : ∀ {q : Position} {R : Response},
        (updateWeights s env sender p2.lpDenom p2.amount p2.unlocking false >>= fun s2 =>
          reconcileUserState (s2.savePosition q) env sender p2.lpDenom >>= fun s4 =>
          pure (s4, R)) = Except.ok (s', r) → q.id = p2.id → q.receiver = p2.receiver →
          p'.receiver = sender := by
      intro q R h hq hqr
      simp only [bind_ok, pure_ok, Prod.mk.injEq] at h
      obtain ⟨s2, h2, s4, h4, rfl, _⟩ := h
      by_cases e : id = id2
      · subst e
        have hg' := C08.getPosition_after_save (reconcileUserState_sameStore h4)
        rw [hq, hid, hp'] at hg'
        cases hg'
        rw [hqr]; exact hrecv
      · have hna : id = C08.nextAutoId s := by
          rcases hcase with h1 | h1
          · exact absurd h1 e
          · exact h1
        rw [(reconcileUserState_sameStore h4).getPosition,
          getPosition_save_other _ _ (by rw [hq, hid]; exact e),
          (updateWeights_sameStore h2).getPosition, hna, hfresh] at hp'
        cases hp'
    cases lp with
    | none => exact full h rfl rfl
    | some c =>
      simp only [ite_error_ok] at h
      obtain ⟨_, h⟩ := h
      split at h
      · exact full h rfl rfl
      · simp only [ite_ok_error, ite_error_ok, bind_ok, pure_ok, Prod.mk.injEq] at h
        obtain ⟨_, _, s2, h2, s4, h4, rfl, _⟩ := h
        by_cases e : id = id2
        · subst e
          have hg' := C08.getPosition_after_save (reconcileUserState_sameStore h4)
          simp only [hid] at hg'
          rw [hp'] at hg'
          cases hg'
          exact hrecv
        · have hna : id = C08.nextAutoId s := by
            rcases hcase with h1 | h1
            · exact absurd h1 e
            · exact h1
          have hg' := C08.getPosition_after_save_save (updateWeights_sameStore h2)
            (reconcileUserState_sameStore h4) (by
              show C.AUTO_POSITION_ID_PREFIX ++ toString (s.posCounter + 1) ≠ p2.id
              rw [hid]; exact fun e' => hne2 e'.symm)
          have hid' : id = C.AUTO_POSITION_ID_PREFIX ++ toString (s.posCounter + 1) := hna
          rw [← hid', hp'] at hg'
          cases hg'
          exact hrecv

/-- a withdrawn position is gone -/
theorem withdrawPosition_after {s s' : FmState} {env : FmEnv} {sender : Addr} {funds : List Coin}
    {id2 : String} {em : Option Bool} {r : Response}
    (h : withdrawPosition s env sender funds id2 em = .ok (s', r)) : s'.getPosition id2 = none := by
  unfold withdrawPosition at h
  cases hg : s.getPosition id2 with
  | none => rw [hg] at h; simp [error_bind, bind_ok] at h
  | some p2 =>
    rw [hg] at h
    simp only [bind_ok, error_bind, pure_bind', ite_error_ok] at h
    obtain ⟨_, _, hauth, h⟩ := h
    have tail : ∀ (s1 s3 : FmState), SameStore (s1.removePosition id2) s3 → s3.getPosition id2 = none := by
      intro s1 s3 h3
      rw [h3.getPosition]; exact getPosition_remove_same _ _
    split at h
    · simp only [bind_ok] at h
      obtain ⟨rate, _, cur, _, active, _, sp, _, h⟩ := h
      split at h
      · simp only [bind_ok, pure_ok, Prod.mk.injEq] at h
        obtain ⟨s1, h1, x, h3, rfl, rfl⟩ := h
        exact tail s1 _ (reconcileUserState_sameStore h3)
      · simp only [bind_ok, pure_ok, Prod.mk.injEq] at h
        obtain ⟨rfl, rfl⟩ := h
        exact tail s _ (SameStore.refl _)
    · simp only [ite_error_ok] at h
      obtain ⟨_, _, h⟩ := h
      split at h
      · simp only [bind_ok, pure_ok, Prod.mk.injEq] at h
        obtain ⟨x, h3, rfl, rfl⟩ := h
        exact tail s _ (reconcileUserState_sameStore h3)
      · simp only [bind_ok, pure_ok, Prod.mk.injEq] at h
        obtain ⟨rfl, rfl⟩ := h
        exact tail s _ (SameStore.refl _)

/-- what the pool manager may ask of the farm manager on behalf of `s` -/
def PmLock (s : Addr) (st : FmState) : FmMsg → Prop
  | .createPosition _ _ (some r) => r = s
  | .expandPosition pid => ∀ p, st.getPosition pid = some p → p.receiver = s
  | _ => False

/-- the message is sent by `s` itself (not the pool manager), or by the pool manager on behalf of `s` -/
def AuthFm (s : Addr) (st : FmState) (sender : Addr) (m : FmMsg) : Prop :=
  (sender = s ∧ s ≠ st.config.poolManager) ∨ (sender = st.config.poolManager ∧ PmLock s st m)

theorem fmExecute_posRel {s : Addr} {st st' : FmState} {env : FmEnv} {sender : Addr} {funds : List Coin}
    {m : FmMsg} {r : Response} (hwf : PosWF st) (h : fmExecute st env sender funds m = .ok (st', r))
    (ha : AuthFm s st sender m) : PosRel s st st' := by
  cases m with
  | createFarm fp => exact PosRel.of_positions (createFarm_positions h)
  | expandFarm fp => exact PosRel.of_positions (expandFarm_positions _ _ h)
  | closeFarm fid => exact PosRel.of_positions (closeFarm_positions _ _ h)
  | claim u => exact PosRel.of_positions (fmClaim_positions h)
  | updateConfig u => exact PosRel.of_positions (C05.config_conserves (Or.inl ⟨u, rfl⟩) h).1
  | updateOwnership a => exact PosRel.of_positions (C05.config_conserves (Or.inr ⟨a, rfl⟩) h).1
  | createPosition i u rcv =>
    have h' : createPosition st env sender funds i u rcv = .ok (st', r) := h
    obtain ⟨lp, q, s1, _, _, hnone, _, hrecv, _, _, hs1, hss⟩ := C08.createPosition_ok h'
    have hq : q.receiver = s := by
      rw [hrecv]
      rcases ha with ⟨rfl, hnpm⟩ | ⟨hpm, hl⟩
      · cases rcv with
        | none => rfl
        | some r0 =>
          show r0 = sender
          apply Classical.byContradiction
          intro hne
          exact C15.create_for_other_requires_pm hne hnpm _ h'
      · cases rcv with
        | none => exact hl.elim
        | some r0 => exact hl
    intro id
    by_cases e : id = q.id
    · subst e
      right
      refine ⟨fun p hp => ?_, fun p' hp' => ?_⟩
      · rw [hnone] at hp; cases hp
      · rw [C08.getPosition_after_save hss] at hp'
        cases hp'; exact hq
    · left
      rw [hss.getPosition, getPosition_save_other _ _ e]
      exact getPosition_congr hs1 id
  | expandPosition id2 =>
    have h' : expandPosition st env sender funds id2 = .ok (st', r) := h
    obtain ⟨p2, hg, hauth, hfr⟩ := C08.expandPosition_frame h'
    have hp2 : p2.receiver = s := by
      rcases ha with ⟨rfl, hnpm⟩ | ⟨hpm, hl⟩
      · rcases hauth with h1 | h1
        · exact h1
        · exact absurd h1 hnpm
      · exact hl p2 hg
    intro id
    by_cases e : id = id2
    · subst e
      right
      refine ⟨fun p hp => ?_, fun p' hp' => ?_⟩
      · rw [hg] at hp; cases hp; exact hp2
      · obtain ⟨c, p'', -, -, hg', -, hr', -⟩ := C08.expand_adds_exact hg h'
        rw [hg'] at hp'; cases hp'
        rw [hr']; exact hp2
    · exact Or.inl (hfr id e)
  | closePosition id2 lp =>
    have h' : closePosition st env sender funds id2 lp = .ok (st', r) := h
    obtain ⟨p2, hg, hauth, hfr⟩ := C08.closePosition_frame h'
    have hfresh : st.getPosition (C08.nextAutoId st) = none := hwf.fresh _ (by omega)
    have hs : sender = s := by
      rcases ha with ⟨rfl, -⟩ | ⟨-, hl⟩
      · rfl
      · exact hl.elim
    subst hs
    intro id
    by_cases e : id = id2 ∨ id = C08.nextAutoId st
    · right
      refine ⟨fun p hp => ?_, fun p' hp' => closePosition_after hfresh h' id p' hp' e⟩
      rcases e with rfl | rfl
      · rw [hg] at hp; cases hp; exact hauth
      · rw [hfresh] at hp; cases hp
    · exact Or.inl (hfr id (fun e1 => e (Or.inl e1)) (fun e2 => e (Or.inr e2)))
  | withdrawPosition id2 em =>
    have h' : withdrawPosition st env sender funds id2 em = .ok (st', r) := h
    obtain ⟨p2, hg, hauth, hfr⟩ := C08.withdrawPosition_frame h'
    have hs : sender = s := by
      rcases ha with ⟨rfl, -⟩ | ⟨-, hl⟩
      · rfl
      · exact hl.elim
    subst hs
    intro id
    by_cases e : id = id2
    · subst e
      right
      refine ⟨fun p hp => ?_, fun p' hp' => ?_⟩
      · rw [hg] at hp; cases hp; exact hauth
      · rw [withdrawPosition_after h'] at hp'; cases hp'
    · exact Or.inl (hfr id e)

/-- everything but `UpdateConfig` keeps the farm manager's configuration -/
theorem fmExecute_config {st st' : FmState} {env : FmEnv} {sender : Addr} {funds : List Coin}
    {m : FmMsg} {r : Response} (h : fmExecute st env sender funds m = .ok (st', r))
    (hm : ∀ u, m ≠ .updateConfig u) : st'.config = st.config := by
  by_cases hp : FmPriv m
  · cases m with
    | updateConfig u => exact absurd rfl (hm u)
    | updateOwnership a =>
      simp only [fmExecute, bind_ok, pure_ok, Prod.mk.injEq] at h
      obtain ⟨_, _, o, _, rfl, _⟩ := h
      rfl
    | _ => exact hp.elim
  · exact (fmExecute_co h hp).1

/-! ### the runtime -/

/-- what the pool manager may send in a transaction signed by `s` -/
def PmEmit (s : Addr) (w : World) : ContractMsg → Prop
  | .pm (.swap ..) => True
  | .pm (.provideLiquidity _ _ (some r) _ u _) => u.isSome → r = s
  | .fm m => PmLock s w.fm m
  | _ => False

/-- pending messages: anything (but a farm-manager `UpdateConfig`) from the signer, and from the pool
    manager only what it sends on behalf of the signer -/
def POk (s : Addr) (w : World) (sender : Addr) : Msg → Prop
  | .wasmExec _ msg _ => (sender = s ∧ ∀ u, msg ≠ .fm (.updateConfig u)) ∨ (sender = PM ∧ PmEmit s w msg)
  | _ => True

structure PInv (s : Addr) (w : World) : Prop where
  wf : FmWF w.fm
  pmAddr : w.fm.config.poolManager = PM
  valid : w.validAddr s = true
  buf : ∀ b, w.pm.buffer = some b → b.unlocking.isSome → b.receiver = s

def PG (s : Addr) (w w' : World) : Prop := PosRel s w.fm w'.fm

theorem pok_of_leaf {s : Addr} {w : World} {a : Addr} {m : Msg} (h : Leaf m) : POk s w a m := by
  cases m <;> first | trivial | exact h.elim

theorem pmLock_stable {s : Addr} {st st' : FmState} {m : FmMsg} (g : PosRel s st st')
    (h : PmLock s st m) : PmLock s st' m := by
  cases m with
  | createPosition i u rc =>
    cases rc with
    | none => exact h
    | some r => exact h
  | expandPosition pid =>
    intro p hp
    rcases g pid with e | ⟨-, a⟩
    · exact h p (e ▸ hp)
    · exact a p hp
  | _ => exact h

theorem pok_stable {s : Addr} {w w' : World} {a : Addr} {m : Msg} (g : PG s w w') (h : POk s w a m) :
    POk s w' a m := by
  cases m with
  | wasmExec c msg funds =>
    rcases h with h | ⟨ha, h⟩
    · exact Or.inl h
    · refine Or.inr ⟨ha, ?_⟩
      cases msg with
      | pm m =>
        cases m with
        | provideLiquidity ls ss rc pid u l =>
          cases rc with
          | none => exact h
          | some r => exact h
        | _ => exact h
      | fm m => exact pmLock_stable g h
      | em m => exact h
      | fc m => exact h
  | _ => trivial

theorem fmPosition_some {w : World} {lid : String} {x : String × Addr}
    (h : w.pmEnv.fmPosition lid = some x) : ∃ p, w.fm.getPosition lid = some p ∧ p.receiver = x.2 := by
  simp only [World.pmEnv] at h
  split at h
  · cases hg : w.fm.getPosition lid with
    | none => rw [hg] at h; cases h
    | some p =>
      rw [hg] at h
      simp only [Option.map_some, Option.some.injEq] at h
      subst h
      exact ⟨p, rfl, rfl⟩
  · cases h

theorem ne_pm_of_not_contract {a : Addr} (h : isContract a = false) : a ≠ PM := by
  intro e; subst e; revert h; decide

theorem pos_lift (s : Addr) (hs : isContract s = false) : Lift (PInv s) (PG s) (POk s) where
  refl := fun w => PosRel.refl s _
  trans := fun h1 h2 => PosRel.trans h1 h2
  bank := fun w b h => ⟨⟨h.wf, h.pmAddr, h.valid, h.buf⟩, PosRel.refl s _⟩
  stable := pok_stable
  exec := by
    intro w w2 c sender funds msg resp hinv hok hce
    have hsPM : s ≠ PM := ne_pm_of_not_contract hs
    rcases callExecute_cases hce with ⟨m, st, rfl, rfl, hx, rfl⟩ | ⟨m, st, rfl, rfl, hx, rfl⟩ |
        ⟨m, st, rfl, rfl, -, rfl, hr⟩ | ⟨a, o, rfl, rfl, -, -, rfl, hr⟩
    · -- the pool manager
      by_cases hm : ∀ ls ss rc pid u l, m ≠ .provideLiquidity ls ss rc pid u l
      · have hbuf : st.buffer = w.pm.buffer := by
          rcases C14.buffer_only_set_by_first_leg hx with h | ⟨ls, ss, rc, pid, u, l, _, he, _⟩
          · exact h
          · exact absurd he (hm ls ss rc pid u l)
        refine ⟨⟨hinv.wf, hinv.pmAddr, hinv.valid, by rw [hbuf]; exact hinv.buf⟩, PosRel.refl s _, ?_⟩
        exact fun sm hsm => pok_of_leaf (pmExecute_leaf hx hm sm hsm)
      · have : ∃ ls ss rc pid u l, m = .provideLiquidity ls ss rc pid u l := by
          cases m with
          | provideLiquidity ls ss rc pid u l => exact ⟨_, _, _, _, _, _, rfl⟩
          | _ => exact absurd (fun _ _ _ _ _ _ => PmMsg.noConfusion) hm
        obtain ⟨ls, ss, rc, pid, u, l, rfl⟩ := this
        simp only [pmExecute] at hx
        -- the receiver of a locked deposit is the signer
        have hrecv : u.isSome → (addrOrDefault w.pmEnv rc sender = sender ∨ sender = PM) →
            addrOrDefault w.pmEnv rc sender = s := by
          intro hu hcase
          rcases hok with ⟨rfl, -⟩ | ⟨rfl, hemit⟩
          · rcases hcase with h1 | h1
            · exact h1
            · exact absurd h1 hsPM
          · cases rc with
            | none => exact hemit.elim
            | some r0 =>
              have : r0 = s := hemit hu
              subst this
              simp only [addrOrDefault]
              have hv : w.pmEnv.validAddr r0 = true := hinv.valid
              rw [hv]; rfl
        rcases pl_shape hx with ⟨buf, ask, half, hst, hbr, hbu, hsingle, hmsgs⟩ | ⟨hbuf, -, hauth, hmsgs⟩
        · subst hst
          refine ⟨⟨hinv.wf, hinv.pmAddr, hinv.valid, ?_⟩, PosRel.refl s _, ?_⟩
          · intro b hb hbs
            have hb' : buf = b := by simpa using hb
            subst hb'
            rw [hbu] at hbs
            rw [hbr]
            exact hrecv hbs (Or.inl (hsingle hbs))
          · rw [hmsgs]
            intro sm hsm
            simp only [List.mem_singleton] at hsm
            subst hsm
            exact Or.inr ⟨rfl, trivial⟩
        · refine ⟨⟨hinv.wf, hinv.pmAddr, hinv.valid, by rw [hbuf]; exact hinv.buf⟩, PosRel.refl s _, ?_⟩
          intro sm hsm
          rcases hmsgs sm hsm with hl | ⟨id, uu, fs, hu, he⟩ | ⟨lid, fs, hu, hpos, he⟩
          · exact pok_of_leaf hl
          · rw [he]
            refine Or.inr ⟨rfl, ?_⟩
            show addrOrDefault w.pmEnv rc sender = s
            have hu' : u.isSome := by rw [hu]; rfl
            exact hrecv hu' (hauth hu')
          · rw [he]
            refine Or.inr ⟨rfl, ?_⟩
            show ∀ p, w.fm.getPosition lid = some p → p.receiver = s
            intro p hp
            obtain ⟨p0, hp0, hr0⟩ := fmPosition_some hpos
            rw [hp0] at hp; cases hp
            rw [hr0]
            exact hrecv hu (hauth hu)
    · -- the farm manager
      have hauth : AuthFm s w.fm sender m := by
        rcases hok with ⟨rfl, -⟩ | ⟨rfl, hemit⟩
        · exact Or.inl ⟨rfl, by rw [hinv.pmAddr]; exact hsPM⟩
        · exact Or.inr ⟨hinv.pmAddr.symm, hemit⟩
      have hcfg : st.config = w.fm.config := by
        apply fmExecute_config hx
        rcases hok with ⟨-, hne⟩ | ⟨-, hemit⟩
        · intro u e; exact hne u (by rw [e])
        · intro u e; subst e; exact hemit.elim
      refine ⟨⟨(fmExecute_ok hinv.wf hx).1, ?_, hinv.valid, hinv.buf⟩,
        fmExecute_posRel hinv.wf.pos hx hauth, ?_⟩
      · show st.config.poolManager = PM
        rw [hcfg]; exact hinv.pmAddr
      · exact fun sm hsm => pok_of_leaf (fmExecute_leaf hx sm hsm)
    · refine ⟨⟨hinv.wf, hinv.pmAddr, hinv.valid, hinv.buf⟩, PosRel.refl s _, ?_⟩
      rw [hr]; intro sm hsm; cases hsm
    · refine ⟨⟨hinv.wf, hinv.pmAddr, hinv.valid, hinv.buf⟩, PosRel.refl s _, ?_⟩
      rw [hr]; intro sm hsm; cases hsm
  reply := by
    intro w w2 c id resp hinv hcr
    rcases callReply_cases hcr with ⟨rfl, st, hx, rfl⟩ | ⟨-, rfl, hr⟩
    · obtain ⟨b, hb, hst, hmsgs⟩ := pmReply_shape hx
      subst hst
      refine ⟨⟨hinv.wf, hinv.pmAddr, hinv.valid, ?_⟩, PosRel.refl s _, ?_⟩
      · intro b' hb'; cases hb'
      · rw [hmsgs]
        intro sm hsm
        simp only [List.mem_singleton] at hsm
        subst hsm
        exact Or.inr ⟨rfl, fun hu => hinv.buf b hb hu⟩
    · refine ⟨hinv, PosRel.refl s _, ?_⟩
      rw [hr]; intro sm hsm; cases hsm

/-! ### one transaction -/

theorem step_fm_send (w : World) (frm to : Addr) (coins : List Coin) (k : Option Nat) :
    (step w (.send frm to coins) k).fm = w.fm := by
  unfold step
  cases hr : runTx w (.send frm to coins) k with
  | error e => rfl
  | ok w' =>
    simp only [runTx] at hr
    rw [show FUEL = 63 + 1 from rfl, execMsg] at hr
    obtain ⟨b, hb, h⟩ := bind_ok.mp hr
    simp only [pure_ok] at h; subst h
    rfl

theorem step_fm_advance (w : World) (ns : Nat) (k : Option Nat) :
    (step w (.advance ns) k).fm = w.fm := rfl

/-- a transaction signed by `s` (a valid, non-contract address): well-formedness is kept and every position
    identifier keeps its position or is `s`'s before and after -/
theorem pos_step (w : World) (s c : Addr) (msg : ContractMsg) (funds : List Coin) (k : Option Nat)
    (hs : isContract s = false) (hv : w.validAddr s = true) (hwf : FmWF w.fm) (hb : w.pm.buffer = none)
    (hpm : w.fm.config.poolManager = PM) :
    FmWF (step w (.exec s c msg funds) k).fm ∧ PosRel s w.fm (step w (.exec s c msg funds) k).fm := by
  unfold step
  cases hr : runTx w (.exec s c msg funds) k with
  | error e => exact ⟨hwf, PosRel.refl s _⟩
  | ok w' =>
    show FmWF w'.fm ∧ PosRel s w.fm w'.fm
    simp only [runTx] at hr
    by_cases hm : ∀ u, msg ≠ .fm (.updateConfig u)
    · have hinv : PInv s { w with bank := { w.bank with calls := 0, failAt := k } } :=
        ⟨hwf, hpm, hv, fun b hb' => by rw [hb] at hb'; cases hb'⟩
      obtain ⟨i, g⟩ := (run_lift (pos_lift s hs) FUEL).1 _ _ _ _ hr hinv (Or.inl ⟨rfl, hm⟩)
      exact ⟨i.wf, g⟩
    · have : ∃ u, msg = .fm (.updateConfig u) := by
        apply Classical.byContradiction
        intro hn
        exact hm (fun u e => hn ⟨u, e⟩)
      obtain ⟨u, rfl⟩ := this
      rw [show FUEL = 63 + 1 from rfl] at hr
      obtain ⟨w1, w2, resp, hw1, hce, hsubs⟩ := SysPools.wasm_inv hr
      have hfm1 : w1.fm = w.fm := by
        split at hw1
        · simp only [pure_ok] at hw1; subst hw1; rfl
        · obtain ⟨b, hb, hw1⟩ := bind_ok.mp hw1
          simp only [pure_ok] at hw1; subst hw1; rfl
      rcases callExecute_cases hce with ⟨m, st, he, -⟩ | ⟨m, st, he, -, hx, rfl⟩ | ⟨m, st, he, -⟩ |
          ⟨a, o, he, -⟩
      · cases he
      · cases he
        rw [hfm1] at hx
        obtain ⟨h1, h2, h3, -⟩ := C05.config_conserves (Or.inl ⟨u, rfl⟩) hx
        rw [h3] at hsubs
        have := subs_nil hsubs
        subst this
        exact ⟨(fmExecute_ok hwf hx).1, PosRel.of_positions h1⟩
      · cases he
      · cases he

/-- membership and lookup agree when identifiers are distinct -/
theorem getPosition_of_mem {st : FmState} (hn : (st.positions.map (·.id)).Nodup) {p : Position}
    (hp : p ∈ st.positions) : st.getPosition p.id = some p := by
  cases hg : st.getPosition p.id with
  | none =>
    exact absurd (List.mem_map_of_mem (f := (·.id)) hp) (FH.getPosition_none_notin hg)
  | some q =>
    obtain ⟨hq, hid⟩ := FH.getPosition_some hg
    have : q = p := FH.nodup_key_inj (fun x : Position => x.id) st.positions hn q hq p hp hid
    rw [this]

end MantraDex.AuthSys
