/-
  The transaction tree of an accepted `CreatePool` (C16Tx): funds move, the handler stores the new pool,
  the creation fee (if any) goes to the fee collector, the token-factory fees are burned from the pool manager.
-/
import MantraDex.Proofs.PoolTxLemmas
import MantraDex.Proofs.PoolLemmas
import MantraDex.Properties.C16

set_option linter.unusedSimpArgs false
set_option linter.unusedVariables false

namespace MantraDex.PoolTx
open MantraDex
open MantraDex.C01 (coinsOf amt coinsOf_cons coinsOf_nil)
open MantraDex.LpSys (Covers)

/-- an optional one-coin send: exact balances, covering and supply are kept -/
theorem optSend_cov {tf : List Coin} {b b' : Bank} {c to : Addr} {coin : Coin} (hcov : Covers b)
    (h : bankRun tf b c (if coin.amount ≠ 0 then [.bankSend to [coin]] else []) = .ok b') :
    Moves b b' c to [coin] ∧ Covers b' ∧ ∀ d, b'.supply d = b.supply d := by
  refine ⟨optSend_spec h, ?_⟩
  by_cases h0 : coin.amount = 0
  · simp only [h0, ne_eq, not_true, if_false, bankRun] at h
    cases h
    exact ⟨hcov, fun _ => rfl⟩
  · simp only [ne_eq, h0, not_false_iff, if_true, bankRun_single, bankStep] at h
    exact LpSys.send_covers h hcov

/-- the transaction tree of an accepted `CreatePool` -/
theorem create_pool_run {w w' : World} {u : Addr} {denoms : List Denom} {decimals : List Nat}
    {fees : PoolFee} {pt : PoolType} {id : Option String} {funds : List Coin}
    (hcov : Covers w.bank)
    (h : runTx w (.exec u PM (.pm (.createPool denoms decimals fees pt id)) funds) = .ok w') :
    (∃ p, p ∈ w'.pm.pools ∧ (∀ q ∈ w.pm.pools, q.id ≠ p.id) ∧ p.denoms = denoms ∧ p.decimals = decimals ∧
      p.ptype = pt ∧ p.fees = fees ∧ p.lpDenom = lpDenomOf PM p.id ∧ p.assets = denoms.map (fun d => ⟨d, 0⟩) ∧
      p.status.swaps = true ∧ p.status.deposits = true ∧ p.status.withdrawals = true ∧
      ∀ q ∈ w.pm.pools, q ∈ w'.pm.pools) ∧
    w'.pm.config = w.pm.config ∧ w'.fm = w.fm ∧
    ∃ (total : List Coin) (b1 b2 : Bank),
      validateFeesArePaid w.pm.config.creationFee w.tfFees funds = .ok total ∧
      validateNoAdditionalFunds funds total = .ok () ∧
      Moves { w.bank with calls := 0, failAt := none } b1 u PM funds ∧
      Moves b1 b2 PM w.pm.config.feeCollector [w.pm.config.creationFee] ∧
      Burns b2 w'.bank PM w.tfFees ∧
      (∀ d, w'.bank.supply d + coinsOf w.tfFees d = w.bank.supply d) := by
  obtain ⟨b1, s, r, ms, b3, hb, hx, hms, hrun, rfl⟩ := pm_leaf_run h (by
    intro b s r hx
    simp only [pmExecute] at hx
    obtain ⟨_, _, lpSym, _, _, _, _, _, _, hr⟩ := createPool_ok hx
    refine ⟨_, hr, ?_⟩
    intro x hx
    simp only [List.mem_append, List.mem_singleton] at hx
    rcases hx with hx | rfl
    · split at hx
      · simp only [List.mem_singleton] at hx; subst hx; trivial
      · cases hx
    · trivial)
  simp only [pmExecute] at hx
  obtain ⟨total, _, _, _, _, _, hfees, hnoadd, _, _, _, _, _, hr⟩ := createPool_inv hx
  obtain ⟨p, hfresh, hpools, hcfg, _, hpdef⟩ := createPool_pools hx
  have hms' : ms = (if w.pm.config.creationFee.amount ≠ 0
            then [Msg.bankSend w.pm.config.feeCollector [w.pm.config.creationFee]] else []) ++
          [Msg.tfCreateDenom (newPoolIdent w.pm id ++ "." ++ C.LP_SYMBOL)] := by
    rw [hr] at hms
    exact (map_mkSub_inj hms).symm
  subst hms'
  obtain ⟨mv0, c1, sup1⟩ := funds_moved (covers_reset none hcov) hb
  rw [bankRun_append] at hrun
  obtain ⟨b2, hsend, hburn⟩ := bind_ok.mp hrun
  obtain ⟨mv1, c2, sup2⟩ := optSend_cov c1 hsend
  rw [bankRun_single] at hburn
  have hburn' : b2.burn PM w.tfFees = .ok b3 := hburn
  obtain ⟨c3, sup3⟩ := LpSys.burn_covers hburn' c2
  refine ⟨⟨p, ?_, hfresh, ?_, ?_, ?_, ?_, ?_, ?_, ?_, ?_, ?_, ?_⟩, hcfg, rfl, total, b1, b2, hfees, hnoadd, mv0, mv1,
    (burn_spec hburn').2, ?_⟩
  · show p ∈ s.pools
    rw [hpools]; exact mem_insertPoolSorted.2 (Or.inl rfl)
  all_goals try (subst hpdef; rfl)
  · intro q hq
    show q ∈ s.pools
    rw [hpools]; exact mem_insertPoolSorted.2 (Or.inr hq)
  · intro d
    have := sup3 d
    rw [sup2 d, sup1 d] at this
    exact this

end MantraDex.PoolTx
