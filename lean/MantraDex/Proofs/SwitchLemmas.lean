/-
  Helper lemmas for `Properties/C17NI.lean`: the pool switches are only ever read as guards.
  A simulation relation `Sim` on `R`-computations ("same outcome up to `Q`, except that the left one may
  refuse with `disabled`") that is compositional over `>>=`, and its instances for the pool-manager
  handlers.
-/
import MantraDex.Model.System
import MantraDex.Proofs.NumLemmas

set_option linter.unusedSimpArgs false
set_option linter.unusedVariables false

namespace MantraDex.Switch
open MantraDex

/-! ### the simulation relation on computations -/

/-- `x` (less enabled) and `y` (more enabled): `x` refuses as `disabled`, or both succeed with related
    results, or both fail -/
def Sim {α β : Type} (Q : α → β → Prop) (x : R α) (y : R β) : Prop :=
  x = .error .disabled ∨ (∃ a b, x = .ok a ∧ y = .ok b ∧ Q a b) ∨ (∃ e e', x = .error e ∧ y = .error e')

theorem Sim.disabled {α β : Type} {Q : α → β → Prop} {y : R β} : Sim Q (.error .disabled) y := Or.inl rfl

theorem Sim.err {α β : Type} {Q : α → β → Prop} {e e' : Err} : Sim Q (.error e) (.error e' : R β) :=
  Or.inr (Or.inr ⟨e, e', rfl, rfl⟩)

theorem Sim.ok {α β : Type} {Q : α → β → Prop} {a : α} {b : β} (h : Q a b) : Sim Q (.ok a) (.ok b) :=
  Or.inr (Or.inl ⟨a, b, rfl, rfl, h⟩)

theorem Sim.pure {α β : Type} {Q : α → β → Prop} {a : α} {b : β} (h : Q a b) :
    Sim Q (Pure.pure a : R α) (Pure.pure b : R β) := Sim.ok h

theorem Sim.bind {α β α' β' : Type} {Q : α → β → Prop} {Q' : α' → β' → Prop} {x : R α} {y : R β}
    {f : α → R α'} {g : β → R β'} (h : Sim Q x y) (hf : ∀ a b, Q a b → Sim Q' (f a) (g b)) :
    Sim Q' (x >>= f) (y >>= g) := by
  rcases h with rfl | ⟨a, b, rfl, rfl, hq⟩ | ⟨e, e', rfl, rfl⟩
  · exact Sim.disabled
  · exact hf a b hq
  · exact Sim.err

theorem Sim.same {α : Type} {Q : α → α → Prop} (x : R α) (hQ : ∀ a, Q a a) : Sim Q x x := by
  cases x with
  | ok a => exact Sim.ok (hQ a)
  | error e => exact Sim.err

/-- a state-independent step -/
theorem Sim.bind_same {α α' β' : Type} {Q' : α' → β' → Prop} (x : R α)
    {f : α → R α'} {g : α → R β'} (hf : ∀ a, Sim Q' (f a) (g a)) :
    Sim Q' (x >>= f) (x >>= g) :=
  Sim.bind (Sim.same (Q := Eq) x fun _ => rfl) fun a b hab => hab ▸ hf a

theorem Sim.bind_eq {α α' β' : Type} {Q' : α' → β' → Prop} {x y : R α}
    {f : α → R α'} {g : α → R β'} (hxy : y = x) (hf : ∀ a, Sim Q' (f a) (g a)) :
    Sim Q' (x >>= f) (y >>= g) := hxy ▸ Sim.bind_same x hf

theorem Sim.ite {α β : Type} {Q : α → β → Prop} {c : Prop} [Decidable c] {t1 e1 : R α} {t2 e2 : R β}
    (ht : c → Sim Q t1 t2) (he : ¬ c → Sim Q e1 e2) :
    Sim Q (if c then t1 else e1) (if c then t2 else e2) := by
  by_cases hc : c
  · rw [if_pos hc, if_pos hc]; exact ht hc
  · rw [if_neg hc, if_neg hc]; exact he hc

/-- the `if cond then .error e` statement of a `do` block, same condition on both sides -/
theorem Sim.check {α β γ : Type} {Q : α → β → Prop} {c : Prop} [Decidable c] {e e' : Err}
    {f : γ → R α} {g : γ → R β} {y1 : R α} {y2 : R β} (h : ¬ c → Sim Q y1 y2) :
    Sim Q (if c then (Except.error e >>= f) else y1) (if c then (Except.error e' >>= g) else y2) :=
  Sim.ite (fun _ => Sim.err) h

theorem Sim.check' {α β : Type} {Q : α → β → Prop} {c : Prop} [Decidable c] {e e' : Err}
    {y1 : R α} {y2 : R β} (h : ¬ c → Sim Q y1 y2) :
    Sim Q (if c then Except.error e else y1) (if c then Except.error e' else y2) :=
  Sim.ite (fun _ => Sim.err) h

theorem Sim.guard' {α β : Type} {Q : α → β → Prop} {b1 b2 : Bool}
    {y1 : R α} {y2 : R β} (hb : b1 = true → b2 = true) (h : Sim Q y1 y2) :
    Sim Q (if (!b1) = true then Except.error Err.disabled else y1)
      (if (!b2) = true then Except.error Err.disabled else y2) := by
  cases b1
  · exact Sim.disabled
  · rw [hb rfl]; exact h

theorem err_bind {α β : Type} (e : Err) (k : α → R β) : (Except.error e >>= k) = .error e := rfl
theorem pure_bind' {α β : Type} (a : α) (f : α → R β) : ((pure a : R α) >>= f) = f a := rfl

/-- the switch guard -/
theorem Sim.guard {α β γ : Type} {Q : α → β → Prop} {b1 b2 : Bool}
    {f : γ → R α} {g : γ → R β} {y1 : R α} {y2 : R β} (hb : b1 = true → b2 = true) (h : Sim Q y1 y2) :
    Sim Q (if (!b1) = true then (Except.error Err.disabled >>= f) else y1)
      (if (!b2) = true then (Except.error Err.disabled >>= g) else y2) := by
  cases b1
  · exact Sim.disabled
  · rw [hb rfl]; exact h

theorem Sim.ok_left {α β : Type} {Q : α → β → Prop} {x : R α} {y : R β} {a : α}
    (h : Sim Q x y) (hx : x = .ok a) : ∃ b, y = .ok b ∧ Q a b := by
  rcases h with h | ⟨a', b, h1, h2, hq⟩ | ⟨e, e', h1, h2⟩
  · rw [h] at hx; cases hx
  · rw [h1] at hx; cases hx; exact ⟨b, h2, hq⟩
  · rw [h1] at hx; cases hx

theorem Sim.ok_right {α β : Type} {Q : α → β → Prop} {x : R α} {y : R β} {b : β}
    (h : Sim Q x y) (hy : y = .ok b) : x = .error .disabled ∨ ∃ a, x = .ok a ∧ Q a b := by
  rcases h with h | ⟨a, b', h1, h2, hq⟩ | ⟨e, e', h1, h2⟩
  · exact Or.inl h
  · rw [h2] at hy; cases hy; exact Or.inr ⟨a, h1, hq⟩
  · rw [h2] at hy; cases hy

theorem Sim.mono {α β : Type} {Q Q' : α → β → Prop} {x : R α} {y : R β}
    (h : Sim Q x y) (hq : ∀ a b, Q a b → Q' a b) : Sim Q' x y := by
  rcases h with h | ⟨a, b, h1, h2, hab⟩ | h
  · exact Or.inl h
  · exact Or.inr (Or.inl ⟨a, b, h1, h2, hq a b hab⟩)
  · exact Or.inr (Or.inr h)

/-! ### the relations on pools and states -/

/-- every switch that is on in `a` is on in `b` -/
def FlagsLe (a b : PoolStatus) : Prop :=
  (a.swaps = true → b.swaps = true) ∧ (a.deposits = true → b.deposits = true) ∧
  (a.withdrawals = true → b.withdrawals = true)

/-- same pool up to the switches, `q` at least as enabled as `p` -/
def PoolRel (p q : PoolInfo) : Prop := q = { p with status := q.status } ∧ FlagsLe p.status q.status

inductive PoolsRel : List PoolInfo → List PoolInfo → Prop
  | nil : PoolsRel [] []
  | cons {p q ps qs} : PoolRel p q → PoolsRel ps qs → PoolsRel (p :: ps) (q :: qs)

def StateRel (s1 s2 : PmState) : Prop :=
  s2.config = s1.config ∧ s2.counter = s1.counter ∧ s2.buffer = s1.buffer ∧ s2.owner = s1.owner ∧
  PoolsRel s1.pools s2.pools

theorem FlagsLe.refl (a : PoolStatus) : FlagsLe a a := ⟨id, id, id⟩

theorem PoolRel.refl (p : PoolInfo) : PoolRel p p := ⟨rfl, FlagsLe.refl _⟩

/-- a related pool is the same record with another status -/
theorem PoolRel.elim {p q : PoolInfo} (h : PoolRel p q) :
    ∃ st, q = { p with status := st } ∧ FlagsLe p.status st := ⟨q.status, h.1, h.2⟩

theorem PoolRel.mk' (p : PoolInfo) {st : PoolStatus} (h : FlagsLe p.status st) :
    PoolRel p { p with status := st } := ⟨rfl, h⟩

theorem PoolRel.id_eq {p q : PoolInfo} (h : PoolRel p q) : q.id = p.id := by
  obtain ⟨st, rfl, _⟩ := h.elim; rfl

/-! ### status independence of the numerics -/

theorem getAssetIndexes_status (p : PoolInfo) (st : PoolStatus) (o a : String) :
    getAssetIndexes { p with status := st } o a = getAssetIndexes p o a := rfl

theorem computeSwap_status (p : PoolInfo) (st : PoolStatus) (o : Coin) (a : String) :
    computeSwap { p with status := st } o a = computeSwap p o a := rfl

theorem computeLpMintStable_status (p : PoolInfo) (st : PoolStatus) (amp : Nat) (o n : List Coin)
    (sup : Nat) :
    computeLpMintStable amp o n sup { p with status := st } = computeLpMintStable amp o n sup p := rfl

/-! ### `getPool`, `savePool`, `any` on related states -/

theorem PoolsRel.any_id {l1 l2 : List PoolInfo} (h : PoolsRel l1 l2) (x : String) :
    l2.any (·.id == x) = l1.any (·.id == x) := by
  induction h with
  | nil => rfl
  | cons hp _ ih => simp only [List.any_cons, ih, hp.id_eq]

theorem PoolsRel.find {l1 l2 : List PoolInfo} (h : PoolsRel l1 l2) (x : String) :
    (l1.find? (·.id == x) = none ∧ l2.find? (·.id == x) = none) ∨
    ∃ p q, l1.find? (·.id == x) = some p ∧ l2.find? (·.id == x) = some q ∧ PoolRel p q := by
  induction h with
  | nil => exact Or.inl ⟨rfl, rfl⟩
  | @cons p q ps qs hp _ ih =>
    rw [List.find?_cons, List.find?_cons, hp.id_eq]
    cases hx : (p.id == x)
    · exact ih
    · exact Or.inr ⟨p, q, rfl, rfl, hp⟩

theorem getPool_sim {s1 s2 : PmState} (h : StateRel s1 s2) (x : String) :
    Sim PoolRel (s1.getPool x) (s2.getPool x) := by
  unfold PmState.getPool
  rcases h.2.2.2.2.find x with ⟨h1, h2⟩ | ⟨p, q, h1, h2, hpq⟩
  · rw [h1, h2]; exact Sim.err
  · rw [h1, h2]; exact Sim.ok hpq

theorem PoolsRel.replace {l1 l2 : List PoolInfo} (h : PoolsRel l1 l2) {p q : PoolInfo} (hpq : PoolRel p q) :
    PoolsRel (l1.map fun x => if x.id == p.id then p else x) (l2.map fun x => if x.id == q.id then q else x) := by
  induction h with
  | nil => exact PoolsRel.nil
  | @cons a b as bs hab _ ih =>
    rw [List.map_cons, List.map_cons, hab.id_eq, hpq.id_eq]
    refine PoolsRel.cons ?_ (by rw [hpq.id_eq] at ih; exact ih)
    cases (a.id == p.id)
    · exact hab
    · exact hpq

theorem PoolsRel.insert {l1 l2 : List PoolInfo} (h : PoolsRel l1 l2) {p q : PoolInfo} (hpq : PoolRel p q) :
    PoolsRel (insertPoolSorted p l1) (insertPoolSorted q l2) := by
  induction h with
  | nil => exact PoolsRel.cons hpq PoolsRel.nil
  | @cons a b as bs hab hr ih =>
    unfold insertPoolSorted
    rw [hab.id_eq, hpq.id_eq]
    split
    · exact PoolsRel.cons hpq (PoolsRel.cons hab hr)
    · exact PoolsRel.cons hab ih

theorem savePool_rel {s1 s2 : PmState} (h : StateRel s1 s2) {p q : PoolInfo} (hpq : PoolRel p q) :
    StateRel (s1.savePool p) (s2.savePool q) := by
  obtain ⟨h1, h2, h3, h4, h5⟩ := h
  have hr := h5.replace hpq
  unfold PmState.savePool
  rw [h5.any_id, hpq.id_eq] at *
  split
  · exact ⟨h1, h2, h3, h4, hr⟩
  · exact ⟨h1, h2, h3, h4, h5.insert hpq⟩

/-! ### the handlers -/

/-- same swap result up to the switches of the pool it reports -/
def SwapRel (r1 r2 : SwapResult) : Prop := r2 = { r1 with pool := r2.pool } ∧ PoolRel r1.pool r2.pool

/-- the result relation of a handler: related states, equal responses -/
def OutRel {α : Type} (a b : PmState × α) : Prop := StateRel a.1 b.1 ∧ b.2 = a.2

theorem performSwap_sim {s1 s2 : PmState} (h : StateRel s1 s2) (offer : Coin) (ask : Denom) (pid : String)
    (b ms : Option Nat) :
    Sim (fun a b => StateRel a.1 b.1 ∧ SwapRel a.2 b.2) (performSwap s1 offer ask pid b ms)
      (performSwap s2 offer ask pid b ms) := by
  unfold performSwap
  refine Sim.bind (getPool_sim h pid) fun p q hpq => ?_
  obtain ⟨st, rfl, hst⟩ := hpq.elim
  refine Sim.bind_same _ fun x => ?_
  obtain ⟨_, _, oi, ai, _, _⟩ := x
  dsimp only
  repeat (refine Sim.bind_same _ fun _ => ?_)
  exact Sim.pure ⟨savePool_rel h ⟨rfl, hst⟩, rfl, ⟨rfl, hst⟩⟩

/-- walk through two `do` blocks that differ only in state-dependent leaves: `t` closes the leaves -/
syntax "sim_walk " tacticSeq : tactic
macro_rules
  | `(tactic| sim_walk $t:tacticSeq) => `(tactic| repeat' (first
      | exact Sim.err
      | ($t)
      | refine Sim.bind_same _ fun _ => ?_
      | refine Sim.ite (fun _ => ?_) (fun _ => ?_)
      | split))

theorem StateRel.withConfig {s1 s2 : PmState} (h : StateRel s1 s2) (c : PmConfig) :
    StateRel { s1 with config := c } { s2 with config := c } := ⟨rfl, h.2.1, h.2.2.1, h.2.2.2.1, h.2.2.2.2⟩

theorem StateRel.withBuffer {s1 s2 : PmState} (h : StateRel s1 s2) (b : Option SingleSideBuffer) :
    StateRel { s1 with buffer := b } { s2 with buffer := b } := ⟨h.1, h.2.1, rfl, h.2.2.2.1, h.2.2.2.2⟩

theorem StateRel.withOwner {s1 s2 : PmState} (h : StateRel s1 s2) (o : Ownership) :
    StateRel { s1 with owner := o } { s2 with owner := o } := ⟨h.1, h.2.1, h.2.2.1, rfl, h.2.2.2.2⟩

theorem StateRel.withCounter {s1 s2 : PmState} (h : StateRel s1 s2) (c : Nat) :
    StateRel { s1 with counter := c } { s2 with counter := c } := ⟨h.1, rfl, h.2.2.1, h.2.2.2.1, h.2.2.2.2⟩

theorem swapHandler_sim {s1 s2 : PmState} (h : StateRel s1 s2) (env : PmEnv) (sender : Addr)
    (funds : List Coin) (ask : Denom) (b ms : Option Nat) (recv : Option Addr) (pid : String) :
    Sim OutRel (swapHandler s1 env sender funds ask b ms recv pid)
      (swapHandler s2 env sender funds ask b ms recv pid) := by
  unfold swapHandler
  simp (config := {zeta := false}) only [err_bind, pure_bind']
  dsimp only
  refine Sim.bind (getPool_sim h pid) fun p q hpq => ?_
  obtain ⟨st, rfl, hst⟩ := hpq.elim
  refine Sim.guard' hst.1 ?_
  refine Sim.bind_same _ fun offer => ?_
  refine Sim.check' fun _ => ?_
  refine Sim.check' fun _ => ?_
  refine Sim.bind (performSwap_sim h ..) fun a b hab => ?_
  obtain ⟨s1', r1⟩ := a; obtain ⟨s2', r2⟩ := b; obtain ⟨hs, hr, hp⟩ := hab
  dsimp only at hs hr hp ⊢
  obtain ⟨st', hq, _⟩ := hp.elim
  rw [hr, hq, h.1]
  exact Sim.pure ⟨hs, rfl⟩

theorem routeHops_sim (ms : Option Nat) (ops : List SwapOp) : ∀ {s1 s2 : PmState}, StateRel s1 s2 →
    ∀ (prev : Coin) (fees : List Msg),
    Sim OutRel (routeHops s1 ms ops prev fees) (routeHops s2 ms ops prev fees) := by
  induction ops with
  | nil => intro s1 s2 h prev fees; exact Sim.ok ⟨h, rfl⟩
  | cons op ops ih =>
    intro s1 s2 h prev fees
    unfold routeHops
    simp (config := {zeta := false}) only [err_bind, pure_bind']
    dsimp only
    refine Sim.bind (getPool_sim h _) fun p q hpq => ?_
    obtain ⟨st, rfl, hst⟩ := hpq.elim
    refine Sim.guard' hst.1 ?_
    refine Sim.bind (performSwap_sim h ..) fun a b hab => ?_
    obtain ⟨s1', r1⟩ := a; obtain ⟨s2', r2⟩ := b; obtain ⟨hs, hr, hp⟩ := hab
    dsimp only at hs hr hp ⊢
    rw [hr, h.1]
    exact ih hs _ _

theorem execSwapOps_sim {s1 s2 : PmState} (h : StateRel s1 s2) (env : PmEnv) (sender : Addr)
    (funds : List Coin) (ops : List SwapOp) (mr : Option Nat) (recv : Option Addr) (ms : Option Nat) :
    Sim OutRel (execSwapOps s1 env sender funds ops mr recv ms)
      (execSwapOps s2 env sender funds ops mr recv ms) := by
  unfold execSwapOps
  simp (config := {zeta := false}) only [err_bind, pure_bind']
  dsimp only
  split
  · split
    · refine Sim.bind_same _ fun amount => ?_
      refine Sim.bind_same _ fun _ => ?_
      refine Sim.bind (routeHops_sim ms ops h _ _) fun a b hab => ?_
      obtain ⟨s1', r1⟩ := a; obtain ⟨s2', r2⟩ := b; obtain ⟨hs, hr⟩ := hab
      dsimp only at hs hr ⊢
      subst hr
      split
      · exact Sim.check' fun _ => Sim.pure ⟨hs, rfl⟩
      · exact Sim.pure ⟨hs, rfl⟩
    · exact Sim.err
  · exact Sim.err

theorem withdraw_sim {s1 s2 : PmState} (h : StateRel s1 s2) (env : PmEnv) (sender : Addr)
    (funds : List Coin) (pid : String) :
    Sim OutRel (withdrawLiquidity s1 env sender funds pid) (withdrawLiquidity s2 env sender funds pid) := by
  unfold withdrawLiquidity
  simp (config := {zeta := false}) only [err_bind, pure_bind']
  dsimp only
  refine Sim.bind (getPool_sim h pid) fun p q hpq => ?_
  obtain ⟨st, rfl, hst⟩ := hpq.elim
  refine Sim.guard' hst.2.2 ?_
  sim_walk exact Sim.pure ⟨savePool_rel h ⟨rfl, hst⟩, rfl⟩

theorem provide_sim {s1 s2 : PmState} (h : StateRel s1 s2) (env : PmEnv) (sender : Addr)
    (funds : List Coin) (ls ss : Option Nat) (recv : Option Addr) (pid : String) (u : Option Nat)
    (l : Option String) :
    Sim OutRel (provideLiquidity s1 env sender funds ls ss recv pid u l)
      (provideLiquidity s2 env sender funds ls ss recv pid u l) := by
  unfold provideLiquidity
  simp (config := {zeta := false}) only [err_bind, pure_bind']
  dsimp only
  refine Sim.bind (getPool_sim h pid) fun p q hpq => ?_
  obtain ⟨st, rfl, hst⟩ := hpq.elim
  refine Sim.guard' hst.2.1 ?_
  simp only [h.1]
  sim_walk (first
    | exact Sim.pure ⟨savePool_rel h ⟨rfl, hst⟩, rfl⟩
    | exact Sim.pure ⟨⟨rfl, h.2.1, rfl, h.2.2.2.1, h.2.2.2.2⟩, rfl⟩)

/-- the feature toggle of `update_config` on a status -/
def applyToggle (t : FeatureToggle) (st : PoolStatus) : PoolStatus :=
  let st := match t.swaps with | some b => { st with swaps := b } | none => st
  let st := match t.deposits with | some b => { st with deposits := b } | none => st
  match t.withdrawals with | some b => { st with withdrawals := b } | none => st

theorem applyToggle_mono (t : FeatureToggle) {a b : PoolStatus} (h : FlagsLe a b) :
    FlagsLe (applyToggle t a) (applyToggle t b) := by
  obtain ⟨h1, h2, h3⟩ := h
  unfold applyToggle
  cases t.swaps <;> cases t.deposits <;> cases t.withdrawals <;>
    exact ⟨by first | exact h1 | simp, by first | exact h2 | simp, by first | exact h3 | simp⟩

theorem toggle_sim {s1 s2 : PmState} (h : StateRel s1 s2) (t : FeatureToggle) (c : PmConfig) (r : Response) :
    Sim OutRel
      (s1.getPool t.poolId >>= fun p =>
        pure ({ s1.savePool { p with status := applyToggle t p.status } with config := c }, r))
      (s2.getPool t.poolId >>= fun p =>
        pure ({ s2.savePool { p with status := applyToggle t p.status } with config := c }, r)) := by
  refine Sim.bind (getPool_sim h _) fun p q hpq => ?_
  obtain ⟨st, rfl, hst⟩ := hpq.elim
  exact Sim.pure ⟨(savePool_rel h ⟨rfl, applyToggle_mono t hst⟩).withConfig c, rfl⟩

theorem updateConfig_sim {s1 s2 : PmState} (h : StateRel s1 s2) (env : PmEnv) (sender : Addr)
    (fc fm : Option Addr) (cf : Option Coin) (t : Option FeatureToggle) :
    Sim OutRel (pmUpdateConfig s1 env sender fc fm cf t) (pmUpdateConfig s2 env sender fc fm cf t) := by
  unfold pmUpdateConfig
  simp (config := {zeta := false}) only [err_bind, pure_bind']
  dsimp only
  simp only [h.1]
  refine Sim.bind_eq (by rw [h.2.2.2.1]) fun _ => ?_
  sim_walk (first
    | exact toggle_sim h _ _ _
    | exact Sim.pure ⟨h.withConfig _, rfl⟩)

theorem createPool_sim {s1 s2 : PmState} (h : StateRel s1 s2) (env : PmEnv)
    (funds : List Coin) (denoms : List Denom) (decimals : List Nat) (fees : PoolFee) (ptype : PoolType)
    (id : Option String) :
    Sim OutRel (createPool s1 env funds denoms decimals fees ptype id)
      (createPool s2 env funds denoms decimals fees ptype id) := by
  unfold createPool
  simp (config := {zeta := false}) only [err_bind, pure_bind']
  dsimp only
  simp only [h.1, h.2.1, h.2.2.2.2.any_id]
  sim_walk (refine Sim.pure ⟨savePool_rel ?_ (PoolRel.refl _), rfl⟩;
            exact ⟨rfl, rfl, h.2.2.1, h.2.2.2.1, h.2.2.2.2⟩)

/-- the whole entry point: on related states every message has the same outcome up to switches, except
    that the less enabled state may refuse with `disabled` -/
theorem pmExecute_sim {s1 s2 : PmState} (h : StateRel s1 s2) (env : PmEnv) (sender : Addr)
    (funds : List Coin) (m : PmMsg) :
    Sim OutRel (pmExecute s1 env sender funds m) (pmExecute s2 env sender funds m) := by
  cases m with
  | createPool d dc f p i => exact createPool_sim h ..
  | provideLiquidity ls ss r pid u l => exact provide_sim h ..
  | swap ask b ms r pid => exact swapHandler_sim h ..
  | withdrawLiquidity pid => exact withdraw_sim h ..
  | execSwapOps ops mr r ms => exact execSwapOps_sim h ..
  | updateConfig fc fm cf t =>
    exact Sim.bind_same _ fun _ => updateConfig_sim h ..
  | updateOwnership a =>
    unfold pmExecute
    dsimp only
    refine Sim.bind_same _ fun _ => ?_
    refine Sim.bind_eq (by rw [h.2.2.2.1]) fun o => ?_
    exact Sim.pure ⟨h.withOwner o, rfl⟩

theorem pmReply_sim {s1 s2 : PmState} (h : StateRel s1 s2) (env : PmEnv) (id : Nat) :
    Sim OutRel (pmReply s1 env id) (pmReply s2 env id) := by
  unfold pmReply
  rw [h.2.2.1]
  sim_walk exact Sim.ok ⟨h.withBuffer none, rfl⟩

/-- the reply handler never answers `disabled` -/
theorem pmReply_ne_disabled (s : PmState) (env : PmEnv) (id : Nat) : pmReply s env id ≠ .error .disabled := by
  unfold pmReply
  repeat' split
  all_goals (intro hc; cases hc)

theorem querySimulation_eq {s1 s2 : PmState} (h : StateRel s1 s2) (offer : Coin) (ask : Denom)
    (pid : String) : querySimulation s2 offer ask pid = querySimulation s1 offer ask pid := by
  unfold querySimulation PmState.getPool
  rcases h.2.2.2.2.find pid with ⟨h1, h2⟩ | ⟨p, q, h1, h2, hpq⟩
  · rw [h1, h2]
  · rw [h1, h2]
    obtain ⟨st, rfl, _⟩ := hpq.elim
    rfl

end MantraDex.Switch
