/-
  C10Sys, part 3: every farm-manager handler preserves the invariant `FInv` (and the freshness of
  generated position identifiers).
-/
import MantraDex.Proofs.WSysFm

set_option linter.unusedSimpArgs false
set_option linter.unusedVariables false

namespace MantraDex.WSys
open MantraDex

theorem finv_of_eq {s s' : FmState} {env : FmEnv} (hh : s'.hist = s.hist) (hp : s'.positions = s.positions)
    (hc : s'.config.epochManager = s.config.epochManager) (h : FInv s env) : FInv s' env := by
  refine ⟨hinv_of_eq hh hc h.hist, ?_, posInv_of_eq hp h.pos⟩
  intro u lp hu hn
  rw [hh]
  exact h.noWeight u lp hu (by unfold NoOpen at hn ⊢; rw [← hp]; exact hn)

theorem noW_of_except_open {s : FmState} {me r : Addr} {l : Denom} (h : NoWExcept s me r l)
    (hopen : ∃ p ∈ s.positions, p.receiver = r ∧ p.lpDenom = l ∧ p.open_ = true) : NoW s me := by
  intro u lp hu hn
  by_cases hx : (u, lp) = (r, l)
  · cases hx
    obtain ⟨p, hp, h1, h2, h3⟩ := hopen
    have := hn p hp h1 h2
    rw [h3] at this; cases this
  · exact h u lp hu hx hn

/-! ### `update_weights` on a state that has a matching open position -/

theorem uw_inv {s s' : FmState} {env : FmEnv} {recv : Addr} {lp : Denom} {amount unlocking : Nat}
    {fill : Bool} (hi : FInv s env) (hclose : fill = false → recv ≠ env.self)
    (hopen : ∃ p ∈ s.positions, p.receiver = recv ∧ p.lpDenom = lp ∧ p.open_ = true)
    (h : updateWeights s env recv lp amount unlocking fill = .ok s') : FInv s' env := by
  have hstore := updateWeights_sameStore h
  refine ⟨hinv_update hi.hist hclose h, ?_, posInv_of_eq hstore.1 hi.pos⟩
  apply noW_of_except_open (r := recv) (l := lp) _ (by rw [hstore.1]; exact hopen)
  intro u lp' hu hx hn
  rw [updateWeights_frame_hist h u lp' hu hx]
  exact hi.noWeight u lp' hu (by unfold NoOpen at hn ⊢; rw [← hstore.1]; exact hn)

/-! ### `reconcile_user_state` -/

theorem reconcile_hist {s s' : FmState} {env : FmEnv} {recv : Addr} {lp : Denom}
    (h : reconcileUserState s env recv lp = .ok s') :
    (s'.hist = s.hist ∨ s'.hist = (s.setHist recv lp []).hist) := by
  unfold reconcileUserState at h
  simp only at h
  generalize hs1 : (if (s.positionsBy recv true).isEmpty = true then
      ({ s with lastClaimed := fun a => if a = recv then none else s.lastClaimed a } : FmState) else s) = s1 at h
  have hh : s1.hist = s.hist := by subst hs1; split <;> rfl
  split at h
  next hc =>
    simp only [bind_ok] at h
    obtain ⟨cur, _, h⟩ := h
    have := syncHistory_false_eq h
    subst this
    right
    funext a d
    simp only [setHist_hist, hh]
  next hc =>
    simp only [pure_ok] at h
    subst h
    exact Or.inl hh

theorem noOpen_filter_nil {s : FmState} {u : Addr} {lp : Denom} (h : NoOpen s u lp) :
    (s.positionsBy u true).filter (·.lpDenom == lp) = [] := by
  rw [List.filter_eq_nil_iff]
  intro q hq hl
  unfold FmState.positionsBy at hq
  have hq' := List.mem_of_mem_take hq
  obtain ⟨hm, hc⟩ := List.mem_filter.1 hq'
  simp only [Bool.and_eq_true, beq_iff_eq] at hc hl
  have := h q hm hc.1 hl
  rw [this] at hc
  exact absurd hc.2 (by simp)

theorem reconcile_inv {s s' : FmState} {env : FmEnv} {recv : Addr} {lp : Denom} (hh : HInv s env)
    (hp : PosInv s env.self) (hx : NoWExcept s env.self recv lp) (hr : recv ≠ env.self)
    (h : reconcileUserState s env recv lp = .ok s') : FInv s' env := by
  have hstore := reconcileUserState_sameStore h
  have hcfg : s'.config.epochManager = s.config.epochManager := by rw [hstore.2.2.2]
  have hcases := reconcile_hist h
  have hclr := (C10H.reconcile_clears h).1
  refine ⟨?_, ?_, posInv_of_eq hstore.1 hp⟩
  · rcases hcases with e | e
    · exact hinv_of_eq e hcfg hh
    · refine hinv_of_eq (s := s.setHist recv lp []) e hcfg (hinv_lower hh hr List.Pairwise.nil ?_ ?_)
      · intro e; rw [weightAt_nil]; exact Nat.zero_le _
      · intro x hx; cases hx
  · intro u lp' hu hn
    have hn' : NoOpen s u lp' := by unfold NoOpen at hn ⊢; rw [← hstore.1]; exact hn
    by_cases hxx : (u, lp') = (recv, lp)
    · cases hxx
      exact hclr (noOpen_filter_nil hn')
    · have h0 := hx u lp' hu hxx hn'
      rcases hcases with e | e
      · rw [e]; exact h0
      · rw [e, setHist_hist]
        split
        · rfl
        · exact h0

/-! ### `sync_address_lp_weight_history` at claim time -/

theorem sync_inv {s s' : FmState} {env : FmEnv} {a : Addr} {lp : Denom} {ep cur : Nat} (hi : FInv s env)
    (ha : a ≠ env.self) (hcur : fmCurrentEpoch s env = .ok cur) (hep : ep ≤ cur)
    (h : syncHistory s a lp ep true = .ok s') : FInv s' env := by
  obtain ⟨hne, hc | hc⟩ := sync_true_cases h
  · rw [hc]; exact hi
  · rw [hc]
    refine ⟨hinv_lower hi.hist ha (compact_sorted (hi.hist.sorted a lp) ep)
      (compact_le (hi.hist.sorted a lp) ep) ?_, ?_, posInv_of_eq (s := s) rfl hi.pos⟩
    · intro x hx
      rcases compact_mem hx with e | hx
      · exact ⟨cur, hcur, by omega⟩
      · exact hi.hist.bounded a lp x hx
    · intro u lp' hu hn
      have h0 := hi.noWeight u lp' hu hn
      rw [setHist_hist]
      split
      next hx => obtain ⟨rfl, rfl⟩ := hx; exact absurd h0 hne
      next => exact h0

/-! ### the position store -/

theorem posInv_save_new {s : FmState} {me : Addr} {p : Position} (hi : PosInv s me)
    (hnone : s.getPosition p.id = none) (hr : p.receiver ≠ me)
    (hlim : p.open_ = true → openCnt s.positions p.receiver < C.MAX_POSITIONS_LIMIT) :
    PosInv (s.savePosition p) me := by
  have hperm := FH.savePosition_perm_new hnone
  refine ⟨?_, ?_, ?_⟩
  · intro q hq
    rcases List.mem_cons.1 (hperm.mem_iff.1 hq) with rfl | hq
    · exact hr
    · exact hi.noSelf q hq
  · intro u
    rw [openCnt_perm hperm, openCnt_cons]
    have := hi.openLimit u
    split
    next ho =>
      simp only [isOpenOf, Bool.and_eq_true, beq_iff_eq] at ho
      have := hlim ho.2
      rw [ho.1] at this
      omega
    next => omega
  · exact FmSys.nodup_save_new hi.posNodup hnone

theorem finv_save_new {s : FmState} {env : FmEnv} {p : Position} (hi : FInv s env)
    (hnone : s.getPosition p.id = none) (hr : p.receiver ≠ env.self)
    (hlim : p.open_ = true → openCnt s.positions p.receiver < C.MAX_POSITIONS_LIMIT) :
    FInv (s.savePosition p) env := by
  refine ⟨hinv_of_eq (savePosition_hist s p) (by rw [savePosition_config]) hi.hist, ?_,
    posInv_save_new hi.pos hnone hr hlim⟩
  intro u lp hu hn
  rw [savePosition_hist]
  apply hi.noWeight u lp hu
  intro q hq
  exact hn q ((FH.savePosition_perm_new hnone).mem_iff.2 (List.mem_cons_of_mem _ hq))

/-- replacing a position by one of the same owner and LP token that is open only if the old one was -/
theorem save_replace_inv {s : FmState} {env : FmEnv} {p0 p : Position} (hi : FInv s env)
    (hp0 : p0 ∈ s.positions) (hid : p.id = p0.id) (hrc : p.receiver = p0.receiver)
    (hlp : p.lpDenom = p0.lpDenom) (hop : p.open_ = true → p0.open_ = true) :
    HInv (s.savePosition p) env ∧ PosInv (s.savePosition p) env.self ∧
      NoWExcept (s.savePosition p) env.self p0.receiver p0.lpDenom := by
  have hn := hi.pos.posNodup
  have hperm := FH.savePosition_perm_replace hn hp0 hid
  have hold := FH.perm_cons_filter_key Position.id s.positions p0 hn hp0
  refine ⟨hinv_of_eq (savePosition_hist s p) (by rw [savePosition_config]) hi.hist, ⟨?_, ?_, ?_⟩, ?_⟩
  · intro q hq
    rcases List.mem_cons.1 (hperm.mem_iff.1 hq) with rfl | hq
    · rw [hrc]; exact hi.pos.noSelf p0 hp0
    · exact hi.pos.noSelf q (List.mem_filter.1 hq).1
  · intro u
    have h1 := hi.pos.openLimit u
    rw [openCnt_perm hold, openCnt_cons] at h1
    rw [openCnt_perm hperm, openCnt_cons]
    have : (if isOpenOf u p = true then 1 else 0) ≤ (if isOpenOf u p0 = true then 1 else 0) := by
      by_cases ho : isOpenOf u p = true
      · have ho' : isOpenOf u p0 = true := by
          simp only [isOpenOf, Bool.and_eq_true, beq_iff_eq] at ho ⊢
          exact ⟨by rw [← hrc]; exact ho.1, hop ho.2⟩
        rw [if_pos ho, if_pos ho']; exact Nat.le_refl _
      · rw [if_neg ho]; exact Nat.zero_le _
    exact Nat.le_trans (Nat.add_le_add_right this _) h1
  · rw [(hperm.map _).nodup_iff, List.map_cons, hid, ← List.map_cons, ← (hold.map _).nodup_iff]
    exact hn
  · intro u lp hu hx hno
    rw [savePosition_hist]
    apply hi.noWeight u lp hu
    intro q hq h1 h2
    rcases List.mem_cons.1 (hold.mem_iff.1 hq) with rfl | hq'
    · exact absurd (by rw [h1, h2]) hx
    · exact hno q (hperm.mem_iff.2 (List.mem_cons_of_mem _ hq')) h1 h2

theorem remove_inv {s : FmState} {env : FmEnv} {p0 : Position} (hi : FInv s env)
    (hp0 : p0 ∈ s.positions) :
    HInv (s.removePosition p0.id) env ∧ PosInv (s.removePosition p0.id) env.self ∧
      NoWExcept (s.removePosition p0.id) env.self p0.receiver p0.lpDenom ∧
      (p0.open_ = false → NoW (s.removePosition p0.id) env.self) := by
  have hn := hi.pos.posNodup
  have hold := FH.perm_cons_filter_key Position.id s.positions p0 hn hp0
  have hsub : ∀ q ∈ (s.removePosition p0.id).positions, q ∈ s.positions := by
    intro q hq; exact (List.mem_filter.1 hq).1
  have hback : ∀ q ∈ s.positions, q = p0 ∨ q ∈ (s.removePosition p0.id).positions := by
    intro q hq
    rcases List.mem_cons.1 (hold.mem_iff.1 hq) with h | h
    · exact Or.inl h
    · exact Or.inr h
  refine ⟨hinv_of_eq (s := s) rfl rfl hi.hist, ⟨?_, ?_, ?_⟩, ?_, ?_⟩
  · intro q hq; exact hi.pos.noSelf q (hsub q hq)
  · intro u
    exact Nat.le_trans (openCnt_filter_le _ _ u) (hi.pos.openLimit u)
  · exact (List.filter_sublist.map _).nodup hn
  · intro u lp hu hx hno
    apply hi.noWeight u lp hu
    intro q hq h1 h2
    rcases hback q hq with rfl | hq'
    · exact absurd (by rw [h1, h2]) hx
    · exact hno q hq' h1 h2
  · intro hcl u lp hu hno
    apply hi.noWeight u lp hu
    intro q hq h1 h2
    rcases hback q hq with rfl | hq'
    · exact hcl
    · exact hno q hq' h1 h2

end MantraDex.WSys
