/-
  A mint of new tokens to an account, applied to a world BETWEEN two transactions (`Properties/MintInv.lean`):
  every world-level invariant the history theorems start from is preserved.

  Everything is stated for a world `{ w with bank := b }` where `Mints w.bank b to cs` (`Proofs/BankLemmas.lean`:
  `b` is `w.bank` after `cs` was minted to `to`); `MintInv.mintWorld` produces exactly such a world.

  The only condition ever needed is `NotLp cs`: no minted denom has the form of an LP denom of the pool manager
  (`lpDenomOf PM id` for some `id`).  It is needed only by the invariants that speak about the supply of such denoms
  (`C01All.AllInv`, `C02Sys.LpInv`).  `isFactoryToken d = false` is NOT sufficient for it: `lpDenomOf PM id` is a
  factory token only for identifiers that pass `validatePoolIdentifier`-like checks (characters, length), whereas
  `AllInv.fresh` / `LpInv.fresh` quantify over ALL identifiers.  `notLp_of_noPrefix` gives a decidable sufficient
  condition (the denom does not start with "factory/pm/").
-/
import MantraDex.Model.System
import MantraDex.Proofs.BankLemmas
import MantraDex.Proofs.LpSysBank
import MantraDex.Proofs.NonVacBank
import MantraDex.Proofs.ExactWRun
import MantraDex.Proofs.AuthSysPos
import MantraDex.Proofs.LedSysRun
import MantraDex.Proofs.LedSys2Run
import MantraDex.Properties.C01All
import MantraDex.Properties.C01Sys
import MantraDex.Properties.C02Sys
import MantraDex.Properties.C03Sys
import MantraDex.Properties.C05Sys
import MantraDex.Properties.C06Sys
import MantraDex.Properties.C10Sys
import MantraDex.Properties.C10Eq
import MantraDex.Properties.C11Sys
import MantraDex.Properties.C01Exact

set_option linter.unusedSimpArgs false
set_option linter.unusedVariables false

namespace MantraDex.MintL
open MantraDex
open MantraDex.C01 (coinsOf amt coinsOf_cons coinsOf_nil)

/-! ### minted denoms -/

/-- no minted denom has the form of an LP denom of the pool manager -/
def NotLp (cs : List Coin) : Prop := ∀ c ∈ cs, ∀ id, c.denom ≠ lpDenomOf PM id

theorem coinsOf_eq_zero {cs : List Coin} {d : Denom} (h : ∀ c ∈ cs, c.denom ≠ d) : coinsOf cs d = 0 := by
  induction cs with
  | nil => rfl
  | cons c cs ih =>
    rw [coinsOf_cons, ih (fun x hx => h x (List.mem_cons_of_mem _ hx))]
    have : (c.denom == d) = false := by simpa using h c List.mem_cons_self
    simp [amt, this]

theorem NotLp.coinsOf {cs : List Coin} (h : NotLp cs) (id : String) : coinsOf cs (lpDenomOf PM id) = 0 :=
  coinsOf_eq_zero (fun c hc => h c hc id)

/-- the characters of an LP denom of the pool manager -/
theorem lpDenomOf_toList (id : String) :
    (lpDenomOf PM id).toList = "factory/pm/".toList ++ (id.toList ++ ".LP".toList) := by
  unfold lpDenomOf
  simp only [String.toList_append, toString, List.append_assoc]
  have h1 : ("factory/" : String).toList ++ (PM.toList ++ (("/" : String).toList ++
      (id.toList ++ (("." : String).toList ++ (C.LP_SYMBOL : String).toList)))) =
      ("factory/pm/" : String).toList ++ (id.toList ++ (".LP" : String).toList) := by
    have e1 : ("factory/pm/" : String).toList = ("factory/" : String).toList ++ (PM.toList ++ ("/" : String).toList) := by
      decide
    have e2 : (".LP" : String).toList = ("." : String).toList ++ (C.LP_SYMBOL : String).toList := by decide
    rw [e1, e2]
    simp only [List.append_assoc]
  exact h1

/-- decidable sufficient condition for `NotLp`: the denom does not start with "factory/pm/" -/
def noLpPrefix (d : Denom) : Bool := !("factory/pm/".toList.isPrefixOf d.toList)

theorem ne_lp_of_noPrefix {d : Denom} (h : noLpPrefix d = true) (id : String) : d ≠ lpDenomOf PM id := by
  intro e
  subst e
  unfold noLpPrefix at h
  rw [lpDenomOf_toList] at h
  have : ("factory/pm/".toList.isPrefixOf ("factory/pm/".toList ++ (id.toList ++ ".LP".toList))) = true := by
    rw [List.isPrefixOf_iff_prefix]
    exact List.prefix_append _ _
  rw [this] at h
  cases h

theorem notLp_of_noPrefix {cs : List Coin} (h : ∀ c ∈ cs, noLpPrefix c.denom = true) : NotLp cs :=
  fun c hc id => ne_lp_of_noPrefix (h c hc) id

/-- another sufficient condition: short denoms (an LP denom has at least 11 characters) -/
theorem notLp_of_short {cs : List Coin} (h : ∀ c ∈ cs, c.denom.toList.length ≤ 10) : NotLp cs := by
  intro c hc id e
  have := h c hc
  rw [e] at this
  have := NonVac.lpDenomOf_length PM id
  omega

/-! ### the invariants that mention the bank -/

section
variable {w : World} {b : Bank} {to : Addr} {cs : List Coin}

theorem bal_le (m : Mints w.bank b to cs) (a : Addr) (d : Denom) : w.bank.bal a d ≤ b.bal a d := by
  rw [m.bal]; exact Nat.le_add_right _ _

theorem supply_le (m : Mints w.bank b to cs) (d : Denom) : w.bank.supply d ≤ b.supply d := by
  rw [m.sup]; exact Nat.le_add_right _ _

theorem supply_lp (m : Mints w.bank b to cs) (hn : NotLp cs) (id : String) :
    b.supply (lpDenomOf PM id) = w.bank.supply (lpDenomOf PM id) := by
  rw [m.sup, hn.coinsOf]; rfl

theorem lockedMin_eq (m : Mints w.bank b to cs) (hn : NotLp cs)
    (hlp : ∀ p ∈ w.pm.pools, p.lpDenom = lpDenomOf PM p.id) (d : Denom) :
    C01All.lockedMin { w with bank := b } d = C01All.lockedMin w d := by
  unfold C01All.lockedMin
  congr 1
  apply List.map_congr_left
  intro p hp
  show (if (p.lpDenom == d && b.supply d != 0) = true then _ else _) =
    (if (p.lpDenom == d && w.bank.supply d != 0) = true then _ else _)
  by_cases hd : p.lpDenom = d
  · have e : b.supply d = w.bank.supply d := by
      rw [← hd, hlp p hp]; exact supply_lp m hn _
    rw [e]
  · have : (p.lpDenom == d) = false := by simpa using hd
    simp only [this, Bool.false_and, Bool.false_eq_true, if_false]

/-- `C01All.AllInv`; needs `NotLp` (see `MintInv.mint_nonfactory_breaks_allInv` for the counterexample without) -/
theorem allInv (m : Mints w.bank b to cs) (hn : NotLp cs) (h : C01All.AllInv w) :
    C01All.AllInv { w with bank := b } := by
  refine ⟨?_, h.wf, h.noBuffer, h.tfNodup, h.tfSmall, h.lpDerived, ?_, ?_⟩
  · intro d
    rw [lockedMin_eq m hn h.lpDerived d]
    exact Nat.le_trans (h.custody d) (bal_le m PM d)
  · exact (C02Sys.covers_iff _).2 (LpSys.covers_mints m ((C02Sys.covers_iff _).1 h.supplyCovers))
  · intro id hid
    show b.supply (lpDenomOf PM id) = 0
    rw [supply_lp m hn id]
    exact h.fresh id hid

/-- `C01Sys.PmInv`: no condition at all (the custody inequality only gets easier) -/
theorem pmInv (m : Mints w.bank b to cs) (h : C01Sys.PmInv w) : C01Sys.PmInv { w with bank := b } :=
  ⟨fun d hd => Nat.le_trans (h.custody d hd) (bal_le m PM d), h.wf, h.noBuffer, h.tfNodup, h.tfSmall⟩

/-- `C02Sys.LpInv`; needs `NotLp` -/
theorem lpInv (m : Mints w.bank b to cs) (hn : NotLp cs) (h : C02Sys.LpInv w) :
    C02Sys.LpInv { w with bank := b } := by
  refine ⟨?_, ?_, h.ids, h.lpDerived, h.noBuffer, h.aligned, ?_, h.shape⟩
  · intro p hp
    show b.supply p.lpDenom = 0 ∨ ∃ mn, C02Sys.minLiqOf p = some mn ∧ 0 < mn ∧ mn ≤ b.bal PM p.lpDenom
    rcases h.locked p hp with h0 | ⟨mn, h1, h2, h3⟩
    · left
      rw [h.lpDerived p hp, supply_lp m hn]
      rw [h.lpDerived p hp] at h0
      exact h0
    · exact Or.inr ⟨mn, h1, h2, Nat.le_trans h3 (bal_le m PM _)⟩
  · exact (C02Sys.covers_iff _).2 (LpSys.covers_mints m ((C02Sys.covers_iff _).1 h.supplyCovers))
  · intro id hid
    show b.supply (lpDenomOf PM id) = 0
    rw [supply_lp m hn id]
    exact h.fresh id hid

/-- `C05Sys.FmInv`: no condition at all -/
theorem fmInv (m : Mints w.bank b to cs) (h : C05Sys.FmInv w) : C05Sys.FmInv { w with bank := b } :=
  ⟨fun d => Nat.le_trans (h.custody d) (bal_le m FM d), h.posNodup, h.farmNodup, h.claimedOk, h.autoFresh⟩

/-- `FmSys.Cov` (custody of the farm manager with a pending cost) -/
theorem fmCov (m : Mints w.bank b to cs) {P : Denom → Nat} (h : FmSys.Cov w P) : FmSys.Cov { w with bank := b } P :=
  fun d => Nat.le_trans (h d) (bal_le m FM d)

/-- `C03Sys.Unfunded`: no condition (a supply that is 0 after the mint was 0 before) -/
theorem unfunded (m : Mints w.bank b to cs) (h : C03Sys.Unfunded w) : C03Sys.Unfunded { w with bank := b } := by
  intro p hp hcp h0
  have h0' : b.supply p.lpDenom = 0 := h0
  have := supply_le m p.lpDenom
  exact h p hp hcp (by omega)

/-- `AllSys.Pre` (what the invariant provides about a pre-state) -/
theorem pre (m : Mints w.bank b to cs) (h : AllSys.Pre w) : AllSys.Pre { w with bank := b } :=
  ⟨LpSys.covers_mints m h.cov, h.wf, h.tfNodup, h.tfSmall, h.fee⟩

/-- the bank invariant `LpSys.Covers` itself -/
theorem covers (m : Mints w.bank b to cs) (h : LpSys.Covers w.bank) : LpSys.Covers b := LpSys.covers_mints m h

end

/-! ### the invariants that do not mention the bank: any replacement of the bank preserves them -/

section
variable {w : World} (b : Bank)

theorem fmEnv_eq : ({ w with bank := b } : World).fmEnv = w.fmEnv := rfl

theorem wcore (h : WSys.WCore w) : WSys.WCore { w with bank := b } := ⟨h.finv, h.wf, h.buf⟩

theorem wInv (h : C10Sys.WInv w) : C10Sys.WInv { w with bank := b } :=
  ⟨h.covers, h.noWeight, h.sorted, h.bounded, h.noSelf, h.openLimit, h.bufferOk, h.posNodup, h.autoFresh⟩

theorem jInv {D : Prop} {L : List C06Sys.Entry} (h : C06Sys.JInv D L w) : C06Sys.JInv D L { w with bank := b } :=
  ⟨wcore b h.core, h.led⟩

theorem exact (h : C10Eq.Exact w) : C10Eq.Exact { w with bank := b } := ⟨h.total, h.user, h.noExp⟩

theorem noSelfPay (h : C01Exact.NoSelfPay w) : C01Exact.NoSelfPay { w with bank := b } :=
  ⟨h.pmCollector, h.fmCollector, h.farmOwners⟩

theorem fresh (h : C06Sys.Fresh w) : C06Sys.Fresh { w with bank := b } :=
  ⟨h.positions, h.farms, h.hist, h.cursor, h.buffer⟩

theorem farmLimit (h : C11Sys.FarmLimit w) : C11Sys.FarmLimit { w with bank := b } := h

theorem lpPlain (h : C02Sys.LpPlain w) : C02Sys.LpPlain { w with bank := b } := h

theorem feeSmall (h : C01Sys.FeeSmall w) : C01Sys.FeeSmall { w with bank := b } := h

theorem sInv {env0 : FmEnv} (h : WSys.SInv env0 w) : WSys.SInv env0 { w with bank := b } :=
  ⟨h.env, h.pmAddr, h.finv, h.wf, h.buf⟩

theorem eInv {env0 : FmEnv} {L : Option String} (h : ExactW.EInv env0 L w) : ExactW.EInv env0 L { w with bank := b } :=
  ⟨sInv b h.sinv, h.exact, h.lock⟩

theorem pInv {s : Addr} (h : AuthSys.PInv s w) : AuthSys.PInv s { w with bank := b } :=
  ⟨h.wf, h.pmAddr, h.valid, h.buf⟩

theorem ls {env0 : FmEnv} {P : FmState → Prop} (h : LedSys.LS env0 P w) : LedSys.LS env0 P { w with bank := b } :=
  ⟨sInv b h.sinv, h.p⟩

theorem ls2 {env0 : FmEnv} {P : FmState → Prop} (h : LedSys.LS2 env0 P w) : LedSys.LS2 env0 P { w with bank := b } :=
  ⟨sInv b h.sinv, h.p⟩

end

end MantraDex.MintL
