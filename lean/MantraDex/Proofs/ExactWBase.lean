/-
  C10Eq, part 1: the farm-manager level exactness predicate `ExactF` (latest recorded weights = sums of
  `calculate_weight(amount, unlocking)` over the open positions), sums over position lists, and the effect
  of the weight-history helpers (`updateWeights`, `reconcileUserState`, `syncHistory`) on it.
-/
import MantraDex.Proofs.WSysFmY

set_option linter.unusedSimpArgs false
set_option linter.unusedVariables false

namespace MantraDex.ExactW
open MantraDex MantraDex.WSys

/-! ### sums of position weights -/

/-- the weight the code records for a position opened with its whole amount -/
def posW (p : Position) : Nat :=
  match calculateWeight p.amount p.unlocking with
  | .ok w => w
  | .error _ => 0

def sumW (ps : List Position) : Nat := (ps.map posW).foldl (· + ·) 0

theorem sumW_nil : sumW [] = 0 := rfl

theorem sumW_cons (p : Position) (ps : List Position) : sumW (p :: ps) = posW p + sumW ps := by
  unfold sumW
  simp only [List.map_cons, List.foldl_cons]
  rw [C10H.foldl_add_start]; omega

theorem sumW_perm {a b : List Position} (h : a.Perm b) : sumW a = sumW b := by
  induction h with
  | nil => rfl
  | cons x _ ih => rw [sumW_cons, sumW_cons, ih]
  | swap x y l => simp only [sumW_cons]; omega
  | trans _ _ ih1 ih2 => exact ih1.trans ih2

theorem sumW_append (a b : List Position) : sumW (a ++ b) = sumW a + sumW b := by
  induction a with
  | nil => simp [sumW_nil]
  | cons x xs ih => rw [List.cons_append, sumW_cons, sumW_cons, ih]; omega

/-- open positions in an LP token -/
def inLp (lp : Denom) (p : Position) : Bool := p.open_ && p.lpDenom == lp
/-- open positions of a receiver in an LP token -/
def ofU (u : Addr) (lp : Denom) (p : Position) : Bool := p.open_ && p.lpDenom == lp && p.receiver == u

/-- sum of the weights of the positions selected by `q` -/
def S (q : Position → Bool) (ps : List Position) : Nat := sumW (ps.filter q)

theorem S_perm (q : Position → Bool) {a b : List Position} (h : a.Perm b) : S q a = S q b :=
  sumW_perm (h.filter q)

theorem S_cons (q : Position → Bool) (p : Position) (ps : List Position) :
    S q (p :: ps) = (if q p = true then posW p else 0) + S q ps := by
  unfold S
  rw [List.filter_cons]
  split
  · rw [sumW_cons]
  · omega

theorem S_cons_false (q : Position → Bool) {p : Position} (ps : List Position) (h : q p = false) :
    S q (p :: ps) = S q ps := by
  rw [S_cons, h]; simp

theorem S_cons_true (q : Position → Bool) {p : Position} (ps : List Position) (h : q p = true) :
    S q (p :: ps) = posW p + S q ps := by
  rw [S_cons, h]; simp

theorem inLp_closed {lp : Denom} {p : Position} (h : p.open_ = false) : inLp lp p = false := by
  unfold inLp; rw [h]; rfl
theorem ofU_closed {u : Addr} {lp : Denom} {p : Position} (h : p.open_ = false) : ofU u lp p = false := by
  unfold ofU; rw [h]; rfl

theorem inLp_eq {lp : Denom} {p : Position} (ho : p.open_ = true) :
    inLp lp p = decide (lp = p.lpDenom) := by
  unfold inLp; rw [ho]
  by_cases h : lp = p.lpDenom
  · subst h; simp
  · have : p.lpDenom ≠ lp := fun e => h e.symm
    simp [h, this]

theorem ofU_eq {u : Addr} {lp : Denom} {p : Position} (ho : p.open_ = true) :
    ofU u lp p = decide (u = p.receiver ∧ lp = p.lpDenom) := by
  unfold ofU; rw [ho]
  by_cases h : lp = p.lpDenom
  · by_cases h2 : u = p.receiver
    · subst h; subst h2; simp
    · have : p.receiver ≠ u := fun e => h2 e.symm
      simp [h2, this]
  · have : p.lpDenom ≠ lp := fun e => h e.symm
    simp [h, this]

/-! ### exactness on the farm manager's state -/

/-- the recorded latest weights are exactly the open positions' weights; an open position has no expiry -/
structure ExactF (s : FmState) (me : Addr) : Prop where
  total : ∀ lp, latestWeight (s.hist me lp) = S (inLp lp) s.positions
  user : ∀ u lp, u ≠ me → latestWeight (s.hist u lp) = S (ofU u lp) s.positions
  noExp : ∀ p ∈ s.positions, p.open_ = true → p.expiringAt = none

theorem exactF_of_eq {s s' : FmState} {self : Addr} (hh : s'.hist = s.hist) (hp : s'.positions = s.positions)
    (h : ExactF s self) : ExactF s' self :=
  ⟨by rw [hh, hp]; exact h.total, by rw [hh, hp]; exact h.user, by rw [hp]; exact h.noExp⟩

theorem Frame.exactF {s s' : FmState} {self : Addr} (hf : Frame s s') (h : ExactF s self) : ExactF s' self :=
  exactF_of_eq hf.hist hf.positions h

/-! ### `update_weights` -/

/-- a fill: the computed weight is added to the total and to the receiver, nobody else moves -/
theorem uw_fill {s s' : FmState} {env : FmEnv} {recv : Addr} {lp : Denom} {amt unl : Nat}
    (hi : HInv s env) (hne : recv ≠ env.self)
    (h : updateWeights s env recv lp amt unl true = .ok s') :
    ∃ w, calculateWeight amt unl = .ok w ∧
      (∀ lp', latestWeight (s'.hist env.self lp') =
        latestWeight (s.hist env.self lp') + if lp' = lp then w else 0) ∧
      (∀ u lp', u ≠ env.self → latestWeight (s'.hist u lp') =
        latestWeight (s.hist u lp') + if u = recv ∧ lp' = lp then w else 0) := by
  obtain ⟨w, hw, hfill, _, hoth⟩ := C10H.update_weights_same_delta hne (hi.sorted recv lp)
    (hi.sorted env.self lp) (fun cur hc => ⟨hi.le_cur hc recv lp, hi.le_cur hc env.self lp⟩) h
  obtain ⟨h1, h2⟩ := hfill rfl
  refine ⟨w, hw, ?_, ?_⟩
  · intro lp'
    by_cases hl : lp' = lp
    · subst hl; rw [h2, if_pos rfl]
    · rw [if_neg hl, hoth env.self lp' (by simp [hl]) (by simp [hl])]; rfl
  · intro u lp' hu
    by_cases hc : u = recv ∧ lp' = lp
    · obtain ⟨rfl, rfl⟩ := hc
      rw [h1, if_pos ⟨rfl, rfl⟩]
    · rw [if_neg hc, hoth u lp' (by simpa using hc) (by simp [hu])]; rfl

/-- a close of a weight that the receiver holds: exactly the computed weight leaves both -/
theorem uw_close {s s' : FmState} {env : FmEnv} {recv : Addr} {lp : Denom} {amt unl : Nat}
    (hi : HInv s env) (hne : recv ≠ env.self)
    (h : updateWeights s env recv lp amt unl false = .ok s') :
    ∃ w, calculateWeight amt unl = .ok w ∧ (w ≤ latestWeight (s.hist recv lp) →
      (∀ lp', latestWeight (s'.hist env.self lp') =
        latestWeight (s.hist env.self lp') - if lp' = lp then w else 0) ∧
      (∀ u lp', u ≠ env.self → latestWeight (s'.hist u lp') =
        latestWeight (s.hist u lp') - if u = recv ∧ lp' = lp then w else 0)) := by
  obtain ⟨w, hw, _, hclose, hoth⟩ := C10H.update_weights_same_delta hne (hi.sorted recv lp)
    (hi.sorted env.self lp) (fun cur hc => ⟨hi.le_cur hc recv lp, hi.le_cur hc env.self lp⟩) h
  obtain ⟨h1, h2⟩ := hclose rfl
  refine ⟨w, hw, fun hle => ⟨?_, ?_⟩⟩
  · intro lp'
    by_cases hl : lp' = lp
    · subst hl; rw [h2, if_pos rfl, Nat.min_eq_left hle]
    · rw [if_neg hl, hoth env.self lp' (by simp [hl]) (by simp [hl])]; rfl
  · intro u lp' hu
    by_cases hc : u = recv ∧ lp' = lp
    · obtain ⟨rfl, rfl⟩ := hc
      rw [h1, if_pos ⟨rfl, rfl⟩, Nat.min_eq_left hle]
    · rw [if_neg hc, hoth u lp' (by simpa using hc) (by simp [hu])]; rfl

/-! ### `reconcile_user_state` -/

theorem reconcile_cases {s s' : FmState} {env : FmEnv} {recv : Addr} {lp : Denom}
    (h : reconcileUserState s env recv lp = .ok s') :
    s'.hist = s.hist ∨
      ((s.positionsBy recv true).filter (·.lpDenom == lp) = [] ∧ s'.hist = (s.setHist recv lp []).hist) := by
  unfold reconcileUserState at h
  simp only at h
  generalize hs1 : (if (s.positionsBy recv true).isEmpty = true then
      ({ s with lastClaimed := fun a => if a = recv then none else s.lastClaimed a } : FmState) else s) = s1 at h
  have hh : s1.hist = s.hist := by subst hs1; split <;> rfl
  split at h
  next hc =>
    simp only [bind_ok] at h
    obtain ⟨cur, _, h⟩ := h
    have := syncHistory_false_eq h
    subst this
    right
    refine ⟨?_, ?_⟩
    · simp only [Bool.and_eq_true, List.isEmpty_iff] at hc
      exact hc.1
    · funext a d
      simp only [setHist_hist, hh]
  next hc =>
    simp only [pure_ok] at h
    subst h
    exact Or.inl hh

/-- with at most `MAX_POSITIONS_LIMIT` open positions, `positionsBy` sees every open position -/
theorem ofU_nil_of_positionsBy {s : FmState} {recv : Addr} {lp : Denom}
    (hlim : openCnt s.positions recv ≤ C.MAX_POSITIONS_LIMIT)
    (h : (s.positionsBy recv true).filter (·.lpDenom == lp) = []) :
    s.positions.filter (ofU recv lp) = [] := by
  rw [List.filter_eq_nil_iff]
  intro p hp hq
  unfold ofU at hq
  simp only [Bool.and_eq_true, beq_iff_eq] at hq
  obtain ⟨⟨ho, hl⟩, hr⟩ := hq
  have htake : s.positionsBy recv true = s.positions.filter fun p => p.receiver == recv && p.open_ == true := by
    unfold FmState.positionsBy
    apply List.take_of_length_le
    exact hlim
  rw [htake, List.filter_eq_nil_iff] at h
  refine h p (List.mem_filter.2 ⟨hp, ?_⟩) ?_
  · simp [hr, ho]
  · simp [hl]

theorem reconcile_exact {s s' : FmState} {env : FmEnv} {recv : Addr} {lp : Denom}
    (hx : ExactF s env.self) (hp : PosInv s env.self) (hr : recv ≠ env.self)
    (h : reconcileUserState s env recv lp = .ok s') : ExactF s' env.self := by
  have hpos : s'.positions = s.positions := (reconcileUserState_sameStore h).1
  rcases reconcile_cases h with e | ⟨hnil, e⟩
  · exact exactF_of_eq e hpos hx
  · have hz := ofU_nil_of_positionsBy (hp.openLimit recv) hnil
    refine ⟨?_, ?_, by rw [hpos]; exact hx.noExp⟩
    · intro lp'
      rw [e, hpos, setHist_hist, if_neg (fun hh => hr hh.1.symm)]
      exact hx.total lp'
    · intro u lp' hu
      rw [e, hpos, setHist_hist]
      split
      next hh =>
        obtain ⟨rfl, rfl⟩ := hh
        unfold S
        rw [hz]
        rfl
      next => exact hx.user u lp' hu

/-! ### compaction at claim time keeps the latest weight -/

theorem weightAt_compact_ge {h : List (Nat × Nat)} (hs : Sorted h) {ep e : Nat} (he : ep ≤ e) :
    Spec.weightAt (compact h ep) e = Spec.weightAt h e := by
  have := Farm.wAtD_filter_gt hs 0 ep e he
  unfold compact
  rw [Farm.weightAt_eq, Farm.weightAt_eq, Farm.wAtD_cons, if_pos he, Farm.weightAt_eq, this]

theorem latest_compact {h : List (Nat × Nat)} (hs : Sorted h) {ep b : Nat} (hep : ep ≤ b)
    (hb : ∀ x ∈ h, x.1 ≤ b) : latestWeight (compact h ep) = latestWeight h := by
  have hb' : ∀ x ∈ compact h ep, x.1 ≤ b := by
    intro x hx
    rcases compact_mem hx with e | hx
    · omega
    · exact hb x hx
  rw [← weightAt_eq_latest hb' (Nat.le_refl b), ← weightAt_eq_latest hb (Nat.le_refl b)]
  exact weightAt_compact_ge hs hep

theorem sync_exact {s s' : FmState} {env : FmEnv} {a : Addr} {lp : Denom} {ep cur : Nat}
    (hx : ExactF s env.self) (hi : HInv s env) (ha : a ≠ env.self)
    (hcur : fmCurrentEpoch s env = .ok cur) (hep : ep ≤ cur)
    (h : syncHistory s a lp ep true = .ok s') : ExactF s' env.self := by
  obtain ⟨_, hc | hc⟩ := sync_true_cases h
  · rw [hc]; exact hx
  · have hl : latestWeight (compact (s.hist a lp) ep) = latestWeight (s.hist a lp) :=
      latest_compact (hi.sorted a lp) (b := cur + 1) (by omega) (hi.le_cur hcur a lp)
    rw [hc]
    refine ⟨?_, ?_, hx.noExp⟩
    · intro lp'
      rw [setHist_hist, if_neg (fun hh => ha hh.1.symm)]
      exact hx.total lp'
    · intro u lp' hu
      rw [setHist_hist]
      split
      next hh =>
        obtain ⟨rfl, rfl⟩ := hh
        rw [hl]; exact hx.user _ _ hu
      next => exact hx.user u lp' hu

end MantraDex.ExactW
