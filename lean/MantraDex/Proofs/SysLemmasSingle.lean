/-
  Runtime lemmas for the single-asset deposit path (first leg → self-swap → reply → second leg),
  used by `Properties/C01Sys.lean`: self-sends leave the sender's balance unchanged, inversion of a
  one-element sub-message list, inversion of a self-call of the pool manager, and the accounting of
  the nested self-swap.
-/
import MantraDex.Proofs.SysLemmasPm

set_option linter.unusedSimpArgs false
set_option linter.unusedVariables false
set_option linter.tactic.unusedName false

namespace MantraDex.SysPm
open MantraDex C01

/-- a send from `x` to `x` leaves `x`'s balance unchanged -/
theorem send_self {b b' : Bank} {x : Addr} {cs : List Coin} (h : b.send x x cs = .ok b') (d : Denom) :
    b'.bal x d = b.bal x d := by
  unfold Bank.send at h
  obtain ⟨b1, h1, h⟩ := bind_ok.mp h
  obtain ⟨b2, h2, h⟩ := bind_ok.mp h
  have e1 := tick_bal h1
  have e2 := (burnRaw_bal h2 d).1
  have e3 := (mintRaw_bal h d).1
  rw [e1] at e2
  omega

theorem subs_nil {n : Nat} {w w' : World} {c : Addr} (h : execSubs n w c [] = .ok w') : w' = w := by
  cases n with
  | zero => rw [execSubs] at h; cases h
  | succ n => rw [execSubs] at h; cases h; rfl

/-- a single reply-on-success sub-message: it succeeded, the reply ran, then the reply's messages -/
theorem subs_single_success {n : Nat} {w w' : World} {c : Addr} {sm : SubMsg} (hro : sm.replyOn = .success)
    (h : execSubs n w c [sm] = .ok w') :
    ∃ m w3 w4 resp, n = m + 1 ∧ execMsg m w c sm.msg = .ok w3 ∧ callReply w3 c sm.id = .ok (w4, resp) ∧
      execSubs m w4 c resp.msgs = .ok w' := by
  cases n with
  | zero => rw [execSubs] at h; cases h
  | succ n =>
    rw [execSubs] at h
    split at h
    · rename_i w3 hw3
      simp only [hro, ReplyOn.onSuccess, if_true] at h
      obtain ⟨⟨w4, resp⟩, hcr, h⟩ := bind_ok.mp h
      obtain ⟨w5, h5, h⟩ := bind_ok.mp h
      have := subs_nil h
      subst this
      exact ⟨n, w3, w4, resp, rfl, hw3, hcr, h5⟩
    · simp only [hro, ReplyOn.onError, Bool.false_eq_true, if_false] at h
      cases h

/-- a single reply-`never` sub-message -/
theorem subs_single_never {n : Nat} {w w' : World} {c : Addr} {sm : SubMsg} (hro : sm.replyOn = .never)
    (h : execSubs n w c [sm] = .ok w') : ∃ m, n = m + 1 ∧ execMsg m w c sm.msg = .ok w' := by
  cases n with
  | zero => rw [execSubs] at h; cases h
  | succ n =>
    rw [execSubs] at h
    split at h
    · rename_i w3 hw3
      simp only [hro, ReplyOn.onSuccess, Bool.false_eq_true, if_false] at h
      have := subs_nil h
      subst this
      exact ⟨n, rfl, hw3⟩
    · simp only [hro, ReplyOn.onError, Bool.false_eq_true, if_false] at h
      cases h

/-- a call of the pool manager by itself: the attached funds do not change its balance -/
theorem self_call {n : Nat} {w w' : World} {msg : PmMsg} {funds : List Coin}
    (h : execMsg (n + 1) w PM (.wasmExec PM (.pm msg) funds) = .ok w') :
    ∃ (w1 : World) (s : PmState) (r : Response), w1.pm = w.pm ∧ w1.tfFees = w.tfFees ∧
      (∀ d, w1.bank.bal PM d = w.bank.bal PM d) ∧
      pmExecute w1.pm w1.pmEnv PM funds msg = .ok (s, r) ∧
      execSubs n { w1 with pm := s } PM r.msgs = .ok w' := by
  obtain ⟨w1, w2, resp, hw1, hce, hsubs⟩ := wasm_inv h
  simp only [callExecute, bne_self_eq_false, Bool.false_eq_true, if_false] at hce
  obtain ⟨⟨s, r⟩, hpe, hce⟩ := bind_ok.mp hce
  simp only [pure_ok, Prod.mk.injEq] at hce
  obtain ⟨hw2, hresp⟩ := hce
  subst hw2 hresp
  refine ⟨w1, _, _, ?_, ?_, ?_, hpe, hsubs⟩
  · split at hw1
    · simp only [pure_ok] at hw1; subst hw1; rfl
    · obtain ⟨b, hb, hw1⟩ := bind_ok.mp hw1
      simp only [pure_ok] at hw1; subst hw1; rfl
  · split at hw1
    · simp only [pure_ok] at hw1; subst hw1; rfl
    · obtain ⟨b, hb, hw1⟩ := bind_ok.mp hw1
      simp only [pure_ok] at hw1; subst hw1; rfl
  · intro d
    split at hw1
    · simp only [pure_ok] at hw1; subst hw1; rfl
    · obtain ⟨b, hb, hw1⟩ := bind_ok.mp hw1
      simp only [pure_ok] at hw1; subst hw1
      exact send_self hb d

/-- the offer and ask denoms of a successful swap differ -/
theorem performSwap_denoms_ne {s s' : PmState} {offer : Coin} {ask : Denom} {pid : String}
    {b ms : Option Nat} {r : SwapResult} (h : performSwap s offer ask pid b ms = .ok (s', r)) :
    offer.denom ≠ ask := by
  obtain ⟨pool, c, oi, ai, x, y, -, -, hoi, hai, hne, -⟩ := C04.performSwap_ok h
  intro e
  rw [e, hai] at hoi
  cases hoi
  exact hne rfl

theorem reserves_of_pools {s s' : PmState} (h : s'.pools = s.pools) (d : Denom) :
    reserves s' d = reserves s d := by
  unfold reserves; rw [h]

end MantraDex.SysPm
