/-
  C01All, handler level: for EVERY denom `d` (reserve denom, LP denom, fee denom — or all at once), what one
  `execute` of the pool manager (not a single-asset deposit) does to the reserves recorded for `d`, in terms of the
  message weights of `LpSysRun` (everything leaving / arriving on the pool manager's account through its own messages):

      reserves' d + out d + first d  ≤  reserves d + funds d + in d

  where `first d` is the minimum liquidity minted to the pool manager by a first deposit into the pool whose LP
  token `d` is (0 otherwise); and `d` is minted only by a deposit into that pool.
-/
import MantraDex.Model.System
import MantraDex.Proofs.NumLemmas
import MantraDex.Proofs.LpSysHandlers
import MantraDex.Properties.C01

set_option linter.unusedSimpArgs false
set_option linter.unusedVariables false
set_option linter.tactic.unusedName false

namespace MantraDex.AllSys
open MantraDex MantraDex.LpSys
open MantraDex.C01 (coinsOf amt coinsOf_cons coinsOf_nil coinsOf_singleton reserves outflow)

/-! ### `C01.outflow` on bank / token-factory messages is the total of the `outW` weights -/

theorem outflow_eq_total {self : Addr} {tf : List Coin} {msgs : List SubMsg} (h : ∀ sm ∈ msgs, IsLeaf sm.msg)
    (d : Denom) : outflow self tf msgs d = total (outW tf d) msgs := by
  induction msgs with
  | nil => rfl
  | cons sm rest ih =>
    rw [C01.outflow_cons, total_cons, ih (fun x hx => h x (List.mem_cons_of_mem _ hx))]
    have hl := h sm (List.mem_cons_self ..)
    have : outflow self tf [sm] d = outW tf d sm.msg := by
      rcases sm with ⟨m, ro, i⟩
      cases m with
      | wasmExec c cm f => exact hl.elim
      | bankSend to cs => simp [outflow, outW]
      | bankBurn cs => simp [outflow, outW]
      | tfCreateDenom sd => simp [outflow, outW]
      | tfMint c to => simp [outflow, outW]
      | tfBurn c => simp [outflow, outW, amt]
    rw [this]

theorem isLeaf_mk {ms : List Msg} (h : ∀ m ∈ ms, IsLeaf m) :
    ∀ sm ∈ ms.map (fun m => ({ msg := m } : SubMsg)), IsLeaf sm.msg := by
  intro sm hsm
  obtain ⟨m, hm, rfl⟩ := List.mem_map.1 hsm
  exact h m hm

theorem isLeaf_opt {c : Prop} [Decidable c] {m : Msg} (hm : IsLeaf m) : ∀ m' ∈ (if c then [m] else []), IsLeaf m' := by
  intro m' h
  split at h
  · simp only [List.mem_singleton] at h; subst h; exact hm
  · cases h

theorem isLeaf_append {xs ys : List Msg} (hx : ∀ m ∈ xs, IsLeaf m) (hy : ∀ m ∈ ys, IsLeaf m) :
    ∀ m ∈ xs ++ ys, IsLeaf m := by
  intro m h
  rcases List.mem_append.1 h with h | h
  · exact hx m h
  · exact hy m h

/-- a message list without token-factory mints -/
theorem no_mint_total {msgs : List SubMsg} (h : ∀ sm ∈ msgs, ∀ c to, sm.msg ≠ .tfMint c to) (d : Denom) :
    total (mintW d) msgs = 0 := by
  apply total_zero_of_forall
  intro sm hsm
  cases hm : sm.msg with
  | tfMint c to => exact absurd hm (h sm hsm c to)
  | _ => rfl

/-- only deposits mint -/
theorem nonprovide_no_mint {s s' : PmState} {env : PmEnv} {sender : Addr} {funds : List Coin} {m : PmMsg}
    {r : Response} (hm : ∀ ls ss rc pid u l, m ≠ .provideLiquidity ls ss rc pid u l)
    (h : pmExecute s env sender funds m = .ok (s', r)) (d : Denom) : total (mintW d) r.msgs = 0 := by
  apply no_mint_total
  intro sm hsm c to e
  obtain ⟨ls, ss, rc, pid, u, l, e'⟩ := (C02.lp_only_minted_by_deposit_burned_by_withdraw h).1 sm hsm c to e
  exact hm ls ss rc pid u l e'

/-! ### the law, handler by handler -/

/-- the conclusion for one denom -/
structure Law (s s' : PmState) (env : PmEnv) (funds : List Coin) (m : PmMsg) (r : Response) (d : Denom)
    (first : Nat) : Prop where
  law : reserves s' d + total (outW env.tfFees d) r.msgs + first ≤
    reserves s d + coinsOf funds d + total (inW d) r.msgs
  src : total (mintW d) r.msgs ≠ 0 ∨ first ≠ 0 →
    ∃ ls ss rc pid u l pool, m = .provideLiquidity ls ss rc pid u l ∧ s.getPool pid = .ok pool ∧
      pool.lpDenom = d ∧ (env.supply d = 0 → minLiq pool = some first) ∧ (env.supply d ≠ 0 → first = 0)

theorem law_of_conserves {s s' : PmState} {env : PmEnv} {sender : Addr} {funds : List Coin} {m : PmMsg}
    {r : Response} {d : Denom} (hm : ∀ ls ss rc pid u l, m ≠ .provideLiquidity ls ss rc pid u l)
    (h : pmExecute s env sender funds m = .ok (s', r))
    (hc : reserves s' d + total (outW env.tfFees d) r.msgs ≤ reserves s d + coinsOf funds d) :
    Law s s' env funds m r d 0 := by
  refine ⟨by omega, ?_⟩
  rintro (h1 | h1)
  · exact absurd (nonprovide_no_mint hm h d) h1
  · exact absurd rfl h1

theorem swap_isLeaf {s s' : PmState} {env : PmEnv} {sender : Addr} {funds : List Coin} {ask : Denom}
    {b ms : Option Nat} {rc : Option Addr} {pid : String} {r : Response}
    (h : swapHandler s env sender funds ask b ms rc pid = .ok (s', r)) : ∀ sm ∈ r.msgs, IsLeaf sm.msg := by
  obtain ⟨offer, sr, -, -, hmsgs⟩ := C04.swapHandler_messages h
  rw [hmsgs]
  apply isLeaf_mk
  exact isLeaf_append (isLeaf_append (isLeaf_opt trivial) (isLeaf_opt trivial)) (isLeaf_opt trivial)

theorem route_isLeaf {s s' : PmState} {env : PmEnv} {sender : Addr} {funds : List Coin}
    {ops : List SwapOp} {mr : Option Nat} {rc : Option Addr} {ms : Option Nat} {r : Response}
    (h : execSwapOps s env sender funds ops mr rc ms = .ok (s', r)) : ∀ sm ∈ r.msgs, IsLeaf sm.msg := by
  obtain ⟨first, last, amount, out, fm, -, -, -, hroute, hmsgs⟩ := execSwapOps_ok h
  rw [hmsgs]
  apply isLeaf_mk
  apply isLeaf_append (isLeaf_opt (by trivial))
  intro m hm
  have := (C04.routeHops_fee_msgs (by intro m hm; cases hm) trivial hroute).2 m hm
  rcases this with ⟨cs, rfl⟩ | ⟨cs, rfl⟩ <;> trivial

theorem create_isLeaf {s s' : PmState} {env : PmEnv} {funds : List Coin} {denoms : List Denom}
    {decimals : List Nat} {fees : PoolFee} {pt : PoolType} {id : Option String} {r : Response}
    (h : createPool s env funds denoms decimals fees pt id = .ok (s', r)) : ∀ sm ∈ r.msgs, IsLeaf sm.msg := by
  obtain ⟨counter, pool, lpSym, totalFees, -, -, -, -, -, hmsgs⟩ := createPool_ok h
  rw [hmsgs]
  apply isLeaf_mk
  apply isLeaf_append (isLeaf_opt (by trivial))
  intro m hm
  simp only [List.mem_singleton] at hm
  subst hm; trivial

/-- the numbers of a multi-asset deposit in denom `d` (no assumption on `d`) -/
theorem provide_nums {d : Denom} {s s' : PmState} {env : PmEnv} {sender : Addr} {funds : List Coin}
    {ls ss : Option Nat} {rc : Option Addr} {pid : String} {u : Option Nat} {l : Option String} {r : Response}
    (hself : env.self = PM) (hfunds : (funds.map (·.denom)).Nodup) (hns : 2 ≤ funds.length)
    (h : provideLiquidity s env sender funds ls ss rc pid u l = .ok (s', r)) :
    ∃ pool deps assets', s.getPool pid = .ok pool ∧ aggregateCoins funds = .ok deps ∧
      deps.foldlM depositStep pool.assets = .ok assets' ∧ s' = s.savePool { pool with assets := assets' } ∧
      ((pool.lpDenom ≠ d ∧ Nums env.tfFees d r 0 0 0 0) ∨
       (pool.lpDenom = d ∧ ∃ first shares gift O, Nums env.tfFees d r (first + shares) 0 O (O + first + gift) ∧
          (env.supply d = 0 → minLiq pool = some first) ∧ (env.supply d ≠ 0 → first = 0))) := by
  obtain ⟨deps, hagg, -⟩ := pl_agg h
  have hlen : deps.length ≠ 1 := by rw [aggregateCoins_length hfunds hagg]; omega
  obtain ⟨pool, shares, msgs0, hp, hall, hfirst, htail⟩ := pl_multi_full hagg hlen h
  obtain ⟨assets', msgs1, hfold, hs', hmsgs, hshare⟩ := plTail_full htail
  refine ⟨pool, deps, assets', hp, hagg, hfold, hs', ?_⟩
  by_cases hd : pool.lpDenom = d
  · right
    refine ⟨hd, ?_⟩
    subst hd
    by_cases h0 : env.supply pool.lpDenom = 0
    · obtain ⟨mn, hmn, rfl⟩ := hfirst.1 h0
      rcases hshare with ⟨rfl, rfl⟩ | ⟨hu, fmsg, -, rfl⟩
      · by_cases hr : addrOrDefault env rc sender = PM
        · refine ⟨mn, shares, shares, 0, ⟨?_, ?_, ?_, ?_⟩, fun _ => hmn, fun hne => absurd h0 hne⟩ <;>
          simp only [hmsgs, total_mk_append, total_mk_cons, total_mk_nil, mintW, burnW, outW, inW, hself, hr,
            amt_eq, coinsOf_singleton, if_true, Nat.add_zero, Nat.zero_add]
        · refine ⟨mn, shares, 0, 0, ⟨?_, ?_, ?_, ?_⟩, fun _ => hmn, fun hne => absurd h0 hne⟩ <;>
          simp only [hmsgs, total_mk_append, total_mk_cons, total_mk_nil, mintW, burnW, outW, inW, hself, hr,
            amt_eq, coinsOf_singleton, if_true, if_false, Nat.add_zero, Nat.zero_add]
      · refine ⟨mn, shares, 0, shares, ⟨?_, ?_, ?_, ?_⟩, fun _ => hmn, fun hne => absurd h0 hne⟩ <;>
          simp only [hmsgs, total_mk_append, total_mk_cons, total_mk_nil, mintW, burnW, outW, inW, hself,
            amt_eq, coinsOf_singleton, if_true, if_false, Nat.add_zero, Nat.zero_add]
        omega
    · have e0 := hfirst.2 h0
      subst e0
      rcases hshare with ⟨rfl, rfl⟩ | ⟨hu, fmsg, -, rfl⟩
      · by_cases hr : addrOrDefault env rc sender = PM
        · refine ⟨0, shares, shares, 0, ⟨?_, ?_, ?_, ?_⟩, fun e => absurd e h0, fun _ => rfl⟩ <;>
          simp only [hmsgs, total_mk_append, total_mk_cons, total_mk_nil, mintW, burnW, outW, inW, hself, hr,
            amt_eq, coinsOf_singleton, if_true, Nat.add_zero, Nat.zero_add, List.nil_append]
        · refine ⟨0, shares, 0, 0, ⟨?_, ?_, ?_, ?_⟩, fun e => absurd e h0, fun _ => rfl⟩ <;>
          simp only [hmsgs, total_mk_append, total_mk_cons, total_mk_nil, mintW, burnW, outW, inW, hself, hr,
            amt_eq, coinsOf_singleton, if_true, if_false, Nat.add_zero, Nat.zero_add, List.nil_append]
      · refine ⟨0, shares, 0, shares, ⟨?_, ?_, ?_, ?_⟩, fun e => absurd e h0, fun _ => rfl⟩ <;>
          simp only [hmsgs, total_mk_append, total_mk_cons, total_mk_nil, mintW, burnW, outW, inW, hself,
            amt_eq, coinsOf_singleton, if_true, if_false, Nat.add_zero, Nat.zero_add, List.nil_append]
  · left
    refine ⟨hd, nums_of_w0 hmsgs ?_⟩
    have hc : coinsOf [(⟨pool.lpDenom, shares⟩ : Coin)] d = 0 := coinsOf_one_ne hd
    intro m hm
    rcases List.mem_append.1 hm with hm | hm
    · by_cases h0 : env.supply pool.lpDenom = 0
      · obtain ⟨mn, -, rfl⟩ := hfirst.1 h0
        simp only [List.mem_singleton] at hm
        subst hm
        exact w0_mint hd
      · rw [hfirst.2 h0] at hm; cases hm
    · rcases hshare with ⟨-, rfl⟩ | ⟨-, fmsg, -, rfl⟩
      · simp only [List.mem_singleton] at hm
        subst hm
        exact w0_mint hd
      · simp only [List.mem_cons, List.mem_singleton, List.not_mem_nil, or_false] at hm
        rcases hm with rfl | rfl
        · exact w0_mint hd
        · exact w0_exec hc

theorem provide_law {d : Denom} {s s' : PmState} {env : PmEnv} {sender : Addr} {funds : List Coin}
    {ls ss : Option Nat} {rc : Option Addr} {pid : String} {u : Option Nat} {l : Option String} {r : Response}
    (hself : env.self = PM) (hwf : C01.WF s) (hfunds : (funds.map (·.denom)).Nodup) (hns : 2 ≤ funds.length)
    (h : provideLiquidity s env sender funds ls ss rc pid u l = .ok (s', r)) :
    ∃ first, Law s s' env funds (.provideLiquidity ls ss rc pid u l) r d first := by
  obtain ⟨pool, deps, assets', hp, hagg, hfold, hs', hcase⟩ := provide_nums (d := d) hself hfunds hns h
  have h0 := C01.reserves_savePool (p' := { pool with assets := assets' }) hwf.1 hp rfl d
  have h1 := C01.depositFold_coins hfold d
  have h2 := C01.aggregateCoins_coins hagg d
  rw [← hs'] at h0
  have hR : reserves s' d = reserves s d + coinsOf funds d := by
    have : coinsOf ({ pool with assets := assets' } : PoolInfo).assets d = coinsOf assets' d := rfl
    omega
  rcases hcase with ⟨hne, n⟩ | ⟨hd, first, shares, gift, O, n, hz, hnz⟩
  · refine ⟨0, ⟨by rw [n.o, n.i]; omega, ?_⟩⟩
    rintro (h1 | h1)
    · exact absurd n.m h1
    · exact absurd rfl h1
  · refine ⟨first, ⟨by rw [n.o, n.i]; omega, fun _ => ⟨ls, ss, rc, pid, u, l, pool, rfl, hp, hd, hz, hnz⟩⟩⟩

theorem withdraw_law {d : Denom} {s s' : PmState} {env : PmEnv} {sender : Addr} {funds : List Coin}
    {pid : String} {r : Response} (hwf : C01.WF s)
    (h : withdrawLiquidity s env sender funds pid = .ok (s', r)) :
    reserves s' d + total (outW env.tfFees d) r.msgs ≤ reserves s d + coinsOf funds d := by
  obtain ⟨pool, amount, refunds, assets', hp, hf, hfold, hs', hmsgs⟩ := withdraw_ok h
  have h0 := C01.reserves_savePool (p' := { pool with assets := assets' }) hwf.1 hp rfl d
  have h1 := C01.withdrawFold_coins hfold d
  rw [← hs'] at h0
  have e : coinsOf ({ pool with assets := assets' } : PoolInfo).assets d = coinsOf assets' d := rfl
  rw [hmsgs, hf]
  simp only [total_mk_cons, total_mk_nil, outW, coinsOf_singleton, Nat.add_zero]
  omega

/-- the law for every handler but the single-asset deposit -/
theorem handler_law {s s' : PmState} {env : PmEnv} {sender : Addr} {funds : List Coin} {m : PmMsg}
    {r : Response} (henv : env.self = PM) (hwf : C01.WF s)
    (htf : (env.tfFees.map (·.denom)).Nodup) (hsm : ∀ f ∈ env.tfFees, f.amount ≤ U128_MAX / 2)
    (hfee : s.config.creationFee.amount ≤ U128_MAX / 2) (hfunds : (funds.map (·.denom)).Nodup)
    (hns : SysPm.NotSingle m funds) (h : pmExecute s env sender funds m = .ok (s', r)) (d : Denom) :
    ∃ first, Law s s' env funds m r d first := by
  cases m with
  | createPool denoms decimals fees pt id =>
    have h' := h
    simp only [pmExecute] at h'
    obtain ⟨hres, hcons⟩ := C01.create_pool_conserves_partial hwf htf hfunds
      (fun f hf _ => SysPm.half_add_half (hsm f hf) hfee) h' d
    rw [outflow_eq_total (create_isLeaf h')] at hcons
    exact ⟨0, law_of_conserves (by intro _ _ _ _ _ _ e; cases e) h (by omega)⟩
  | provideLiquidity ls ss rc pid u l =>
    simp only [pmExecute] at h
    exact provide_law henv hwf hfunds hns h
  | swap ask b ms rc pid =>
    have h' := h
    simp only [pmExecute] at h'
    have hcons := C01.swap_conserves hwf h' d
    rw [outflow_eq_total (swap_isLeaf h')] at hcons
    exact ⟨0, law_of_conserves (by intro _ _ _ _ _ _ e; cases e) h (by omega)⟩
  | withdrawLiquidity pid =>
    have h' := h
    simp only [pmExecute] at h'
    exact ⟨0, law_of_conserves (by intro _ _ _ _ _ _ e; cases e) h (withdraw_law hwf h')⟩
  | execSwapOps ops mr rc ms =>
    have h' := h
    simp only [pmExecute] at h'
    have hcons := C01.route_conserves hwf h' d
    rw [outflow_eq_total (route_isLeaf h')] at hcons
    exact ⟨0, law_of_conserves (by intro _ _ _ _ _ _ e; cases e) h (by omega)⟩
  | updateConfig fc fm cf t =>
    obtain ⟨hf, hr, hres⟩ := C01.config_conserves_partial hwf.1 (Or.inl ⟨fc, fm, cf, t, rfl⟩) h
    refine ⟨0, law_of_conserves (by intro _ _ _ _ _ _ e; cases e) h ?_⟩
    rw [hr, hres d]; simp
  | updateOwnership a =>
    obtain ⟨hf, hr, hres⟩ := C01.config_conserves_partial hwf.1 (Or.inr ⟨a, rfl⟩) h
    refine ⟨0, law_of_conserves (by intro _ _ _ _ _ _ e; cases e) h ?_⟩
    rw [hr, hres d]; simp

end MantraDex.AllSys
