/-
  Helper lemmas for `Properties/NonVacuity.lean`: what a history without privileged messages leaves alone.

  * `step_nowNs`: only `advance` moves the clock (`execMsg`/`execSubs` never touch `nowNs`);
  * `Quiet`: the transaction is not a configuration / ownership message of the pool manager, the farm manager or the
    epoch manager (syntactic);
  * `quiet_reachable`: a history of external, quiet transactions keeps the epoch manager, the farm manager's and the
    pool manager's configuration, and the clock is the initial clock plus the sum of the `advance`s.
-/
import MantraDex.Model.System
import MantraDex.Proofs.AuthSysLift
import MantraDex.Properties.C15Sys
import MantraDex.Properties.C16Sys

set_option linter.unusedSimpArgs false
set_option linter.unusedVariables false

namespace MantraDex.NonVac
open MantraDex

/-! ### the clock -/

def SameClock (w w' : World) : Prop := w'.nowNs = w.nowNs

theorem clock_lift : AuthSys.Lift (fun _ => True) SameClock (fun _ _ _ => True) where
  refl := fun _ => rfl
  trans := fun h1 h2 => h2.trans h1
  bank := fun _ _ _ => ⟨trivial, rfl⟩
  stable := fun _ _ => trivial
  exec := by
    intro w w2 c sender funds msg resp _ _ h
    refine ⟨trivial, ?_, fun _ _ => trivial⟩
    rcases AuthSys.callExecute_cases h with ⟨m, s, -, -, -, rfl⟩ | ⟨m, s, -, -, -, rfl⟩ |
      ⟨m, s, -, -, -, rfl, -⟩ | ⟨a, o, -, -, -, -, rfl, -⟩ <;> rfl
  reply := by
    intro w w2 c id resp _ h
    refine ⟨trivial, ?_, fun _ _ => trivial⟩
    rcases AuthSys.callReply_cases h with ⟨-, s, -, rfl⟩ | ⟨-, rfl, -⟩ <;> rfl

/-- the time a transaction adds to the clock -/
def adv : Tx → Nat
  | .advance ns => ns
  | _ => 0

/-- only `advance` moves the clock -/
theorem step_nowNs (w : World) (tx : Tx) (k : Option Nat) : (step w tx k).nowNs = w.nowNs + adv tx := by
  unfold step
  cases hr : runTx w tx k with
  | error e => cases tx <;> simp only [adv, Nat.add_zero] <;> (
      -- a rejected `advance` does not exist
      simp only [runTx] at hr; cases hr)
  | ok w' =>
    show w'.nowNs = _
    cases tx with
    | exec sender c msg funds =>
      simp only [runTx] at hr
      exact ((AuthSys.run_lift clock_lift FUEL).1 _ _ _ _ hr trivial trivial).2
    | send frm to coins =>
      simp only [runTx] at hr
      exact ((AuthSys.run_lift clock_lift FUEL).1 _ _ _ _ hr trivial trivial).2
    | advance ns =>
      simp only [runTx] at hr
      cases hr
      rfl

/-! ### configurations -/

/-- not a configuration / ownership message of a manager (syntactic) -/
def Quiet : Tx → Prop
  | .exec _ _ (.pm (.updateConfig ..)) _ => False
  | .exec _ _ (.pm (.updateOwnership _)) _ => False
  | .exec _ _ (.fm (.updateConfig _)) _ => False
  | .exec _ _ (.fm (.updateOwnership _)) _ => False
  | .exec _ _ (.em _) _ => False
  | _ => True

theorem quiet_step (w : World) (tx : Tx) (k : Option Nat) (hext : C01Sys.External tx) (hq : Quiet tx)
    (hids : (w.pm.pools.map (·.id)).Nodup) :
    (step w tx k).em = w.em ∧ (step w tx k).fm.config = w.fm.config ∧ (step w tx k).pm.config = w.pm.config := by
  refine ⟨?_, ?_, ?_⟩
  · rcases C15Sys.em_privileged_frame w tx k hext with h | ⟨sender, m, rfl, -⟩
    · exact h
    · exact hq.elim
  · rcases C15Sys.fm_privileged_frame w tx k hext with h | ⟨sender, m, rfl, ⟨u, rfl, -⟩ | ⟨a, rfl, -⟩⟩
    · exact h.1
    · exact hq.elim
    · exact hq.elim
  · rcases C15Sys.pm_privileged_frame w tx k hext hids with
      h | ⟨sender, m, rfl, ⟨fc, fm, cf, t, rfl, -⟩ | ⟨a, rfl, -⟩⟩
    · exact h.1
    · exact hq.elim
    · exact hq.elim

def run (w0 : World) (txs : List (Tx × Option Nat)) : World := txs.foldl (fun w t => step w t.1 t.2) w0

def advSum : List (Tx × Option Nat) → Nat
  | [] => 0
  | t :: ts => adv t.1 + advSum ts

theorem advSum_take_le : ∀ (txs : List (Tx × Option Nat)) (n : Nat), advSum (txs.take n) ≤ advSum txs
  | [], n => by simp [advSum]
  | t :: ts, 0 => by simp [advSum]
  | t :: ts, n + 1 => by
    rw [List.take_succ_cons]
    have := advSum_take_le ts n
    simp only [advSum]; omega

/-- a history of external, quiet transactions keeps the three configurations; the clock adds up the `advance`s -/
theorem quiet_reachable (w0 : World) (txs : List (Tx × Option Nat))
    (hext : ∀ t ∈ txs, C01Sys.External t.1) (hq : ∀ t ∈ txs, Quiet t.1)
    (hids : (w0.pm.pools.map (·.id)).Nodup) :
    (run w0 txs).em = w0.em ∧ (run w0 txs).fm.config = w0.fm.config ∧ (run w0 txs).pm.config = w0.pm.config ∧
    (run w0 txs).nowNs = w0.nowNs + advSum txs := by
  induction txs generalizing w0 with
  | nil => exact ⟨rfl, rfl, rfl, rfl⟩
  | cons t rest ih =>
    have h1 := quiet_step w0 t.1 t.2 (hext t (List.mem_cons_self ..)) (hq t (List.mem_cons_self ..)) hids
    have hids' := (C16Sys.pools_static_step w0 t.1 t.2 hids).2
    have h2 := ih (step w0 t.1 t.2) (fun t' ht' => hext t' (List.mem_cons_of_mem _ ht'))
      (fun t' ht' => hq t' (List.mem_cons_of_mem _ ht')) hids'
    have hn := step_nowNs w0 t.1 t.2
    show (run (step w0 t.1 t.2) rest).em = _ ∧ (run (step w0 t.1 t.2) rest).fm.config = _ ∧
      (run (step w0 t.1 t.2) rest).pm.config = _ ∧ (run (step w0 t.1 t.2) rest).nowNs = _
    refine ⟨h2.1.trans h1.1, h2.2.1.trans h1.2.1, h2.2.2.1.trans h1.2.2, ?_⟩
    rw [h2.2.2.2, hn]
    simp only [advSum]; omega

/-- … hence so does every prefix -/
theorem quiet_prefix (w0 : World) (txs : List (Tx × Option Nat))
    (hext : ∀ t ∈ txs, C01Sys.External t.1) (hq : ∀ t ∈ txs, Quiet t.1)
    (hids : (w0.pm.pools.map (·.id)).Nodup) (n : Nat) :
    (run w0 (txs.take n)).em = w0.em ∧ (run w0 (txs.take n)).fm.config = w0.fm.config ∧
    (run w0 (txs.take n)).pm.config = w0.pm.config ∧
    (run w0 (txs.take n)).nowNs ≤ w0.nowNs + advSum txs := by
  have h := quiet_reachable w0 (txs.take n) (fun t ht => hext t (List.mem_of_mem_take ht))
    (fun t ht => hq t (List.mem_of_mem_take ht)) hids
  refine ⟨h.1, h.2.1, h.2.2.1, ?_⟩
  rw [h.2.2.2]
  have := advSum_take_le txs n
  omega

end MantraDex.NonVac
