/-
  C17Sys, second part: the pool manager's state through a whole call, without any assumption on the bank:
  * `pm_call_pm`: a call that is not a single-asset deposit = funds, one handler, leaf sub-messages that do not
    touch the pool manager's state;
  * `single_tree_pm`: the single-asset deposit tree (first leg, self-swap, reply, second leg);
  * `top_handler`: the handler of the top-level message of an accepted transaction succeeded;
  and what a handler does to a pool whose swaps are disabled (`handler_frozen`).
-/
import MantraDex.Model.System
import MantraDex.Proofs.NumLemmas
import MantraDex.Proofs.LpSysCall
import MantraDex.Proofs.LpSysValue
import MantraDex.Properties.C17

set_option linter.unusedSimpArgs false
set_option linter.unusedVariables false
set_option linter.tactic.unusedName false

namespace MantraDex.SwSys
open MantraDex MantraDex.LpSys

theorem leafOk_subOk {sm : SubMsg} (h : LeafOk sm) : SysPm.SubOk sm := by
  obtain ⟨hro, hm⟩ := h
  refine ⟨hro, ?_⟩
  rcases hm with hm | hm
  · cases hmsg : sm.msg with
    | wasmExec c cm f => rw [hmsg] at hm; exact hm.elim
    | _ => trivial
  · cases hmsg : sm.msg with
    | wasmExec c cm f =>
      rw [hmsg] at hm
      cases cm with
      | pm m => exact hm.elim
      | _ => trivial
    | _ => trivial

/-- the handler of the top-level message of an accepted call ran on the caller's pool-manager state -/
theorem top_handler {n : Nat} {w w' : World} {sender c : Addr} {m : PmMsg} {funds : List Coin}
    (h : execMsg (n + 1) w sender (.wasmExec c (.pm m) funds) = .ok w') :
    c = PM ∧ ∃ (w1 : World) (s' : PmState) (r : Response), w1.pm = w.pm ∧
      pmExecute w.pm w1.pmEnv sender funds m = .ok (s', r) ∧
      execSubs n { w1 with pm := s' } PM r.msgs = .ok w' := by
  obtain ⟨w1, w2, resp, hpm, hce, hsubs⟩ := C17.execMsg_wasm_ok h
  simp only [callExecute] at hce
  split at hce
  · cases hce
  rename_i hcc
  have hcc : c = PM := by simpa using hcc
  subst hcc
  obtain ⟨⟨s2, r2⟩, hpe, hce⟩ := bind_ok.mp hce
  simp only [pure_ok, Prod.mk.injEq] at hce
  obtain ⟨hw2, hresp⟩ := hce
  subst hw2; subst hresp
  exact ⟨rfl, w1, s2, resp, hpm, by rw [← hpm]; exact hpe, hsubs⟩

/-- a call of the pool manager that is not a single-asset deposit: the pool manager's state afterwards is the
    handler's result -/
theorem pm_call_pm {n : Nat} {w w' : World} {sender c : Addr} {m : PmMsg} {funds : List Coin}
    (hfunds : (funds.map (·.denom)).Nodup) (hns : SysPm.NotSingle m funds)
    (h : execMsg (n + 1) w sender (.wasmExec c (.pm m) funds) = .ok w') :
    ∃ (env : PmEnv) (s' : PmState) (r : Response), env.self = PM ∧
      pmExecute w.pm env sender funds m = .ok (s', r) ∧ w'.pm = s' := by
  obtain ⟨-, w1, s', r, hpm, hpe, hsubs⟩ := top_handler h
  have hleaf := handler_leafOk hfunds hns hpe
  have paid := SysPm.pm_subs r.msgs n _ w' (fun sm hsm => leafOk_subOk (hleaf sm hsm)) hsubs
  exact ⟨w1.pmEnv, s', r, rfl, hpe, paid.pm⟩

/-- the execution tree of a single-asset deposit: only the pool manager's state -/
theorem single_tree_pm {w w' : World} {sender c : Addr} {coin : Coin} {ls ss : Option Nat} {rc : Option Addr}
    {pid : String} {u : Option Nat} {l : Option String}
    (hr : execMsg FUEL w sender (.wasmExec c (.pm (.provideLiquidity ls ss rc pid u l)) [coin]) = .ok w') :
    ∃ (buf : SingleSideBuffer) (ask : Denom) (env3 env5 : PmEnv) (s3 s5 : PmState) (r3 r5 : Response),
      buf.poolId = pid ∧ env3.self = PM ∧ env5.self = PM ∧
      swapHandler { w.pm with buffer := some buf } env3 PM [buf.offerHalf] ask none ss none pid = .ok (s3, r3) ∧
      (([buf.offerHalf, buf.expectedAsk] : List Coin).map (·.denom)).Nodup ∧
      provideLiquidity { s3 with buffer := none } env5 PM [buf.offerHalf, buf.expectedAsk] buf.liqSlip buf.swapSlip
        (some buf.receiver) buf.poolId buf.unlocking buf.lockId = .ok (s5, r5) ∧
      w'.pm = s5 := by
  rw [show FUEL = 63 + 1 from rfl] at hr
  obtain ⟨-, w1, s2, resp, hpm1, hpe, hsubs⟩ := top_handler hr
  -- the first leg
  simp only [pmExecute] at hpe
  obtain ⟨pool, -, -, hp, -⟩ := pl_single (agg_single coin) hpe
  obtain ⟨buf, sim, ask, hs2, hsim, hoh, hea, -, -, -, hpid, -, -, -, -, hmsgs⟩ := C14.first_leg_shape hp hpe
  rw [hmsgs] at hsubs
  obtain ⟨m, w3, w4, resp4, hm, hswap, hreply, hsubs4⟩ := SysPm.subs_single_success rfl hsubs
  obtain rfl : m = 62 := by omega
  -- the nested swap
  have hswap' : execMsg (61 + 1) { w1 with pm := s2 } PM
      (.wasmExec PM (.pm (.swap ask none ss none pid)) [buf.offerHalf]) = .ok w3 := hswap
  obtain ⟨env3, s3, r3, henv3, hsw, hpm3⟩ :=
    pm_call_pm (w := { w1 with pm := s2 }) (funds := [buf.offerHalf]) (m := .swap ask none ss none pid)
      (by simp) trivial hswap'
  have hbuf3 : w3.pm.buffer = some buf := by
    rw [hpm3, handler_buffer (funds := [buf.offerHalf]) (m := .swap ask none ss none pid) (by simp) trivial hsw, hs2]
  simp only [pmExecute] at hsw
  have hne : coin.denom ≠ ask := by
    obtain ⟨offer, sr, hoff, hps, -⟩ := C04.swapHandler_messages hsw
    have hoff' : offer = ⟨coin.denom, coin.amount / 2⟩ := by
      rw [hoh] at hoff
      simpa using hoff.symm
    subst hoff'
    have := SysPm.performSwap_denoms_ne hps
    exact this
  -- the reply
  simp only [callReply, beq_self_eq_true, if_true] at hreply
  obtain ⟨⟨s4, r4⟩, hrep, hreply⟩ := bind_ok.mp hreply
  simp only [pure_ok, Prod.mk.injEq] at hreply
  obtain ⟨rfl, rfl⟩ := hreply
  obtain ⟨-, -, hs4, hmsgs4⟩ := C14.reply_shape hbuf3 hrep
  -- the second leg
  rw [hmsgs4] at hsubs4
  obtain ⟨m, hm, hsecond⟩ := SysPm.subs_single_never rfl hsubs4
  obtain rfl : m = 61 := by omega
  subst hs4
  have hnd : (([buf.offerHalf, buf.expectedAsk] : List Coin).map (·.denom)).Nodup := by
    rw [hoh]
    simp [hea, hne]
  have hsecond' : execMsg (60 + 1) { w3 with pm := { w3.pm with buffer := none } } PM
      (.wasmExec PM (.pm (.provideLiquidity buf.liqSlip buf.swapSlip (some buf.receiver) buf.poolId
        buf.unlocking buf.lockId)) [buf.offerHalf, buf.expectedAsk]) = .ok w' := hsecond
  obtain ⟨env5, s5, r5, henv5, hpl5, hpm5⟩ :=
    pm_call_pm (w := { w3 with pm := { w3.pm with buffer := none } }) (funds := [buf.offerHalf, buf.expectedAsk])
      (m := .provideLiquidity buf.liqSlip buf.swapSlip (some buf.receiver) buf.poolId buf.unlocking buf.lockId)
      hnd (Nat.le_refl 2) hsecond'
  simp only [pmExecute] at hpl5
  refine ⟨buf, ask, env3, env5, s3, s5, r3, r5, hpid, henv3, henv5, ?_, hnd, ?_, hpm5⟩
  · rw [hs2] at hsw
    exact hsw
  · rw [hpm3] at hpl5
    exact hpl5

end MantraDex.SwSys
