/-
  Exact effect of the bank operations (`send`, `burn`, `mint`) on balances and supply, for arbitrary
  coin lists, in both directions: what a successful call did, and when a call succeeds.
-/
import MantraDex.Model.System
import MantraDex.Proofs.NumLemmas
import MantraDex.Properties.C01

set_option linter.unusedSimpArgs false
set_option linter.unusedVariables false

namespace MantraDex
open MantraDex.C01 (coinsOf amt coinsOf_cons coinsOf_nil coinsOf_filter_nonzero normalizeCoins_ok)

/-! ### the three raw folds -/

theorem subFold_full {a : Addr} (cs : List Coin) {b b' : Bank}
    (h : cs.foldlM (fun b c => b.subCoin a c) b = .ok b') :
    (∀ d, coinsOf cs d ≤ b.bal a d) ∧
    (∀ x d, b'.bal x d = if x = a then b.bal x d - coinsOf cs d else b.bal x d) ∧
    (∀ d, b'.supply d = b.supply d - coinsOf cs d) ∧ b'.calls = b.calls ∧ b'.failAt = b.failAt := by
  induction cs generalizing b with
  | nil =>
    simp only [List.foldlM_nil, pure_ok] at h
    subst h
    refine ⟨fun d => by simp, fun x d => by simp, fun d => by simp, rfl, rfl⟩
  | cons c cs ih =>
    simp only [List.foldlM_cons] at h
    obtain ⟨b1, h1, h⟩ := bind_ok.mp h
    obtain ⟨i1, i2, i3, i4, i5⟩ := ih h
    unfold Bank.subCoin at h1
    split at h1
    · rename_i hle
      cases h1
      simp only at i1 i2 i3 i4 i5
      refine ⟨?_, ?_, ?_, i4, i5⟩
      · intro d
        have := i1 d
        rw [coinsOf_cons]
        by_cases hd : d = c.denom
        · subst hd
          simp only [amt, beq_self_eq_true, if_true, and_self] at this ⊢
          omega
        · have hd' : (c.denom == d) = false := by simpa using fun e => hd e.symm
          simp only [amt, hd', hd, and_false, if_false, Bool.false_eq_true] at this ⊢
          omega
      · intro x d
        rw [i2 x d, coinsOf_cons]
        by_cases hx : x = a
        · subst hx
          by_cases hd : d = c.denom
          · subst hd
            simp only [amt, beq_self_eq_true, if_true, and_self]
            omega
          · have hd' : (c.denom == d) = false := by simpa using fun e => hd e.symm
            simp only [amt, hd', hd, and_false, if_false, Bool.false_eq_true, if_true]
            omega
        · simp only [hx, if_false, false_and]
      · intro d
        rw [i3 d, coinsOf_cons]
        by_cases hd : d = c.denom
        · subst hd
          simp only [amt, beq_self_eq_true, if_true]
          omega
        · have hd' : (c.denom == d) = false := by simpa using fun e => hd e.symm
          simp only [amt, hd', hd, if_false, Bool.false_eq_true]
          omega
    · cases h1

theorem subFold_ex {a : Addr} (cs : List Coin) (b : Bank) (h : ∀ d, coinsOf cs d ≤ b.bal a d) :
    ∃ b', cs.foldlM (fun b c => b.subCoin a c) b = .ok b' := by
  induction cs generalizing b with
  | nil => exact ⟨b, rfl⟩
  | cons c cs ih =>
    have hc : c.amount ≤ b.bal a c.denom := by
      have := h c.denom
      rw [coinsOf_cons] at this
      simp only [amt, beq_self_eq_true, if_true] at this
      omega
    simp only [List.foldlM_cons, Bank.subCoin, if_pos hc]
    apply ih
    intro d
    have := h d
    rw [coinsOf_cons] at this
    simp only
    by_cases hd : d = c.denom
    · subst hd
      simp only [amt, beq_self_eq_true, if_true, and_self] at this ⊢
      omega
    · have hd' : (c.denom == d) = false := by simpa using fun e => hd e.symm
      simp only [amt, hd', hd, and_false, if_false, Bool.false_eq_true] at this ⊢
      omega

theorem addFold_full {a : Addr} (cs : List Coin) (b : Bank) :
    (∀ x d, (cs.foldl (fun b c => b.addCoin a c) b).bal x d =
      b.bal x d + if x = a then coinsOf cs d else 0) ∧
    (∀ d, (cs.foldl (fun b c => b.addCoin a c) b).supply d = b.supply d + coinsOf cs d) ∧
    (cs.foldl (fun b c => b.addCoin a c) b).calls = b.calls ∧
    (cs.foldl (fun b c => b.addCoin a c) b).failAt = b.failAt := by
  induction cs generalizing b with
  | nil => refine ⟨fun x d => by simp, fun d => by simp, rfl, rfl⟩
  | cons c cs ih =>
    simp only [List.foldl_cons]
    obtain ⟨i1, i2, i3, i4⟩ := ih (b.addCoin a c)
    refine ⟨?_, ?_, by rw [i3]; rfl, by rw [i4]; rfl⟩
    · intro x d
      rw [i1 x d, coinsOf_cons]
      unfold Bank.addCoin
      by_cases hx : x = a
      · subst hx
        by_cases hd : d = c.denom
        · subst hd
          simp only [amt, beq_self_eq_true, if_true, and_self]
          omega
        · have hd' : (c.denom == d) = false := by simpa using fun e => hd e.symm
          simp only [amt, hd', hd, and_false, if_false, Bool.false_eq_true, if_true]
          omega
      · simp only [hx, if_false, false_and]
    · intro d
      rw [i2 d, coinsOf_cons]
      unfold Bank.addCoin
      by_cases hd : d = c.denom
      · subst hd
        simp only [amt, beq_self_eq_true, if_true]
        omega
      · have hd' : (c.denom == d) = false := by simpa using fun e => hd e.symm
        simp only [amt, hd', hd, if_false, Bool.false_eq_true]
        omega

/-! ### specifications -/

/-- `b'` is `b` after `cs` moved from `frm` to `to` -/
structure Moves (b b' : Bank) (frm to : Addr) (cs : List Coin) : Prop where
  le : ∀ d, coinsOf cs d ≤ b.bal frm d
  bal : ∀ x d, b'.bal x d + (if x = frm then coinsOf cs d else 0) =
    b.bal x d + (if x = to then coinsOf cs d else 0)
  sup : ∀ d, b'.supply d = b.supply d - coinsOf cs d + coinsOf cs d
  fa : b'.failAt = b.failAt

/-- `b'` is `b` after `cs` was burned from `frm` -/
structure Burns (b b' : Bank) (frm : Addr) (cs : List Coin) : Prop where
  le : ∀ d, coinsOf cs d ≤ b.bal frm d
  bal : ∀ x d, b'.bal x d + (if x = frm then coinsOf cs d else 0) = b.bal x d
  sup : ∀ d, b'.supply d = b.supply d - coinsOf cs d
  fa : b'.failAt = b.failAt

/-- `b'` is `b` after `cs` was minted to `to` -/
structure Mints (b b' : Bank) (to : Addr) (cs : List Coin) : Prop where
  bal : ∀ x d, b'.bal x d = b.bal x d + if x = to then coinsOf cs d else 0
  sup : ∀ d, b'.supply d = b.supply d + coinsOf cs d
  fa : b'.failAt = b.failAt

theorem tick_ok {b b' : Bank} (h : b.tick = .ok b') :
    b'.bal = b.bal ∧ b'.supply = b.supply ∧ b'.failAt = b.failAt := by
  unfold Bank.tick at h
  simp only at h
  split at h
  · cases h
  · cases h; exact ⟨rfl, rfl, rfl⟩

theorem tick_ex {b : Bank} (h : b.failAt = none) : ∃ b', b.tick = .ok b' := by
  unfold Bank.tick
  simp [h]

theorem burnRaw_spec {b b' : Bank} {a : Addr} {cs : List Coin} (h : b.burnRaw a cs = .ok b') :
    (∃ r, normalizeCoins cs = .ok r) ∧ Burns b b' a cs := by
  unfold Bank.burnRaw at h
  obtain ⟨cs1, hn, h⟩ := bind_ok.mp h
  have := normalizeCoins_ok hn; subst this
  obtain ⟨i1, i2, i3, _, i5⟩ := subFold_full _ h
  simp only [coinsOf_filter_nonzero] at i1 i2 i3
  refine ⟨⟨_, hn⟩, ⟨i1, ?_, i3, i5⟩⟩
  intro x d
  rw [i2 x d]
  by_cases hx : x = a
  · subst hx
    have := i1 d
    simp only [if_true]
    omega
  · simp only [hx, if_false, Nat.add_zero]

theorem burnRaw_ex {b : Bank} {a : Addr} {cs r : List Coin} (hn : normalizeCoins cs = .ok r)
    (hle : ∀ d, coinsOf cs d ≤ b.bal a d) : ∃ b', b.burnRaw a cs = .ok b' := by
  unfold Bank.burnRaw
  rw [hn]
  have := normalizeCoins_ok hn; subst this
  exact subFold_ex _ b (by intro d; rw [coinsOf_filter_nonzero]; exact hle d)

theorem mintRaw_spec {b b' : Bank} {a : Addr} {cs : List Coin} (h : b.mintRaw a cs = .ok b') :
    (∃ r, normalizeCoins cs = .ok r) ∧ Mints b b' a cs := by
  unfold Bank.mintRaw at h
  obtain ⟨cs1, hn, h⟩ := bind_ok.mp h
  have := normalizeCoins_ok hn; subst this
  simp only [pure_ok] at h
  subst h
  obtain ⟨i1, i2, _, i4⟩ := addFold_full (a := a) (cs.filter (·.amount ≠ 0)) b
  simp only [coinsOf_filter_nonzero] at i1 i2
  exact ⟨⟨_, hn⟩, ⟨i1, i2, i4⟩⟩

theorem mintRaw_ex {b : Bank} {a : Addr} {cs r : List Coin} (hn : normalizeCoins cs = .ok r) :
    ∃ b', b.mintRaw a cs = .ok b' := by
  unfold Bank.mintRaw
  rw [hn]
  exact ⟨_, rfl⟩

theorem send_spec {b b' : Bank} {frm to : Addr} {cs : List Coin} (h : b.send frm to cs = .ok b') :
    (∃ r, normalizeCoins cs = .ok r) ∧ Moves b b' frm to cs := by
  unfold Bank.send at h
  obtain ⟨b1, h1, h⟩ := bind_ok.mp h
  obtain ⟨b2, h2, h⟩ := bind_ok.mp h
  obtain ⟨t1, t2, t3⟩ := tick_ok h1
  obtain ⟨hn, s⟩ := burnRaw_spec h2
  obtain ⟨_, m⟩ := mintRaw_spec h
  refine ⟨hn, ⟨?_, ?_, ?_, ?_⟩⟩
  · intro d; rw [← t1]; exact s.le d
  · intro x d
    have := s.bal x d
    rw [m.bal, ← t1, ← this]
    omega
  · intro d
    rw [m.sup, s.sup, t2]
  · rw [m.fa, s.fa, t3]

theorem send_ex {b : Bank} {frm to : Addr} {cs r : List Coin} (hf : b.failAt = none)
    (hn : normalizeCoins cs = .ok r) (hle : ∀ d, coinsOf cs d ≤ b.bal frm d) :
    ∃ b', b.send frm to cs = .ok b' := by
  obtain ⟨b1, h1⟩ := tick_ex hf
  obtain ⟨t1, _, _⟩ := tick_ok h1
  obtain ⟨b2, h2⟩ := burnRaw_ex (b := b1) (a := frm) hn (by rw [t1]; exact hle)
  obtain ⟨b3, h3⟩ := mintRaw_ex (b := b2) (a := to) hn
  refine ⟨b3, ?_⟩
  unfold Bank.send
  rw [h1]
  show (b1.burnRaw frm cs >>= fun b => b.mintRaw to cs) = _
  rw [h2]
  exact h3

theorem burn_spec {b b' : Bank} {frm : Addr} {cs : List Coin} (h : b.burn frm cs = .ok b') :
    (∃ r, normalizeCoins cs = .ok r) ∧ Burns b b' frm cs := by
  unfold Bank.burn at h
  obtain ⟨b1, h1, h⟩ := bind_ok.mp h
  obtain ⟨t1, t2, t3⟩ := tick_ok h1
  obtain ⟨hn, s⟩ := burnRaw_spec h
  refine ⟨hn, ⟨?_, ?_, ?_, ?_⟩⟩
  · intro d; rw [← t1]; exact s.le d
  · intro x d; rw [s.bal, t1]
  · intro d; rw [s.sup, t2]
  · rw [s.fa, t3]

theorem burn_ex {b : Bank} {frm : Addr} {cs r : List Coin} (hf : b.failAt = none)
    (hn : normalizeCoins cs = .ok r) (hle : ∀ d, coinsOf cs d ≤ b.bal frm d) :
    ∃ b', b.burn frm cs = .ok b' := by
  obtain ⟨b1, h1⟩ := tick_ex hf
  obtain ⟨t1, _, _⟩ := tick_ok h1
  obtain ⟨b2, h2⟩ := burnRaw_ex (b := b1) (a := frm) hn (by rw [t1]; exact hle)
  refine ⟨b2, ?_⟩
  unfold Bank.burn
  rw [h1]
  exact h2

theorem mint_spec {b b' : Bank} {to : Addr} {cs : List Coin} (h : b.mint to cs = .ok b') :
    (∃ r, normalizeCoins cs = .ok r) ∧ Mints b b' to cs := by
  unfold Bank.mint at h
  obtain ⟨b1, h1, h⟩ := bind_ok.mp h
  obtain ⟨t1, t2, t3⟩ := tick_ok h1
  obtain ⟨hn, m⟩ := mintRaw_spec h
  refine ⟨hn, ⟨?_, ?_, ?_⟩⟩
  · intro x d; rw [m.bal, t1]
  · intro d; rw [m.sup, t2]
  · rw [m.fa, t3]

theorem mint_ex {b : Bank} {to : Addr} {cs r : List Coin} (hf : b.failAt = none)
    (hn : normalizeCoins cs = .ok r) : ∃ b', b.mint to cs = .ok b' := by
  obtain ⟨b1, h1⟩ := tick_ex hf
  obtain ⟨b2, h2⟩ := mintRaw_ex (b := b1) (a := to) hn
  refine ⟨b2, ?_⟩
  unfold Bank.mint
  rw [h1]
  exact h2

end MantraDex
