/-
  Inversion lemmas for the checked-arithmetic primitives of `Model/Num.lean`.
  All are `iff`s in one simp-normal form: `op … = .ok y ↔ guard ∧ y = value`.
-/
import MantraDex.Model.Num

namespace MantraDex

@[simp] theorem fit_ok {m x y : Nat} {e : Err} : fit m x e = .ok y ↔ x ≤ m ∧ y = x := by
  unfold fit; split
  · simp_all [eq_comm]
  · simp; omega

@[simp] theorem ckAdd_ok {m a b y : Nat} : ckAdd m a b = .ok y ↔ a + b ≤ m ∧ y = a + b := by
  simp [ckAdd]

@[simp] theorem ckMul_ok {m a b y : Nat} : ckMul m a b = .ok y ↔ a * b ≤ m ∧ y = a * b := by
  simp [ckMul]

@[simp] theorem ckSub_ok {a b y : Nat} : ckSub a b = .ok y ↔ b ≤ a ∧ y = a - b := by
  unfold ckSub; split
  · simp_all [eq_comm]
  · simp; omega

@[simp] theorem ckDiv_ok {a b y : Nat} : ckDiv a b = .ok y ↔ b ≠ 0 ∧ y = a / b := by
  unfold ckDiv; split <;> simp_all [eq_comm]

@[simp] theorem ckRem_ok {a b y : Nat} : ckRem a b = .ok y ↔ b ≠ 0 ∧ y = a % b := by
  unfold ckRem; split <;> simp_all [eq_comm]

@[simp] theorem mulRatio_ok {m a n d y : Nat} :
    mulRatio m a n d = .ok y ↔ d ≠ 0 ∧ a * n / d ≤ m ∧ y = a * n / d := by
  unfold mulRatio; split <;> simp_all

@[simp] theorem mulFloorFrac_ok {m a n d y : Nat} :
    mulFloorFrac m a n d = .ok y ↔ d ≠ 0 ∧ a * n / d ≤ m ∧ y = a * n / d := by
  simp [mulFloorFrac]

@[simp] theorem divFloorFrac_ok {m a n d y : Nat} :
    divFloorFrac m a n d = .ok y ↔ n ≠ 0 ∧ a * d / n ≤ m ∧ y = a * d / n := by
  simp [divFloorFrac]

@[simp] theorem decFromRatio_ok {m n d y : Nat} :
    decFromRatio m n d = .ok y ↔ d ≠ 0 ∧ n * ONE18 / d ≤ m ∧ y = n * ONE18 / d := by
  unfold decFromRatio; split <;> simp_all

@[simp] theorem decMul_ok {m a b y : Nat} :
    decMul m a b = .ok y ↔ a * b / ONE18 ≤ m ∧ y = a * b / ONE18 := by
  simp [decMul]

@[simp] theorem decDiv_ok {m a b y : Nat} :
    decDiv m a b = .ok y ↔ b ≠ 0 ∧ a * ONE18 / b ≤ m ∧ y = a * ONE18 / b := by
  simp [decDiv]

@[simp] theorem orPanic_ok {α : Type} {r : R α} {y : α} : orPanic r = .ok y ↔ r = .ok y := by
  unfold orPanic; cases r <;> simp

/-- bind inversion for `Except`: the workhorse for unfolding `do` blocks -/
theorem bind_ok {α β : Type} {x : R α} {f : α → R β} {y : β} :
    (x >>= f) = .ok y ↔ ∃ a, x = .ok a ∧ f a = .ok y := by
  cases x <;> simp [bind, Except.bind]

theorem map_ok {α β : Type} {x : R α} {f : α → β} {y : β} :
    (f <$> x) = .ok y ↔ ∃ a, x = .ok a ∧ y = f a := by
  cases x <;> simp [Functor.map, Except.map, eq_comm]

@[simp] theorem pure_ok {α : Type} {a y : α} : (pure a : R α) = .ok y ↔ y = a := by
  simp [pure, Except.pure, eq_comm]

theorem ONE18_pos : 0 < ONE18 := by decide

/-! ### floor-division facts over arbitrary naturals (constants stay folded in the callers) -/

theorem min_mono_left {a b c : Nat} (h : a ≤ b) : min a c ≤ min b c := by omega

theorem div_mul_le_mul_div (a c k : Nat) : a / k * c ≤ a * c / k := by
  rcases Nat.eq_zero_or_pos k with rfl | hk
  · simp
  · rw [Nat.le_div_iff_mul_le hk, Nat.mul_right_comm]
    exact Nat.mul_le_mul_right _ (Nat.div_mul_le_self a k)

theorem div_add_div_le (a b k : Nat) : a / k + b / k ≤ (a + b) / k := by
  rcases Nat.eq_zero_or_pos k with rfl | hk
  · simp
  · rw [Nat.le_div_iff_mul_le hk, Nat.add_mul]
    exact Nat.add_le_add (Nat.div_mul_le_self a k) (Nat.div_mul_le_self b k)

theorem mul_div_le_of_le {x m k : Nat} (h : m ≤ k) : x * m / k ≤ x := by
  rcases Nat.eq_zero_or_pos k with rfl | hk
  · simp
  · calc x * m / k ≤ x * k / k := Nat.div_le_div_right (Nat.mul_le_mul_left _ h)
      _ = x := Nat.mul_div_cancel _ hk

theorem le_mul_div_of_le {x m k : Nat} (hk : 0 < k) (h : k ≤ m) : x ≤ x * m / k := by
  calc x = x * k / k := (Nat.mul_div_cancel _ hk).symm
    _ ≤ x * m / k := Nat.div_le_div_right (Nat.mul_le_mul_left _ h)

/-- ⌊⌊a·k·m / k⌋ / k⌋ = ⌊a·m / k⌋ : the double floor of `Decimal::from_ratio(a,1) * m` then
    `to_uint_floor` is a single floor -/
theorem mul_mul_div_cancel (a k m : Nat) (hk : 0 < k) : a * k * m / k = a * m := by
  rw [Nat.mul_assoc, Nat.mul_comm k m, ← Nat.mul_assoc, Nat.mul_div_cancel _ hk]

end MantraDex
