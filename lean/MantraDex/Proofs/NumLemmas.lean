/-
  Inversion lemmas for the checked-arithmetic primitives of `Model/Num.lean`.
  All are `iff`s in one simp-normal form: `op … = .ok y ↔ guard ∧ y = value`.
-/
import MantraDex.Model.Num

namespace MantraDex

@[simp] theorem fit_ok {m x y : Nat} {e : Err} : fit m x e = .ok y ↔ x ≤ m ∧ y = x := by
  unfold fit; split
  · simp_all [eq_comm]
  · simp; omega

@[simp] theorem ckAdd_ok {m a b y : Nat} : ckAdd m a b = .ok y ↔ a + b ≤ m ∧ y = a + b := by
  simp [ckAdd]

@[simp] theorem ckMul_ok {m a b y : Nat} : ckMul m a b = .ok y ↔ a * b ≤ m ∧ y = a * b := by
  simp [ckMul]

@[simp] theorem ckSub_ok {a b y : Nat} : ckSub a b = .ok y ↔ b ≤ a ∧ y = a - b := by
  unfold ckSub; split
  · simp_all [eq_comm]
  · simp; omega

@[simp] theorem ckDiv_ok {a b y : Nat} : ckDiv a b = .ok y ↔ b ≠ 0 ∧ y = a / b := by
  unfold ckDiv; split <;> simp_all [eq_comm]

@[simp] theorem ckRem_ok {a b y : Nat} : ckRem a b = .ok y ↔ b ≠ 0 ∧ y = a % b := by
  unfold ckRem; split <;> simp_all [eq_comm]

@[simp] theorem mulRatio_ok {m a n d y : Nat} :
    mulRatio m a n d = .ok y ↔ d ≠ 0 ∧ a * n / d ≤ m ∧ y = a * n / d := by
  unfold mulRatio; split <;> simp_all

@[simp] theorem mulFloorFrac_ok {m a n d y : Nat} :
    mulFloorFrac m a n d = .ok y ↔ d ≠ 0 ∧ a * n / d ≤ m ∧ y = a * n / d := by
  simp [mulFloorFrac]

@[simp] theorem divFloorFrac_ok {m a n d y : Nat} :
    divFloorFrac m a n d = .ok y ↔ n ≠ 0 ∧ a * d / n ≤ m ∧ y = a * d / n := by
  simp [divFloorFrac]

@[simp] theorem decFromRatio_ok {m n d y : Nat} :
    decFromRatio m n d = .ok y ↔ d ≠ 0 ∧ n * ONE18 / d ≤ m ∧ y = n * ONE18 / d := by
  unfold decFromRatio; split <;> simp_all

@[simp] theorem decMul_ok {m a b y : Nat} :
    decMul m a b = .ok y ↔ a * b / ONE18 ≤ m ∧ y = a * b / ONE18 := by
  simp [decMul]

@[simp] theorem decDiv_ok {m a b y : Nat} :
    decDiv m a b = .ok y ↔ b ≠ 0 ∧ a * ONE18 / b ≤ m ∧ y = a * ONE18 / b := by
  simp [decDiv]

/-- bind inversion for `Except`: the workhorse for unfolding `do` blocks -/
theorem bind_ok {α β : Type} {x : R α} {f : α → R β} {y : β} :
    (x >>= f) = .ok y ↔ ∃ a, x = .ok a ∧ f a = .ok y := by
  cases x <;> simp [bind, Except.bind]

@[simp] theorem pure_ok {α : Type} {a y : α} : (pure a : R α) = .ok y ↔ y = a := by
  simp [pure, Except.pure, eq_comm]

theorem ONE18_pos : 0 < ONE18 := by decide

end MantraDex
