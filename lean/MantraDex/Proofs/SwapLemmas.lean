/-
  Inversion lemmas for the constant-product swap computation shared by C03 and C12.
-/
import MantraDex.Model.Pool
import MantraDex.Proofs.NumLemmas

set_option linter.unusedSimpArgs false

namespace MantraDex

/-- double floor of `Decimal256::from_ratio(n, d).to_uint_floor()`: ⌊⌊n·k/d⌋/k⌋ = ⌊n/d⌋ -/
theorem double_floor (n d k : Nat) (hk : 0 < k) : n * k / d / k = n / d := by
  rw [Nat.div_div_eq_div_mul, Nat.mul_div_mul_right _ _ hk]

/-- inversion of `computeSwapCP`: the gross output is ⌊Y·o/(X+o)⌋ and the result is
    `getSwapComputation` of it and its fees -/
theorem computeSwapCP_inv {p : PoolInfo} {X Y o : Nat} {c : SwapComputation}
    (h : computeSwapCP p X Y o = .ok c) :
    X + o ≠ 0 ∧ ∃ slip fc, computeFees p.fees (Y * o / (X + o)) = .ok fc ∧
      getSwapComputation (Y * o / (X + o)) slip fc = .ok c := by
  unfold computeSwapCP at h
  simp only [bind_ok, ckMul_ok, ckAdd_ok, orPanic_ok, decFromRatio_ok, fit_ok, decMul_ok, ckSub_ok,
    decFloor] at h
  obtain ⟨num, ⟨_, rfl⟩, den, ⟨_, rfl⟩, q, ⟨hden, _, rfl⟩, rate, _, o18, _, ideal, _, slip, _,
    fc, hfc, hc⟩ := h
  rw [double_floor _ _ _ ONE18_pos] at hfc hc
  exact ⟨hden, slip, fc, hfc, hc⟩

/-- `get_swap_computation`: net return + the four fee amounts = gross output -/
theorem getSwapComputation_sum {gross slip : Nat} {fc : FeesComputation} {c : SwapComputation}
    (h : getSwapComputation gross slip fc = .ok c) :
    c.ret + c.swapFee + c.protocolFee + c.burnFee + c.extraFees = gross := by
  unfold getSwapComputation at h
  simp only [bind_ok, pure_ok, ckSub_ok, ckAdd_ok, fit_ok] at h
  obtain ⟨_, ⟨_, rfl⟩, _, ⟨_, rfl⟩, _, ⟨_, rfl⟩, _, ⟨_, rfl⟩, _, _, _, _, _, _, _, _, _, ⟨_, rfl⟩, _, _,
    _, ⟨_, rfl⟩, _, ⟨_, rfl⟩, _, ⟨_, rfl⟩, _, ⟨_, rfl⟩, rfl⟩ := h
  simp only
  omega

end MantraDex
