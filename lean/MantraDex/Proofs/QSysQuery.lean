/-
  Query entry points of `Model/Queries.lean` versus the chained / handler-level definitions:
  `simulateSwapOpsFull` carries `simChain`'s amount; `queryReverseSimulation` on a constant-product pool is
  `computeOfferAmount` on the two reserves; `querySimulation` on a constant-product pool is `computeSwapCP`.
-/
import MantraDex.Model.System
import MantraDex.Model.Queries
import MantraDex.Proofs.NumLemmas
import MantraDex.Properties.C12

set_option linter.unusedSimpArgs false
set_option linter.unusedVariables false

namespace MantraDex.QSys
open MantraDex

/-- one step of the fold of `simulateSwapOpsFull` -/
def simStep (s : PmState) (acc : RouteSim) (op : SwapOp) : R RouteSim := do
  let c ← querySimulation s ⟨op.tokenIn, acc.amount⟩ op.tokenOut op.poolId
  pure { amount := c.ret, slippage := pushPos acc.slippage c.slippage op.tokenOut,
         swapFees := pushPos acc.swapFees c.swapFee op.tokenOut,
         protocolFees := pushPos acc.protocolFees c.protocolFee op.tokenOut,
         burnFees := pushPos acc.burnFees c.burnFee op.tokenOut,
         extraFees := pushPos acc.extraFees c.extraFees op.tokenOut }

theorem simFold_chain (s : PmState) (ops : List SwapOp) (acc r : RouteSim)
    (h : ops.foldlM (simStep s) acc = .ok r) : C12.simChain s ops acc.amount = .ok r.amount := by
  induction ops generalizing acc with
  | nil =>
    simp only [List.foldlM_nil, pure_ok] at h
    subst h
    rfl
  | cons op ops ih =>
    simp only [List.foldlM_cons] at h
    obtain ⟨acc1, h1, h⟩ := bind_ok.mp h
    unfold simStep at h1
    obtain ⟨c, hc, h1⟩ := bind_ok.mp h1
    simp only [pure_ok] at h1
    subst h1
    have := ih _ h
    simp only at this
    rw [C12.simChain]
    simp only [hc]
    exact this

theorem simulateSwapOpsFull_inv {s : PmState} {amount : Nat} {ops : List SwapOp} {r : RouteSim}
    (h : simulateSwapOpsFull s amount ops = .ok r) :
    ∃ r0, ops.foldlM (simStep s)
        { amount := amount, slippage := [], swapFees := [], protocolFees := [], burnFees := [], extraFees := [] }
        = .ok r0 ∧ r.amount = r0.amount := by
  unfold simulateSwapOpsFull at h
  split at h
  · simp [bind, Except.bind] at h
  · simp only [bind_ok, pure_ok] at h
    obtain ⟨r0, h0, a, _, b, _, c, _, d, _, e, _, rfl⟩ := h
    exact ⟨r0, h0, rfl⟩

/-- the reverse query on a constant-product pool -/
theorem queryReverse_cp_inv {s : PmState} {p : PoolInfo} {pid : String} {ask : Coin} {offerDenom : Denom}
    {q : OfferAmountComputation} (hp : s.getPool pid = .ok p) (hcp : p.ptype = .cp)
    (hq : queryReverseSimulation s ask offerDenom pid = .ok q) :
    ∃ oc ac oi ai od ad, getAssetIndexes p offerDenom ask.denom = .ok (oc, ac, oi, ai, od, ad) ∧
      computeOfferAmount oc.amount ac.amount ask.amount p.fees = .ok q := by
  unfold queryReverseSimulation at hq
  rw [hp] at hq
  obtain ⟨p', hp', hq⟩ := bind_ok.mp hq
  cases hp'
  obtain ⟨⟨oc, ac, oi, ai, od, ad⟩, hidx, hq⟩ := bind_ok.mp hq
  simp only [hcp] at hq
  exact ⟨oc, ac, oi, ai, od, ad, hidx, hq⟩

/-- the simulation query on a constant-product pool -/
theorem querySimulation_cp_inv {s : PmState} {p : PoolInfo} {pid : String} {offer : Coin} {ask : Denom}
    {c : SwapComputation} (hp : s.getPool pid = .ok p) (hcp : p.ptype = .cp)
    (hs : querySimulation s offer ask pid = .ok c) :
    ∃ oc ac oi ai od ad, getAssetIndexes p offer.denom ask = .ok (oc, ac, oi, ai, od, ad) ∧
      computeSwapCP p oc.amount ac.amount offer.amount = .ok c := by
  unfold querySimulation at hs
  rw [hp] at hs
  obtain ⟨p', hp', hs⟩ := bind_ok.mp hs
  cases hp'
  unfold computeSwap at hs
  obtain ⟨⟨oc, ac, oi, ai, od, ad⟩, hidx, hs⟩ := bind_ok.mp hs
  simp only [hcp] at hs
  exact ⟨oc, ac, oi, ai, od, ad, hidx, hs⟩

end MantraDex.QSys
