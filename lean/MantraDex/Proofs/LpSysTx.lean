/-
  Whole pool-manager transactions and their effect on one LP denom `d` (supply and the pool manager's own
  balance), for the LP-token properties (C02Sys): every kind of call incl. the single-asset deposit tree.
-/
import MantraDex.Model.System
import MantraDex.Proofs.NumLemmas
import MantraDex.Proofs.LpSysCall
import MantraDex.Properties.C16Sys
import MantraDex.Properties.C01Sys

set_option linter.unusedSimpArgs false
set_option linter.unusedVariables false
set_option linter.tactic.unusedName false

namespace MantraDex.LpSys
open MantraDex
open MantraDex.C01 (coinsOf amt coinsOf_cons coinsOf_nil coinsOf_singleton)
open MantraDex.C16Sys (LpOk)

/-! ### small facts -/

theorem addrOrDefault_congr {e1 e2 : PmEnv} (h : e1.validAddr = e2.validAddr) (r : Option Addr) (dflt : Addr) :
    addrOrDefault e1 r dflt = addrOrDefault e2 r dflt := by
  unfold addrOrDefault
  rw [h]

theorem minLiq_static {p q : PoolInfo} (h : C16.StaticEq p q) : minLiq p = minLiq q := by
  unfold minLiq
  rw [h.2.2.1, h.2.2.2.1]

theorem pool_unique {s : PmState} (hok : LpOk s) {p q : PoolInfo} (hp : p ∈ s.pools) (hq : q ∈ s.pools)
    (h : p.lpDenom = q.lpDenom) : p = q := by
  rw [hok.2 p hp, hok.2 q hq] at h
  exact C16.eq_of_nodup_ids hok.1 p hp q hq (C16Sys.lpDenomOf_inj h)

/-- `d` is neither a reserve denom of a pool of `w` nor a token-factory fee denom -/
def PlainD (d : Denom) (w : World) : Prop := PlainPools d w.pm ∧ ∀ f ∈ w.tfFees, f.denom ≠ d

/-! ### one call that is not a single-asset deposit, in one denom -/

/-- `pm_call` together with the handler's law for a plain denom -/
theorem call_d {n : Nat} {w w' : World} {sender c : Addr} {m : PmMsg} {funds : List Coin} {d : Denom}
    (hfunds : (funds.map (·.denom)).Nodup) (hns : SysPm.NotSingle m funds) (hc : Covers w.bank)
    (hpl : PlainD d w) (h : execMsg (n + 1) w sender (.wasmExec c (.pm m) funds) = .ok w') :
    ∃ (w1 : World) (s' : PmState) (r : Response), FundsIn w w1 sender funds ∧
      pmExecute w.pm w1.pmEnv sender funds m = .ok (s', r) ∧
      w'.pm = s' ∧ w'.tfFees = w.tfFees ∧ w'.validAddr = w.validAddr ∧ Covers w'.bank ∧
      HEff w.pm w1.pmEnv sender funds m r d ∧
      (w'.bank.supply d + total (burnW w1.pmEnv.tfFees d) r.msgs = w.bank.supply d + total (mintW d) r.msgs) ∧
      (w'.bank.bal PM d + total (outW w1.pmEnv.tfFees d) r.msgs = w1.bank.bal PM d + total (inW d) r.msgs) := by
  obtain ⟨-, w1, s', r, fi, hpe, hpm, htf, hva, hcov, hsup, hbal⟩ := pm_call hfunds hns hc h
  have heff : HEff w.pm w1.pmEnv sender funds m r d :=
    handler_eff rfl hpl.1 (by show ∀ f ∈ w1.tfFees, f.denom ≠ d; rw [fi.tf]; exact hpl.2) hfunds hns hpe
  refine ⟨w1, s', r, fi, hpe, hpm, htf, hva, hcov, heff, ?_, ?_⟩
  · show _ + total (burnW w1.tfFees d) r.msgs = _
    rw [fi.tf]; exact hsup d
  · show _ + total (outW w1.tfFees d) r.msgs = _
    rw [fi.tf]; exact hbal d

/-- the effect of a whole transaction sent to the pool manager on one plain denom -/
structure TxD (w w' : World) (sender : Addr) (m : PmMsg) (d : Denom) : Prop where
  balGe : w.bank.bal PM d ≤ w'.bank.bal PM d
  up : w.bank.supply d < w'.bank.supply d → ∃ ls ss rc pid u l, m = .provideLiquidity ls ss rc pid u l
  down : w'.bank.supply d < w.bank.supply d →
    ∃ pid pool, m = .withdrawLiquidity pid ∧ w.pm.getPool pid = .ok pool ∧ pool.lpDenom = d
  first : w.bank.supply d = 0 → w'.bank.supply d ≠ 0 → ∀ p ∈ w.pm.pools, p.lpDenom = d →
    ∃ mn, minLiq p = some mn ∧ w.bank.bal PM d + mn ≤ w'.bank.bal PM d
  exact : w.pm.config.feeCollector ≠ PM →
    (∀ ls ss rc pid u l, m = .provideLiquidity ls ss rc pid u l →
      addrOrDefault w.pmEnv rc sender ≠ PM ∧ w.validAddr (addrOrDefault w.pmEnv rc sender) = true) →
    w'.bank.bal PM d = w.bank.bal PM d ∨
    (w.bank.supply d = 0 ∧ ∀ p ∈ w.pm.pools, p.lpDenom = d →
      ∃ mn, minLiq p = some mn ∧ w'.bank.bal PM d = w.bank.bal PM d + mn)

theorem tx_leaf_d {n : Nat} {w w' : World} {sender c : Addr} {m : PmMsg} {funds : List Coin} {d : Denom}
    (hs : sender ≠ PM) (hfunds : (funds.map (·.denom)).Nodup) (hns : SysPm.NotSingle m funds)
    (hc : Covers w.bank) (hok : LpOk w.pm) (hpl : PlainD d w)
    (h : execMsg (n + 1) w sender (.wasmExec c (.pm m) funds) = .ok w') : TxD w w' sender m d := by
  obtain ⟨w1, s', r, fi, hpe, hpm, htf, hva, hcov, heff, hsup, hbal⟩ := call_d hfunds hns hc hpl h
  have hb1 := fi.bal d
  simp only [hs, if_false] at hb1
  cases heff with
  | neutral nn hf =>
    rw [nn.m, nn.b] at hsup
    rw [nn.o, nn.i] at hbal
    refine ⟨by omega, fun h => by omega, fun h => by omega, fun h0 h1 => by omega, fun _ _ => Or.inl (by omega)⟩
  | create _ I nn hI hfc =>
    rw [nn.m, nn.b] at hsup
    rw [nn.o, nn.i] at hbal
    refine ⟨by omega, fun h => by omega, fun h => by omega, fun h0 h1 => by omega,
      fun hne _ => Or.inl (by have := hfc hne; omega)⟩
  | deposit ls ss rc pid u l hm pool hp hd first shares gift O nn hf h0 h1 hg =>
    rw [nn.m, nn.b] at hsup
    rw [nn.o, nn.i] at hbal
    obtain ⟨hmem, -⟩ := getPool_ok hp
    have hsupply : w1.pmEnv.supply d = w.bank.supply d := fi.sup d
    rw [hsupply] at h0 h1
    have huniq : ∀ p ∈ w.pm.pools, p.lpDenom = d → p = pool := fun p hpm' hpd =>
      pool_unique hok hpm' hmem (hpd.trans hd.symm)
    refine ⟨by omega, fun _ => ⟨ls, ss, rc, pid, u, l, hm⟩, fun h => by omega, ?_, ?_⟩
    · intro hz _ p hpm' hpd
      rw [huniq p hpm' hpd]
      exact ⟨first, h0 hz, by omega⟩
    · intro _ hrecv
      have hgift : gift = 0 := by
        rcases hg with hg | ⟨-, hr, -⟩
        · exact hg
        · have := (hrecv ls ss rc pid u l hm).1
          rw [addrOrDefault_congr (e2 := w1.pmEnv) (by show w.validAddr = w1.validAddr; rw [fi.va])] at this
          exact absurd hr this
      by_cases hz : w.bank.supply d = 0
      · right
        refine ⟨hz, fun p hpm' hpd => ?_⟩
        rw [huniq p hpm' hpd]
        exact ⟨first, h0 hz, by omega⟩
      · left
        have := h1 hz
        omega
  | withdraw pid hm pool hp hd amount hfu nn =>
    rw [nn.m, nn.b] at hsup
    rw [nn.o, nn.i] at hbal
    have hF : coinsOf funds d = amount := by rw [hfu, coinsOf_singleton, amt_eq]
    refine ⟨by omega, fun h => by omega, fun _ => ⟨pid, pool, hm, hp, hd⟩, fun h0 h1 => by omega,
      fun _ _ => Or.inl (by omega)⟩

theorem lpOk_of_pools {s s' : PmState} (h : s'.pools = s.pools) (hok : LpOk s) : LpOk s' := by
  unfold LpOk; rw [h]; exact hok

/-- a single-asset deposit by an external account -/
theorem tx_single_d {w w' : World} {sender c : Addr} {coin : Coin} {ls ss : Option Nat} {rc : Option Addr}
    {pid : String} {u : Option Nat} {l : Option String} {d : Denom} (hs : sender ≠ PM) (hc : Covers w.bank)
    (hok : LpOk w.pm) (hpl : PlainD d w)
    (hr : execMsg FUEL w sender (.wasmExec c (.pm (.provideLiquidity ls ss rc pid u l)) [coin]) = .ok w') :
    TxD w w' sender (.provideLiquidity ls ss rc pid u l) d ∧ w'.pm.buffer = none := by
  obtain ⟨w1, w3, buf, ask, fi, hoh, hea, hne, hrecv, hpid, hu, hauth, hswap, hbuf3, hsecond⟩ := single_tree hs hc hr
  -- the self-swap
  have hpla : PlainD d { w1 with pm := { w.pm with buffer := some buf } } :=
    ⟨plain_of_pools rfl hpl.1, by show ∀ f ∈ w1.tfFees, f.denom ≠ d; rw [fi.tf]; exact hpl.2⟩
  obtain ⟨w1a, s3, r3, fi2, hpe3, hpm3, htf3, hva3, hcov3, heff3, hsup3, hbal3⟩ :=
    call_d (n := 61) (w := { w1 with pm := { w.pm with buffer := some buf } }) (funds := [buf.offerHalf])
      (m := .swap ask none ss none pid) (by simp) trivial fi.cov hpla hswap
  have hsw := hpe3
  simp only [pmExecute] at hsw
  have hstep : PmStep { w.pm with buffer := some buf } s3 := swapHandler_step hsw
  obtain ⟨offer, sr, hoff, hps, -⟩ := C04.swapHandler_messages hsw
  have hoff' : offer = buf.offerHalf := by simpa using hoff.symm
  subst hoff'
  have hpl2 : PlainPools d ({ w.pm with buffer := some buf } : PmState) := hpla.1
  obtain ⟨hod, had, -, -, -⟩ := performSwap_plain hpl2 hps
  have hcd : coin.denom ≠ d := by rw [hoh] at hod; exact hod
  have hb1 := fi.bal d
  simp only [hs, if_false, coinsOf_singleton, amt_ne hcd, Nat.add_zero] at hb1
  have hb2 := fi2.bal d
  simp only [if_true, Nat.add_zero] at hb2
  have hS3 : w3.bank.supply d = w.bank.supply d ∧ w3.bank.bal PM d = w.bank.bal PM d := by
    cases heff3 with
    | neutral nn hf =>
      rw [nn.m, nn.b] at hsup3
      rw [nn.o, nn.i] at hbal3
      have e1 : w.bank.supply d = w1.bank.supply d := (fi.sup d).symm
      have e2 : w1a.bank.bal PM d = w1.bank.bal PM d := hb2
      constructor
      · have : w3.bank.supply d + 0 = w1.bank.supply d + 0 := hsup3
        omega
      · omega
    | create hm _ _ _ _ => obtain ⟨_, _, _, _, _, hm⟩ := hm; cases hm
    | deposit _ _ _ _ _ _ hm => cases hm
    | withdraw _ hm => cases hm
  obtain ⟨hS3s, hS3b⟩ := hS3
  -- the state before the second leg
  have hok2 : LpOk ({ w.pm with buffer := some buf } : PmState) := lpOk_of_pools rfl hok
  have hok3 : LpOk s3 := C16Sys.pmStep_lp hstep hok2
  have hpl3 : PlainPools d s3 := pmStep_plain hstep hpl2
  have hkept := (C16.step_static hstep (C16.sameIdSameStatic_of_nodup hok2.1)).1
  have hplb : PlainD d { w3 with pm := { w3.pm with buffer := none } } := by
    refine ⟨plain_of_pools (s := s3) (by rw [hpm3]) hpl3, ?_⟩
    show ∀ f ∈ w3.tfFees, f.denom ≠ d
    rw [htf3]
    exact hpla.2
  have hnd : (([buf.offerHalf, buf.expectedAsk] : List Coin).map (·.denom)).Nodup := by
    rw [hoh]
    simp [hea, hne]
  obtain ⟨w3a, s5, r5, fi4, hpe5, hpm5, htf5, hva5, hcov5, heff5, hsup5, hbal5⟩ :=
    call_d (n := 60) (w := { w3 with pm := { w3.pm with buffer := none } }) (funds := [buf.offerHalf, buf.expectedAsk])
      (m := .provideLiquidity buf.liqSlip buf.swapSlip (some buf.receiver) buf.poolId buf.unlocking buf.lockId)
      hnd (Nat.le_refl 2) hcov3 hplb hsecond
  have hbuf5 : w'.pm.buffer = none := by
    rw [hpm5, handler_buffer (m := .provideLiquidity buf.liqSlip buf.swapSlip (some buf.receiver) buf.poolId
      buf.unlocking buf.lockId) hnd (Nat.le_refl 2) hpe5]
  have hb4 := fi4.bal d
  simp only [if_true, Nat.add_zero] at hb4
  have hb4' : w3a.bank.bal PM d = w3.bank.bal PM d := hb4
  have hs4 : w3a.pmEnv.supply d = w3.bank.supply d := fi4.sup d
  refine ⟨?_, hbuf5⟩
  cases heff5 with
  | neutral nn hf =>
    rw [nn.m, nn.b] at hsup5
    rw [nn.o, nn.i] at hbal5
    have e1 : w'.bank.supply d + 0 = w3.bank.supply d + 0 := hsup5
    refine ⟨by omega, fun h => by omega, fun h => by omega, fun h0 h1 => by omega, fun _ _ => Or.inl (by omega)⟩
  | create hm _ _ _ _ => obtain ⟨_, _, _, _, _, hm⟩ := hm; cases hm
  | withdraw _ hm => cases hm
  | deposit ls' ss' rc' pid' u' l' hm pool hp hd first shares gift O nn hf h0 h1 hg =>
    rw [nn.m, nn.b] at hsup5
    rw [nn.o, nn.i] at hbal5
    have e1 : w'.bank.supply d + 0 = w3.bank.supply d + (first + shares) := hsup5
    rw [hs4, hS3s] at h0 h1
    obtain ⟨hmem, -⟩ := getPool_ok hp
    have hmem3 : pool ∈ s3.pools := by
      have : pool ∈ w3.pm.pools := hmem
      rw [hpm3] at this; exact this
    have hmin : ∀ p ∈ w.pm.pools, p.lpDenom = d → minLiq p = minLiq pool := by
      intro p hpm' hpd
      obtain ⟨p3, hp3, he⟩ := hkept p hpm'
      have : p3 = pool := pool_unique hok3 hp3 hmem3 (by rw [← he.2.2.2.2.2, hpd, hd])
      rw [minLiq_static he, this]
    refine ⟨by omega, fun _ => ⟨_, _, _, _, _, _, rfl⟩, fun h => by omega, ?_, ?_⟩
    · intro hz _ p hpm' hpd
      rw [hmin p hpm' hpd]
      exact ⟨first, h0 hz, by omega⟩
    · intro _ hrv
      have hgift : gift = 0 := by
        rcases hg with hg | ⟨-, hr', -⟩
        · exact hg
        · exfalso
          simp only [PmMsg.provideLiquidity.injEq] at hm
          obtain ⟨-, -, hrc, -, -, -⟩ := hm
          subst hrc
          obtain ⟨hR1, hR2⟩ := hrv ls ss rc pid u l rfl
          have eR : buf.receiver = addrOrDefault w.pmEnv rc sender := by
            rw [hrecv]
            exact addrOrDefault_congr (by show w1.validAddr = w.validAddr; exact fi.va) _ _
          have hva : w3a.pmEnv.validAddr = w.validAddr := by
            show w3a.validAddr = w.validAddr
            rw [fi4.va]
            show w3.validAddr = w.validAddr
            rw [hva3]
            exact fi.va
          rw [eR] at hr'
          have hdef : ∀ (e : PmEnv) (a dflt : Addr), addrOrDefault e (some a) dflt = if e.validAddr a then a else dflt :=
            fun _ _ _ => rfl
          rw [hdef, hva, hR2, if_pos rfl] at hr'
          exact hR1 hr'
      by_cases hz : w.bank.supply d = 0
      · right
        refine ⟨hz, fun p hpm' hpd => ?_⟩
        rw [hmin p hpm' hpd]
        exact ⟨first, h0 hz, by omega⟩
      · left
        have := h1 hz
        omega

/-- every transaction sent to the pool manager by an external account -/
theorem tx_pm_d {w w' : World} {sender c : Addr} {m : PmMsg} {funds : List Coin} {d : Denom}
    (hs : sender ≠ PM) (hfunds : (funds.map (·.denom)).Nodup) (hc : Covers w.bank) (hok : LpOk w.pm)
    (hbuf : w.pm.buffer = none) (hpl : PlainD d w)
    (hr : execMsg FUEL w sender (.wasmExec c (.pm m) funds) = .ok w') :
    TxD w w' sender m d ∧ w'.pm.buffer = none := by
  by_cases hns : SysPm.NotSingle m funds
  · rw [show FUEL = 63 + 1 from rfl] at hr
    refine ⟨tx_leaf_d hs hfunds hns hc hok hpl hr, ?_⟩
    obtain ⟨-, w1, s', r, fi, hpe, hpm, -⟩ := pm_call hfunds hns hc hr
    rw [hpm, handler_buffer hfunds hns hpe, hbuf]
  · cases m with
    | provideLiquidity ls ss rc pid u l =>
      match funds, hns, hr with
      | [], _, hr => exact (C01Sys.no_funds_tx (n := 63) hr).elim
      | [coin], _, hr => exact tx_single_d hs hc hok hpl hr
      | _ :: _ :: _, hns, _ => exact absurd (by simp [SysPm.NotSingle]) hns
    | _ => exact absurd trivial hns

theorem lp_ne_of_ids {s : PmState} (hok : LpOk s) {id : String} (hid : ∀ p ∈ s.pools, p.id ≠ id) :
    ∀ q ∈ s.pools, q.lpDenom ≠ lpDenomOf PM id := by
  intro q hq e
  rw [hok.2 q hq] at e
  exact hid q hq (C16Sys.lpDenomOf_inj e)

theorem ids_of_map_eq {s s' : PmState} (h : s'.pools.map (·.id) = s.pools.map (·.id)) {id : String}
    (hid : ∀ p ∈ s.pools, p.id ≠ id) : ∀ p ∈ s'.pools, p.id ≠ id := by
  intro p hp e
  have : p.id ∈ s'.pools.map (·.id) := List.mem_map_of_mem hp
  rw [h] at this
  obtain ⟨q, hq, hqe⟩ := List.mem_map.1 this
  exact hid q hq (hqe.trans e)

/-- a factory denom of the pool manager that is not yet the LP denom of a pool is never minted -/
theorem tx_fresh {w w' : World} {sender c : Addr} {m : PmMsg} {funds : List Coin}
    (hs : sender ≠ PM) (hfunds : (funds.map (·.denom)).Nodup) (hc : Covers w.bank) (hok : LpOk w.pm)
    (hr : execMsg FUEL w sender (.wasmExec c (.pm m) funds) = .ok w')
    (id : String) (hid : ∀ p ∈ w.pm.pools, p.id ≠ id) (h0 : w.bank.supply (lpDenomOf PM id) = 0) :
    w'.bank.supply (lpDenomOf PM id) = 0 := by
  by_cases hns : SysPm.NotSingle m funds
  · rw [show FUEL = 63 + 1 from rfl] at hr
    obtain ⟨-, w1, s', r, fi, hpe, -, -, -, -, hsup, -⟩ := pm_call hfunds hns hc hr
    have := hsup (lpDenomOf PM id)
    rw [handler_mint_fresh (lp_ne_of_ids hok hid) hfunds hns hpe, h0] at this
    omega
  · cases m with
    | provideLiquidity ls ss rc pid u l =>
      match funds, hns, hr with
      | [], _, hr => exact (C01Sys.no_funds_tx (n := 63) hr).elim
      | _ :: _ :: _, hns, _ => exact absurd (by simp [SysPm.NotSingle]) hns
      | [coin], _, hr =>
        obtain ⟨w1, w3, buf, ask, fi, hoh, hea, hne, hrecv, hpid, hu, hauth, hswap, hbuf3, hsecond⟩ :=
          single_tree hs hc hr
        have hok2 : LpOk ({ w.pm with buffer := some buf } : PmState) := lpOk_of_pools rfl hok
        obtain ⟨-, w1a, s3, r3, fi2, hpe3, hpm3, -, -, hcov3, hsup3, -⟩ :=
          pm_call (n := 61) (w := { w1 with pm := { w.pm with buffer := some buf } }) (funds := [buf.offerHalf])
            (m := .swap ask none ss none pid) (by simp) trivial fi.cov hswap
        have hsw := hpe3
        simp only [pmExecute] at hsw
        have hstep : PmStep { w.pm with buffer := some buf } s3 := swapHandler_step hsw
        have hok3 : LpOk s3 := C16Sys.pmStep_lp hstep hok2
        have hid3 : ∀ p ∈ s3.pools, p.id ≠ id := ids_of_map_eq hstep.ids hid
        have hS3 : w3.bank.supply (lpDenomOf PM id) = 0 := by
          have := hsup3 (lpDenomOf PM id)
          rw [handler_mint_fresh (funds := [buf.offerHalf]) (m := .swap ask none ss none pid) (lp_ne_of_ids hok2 hid) (by simp) trivial hpe3] at this
          have e : w1.bank.supply (lpDenomOf PM id) = 0 := by rw [fi.sup, h0]
          have e' : w3.bank.supply (lpDenomOf PM id) + _ = w1.bank.supply (lpDenomOf PM id) + 0 := this
          omega
        have hnd : (([buf.offerHalf, buf.expectedAsk] : List Coin).map (·.denom)).Nodup := by
          rw [hoh]
          simp [hea, hne]
        obtain ⟨-, w3a, s5, r5, fi4, hpe5, -, -, -, -, hsup5, -⟩ :=
          pm_call (n := 60) (w := { w3 with pm := { w3.pm with buffer := none } })
            (funds := [buf.offerHalf, buf.expectedAsk])
            (m := .provideLiquidity buf.liqSlip buf.swapSlip (some buf.receiver) buf.poolId buf.unlocking buf.lockId)
            hnd (Nat.le_refl 2) hcov3 hsecond
        have hok4 : LpOk ({ w3.pm with buffer := none } : PmState) := lpOk_of_pools (s := s3) (by rw [hpm3]) hok3
        have hid4 : ∀ p ∈ ({ w3.pm with buffer := none } : PmState).pools, p.id ≠ id := by
          show ∀ p ∈ w3.pm.pools, p.id ≠ id
          rw [hpm3]; exact hid3
        have := hsup5 (lpDenomOf PM id)
        rw [handler_mint_fresh (m := .provideLiquidity buf.liqSlip buf.swapSlip (some buf.receiver) buf.poolId buf.unlocking buf.lockId) (lp_ne_of_ids hok4 hid4) hnd (Nat.le_refl 2) hpe5] at this
        have e' : w'.bank.supply (lpDenomOf PM id) + _ = w3.bank.supply (lpDenomOf PM id) + 0 := this
        omega
    | _ => exact absurd trivial hns

end MantraDex.LpSys
