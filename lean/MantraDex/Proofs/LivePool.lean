/-
  Liveness of `WithdrawLiquidity` (C02Live.withdraw_liquidity_live): the handler accepts, the reserve
  subtraction succeeds, and the two messages (refund, LP burn) are covered by the pool manager's balances.
-/
import MantraDex.Model.System
import MantraDex.Proofs.NumLemmas
import MantraDex.Proofs.BankLemmas
import MantraDex.Proofs.PoolTxLemmas
import MantraDex.Proofs.SwSysPools
import MantraDex.Properties.C01Sys

set_option linter.unusedSimpArgs false
set_option linter.unusedVariables false

namespace MantraDex.Live
open MantraDex
open MantraDex.C01 (coinsOf amt coinsOf_cons coinsOf_nil sumNat sumNat_cons sumNat_nil)
open MantraDex.LpSys (Covers)

/-! ### coin sums -/

theorem coinsOf_eq_zero_of_not_mem {cs : List Coin} {d : Denom} (h : d ∉ cs.map (·.denom)) :
    coinsOf cs d = 0 := by
  induction cs with
  | nil => rfl
  | cons c cs ih =>
    simp only [List.map_cons, List.mem_cons, not_or] at h
    rw [coinsOf_cons, ih h.2]
    have : (c.denom == d) = false := by simpa using fun e => h.1 e.symm
    simp [amt, this]

/-- with distinct denoms, the sum for a coin's denom is that coin's amount -/
theorem coinsOf_nodup {cs : List Coin} (hnd : (cs.map (·.denom)).Nodup) {c : Coin} (hc : c ∈ cs) :
    coinsOf cs c.denom = c.amount := by
  induction cs with
  | nil => cases hc
  | cons x xs ih =>
    simp only [List.map_cons, List.nodup_cons] at hnd
    rw [coinsOf_cons]
    rcases List.mem_cons.1 hc with rfl | hc'
    · rw [coinsOf_eq_zero_of_not_mem hnd.1]
      simp [amt]
    · have hne : x.denom ≠ c.denom := by
        intro e
        exact hnd.1 (e ▸ List.mem_map_of_mem hc')
      have : (x.denom == c.denom) = false := by simpa using hne
      rw [ih hnd.2 hc']
      simp [amt, this]

theorem coinsOf_filter_pos (cs : List Coin) (d : Denom) :
    coinsOf (cs.filter (·.amount > 0)) d = coinsOf cs d := by
  induction cs with
  | nil => rfl
  | cons c cs ih =>
    by_cases h : c.amount = 0
    · have : (decide (c.amount > 0)) = false := by simp [h]
      rw [List.filter_cons, this]
      simp only [Bool.false_eq_true, if_false]
      rw [coinsOf_cons, ih]
      simp [amt, h]
    · have : (decide (c.amount > 0)) = true := by simp; omega
      rw [List.filter_cons, this]
      simp only [if_true]
      rw [coinsOf_cons, coinsOf_cons, ih]

theorem coinsOf_map_le (cs : List Coin) (g : Coin → Nat) (hg : ∀ c ∈ cs, g c ≤ c.amount) (d : Denom) :
    coinsOf (cs.map fun c => (⟨c.denom, g c⟩ : Coin)) d ≤ coinsOf cs d := by
  induction cs with
  | nil => simp
  | cons c cs ih =>
    simp only [List.map_cons, coinsOf_cons]
    have h1 := hg c (List.mem_cons_self ..)
    have h2 := ih (fun x hx => hg x (List.mem_cons_of_mem _ hx))
    unfold amt
    simp only
    split <;> omega

theorem le_sumNat_map {α : Type} (f : α → Nat) {l : List α} {x : α} (hx : x ∈ l) : f x ≤ sumNat (l.map f) := by
  induction l with
  | nil => cases hx
  | cons y ys ih =>
    simp only [List.map_cons, sumNat_cons]
    rcases List.mem_cons.1 hx with rfl | h
    · omega
    · have := ih h; omega

theorem coinsOf_le_reserves {s : PmState} {p : PoolInfo} (hp : p ∈ s.pools) (d : Denom) :
    coinsOf p.assets d ≤ C01.reserves s d :=
  le_sumNat_map (fun p => coinsOf p.assets d) hp

theorem normalizeCoins_ex {cs : List Coin} (h : ∃ c ∈ cs, c.amount ≠ 0) : ∃ r, normalizeCoins cs = .ok r := by
  obtain ⟨c, hc, h0⟩ := h
  unfold normalizeCoins
  simp only
  split
  · rename_i he
    have hm : c ∈ cs.filter (·.amount ≠ 0) := List.mem_filter.2 ⟨hc, by simpa using h0⟩
    rw [List.isEmpty_iff.1 he] at hm
    cases hm
  · exact ⟨_, rfl⟩

/-! ### the handler -/

/-- the refunds of a withdrawal of `amount` out of `total` LP -/
def refundsOf (p : PoolInfo) (amount total : Nat) : List Coin :=
  (p.assets.map fun a => (⟨a.denom, a.amount * amount / total⟩ : Coin)).filter (·.amount > 0)

theorem mapM_ok_map {α β : Type} (g : α → R β) (f : α → β) : ∀ l : List α, (∀ a ∈ l, g a = .ok (f a)) →
    l.mapM g = .ok (l.map f) := by
  intro l
  induction l with
  | nil => intro _; rfl
  | cons a l ih =>
    intro h
    rw [List.mapM_cons, h a (List.mem_cons_self ..), ih (fun x hx => h x (List.mem_cons_of_mem _ hx))]
    rfl

theorem findIdx_of_mem {α : Type} (q : α → Bool) : ∀ (l : List α), (∃ x ∈ l, q x = true) →
    ∃ i, findIdx q l = some i := by
  intro l
  induction l with
  | nil => intro ⟨x, hx, _⟩; cases hx
  | cons y ys ih =>
    intro ⟨x, hx, hq⟩
    unfold findIdx
    split
    · exact ⟨0, rfl⟩
    · rename_i hy
      rcases List.mem_cons.1 hx with rfl | hx'
      · exact absurd hq hy
      · obtain ⟨i, hi⟩ := ih ⟨x, hx', hq⟩
        exact ⟨i + 1, by rw [hi]; rfl⟩

/-- the reserve subtraction succeeds when the refunds are covered, denom by denom -/
theorem withdrawFold_ex : ∀ (rs as : List Coin), (as.map (·.denom)).Nodup →
    (∀ r ∈ rs, r.denom ∈ as.map (·.denom)) → (∀ d, coinsOf rs d ≤ coinsOf as d) →
    ∃ as', rs.foldlM withdrawStep as = .ok as' := by
  intro rs
  induction rs with
  | nil => intro as _ _ _; exact ⟨as, rfl⟩
  | cons r rest ih =>
    intro as hnd hmem hle
    obtain ⟨x, hx, hxd⟩ := List.mem_map.1 (hmem r (List.mem_cons_self ..))
    obtain ⟨i, hi⟩ := findIdx_of_mem (fun c : Coin => c.denom == r.denom) as ⟨x, hx, by simpa using hxd⟩
    obtain ⟨c, hc, hcd⟩ := C04.findIdx_some hi
    have hcd' : c.denom = r.denom := by simpa using hcd
    have hcm : c ∈ as := List.mem_of_getElem? hc
    have hamt : r.amount ≤ c.amount := by
      have h1 := hle r.denom
      rw [coinsOf_cons] at h1
      have h2 := coinsOf_nodup hnd hcm
      rw [hcd'] at h2
      simp only [amt, beq_self_eq_true, if_true] at h1
      omega
    have hstep : withdrawStep as r = .ok (setAmount as i (c.amount - r.amount)) := by
      unfold withdrawStep
      rw [hi]
      simp only [pure_bind', C04.getD?_ok.2 hc, ok_bind, ckSub, if_pos hamt]
      rfl
    have hden := C01.setAmount_denoms as i (c.amount - r.amount)
    obtain ⟨as', h'⟩ := ih (setAmount as i (c.amount - r.amount)) (by rw [hden]; exact hnd)
      (by intro r' hr'; rw [hden]; exact hmem r' (List.mem_cons_of_mem _ hr'))
      (by
        intro d
        have h1 := hle d
        rw [coinsOf_cons] at h1
        have h2 := C01.withdrawStep_coins hstep d
        omega)
    refine ⟨as', ?_⟩
    rw [List.foldlM_cons, hstep]
    exact h'

theorem refundsOf_mem_denom {p : PoolInfo} {amount total : Nat} {r : Coin} (hr : r ∈ refundsOf p amount total) :
    r.denom ∈ p.assets.map (·.denom) := by
  unfold refundsOf at hr
  obtain ⟨a, ha, rfl⟩ := List.mem_map.1 (List.mem_filter.1 hr).1
  exact List.mem_map.2 ⟨a, ha, rfl⟩

theorem refundsOf_le {p : PoolInfo} {amount total : Nat} (hle : amount ≤ total) (d : Denom) :
    coinsOf (refundsOf p amount total) d ≤ coinsOf p.assets d := by
  unfold refundsOf
  rw [coinsOf_filter_pos]
  apply coinsOf_map_le p.assets (fun a => a.amount * amount / total)
  intro c _
  exact mul_div_le_of_le hle

theorem withdrawLiquidity_eq (s : PmState) (env : PmEnv) (sender : Addr) (funds : List Coin) (poolId : String) :
    withdrawLiquidity s env sender funds poolId = (do
      let pool ← s.getPool poolId
      if !pool.status.withdrawals then .error .disabled
      let lp := pool.lpDenom
      let amount ← mustPay funds lp
      if !isFactoryToken lp then .error .other
      let total := env.supply lp
      let ratio ← orPanic (decFromRatio U256_MAX amount total)
      if ratio > ONE18 then .error .invalidInput
      let refunds ← pool.assets.mapM fun a => do
        let r ← mulRatio U128_MAX a.amount amount total
        pure (⟨a.denom, r⟩ : Coin)
      let refunds := refunds.filter (·.amount > 0)
      let assets' ← refunds.foldlM withdrawStep pool.assets
      let pool' := { pool with assets := assets' }
      pure (s.savePool pool', Response.ofMsgs [.bankSend sender refunds, .tfBurn ⟨lp, amount⟩] [
        ("action", "withdraw_liquidity"), ("withdrawn_shares", toString amount),
        ("pool_reserves", reservesAttr pool')])) := rfl

theorem mustPay_single (d : Denom) (amount : Nat) (hpos : amount ≠ 0) :
    mustPay [(⟨d, amount⟩ : Coin)] d = .ok amount := by
  simp only [mustPay, oneCoin, if_neg hpos, ok_bind, bne_self_eq_false, Bool.false_eq_true, if_false]
  rfl

theorem ratio_ok (amount total : Nat) (htot : total ≠ 0) (h256 : amount * ONE18 / total ≤ U256_MAX) :
    orPanic (decFromRatio U256_MAX amount total) = .ok (amount * ONE18 / total) := by
  simp only [decFromRatio, if_neg htot, fit, if_pos h256, orPanic]

/-- the handler accepts the withdrawal -/
theorem withdrawLiquidity_ok {s : PmState} {env : PmEnv} {u : Addr} {p : PoolInfo} {amount : Nat}
    (hg : s.getPool p.id = .ok p) (hen : p.status.withdrawals = true) (hpos : amount ≠ 0)
    (hft : isFactoryToken p.lpDenom = true) (hle : amount ≤ env.supply p.lpDenom)
    (hres : ∀ a ∈ p.assets, a.amount ≤ U128_MAX) (hnd : (p.assets.map (·.denom)).Nodup) :
    ∃ s' r, withdrawLiquidity s env u [⟨p.lpDenom, amount⟩] p.id = .ok (s', r) ∧
      r.msgs = [Msg.bankSend u (refundsOf p amount (env.supply p.lpDenom)),
        Msg.tfBurn ⟨p.lpDenom, amount⟩].map mkSub := by
  have htot : env.supply p.lpDenom ≠ 0 := by omega
  have hratio : amount * ONE18 / env.supply p.lpDenom ≤ ONE18 := by
    rw [Nat.mul_comm]
    exact mul_div_le_of_le hle
  have hmap : p.assets.mapM (fun a => do
        let r ← mulRatio U128_MAX a.amount amount (env.supply p.lpDenom)
        pure (⟨a.denom, r⟩ : Coin)) =
      .ok (p.assets.map fun a => (⟨a.denom, a.amount * amount / env.supply p.lpDenom⟩ : Coin)) := by
    apply mapM_ok_map
    intro a ha
    have h1 : a.amount * amount / env.supply p.lpDenom ≤ U128_MAX :=
      Nat.le_trans (mul_div_le_of_le hle) (hres a ha)
    simp only [mulRatio, if_neg htot, fit, if_pos h1, ok_bind]
    rfl
  obtain ⟨as', hfold⟩ := withdrawFold_ex (refundsOf p amount (env.supply p.lpDenom)) p.assets hnd
    (fun r hr => refundsOf_mem_denom hr) (refundsOf_le hle)
  have h256 : amount * ONE18 / env.supply p.lpDenom ≤ U256_MAX :=
    Nat.le_trans hratio (by unfold ONE18 U256_MAX; omega)
  refine ⟨s.savePool { p with assets := as' },
    Response.ofMsgs [.bankSend u (refundsOf p amount (env.supply p.lpDenom)), .tfBurn ⟨p.lpDenom, amount⟩] [
        ("action", "withdraw_liquidity"), ("withdrawn_shares", toString amount),
        ("pool_reserves", reservesAttr { p with assets := as' })], ?_, ?_⟩
  · rw [withdrawLiquidity_eq]
    simp only [↓ok_bind, ↓ite_err_bind_ok, ↓bind_ok, ↓err_bind_ok, ↓pure_bind', pure_ok, Prod.mk.injEq]
    unfold refundsOf at hfold
    exact ⟨p, hg, by simp [hen], amount, mustPay_single p.lpDenom amount hpos, by simp [hft], _,
      ratio_ok amount (env.supply p.lpDenom) htot h256, Nat.not_lt.2 hratio, _, hmap, as', hfold, rfl, rfl⟩
  · rfl

/-! ### the run -/

/-- a holder's `WithdrawLiquidity` transaction is accepted -/
theorem withdraw_liquidity_run {w : World} {p : PoolInfo} {u : Addr} {amount : Nat}
    (hcust : C01Sys.PmCustody w) (hcov : Covers w.bank)
    (hg : w.pm.getPool p.id = .ok p) (hmem : p ∈ w.pm.pools)
    (hnd : (p.assets.map (·.denom)).Nodup)
    (hplainAssets : ∀ a ∈ p.assets, isFactoryToken a.denom = false)
    (hft : isFactoryToken p.lpDenom = true)
    (hres : ∀ a ∈ p.assets, a.amount ≤ U128_MAX)
    (hen : p.status.withdrawals = true)
    (hu : u ≠ PM) (hpos : amount ≠ 0) (hbal : amount ≤ w.bank.bal u p.lpDenom)
    (hworth : ∃ a ∈ p.assets, w.bank.supply p.lpDenom ≤ a.amount * amount) :
    ∃ w', runTx w (.exec u PM (.pm (.withdrawLiquidity p.id)) [⟨p.lpDenom, amount⟩]) = .ok w' := by
  have hsupLe : amount ≤ w.bank.supply p.lpDenom := Nat.le_trans hbal (hcov.one u p.lpDenom)
  -- the funds
  obtain ⟨b1, hb1⟩ := send_ex (b := { w.bank with calls := 0, failAt := none }) (frm := u) (to := PM)
    (cs := [⟨p.lpDenom, amount⟩]) (r := [⟨p.lpDenom, amount⟩]) rfl (by simp [normalizeCoins, hpos]) (by
      intro d
      rw [coinsOf_single]
      simp only
      split
      · rename_i hd; subst hd; exact hbal
      · exact Nat.zero_le _)
  obtain ⟨_, mv1⟩ := send_spec hb1
  obtain ⟨c1, sup1⟩ := LpSys.send_covers hb1 (PoolTx.covers_reset none hcov)
  have hsup1 : b1.supply p.lpDenom = w.bank.supply p.lpDenom := sup1 p.lpDenom
  -- the handler
  obtain ⟨s', r, hx, hr⟩ := withdrawLiquidity_ok (s := w.pm) (env := ({ w with bank := b1 } : World).pmEnv)
    (u := u) hg hen hpos hft (by show amount ≤ b1.supply p.lpDenom; rw [hsup1]; exact hsupLe) hres hnd
  have hsupenv : ({ w with bank := b1 } : World).pmEnv.supply p.lpDenom = w.bank.supply p.lpDenom := hsup1
  rw [hsupenv] at hr
  -- the refund
  have hlpNot : p.lpDenom ∉ p.assets.map (·.denom) := by
    intro hm
    obtain ⟨a, ha, e⟩ := List.mem_map.1 hm
    have := hplainAssets a ha
    rw [e, hft] at this
    cases this
  have hrefLp : coinsOf (refundsOf p amount (w.bank.supply p.lpDenom)) p.lpDenom = 0 := by
    have := refundsOf_le (p := p) hsupLe p.lpDenom
    rw [coinsOf_eq_zero_of_not_mem hlpNot] at this
    omega
  have hb1PM : ∀ d, w.bank.bal PM d ≤ b1.bal PM d := by
    intro d
    have := mv1.bal PM d
    simp only [if_neg (Ne.symm hu), if_true] at this
    show w.bank.bal PM d ≤ _
    have e : ({ w.bank with calls := 0, failAt := none } : Bank).bal PM d = w.bank.bal PM d := rfl
    omega
  obtain ⟨rn, hrn⟩ := normalizeCoins_ex (cs := refundsOf p amount (w.bank.supply p.lpDenom)) (by
    obtain ⟨a, ha, hw⟩ := hworth
    have htot : w.bank.supply p.lpDenom ≠ 0 := by omega
    have h1 : 1 ≤ a.amount * amount / w.bank.supply p.lpDenom :=
      (Nat.le_div_iff_mul_le (Nat.pos_of_ne_zero htot)).2 (by omega)
    refine ⟨⟨a.denom, a.amount * amount / w.bank.supply p.lpDenom⟩, ?_, by simp only; omega⟩
    unfold refundsOf
    refine List.mem_filter.2 ⟨List.mem_map.2 ⟨a, ha, rfl⟩, ?_⟩
    simp only [gt_iff_lt, decide_eq_true_eq]
    omega)
  obtain ⟨b2, hb2⟩ := send_ex (b := b1) (frm := PM) (to := u)
    (cs := refundsOf p amount (w.bank.supply p.lpDenom)) (by rw [mv1.fa]) hrn (by
      intro d
      by_cases hd : d ∈ p.assets.map (·.denom)
      · obtain ⟨a, ha, rfl⟩ := List.mem_map.1 hd
        have h1 := refundsOf_le (p := p) hsupLe a.denom
        have h2 := coinsOf_le_reserves hmem a.denom
        have h3 := hcust a.denom (hplainAssets a ha)
        have h4 := hb1PM a.denom
        omega
      · have h1 := refundsOf_le (p := p) (amount := amount) (total := w.bank.supply p.lpDenom) hsupLe d
        rw [coinsOf_eq_zero_of_not_mem hd] at h1
        omega)
  obtain ⟨_, mv2⟩ := send_spec hb2
  -- the burn
  obtain ⟨b3, hb3⟩ := burn_ex (b := b2) (frm := PM) (cs := [⟨p.lpDenom, amount⟩]) (r := [⟨p.lpDenom, amount⟩])
    (by rw [mv2.fa, mv1.fa]) (by simp [normalizeCoins, hpos]) (by
      intro d
      rw [coinsOf_single]
      simp only
      split
      · rename_i hd
        subst hd
        have e1 := mv1.bal PM p.lpDenom
        have e2 := mv2.bal PM p.lpDenom
        rw [coinsOf_single] at e1
        simp only [if_neg (Ne.symm hu), if_true] at e1
        simp only [if_neg (Ne.symm hu), if_true, hrefLp] at e2
        omega
      · exact Nat.zero_le _)
  refine ⟨{ w with bank := b3, pm := s' }, ?_⟩
  unfold runTx
  simp only
  have h64 : FUEL = 63 + 1 := rfl
  rw [h64, execMsg_pm_eq 63 _ u _ [⟨p.lpDenom, amount⟩] rfl]
  have hb1' : ({ w with bank := { w.bank with calls := 0, failAt := none } } : World).bank.send u PM
      [⟨p.lpDenom, amount⟩] = .ok b1 := hb1
  rw [hb1']
  simp only [ok_bind, pmExecute]
  have hx' : withdrawLiquidity ({ w with bank := { w.bank with calls := 0, failAt := none } } : World).pm
      ({ ({ w with bank := { w.bank with calls := 0, failAt := none } } : World) with bank := b1 } : World).pmEnv
      u [⟨p.lpDenom, amount⟩] p.id = .ok (s', r) := hx
  rw [hx']
  simp only [ok_bind]
  rw [hr]
  rw [execSubs_leaf _ 63 _ PM (by
    intro m hm
    simp only [List.mem_cons, List.not_mem_nil, or_false] at hm
    rcases hm with rfl | rfl <;> trivial) (by show 2 + 1 ≤ 63; decide)]
  simp only [bankRun, bankStep]
  have hb2' : b1.send PM u (refundsOf p amount (w.bank.supply p.lpDenom)) = .ok b2 := hb2
  rw [hb2']
  simp only [ok_bind]
  rw [hb3]
  rfl

end MantraDex.Live
