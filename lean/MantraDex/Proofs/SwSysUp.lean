/-
  C17Sys, first part: a pool-manager transaction that increases the supply of an LP denom is a
  `ProvideLiquidity` naming the pool with that LP denom (strengthening of `LpSys.TxD.up` by the pool id),
  for every shape of the transaction incl. the single-asset deposit tree.
-/
import MantraDex.Model.System
import MantraDex.Proofs.NumLemmas
import MantraDex.Proofs.LpSysTx

set_option linter.unusedSimpArgs false
set_option linter.unusedVariables false
set_option linter.tactic.unusedName false

namespace MantraDex.SwSys
open MantraDex MantraDex.LpSys
open MantraDex.C01 (coinsOf amt coinsOf_cons coinsOf_nil coinsOf_singleton)
open MantraDex.C16Sys (LpOk)

/-- one call that is not a single-asset deposit -/
theorem leaf_up {n : Nat} {w w' : World} {sender c : Addr} {m : PmMsg} {funds : List Coin} {d : Denom}
    (hfunds : (funds.map (·.denom)).Nodup) (hns : SysPm.NotSingle m funds)
    (hc : Covers w.bank) (hok : LpOk w.pm) (hpl : PlainD d w)
    (h : execMsg (n + 1) w sender (.wasmExec c (.pm m) funds) = .ok w')
    (hup : w.bank.supply d < w'.bank.supply d) :
    ∃ ls ss rc pid u l, m = .provideLiquidity ls ss rc pid u l ∧ d = lpDenomOf PM pid := by
  obtain ⟨w1, s', r, fi, hpe, hpm, htf, hva, hcov, heff, hsup, hbal⟩ := call_d hfunds hns hc hpl h
  cases heff with
  | neutral nn hf => rw [nn.m, nn.b] at hsup; omega
  | create _ I nn hI hfc => rw [nn.m, nn.b] at hsup; omega
  | withdraw pid hm pool hp hd amount hfu nn => rw [nn.m, nn.b] at hsup; omega
  | deposit ls ss rc pid u l hm pool hp hd first shares gift O nn hf h0 h1 hg =>
    obtain ⟨hmem, hid⟩ := getPool_ok hp
    exact ⟨ls, ss, rc, pid, u, l, hm, by rw [← hd, hok.2 pool hmem, hid]⟩

/-- a single-asset deposit by an external account -/
theorem single_up {w w' : World} {sender c : Addr} {coin : Coin} {ls ss : Option Nat} {rc : Option Addr}
    {pid : String} {u : Option Nat} {l : Option String} {d : Denom} (hs : sender ≠ PM) (hc : Covers w.bank)
    (hok : LpOk w.pm) (hpl : PlainD d w)
    (hr : execMsg FUEL w sender (.wasmExec c (.pm (.provideLiquidity ls ss rc pid u l)) [coin]) = .ok w')
    (hup : w.bank.supply d < w'.bank.supply d) : d = lpDenomOf PM pid := by
  obtain ⟨w1, w3, buf, ask, fi, hoh, hea, hne, hrecv, hpid, hu, hauth, hswap, hbuf3, hsecond⟩ := single_tree hs hc hr
  -- the self-swap leaves every supply alone
  have hpla : PlainD d { w1 with pm := { w.pm with buffer := some buf } } :=
    ⟨plain_of_pools rfl hpl.1, by show ∀ f ∈ w1.tfFees, f.denom ≠ d; rw [fi.tf]; exact hpl.2⟩
  obtain ⟨w1a, s3, r3, fi2, hpe3, hpm3, htf3, hva3, hcov3, heff3, hsup3, hbal3⟩ :=
    call_d (n := 61) (w := { w1 with pm := { w.pm with buffer := some buf } }) (funds := [buf.offerHalf])
      (m := .swap ask none ss none pid) (by simp) trivial fi.cov hpla hswap
  have hsw := hpe3
  simp only [pmExecute] at hsw
  have hstep : PmStep { w.pm with buffer := some buf } s3 := swapHandler_step hsw
  have hpl2 : PlainPools d ({ w.pm with buffer := some buf } : PmState) := hpla.1
  have hS3 : w3.bank.supply d = w.bank.supply d := by
    cases heff3 with
    | neutral nn hf =>
      rw [nn.m, nn.b] at hsup3
      have e1 : w.bank.supply d = w1.bank.supply d := (fi.sup d).symm
      have : w3.bank.supply d + 0 = w1.bank.supply d + 0 := hsup3
      omega
    | create hm _ _ _ _ => obtain ⟨_, _, _, _, _, hm⟩ := hm; cases hm
    | deposit _ _ _ _ _ _ hm => cases hm
    | withdraw _ hm => cases hm
  -- the second leg
  have hok2 : LpOk ({ w.pm with buffer := some buf } : PmState) := lpOk_of_pools rfl hok
  have hok3 : LpOk s3 := C16Sys.pmStep_lp hstep hok2
  have hpl3 : PlainPools d s3 := pmStep_plain hstep hpl2
  have hplb : PlainD d { w3 with pm := { w3.pm with buffer := none } } := by
    refine ⟨plain_of_pools (s := s3) (by rw [hpm3]) hpl3, ?_⟩
    show ∀ f ∈ w3.tfFees, f.denom ≠ d
    rw [htf3]
    exact hpla.2
  have hnd : (([buf.offerHalf, buf.expectedAsk] : List Coin).map (·.denom)).Nodup := by
    rw [hoh]
    simp [hea, hne]
  obtain ⟨w3a, s5, r5, fi4, hpe5, hpm5, htf5, hva5, hcov5, heff5, hsup5, hbal5⟩ :=
    call_d (n := 60) (w := { w3 with pm := { w3.pm with buffer := none } }) (funds := [buf.offerHalf, buf.expectedAsk])
      (m := .provideLiquidity buf.liqSlip buf.swapSlip (some buf.receiver) buf.poolId buf.unlocking buf.lockId)
      hnd (Nat.le_refl 2) hcov3 hplb hsecond
  cases heff5 with
  | neutral nn hf =>
    rw [nn.m, nn.b] at hsup5
    have e1 : w'.bank.supply d + 0 = w3.bank.supply d + 0 := hsup5
    omega
  | create hm _ _ _ _ => obtain ⟨_, _, _, _, _, hm⟩ := hm; cases hm
  | withdraw _ hm => cases hm
  | deposit ls' ss' rc' pid' u' l' hm pool hp hd first shares gift O nn hf h0 h1 hg =>
    simp only [PmMsg.provideLiquidity.injEq] at hm
    obtain ⟨-, -, -, hpid', -, -⟩ := hm
    obtain ⟨hmem, hid⟩ := getPool_ok hp
    have hmem3 : pool ∈ s3.pools := by
      have : pool ∈ w3.pm.pools := hmem
      rw [hpm3] at this; exact this
    rw [← hd, hok3.2 pool hmem3, hid, ← hpid', hpid]

/-- every transaction sent to the pool manager by an external account -/
theorem tx_pm_up {w w' : World} {sender c : Addr} {m : PmMsg} {funds : List Coin} {d : Denom}
    (hs : sender ≠ PM) (hfunds : (funds.map (·.denom)).Nodup) (hc : Covers w.bank) (hok : LpOk w.pm)
    (hpl : PlainD d w) (hr : execMsg FUEL w sender (.wasmExec c (.pm m) funds) = .ok w')
    (hup : w.bank.supply d < w'.bank.supply d) :
    ∃ ls ss rc pid u l, m = .provideLiquidity ls ss rc pid u l ∧ d = lpDenomOf PM pid := by
  by_cases hns : SysPm.NotSingle m funds
  · rw [show FUEL = 63 + 1 from rfl] at hr
    exact leaf_up hfunds hns hc hok hpl hr hup
  · cases m with
    | provideLiquidity ls ss rc pid u l =>
      match funds, hns, hr with
      | [], _, hr => exact (C01Sys.no_funds_tx (n := 63) hr).elim
      | [coin], _, hr => exact ⟨ls, ss, rc, pid, u, l, rfl, single_up hs hc hok hpl hr hup⟩
      | _ :: _ :: _, hns, _ => exact absurd (by simp [SysPm.NotSingle]) hns
    | _ => exact absurd trivial hns

end MantraDex.SwSys
