/-
  C10Eq, part 4: the pool manager's side.  Every locked deposit of a transaction carries the transaction's
  lock identifier `L` (`none` = generated identifiers); as long as `L` names no existing position, the pool
  manager only ever emits `create_position` with that identifier — never `expand_position`.
-/
import MantraDex.Proofs.WSysPm

set_option linter.unusedSimpArgs false
set_option linter.unusedVariables false

namespace MantraDex.ExactW
open MantraDex MantraDex.WSys

/-- the additional side condition on messages inside a whole-position transaction with lock identifier `L`:
    the only farm-manager calls are `create_position` with identifier `L`, and every locked deposit carries
    the lock identifier `L` -/
def Extra (L : Option String) : Msg → Prop
  | .wasmExec _ (.fm (.createPosition id _ _)) _ => id = L
  | .wasmExec _ (.fm _) _ => False
  | .wasmExec _ (.pm (.provideLiquidity _ _ _ _ u l)) _ => u.isSome = true → l = L
  | _ => True

theorem extra_noWasm {L : Option String} {m : Msg} (h : NoWasm m) : Extra L m := by
  cases m <;> first | trivial | exact absurd h id

theorem extra_mint {L : Option String} {m : Msg} (h : IsMint m) : Extra L m := by
  obtain ⟨x, a, rfl⟩ := h; trivial

/-- a sub-message that satisfies the side condition and asks for no reply -/
def SubOk (L : Option String) (sm : SubMsg) : Prop := Extra L sm.msg ∧ sm.replyOn = .never

theorem subOk_map {L : Option String} {ms : List Msg} (h : ∀ m ∈ ms, Extra L m) :
    ∀ sm ∈ ms.map (fun m => ({ msg := m } : SubMsg)), SubOk L sm := by
  intro sm hsm
  obtain ⟨m, hm, rfl⟩ := List.mem_map.1 hsm
  exact ⟨h m hm, rfl⟩

theorem extra_append {L : Option String} {xs ys : List Msg} (hx : ∀ m ∈ xs, Extra L m)
    (hy : ∀ m ∈ ys, Extra L m) : ∀ m ∈ xs ++ ys, Extra L m := by
  intro m h
  rcases List.mem_append.1 h with h | h
  · exact hx m h
  · exact hy m h

theorem extra_opt {L : Option String} {p : Prop} [Decidable p] {m : Msg} (hm : NoWasm m := by trivial) :
    ∀ m' ∈ (if p then [m] else []), Extra L m' := by
  intro m' h
  split at h
  · simp only [List.mem_singleton] at h; subst h; exact extra_noWasm hm
  · cases h

theorem extra_single {L : Option String} {m : Msg} (hm : Extra L m) : ∀ m' ∈ [m], Extra L m' := by
  intro m' h
  simp only [List.mem_singleton] at h; subst h; exact hm

/-- a buffered deposit that will lock LP carries the transaction's lock identifier -/
def BufL (L : Option String) (s : PmState) : Prop :=
  ∀ b, s.buffer = some b → b.unlocking.isSome = true → b.lockId = L

/-! ### multi-asset deposit: the lock message creates a position with identifier `L` -/

theorem plTail_extra {L : Option String} {s s' : PmState} {env : PmEnv} {sender : Addr} {pool : PoolInfo}
    {deposits : List Coin} {ls : Option Nat} {recv : Addr} {u : Option Nat} {l : Option String} {shares : Nat}
    {msgs0 : List Msg} {r : Response}
    (hl : u.isSome = true → l = L) (hfree : ∀ i, L = some i → env.fmPosition i = none)
    (h : plTail s env sender pool deposits ls recv u l shares msgs0 = .ok (s', r)) :
    s'.buffer = s.buffer ∧
    ∃ msgs1, r.msgs = (msgs0 ++ msgs1).map (fun m => ({ msg := m } : SubMsg)) ∧
      (∀ m ∈ msgs1, Extra L m) := by
  unfold plTail at h
  simp only [] at h
  obtain ⟨pa', hpa, h⟩ := bind_ok.mp h
  clear hpa
  cases u with
  | none =>
    simp only [↓ite_err_bind_ok, ↓pure_bind'] at h
    obtain ⟨hv, h⟩ := h
    obtain ⟨as', has, h⟩ := bind_ok.mp h
    simp only [pure_ok, Prod.mk.injEq] at h
    obtain ⟨rfl, rfl⟩ := h
    refine ⟨savePool_buffer _ _, _, rfl, ?_⟩
    intro m hm
    simp only [List.mem_singleton] at hm
    subst hm
    trivial
  | some uu =>
    have hl' : l = L := hl rfl
    simp only [↓ite_err_bind_ok] at h
    obtain ⟨hauth, h⟩ := h
    have hfin : ∀ lockMsg, Extra L lockMsg →
        ∀ m ∈ [Msg.tfMint ⟨pool.lpDenom, shares⟩ env.self, lockMsg], Extra L m := by
      intro lockMsg hlm m hm
      simp only [List.mem_cons, List.mem_singleton, List.not_mem_nil, or_false] at hm
      rcases hm with rfl | rfl
      · trivial
      · exact hlm
    cases l with
    | none =>
      simp only [↓pure_bind'] at h
      obtain ⟨as', has, h⟩ := bind_ok.mp h
      simp only [pure_ok, Prod.mk.injEq] at h
      obtain ⟨rfl, rfl⟩ := h
      exact ⟨savePool_buffer _ _, _, rfl, hfin _ hl'⟩
    | some lid =>
      simp only [] at h
      cases hfm : env.fmPosition lid with
      | none =>
        rw [hfm] at h
        simp only [↓pure_bind'] at h
        obtain ⟨as', has, h⟩ := bind_ok.mp h
        simp only [pure_ok, Prod.mk.injEq] at h
        obtain ⟨rfl, rfl⟩ := h
        exact ⟨savePool_buffer _ _, _, rfl, hfin _ hl'⟩
      | some pos =>
        rw [hfree lid hl'.symm] at hfm
        cases hfm

/-! ### the pool manager's `execute` and `reply` -/

/-- either the buffer is untouched and no reply is requested, or (single-asset deposit) the buffer is
    overwritten with the message's own lock identifier -/
theorem pmExecute_extra {L : Option String} {s s' : PmState} {env : PmEnv} {sender : Addr} {funds : List Coin}
    {m : PmMsg} {r : Response} {c : Addr}
    (hm : Extra L (.wasmExec c (.pm m) funds)) (hfree : ∀ i, L = some i → env.fmPosition i = none)
    (h : pmExecute s env sender funds m = .ok (s', r)) :
    (s'.buffer = s.buffer ∧ ∀ sm ∈ r.msgs, SubOk L sm) ∨ (BufL L s' ∧ ∀ sm ∈ r.msgs, Extra L sm.msg) := by
  cases m with
  | createPool denoms decimals fees pt id =>
    simp only [pmExecute] at h
    obtain ⟨counter, pool, lpSym, totalFees, -, -, -, -, rfl, hmsgs⟩ := createPool_ok h
    refine Or.inl ⟨savePool_buffer _ _, ?_⟩
    rw [hmsgs]
    exact subOk_map (extra_append (extra_opt) (extra_single (extra_noWasm (by trivial))))
  | provideLiquidity ls ss rc pid u l =>
    have hm' : u.isSome = true → l = L := hm
    simp only [pmExecute] at h
    obtain ⟨deps, hagg, hne⟩ := pl_agg h
    by_cases hlen : deps.length = 1
    · obtain ⟨c, rfl⟩ : ∃ c, deps = [c] := by
        match deps, hlen with
        | [c], _ => exact ⟨c, rfl⟩
      obtain ⟨pool, ask, sim, -, hguard, -, -, -, rfl, hmsgs⟩ := pl_single hagg h
      refine Or.inr ⟨?_, ?_⟩
      · intro b hb' hu
        simp only [Option.some.injEq] at hb'
        subst hb'
        exact hm' hu
      · rw [hmsgs]
        intro sm hsm
        simp only [List.mem_singleton] at hsm
        subst hsm
        trivial
    · obtain ⟨pool, sh, m0, hp, hm0, ht⟩ := pl_multi hagg hlen h
      obtain ⟨hbuf, msgs1, hmsgs, hshape⟩ := plTail_extra hm' hfree ht
      refine Or.inl ⟨hbuf, ?_⟩
      rw [hmsgs]
      exact subOk_map (extra_append (fun m hm => extra_mint (hm0 m hm)) hshape)
  | swap ask b ms rc pid =>
    simp only [pmExecute] at h
    obtain ⟨offer, sr, -, hps, hmsgs⟩ := C04.swapHandler_messages h
    refine Or.inl ⟨performSwap_buffer hps, ?_⟩
    rw [hmsgs]
    exact subOk_map (extra_append (extra_append (extra_opt) (extra_opt)) (extra_opt))
  | withdrawLiquidity pid =>
    simp only [pmExecute] at h
    obtain ⟨pool, amount, refunds, assets', -, -, -, rfl, hmsgs⟩ := withdraw_ok h
    refine Or.inl ⟨savePool_buffer _ _, ?_⟩
    rw [hmsgs]
    apply subOk_map
    intro m hm
    simp only [List.mem_cons, List.mem_singleton, List.not_mem_nil, or_false] at hm
    rcases hm with rfl | rfl <;> trivial
  | execSwapOps ops mr rc ms =>
    simp only [pmExecute] at h
    obtain ⟨first, last, amount, out, fm, -, -, -, hroute, hmsgs⟩ := execSwapOps_ok h
    refine Or.inl ⟨routeHops_buffer hroute, ?_⟩
    rw [hmsgs]
    apply subOk_map
    apply extra_append (extra_opt)
    intro m hm
    have := (C04.routeHops_fee_msgs (by intro m hm; cases hm) trivial hroute).2 m hm
    rcases this with ⟨cs, rfl⟩ | ⟨cs, rfl⟩ <;> trivial
  | updateConfig fc fm cf t =>
    obtain ⟨-, hr, hbf, -⟩ := pmExecute_config_ok (Or.inl ⟨_, _, _, _, rfl⟩) h
    exact Or.inl ⟨hbf, by rw [hr]; intro sm hsm; cases hsm⟩
  | updateOwnership a =>
    obtain ⟨-, hr, hbf, -⟩ := pmExecute_config_ok (Or.inr ⟨_, rfl⟩) h
    exact Or.inl ⟨hbf, by rw [hr]; intro sm hsm; cases hsm⟩

theorem pmReply_extra {L : Option String} {s s' : PmState} {env : PmEnv} {id : Nat} {r : Response}
    (hb : BufL L s) (h : pmReply s env id = .ok (s', r)) :
    s'.buffer = none ∧ ∀ sm ∈ r.msgs, SubOk L sm := by
  unfold pmReply at h
  split at h
  next hid =>
    split at h
    next => cases h
    next b hbuf =>
      split at h
      · cases h
      · split at h
        · cases h
        · cases h
          refine ⟨rfl, ?_⟩
          intro sm hsm
          simp only [Response.ofMsgs, List.map_cons, List.map_nil, List.mem_singleton] at hsm
          subst hsm
          exact ⟨fun hu => hb b hbuf hu, rfl⟩
  next => cases h

end MantraDex.ExactW
