/-
  Helper lemmas for Properties/MonSoundC.lean (soundness of the slippage monitor and of the two
  WithdrawPosition monitors with respect to the model).
-/
import MantraDex.Model.System
import MantraDex.Model.HistMon
import MantraDex.Properties.C04
import MantraDex.Properties.C08
import MantraDex.Properties.C12
import MantraDex.Properties.C13
import MantraDex.Proofs.QSysTx
import MantraDex.Proofs.WithdrawTxLemmas

set_option linter.unusedSimpArgs false
set_option linter.unusedVariables false

namespace MantraDex.MonSoundCL
open MantraDex
open MantraDex.C01 (coinsOf amt coinsOf_cons coinsOf_nil)

/-- a monitor raises no alarm when every clause holds -/
theorem firstFail_none (xs : List (Bool × String)) (h : ∀ x ∈ xs, x.1 = true) : firstFail xs = none := by
  unfold firstFail
  have : xs.filter (fun x => !x.1) = [] := by
    rw [List.filter_eq_nil_iff]
    intro x hx
    simp [h x hx]
  simp [this]

/-! ### the constant-product swap computation: `ret + slippage` is the ideal amount -/

/-- `get_swap_computation`: the reported slippage is the price impact plus all fees, the net return is the gross
    output minus all fees -/
theorem getSwapComputation_slip {gross slip : Nat} {fc : FeesComputation} {c : SwapComputation}
    (h : getSwapComputation gross slip fc = .ok c) :
    c.ret + (fc.swap + fc.protocol + fc.burn + fc.extra) = gross ∧
    c.slippage = slip + (fc.swap + fc.protocol + fc.burn + fc.extra) := by
  unfold getSwapComputation at h
  simp only [bind_ok, pure_ok, map_ok, ckSub_ok, ckAdd_ok, fit_ok] at h
  obtain ⟨r1, ⟨h1, rfl⟩, r2, ⟨h2, rfl⟩, r3, ⟨h3, rfl⟩, r4, ⟨h4, rfl⟩, s1, ⟨_, rfl⟩, s2, ⟨_, rfl⟩,
    s3, ⟨_, rfl⟩, s4, ⟨_, rfl⟩, r, ⟨_, rfl⟩, s, ⟨_, rfl⟩, a, ⟨_, rfl⟩, b, ⟨_, rfl⟩, c', ⟨_, rfl⟩,
    d, ⟨_, rfl⟩, rfl⟩ := h
  simp only
  omega

/-- the ideal amount as the code computes it (`Decimal256::from_ratio(ask_pool, offer_pool)` times the offer, floored) is
    the ideal amount as the monitor computes it -/
theorem ideal_eq (offer rate : Nat) : decFloor (offer * ONE18 * rate / ONE18) = offer * rate / ONE18 := by
  unfold decFloor
  rw [mul_mul_div_cancel offer ONE18 rate ONE18_pos]

/-- an accepted constant-product computation: the offer reserve is non-zero and net return + reported slippage is exactly
    the monitor's ideal amount `offer · ⌊y·10^18/x⌋ / 10^18` -/
theorem computeSwapCP_ideal {p : PoolInfo} {x y o : Nat} {c : SwapComputation}
    (h : computeSwapCP p x y o = .ok c) :
    x ≠ 0 ∧ c.ret + c.slippage = o * (y * ONE18 / x) / ONE18 := by
  unfold computeSwapCP at h
  simp only [bind_ok, pure_ok, ckMul_ok, ckAdd_ok, ckSub_ok, fit_ok, orPanic_ok, decFromRatio_ok, decMul_ok] at h
  obtain ⟨num, ⟨_, rfl⟩, den, ⟨_, rfl⟩, q, ⟨_, _, rfl⟩, rate, ⟨hx, _, rfl⟩, o18, ⟨_, rfl⟩, ideal, ⟨_, rfl⟩,
    slip, ⟨hle, rfl⟩, fc, hf, h⟩ := h
  obtain ⟨h1, h2⟩ := getSwapComputation_slip h
  refine ⟨hx, ?_⟩
  rw [ideal_eq] at hle h2
  rw [h2]
  omega

/-! ### which reserves `compute_swap` reads on a two-asset pool -/

theorem getAssetIndexes_two {p : PoolInfo} {od ad : Denom} {x y : Nat} {oc ac : Coin} {oi ai d1 d2 : Nat}
    (hne : od ≠ ad)
    (hassets : p.assets = [⟨od, x⟩, ⟨ad, y⟩] ∨ p.assets = [⟨ad, y⟩, ⟨od, x⟩])
    (h : getAssetIndexes p od ad = .ok (oc, ac, oi, ai, d1, d2)) :
    oc = ⟨od, x⟩ ∧ ac = ⟨ad, y⟩ := by
  obtain ⟨hfo, hfa, _, hoc, hac⟩ := C04.getAssetIndexes_ok h
  have hne' : ad ≠ od := fun e => hne e.symm
  rcases hassets with ha | ha
  · rw [ha] at hfo hfa hoc hac
    simp only [findIdx, beq_self_eq_true, if_true, Option.some.injEq, beq_iff_eq, hne, if_false, Option.map_some,
      Nat.zero_add] at hfo hfa
    subst hfo; subst hfa
    simp only [List.getElem?_cons_zero, List.getElem?_cons_succ, Option.some.injEq] at hoc hac
    exact ⟨hoc.symm, hac.symm⟩
  · rw [ha] at hfo hfa hoc hac
    simp only [findIdx, beq_self_eq_true, if_true, Option.some.injEq, beq_iff_eq, hne', if_false, Option.map_some,
      Nat.zero_add] at hfo hfa
    subst hfo; subst hfa
    simp only [List.getElem?_cons_zero, List.getElem?_cons_succ, Option.some.injEq] at hoc hac
    exact ⟨hoc.symm, hac.symm⟩

theorem computeSwap_cp_two {p : PoolInfo} {offer : Coin} {ask : Denom} {x y : Nat} {c : SwapComputation}
    (hcp : p.ptype = .cp) (hne : offer.denom ≠ ask)
    (hassets : p.assets = [⟨offer.denom, x⟩, ⟨ask, y⟩] ∨ p.assets = [⟨ask, y⟩, ⟨offer.denom, x⟩])
    (h : computeSwap p offer ask = .ok c) :
    computeSwapCP p x y offer.amount = .ok c := by
  unfold computeSwap at h
  simp only [bind_ok] at h
  obtain ⟨⟨oc, ac, oi, ai, od, ad⟩, hidx, h⟩ := h
  obtain ⟨rfl, rfl⟩ := getAssetIndexes_two hne hassets hidx
  simp only [hcp] at h
  exact h

/-- the slippage monitor is quiet on whatever `performSwap` accepts without a belief price on a constant-product pool -/
theorem monCpSlippage_performSwap {s s1 : PmState} {offer : Coin} {ask : Denom} {ms : Option Nat} {pid : String}
    {pool : PoolInfo} {x y : Nat} {r : SwapResult}
    (hp : s.getPool pid = .ok pool) (hcp : pool.ptype = .cp) (hne : offer.denom ≠ ask)
    (hassets : pool.assets = [⟨offer.denom, x⟩, ⟨ask, y⟩] ∨ pool.assets = [⟨ask, y⟩, ⟨offer.denom, x⟩])
    (hps : performSwap s offer ask pid none ms = .ok (s1, r)) :
    monCpSlippage ms x y offer.amount r.ret.amount = none := by
  obtain ⟨pool', c, hp', hc, hams⟩ := QSys.performSwap_slippage hps
  obtain ⟨pool'', c', hp'', hc', _, _, hret, _⟩ := C12.performSwap_inv hps
  rw [hp] at hp' hp''
  cases hp'; cases hp''
  rw [hc] at hc'
  cases hc'
  obtain ⟨hx, hid⟩ := computeSwapCP_ideal (computeSwap_cp_two hcp hne hassets hc)
  obtain ⟨_, hle⟩ := QSys.maxSlippage_none_ok hams
  rw [hret]
  unfold monCpSlippage
  rw [if_neg hx]
  simp only
  apply firstFail_none
  intro a ha
  simp only [List.mem_cons, List.mem_nil_iff, or_false] at ha
  subst ha
  simp only [Bool.or_eq_true, decide_eq_true_eq]
  right
  rw [← hid]
  have : c.ret + c.slippage - c.ret = c.slippage := by omega
  rw [this]
  exact hle

/-! ### WithdrawPosition -/

/-- whatever the handler accepts: the sender owns the position, and unless the emergency flag is set the position is closed
    and its unlock instant has been reached -/
theorem withdraw_accept_inv {s s' : FmState} {env : FmEnv} {sender : Addr} {funds : List Coin} {em : Option Bool}
    {r : Response} {p : Position}
    (hp : s.getPosition p.id = some p)
    (h : withdrawPosition s env sender funds p.id em = .ok (s', r)) :
    p.receiver = sender ∧ (em = some true ∨ ∃ t, p.expiringAt = some t ∧ t ≤ env.nowS) := by
  obtain ⟨p2, hp2, hrecv, _⟩ := C08.withdrawPosition_frame h
  rw [hp] at hp2
  cases hp2
  refine ⟨hrecv, ?_⟩
  by_cases hem : em = some true
  · exact Or.inl hem
  · exact Or.inr (C08.normal_withdraw_requires_unlock hp hem h).2

/-- the plain branch (no emergency flag), open or closed position: exactly one payment of the whole amount to the owner,
    the position is gone -/
theorem withdraw_normal_inv {s s' : FmState} {env : FmEnv} {sender : Addr} {funds : List Coin} {em : Option Bool}
    {r : Response} {p : Position}
    (hp : s.getPosition p.id = some p) (hem : em ≠ some true)
    (h : withdrawPosition s env sender funds p.id em = .ok (s', r)) :
    r.msgs = (withdrawMsgs p).map mkSub ∧ s'.getPosition p.id = none := by
  have hem' := C08.em_not_true hem
  unfold withdrawPosition at h
  rw [hp] at h
  cases ho : p.open_ with
  | false =>
    simp only [bind_ok, hem', Bool.false_and, Bool.false_eq_true, if_false, error_bind, pure_bind',
      ite_error_ok, ho, pure_ok, Prod.mk.injEq, List.nil_append] at h
    obtain ⟨_, _, h1, h2, h3, rfl, rfl⟩ := h
    exact ⟨rfl, getPosition_remove_same _ _⟩
  | true =>
    simp only [bind_ok, hem', Bool.false_and, Bool.false_eq_true, if_false, error_bind, pure_bind',
      ite_error_ok, ho, if_true, pure_ok, Prod.mk.injEq, List.nil_append] at h
    obtain ⟨_, _, h1, h2, h3, s3, hrec, rfl, rfl⟩ := h
    refine ⟨rfl, ?_⟩
    rw [(reconcileUserState_sameStore hrec).getPosition]
    exact getPosition_remove_same _ _

/-- an accepted top-level WithdrawPosition: the handler ran on the pre-state with the pre-state's environment -/
theorem withdraw_tx_handler {w w' : World} {u : Addr} {id : String} {em : Option Bool} {k : Option Nat}
    (h : runTx w (.exec u FM (.fm (.withdrawPosition id em)) []) k = .ok w') :
    ∃ s1 r, withdrawPosition w.fm w.fmEnv u [] id em = .ok (s1, r) ∧
      execSubs 63 { w with bank := { w.bank with calls := 0, failAt := k }, fm := s1 } FM r.msgs = .ok w' := by
  unfold runTx at h
  simp only at h
  have h64 : FUEL = 63 + 1 := rfl
  rw [h64, execMsg_fm_eq] at h
  obtain ⟨⟨s1, r⟩, hx, hsubs⟩ := bind_ok.mp h
  simp only [fmExecute] at hx
  exact ⟨s1, r, hx, hsubs⟩

/-- the transaction tree of an accepted plain withdrawal -/
theorem withdraw_normal_run {w w' : World} {u : Addr} {p : Position} {em : Option Bool} {k : Option Nat}
    (hp : w.fm.getPosition p.id = some p) (hem : em ≠ some true)
    (h : runTx w (.exec u FM (.fm (.withdrawPosition p.id em)) []) k = .ok w') :
    p.receiver = u ∧ w'.fm.getPosition p.id = none ∧
      Moves { w.bank with calls := 0, failAt := k } w'.bank FM p.receiver [⟨p.lpDenom, p.amount⟩] := by
  obtain ⟨s1, r, hx, hsubs⟩ := withdraw_tx_handler h
  obtain ⟨hrecv, _⟩ := withdraw_accept_inv hp hx
  obtain ⟨hr, hgone⟩ := withdraw_normal_inv hp hem hx
  rw [hr] at hsubs
  have hfuel := execSubs_leaf_fuel _ _ _ _ _ hsubs
  rw [execSubs_leaf _ 63 _ FM (withdrawMsgs_leaf p) hfuel] at hsubs
  obtain ⟨b', hrun, hw'⟩ := bind_ok.mp hsubs
  simp only [pure_ok] at hw'
  subst hw'
  exact ⟨hrecv, hgone, optSend_spec hrun⟩

theorem foldl_zero {α : Type} (l : List α) (f : α → Int) (h : ∀ a ∈ l, f a = 0) (acc : Int) :
    (l.map f).foldl (· + ·) acc = acc := by
  induction l generalizing acc with
  | nil => rfl
  | cons a l ih =>
    simp only [List.map_cons, List.foldl_cons]
    rw [h a (List.mem_cons_self ..), Int.add_zero]
    exact ih (fun b hb => h b (List.mem_cons_of_mem _ hb)) acc

end MantraDex.MonSoundCL
