/-
  Runtime lemmas for the LP-token properties (C02Sys / C03Sys):
  * executions that do not involve the pool manager (plain sends, calls of the other contracts) leave
    the pool manager's state and every supply untouched and never lower the pool manager's balances;
  * the exact effect of the leaf sub-messages of a pool-manager response (sends, burns, mints, the lock
    call into the farm manager) on supplies and on the pool manager's balances, as sums of per-message
    weights.
-/
import MantraDex.Model.System
import MantraDex.Proofs.NumLemmas
import MantraDex.Proofs.BankLemmas
import MantraDex.Proofs.LpSysBank
import MantraDex.Proofs.SysLemmasPm
import MantraDex.Proofs.SysLemmasSingle
import MantraDex.Proofs.TwoStepLemmas
import MantraDex.Properties.C20

set_option linter.unusedSimpArgs false
set_option linter.unusedVariables false
set_option linter.tactic.unusedName false

namespace MantraDex.LpSys
open MantraDex
open MantraDex.C01 (coinsOf amt coinsOf_cons coinsOf_nil coinsOf_singleton sumNat sumNat_cons sumNat_nil sumNat_append)
open MantraDex.SysPm (IsSend fmExecute_sends)

/-! ### executions that do not involve the pool manager -/

/-- the pool manager is a bystander -/
structure Foreign (w w' : World) : Prop where
  pm : w'.pm = w.pm
  tf : w'.tfFees = w.tfFees
  cov : Covers w'.bank
  sup : ∀ d, w'.bank.supply d = w.bank.supply d
  bal : ∀ d, w.bank.bal PM d ≤ w'.bank.bal PM d

theorem Foreign.refl {w : World} (hc : Covers w.bank) : Foreign w w :=
  ⟨rfl, rfl, hc, fun _ => rfl, fun _ => Nat.le_refl _⟩

theorem Foreign.trans {a b c : World} (h1 : Foreign a b) (h2 : Foreign b c) : Foreign a c :=
  ⟨h2.pm.trans h1.pm, h2.tf.trans h1.tf, h2.cov, fun d => (h2.sup d).trans (h1.sup d),
    fun d => Nat.le_trans (h1.bal d) (h2.bal d)⟩

/-- a bank send by somebody other than the pool manager -/
theorem foreign_send {b b' : Bank} {frm to : Addr} {cs : List Coin} (hne : frm ≠ PM)
    (h : b.send frm to cs = .ok b') (hc : Covers b) :
    Covers b' ∧ (∀ d, b'.supply d = b.supply d) ∧
    (∀ d, b'.bal PM d = b.bal PM d + if to = PM then coinsOf cs d else 0) := by
  obtain ⟨c1, s1⟩ := send_covers h hc
  obtain ⟨_, m⟩ := send_spec h
  refine ⟨c1, s1, fun d => ?_⟩
  have := m.bal PM d
  have h1 : ¬ PM = frm := fun e => hne e.symm
  simp only [h1, if_false, Nat.add_zero] at this
  by_cases ht : to = PM
  · subst ht; simpa using this
  · have h2 : ¬ PM = to := fun e => ht e.symm
    simp only [h2, ht, if_false] at this ⊢
    exact this

theorem callExecute_foreign {w w2 : World} {c sender : Addr} {funds : List Coin} {msg : ContractMsg}
    {resp : Response} (hm : ∀ pm, msg ≠ .pm pm)
    (h : callExecute w c sender funds msg = .ok (w2, resp)) :
    c ≠ PM ∧ w2.pm = w.pm ∧ w2.bank = w.bank ∧ w2.tfFees = w.tfFees ∧ ∀ sm ∈ resp.msgs, IsSend sm.msg := by
  cases msg with
  | pm m => exact absurd rfl (hm m)
  | fm m =>
    simp only [callExecute] at h
    split at h
    · cases h
    · rename_i hc
      have hc : c = FM := by simpa using hc
      obtain ⟨⟨s, r⟩, hr, h⟩ := bind_ok.mp h
      simp only [pure_ok, Prod.mk.injEq] at h
      obtain ⟨rfl, rfl⟩ := h
      exact ⟨hc ▸ SysPm.fm_ne_pm, rfl, rfl, rfl, fmExecute_sends hr⟩
  | em m =>
    simp only [callExecute] at h
    split at h
    · cases h
    · rename_i hc
      have hc : c = EM := by simpa using hc
      obtain ⟨s, hr, h⟩ := bind_ok.mp h
      simp only [pure_ok, Prod.mk.injEq] at h
      obtain ⟨rfl, rfl⟩ := h
      exact ⟨hc ▸ SysPm.em_ne_pm, rfl, rfl, rfl, by intro sm hsm; cases hsm⟩
  | fc m =>
    cases m with
    | updateOwnership a =>
      simp only [callExecute] at h
      split at h
      · cases h
      · rename_i hc
        have hc : c = FC := by simpa using hc
        obtain ⟨_, _, h⟩ := bind_ok.mp h
        obtain ⟨o, hr, h⟩ := bind_ok.mp h
        simp only [pure_ok, Prod.mk.injEq] at h
        obtain ⟨rfl, rfl⟩ := h
        exact ⟨hc ▸ SysPm.fc_ne_pm, rfl, rfl, rfl, by intro sm hsm; cases hsm⟩

/-- the bank sends emitted by a contract other than the pool manager (any reply mode) -/
theorem sends_subs (subs : List SubMsg) : ∀ (n : Nat) (w w' : World) (c : Addr), c ≠ PM →
    (∀ sm ∈ subs, IsSend sm.msg) → Covers w.bank → execSubs n w c subs = .ok w' →
    Foreign w w' ∧
    ((∀ sm ∈ subs, ∀ to cs, sm.msg = .bankSend to cs → to ≠ PM) → ∀ d, w'.bank.bal PM d = w.bank.bal PM d) := by
  induction subs with
  | nil =>
    intro n w w' c _ _ hc h
    have := SysPm.subs_nil h
    subst this
    exact ⟨Foreign.refl hc, fun _ _ => rfl⟩
  | cons sm rest ih =>
    intro n w w' c hcne hall hc h
    cases n with
    | zero => rw [execSubs] at h; cases h
    | succ n =>
      obtain ⟨to, cs, hsm⟩ := hall sm (List.mem_cons_self ..)
      have hrest : ∀ sm' ∈ rest, IsSend sm'.msg := fun sm' h' => hall sm' (List.mem_cons_of_mem _ h')
      rw [execSubs, hsm] at h
      -- the reply of a contract other than the pool manager changes nothing and emits nothing
      have hreply : ∀ (wa wb : World) (resp : Response), callReply wa c sm.id = .ok (wb, resp) →
          ∀ w3, execSubs n wb c resp.msgs = .ok w3 →
          w3.pm = wa.pm ∧ w3.bank = wa.bank ∧ w3.tfFees = wa.tfFees := by
        intro wa wb resp hcr w3 h3
        obtain ⟨e1, e2, e3, hresp⟩ := SysPm.callReply_other hcne hcr
        rw [hresp] at h3
        have := SysPm.subs_nil h3
        subst this
        exact ⟨e1, e2, e3⟩
      split at h
      · rename_i w1 hw1
        cases n with
        | zero => rw [execMsg] at hw1; cases hw1
        | succ n =>
        rw [execMsg] at hw1
        obtain ⟨b, hb, hw1⟩ := bind_ok.mp hw1
        simp only [pure_ok] at hw1; subst hw1
        obtain ⟨c1, s1, b1⟩ := foreign_send hcne hb hc
        have f1 : Foreign w { w with bank := b } :=
          ⟨rfl, rfl, c1, s1, fun d => by rw [b1 d]; exact Nat.le_add_right _ _⟩
        have key : ∀ w2 : World, w2.pm = w.pm → w2.bank = b → w2.tfFees = w.tfFees →
            execSubs (n + 1) w2 c rest = .ok w' →
            Foreign w w' ∧
            ((∀ sm' ∈ sm :: rest, ∀ to cs, sm'.msg = .bankSend to cs → to ≠ PM) →
              ∀ d, w'.bank.bal PM d = w.bank.bal PM d) := by
          intro w2 e1 e2 e3 h
          obtain ⟨f2, g2⟩ := ih (n + 1) w2 w' c hcne hrest (by rw [e2]; exact c1) h
          have f12 : Foreign w w2 := ⟨e1, e3, by rw [e2]; exact c1, fun d => by rw [e2]; exact s1 d,
            fun d => by rw [e2]; exact f1.bal d⟩
          refine ⟨f12.trans f2, fun hto d => ?_⟩
          rw [g2 (fun sm' h' => hto sm' (List.mem_cons_of_mem _ h')) d, e2, b1 d]
          have := hto sm (List.mem_cons_self ..) to cs hsm
          simp only [this, if_false, Nat.add_zero]
        split at h
        · obtain ⟨⟨w2, resp⟩, hcr, h⟩ := bind_ok.mp h
          obtain ⟨w3, h3, h⟩ := bind_ok.mp h
          obtain ⟨e1, e2, e3⟩ := hreply _ _ _ hcr w3 h3
          exact key w3 e1 e2 e3 h
        · exact key { w with bank := b } rfl rfl rfl h
      · rename_i e he
        split at h
        · obtain ⟨⟨w2, resp⟩, hcr, h⟩ := bind_ok.mp h
          obtain ⟨w3, h3, h⟩ := bind_ok.mp h
          obtain ⟨e1, e2, e3⟩ := hreply _ _ _ hcr w3 h3
          have hc3 : Covers w3.bank := by rw [e2]; exact hc
          obtain ⟨f2, g2⟩ := ih n w3 w' c hcne hrest hc3 h
          have f1 : Foreign w w3 := ⟨e1, e3, hc3, fun d => by rw [e2], fun d => by rw [e2]; exact Nat.le_refl _⟩
          refine ⟨f1.trans f2, fun hto d => ?_⟩
          rw [g2 (fun sm' h' => hto sm' (List.mem_cons_of_mem _ h')) d, e2]
        · cases h

/-- funds attached to a call by somebody other than the pool manager -/
theorem fundsMove_foreign {w w1 : World} {sender c : Addr} {funds : List Coin} (hs : sender ≠ PM)
    (h : (if funds.isEmpty then pure w else do
        let b ← w.bank.send sender c funds
        pure { w with bank := b }) = (.ok w1 : R World)) (hc : Covers w.bank) :
    Foreign w w1 ∧ ∀ d, w1.bank.bal PM d = w.bank.bal PM d + if c = PM then coinsOf funds d else 0 := by
  split at h
  · rename_i hf
    simp only [pure_ok] at h; subst h
    have : funds = [] := List.isEmpty_iff.1 hf
    subst this
    exact ⟨Foreign.refl hc, fun d => by simp⟩
  · obtain ⟨b, hb, h⟩ := bind_ok.mp h
    simp only [pure_ok] at h; subst h
    obtain ⟨c1, s1, b1⟩ := foreign_send hs hb hc
    exact ⟨⟨rfl, rfl, c1, s1, fun d => by rw [b1 d]; exact Nat.le_add_right _ _⟩, b1⟩

/-- a call of a contract other than the pool manager, by somebody other than the pool manager:
    `P` describes who the callee's bank sends may go to -/
theorem foreign_call {n : Nat} {w w' : World} {sender c : Addr} {msg : ContractMsg} {funds : List Coin}
    (hs : sender ≠ PM) (hm : ∀ pm, msg ≠ .pm pm) (hc : Covers w.bank)
    (h : execMsg (n + 1) w sender (.wasmExec c msg funds) = .ok w') :
    Foreign w w' ∧
    ∃ w1 w2 resp, callExecute w1 c sender funds msg = .ok (w2, resp) ∧ w1.fm = w.fm ∧
      ((∀ sm ∈ resp.msgs, ∀ to cs, sm.msg = .bankSend to cs → to ≠ PM) →
        ∀ d, w'.bank.bal PM d = w.bank.bal PM d) := by
  obtain ⟨w1, w2, resp, hw1, hce, h⟩ := SysPm.wasm_inv h
  obtain ⟨hcne, e1, e2, e3, hresp⟩ := callExecute_foreign hm hce
  obtain ⟨f1, b1⟩ := fundsMove_foreign hs hw1 hc
  have f2 : Foreign w1 w2 := ⟨e1, e3, by rw [e2]; exact f1.cov, fun d => by rw [e2],
    fun d => by rw [e2]; exact Nat.le_refl _⟩
  obtain ⟨f3, g3⟩ := sends_subs resp.msgs n w2 w' c hcne hresp f2.cov h
  have hfm : w1.fm = w.fm := by
    split at hw1
    · simp only [pure_ok] at hw1; subst hw1; rfl
    · obtain ⟨b, hb, hw1⟩ := bind_ok.mp hw1
      simp only [pure_ok] at hw1; subst hw1; rfl
  refine ⟨(f1.trans f2).trans f3, w1, w2, resp, hce, hfm, fun hto d => ?_⟩
  rw [g3 hto d, e2, b1 d]
  simp only [hcne, if_false, Nat.add_zero]

/-- a plain bank transfer by somebody other than the pool manager -/
theorem foreign_transfer {n : Nat} {w w' : World} {frm to : Addr} {cs : List Coin} (hs : frm ≠ PM)
    (hc : Covers w.bank) (h : execMsg n w frm (.bankSend to cs) = .ok w') : Foreign w w' := by
  cases n with
  | zero => rw [execMsg] at h; cases h
  | succ n =>
    rw [execMsg] at h
    obtain ⟨b, hb, h⟩ := bind_ok.mp h
    simp only [pure_ok] at h; subst h
    obtain ⟨c1, s1, b1⟩ := foreign_send hs hb hc
    exact ⟨rfl, rfl, c1, s1, fun d => by rw [b1 d]; exact Nat.le_add_right _ _⟩

/-! ### the leaf sub-messages of a pool-manager response -/

/-- LP (or any) coins of denom `d` created by a message -/
def mintW (d : Denom) : Msg → Nat
  | .tfMint c _ => amt c d
  | _ => 0

/-- coins of denom `d` destroyed by a message of the pool manager -/
def burnW (tf : List Coin) (d : Denom) : Msg → Nat
  | .bankBurn cs => coinsOf cs d
  | .tfCreateDenom _ => coinsOf tf d
  | .tfBurn c => amt c d
  | _ => 0

/-- coins of denom `d` leaving the pool manager's account through a message it sends -/
def outW (tf : List Coin) (d : Denom) : Msg → Nat
  | .bankSend _ cs => coinsOf cs d
  | .bankBurn cs => coinsOf cs d
  | .tfCreateDenom _ => coinsOf tf d
  | .tfBurn c => amt c d
  | .wasmExec _ _ funds => coinsOf funds d
  | .tfMint _ _ => 0

/-- coins of denom `d` arriving on the pool manager's account through a message it sends -/
def inW (d : Denom) : Msg → Nat
  | .bankSend to cs => if to = PM then coinsOf cs d else 0
  | .tfMint c to => if to = PM then amt c d else 0
  | _ => 0

def total (f : Msg → Nat) (msgs : List SubMsg) : Nat := sumNat (msgs.map fun sm => f sm.msg)

@[simp] theorem total_nil (f : Msg → Nat) : total f [] = 0 := rfl
theorem total_cons (f : Msg → Nat) (sm : SubMsg) (rest : List SubMsg) :
    total f (sm :: rest) = f sm.msg + total f rest := by
  unfold total; rw [List.map_cons, sumNat_cons]
theorem total_append (f : Msg → Nat) (xs ys : List SubMsg) :
    total f (xs ++ ys) = total f xs + total f ys := by
  unfold total; rw [List.map_append, sumNat_append]

def mk (m : Msg) : SubMsg := { msg := m }

theorem total_mk_cons (f : Msg → Nat) (m : Msg) (ms : List Msg) :
    total f ((m :: ms).map (fun m => ({ msg := m } : SubMsg))) =
      f m + total f (ms.map (fun m => ({ msg := m } : SubMsg))) := by
  rw [List.map_cons, total_cons]
theorem total_mk_nil (f : Msg → Nat) : total f (([] : List Msg).map (fun m => ({ msg := m } : SubMsg))) = 0 := rfl
theorem total_mk_append (f : Msg → Nat) (xs ys : List Msg) :
    total f ((xs ++ ys).map (fun m => ({ msg := m } : SubMsg))) =
      total f (xs.map (fun m => ({ msg := m } : SubMsg))) + total f (ys.map (fun m => ({ msg := m } : SubMsg))) := by
  rw [List.map_append, total_append]

/-- the lock call of a locked deposit -/
def LockCall : Msg → Prop
  | .wasmExec _ (.fm (.createPosition ..)) _ => True
  | .wasmExec _ (.fm (.expandPosition _)) _ => True
  | _ => False

/-- reply-`never`, and a bank / token-factory message or the lock call -/
def LeafOk (sm : SubMsg) : Prop := sm.replyOn = .never ∧ (IsLeaf sm.msg ∨ LockCall sm.msg)

abbrev GoodN (x : R (FmState × Response)) : Prop := C20.Good (fun _ => False) x

theorem goodN_createPosition {s env sender funds a b c} : GoodN (createPosition s env sender funds a b c) := by
  unfold createPosition; repeat' pstep
theorem goodN_expandPosition {s env sender funds a} : GoodN (expandPosition s env sender funds a) := by
  unfold expandPosition; repeat' pstep

theorem nil_of_forall_false {α : Type} {l : List α} (h : ∀ x ∈ l, False) : l = [] := by
  cases l with
  | nil => rfl
  | cons x xs => exact (h x (List.mem_cons_self ..)).elim

/-- the effect of one message sent by the pool manager -/
structure OneEff (w w' : World) (m : Msg) : Prop where
  pm : w'.pm = w.pm
  tf : w'.tfFees = w.tfFees
  cov : Covers w'.bank
  sup : ∀ d, w'.bank.supply d + burnW w.tfFees d m = w.bank.supply d + mintW d m
  bal : ∀ d, w'.bank.bal PM d + outW w.tfFees d m = w.bank.bal PM d + inW d m

theorem pm_send_bal {b b' : Bank} {to : Addr} {cs : List Coin} (m : Moves b b' PM to cs) (d : Denom) :
    b'.bal PM d + coinsOf cs d = b.bal PM d + if to = PM then coinsOf cs d else 0 := by
  have := m.bal PM d
  simp only [if_true] at this
  by_cases ht : to = PM
  · subst ht; simpa using this
  · have h2 : ¬ PM = to := fun e => ht e.symm
    simp only [h2, ht, if_false] at this ⊢
    exact this

theorem pm_burn_bal {b b' : Bank} {cs : List Coin} (m : Burns b b' PM cs) (d : Denom) :
    b'.bal PM d + coinsOf cs d = b.bal PM d := by
  have := m.bal PM d
  simpa using this

theorem pm_one {n : Nat} {w w' : World} {m : Msg} (hm : IsLeaf m ∨ LockCall m) (hc : Covers w.bank)
    (h : execMsg n w PM m = .ok w') : OneEff w w' m := by
  cases n with
  | zero => rw [execMsg] at h; cases h
  | succ n =>
    cases m with
    | bankSend to coins =>
      rw [execMsg] at h
      obtain ⟨b, hb, h⟩ := bind_ok.mp h
      simp only [pure_ok] at h; subst h
      obtain ⟨c1, s1⟩ := send_covers hb hc
      obtain ⟨_, mv⟩ := send_spec hb
      exact ⟨rfl, rfl, c1, fun d => by simp only [burnW, mintW]; rw [s1 d], fun d => pm_send_bal mv d⟩
    | bankBurn coins =>
      rw [execMsg] at h
      obtain ⟨b, hb, h⟩ := bind_ok.mp h
      simp only [pure_ok] at h; subst h
      obtain ⟨c1, s1⟩ := burn_covers hb hc
      obtain ⟨_, bs⟩ := burn_spec hb
      exact ⟨rfl, rfl, c1, fun d => by simp only [burnW, mintW]; rw [s1 d]; rfl,
        fun d => by simp only [outW, inW]; rw [pm_burn_bal bs d]; rfl⟩
    | tfCreateDenom sd =>
      rw [execMsg] at h
      obtain ⟨b, hb, h⟩ := bind_ok.mp h
      simp only [pure_ok] at h; subst h
      obtain ⟨c1, s1⟩ := burn_covers hb hc
      obtain ⟨_, bs⟩ := burn_spec hb
      exact ⟨rfl, rfl, c1, fun d => by simp only [burnW, mintW]; rw [s1 d]; rfl,
        fun d => by simp only [outW, inW]; rw [pm_burn_bal bs d]; rfl⟩
    | tfMint coin to =>
      rw [execMsg] at h
      obtain ⟨b, hb, h⟩ := bind_ok.mp h
      simp only [pure_ok] at h; subst h
      obtain ⟨c1, s1⟩ := mint_covers hb hc
      obtain ⟨_, mt⟩ := mint_spec hb
      refine ⟨rfl, rfl, c1, fun d => by simp only [burnW, mintW]; rw [s1 d, coinsOf_singleton]; rfl, fun d => ?_⟩
      simp only [outW, inW]
      rw [mt.bal PM d, coinsOf_singleton]
      by_cases ht : to = PM
      · subst ht; simp
      · have h2 : ¬ PM = to := fun e => ht e.symm
        simp [h2, ht]
    | tfBurn coin =>
      rw [execMsg] at h
      obtain ⟨b, hb, h⟩ := bind_ok.mp h
      simp only [pure_ok] at h; subst h
      obtain ⟨c1, s1⟩ := burn_covers hb hc
      obtain ⟨_, bs⟩ := burn_spec hb
      exact ⟨rfl, rfl, c1, fun d => by simp only [burnW, mintW]; rw [← s1 d, coinsOf_singleton]; rfl,
        fun d => by simp only [outW, inW]; rw [← pm_burn_bal bs d, coinsOf_singleton]; rfl⟩
    | wasmExec c msg funds =>
      have hl : LockCall (.wasmExec c msg funds) := by
        rcases hm with hm | hm
        · exact absurd hm id
        · exact hm
      obtain ⟨w1, w2, resp, hw1, hce, h⟩ := SysPm.wasm_inv h
      -- the callee is the farm manager and answers without messages
      have hfm : c = FM ∧ w2.pm = w1.pm ∧ w2.bank = w1.bank ∧ w2.tfFees = w1.tfFees ∧ resp.msgs = [] := by
        cases msg with
        | fm fmsg =>
          simp only [callExecute] at hce
          split at hce
          · cases hce
          · rename_i hcc
            have hcc : c = FM := by simpa using hcc
            obtain ⟨⟨s, r⟩, hr, hce⟩ := bind_ok.mp hce
            simp only [pure_ok, Prod.mk.injEq] at hce
            obtain ⟨rfl, rfl⟩ := hce
            refine ⟨hcc, rfl, rfl, rfl, ?_⟩
            cases fmsg with
            | createPosition a b cc =>
              exact nil_of_forall_false (goodN_createPosition.out _ hr)
            | expandPosition a =>
              exact nil_of_forall_false (goodN_expandPosition.out _ hr)
            | _ => exact absurd hl id
        | _ => exact absurd hl id
      obtain ⟨rfl, e1, e2, e3, hresp⟩ := hfm
      rw [hresp] at h
      have := SysPm.subs_nil h
      subst this
      have hne : FM ≠ PM := SysPm.fm_ne_pm
      split at hw1
      · rename_i hf
        simp only [pure_ok] at hw1; subst hw1
        have : funds = [] := List.isEmpty_iff.1 hf
        subst this
        exact ⟨e1, e3, by rw [e2]; exact hc, fun d => by simp only [burnW, mintW]; rw [e2],
          fun d => by simp only [outW, inW]; rw [e2]; simp⟩
      · obtain ⟨b, hb, hw1⟩ := bind_ok.mp hw1
        simp only [pure_ok] at hw1; subst hw1
        obtain ⟨c1, s1⟩ := send_covers hb hc
        obtain ⟨_, mv⟩ := send_spec hb
        refine ⟨e1, e3, by rw [e2]; exact c1, fun d => by simp only [burnW, mintW]; rw [e2]; exact s1 d, fun d => ?_⟩
        simp only [outW, inW]
        rw [e2]
        have := pm_send_bal mv d
        simp only [hne, if_false] at this
        exact this

/-- the effect of the leaf sub-messages of a pool-manager response -/
structure SubsEff (w w' : World) (msgs : List SubMsg) : Prop where
  pm : w'.pm = w.pm
  tf : w'.tfFees = w.tfFees
  cov : Covers w'.bank
  sup : ∀ d, w'.bank.supply d + total (burnW w.tfFees d) msgs = w.bank.supply d + total (mintW d) msgs
  bal : ∀ d, w'.bank.bal PM d + total (outW w.tfFees d) msgs = w.bank.bal PM d + total (inW d) msgs

theorem pm_leaf_subs (msgs : List SubMsg) : ∀ (n : Nat) (w w' : World), (∀ sm ∈ msgs, LeafOk sm) →
    Covers w.bank → execSubs n w PM msgs = .ok w' → SubsEff w w' msgs := by
  induction msgs with
  | nil =>
    intro n w w' _ hc h
    have := SysPm.subs_nil h
    subst this
    exact ⟨rfl, rfl, hc, fun d => rfl, fun d => rfl⟩
  | cons sm rest ih =>
    intro n w w' hall hc h
    cases n with
    | zero => rw [execSubs] at h; cases h
    | succ n =>
      obtain ⟨hro, hm⟩ := hall sm (List.mem_cons_self ..)
      rw [execSubs] at h
      split at h
      · rename_i w1 hw1
        simp only [hro, ReplyOn.onSuccess, Bool.false_eq_true, if_false] at h
        have p1 := pm_one hm hc hw1
        have p2 := ih n w1 w' (fun sm' h' => hall sm' (List.mem_cons_of_mem _ h')) p1.cov h
        refine ⟨p2.pm.trans p1.pm, p2.tf.trans p1.tf, p2.cov, fun d => ?_, fun d => ?_⟩
        · have h1 := p1.sup d
          have h2 := p2.sup d
          rw [p1.tf] at h2
          rw [total_cons, total_cons]
          omega
        · have h1 := p1.bal d
          have h2 := p2.bal d
          rw [p1.tf] at h2
          rw [total_cons, total_cons]
          omega
      · simp only [hro, ReplyOn.onError, Bool.false_eq_true, if_false] at h
        cases h

end MantraDex.LpSys
