/-
  Farms through the runtime (`Properties/C15Sys.lean`, `farms_change_only_by_authorised_tx`): a farm keeps its
  owner, parameters and budget (only `claimed` grows) across every execution whose contract calls are not
  `CreateFarm` / `ExpandFarm` / `CloseFarm`; those three can only be the top-level message, and each of them
  touches a farm only under its own authorisation rule.
-/
import MantraDex.Proofs.AuthSysPriv

set_option linter.unusedSimpArgs false
set_option linter.unusedVariables false

namespace MantraDex.AuthSys
open MantraDex SysPm FmSys

/-- same farm up to the amount already claimed (same as `C15Sys.FarmSameBudget`) -/
def SameBudget (f f' : Farm) : Prop :=
  f'.id = f.id ∧ f'.owner = f.owner ∧ f'.lpDenom = f.lpDenom ∧ f'.assetDenom = f.assetDenom ∧
  f'.emissionRate = f.emissionRate ∧ f'.startEpoch = f.startEpoch ∧
  f'.assetAmount = f.assetAmount ∧ f'.endEpoch = f.endEpoch ∧ f.claimed ≤ f'.claimed

theorem SameBudget.refl (f : Farm) : SameBudget f f :=
  ⟨rfl, rfl, rfl, rfl, rfl, rfl, rfl, rfl, Nat.le_refl _⟩

theorem SameBudget.trans {a b c : Farm} (h1 : SameBudget a b) (h2 : SameBudget b c) : SameBudget a c := by
  obtain ⟨a1, a2, a3, a4, a5, a6, a7, a8, a9⟩ := h1
  obtain ⟨b1, b2, b3, b4, b5, b6, b7, b8, b9⟩ := h2
  exact ⟨b1.trans a1, b2.trans a2, b3.trans a3, b4.trans a4, b5.trans a5, b6.trans a6, b7.trans a7,
    b8.trans a8, Nat.le_trans a9 b9⟩

def FarmsKept (s s' : FmState) : Prop := ∀ f ∈ s.farms, ∃ f' ∈ s'.farms, SameBudget f f'

theorem FarmsKept.refl (s : FmState) : FarmsKept s s := fun f hf => ⟨f, hf, SameBudget.refl f⟩

theorem FarmsKept.trans {a b c : FmState} (h1 : FarmsKept a b) (h2 : FarmsKept b c) : FarmsKept a c := by
  intro f hf
  obtain ⟨f1, hf1, e1⟩ := h1 f hf
  obtain ⟨f2, hf2, e2⟩ := h2 f1 hf1
  exact ⟨f2, hf2, e1.trans e2⟩

theorem FarmsKept.of_farms {s s' : FmState} (h : s'.farms = s.farms) : FarmsKept s s' :=
  fun f hf => ⟨f, by rw [h]; exact hf, SameBudget.refl f⟩

def FarmIds (s : FmState) : Prop := (s.farms.map (·.id)).Nodup

/-- identifiers stay distinct and all farms are kept -/
def FK (s s' : FmState) : Prop := FarmIds s → FarmIds s' ∧ FarmsKept s s'

theorem FK.refl (s : FmState) : FK s s := fun h => ⟨h, FarmsKept.refl s⟩
theorem FK.trans {a b c : FmState} (h1 : FK a b) (h2 : FK b c) : FK a c := by
  intro ha
  obtain ⟨hb, k1⟩ := h1 ha
  obtain ⟨hc, k2⟩ := h2 hb
  exact ⟨hc, k1.trans k2⟩
theorem FK.of_farms {s s' : FmState} (h : s'.farms = s.farms) : FK s s' :=
  fun hn => ⟨by unfold FarmIds; rw [h]; exact hn, FarmsKept.of_farms h⟩

/-- what replacing a farm by one with the same identifier does to the others -/
theorem saveFarm_mem {s : FmState} {f f0 : Farm} (hn : FarmIds s) (hf0 : f0 ∈ s.farms)
    (hid : f.id = f0.id) : ∀ g ∈ s.farms, (g = f0 ∧ f ∈ (s.saveFarm f).farms) ∨ g ∈ (s.saveFarm f).farms := by
  intro g hg
  have hany : (s.farms.any (·.id == f.id)) = true :=
    List.any_eq_true.2 ⟨f0, hf0, by simp [hid]⟩
  have hfarms : (s.saveFarm f).farms = s.farms.map fun q => if q.id == f.id then f else q := by
    unfold FmState.saveFarm; rw [if_pos hany]
  rw [hfarms]
  by_cases hgi : (g.id == f.id) = true
  · left
    refine ⟨?_, List.mem_map.2 ⟨g, hg, by simp [hgi]⟩⟩
    apply FH.nodup_key_inj (fun x : Farm => x.id) s.farms hn g hg f0 hf0
    show g.id = f0.id
    rw [← hid]; simpa using hgi
  · right
    exact List.mem_map.2 ⟨g, hg, by simp [hgi]⟩

theorem claimModStep_fk {s1 s2 : FmState} {m : String × Nat} (h : FH.claimModStep s1 m = .ok s2) :
    FK s1 s2 := by
  unfold FH.claimModStep at h
  simp only [FH.error_bind, FH.ite_err_ok, bind_ok, pure_ok, ckAdd_ok] at h
  obtain ⟨f, hf, c, ⟨_, rfl⟩, hle, rfl⟩ := h
  obtain ⟨hmem, _⟩ := FH.getFarm_ok hf
  intro hn
  refine ⟨?_, ?_⟩
  · unfold FarmIds
    rw [FH.saveFarm_replace_map (fun x : Farm => x.id) (s := s1) (f0 := f)
      (f := { f with claimed := f.claimed + m.2 }) hmem rfl (fun q _ hq => hq.symm)]
    exact hn
  · intro g hg
    rcases saveFarm_mem (f := { f with claimed := f.claimed + m.2 }) hn hmem rfl g hg with ⟨rfl, hin⟩ | hin
    · exact ⟨_, hin, rfl, rfl, rfl, rfl, rfl, rfl, rfl, rfl, Nat.le_add_right _ _⟩
    · exact ⟨g, hin, SameBudget.refl g⟩

theorem claimStep_fk {env : FmEnv} {sender : Addr} {u : Nat} {st st' : FmState × List Coin}
    {lp : Denom} (h : FH.claimStep env sender u st lp = .ok st') : FK st.1 st'.1 := by
  unfold FH.claimStep at h
  simp only [bind_ok, pure_ok] at h
  obtain ⟨rc, hrc, s1, hfold, s2, hsync, rfl⟩ := h
  have h1 : FK st.1 s1 :=
    foldlM_inv (fun (x : FmState) => FK st.1 x) _
      (fun b m b' hb hm => hb.trans (claimModStep_fk hm)) _ _ _ (FK.refl _) hfold
  exact h1.trans (FK.of_farms (syncHistory_sameStore hsync).2.1)

theorem fmClaim_fk {s s' : FmState} {env : FmEnv} {sender : Addr} {funds : List Coin}
    {u : Option Nat} {r : Response} (h : fmClaim s env sender funds u = .ok (s', r)) : FK s s' := by
  rw [FH.fmClaim_eq] at h
  simp only [FH.error_bind, FH.ite_err_ok, bind_ok, pure_ok] at h
  obtain ⟨_, hnp, _, cur, _, untilE, _, ⟨s1, total⟩, hfold, h⟩ := h
  have hfk : FK s s1 :=
    foldlM_inv (fun (x : FmState × List Coin) => FK s x.1) _
      (fun b m b' hb hm => hb.trans (claimStep_fk hm)) _ _ _ (FK.refl _) hfold
  split at h
  · simp only [bind_ok, pure_ok, Prod.mk.injEq] at h
    obtain ⟨msgs, rfl, rfl, rfl⟩ := h
    exact hfk.trans (FK.of_farms rfl)
  · simp only [bind_ok, pure_ok, Prod.mk.injEq] at h
    obtain ⟨agg, _, msgs, rfl, rfl, rfl⟩ := h
    exact hfk.trans (FK.of_farms rfl)

/-- farm messages -/
def FarmMsg : FmMsg → Prop
  | .createFarm _ => True
  | .expandFarm _ => True
  | .closeFarm _ => True
  | _ => False

/-- every message other than the three farm messages keeps all farms -/
theorem fmExecute_fk {s s' : FmState} {env : FmEnv} {sender : Addr} {funds : List Coin} {m : FmMsg}
    {r : Response} (hwf : PosWF s) (h : fmExecute s env sender funds m = .ok (s', r)) (hm : ¬ FarmMsg m) :
    FK s s' := by
  cases m with
  | createFarm p => exact absurd trivial hm
  | expandFarm p => exact absurd trivial hm
  | closeFarm id => exact absurd trivial hm
  | claim u => exact fmClaim_fk h
  | createPosition id u rc => exact FK.of_farms (createPosition_wf hwf h).2.1
  | expandPosition id => exact FK.of_farms (expandPosition_wf hwf h).2.1
  | closePosition id lp => exact FK.of_farms (closePosition_wf hwf h).2.1
  | withdrawPosition id e => exact FK.of_farms (withdrawPosition_wf hwf h).2.1
  | updateConfig u => exact FK.of_farms (C05.config_conserves (Or.inl ⟨u, rfl⟩) h).2.1
  | updateOwnership a => exact FK.of_farms (C05.config_conserves (Or.inr ⟨a, rfl⟩) h).2.1

def QFarm : ContractMsg → Prop
  | .fm m => ¬ FarmMsg m
  | _ => True

theorem qfarm_emitted : ∀ c msg funds, Emitted (.wasmExec c msg funds) → QFarm msg := by
  intro c msg funds h
  cases msg with
  | pm m => trivial
  | fm m => cases m <;> first | exact h.elim | exact fun hp => hp
  | em m => trivial
  | fc m => trivial

def FarmG (w w' : World) : Prop := FarmsKept w.fm w'.fm

theorem farm_lift : Lift (fun w => FmWF w.fm) FarmG (OkQ QFarm) := by
  apply lift_simple qfarm_emitted
  · exact fun w => FarmsKept.refl _
  · exact fun h1 h2 => FarmsKept.trans h1 h2
  · exact fun w b h => ⟨h, FarmsKept.refl _⟩
  · intro w w2 c sender funds msg resp hinv hq hce
    rcases callExecute_cases hce with ⟨m, s, -, -, -, rfl⟩ | ⟨m, s, rfl, -, hx, rfl⟩ | ⟨m, s, -, -, -, rfl, -⟩ |
        ⟨a, o, -, -, -, -, rfl, -⟩
    · exact ⟨hinv, FarmsKept.refl _⟩
    · exact ⟨(fmExecute_ok hinv hx).1, (fmExecute_fk hinv.pos hx hq hinv.farmNodup).2⟩
    · exact ⟨hinv, FarmsKept.refl _⟩
    · exact ⟨hinv, FarmsKept.refl _⟩
  · intro w w2 c id resp hinv hcr
    rcases callReply_cases hcr with ⟨-, s, hx, rfl⟩ | ⟨-, rfl, -⟩
    · exact ⟨hinv, FarmsKept.refl _⟩
    · exact ⟨hinv, FarmsKept.refl _⟩

/-! ### the three farm messages -/

theorem createFarm_farms {s s' : FmState} {env : FmEnv} {sender : Addr} {funds : List Coin}
    {p : FarmParams} {r : Response} (hn : FarmIds s) (h : createFarm s env sender funds p = .ok (s', r)) :
    ∀ f ∈ s.farms, f ∈ s'.farms ∨ (p.lpDenom = f.lpDenom ∧ isFarmExpiredOrFalse s env f = .ok true) := by
  obtain ⟨cur, flags, feeMsgs, start, end_, rate, -, hflags, -, -, -, -, -, -, hany, rfl, -⟩ :=
    FH.createFarm_inv h
  intro f hf
  obtain ⟨-, hfarms, -, -, -⟩ := FH.closeFarms_spec s (FH.cfExpired s p flags)
  by_cases hex : (FH.cfExpired s p flags).any (·.id == f.id) = true
  · right
    obtain ⟨e, he, hid⟩ := List.any_eq_true.1 hex
    have hsub : (FH.cfExpired s p flags).Sublist s.farms := by
      unfold FH.cfExpired FH.cfFarms FmState.farmsByLp
      exact ((FH.zip_filter_sublist _ _ _).trans (List.take_sublist _ _)).trans List.filter_sublist
    have hef : e = f := by
      apply FH.nodup_key_inj (fun x : Farm => x.id) s.farms hn e (hsub.subset he) f hf
      simpa using hid
    subst hef
    unfold FH.cfExpired at he
    obtain ⟨⟨e', b⟩, hz, rfl⟩ := List.mem_map.1 he
    obtain ⟨hz, hb⟩ := List.mem_filter.1 hz
    have hb : b = true := hb
    subst hb
    have hfl := (FH.mapM_ok_zip _ _ _ hflags).2 _ hz
    refine ⟨?_, hfl⟩
    have hmem : e' ∈ FH.cfFarms s p := (List.of_mem_zip hz).1
    unfold FH.cfFarms FmState.farmsByLp at hmem
    have := (List.mem_filter.1 (List.mem_of_mem_take hmem)).2
    have h2 : e'.lpDenom = p.lpDenom := by simpa using this
    exact h2.symm
  · left
    apply (FH.saveFarm_perm_new hany).mem_iff.2
    apply List.mem_cons_of_mem
    rw [FH.cfIdState_farms, hfarms]
    apply List.mem_filter.2
    refine ⟨hf, ?_⟩
    simpa using hex

theorem expandFarm_farms {s s' : FmState} {env : FmEnv} {sender : Addr} {funds : List Coin}
    {p : FarmParams} {r : Response} (hn : FarmIds s) (h : expandFarm s env sender funds p = .ok (s', r)) :
    ∀ f ∈ s.farms, f ∈ s'.farms ∨ (sender = f.owner ∧ p.farmId = some f.id) := by
  unfold expandFarm at h
  cases hid : p.farmId with
  | none => simp [hid, bind, Except.bind] at h
  | some fid =>
    simp only [hid, FH.error_bind, FH.ite_err_ok, bind_ok, pure_ok, fit_ok, ckAdd_ok, Prod.mk.injEq] at h
    obtain ⟨fid', hfid', f0, hf0, hown, cur, hcur, hlt, ex, _, _, _, reward, hone, hrw, hden, hrate, hmod, total,
      ⟨_, rfl⟩, extra, ⟨_, rfl⟩, newEnd, ⟨_, rfl⟩, rfl, rfl⟩ := h
    cases hfid'
    obtain ⟨hmem, hfid⟩ := FH.getFarm_ok hf0
    intro g hg
    rcases saveFarm_mem (f := { f0 with assetAmount := f0.assetAmount + reward.amount, endEpoch := f0.endEpoch + p.asset.amount / f0.emissionRate }) hn hmem rfl g hg with ⟨rfl, -⟩ | hin
    · right
      refine ⟨?_, by rw [hfid]⟩
      have : g.owner = sender := by simpa using hown
      exact this.symm
    · exact Or.inl hin

theorem closeFarm_farms {s s' : FmState} {sender : Addr} {funds : List Coin} {id : String}
    {r : Response} (hn : FarmIds s) (h : closeFarm s sender funds id = .ok (s', r)) :
    ∀ f ∈ s.farms, f ∈ s'.farms ∨
      (id = f.id ∧ funds = [] ∧ (sender = f.owner ∨ s.owner.owner = some sender)) := by
  unfold closeFarm at h
  simp only [FH.error_bind, FH.ite_err_ok, bind_ok, pure_ok, Prod.mk.injEq] at h
  obtain ⟨_, hnp, f0, hf0, hauth, rfl, rfl⟩ := h
  obtain ⟨hmem, hfid⟩ := FH.getFarm_ok hf0
  obtain ⟨-, hfarms, -, -, -⟩ := FH.closeFarms_spec s [f0]
  intro g hg
  by_cases hgi : g.id = f0.id
  · right
    have : g = f0 := FH.nodup_key_inj (fun x : Farm => x.id) s.farms hn g hg f0 hmem hgi
    subst this
    refine ⟨hfid.symm, FH.nonpayable_ok hnp, ?_⟩
    have : g.owner = sender ∨ s.owner.owner = some sender := by
      simpa [Classical.or_iff_not_imp_left] using hauth
    rcases this with h1 | h1
    · exact Or.inl h1.symm
    · exact Or.inr h1
  · left
    rw [hfarms]
    apply List.mem_filter.2
    refine ⟨hg, ?_⟩
    simp only [List.any_cons, List.any_nil, Bool.or_false, Bool.not_eq_true', beq_eq_false_iff_ne, ne_eq]
    exact fun e => hgi e.symm

/-- the farm frame: every farm is kept (up to `claimed`), or the transaction is one of the three farm messages
    sent directly to the farm manager under the farm's own authorisation rule -/
theorem farm_frame (w : World) (tx : Tx) (k : Option Nat) (hwf : FmWF w.fm) (f : Farm) (hf : f ∈ w.fm.farms) :
    (∃ f' ∈ (step w tx k).fm.farms, SameBudget f f') ∨
    (∃ p funds, tx = .exec f.owner FM (.fm (.expandFarm p)) funds ∧ p.farmId = some f.id) ∨
    (∃ sender, tx = .exec sender FM (.fm (.closeFarm f.id)) [] ∧
      (sender = f.owner ∨ w.fm.owner.owner = some sender)) ∨
    (∃ sender p funds, tx = .exec sender FM (.fm (.createFarm p)) funds ∧ p.lpDenom = f.lpDenom ∧
      isFarmExpiredOrFalse w.fm w.fmEnv f = .ok true) := by
  rcases frame_or_direct qfarm_emitted farm_lift (fun w n => FarmsKept.refl _) w tx k hwf with
    h | ⟨sender, c, msg, funds, b, w2, resp, rfl, hnq, hce, hG, -⟩
  · exact Or.inl (h f hf)
  · rcases callExecute_cases hce with ⟨m, s, rfl, -⟩ | ⟨m, s, rfl, rfl, hx, rfl⟩ | ⟨m, s, rfl, -⟩ |
        ⟨a, o, rfl, -⟩
    · exact absurd trivial hnq
    · have hwf2 := (fmExecute_ok (s := w.fm) hwf hx).1
      have hkept : FarmsKept s (step w (.exec sender FM (.fm m) funds) k).fm := hG hwf2
      have keep : f ∈ s.farms → ∃ f' ∈ (step w (.exec sender FM (.fm m) funds) k).fm.farms, SameBudget f f' :=
        fun hin => hkept f hin
      have hp : FarmMsg m := Classical.not_not.1 hnq
      cases m with
      | createFarm p =>
        rcases createFarm_farms hwf.farmNodup hx f hf with hin | ⟨h1, h2⟩
        · exact Or.inl (keep hin)
        · exact Or.inr (Or.inr (Or.inr ⟨sender, p, funds, rfl, h1, h2⟩))
      | expandFarm p =>
        rcases expandFarm_farms hwf.farmNodup hx f hf with hin | ⟨h1, h2⟩
        · exact Or.inl (keep hin)
        · subst h1
          exact Or.inr (Or.inl ⟨p, funds, rfl, h2⟩)
      | closeFarm id =>
        rcases closeFarm_farms hwf.farmNodup hx f hf with hin | ⟨h1, h2, h3⟩
        · exact Or.inl (keep hin)
        · subst h1; subst h2
          exact Or.inr (Or.inr (Or.inl ⟨sender, rfl, h3⟩))
      | _ => exact hp.elim
    · exact absurd trivial hnq
    · exact absurd trivial hnq

end MantraDex.AuthSys
