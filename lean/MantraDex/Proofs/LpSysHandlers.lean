/-
  Handler-level facts for the LP-token properties (C02Sys / C03Sys): what each pool-manager handler
  mints, burns, sends out of and into the pool manager's account in a denom `d` that is neither an asset
  of a pool nor a token-factory fee denom (an LP denom under `LpPlain`).
-/
import MantraDex.Model.System
import MantraDex.Proofs.NumLemmas
import MantraDex.Proofs.LpSysRun
import MantraDex.Proofs.PmSysLemmas
import MantraDex.Proofs.HandlerLemmas
import MantraDex.Proofs.PoolLemmas
import MantraDex.Properties.C14
import MantraDex.Properties.C02

set_option linter.unusedSimpArgs false
set_option linter.unusedVariables false
set_option linter.tactic.unusedName false

namespace MantraDex.LpSys
open MantraDex
open MantraDex.C01 (coinsOf amt coinsOf_cons coinsOf_nil coinsOf_singleton sumNat sumNat_cons sumNat_nil sumNat_append)

/-! ### the locked minimum -/

/-- the minimum liquidity locked by the first deposit into `p` -/
def minLiq (p : PoolInfo) : Option Nat :=
  match p.ptype with
  | .cp => some C.MINIMUM_LIQUIDITY_AMOUNT
  | .stable _ =>
    match listMin p.decimals, listMax p.decimals with
    | some mn, some mx => (match minLiquidityStable mn mx with | .ok m => some m | .error _ => none)
    | _, _ => none

theorem foldl_min_le (xs : List Nat) (x : Nat) : xs.foldl min x ≤ x := by
  induction xs generalizing x with
  | nil => exact Nat.le_refl _
  | cons y ys ih => exact Nat.le_trans (ih (min x y)) (Nat.min_le_left _ _)

theorem le_foldl_max (xs : List Nat) (x : Nat) : x ≤ xs.foldl max x := by
  induction xs generalizing x with
  | nil => exact Nat.le_refl _
  | cons y ys ih => exact Nat.le_trans (Nat.le_max_left _ _) (ih (max x y))

theorem listMin_le_listMax {l : List Nat} {mn mx : Nat} (h1 : listMin l = some mn) (h2 : listMax l = some mx) :
    mn ≤ mx := by
  cases l with
  | nil => cases h1
  | cons x xs =>
    simp only [listMin, listMax, Option.some.injEq] at h1 h2
    subst h1 h2
    exact Nat.le_trans (foldl_min_le xs x) (le_foldl_max xs x)

theorem minLiquidityStable_pos {mn mx m : Nat} (hle : mn ≤ mx) (h : minLiquidityStable mn mx = .ok m) : 0 < m := by
  unfold minLiquidityStable at h
  obtain ⟨r, hr, h⟩ := bind_ok.mp h
  unfold normalizeAmount at hr
  have hng : ¬ mn > mx := by omega
  rw [if_neg hng] at hr
  split at hr
  · cases hr
  · simp only [pure_ok] at hr
    subst hr
    split at h
    · rename_i x hx
      simp only [pure_ok] at h
      subst h
      split at hx
      · cases hx
        exact Nat.mul_pos (by decide) (Nat.pow_pos (by decide))
      · cases hx
    · cases h

theorem minLiq_pos {p : PoolInfo} {m : Nat} (h : minLiq p = some m) : 0 < m := by
  unfold minLiq at h
  split at h
  · cases h; decide
  · split at h
    · rename_i mn mx h1 h2
      split at h
      · rename_i m' hm
        cases h
        exact minLiquidityStable_pos (listMin_le_listMax h1 h2) hm
      · cases h
    · cases h

/-! ### `d` is not a reserve denom of any pool -/

def PlainPools (d : Denom) (s : PmState) : Prop := ∀ q ∈ s.pools, ∀ a ∈ q.assets, a.denom ≠ d

theorem plain_of_pools {d : Denom} {s s' : PmState} (h : s'.pools = s.pools) (hp : PlainPools d s) :
    PlainPools d s' := by
  unfold PlainPools; rw [h]; exact hp

theorem plain_of_denoms {d : Denom} {as : List Coin} {as' : List Coin}
    (h : as'.map (·.denom) = as.map (·.denom)) (hp : ∀ a ∈ as, a.denom ≠ d) : ∀ a ∈ as', a.denom ≠ d := by
  intro a ha e
  have : a.denom ∈ as'.map (·.denom) := List.mem_map_of_mem ha
  rw [h] at this
  obtain ⟨b, hb, hbe⟩ := List.mem_map.1 this
  exact hp b hb (hbe.trans e)

theorem pmStep_plain {d : Denom} {s s' : PmState} (h : PmStep s s') (hp : PlainPools d s) : PlainPools d s' := by
  induction h with
  | refl s => exact hp
  | buffer s b => exact hp
  | save s pid p0 p' hg hs hden =>
    obtain ⟨hmem, _⟩ := getPool_ok hg
    intro q hq
    rw [savePool_pools_of_getPool hg hs.1] at hq
    obtain ⟨q0, hq0, rfl⟩ := List.mem_map.1 hq
    split
    · exact plain_of_denoms hden (hp p0 hmem)
    · exact hp q0 hq0
  | trans _ _ ih1 ih2 => exact ih2 (ih1 hp)

theorem coinsOf_plain {d : Denom} {cs : List Coin} (h : ∀ c ∈ cs, c.denom ≠ d) : coinsOf cs d = 0 :=
  C01.coinsOf_eq_zero h

theorem amt_ne {c : Coin} {d : Denom} (h : c.denom ≠ d) : amt c d = 0 := by
  have : (c.denom == d) = false := by simpa using h
  simp [amt, this]

theorem amt_eq (dn : Denom) (a : Nat) : amt ⟨dn, a⟩ dn = a := by simp [amt]

/-! ### weights of optional messages -/

theorem total_opt (f : Msg → Nat) (c : Prop) [Decidable c] (m : Msg) :
    total f ((if c then [m] else []).map (fun m => ({ msg := m } : SubMsg))) = if c then f m else 0 := by
  split
  · rw [total_mk_cons, total_mk_nil]; rfl
  · rfl

theorem total_zero_of {f : Msg → Nat} {ms : List Msg} (h : ∀ m ∈ ms, f m = 0) :
    total f (ms.map (fun m => ({ msg := m } : SubMsg))) = 0 := by
  induction ms with
  | nil => rfl
  | cons m ms ih =>
    rw [total_mk_cons, h m (List.mem_cons_self ..), ih (fun x hx => h x (List.mem_cons_of_mem _ hx))]

/-! ### inversion of the multi-asset deposit -/

/-- the first-deposit message: the locked minimum minted to the pool manager iff the LP token does not exist yet -/
def FirstMint (env : PmEnv) (pool : PoolInfo) (msgs0 : List Msg) : Prop :=
  (env.supply pool.lpDenom = 0 →
    ∃ mn, minLiq pool = some mn ∧ msgs0 = [.tfMint ⟨pool.lpDenom, mn⟩ env.self]) ∧
  (env.supply pool.lpDenom ≠ 0 → msgs0 = [])

theorem cpShares_first {self : Addr} {lp : Denom} {deps pa : List Coin} {ts sh : Nat} {m0 : List Msg}
    (h : cpShares self lp deps pa ts = .ok (sh, m0)) :
    (ts = 0 → m0 = [.tfMint ⟨lp, C.MINIMUM_LIQUIDITY_AMOUNT⟩ self]) ∧ (ts ≠ 0 → m0 = []) := by
  unfold cpShares at h
  split at h
  · rename_i h0
    simp only [↓ok_bind, ↓ite_err_bind_ok, ↓bind_ok, ↓err_bind_ok, pure_ok, Prod.mk.injEq] at h
    obtain ⟨_, _, _, _, _, _, _, rfl⟩ := h
    exact ⟨fun _ => rfl, fun hne => absurd h0 hne⟩
  · rename_i h0
    simp only [↓ok_bind, ↓ite_err_bind_ok, ↓bind_ok, ↓err_bind_ok, pure_ok, Prod.mk.injEq] at h
    obtain ⟨_, _, _, _, _, _, _, rfl⟩ := h
    exact ⟨fun e => absurd e h0, fun _ => rfl⟩

theorem pl_multi_full {s s' : PmState} {env : PmEnv} {sender : Addr} {funds deposits : List Coin}
    {ls ss : Option Nat} {recv : Option Addr} {pid : String} {u : Option Nat} {l : Option String}
    {r : Response} (hagg : aggregateCoins funds = .ok deposits) (hlen : deposits.length ≠ 1)
    (h : provideLiquidity s env sender funds ls ss recv pid u l = .ok (s', r)) :
    ∃ pool shares msgs0, s.getPool pid = .ok pool ∧
      (∀ a ∈ deposits, ∃ pa ∈ pool.assets, pa.denom = a.denom) ∧ FirstMint env pool msgs0 ∧
      plTail s env sender pool deposits ls (addrOrDefault env recv sender) u l shares msgs0 = .ok (s', r) := by
  unfold provideLiquidity at h
  simp only [hagg, ↓ok_bind, ↓ite_err_bind_ok, ↓bind_ok, ↓err_bind_ok, List.length_singleton, ↓reduceIte, pure_ok, getD?_ok',
    ↓pure_bind', Except.ok.injEq] at h
  obtain ⟨pool, hp, hst, d, hd, -, hall, h⟩ := h
  cases hd
  simp only [hlen, ↓ite_err_bind_ok, ↓reduceIte] at h
  obtain ⟨-, h⟩ := h
  have hall' : ∀ a ∈ deposits, ∃ pa ∈ pool.assets, pa.denom = a.denom := by
    have hb : (deposits.all fun a => pool.assets.any (·.denom == a.denom)) = true := by
      revert hall
      cases (deposits.all fun a => pool.assets.any (·.denom == a.denom)) <;> simp
    intro a ha
    have := List.all_eq_true.1 hb a ha
    obtain ⟨pa, hpa, he⟩ := List.any_eq_true.1 this
    exact ⟨pa, hpa, by simpa using he⟩
  refine ⟨pool, ?_⟩
  cases hpt : pool.ptype with
  | cp =>
    rw [hpt] at h
    simp only [] at h
    obtain ⟨⟨sh, m0⟩, hcp, h⟩ := bind_ok.mp h
    simp only [] at h
    rw [← hpt] at h
    obtain ⟨f1, f2⟩ := cpShares_first hcp
    refine ⟨sh, m0, hp, hall', ⟨fun h0 => ⟨_, ?_, f1 h0⟩, f2⟩, h⟩
    unfold minLiq; rw [hpt]
  | stable amp =>
    rw [hpt] at h
    simp only [] at h
    by_cases hts : env.supply pool.lpDenom = 0
    · rw [if_pos hts] at h
      simp only [↓ite_err_bind_ok] at h
      obtain ⟨-, h⟩ := h
      cases hmin : listMin pool.decimals with
      | none => rw [hmin] at h; simp only [↓err_bind_ok] at h
      | some mn =>
        rw [hmin] at h
        simp only [] at h
        cases hmax : listMax pool.decimals with
        | none => rw [hmax] at h; simp only [↓err_bind_ok] at h
        | some mx =>
          rw [hmax] at h
          try simp only [↓pure_bind'] at h
          obtain ⟨ml, hml, h⟩ := bind_ok.mp h
          try simp only [↓pure_bind'] at h
          obtain ⟨na, -, h⟩ := bind_ok.mp h
          obtain ⟨sh, -, h⟩ := bind_ok.mp h
          rw [← hpt] at h
          refine ⟨sh, _, hp, hall', ⟨fun _ => ⟨ml, ?_, rfl⟩, fun hne => absurd hts hne⟩, h⟩
          unfold minLiq; rw [hpt]; simp only [hmin, hmax, hml]
    · rw [if_neg hts] at h
      try simp only [↓pure_bind'] at h
      obtain ⟨na, -, h⟩ := bind_ok.mp h
      obtain ⟨sh, -, h⟩ := bind_ok.mp h
      rw [← hpt] at h
      exact ⟨sh, _, hp, hall', ⟨fun e => absurd e hts, fun _ => rfl⟩, h⟩

/-- the share messages of a deposit: minted to the receiver, or minted to the pool manager and locked -/
def ShareMsgs (s : PmState) (env : PmEnv) (pool : PoolInfo) (recv : Addr) (u : Option Nat) (shares : Nat)
    (msgs1 : List Msg) : Prop :=
  (u = none ∧ msgs1 = [.tfMint ⟨pool.lpDenom, shares⟩ recv]) ∨
  (u.isSome ∧ ∃ fmsg, LockCall (.wasmExec s.config.farmManager (.fm fmsg) [⟨pool.lpDenom, shares⟩]) ∧
    msgs1 = [.tfMint ⟨pool.lpDenom, shares⟩ env.self,
             .wasmExec s.config.farmManager (.fm fmsg) [⟨pool.lpDenom, shares⟩]])

theorem plTail_full {s s' : PmState} {env : PmEnv} {sender : Addr} {pool : PoolInfo} {deposits : List Coin}
    {ls : Option Nat} {recv : Addr} {u : Option Nat} {l : Option String} {shares : Nat}
    {msgs0 : List Msg} {r : Response}
    (h : plTail s env sender pool deposits ls recv u l shares msgs0 = .ok (s', r)) :
    ∃ assets' msgs1, deposits.foldlM depositStep pool.assets = .ok assets' ∧
      s' = s.savePool { pool with assets := assets' } ∧
      r.msgs = (msgs0 ++ msgs1).map (fun m => ({ msg := m } : SubMsg)) ∧
      ShareMsgs s env pool recv u shares msgs1 := by
  unfold plTail at h
  simp only [] at h
  obtain ⟨pa', hpa, h⟩ := bind_ok.mp h
  cases assertSlippageTolerance_ok hpa
  clear hpa
  cases u with
  | none =>
    simp only [↓ite_err_bind_ok, ↓pure_bind'] at h
    obtain ⟨hv, h⟩ := h
    obtain ⟨as', has, h⟩ := bind_ok.mp h
    simp only [pure_ok, Prod.mk.injEq] at h
    obtain ⟨rfl, rfl⟩ := h
    exact ⟨as', _, has, rfl, rfl, Or.inl ⟨rfl, rfl⟩⟩
  | some uu =>
    simp only [↓ite_err_bind_ok] at h
    obtain ⟨hauth, h⟩ := h
    cases l with
    | none =>
      simp only [↓pure_bind'] at h
      obtain ⟨as', has, h⟩ := bind_ok.mp h
      simp only [pure_ok, Prod.mk.injEq] at h
      obtain ⟨rfl, rfl⟩ := h
      exact ⟨as', _, has, rfl, rfl, Or.inr ⟨rfl, .createPosition none uu (some recv), trivial, rfl⟩⟩
    | some lid =>
      simp only [] at h
      cases hfm : env.fmPosition lid with
      | none =>
        rw [hfm] at h
        simp only [↓pure_bind'] at h
        obtain ⟨as', has, h⟩ := bind_ok.mp h
        simp only [pure_ok, Prod.mk.injEq] at h
        obtain ⟨rfl, rfl⟩ := h
        exact ⟨as', _, has, rfl, rfl, Or.inr ⟨rfl, .createPosition (some lid) uu (some recv), trivial, rfl⟩⟩
      | some pos =>
        obtain ⟨pid', pr⟩ := pos
        rw [hfm] at h
        simp only [↓ite_err_bind_ok, ↓pure_bind'] at h
        obtain ⟨hown, h⟩ := h
        obtain ⟨as', has, h⟩ := bind_ok.mp h
        simp only [pure_ok, Prod.mk.injEq] at h
        obtain ⟨rfl, rfl⟩ := h
        exact ⟨as', _, has, rfl, rfl, Or.inr ⟨rfl, .expandPosition lid, trivial, rfl⟩⟩

/-! ### the numbers of a response in denom `d` -/

structure Nums (tf : List Coin) (d : Denom) (r : Response) (M B O I : Nat) : Prop where
  m : total (mintW d) r.msgs = M
  b : total (burnW tf d) r.msgs = B
  o : total (outW tf d) r.msgs = O
  i : total (inW d) r.msgs = I

theorem coinsOf_one_ne {c : Coin} {d : Denom} (h : c.denom ≠ d) : coinsOf [c] d = 0 := by
  rw [coinsOf_singleton]; exact amt_ne h

theorem mem_of_getElem?_some {α : Type} {l : List α} {i : Nat} {x : α} (h : l[i]? = some x) : x ∈ l := by
  obtain ⟨hi, rfl⟩ := List.getElem?_eq_some_iff.1 h
  exact List.getElem_mem hi

/-- both denoms of a successful swap are reserve denoms of a pool -/
theorem performSwap_plain {d : Denom} {s s' : PmState} {offer : Coin} {ask : Denom} {pid : String}
    {b ms : Option Nat} {r : SwapResult} (hpl : PlainPools d s)
    (h : performSwap s offer ask pid b ms = .ok (s', r)) :
    offer.denom ≠ d ∧ ask ≠ d ∧ r.ret.denom = ask ∧ r.burnFee.denom = ask ∧ r.protocolFee.denom = ask := by
  obtain ⟨pool, c, oi, ai, x, y, hp, -, -, -, -, hoi, hai, -, -, -, hret, hpf, hbf, -, -⟩ := C04.performSwap_ok h
  obtain ⟨hmem, -⟩ := getPool_ok hp
  have h1 := hpl pool hmem _ (mem_of_getElem?_some hoi)
  have h2 := hpl pool hmem _ (mem_of_getElem?_some hai)
  exact ⟨h1, h2, by rw [hret], by rw [hbf], by rw [hpf]⟩

theorem swap_eff {d : Denom} {s s' : PmState} {env : PmEnv} {sender : Addr} {funds : List Coin}
    {ask : Denom} {b ms : Option Nat} {rc : Option Addr} {pid : String} {r : Response}
    (hpl : PlainPools d s) (h : swapHandler s env sender funds ask b ms rc pid = .ok (s', r)) :
    Nums env.tfFees d r 0 0 0 0 ∧ coinsOf funds d = 0 := by
  obtain ⟨offer, sr, rfl, hps, hmsgs⟩ := C04.swapHandler_messages h
  obtain ⟨ho, ha, e1, e2, e3⟩ := performSwap_plain hpl hps
  have c1 : coinsOf [sr.ret] d = 0 := coinsOf_one_ne (by rw [e1]; exact ha)
  have c2 : coinsOf [sr.burnFee] d = 0 := coinsOf_one_ne (by rw [e2]; exact ha)
  have c3 : coinsOf [sr.protocolFee] d = 0 := coinsOf_one_ne (by rw [e3]; exact ha)
  refine ⟨⟨?_, ?_, ?_, ?_⟩, coinsOf_one_ne ho⟩ <;>
    simp only [hmsgs, total_mk_append, total_opt, mintW, burnW, outW, inW, c1, c2, c3, ite_self, Nat.add_zero]

/-- a message that moves nothing in denom `d` -/
def W0 (tf : List Coin) (d : Denom) (m : Msg) : Prop :=
  mintW d m = 0 ∧ burnW tf d m = 0 ∧ outW tf d m = 0 ∧ inW d m = 0

theorem w0_send {tf : List Coin} {d : Denom} {to : Addr} {cs : List Coin} (h : coinsOf cs d = 0) :
    W0 tf d (.bankSend to cs) := by
  refine ⟨rfl, rfl, h, ?_⟩
  simp only [inW, h, ite_self]

theorem w0_burn {tf : List Coin} {d : Denom} {cs : List Coin} (h : coinsOf cs d = 0) :
    W0 tf d (.bankBurn cs) := ⟨rfl, h, h, rfl⟩

theorem w0_opt {tf : List Coin} {d : Denom} {c : Prop} [Decidable c] {m : Msg} (h : W0 tf d m) :
    ∀ m' ∈ (if c then [m] else []), W0 tf d m' := by
  intro m' hm
  split at hm
  · simp only [List.mem_singleton] at hm; subst hm; exact h
  · cases hm

theorem nums_of_w0 {tf : List Coin} {d : Denom} {r : Response} {ms : List Msg}
    (hr : r.msgs = ms.map (fun m => ({ msg := m } : SubMsg))) (h : ∀ m ∈ ms, W0 tf d m) :
    Nums tf d r 0 0 0 0 := by
  refine ⟨?_, ?_, ?_, ?_⟩ <;> rw [hr] <;> apply total_zero_of <;> intro m hm
  · exact (h m hm).1
  · exact (h m hm).2.1
  · exact (h m hm).2.2.1
  · exact (h m hm).2.2.2

theorem routeHops_plain {tf : List Coin} {d : Denom} {ms : Option Nat} (ops : List SwapOp) :
    ∀ (s s' : PmState) (prev out : Coin) (fees fees' : List Msg), PlainPools d s →
      (∀ m ∈ fees, W0 tf d m) → routeHops s ms ops prev fees = .ok (s', out, fees') →
      (∀ m ∈ fees', W0 tf d m) ∧ (∀ op ∈ ops, op.tokenOut ≠ d) ∧ (ops ≠ [] → prev.denom ≠ d) := by
  induction ops with
  | nil =>
    intro s s' prev out fees fees' _ hf h
    rw [routeHops] at h
    simp only [Except.ok.injEq, Prod.mk.injEq] at h
    obtain ⟨-, -, rfl⟩ := h
    exact ⟨hf, fun op hop => (by cases hop), fun hne => absurd rfl hne⟩
  | cons op ops ih =>
    intro s s' prev out fees fees' hpl hf h
    obtain ⟨s1, r, hps, h⟩ := C04.routeHops_cons h
    obtain ⟨ho, ha, e1, e2, e3⟩ := performSwap_plain hpl hps
    have hpl1 : PlainPools d s1 := pmStep_plain (performSwap_step hps) hpl
    have c2 : coinsOf [r.burnFee] d = 0 := coinsOf_one_ne (by rw [e2]; exact ha)
    have c3 : coinsOf [r.protocolFee] d = 0 := coinsOf_one_ne (by rw [e3]; exact ha)
    obtain ⟨g1, g2, -⟩ := ih s1 s' r.ret out _ fees' hpl1 (by
      intro m hm
      simp only [List.mem_append] at hm
      rcases hm with (hm | hm) | hm
      · exact hf m hm
      · exact w0_opt (w0_burn c2) m hm
      · exact w0_opt (w0_send c3) m hm) h
    refine ⟨g1, ?_, fun _ => ho⟩
    intro op' hop'
    rcases List.mem_cons.1 hop' with rfl | hop'
    · exact ha
    · exact g2 op' hop'

theorem route_eff {d : Denom} {s s' : PmState} {env : PmEnv} {sender : Addr} {funds : List Coin}
    {ops : List SwapOp} {mr : Option Nat} {rc : Option Addr} {ms : Option Nat} {r : Response}
    (hpl : PlainPools d s) (h : execSwapOps s env sender funds ops mr rc ms = .ok (s', r)) :
    Nums env.tfFees d r 0 0 0 0 ∧ coinsOf funds d = 0 := by
  obtain ⟨first, last, amount, out, fm, hf, hl, rfl, hroute, hmsgs⟩ := execSwapOps_ok h
  obtain ⟨g1, g2, g3⟩ := routeHops_plain (tf := env.tfFees) ops s s' _ out [] fm hpl (by intro m hm; cases hm) hroute
  have hne : ops ≠ [] := by
    intro e; subst e; cases hf
  have hlast : last ∈ ops := List.mem_of_getLast? hl
  have c1 : coinsOf [(⟨last.tokenOut, out.amount⟩ : Coin)] d = 0 := coinsOf_one_ne (g2 last hlast)
  refine ⟨nums_of_w0 hmsgs ?_, coinsOf_one_ne (g3 hne)⟩
  intro m hm
  rcases List.mem_append.1 hm with hm | hm
  · exact w0_opt (w0_send c1) m hm
  · exact g1 m hm

/-! ### pool creation -/

theorem coinsOf_zero_amounts {cs : List Coin} {d : Denom} (h : ∀ g ∈ cs, g.denom = d → g.amount = 0) :
    coinsOf cs d = 0 := by
  induction cs with
  | nil => rfl
  | cons c cs ih =>
    rw [coinsOf_cons, ih (fun g hg => h g (List.mem_cons_of_mem _ hg))]
    by_cases hc : c.denom = d
    · have := h c (List.mem_cons_self ..) hc
      simp [amt, hc, this]
    · rw [amt_ne hc]

/-- in a denom that is not a token-factory fee denom, an accepted pool creation attached exactly the creation fee -/
theorem fees_plain {cf : Coin} {tf funds totalFees : List Coin} {u : Unit} {d : Denom}
    (hd : ∀ f ∈ tf, f.denom ≠ d) (hfees : validateFeesArePaid cf tf funds = .ok totalFees)
    (hnoadd : validateNoAdditionalFunds funds totalFees = .ok u) : coinsOf funds d = amt cf d := by
  obtain ⟨agg, hagg, hpaid, hrest, rfl⟩ := C01.validateFeesArePaid_ok hfees
  obtain ⟨agg', hagg', hall⟩ := C01.validateNoAdditionalFunds_ok hnoadd
  rw [hagg] at hagg'; cases hagg'
  have hS : coinsOf agg d = coinsOf funds d := C01.aggregateCoins_coins hagg d
  rw [← hS]
  -- every aggregated coin of denom `d` is the creation-fee entry
  have hmatch : ∀ g ∈ agg, g.denom = d → cf.denom = d ∧ g.amount = paidAmount agg cf.denom := by
    intro g hg hgd
    obtain ⟨t, ht, htd, hta⟩ := hall g hg
    rcases List.mem_cons.mp ht with rfl | ht
    · exact ⟨htd.trans hgd, hta.symm⟩
    · obtain ⟨htm, -⟩ := List.mem_filter.mp ht
      exact absurd (htd.trans hgd) (hd t htm)
  by_cases hcd : cf.denom = d
  · have hamt : amt cf d = cf.amount := by simp [amt, hcd]
    rw [hamt]
    have hfind : tf.find? (·.denom == cf.denom) = none := by
      apply List.find?_eq_none.2
      intro f hf
      simp only [beq_iff_eq]
      intro e
      exact hd f hf (e.trans hcd)
    rw [hfind] at hpaid
    simp only at hpaid
    rw [C01.paidAmount_eq, hcd] at hpaid
    split at hpaid
    · exact hpaid
    · -- overflow: the recorded payment is 0, so every coin of denom `d` is 0
      have h0 : coinsOf agg d = 0 := coinsOf_zero_amounts (by
        intro g hg hgd
        have := (hmatch g hg hgd).2
        rw [C01.paidAmount_eq, hcd] at this
        rename_i hov
        rw [if_neg hov] at this
        exact this)
      rw [h0, ← hpaid]
  · rw [amt_ne hcd]
    exact coinsOf_plain (fun g hg hgd => hcd (hmatch g hg hgd).1)

theorem create_eff {d : Denom} {s s' : PmState} {env : PmEnv} {funds : List Coin} {denoms : List Denom}
    {decimals : List Nat} {fees : PoolFee} {pt : PoolType} {id : Option String} {r : Response}
    (htf : ∀ f ∈ env.tfFees, f.denom ≠ d)
    (h : createPool s env funds denoms decimals fees pt id = .ok (s', r)) :
    ∃ I, Nums env.tfFees d r 0 0 (coinsOf funds d) I ∧ I ≤ coinsOf funds d ∧
      (s.config.feeCollector ≠ PM → I = 0) := by
  obtain ⟨counter, pool, lpSym, totalFees, hfees, hnoadd, hassets, hnew, rfl, hmsgs⟩ := createPool_ok h
  have hF := fees_plain htf hfees hnoadd
  have htf0 : coinsOf env.tfFees d = 0 := coinsOf_plain htf
  have hfee0 : s.config.creationFee.amount = 0 → amt s.config.creationFee d = 0 := by
    intro h0; simp [amt, h0]
  by_cases hfc : s.config.feeCollector = PM
  · refine ⟨coinsOf funds d, ⟨?_, ?_, ?_, ?_⟩, Nat.le_refl _, fun hne => absurd hfc hne⟩ <;>
      simp only [hmsgs, total_mk_append, total_opt, total_mk_cons, total_mk_nil, mintW, burnW, outW, inW,
        coinsOf_singleton, htf0, hF, hfc, if_true, ite_self, Nat.add_zero]
    · split
      · rfl
      · rename_i h0; exact (hfee0 (Decidable.not_not.1 h0)).symm
    · split
      · rfl
      · rename_i h0; exact (hfee0 (Decidable.not_not.1 h0)).symm
  · refine ⟨0, ⟨?_, ?_, ?_, ?_⟩, Nat.zero_le _, fun _ => rfl⟩ <;>
      simp only [hmsgs, total_mk_append, total_opt, total_mk_cons, total_mk_nil, mintW, burnW, outW, inW,
        coinsOf_singleton, htf0, hF, hfc, if_false, ite_self, Nat.add_zero]
    split
    · rfl
    · rename_i h0; exact (hfee0 (Decidable.not_not.1 h0)).symm

/-! ### deposits -/

theorem w0_mint {tf : List Coin} {d : Denom} {c : Coin} {to : Addr} (h : c.denom ≠ d) :
    W0 tf d (.tfMint c to) := by
  refine ⟨amt_ne h, rfl, rfl, ?_⟩
  simp only [inW, amt_ne h, ite_self]

theorem w0_exec {tf : List Coin} {d : Denom} {c : Addr} {cm : ContractMsg} {funds : List Coin}
    (h : coinsOf funds d = 0) : W0 tf d (.wasmExec c cm funds) := ⟨rfl, rfl, h, rfl⟩

theorem provide_eff {d : Denom} {s s' : PmState} {env : PmEnv} {sender : Addr} {funds : List Coin}
    {ls ss : Option Nat} {rc : Option Addr} {pid : String} {u : Option Nat} {l : Option String} {r : Response}
    (hself : env.self = PM) (hpl : PlainPools d s) (hfunds : (funds.map (·.denom)).Nodup) (hns : 2 ≤ funds.length)
    (h : provideLiquidity s env sender funds ls ss rc pid u l = .ok (s', r)) :
    ∃ pool, s.getPool pid = .ok pool ∧ coinsOf funds d = 0 ∧
      ((pool.lpDenom ≠ d ∧ Nums env.tfFees d r 0 0 0 0) ∨
       (pool.lpDenom = d ∧ ∃ first shares gift O, Nums env.tfFees d r (first + shares) 0 O (O + first + gift) ∧
          (env.supply d = 0 → minLiq pool = some first) ∧ (env.supply d ≠ 0 → first = 0) ∧
          (gift = 0 ∨ (u = none ∧ addrOrDefault env rc sender = PM ∧ gift = shares)))) := by
  obtain ⟨deps, hagg, -⟩ := pl_agg h
  have hlen : deps.length ≠ 1 := by rw [aggregateCoins_length hfunds hagg]; omega
  obtain ⟨pool, shares, msgs0, hp, hall, hfirst, htail⟩ := pl_multi_full hagg hlen h
  obtain ⟨assets', msgs1, -, -, hmsgs, hshare⟩ := plTail_full htail
  obtain ⟨hmem, -⟩ := getPool_ok hp
  have hF : coinsOf funds d = 0 := by
    rw [← C01.aggregateCoins_coins hagg d]
    apply coinsOf_plain
    intro a ha
    obtain ⟨pa, hpa, he⟩ := hall a ha
    rw [← he]
    exact hpl pool hmem pa hpa
  refine ⟨pool, hp, hF, ?_⟩
  by_cases hd : pool.lpDenom = d
  · right
    refine ⟨hd, ?_⟩
    subst hd
    by_cases h0 : env.supply pool.lpDenom = 0
    · obtain ⟨mn, hmn, rfl⟩ := hfirst.1 h0
      rcases hshare with ⟨rfl, rfl⟩ | ⟨hu, fmsg, -, rfl⟩
      · by_cases hr : addrOrDefault env rc sender = PM
        · refine ⟨mn, shares, shares, 0, ⟨?_, ?_, ?_, ?_⟩, fun _ => hmn, fun hne => absurd h0 hne,
            Or.inr ⟨rfl, hr, rfl⟩⟩ <;>
          simp only [hmsgs, total_mk_append, total_mk_cons, total_mk_nil, mintW, burnW, outW, inW, hself, hr,
            amt_eq, coinsOf_singleton, if_true, Nat.add_zero, Nat.zero_add]
        · refine ⟨mn, shares, 0, 0, ⟨?_, ?_, ?_, ?_⟩, fun _ => hmn, fun hne => absurd h0 hne, Or.inl rfl⟩ <;>
          simp only [hmsgs, total_mk_append, total_mk_cons, total_mk_nil, mintW, burnW, outW, inW, hself, hr,
            amt_eq, coinsOf_singleton, if_true, if_false, Nat.add_zero, Nat.zero_add]
      · refine ⟨mn, shares, 0, shares, ⟨?_, ?_, ?_, ?_⟩, fun _ => hmn, fun hne => absurd h0 hne, Or.inl rfl⟩ <;>
          simp only [hmsgs, total_mk_append, total_mk_cons, total_mk_nil, mintW, burnW, outW, inW, hself,
            amt_eq, coinsOf_singleton, if_true, if_false, Nat.add_zero, Nat.zero_add]
        omega
    · have e0 := hfirst.2 h0
      subst e0
      rcases hshare with ⟨rfl, rfl⟩ | ⟨hu, fmsg, -, rfl⟩
      · by_cases hr : addrOrDefault env rc sender = PM
        · refine ⟨0, shares, shares, 0, ⟨?_, ?_, ?_, ?_⟩, fun e => absurd e h0, fun _ => rfl,
            Or.inr ⟨rfl, hr, rfl⟩⟩ <;>
          simp only [hmsgs, total_mk_append, total_mk_cons, total_mk_nil, mintW, burnW, outW, inW, hself, hr,
            amt_eq, coinsOf_singleton, if_true, Nat.add_zero, Nat.zero_add, List.nil_append]
        · refine ⟨0, shares, 0, 0, ⟨?_, ?_, ?_, ?_⟩, fun e => absurd e h0, fun _ => rfl, Or.inl rfl⟩ <;>
          simp only [hmsgs, total_mk_append, total_mk_cons, total_mk_nil, mintW, burnW, outW, inW, hself, hr,
            amt_eq, coinsOf_singleton, if_true, if_false, Nat.add_zero, Nat.zero_add, List.nil_append]
      · refine ⟨0, shares, 0, shares, ⟨?_, ?_, ?_, ?_⟩, fun e => absurd e h0, fun _ => rfl, Or.inl rfl⟩ <;>
          simp only [hmsgs, total_mk_append, total_mk_cons, total_mk_nil, mintW, burnW, outW, inW, hself,
            amt_eq, coinsOf_singleton, if_true, if_false, Nat.add_zero, Nat.zero_add, List.nil_append]
  · left
    refine ⟨hd, nums_of_w0 hmsgs ?_⟩
    have hc : coinsOf [(⟨pool.lpDenom, shares⟩ : Coin)] d = 0 := coinsOf_one_ne hd
    intro m hm
    rcases List.mem_append.1 hm with hm | hm
    · by_cases h0 : env.supply pool.lpDenom = 0
      · obtain ⟨mn, -, rfl⟩ := hfirst.1 h0
        simp only [List.mem_singleton] at hm
        subst hm
        exact w0_mint hd
      · rw [hfirst.2 h0] at hm; cases hm
    · rcases hshare with ⟨-, rfl⟩ | ⟨-, fmsg, -, rfl⟩
      · simp only [List.mem_singleton] at hm
        subst hm
        exact w0_mint hd
      · simp only [List.mem_cons, List.mem_singleton, List.not_mem_nil, or_false] at hm
        rcases hm with rfl | rfl
        · exact w0_mint hd
        · exact w0_exec hc

/-! ### withdrawals -/

theorem withdrawFold_mem {refunds as as' : List Coin} (h : refunds.foldlM withdrawStep as = .ok as') :
    ∀ r ∈ refunds, r.denom ∈ as.map (·.denom) := by
  induction refunds generalizing as with
  | nil => intro r hr; cases hr
  | cons x xs ih =>
    simp only [List.foldlM_cons] at h
    obtain ⟨as1, h1, h⟩ := bind_ok.mp h
    have hden := SysPm.withdrawStep_denoms h1
    intro r hr
    rcases List.mem_cons.1 hr with rfl | hr
    · unfold withdrawStep at h1
      cases hi : findIdx (fun c : Coin => c.denom == r.denom) as with
      | none => rw [hi] at h1; simp only [↓err_bind_ok] at h1
      | some i =>
        obtain ⟨y, hy, hpy⟩ := C04.findIdx_some hi
        have : y.denom = r.denom := by simpa using hpy
        rw [← this]
        exact List.mem_map_of_mem (mem_of_getElem?_some hy)
    · rw [← hden]
      exact ih h r hr

theorem withdraw_eff {d : Denom} {s s' : PmState} {env : PmEnv} {sender : Addr} {funds : List Coin}
    {pid : String} {r : Response} (hpl : PlainPools d s)
    (h : withdrawLiquidity s env sender funds pid = .ok (s', r)) :
    ∃ pool amount, s.getPool pid = .ok pool ∧ funds = [⟨pool.lpDenom, amount⟩] ∧
      Nums env.tfFees d r 0 (amt ⟨pool.lpDenom, amount⟩ d) (amt ⟨pool.lpDenom, amount⟩ d) 0 := by
  obtain ⟨pool, amount, refunds, assets', hp, hf, hfold, -, hmsgs⟩ := withdraw_ok h
  obtain ⟨hmem, -⟩ := getPool_ok hp
  have hc : coinsOf refunds d = 0 := by
    apply coinsOf_plain
    intro c hc e
    obtain ⟨a, ha, hae⟩ := List.mem_map.1 (withdrawFold_mem hfold c hc)
    exact hpl pool hmem a ha (hae.trans e)
  refine ⟨pool, amount, hp, hf, ⟨?_, ?_, ?_, ?_⟩⟩ <;>
    simp only [hmsgs, total_mk_cons, total_mk_nil, mintW, burnW, outW, inW, hc, ite_self, Nat.add_zero, Nat.zero_add]

/-! ### the assembled law -/


/-- what one `execute` of the pool manager (not a single-asset deposit) does in a denom `d` that is neither a
    reserve denom nor a token-factory fee denom -/
inductive HEff (s : PmState) (env : PmEnv) (sender : Addr) (funds : List Coin) (m : PmMsg) (r : Response)
    (d : Denom) : Prop
  | neutral (n : Nums env.tfFees d r 0 0 0 0) (hf : coinsOf funds d = 0)
  | create (hm : ∃ a b c e f, m = .createPool a b c e f) (I : Nat)
      (n : Nums env.tfFees d r 0 0 (coinsOf funds d) I) (hI : I ≤ coinsOf funds d)
      (hfc : s.config.feeCollector ≠ PM → I = 0)
  | deposit (ls ss : Option Nat) (rc : Option Addr) (pid : String) (u : Option Nat) (l : Option String)
      (hm : m = .provideLiquidity ls ss rc pid u l) (pool : PoolInfo) (hp : s.getPool pid = .ok pool)
      (hd : pool.lpDenom = d) (first shares gift O : Nat)
      (n : Nums env.tfFees d r (first + shares) 0 O (O + first + gift)) (hf : coinsOf funds d = 0)
      (h0 : env.supply d = 0 → minLiq pool = some first) (h1 : env.supply d ≠ 0 → first = 0)
      (hg : gift = 0 ∨ (u = none ∧ addrOrDefault env rc sender = PM ∧ gift = shares))
  | withdraw (pid : String) (hm : m = .withdrawLiquidity pid) (pool : PoolInfo) (hp : s.getPool pid = .ok pool)
      (hd : pool.lpDenom = d) (amount : Nat) (hfunds : funds = [⟨d, amount⟩])
      (n : Nums env.tfFees d r 0 amount amount 0)

theorem handler_eff {d : Denom} {s s' : PmState} {env : PmEnv} {sender : Addr} {funds : List Coin} {m : PmMsg}
    {r : Response} (hself : env.self = PM) (hpl : PlainPools d s) (htf : ∀ f ∈ env.tfFees, f.denom ≠ d)
    (hfunds : (funds.map (·.denom)).Nodup) (hns : SysPm.NotSingle m funds)
    (h : pmExecute s env sender funds m = .ok (s', r)) : HEff s env sender funds m r d := by
  cases m with
  | createPool denoms decimals fees pt id =>
    simp only [pmExecute] at h
    obtain ⟨I, n, hI, hfc⟩ := create_eff htf h
    exact .create ⟨_, _, _, _, _, rfl⟩ I n hI hfc
  | provideLiquidity ls ss rc pid u l =>
    simp only [pmExecute] at h
    obtain ⟨pool, hp, hF, hcase⟩ := provide_eff hself hpl hfunds hns h
    rcases hcase with ⟨-, n⟩ | ⟨hd, first, shares, gift, O, n, h0, h1, hg⟩
    · exact .neutral n hF
    · exact .deposit ls ss rc pid u l rfl pool hp hd first shares gift O n hF h0 h1 hg
  | swap ask b ms rc pid =>
    simp only [pmExecute] at h
    obtain ⟨n, hF⟩ := swap_eff hpl h
    exact .neutral n hF
  | withdrawLiquidity pid =>
    simp only [pmExecute] at h
    obtain ⟨pool, amount, hp, hf, n⟩ := withdraw_eff (env := env) hpl h
    by_cases hd : pool.lpDenom = d
    · subst hd
      rw [amt_eq] at n
      exact .withdraw pid rfl pool hp rfl amount hf n
    · rw [amt_ne hd] at n
      refine .neutral n ?_
      rw [hf]
      exact coinsOf_one_ne hd
  | execSwapOps ops mr rc ms =>
    simp only [pmExecute] at h
    obtain ⟨n, hF⟩ := route_eff hpl h
    exact .neutral n hF
  | updateConfig fc fm cf t =>
    obtain ⟨hf, hr, -, -⟩ := pmExecute_config_ok (Or.inl ⟨fc, fm, cf, t, rfl⟩) h
    refine .neutral ⟨?_, ?_, ?_, ?_⟩ (by rw [hf]; rfl) <;> rw [hr] <;> rfl
  | updateOwnership a =>
    obtain ⟨hf, hr, -, -⟩ := pmExecute_config_ok (Or.inr ⟨a, rfl⟩) h
    refine .neutral ⟨?_, ?_, ?_, ?_⟩ (by rw [hf]; rfl) <;> rw [hr] <;> rfl

/-! ### message shapes -/

theorem leafOk_mk {ms : List Msg} (h : ∀ m ∈ ms, IsLeaf m ∨ LockCall m) :
    ∀ sm ∈ ms.map (fun m => ({ msg := m } : SubMsg)), LeafOk sm := by
  intro sm hsm
  obtain ⟨m, hm, rfl⟩ := List.mem_map.1 hsm
  exact ⟨rfl, h m hm⟩

theorem leaf_opt {c : Prop} [Decidable c] {m : Msg} (hm : IsLeaf m) :
    ∀ m' ∈ (if c then [m] else []), IsLeaf m' ∨ LockCall m' := by
  intro m' h
  split at h
  · simp only [List.mem_singleton] at h; subst h; exact Or.inl hm
  · cases h

theorem leaf_append {xs ys : List Msg} (hx : ∀ m ∈ xs, IsLeaf m ∨ LockCall m) (hy : ∀ m ∈ ys, IsLeaf m ∨ LockCall m) :
    ∀ m ∈ xs ++ ys, IsLeaf m ∨ LockCall m := by
  intro m h
  rcases List.mem_append.1 h with h | h
  · exact hx m h
  · exact hy m h

/-- every sub-message of a pool-manager response (not a single-asset deposit) is reply-`never` and a bank /
    token-factory message or the lock call -/
theorem handler_leafOk {s s' : PmState} {env : PmEnv} {sender : Addr} {funds : List Coin} {m : PmMsg}
    {r : Response} (hfunds : (funds.map (·.denom)).Nodup) (hns : SysPm.NotSingle m funds)
    (h : pmExecute s env sender funds m = .ok (s', r)) : ∀ sm ∈ r.msgs, LeafOk sm := by
  cases m with
  | createPool denoms decimals fees pt id =>
    simp only [pmExecute] at h
    obtain ⟨counter, pool, lpSym, totalFees, -, -, -, -, -, hmsgs⟩ := createPool_ok h
    rw [hmsgs]
    apply leafOk_mk
    apply leaf_append (leaf_opt (by trivial))
    intro m hm
    simp only [List.mem_singleton] at hm
    subst hm; exact Or.inl trivial
  | provideLiquidity ls ss rc pid u l =>
    simp only [pmExecute] at h
    have hns' : 2 ≤ funds.length := hns
    obtain ⟨deps, hagg, -⟩ := pl_agg h
    have hlen : deps.length ≠ 1 := by rw [aggregateCoins_length hfunds hagg]; omega
    obtain ⟨pool, shares, msgs0, hp, hall, hfirst, htail⟩ := pl_multi_full hagg hlen h
    obtain ⟨assets', msgs1, -, -, hmsgs, hshare⟩ := plTail_full htail
    rw [hmsgs]
    apply leafOk_mk
    apply leaf_append
    · intro m hm
      by_cases h0 : env.supply pool.lpDenom = 0
      · obtain ⟨mn, -, rfl⟩ := hfirst.1 h0
        simp only [List.mem_singleton] at hm
        subst hm; exact Or.inl trivial
      · rw [hfirst.2 h0] at hm; cases hm
    · intro m hm
      rcases hshare with ⟨-, rfl⟩ | ⟨-, fmsg, hl, rfl⟩
      · simp only [List.mem_singleton] at hm
        subst hm; exact Or.inl trivial
      · simp only [List.mem_cons, List.mem_singleton, List.not_mem_nil, or_false] at hm
        rcases hm with rfl | rfl
        · exact Or.inl trivial
        · exact Or.inr hl
  | swap ask b ms rc pid =>
    simp only [pmExecute] at h
    obtain ⟨offer, sr, -, -, hmsgs⟩ := C04.swapHandler_messages h
    rw [hmsgs]
    apply leafOk_mk
    exact leaf_append (leaf_append (leaf_opt trivial) (leaf_opt trivial)) (leaf_opt trivial)
  | withdrawLiquidity pid =>
    simp only [pmExecute] at h
    obtain ⟨pool, amount, refunds, assets', -, -, -, -, hmsgs⟩ := withdraw_ok h
    rw [hmsgs]
    apply leafOk_mk
    intro m hm
    simp only [List.mem_cons, List.mem_singleton, List.not_mem_nil, or_false] at hm
    rcases hm with rfl | rfl <;> exact Or.inl trivial
  | execSwapOps ops mr rc ms =>
    simp only [pmExecute] at h
    obtain ⟨first, last, amount, out, fm, -, -, -, hroute, hmsgs⟩ := execSwapOps_ok h
    rw [hmsgs]
    apply leafOk_mk
    apply leaf_append (leaf_opt (by trivial))
    intro m hm
    have := (C04.routeHops_fee_msgs (by intro m hm; cases hm) trivial hroute).2 m hm
    rcases this with ⟨cs, rfl⟩ | ⟨cs, rfl⟩ <;> exact Or.inl trivial
  | updateConfig fc fm cf t =>
    obtain ⟨-, hr, -, -⟩ := pmExecute_config_ok (Or.inl ⟨fc, fm, cf, t, rfl⟩) h
    rw [hr]; intro sm hsm; cases hsm
  | updateOwnership a =>
    obtain ⟨-, hr, -, -⟩ := pmExecute_config_ok (Or.inr ⟨a, rfl⟩) h
    rw [hr]; intro sm hsm; cases hsm

/-- … and it leaves the single-side buffer alone -/
theorem handler_buffer {s s' : PmState} {env : PmEnv} {sender : Addr} {funds : List Coin} {m : PmMsg}
    {r : Response} (hfunds : (funds.map (·.denom)).Nodup) (hns : SysPm.NotSingle m funds)
    (h : pmExecute s env sender funds m = .ok (s', r)) : s'.buffer = s.buffer := by
  rcases C14.buffer_only_set_by_first_leg h with hb | ⟨_, _, _, _, _, _, _, _, _, _, ⟨sm, hr, hro⟩, _⟩
  · exact hb
  · have := (handler_leafOk hfunds hns h sm (by rw [hr]; exact List.mem_cons_self ..)).1
    rw [hro] at this
    cases this

theorem total_zero_of_forall {f : Msg → Nat} {msgs : List SubMsg} (h : ∀ sm ∈ msgs, f sm.msg = 0) :
    total f msgs = 0 := by
  induction msgs with
  | nil => rfl
  | cons sm rest ih =>
    rw [total_cons, h sm (List.mem_cons_self ..), ih (fun x hx => h x (List.mem_cons_of_mem _ hx))]

/-- only LP denoms of existing pools are ever minted -/
theorem handler_mint_fresh {d : Denom} {s s' : PmState} {env : PmEnv} {sender : Addr} {funds : List Coin}
    {m : PmMsg} {r : Response} (hd : ∀ q ∈ s.pools, q.lpDenom ≠ d)
    (hfunds : (funds.map (·.denom)).Nodup) (hns : SysPm.NotSingle m funds)
    (h : pmExecute s env sender funds m = .ok (s', r)) : total (mintW d) r.msgs = 0 := by
  have hother : (∀ ls ss rc pid u l, m ≠ .provideLiquidity ls ss rc pid u l) → total (mintW d) r.msgs = 0 := by
    intro hm
    apply total_zero_of_forall
    intro sm hsm
    cases hmsg : sm.msg with
    | tfMint c to =>
      obtain ⟨ls, ss, rc, pid, u, l, e⟩ := (C02.lp_only_minted_by_deposit_burned_by_withdraw h).1 sm hsm c to hmsg
      exact absurd e (hm ls ss rc pid u l)
    | _ => rfl
  cases m with
  | provideLiquidity ls ss rc pid u l =>
    simp only [pmExecute] at h
    have hns' : 2 ≤ funds.length := hns
    obtain ⟨deps, hagg, -⟩ := pl_agg h
    have hlen : deps.length ≠ 1 := by rw [aggregateCoins_length hfunds hagg]; omega
    obtain ⟨pool, shares, msgs0, hp, hall, hfirst, htail⟩ := pl_multi_full hagg hlen h
    obtain ⟨assets', msgs1, -, -, hmsgs, hshare⟩ := plTail_full htail
    obtain ⟨hmem, -⟩ := getPool_ok hp
    have hne := hd pool hmem
    rw [hmsgs]
    apply total_zero_of
    intro m hm
    rcases List.mem_append.1 hm with hm | hm
    · by_cases h0 : env.supply pool.lpDenom = 0
      · obtain ⟨mn, -, rfl⟩ := hfirst.1 h0
        simp only [List.mem_singleton] at hm
        subst hm
        exact amt_ne hne
      · rw [hfirst.2 h0] at hm; cases hm
    · rcases hshare with ⟨-, rfl⟩ | ⟨-, fmsg, -, rfl⟩
      · simp only [List.mem_singleton] at hm
        subst hm
        exact amt_ne hne
      · simp only [List.mem_cons, List.mem_singleton, List.not_mem_nil, or_false] at hm
        rcases hm with rfl | rfl
        · exact amt_ne hne
        · rfl
  | createPool _ _ _ _ _ => exact hother (by intro _ _ _ _ _ _ e; cases e)
  | swap _ _ _ _ _ => exact hother (by intro _ _ _ _ _ _ e; cases e)
  | withdrawLiquidity _ => exact hother (by intro _ _ _ _ _ _ e; cases e)
  | execSwapOps _ _ _ _ => exact hother (by intro _ _ _ _ _ _ e; cases e)
  | updateConfig _ _ _ _ => exact hother (by intro _ _ _ _ _ _ e; cases e)
  | updateOwnership _ => exact hother (by intro _ _ _ _ _ _ e; cases e)

end MantraDex.LpSys
