/-
  Counterexamples to two statements of `Properties/C20Tx.lean` as first written (without `hu : u ≠ FM`): a
  `CreateFarm` whose sender is the farm manager itself pays the creation fee out of the tokens that back the
  farms it closes on the way, so a refund can fail for lack of funds WITHOUT any injected fault.
  The executions are kernel-checked (`decide +kernel`, after the one check the kernel cannot evaluate,
  `validate_lp_denom`, has been rewritten by `lp_valid`).
-/
import MantraDex.Proofs.RefundTxTree

set_option linter.unusedSimpArgs false
set_option linter.unusedVariables false

namespace MantraDex.RefundTx
open MantraDex

/-! ### `validate_lp_denom` on a concrete denom (`String.splitOn` does not reduce in the kernel) -/

/-- `String.splitOnAux` (well-founded recursion, opaque to the kernel) with explicit fuel -/
def splitF : Nat → String → String → String.Pos.Raw → String.Pos.Raw → String.Pos.Raw → List String →
    Option (List String)
  | 0, _, _, _, _, _, _ => none
  | n + 1, s, sep, b, i, j, r =>
    if String.Pos.Raw.atEnd s i = true then some ((String.Pos.Raw.extract s b i :: r).reverse)
    else if (String.Pos.Raw.get s i == String.Pos.Raw.get sep j) = true then
      if String.Pos.Raw.atEnd sep (String.Pos.Raw.next sep j) = true then
        splitF n s sep (String.Pos.Raw.next s i) (String.Pos.Raw.next s i) 0
          (String.Pos.Raw.extract s b ((String.Pos.Raw.next s i).unoffsetBy (String.Pos.Raw.next sep j)) :: r)
      else splitF n s sep b (String.Pos.Raw.next s i) (String.Pos.Raw.next sep j) r
    else splitF n s sep b (String.Pos.Raw.next s (i.unoffsetBy j)) 0 r

theorem splitF_sound : ∀ (n : Nat) (s sep : String) (b i j : String.Pos.Raw) (r res : List String),
    splitF n s sep b i j r = some res → s.splitOnAux sep b i j r = res := by
  intro n
  induction n with
  | zero => intro s sep b i j r res h; simp [splitF] at h
  | succ n ih =>
    intro s sep b i j r res h
    rw [String.splitOnAux]
    simp only [splitF] at h
    by_cases h1 : String.Pos.Raw.atEnd s i = true
    · simp only [h1, if_true] at h ⊢
      exact Option.some.inj h
    · simp only [h1, if_false, Bool.false_eq_true] at h ⊢
      by_cases h2 : (String.Pos.Raw.get s i == String.Pos.Raw.get sep j) = true
      · simp only [h2, if_true] at h ⊢
        by_cases h3 : String.Pos.Raw.atEnd sep (String.Pos.Raw.next sep j) = true
        · simp only [h3, if_true] at h ⊢
          exact ih _ _ _ _ _ _ _ h
        · simp only [h3, if_false, Bool.false_eq_true] at h ⊢
          exact ih _ _ _ _ _ _ _ h
      · simp only [h2, if_false, Bool.false_eq_true] at h ⊢
        exact ih _ _ _ _ _ _ _ h

theorem split_lp : "factory/pm/p.LP".splitOn "/" = ["factory", "pm", "p.LP"] := by
  have h : splitF 20 "factory/pm/p.LP" "/" 0 0 0 [] = some ["factory", "pm", "p.LP"] := by decide +kernel
  have := splitF_sound _ _ _ _ _ _ _ _ h
  unfold String.splitOn
  rw [if_neg (by decide)]
  exact this

theorem lp_valid : validateLpDenom "factory/pm/p.LP" "pm" = true := by
  unfold validateLpDenom splitFactoryDenom
  rw [split_lp]
  decide +kernel

/-! ### the worlds -/

def cxFarm (id : String) (owner : Addr) (amount : Nat) : Farm := {
  id := id, owner := owner, lpDenom := "factory/pm/p.LP", assetDenom := "uom",
  assetAmount := amount, claimed := 0, emissionRate := amount, startEpoch := 1, endEpoch := 2 }

def cxFm (farms : List Farm) : FmState :=
  { config := { feeCollector := "fc", epochManager := "em", poolManager := "pm", createFarmFee := ⟨"uom", 100⟩,
                maxConcurrentFarms := 2, maxFarmEpochBuffer := 14, minUnlocking := 86400,
                maxUnlocking := 31536000, farmExpirationTime := 86400, emergencyUnlockPenalty := 0 },
    farms := farms, owner := { owner := some "admin" } }

/-- ten days after genesis (one-day epochs); the farm manager holds `held` uom, nobody else holds anything -/
def cxWorld (farms : List Farm) (held : Nat) : World :=
  { bank := { bal := fun a d => if a = "fm" ∧ d = "uom" then held else 0,
              supply := fun d => if d = "uom" then held else 0 },
    pm := { config := { feeCollector := "fc", farmManager := "fm", creationFee := ⟨"uom", 0⟩ }, pools := [],
            owner := { owner := some "admin" } },
    fm := cxFm farms,
    em := { cfg := ⟨86400, 0⟩, owner := { owner := some "admin" } },
    fc := { owner := some "admin" },
    nowNs := 10 * 86400 * 1000000000, tfFees := [], validAddr := fun _ => true }

def cxP : FarmParams :=
  { lpDenom := "factory/pm/p.LP", startEpoch := none, endEpoch := none, asset := ⟨"uom", 1000⟩, farmId := some "new" }

/-- the farm manager "creates a farm": reward 1000 uom + fee 100 uom -/
def cxTx : Tx := .exec "fm" FM (.fm (.createFarm cxP)) [⟨"uom", 1100⟩]

theorem cx_inv (farms : List Farm) (held : Nat) (hnd : (farms.map (·.id)).Nodup)
    (hcl : ∀ f ∈ farms, f.claimed ≤ f.assetAmount)
    (hheld : C05.farmSum farms "uom" ≤ held) (hden : ∀ f ∈ farms, f.assetDenom = "uom") :
    C05Sys.FmInv (cxWorld farms held) := by
  refine ⟨fun d => ?_, List.nodup_nil, hnd, hcl, fun n _ => rfl⟩
  rw [C05.liability_eq]
  show C05.posSum [] d + C05.farmSum farms d ≤ if FM = "fm" ∧ d = "uom" then held else 0
  rw [C05.posSum_nil]
  by_cases hd : d = "uom"
  · subst hd
    have : FM = "fm" := rfl
    simp only [this, and_self, if_true]
    omega
  · have : C05.farmSum farms d = 0 := by
      unfold C05.farmSum
      have : farms.filter (·.assetDenom == d) = [] := by
        apply List.filter_eq_nil_iff.2
        intro f hf
        rw [hden f hf]
        simpa using fun e => hd e.symm
      rw [this]
      rfl
    rw [this]
    omega

/-! ### one expired farm: its refund fails although no fault is injected -/

def cxG : Farm := cxFarm "m-old" "olga" 5000
def cxW1 : World := cxWorld [cxG] 5000

theorem cx1_inv : C05Sys.FmInv cxW1 :=
  cx_inv _ _ (by decide) (by decide) (by decide) (by decide)

theorem cx1_expired : expiredL cxW1.fm cxW1.fmEnv cxP = [cxG] := by decide +kernel

/-- the creation is accepted, the farm is closed, and its owner `olga` received nothing -/
theorem cx1_run : ((runTx cxW1 cxTx).toOption.map fun w' => w'.bank.bal "olga" "uom") = some 0 := by
  unfold runTx cxTx
  simp only
  have h64 : FUEL = 63 + 1 := rfl
  rw [h64, FarmTx.execMsg_fm_funds 63 _ _ _ _ rfl]
  simp only [fmExecute, createFarm]
  have hv : validateLpDenom cxP.lpDenom cxW1.fm.config.poolManager = true := lp_valid
  simp only [hv]
  decide +kernel

/-! ### two expired farms: the second refund fails without a fault, the first one under the fault `k = 3` -/

def cxG1 : Farm := cxFarm "m-a" "olga" 3000
def cxG2 : Farm := cxFarm "m-b" "oleg" 3000
def cxW2 : World := cxWorld [cxG1, cxG2] 6000

theorem cx2_inv : C05Sys.FmInv cxW2 :=
  cx_inv _ _ (by decide) (by decide) (by decide) (by decide)

theorem cx2_expired : expiredL cxW2.fm cxW2.fmEnv cxP = [cxG1, cxG2] := by decide +kernel

theorem cx2_run0 : ((runTx cxW2 cxTx).toOption.map fun w' => (w'.bank.bal "olga" "uom", w'.bank.bal "oleg" "uom")) =
    some (3000, 0) := by
  unfold runTx cxTx
  simp only
  have h64 : FUEL = 63 + 1 := rfl
  rw [h64, FarmTx.execMsg_fm_funds 63 _ _ _ _ rfl]
  simp only [fmExecute, createFarm]
  have hv : validateLpDenom cxP.lpDenom cxW2.fm.config.poolManager = true := lp_valid
  simp only [hv]
  decide +kernel

theorem cx2_run3 : ((runTx cxW2 cxTx (some 3)).toOption.map fun w' =>
    (w'.bank.bal "olga" "uom", w'.bank.bal "oleg" "uom")) = some (0, 3000) := by
  unfold runTx cxTx
  simp only
  have h64 : FUEL = 63 + 1 := rfl
  rw [h64, FarmTx.execMsg_fm_funds 63 _ _ _ _ rfl]
  simp only [fmExecute, createFarm]
  have hv : validateLpDenom cxP.lpDenom cxW2.fm.config.poolManager = true := lp_valid
  simp only [hv]
  decide +kernel

end MantraDex.RefundTx
