/-
  C07Sys, part 1 (entry-free): what an accepted claim adds to every farm's `claimed_amount`: the sum of
  the terms computed for that farm (`claim_run2`).
-/
import MantraDex.Proofs.LedSysFold

set_option linter.unusedSimpArgs false
set_option linter.unusedVariables false

namespace MantraDex.LedSys
open MantraDex

/-- Σ of the terms of the farm with identifier `id` -/
def tsumId (id : String) (ts : List (String × Nat × Nat)) : Nat :=
  ((ts.filter fun t => t.1 == id).map (·.2.2)).sum

theorem tsumId_nil (id : String) : tsumId id [] = 0 := rfl

theorem tsumId_append (id : String) (a b : List (String × Nat × Nat)) :
    tsumId id (a ++ b) = tsumId id a + tsumId id b := by
  unfold tsumId; rw [List.filter_append, List.map_append, List.sum_append]

theorem tsumId_farm (id fid : String) (terms : List (Nat × Nat)) :
    tsumId id (terms.map fun (t : Nat × Nat) => (fid, t.1, t.2)) =
      if fid == id then (terms.map (·.2)).sum else 0 := by
  unfold tsumId
  rw [List.filter_map]
  by_cases hd : (fid == id) = true
  · rw [if_pos hd, List.filter_eq_self.2 (by intro t _; exact hd), List.map_map]
    rfl
  · rw [if_neg hd, List.filter_eq_nil_iff.2 (by intro t _ hh; exact hd hh)]
    rfl

theorem calculateRewards_modTotal {s : FmState} {env : FmEnv} {lp : Denom} {recv : Addr} {u : Nat}
    {rc : RewardsCalc} (h : calculateRewards s env lp recv u = .ok rc) (id : String) :
    Split.modTotal rc.modified id = tsumId id rc.terms := by
  rcases (calculateRewards_ok h).2 with rfl | ⟨r, agg, hr, _, rfl⟩
  · rfl
  · simp only
    refine foldlM_inv_mem (fun (acc : C05.CrAcc) => Split.modTotal acc.2.1 id = tsumId id acc.2.2)
      _ _ ?_ _ _ rfl hr
    intro b f b' hf hb hstep
    rcases crStep_ok hstep with rfl | ⟨sf, uw, cw, terms, sum, _, _, _, _, hsum, rfl⟩
    · exact hb
    · simp only
      have hs := C05.ckAdd_fold_sum terms 0 sum hsum
      rw [Nat.zero_add] at hs
      rw [tsumId_append, tsumId_farm, ← hb]
      cases terms with
      | nil =>
        simp only [List.isEmpty_nil, if_true, List.map_nil, List.sum_nil]
        split <;> rfl
      | cons t ts =>
        simp only [List.isEmpty_cons, Bool.false_eq_true, if_false]
        rw [Split.modTotal_append, Split.modTotal_cons, Split.modTotal_nil, hs]
        simp

/-- the calculation of a not yet processed LP token is the one of the pre-state -/
theorem mid_calc {s : FmState} {env : FmEnv} {sender : Addr} {untilE : Nat} {done : List Denom}
    {st : FmState × List Coin} {lp : Denom} (hm : Mid s env sender untilE done st) (hlp : lp ∉ done) :
    calculateRewards st.1 env lp sender untilE = calculateRewards s env lp sender untilE := by
  apply calculateRewards_congr
  · unfold FmState.farmsByLp
    rw [hm.farmsKeep lp hlp, hm.config]
  · rw [hm.last]
  · exact hm.histOther sender lp (Or.inr hlp)
  · exact hm.histOther env.self lp (Or.inr hlp)

/-- what the LP tokens `done` added to the farm with identifier `id` -/
def doneSum (s : FmState) (env : FmEnv) (sender : Addr) (untilE : Nat) (done : List Denom) (id : String) : Nat :=
  (done.map fun lp => tsumId id (lpTerms s env lp sender untilE)).sum

structure Mid2 (s : FmState) (env : FmEnv) (sender : Addr) (untilE : Nat) (done : List Denom)
    (st : FmState × List Coin) : Prop where
  mid : Mid s env sender untilE done st
  farms : st.1.farms = s.farms.map (Split.addC (doneSum s env sender untilE done))

theorem mid2_step {s : FmState} {env : FmEnv} {sender : Addr} {untilE : Nat} {done : List Denom}
    {st st' : FmState × List Coin} {lp : Denom} (hn : (s.farms.map (·.id)).Nodup)
    (hm : Mid2 s env sender untilE done st) (hlp : lp ∉ done)
    (h : Farm.claimStep env sender untilE st lp = .ok st') : Mid2 s env sender untilE (done ++ [lp]) st' := by
  refine ⟨mid_step hn hm.mid hlp h, ?_⟩
  unfold Farm.claimStep at h
  simp only [bind_ok, pure_ok] at h
  obtain ⟨rc, hrc, s1, hs1, s2, hs2, rfl⟩ := h
  have hn1 : (st.1.farms.map (·.id)).Nodup := by rw [hm.mid.ids]; exact hn
  have hs1' : rc.modified.foldlM Farm.modStep st.1 = .ok s1 := hs1
  obtain ⟨m1, _⟩ := Split.modFold_char _ hn1 hs1'
  have hcalc : calculateRewards s env lp sender untilE = .ok rc := by
    rw [← mid_calc hm.mid hlp]; exact hrc
  show s2.farms = _
  rw [(syncHistory_sameStore hs2).2.1, m1, hm.farms, List.map_map]
  apply List.map_congr_left
  intro q _
  simp only [Function.comp, Split.addC, doneSum, List.map_append, List.sum_append, List.map_cons, List.map_nil,
    List.sum_cons, List.sum_nil, Nat.add_zero]
  rw [calculateRewards_modTotal hrc q.id, lpTerms_of_ok hcalc, Nat.add_assoc]

theorem mid2_fold {s : FmState} {env : FmEnv} {sender : Addr} {untilE : Nat} (hn : (s.farms.map (·.id)).Nodup) :
    ∀ (rest done : List Denom) (st st' : FmState × List Coin), (done ++ rest).Nodup →
    Mid2 s env sender untilE done st → rest.foldlM (Farm.claimStep env sender untilE) st = .ok st' →
    Mid2 s env sender untilE (done ++ rest) st' := by
  intro rest
  induction rest with
  | nil =>
    intro done st st' _ hm h
    simp only [List.foldlM_nil, pure_ok] at h
    subst h
    rw [List.append_nil]; exact hm
  | cons lp rest ih =>
    intro done st st' hnd hm h
    simp only [List.foldlM_cons, bind_ok] at h
    obtain ⟨st1, h1, h2⟩ := h
    have hlp : lp ∉ done := by
      intro hx
      rw [List.nodup_append] at hnd
      exact hnd.2.2 lp hx lp List.mem_cons_self rfl
    have := ih (done ++ [lp]) st1 st' (by rw [List.append_assoc]; exact hnd) (mid2_step hn hm hlp h1) h2
    rw [List.append_assoc] at this
    exact this

/-- an accepted claim: every farm's `claimed_amount` grows by the sum of the terms computed for it -/
theorem claim_run2 {s s' : FmState} {env : FmEnv} {sender : Addr} {funds : List Coin} {u : Option Nat}
    {r : Response} (hn : (s.farms.map (·.id)).Nodup) (h : fmClaim s env sender funds u = .ok (s', r)) :
    ∃ cur untilE, fmCurrentEpoch s env = .ok cur ∧ untilEpochOrCurrent u cur = .ok untilE ∧ untilE ≤ cur ∧
      s'.farms = s.farms.map (Split.addC
        (doneSum s env sender untilE (uniqueDenoms (s.positionsBy sender true)))) := by
  obtain ⟨cur, untilE, sF, total, msgs, _, hop, hcur, hun, hfold, rfl, _, _⟩ := Farm.fmClaim_ok h
  have hmid := mid2_fold hn _ [] _ _ (by rw [List.nil_append]; exact uniqueDenoms_nodup _)
    ⟨mid_init s env sender untilE, by
      show s.farms = _
      have : ∀ l : List Farm, l.map (Split.addC (doneSum s env sender untilE [])) = l := fun l =>
        (List.map_congr_left (fun q _ => rfl)).trans (List.map_id l)
      exact (this _).symm⟩ hfold
  rw [List.nil_append] at hmid
  exact ⟨cur, untilE, hcur, hun, (Farm.untilEpochOrCurrent_ok hun).1, hmid.farms⟩

end MantraDex.LedSys
