/-
  Helper lemmas for `Properties/C14Lock.lean`: the execution tree of a single-asset LOCKED deposit
  (first leg, self-swap, reply, second leg, mint to the pool manager, lock call into the farm manager),
  and the matching two-step run.
-/
import MantraDex.Model.System
import MantraDex.Proofs.NumLemmas
import MantraDex.Proofs.BankLemmas
import MantraDex.Proofs.ProvideLemmas
import MantraDex.Proofs.TwoStepLemmas
import MantraDex.Proofs.LpSysRun
import MantraDex.Properties.C08
import MantraDex.Properties.C14

set_option linter.unusedSimpArgs false
set_option linter.unusedVariables false

namespace MantraDex.LockTS
open MantraDex
open MantraDex.C01 (coinsOf amt coinsOf_cons coinsOf_nil)

/-! ### the tree of a single-asset deposit with arbitrary lock options, down to the second leg -/

/-- `single_run_inv` for any `unlocking` / `lockId`: everything up to the second leg's handler result; the
    second leg's own sub-messages are left to the caller -/
theorem single_run_inv_gen {w wA : World} {b0 : Bank} {s0 : PmState} {u : Addr} {c : Coin}
    {ls ss : Option Nat} {recv : Option Addr} {pid : String} {unl : Option Nat} {lk : Option String}
    (h : execMsg 64 (w.at b0 s0) u
      (.wasmExec PM (.pm (.provideLiquidity ls ss recv pid unl lk)) [c]) = .ok wA) :
    ∃ (bA1 bA2 bA3 bA4 : Bank) (pool : PoolInfo) (ask : Denom) (sim : SwapComputation)
      (y : PmState × SwapResult) (sA6 : PmState) (rA6 : Response),
      b0.send u PM [c] = .ok bA1 ∧ s0.getPool pid = .ok pool ∧
      (unl.isSome && addrOrDefault (w.env bA1 s0) recv u != u) = false ∧
      computeSwap pool ⟨c.denom, c.amount / 2⟩ ask = .ok sim ∧
      bA1.send PM PM [⟨c.denom, c.amount / 2⟩] = .ok bA2 ∧
      swapCore s0 [⟨c.denom, c.amount / 2⟩] ask none ss pid = .ok y ∧
      bankRun w.tfFees bA2 PM
        (swapMsgs PM s0.config.feeCollector y.2.ret y.2.burnFee y.2.protocolFee) = .ok bA3 ∧
      bA3.bal PM c.denom = bA1.bal PM c.denom ∧
      bA3.bal PM ask = bA1.bal PM ask - (sim.protocolFee + sim.burnFee) ∧
      bA3.send PM PM [⟨c.denom, c.amount / 2⟩, ⟨ask, sim.ret⟩] = .ok bA4 ∧
      provideLiquidity { y.1 with buffer := none } (w.env bA4 { y.1 with buffer := none }) PM
        [⟨c.denom, c.amount / 2⟩, ⟨ask, sim.ret⟩] ls ss
        (some (addrOrDefault (w.env bA1 s0) recv u)) pid unl lk = .ok (sA6, rA6) ∧
      execSubs 60 (w.at bA4 sA6) PM rA6.msgs = .ok wA := by
  have h64 : (64 : Nat) = 63 + 1 := rfl
  rw [h64, execMsg_pm_at 63 w b0 s0 u _ [c] rfl] at h
  obtain ⟨bA1, h1, h⟩ := bind_ok.mp h
  obtain ⟨⟨sA2, rA2⟩, hprov, hsubs⟩ := bind_ok.mp h
  simp only [pmExecute] at hprov
  obtain ⟨pool, ask, sim, hp, hauth, -, -, hsim, hs2, hr2⟩ := pl_single (agg_single c) hprov
  simp only at hsubs
  rw [hr2] at hsubs
  obtain ⟨w1, w2, r, hin, hrep, hsec⟩ := execSubs_one_success (n := 62) hsubs
  -- the inner swap
  have hin' : execMsg (61 + 1) (w.at bA1 sA2) PM
      (.wasmExec PM (.pm (.swap ask none ss none pid)) [⟨c.denom, c.amount / 2⟩]) = .ok w1 := hin
  rw [execMsg_pm_at 61 w bA1 sA2 PM _ _ rfl] at hin'
  obtain ⟨bA2, h2, hin'⟩ := bind_ok.mp hin'
  obtain ⟨⟨sA3, rA3⟩, hsw, hsubs3⟩ := bind_ok.mp hin'
  simp only [pmExecute] at hsw
  rw [swapHandler_eq, hs2, swapCore_buf] at hsw
  obtain ⟨x, hx, hx2⟩ := map_ok.mp hsw
  obtain ⟨y, hcore, rfl⟩ := map_ok.mp hx
  simp only [Prod.mk.injEq] at hx2
  obtain ⟨rfl, rfl⟩ := hx2
  obtain ⟨hne, hhalf0, hps⟩ := swapCore_inv hcore
  simp only at hsubs3
  have hsubs3' : execSubs 61 (w.at bA2 { y.1 with buffer := _ }) PM
      ((swapMsgs PM s0.config.feeCollector y.2.ret y.2.burnFee y.2.protocolFee).map mkSub) = .ok w1 := hsubs3
  rw [execSubs_leaf_at _ 61 w bA2 _ PM (swapMsgs_leaf _ _ _ _ _)
    (by have := swapMsgs_length PM s0.config.feeCollector y.2.ret y.2.burnFee y.2.protocolFee; omega)] at hsubs3'
  obtain ⟨bA3, h3, hw1⟩ := bind_ok.mp hsubs3'
  simp only [pure_ok] at hw1
  subst hw1
  -- the reply
  rw [callReply_at] at hrep
  obtain ⟨⟨sA5, rA5⟩, hreply, hw2⟩ := bind_ok.mp hrep
  simp only [pure_ok, Prod.mk.injEq] at hw2
  obtain ⟨rfl, rfl⟩ := hw2
  obtain ⟨e1, e2, rfl, hr5⟩ := C14.reply_shape (buf := _) rfl hreply
  -- the second leg
  rw [hr5] at hsec
  have hsec' := execSubs_one_never (n := 61) hsec
  have hsec'' : execMsg (60 + 1) (w.at bA3 { y.1 with buffer := none }) PM
      (.wasmExec PM (.pm (.provideLiquidity ls ss (some (addrOrDefault (w.env bA1 s0) recv u)) pid unl lk))
        [⟨c.denom, c.amount / 2⟩, ⟨ask, sim.ret⟩]) = .ok wA := hsec'
  rw [execMsg_pm_at 60 w bA3 _ PM _ _ rfl] at hsec''
  obtain ⟨bA4, h4, hsec''⟩ := bind_ok.mp hsec''
  obtain ⟨⟨sA6, rA6⟩, hprov2, hsubs6⟩ := bind_ok.mp hsec''
  simp only [pmExecute] at hprov2
  exact ⟨bA1, bA2, bA3, bA4, pool, ask, sim, y, sA6, rA6, h1, hp, hauth, hsim, h2, hcore, h3, e1, e2, h4,
    hprov2, hsubs6⟩

/-! ### the locked tail of the multi-asset deposit handler -/

/-- the farm-manager message of a locked deposit -/
def lockFm (env : PmEnv) (unl : Nat) (lk : Option String) (recv : Addr) : FmMsg :=
  match lk with
  | some pid =>
    match env.fmPosition pid with
    | some _ => .expandPosition pid
    | none => .createPosition (some pid) unl (some recv)
  | none => .createPosition none unl (some recv)

theorem lockFm_lockCall (env : PmEnv) (unl : Nat) (lk : Option String) (recv a : Addr) (f : List Coin) :
    LpSys.LockCall (.wasmExec a (.fm (lockFm env unl lk recv)) f) := by
  unfold lockFm
  split
  · split <;> trivial
  · trivial

theorem plTail_some_inv {s s' : PmState} {env : PmEnv} {sender : Addr} {pool : PoolInfo}
    {deposits : List Coin} {ls : Option Nat} {recv : Addr} {unl : Nat} {lk : Option String} {shares : Nat}
    {msgs0 : List Msg} {r : Response}
    (h : plTail s env sender pool deposits ls recv (some unl) lk shares msgs0 = .ok (s', r)) :
    r.msgs = ((msgs0 ++ [Msg.tfMint ⟨pool.lpDenom, shares⟩ env.self]) ++
      [Msg.wasmExec s.config.farmManager (.fm (lockFm env unl lk recv)) [⟨pool.lpDenom, shares⟩]]).map mkSub ∧
    (∀ lid pos, lk = some lid → env.fmPosition lid = some pos → pos.1 = lid ∧ pos.2 = recv) := by
  unfold plTail at h
  simp only [] at h
  obtain ⟨pa', hpa, h⟩ := bind_ok.mp h
  simp only [↓ite_err_bind_ok] at h
  obtain ⟨hauth, h⟩ := h
  cases lk with
  | none =>
    simp only [↓pure_bind'] at h
    obtain ⟨as', has, h⟩ := bind_ok.mp h
    simp only [pure_ok, Prod.mk.injEq] at h
    obtain ⟨rfl, rfl⟩ := h
    refine ⟨?_, by intro _ _ h; cases h⟩
    simp only [ofMsgs_msgs, lockFm, List.append_assoc, List.cons_append, List.nil_append]
  | some lid =>
    simp only [] at h
    cases hfm : env.fmPosition lid with
    | none =>
      rw [hfm] at h
      simp only [↓pure_bind'] at h
      obtain ⟨as', has, h⟩ := bind_ok.mp h
      simp only [pure_ok, Prod.mk.injEq] at h
      obtain ⟨rfl, rfl⟩ := h
      refine ⟨?_, by intro _ _ h h2; cases h; rw [hfm] at h2; cases h2⟩
      simp only [ofMsgs_msgs, lockFm, hfm, List.append_assoc, List.cons_append, List.nil_append]
    | some pos =>
      obtain ⟨pid', pr⟩ := pos
      rw [hfm] at h
      simp only [↓ite_err_bind_ok, ↓pure_bind'] at h
      obtain ⟨hown, h⟩ := h
      obtain ⟨as', has, h⟩ := bind_ok.mp h
      simp only [pure_ok, Prod.mk.injEq] at h
      obtain ⟨rfl, rfl⟩ := h
      refine ⟨?_, ?_⟩
      · simp only [ofMsgs_msgs, lockFm, hfm, List.append_assoc, List.cons_append, List.nil_append]
      · intro _ _ h h2
        cases h; rw [hfm] at h2; cases h2
        simpa using hown

/-! ### runtime: leaf messages followed by more sub-messages, and the lock call -/

theorem execSubs_leaf_append_inv (ms : List Msg) (rest : List SubMsg) : ∀ (n : Nat) (w w' : World) (c : Addr),
    (∀ m ∈ ms, IsLeaf m) → execSubs n w c (ms.map mkSub ++ rest) = .ok w' →
    ∃ k b, n = k + ms.length ∧ bankRun w.tfFees w.bank c ms = .ok b ∧
      execSubs k { w with bank := b } c rest = .ok w' := by
  induction ms with
  | nil =>
    intro n w w' c _ h
    exact ⟨n, w.bank, rfl, rfl, h⟩
  | cons m ms ih =>
    intro n w w' c hl h
    cases n with
    | zero => simp [execSubs] at h
    | succ n =>
      have hm : IsLeaf m := hl m (List.mem_cons_self ..)
      simp only [List.map_cons, List.cons_append, execSubs, mkSub] at h
      split at h
      · rename_i w1 hw1
        simp only [ReplyOn.onSuccess, Bool.false_eq_true, if_false] at h
        cases n with
        | zero => simp [execMsg] at hw1
        | succ n =>
          rw [execMsg_leaf n w c m hm] at hw1
          obtain ⟨b1, hb1, hw1⟩ := bind_ok.mp hw1
          simp only [pure_ok] at hw1
          subst hw1
          obtain ⟨k, b, hk, hb, hrest⟩ := ih (n + 1) { w with bank := b1 } w' c
            (fun x hx => hl x (List.mem_cons_of_mem _ hx)) h
          refine ⟨k, b, by simp only [List.length_cons]; omega, ?_, hrest⟩
          simp only [bankRun, hb1]
          exact hb
      · simp only [ReplyOn.onError, Bool.false_eq_true, if_false] at h
        cases h

theorem execSubs_leaf_append_run (ms : List Msg) (rest : List SubMsg) : ∀ (k : Nat) (w w' : World) (c : Addr) (b : Bank),
    (∀ m ∈ ms, IsLeaf m) → 1 ≤ k → bankRun w.tfFees w.bank c ms = .ok b →
    execSubs k { w with bank := b } c rest = .ok w' →
    execSubs (k + ms.length) w c (ms.map mkSub ++ rest) = .ok w' := by
  induction ms with
  | nil =>
    intro k w w' c b _ _ hb h
    simp only [bankRun, Except.ok.injEq] at hb
    subst hb
    exact h
  | cons m ms ih =>
    intro k w w' c b hl hk hb h
    have hm : IsLeaf m := hl m (List.mem_cons_self ..)
    simp only [bankRun] at hb
    obtain ⟨b1, hb1, hb⟩ := bind_ok.mp hb
    have := ih k { w with bank := b1 } w' c b (fun x hx => hl x (List.mem_cons_of_mem _ hx)) hk hb h
    obtain ⟨k', rfl⟩ : ∃ k', k = k' + 1 := ⟨k - 1, by omega⟩
    have e : k' + 1 + (m :: ms).length = (k' + ms.length + 1) + 1 := by simp only [List.length_cons]; omega
    have e' : k' + 1 + ms.length = k' + ms.length + 1 := by omega
    rw [e' ] at this
    rw [e]
    simp only [List.map_cons, List.cons_append, execSubs, mkSub, execMsg_leaf (k' + ms.length) w c m hm, hb1,
      ok_bind, pure_ok, ReplyOn.onSuccess, Bool.false_eq_true, if_false]
    exact this

theorem execMsg_fm_eq (n : Nat) (w : World) (sender : Addr) (m : FmMsg) (funds : List Coin)
    (hne : funds.isEmpty = false) :
    execMsg (n + 1) w sender (.wasmExec FM (.fm m) funds) =
      (w.bank.send sender FM funds >>= fun b =>
        fmExecute w.fm ({ w with bank := b } : World).fmEnv sender funds m >>= fun sr =>
          execSubs n { w with bank := b, fm := sr.1 } FM sr.2.msgs) := by
  have hc : isContract FM = true := by decide
  simp only [execMsg, hc, hne, Bool.not_true, Bool.false_eq_true, if_false, callExecute,
    bne_self_eq_false, bind_assoc, pure_bind]

/-- the lock call, taken apart: the callee is the farm manager, the LP goes there, the handler answers
    without messages -/
theorem lock_call_inv {k : Nat} {W W' : World} {fa : Addr} {m : FmMsg} {coin : Coin}
    (hm : LpSys.LockCall (.wasmExec fa (.fm m) [coin]))
    (h : execSubs k W PM [mkSub (.wasmExec fa (.fm m) [coin])] = .ok W') :
    ∃ b fmS r, fa = FM ∧ W.bank.send PM FM [coin] = .ok b ∧
      fmExecute W.fm W.fmEnv PM [coin] m = .ok (fmS, r) ∧ r.msgs = [] ∧
      W' = { W with bank := b, fm := fmS } ∧ 3 ≤ k := by
  cases k with
  | zero => simp [execSubs] at h
  | succ k =>
    have h1 := execSubs_one_never h
    cases k with
    | zero => simp [execMsg] at h1
    | succ k =>
      obtain ⟨w1, w2, resp, hw1, hce, hs⟩ := SysPm.wasm_inv h1
      have hfa : fa = FM := by
        simp only [callExecute] at hce
        split at hce
        · cases hce
        · rename_i hcc
          simpa using hcc
      subst hfa
      rw [execMsg_fm_eq k W PM m [coin] rfl] at h1
      obtain ⟨b, hb, h1⟩ := bind_ok.mp h1
      obtain ⟨⟨fmS, r⟩, hfm, h1⟩ := bind_ok.mp h1
      have hfm' : fmExecute W.fm W.fmEnv PM [coin] m = .ok (fmS, r) := hfm
      have hr : r.msgs = [] := by
        cases m with
        | createPosition a b cc =>
          exact LpSys.nil_of_forall_false (LpSys.goodN_createPosition.out _ hfm')
        | expandPosition a =>
          exact LpSys.nil_of_forall_false (LpSys.goodN_expandPosition.out _ hfm')
        | _ => exact absurd hm id
      simp only [hr] at h1
      cases k with
      | zero => simp [execSubs] at h1
      | succ k =>
        simp only [execSubs, Except.ok.injEq] at h1
        exact ⟨b, fmS, r, rfl, hb, hfm', hr, h1.symm, by omega⟩

theorem lock_call_run {k : Nat} {W : World} {m : FmMsg} {coin : Coin} {b : Bank} {fmS : FmState} {r : Response}
    (hk : 3 ≤ k) (hb : W.bank.send PM FM [coin] = .ok b)
    (hfm : fmExecute W.fm W.fmEnv PM [coin] m = .ok (fmS, r)) (hr : r.msgs = []) :
    execSubs k W PM [mkSub (.wasmExec FM (.fm m) [coin])] = .ok { W with bank := b, fm := fmS } := by
  obtain ⟨k', rfl⟩ : ∃ k', k = k' + 1 + 1 + 1 := ⟨k - 3, by omega⟩
  have hfm' : fmExecute W.fm ({ W with bank := b } : World).fmEnv PM [coin] m = .ok (fmS, r) := hfm
  have h1 : execMsg (k' + 1 + 1) W PM (.wasmExec FM (.fm m) [coin]) = .ok { W with bank := b, fm := fmS } := by
    rw [execMsg_fm_eq (k' + 1) W PM m [coin] rfl, hb]
    simp only [ok_bind, hfm', hr, execSubs]
  simp only [execSubs, mkSub, h1, ReplyOn.onSuccess, Bool.false_eq_true, if_false]


/-! ### the locked deposit handler sees the same thing in both runs; bank and farm-manager helpers -/

theorem provide_multi_congr_lock (s : PmState) (env1 env2 : PmEnv) (sender1 sender2 : Addr) (funds deps : List Coin)
    (ls ss : Option Nat) (recv1 recv2 : Option Addr) (pid : String) (unl : Nat) (lk : Option String) (ra : Addr)
    (hagg : aggregateCoins funds = .ok deps) (hlen : deps.length ≠ 1)
    (hs : env1.supply = env2.supply) (hself : env1.self = env2.self)
    (hfp : env1.fmPosition = env2.fmPosition)
    (hr1 : addrOrDefault env1 recv1 sender1 = ra) (hr2 : addrOrDefault env2 recv2 sender2 = ra)
    (ha1 : (ra == sender1 || sender1 == env2.self) = true) (ha2 : (ra == sender2 || sender2 == env2.self) = true) :
    provideLiquidity s env1 sender1 funds ls ss recv1 pid (some unl) lk =
      provideLiquidity s env2 sender2 funds ls ss recv2 pid (some unl) lk := by
  unfold provideLiquidity
  simp only [hagg, ok_bind, hlen, if_false, hs, hself, hfp, hr1, hr2, ha1, ha2]

theorem send_rel {bA bA' bB : Bank} {u frm to : Addr} {o : Denom} {r : Nat} {cs : List Coin}
    (hrel : OddRel bA bB u o r) (h : bA.send frm to cs = .ok bA')
    (hle : ∀ d, coinsOf cs d ≤ bB.bal frm d) :
    ∃ bB', bB.send frm to cs = .ok bB' ∧ OddRel bA' bB' u o r := by
  obtain ⟨hs, hfA, hfB, hb⟩ := hrel
  obtain ⟨⟨rr, hn⟩, MA⟩ := send_spec h
  obtain ⟨bB', hB⟩ := send_ex (to := to) hfB hn hle
  obtain ⟨_, MB⟩ := send_spec hB
  refine ⟨bB', hB, ?_, by rw [MA.fa]; exact hfA, by rw [MB.fa]; exact hfB, ?_⟩
  · funext d
    rw [MA.sup, MB.sup, hs]
  · intro a d
    have := hb a d
    have h1 := MA.bal a d
    have h2 := MB.bal a d
    omega

theorem mint_self_le {b b' : Bank} {to : Addr} {cs : List Coin} (h : b.mint to cs = .ok b') :
    ∀ d, coinsOf cs d ≤ b'.bal to d := by
  intro d
  obtain ⟨_, M⟩ := mint_spec h
  rw [M.bal to d]
  simp

theorem savePosition_mem {s : FmState} {q p : Position} (h : p ∈ (s.savePosition q).positions) :
    p = q ∨ p ∈ s.positions := by
  unfold FmState.savePosition at h
  split at h
  · simp only [List.mem_map] at h
    obtain ⟨x, hx, rfl⟩ := h
    split
    · exact Or.inl rfl
    · exact Or.inr hx
  · have := (FH.insertPosSorted_perm q s.positions).mem_iff.1 h
    simpa using this

theorem createPosition_mem {s s' : FmState} {env : FmEnv} {sender : Addr} {funds : List Coin}
    {id : Option String} {unl : Nat} {r0 : Addr} {r : Response}
    (h : createPosition s env sender funds id unl (some r0) = .ok (s', r)) :
    ∀ p ∈ s'.positions, p ∈ s.positions ∨ p.receiver = r0 := by
  obtain ⟨lp, q, s1, _, _, _, _, hrecv, _, _, hs1, hss⟩ := C08.createPosition_ok h
  intro p hp
  rw [hss.1] at hp
  rcases savePosition_mem hp with rfl | hp
  · exact Or.inr hrecv
  · rw [hs1] at hp
    exact Or.inl hp

theorem expandPosition_mem {s s' : FmState} {env : FmEnv} {sender : Addr} {funds : List Coin}
    {id : String} {r : Response} (h : expandPosition s env sender funds id = .ok (s', r)) :
    ∃ p0, s.getPosition id = some p0 ∧ ∀ p ∈ s'.positions, p ∈ s.positions ∨ p.receiver = p0.receiver := by
  unfold expandPosition at h
  cases hg : s.getPosition id with
  | none => rw [hg] at h; simp [FH.error_bind] at h
  | some p2 =>
    rw [hg] at h
    simp only [bind_ok, FH.error_bind, pure_bind', FH.ite_err_ok, ckAdd_ok, pure_ok, Prod.mk.injEq] at h
    obtain ⟨c, hc, _, hden, hopen, hauth, a, ⟨_, rfl⟩, s2, h2, rfl, rfl⟩ := h
    refine ⟨p2, rfl, ?_⟩
    intro p hp
    rw [(updateWeights_sameStore h2).1] at hp
    rcases savePosition_mem hp with rfl | hp
    · exact Or.inr rfl
    · exact Or.inl hp


/-! ### the whole tree of a single-asset LOCKED deposit -/

/-- the execution tree of a single-asset locked deposit by a valid account, spelled out: funds in, first leg
    (receiver = sender enforced), self-swap, reply, second leg (two-coin self-call), mints, mint of the LP to the
    pool manager itself, lock call into the farm manager (which answers without messages) -/
theorem locked_run_inv {w wA : World} {b0 : Bank} {s0 : PmState} {u : Addr} {c : Coin}
    {ls ss : Option Nat} {recv : Option Addr} {pid : String} {unl : Nat} {lk : Option String}
    (hvu : w.validAddr u = true)
    (h : execMsg 64 (w.at b0 s0) u
      (.wasmExec PM (.pm (.provideLiquidity ls ss recv pid (some unl) lk)) [c]) = .ok wA) :
    ∃ (bA1 bA2 bA3 bA4 bA5 bA6 : Bank) (pool : PoolInfo) (ask : Denom) (sim : SwapComputation)
      (y : PmState × SwapResult) (sA6 : PmState) (rA6 : Response) (ms0 : List Msg) (lp : Denom) (shares : Nat)
      (fmS : FmState) (rF : Response),
      b0.send u PM [c] = .ok bA1 ∧ s0.getPool pid = .ok pool ∧
      addrOrDefault (w.env bA1 s0) recv u = u ∧
      computeSwap pool ⟨c.denom, c.amount / 2⟩ ask = .ok sim ∧
      bA1.send PM PM [⟨c.denom, c.amount / 2⟩] = .ok bA2 ∧
      swapCore s0 [⟨c.denom, c.amount / 2⟩] ask none ss pid = .ok y ∧
      bankRun w.tfFees bA2 PM
        (swapMsgs PM s0.config.feeCollector y.2.ret y.2.burnFee y.2.protocolFee) = .ok bA3 ∧
      bA3.bal PM c.denom = bA1.bal PM c.denom ∧
      bA3.bal PM ask = bA1.bal PM ask - (sim.protocolFee + sim.burnFee) ∧
      bA3.send PM PM [⟨c.denom, c.amount / 2⟩, ⟨ask, sim.ret⟩] = .ok bA4 ∧
      provideLiquidity { y.1 with buffer := none } (w.env bA4 { y.1 with buffer := none }) PM
        [⟨c.denom, c.amount / 2⟩, ⟨ask, sim.ret⟩] ls ss (some u) pid (some unl) lk = .ok (sA6, rA6) ∧
      rA6.msgs = ((ms0 ++ [Msg.tfMint ⟨lp, shares⟩ PM]) ++
        [Msg.wasmExec FM (.fm (lockFm (w.env bA4 { y.1 with buffer := none }) unl lk u)) [⟨lp, shares⟩]]).map mkSub ∧
      (∀ m ∈ ms0, IsMint m) ∧ ms0.length ≤ 56 ∧
      bankRun w.tfFees bA4 PM (ms0 ++ [Msg.tfMint ⟨lp, shares⟩ PM]) = .ok bA5 ∧
      bA5.send PM FM [⟨lp, shares⟩] = .ok bA6 ∧
      fmExecute w.fm w.fmEnv PM [⟨lp, shares⟩]
        (lockFm (w.env bA4 { y.1 with buffer := none }) unl lk u) = .ok (fmS, rF) ∧ rF.msgs = [] ∧
      (∀ lid pos, lk = some lid → (w.env bA4 { y.1 with buffer := none }).fmPosition lid = some pos →
        pos.1 = lid ∧ pos.2 = u) ∧
      wA = { w.at bA6 sA6 with fm := fmS } := by
  obtain ⟨bA1, bA2, bA3, bA4, pool, ask, sim, y, sA6, rA6, h1, hp, hauth, hsim, h2, hcore, h3, e1, e2, h4,
    hprov2, hsubs6⟩ := single_run_inv_gen h
  have hru : addrOrDefault (w.env bA1 s0) recv u = u := by simpa using hauth
  rw [hru] at hprov2
  obtain ⟨hne, -, -⟩ := swapCore_inv hcore
  simp only at hne
  obtain ⟨deps, hagg, -⟩ := pl_agg hprov2
  have hlen : deps.length ≠ 1 := by
    rw [aggregateCoins_length (by simp [hne]) hagg]; simp
  obtain ⟨pool2, shares, ms0, -, hm0, htail⟩ := pl_multi hagg hlen hprov2
  have hv : ∀ b s a, (w.env b s).validAddr a = w.validAddr a := fun _ _ _ => rfl
  have hr2 : addrOrDefault (w.env bA4 { y.1 with buffer := none }) (some u) PM = u := by
    simp only [addrOrDefault, hv, hvu, if_true]
  rw [hr2] at htail
  obtain ⟨hmsgs, hpos⟩ := plTail_some_inv htail
  have hself : (w.env bA4 { y.1 with buffer := none }).self = PM := rfl
  rw [hself] at hmsgs
  rw [hmsgs, List.map_append, List.map_cons, List.map_nil] at hsubs6
  have hleaf : ∀ m ∈ ms0 ++ [Msg.tfMint ⟨pool2.lpDenom, shares⟩ PM], IsLeaf m := by
    intro m hm
    rcases List.mem_append.1 hm with hm | hm
    · exact isMint_leaf (hm0 m hm)
    · simp only [List.mem_singleton] at hm; subst hm; trivial
  obtain ⟨k, bA5, hk, h5, hlock⟩ := execSubs_leaf_append_inv _ _ _ _ _ _ hleaf hsubs6
  obtain ⟨bA6, fmS, rF, hfa, h6, hfm, hrF, hwA, hk3⟩ := lock_call_inv (lockFm_lockCall _ _ _ _ _ _) hlock
  rw [hfa] at hmsgs
  refine ⟨bA1, bA2, bA3, bA4, bA5, bA6, pool, ask, sim, y, sA6, rA6, ms0, pool2.lpDenom, shares, fmS, rF,
    h1, hp, hru, hsim, h2, hcore, h3, e1, e2, h4, hprov2, hmsgs, hm0, ?_, h5, h6, hfm, hrF, hpos, hwA⟩
  simp only [List.length_append, List.length_singleton] at hk
  omega

/-- whatever the lock call of a deposit for `u` does to the positions, it does to positions of `u` -/
theorem lock_positions {w : World} {b : Bank} {s : PmState} {unl : Nat} {lk : Option String} {u : Addr}
    {funds : List Coin} {env : FmEnv} {fmS : FmState} {rF : Response}
    (hfm : fmExecute w.fm env PM funds (lockFm (w.env b s) unl lk u) = .ok (fmS, rF))
    (hpos : ∀ lid pos, lk = some lid → (w.env b s).fmPosition lid = some pos → pos.1 = lid ∧ pos.2 = u) :
    ∀ p ∈ fmS.positions, p ∈ w.fm.positions ∨ p.receiver = u := by
  cases lk with
  | none => exact createPosition_mem (id := none) hfm
  | some lid =>
    cases hfp : (w.env b s).fmPosition lid with
    | none =>
      simp only [lockFm, hfp] at hfm
      exact createPosition_mem (id := some lid) hfm
    | some pos =>
      simp only [lockFm, hfp] at hfm
      obtain ⟨p0, hg, hall⟩ := expandPosition_mem (id := lid) hfm
      have hu : pos.2 = u := (hpos lid pos rfl hfp).2
      have hp0 : p0.receiver = u := by
        have hfp' : (if s.config.farmManager == FM then
            (w.fm.getPosition lid).map fun p => (p.id, p.receiver) else none) = some pos := hfp
        rw [hg] at hfp'
        split at hfp'
        · simp only [Option.map_some, Option.some.injEq] at hfp'
          rw [← hfp'] at hu
          exact hu
        · cases hfp'
      intro p hp
      rcases hall p hp with h | h
      · exact Or.inl h
      · exact Or.inr (h.trans hp0)

end MantraDex.LockTS
